#!/usr/bin/env python3
"""Regenerates MANIFEST.json from the table below (kept in one place so the manifest stays valid)."""
import json, os
ROOT = os.path.dirname(os.path.abspath(__file__))

TB = ("Trusted base: Lean 4.33 kernel, axioms propext/Classical.choice/Quot.sound only (audited per theorem every run); "
      "the model is hand-written and tied to /repo by differential execution of model and implementation on generated inputs "
      "(harness + driver trusted to report honestly); bigint::U256, cosmwasm_std, cw20-base, cw-multi-test assumed as modelled (DESIGN §8).")

CLAIMS = {
 "C01": ("Lean theorems over the model of compute_swap: closed form of the gross output, exact characterisation of the "
         "deviation (inWindow, one unit), C01 outside the window / for shallow pools / with non-zero commission, and the proved "
         "negation of the full statement (witnesses incl. the input a repository test pins). System level (C03W.swap_product): every successful swap through any entry point that is not in the window keeps the product of the pair's actual reserves and keeps positive reserves positive. Correspondence: compute_swap family with an in-window solver, world families swap/route. "
         "The full property is false of the code (known finding KF-SWAP-WINDOW); a proof is the right level because the failing region has relative width 1e-18.",
         "§6 C01, §7 D1", "Lean 4 proof (closed form + window characterisation) + differential correspondence"),
 "C04": ("Lean theorems: refund bracket r·a/S − r/1e18 − 1 < x ≤ r·a/S, refund ≤ reserve, totality on legal burns, exact success characterisation, monotonicity in burn amount and in reserve, superadditivity (splitting a burn never pays more). "
         "Correspondence: refund family (the arithmetic of withdraw_liquidity) on 128-bit stratified operands.",
         "§6 C04", "Lean 4 proof (floor-division bounds) + differential correspondence"),
 "C05": ("Lean theorems: share bracket on positive supply, exact min formula, empty-pair gate (whitelist, minimums, ⌊√(d0·d1)⌋), success characterisation, monotonicity in the deposits, superadditivity (splitting a provision never mints more). "
         "Correspondence: lp_share family on both branches.", "§6 C05", "Lean 4 proof + differential correspondence"),
 "C06": ("Lean theorems: commission = ⌊c·gross⌋, return+commission+spread = ⌊a·y/x⌋, the one-unit bracket around g(1−γ) (window included), monotonicity in the offer and in the ask reserve, "
         "result ranges and the exact abort set. Correspondence: compute_swap / compute_swap_mono families.",
         "§6 C06", "Lean 4 proof + differential correspondence"),
 "C08": ("Lean theorems: for every Uint256/Decimal256 operator `op a b = ok r ↔ guard ∧ r = exact`, rounding toward zero by < 1 unit, no wrapped results, limb-level width conversions and limb order. "
         "Correspondence: every public operator/constructor/comparison/conversion against Lean's GMP naturals on limb-boundary and overflow-frontier operands.",
         "§6 C08", "Lean 4 proof (operator specifications) + differential correspondence against GMP naturals"),
 "C09": ("Lean theorem: a native declaration is accepted iff the first attached coin of that denom (absent = 0) carries exactly the declared amount; rejection is an ordinary error. "
         "Correspondence: the finite funds-shape matrix enumerated completely.", "§6 C09", "Lean 4 proof (decision logic) + exhaustive finite matrix"),
 "C10": ("Lean theorems: soundness and completeness of both branches of assert_max_spread in cross-multiplied integer form, correctness and success set of the decimals normalisation, guard only with max_spread, monotonicity in the limit (accepted at ms ⇒ accepted at every larger ms, any belief price). "
         "Correspondence: all 20×20 decimal pairs × both branches with values solved around the limit; guard vs other failure compared by enum variant; world family swap: every accepted swap is judged against the bound on its reported amounts with the pair's own decimals, every guard rejection against the quote taken just before. World-level theorems (C10W): a successful swap — direct or through the cw20 hook — passed assert_max_spread on its reported amounts with the pair's own decimals in offer/ask order, hence satisfies the bound; a guard rejection comes only from that call on the would-be amounts.",
         "§6 C10", "Lean 4 proof + differential correspondence"),
 "C12": ("Lean theorems: closed integer form of compute_offer_amount, never above the documented closed form, below it by at most the stated rounding, commission formula, monotonicity of the reverse quote in the ask. "
         "Correspondence: compute_offer_amount family around the feasibility frontier.", "§6 C12", "Lean 4 proof + differential correspondence"),
 "C02": ("Lean theorems over the world model: effect of a successful swap through both entry points (offered asset is a pair asset, is the asset delivered, in the declared amount; "
         "ask reserve falls by exactly the reported return, receiver credited exactly that; nothing else moves), rejection of hooks naming another asset or amount (defect D2, repaired), reported amounts = pricing function. "
         "Correspondence: world families swap/mixed with the full message-shape cross product; the oracle checks the settlement equations on the implementation's own ledger.",
         "§6 C02, §7 D2", "Lean 4 proof (transaction effect on a world model) + differential correspondence on cw-multi-test"),
 "C11": ("Lean theorems: an accepted route with minimum_receive = m ends with the recipient's balance of the final asset at least m above its value at router entry, for both entry points; "
         "failure leaves the world unchanged; empty routes rejected. Correspondence: world families route/mixed.",
         "§6 C11", "Lean 4 proof (transaction post-condition) + differential correspondence on cw-multi-test"),
 "C14": ("Lean theorems: one per guarded entry point (factory messages only from the owner, ownership follows updates and changes in no other way, pair decimals update only from its factory, "
         "withdraw hook only from the LP token, swap hook only from a pair cw20 naming itself, token offers rejected on execute-swap, router internals only from the router), rejected calls change nothing. "
         "Correspondence: world families auth/factory/mixed enumerating callers x entry points before and after ownership transfer.",
         "§6 C14", "Lean 4 proof (decision logic per entry point) + differential correspondence on cw-multi-test"),
 "C16": ("Lean theorems: the registry key is symmetric and injective on unordered identifier sets (after the repair of D3; the old format's collision is a proved witness), lookup/insert laws, sortedness of the registry. "
         "Correspondence: pair_key family over colliding identifiers, world family factory comparing factory records with pair self-descriptions in both orders after every step.",
         "§6 C16, §7 D3", "Lean 4 proof (injectivity, registry laws) + differential correspondence"),
 "C18": ("Lean theorems: render/parse round trips for Uint256 and Decimal256, canonical form and denotation of rendered text, exact characterisation of accepted strings (parse = denotation, ≤18 fractional digits), JSON round trips, width conversions. "
         "Correspondence: text family (exhaustive short strings, structured values, long numerals).",
         "§6 C18", "Lean 4 proof (round-trip laws on numerals) + differential correspondence"),
 "C19": ("Lean theorems: page bounds (≤30, default 10, ≤ limit), the exclusive bound means strictly-after under NoLowExt, the page walk visits every registered pair exactly once and ends (no fuel bound in the statement), "
         "NoLowExt for identifiers with bytes ≥ 2, necessity of the hypothesis, sortedness preserved by insertion. Correspondence: read_pairs over real storage, world family factory.",
         "§6 C19", "Lean 4 proof (list algorithm, termination, completeness) + differential correspondence"),
 "C03": ("Lean theorems: the share-value order NonDecr is reflexive and transitive (so it lifts to histories), and is preserved by provisions (share formula), withdrawals (refund formula), out-of-window swaps (pricing function, commission kept), "
         "donations and holder burns; the unrestricted statement is refuted by a proved witness (same root cause as C01, known finding KF-SWAP-WINDOW), and at system level (C03W): every operation of every external actor either keeps the share value of a pair or performs an in-window swap on it, preserving an inductive invariant; lifted to all finite histories (history_nondecr = C03_partial: the full statement minus exactly the in-window swaps), and from genesis (C03G: a successful CreatePair establishes the invariant, every later history preserves it). "
         "Correspondence + oracle: after every step of every world family (accepted or rejected) reserve0*reserve1/S^2 of every pair is compared by exact cross-multiplication on the implementation's own ledger.",
         "§6 C03, §7 D1", "Lean 4 proof (order preserved by every pricing function; composition) + differential correspondence on cw-multi-test"),
 "C07": ("Lean theorems over the world model, for every operation kind: frame (no account outside Touched changes any balance), allowance frame (bystanders' allowances are never consumed), "
         "conservation of native coins and of cw20 tokens relative to their supply over any duplicate-free account list containing the touched accounts, supply of non-LP tokens changes only by a holder's own burn, "
         "LP supply changes exactly by the minted share (plus the reserved unit) on provision and by the burned amount on withdrawal; an account that is not the actor, a pair or the router — in particular the designated receiver — never loses anything (receiver_never_loses). Proved once through an inductive `Moves` relation over ledger primitives; the operation universe includes third parties acting through cw20 allowances (TransferFrom / SendFrom / BurnFrom / DecreaseAllowance). "
         "Correspondence + oracle: the full ledger is diffed around every step of the world families against the permitted set.",
         "§6 C07", "Lean 4 proof (frame + conservation by induction over ledger primitives) + differential correspondence on cw-multi-test"),
 "C13": ("Lean theorems: exact meaning of the route-shape check (the asks produced and never consumed later; accepted iff exactly one), empty and two-output routes rejected; every hop spends the router's whole balance of its offer asset and leaves none; "
         "pass-through for any number of hops (C13W.route_passthrough, by induction over the hop list; C13X: cyclic routes, transaction level with the quote of the pre-transaction world, complete effect incl. recipients that are pools of the route; C13C: every router entry point runs the shape check): under pairwise distinct pairs and an otherwise empty router the recipient receives exactly the router's quote for the same state, every route asset ends at zero in the router, nothing else reaches the recipient. "
         "Correspondence + oracle: world family route (1-4 hops, both entry points) compares the recipient's gain with the router's own simulation and checks the router's balances are zero afterwards.",
         "§6 C13", "Lean 4 proof (route shape + per-hop pass-through) + differential correspondence on cw-multi-test"),
 "C17": ("Lean theorems: the registry invariant RegOK (keys sorted, records keyed by their own assets, record = pair self-description, distinct pairs) is preserved by creation, by decimals re-registration for any number of pairs, and by every other operation; "
         "after a re-registration every record and pair containing the denom carries the new decimals in the denom's position, all else unchanged, nothing moved (defect D4 repaired). "
         "Correspondence + oracle: world family factory with up to 47 pairs.", "§6 C17, §7 D4", "Lean 4 proof (invariant by induction over the registry fold) + differential correspondence on cw-multi-test"),
 "C20": ("Lean theorems: in any world where the pair is well-formed, a holder can withdraw any amount up to its balance whose entitlement is at least r_i/1e18 + 2 of each asset: the transaction succeeds (each step of the handler is shown to succeed), "
         "with refunds ≥ 2; the supply bound it needs is cw20 conservation in inductive list-sum form, proved preserved by every operation; C20W: the same after any history of external actors' operations on a pair satisfying the invariant, and from the pair's creation on; C20B: the 128-bit bounds it needs are invariants (cw20 supplies and balances, circulating native totals), so only the initial ledger is constrained. "
         "Correspondence + oracle: world families inject withdrawals after arbitrary prefixes and the oracle demands success whenever the entitlement condition holds in the observed state.",
         "§6 C20", "Lean 4 proof (liveness: every step of the withdrawal succeeds under an inductive invariant) + differential correspondence on cw-multi-test"),
 "C15": ("Lean theorems: soundness and completeness of assert_slippage_tolerance, >100% always rejected, no abort on positive 128-bit inputs, monotonicity in the tolerance (accepted at t ⇒ accepted at every t' in [t, 100%]). "
         "Correspondence: slippage family with deposits solved around both ratio limits; world family liquidity: accepted provisions and guard rejections judged on the deposits in pair order and the observed reserves. World-level theorems (C15W): an accepted provision passed assert_slippage_tolerance on the deposits in pair order and the reserves net of native deposits; a guard rejection comes only from that call.", "§6 C15", "Lean 4 proof + differential correspondence"),
}

# claimed in CLAIMS but proofs still being written
PENDING = {}

NOT_YET = {}

def main():
    import importlib.util
    spec = importlib.util.spec_from_file_location("checklib", os.path.join(ROOT, "checklib.py"))
    cl = importlib.util.module_from_spec(spec); spec.loader.exec_module(cl)
    checks = []
    for pid in sorted(CLAIMS):
        if pid not in cl.PLAN or pid in PENDING:
            continue
        text, ref, tech = CLAIMS[pid]
        checks.append({
            "property_id": pid,
            "quick_cmd": f"./check {pid} --tier quick",
            "thorough_cmd": f"./check {pid} --tier thorough",
            "evidence_file": f"/verif/evidence/{pid}.json",
            "replay_cmd_template": f"./check {pid} --replay {{path}}",
            "engine": "lean-halo",
            "level_claimed": {"category": "proof", "text": text, "design_ref": "DESIGN.md " + ref},
            "level_note": TB,
            "technique": tech,
        })
    claimed = {c["property_id"] for c in checks}
    na = [{"property_id": p, "reason": r} for p, r in sorted(NOT_YET.items()) if p not in claimed]
    for pid in sorted(CLAIMS):
        if pid not in claimed:
            na.append({"property_id": pid, "reason": PENDING.get(pid, "check not registered yet")})
    m = {
        "version": 1,
        "setup_cmd": "./setup.sh",
        "hooks": {
            "guard": "--cfg halotrade_zone_halotrade_contracts_verif",
            "enable": "none needed: every function and entry point the harness calls is already pub; the harness is a separate crate with path dependencies on /repo",
            "baseline_off_cmd": "cd /repo && cargo test --workspace --no-fail-fast --offline",
            "source_commits": [],
            "add_only": True,
        },
        "engines": [{
            "name": "lean-halo", "path": "/verif/lean",
            "serves_properties": sorted(claimed),
            "kind_free_text": "Lean 4 model + theorems (Halo/Props), compiled model driver; Rust harness /verif/harness runs the real code; ./check orchestrates",
        }],
        "checks": checks,
        "not_applicable": sorted(na, key=lambda x: x["property_id"]),
        "notes": "See DESIGN.md. Known findings: KNOWN_FINDINGS.txt.",
    }
    json.dump(m, open(os.path.join(ROOT, "MANIFEST.json"), "w"), indent=1)
    print("claimed:", sorted(claimed))

if __name__ == "__main__":
    main()
