//! SplitMix64 — the single source of randomness; every emitted line is self-contained.
use bigint::U256;

pub struct Rng(pub u64);

impl Rng {
    pub fn new(seed: u64) -> Self {
        Rng(seed ^ 0x9E37_79B9_7F4A_7C15)
    }
    pub fn next(&mut self) -> u64 {
        self.0 = self.0.wrapping_add(0x9E37_79B9_7F4A_7C15);
        let mut z = self.0;
        z = (z ^ (z >> 30)).wrapping_mul(0xBF58_476D_1CE4_E5B9);
        z = (z ^ (z >> 27)).wrapping_mul(0x94D0_49BB_1331_11EB);
        z ^ (z >> 31)
    }
    /// uniform in 0..n (n > 0)
    pub fn below(&mut self, n: u64) -> u64 {
        self.next() % n
    }
    pub fn range(&mut self, lo: u64, hi: u64) -> u64 {
        lo + self.below(hi - lo + 1)
    }
    pub fn chance(&mut self, num: u64, den: u64) -> bool {
        self.below(den) < num
    }
    pub fn pick<'a, T>(&mut self, xs: &'a [T]) -> &'a T {
        &xs[self.below(xs.len() as u64) as usize]
    }
    pub fn u128_raw(&mut self) -> u128 {
        ((self.next() as u128) << 64) | self.next() as u128
    }
    pub fn u256_raw(&mut self) -> U256 {
        U256([self.next(), self.next(), self.next(), self.next()])
    }
    /// value with exactly `bits` significant bits (0 → 0)
    pub fn u128_bits(&mut self, bits: u32) -> u128 {
        if bits == 0 {
            return 0;
        }
        let v = self.u128_raw();
        let v = if bits >= 128 { v } else { v & ((1u128 << bits) - 1) };
        v | (1u128 << (bits - 1))
    }
    pub fn u256_bits(&mut self, bits: u32) -> U256 {
        if bits == 0 {
            return U256::zero();
        }
        let v = self.u256_raw();
        let v = if bits >= 256 {
            v
        } else {
            v & ((U256::one() << (bits as usize)) - U256::one())
        };
        v | (U256::one() << ((bits - 1) as usize))
    }
}

pub const E18: u128 = 1_000_000_000_000_000_000;

/// magnitude-stratified 128-bit operand with over-weighted special values
pub fn gen_u128(r: &mut Rng) -> u128 {
    match r.below(20) {
        0 => *r.pick(&[0u128, 1, 2, 3, 10]),
        1 => {
            let k = r.range(0, 127) as u32;
            let d = r.below(3) as u128;
            (1u128 << k).wrapping_add(d).wrapping_sub(1)
        }
        2 => {
            let k = r.range(0, 38) as u32;
            let p = 10u128.pow(k);
            let d = r.below(3) as u128;
            p.wrapping_add(d).wrapping_sub(1)
        }
        3 => u128::MAX - r.below(3) as u128,
        4 => E18.wrapping_add(r.below(5) as u128).wrapping_sub(2),
        _ => {
            let bits = r.range(0, 128) as u32;
            r.u128_bits(bits)
        }
    }
}

/// operand bounded by `max_bits`
pub fn gen_u128_upto(r: &mut Rng, max_bits: u32) -> u128 {
    let v = gen_u128(r);
    if max_bits >= 128 {
        v
    } else {
        let m = (1u128 << max_bits) - 1;
        if v > m {
            let bits = r.range(0, max_bits as u64) as u32;
            r.u128_bits(bits)
        } else {
            v
        }
    }
}

pub fn pow10_256(k: u32) -> U256 {
    U256::from(10u64).pow(U256::from(k))
}

/// 256-bit operand structured around limb boundaries, powers of ten and maxima
pub fn gen_u256(r: &mut Rng) -> U256 {
    match r.below(24) {
        0 => U256::from(*r.pick(&[0u64, 1, 2, 10])),
        1 | 2 => {
            // 2^k - 1, 2^k, 2^k + 1, emphasising limb boundaries
            let k = if r.chance(1, 2) {
                *r.pick(&[64u32, 128, 192, 255])
            } else {
                r.range(0, 255) as u32
            };
            let p = U256::one() << (k as usize);
            match r.below(3) {
                0 => p - U256::one(),
                1 => p,
                _ => p.overflowing_add(U256::one()).0,
            }
        }
        3 | 4 => {
            let k = r.range(0, 77) as u32;
            let p = pow10_256(k);
            match r.below(3) {
                0 => p - U256::one(),
                1 => p,
                _ => p + U256::one(),
            }
        }
        5 => U256::MAX - U256::from(r.below(3)),
        6 => {
            // all-ones / alternating limbs
            let pat = [0u64, u64::MAX, 0xAAAA_AAAA_AAAA_AAAA, 0x5555_5555_5555_5555, 1, 1u64 << 63];
            U256([*r.pick(&pat), *r.pick(&pat), *r.pick(&pat), *r.pick(&pat)])
        }
        7 => U256::from((E18 + r.below(5) as u128 - 2) as u64),
        _ => {
            let bits = r.range(0, 256) as u32;
            r.u256_bits(bits)
        }
    }
}

/// commission rates / tolerances / prices as 18-digit atomics
pub fn gen_rate(r: &mut Rng) -> u128 {
    match r.below(16) {
        0 => 0,
        1 => 1,
        2 => 3_000_000_000_000_000,
        3 => 30_000_000_000_000_000,
        4 => 300_000_000_000_000_000,
        5 => 500_000_000_000_000_000,
        6 => E18 - 1,
        7 => E18,
        8 => E18 + 1 + r.below(1000) as u128,
        9 => r.below(E18 as u64 * 3) as u128,
        _ => r.below(E18 as u64) as u128,
    }
}

/// rate in [0, 1]
pub fn gen_rate01(r: &mut Rng) -> u128 {
    let c = gen_rate(r);
    if c > E18 {
        c % (E18 + 1)
    } else {
        c
    }
}
