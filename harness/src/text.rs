use crate::fnfam::Out;
use crate::rng::Rng;
pub fn eval(_a: &[&str]) -> String { unimplemented!() }
pub fn generate(_o: &mut Out, _r: &mut Rng, _n: u64) {}
