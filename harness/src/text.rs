//! `text` family: Display / FromStr / serde-JSON / width conversions of Uint256 and Decimal256.
//! Strings travel hex-encoded (`h` + hex bytes, `h` alone for the empty string).
use crate::fnfam::{guarded, Out};
use crate::rng::*;
use bigint::U256;
use bignumber::{Decimal256, Uint256};
use cosmwasm_std::Decimal;
use std::convert::TryFrom;
use std::str::FromStr;

pub fn hex(s: &str) -> String {
    let mut o = String::from("h");
    for b in s.bytes() {
        o.push_str(&format!("{:02x}", b));
    }
    o
}
pub fn unhex(h: &str) -> String {
    let h = &h[1..];
    let bytes: Vec<u8> = (0..h.len() / 2).map(|i| u8::from_str_radix(&h[2 * i..2 * i + 2], 16).unwrap()).collect();
    String::from_utf8(bytes).unwrap()
}
fn u256(s: &str) -> U256 {
    U256::from_dec_str(s).unwrap()
}

pub fn eval(a: &[&str]) -> String {
    let op = a[0];
    guarded(|| match op {
        "dec_to_string" => format!("ok {}", hex(&Decimal256(u256(a[1])).to_string())),
        "uint_to_string" => format!("ok {}", hex(&Uint256(u256(a[1])).to_string())),
        "uint_into_string" => {
            let s: String = Uint256(u256(a[1])).into();
            format!("ok {}", hex(&s))
        }
        "dec_from_str" => match Decimal256::from_str(&unhex(a[1])) {
            Ok(v) => format!("ok {}", v.0),
            Err(_) => "fail".into(),
        },
        "uint_from_str" => match Uint256::from_str(&unhex(a[1])) {
            Ok(v) => format!("ok {}", v.0),
            Err(_) => "fail".into(),
        },
        "uint_try_from" => match Uint256::try_from(unhex(a[1]).as_str()) {
            Ok(v) => format!("ok {}", v.0),
            Err(_) => "fail".into(),
        },
        "dec_rt" => {
            let s = Decimal256(u256(a[1])).to_string();
            match Decimal256::from_str(&s) {
                Ok(v) => format!("ok {}", v.0),
                Err(_) => "fail".into(),
            }
        }
        "uint_rt" => {
            let s = Uint256(u256(a[1])).to_string();
            match Uint256::from_str(&s) {
                Ok(v) => format!("ok {}", v.0),
                Err(_) => "fail".into(),
            }
        }
        "dec_json_rt" => {
            let j = serde_json_wasm::to_string(&Decimal256(u256(a[1]))).unwrap();
            match serde_json_wasm::from_str::<Decimal256>(&j) {
                Ok(v) => format!("ok {} {}", hex(&j), v.0),
                Err(_) => "fail".into(),
            }
        }
        "uint_json_rt" => {
            let j = serde_json_wasm::to_string(&Uint256(u256(a[1]))).unwrap();
            match serde_json_wasm::from_str::<Uint256>(&j) {
                Ok(v) => format!("ok {} {}", hex(&j), v.0),
                Err(_) => "fail".into(),
            }
        }
        "dec_json_dec" => match serde_json_wasm::from_str::<Decimal256>(&unhex(a[1])) {
            Ok(v) => format!("ok {}", v.0),
            Err(_) => "fail".into(),
        },
        "uint_json_dec" => match serde_json_wasm::from_str::<Uint256>(&unhex(a[1])) {
            Ok(v) => format!("ok {}", v.0),
            Err(_) => "fail".into(),
        },
        "u128_rt" => {
            let w: u128 = a[1].parse().unwrap();
            let back: u128 = Uint256::from(w).into();
            format!("ok {back}")
        }
        "std_rt" => {
            let w: u128 = a[1].parse().unwrap();
            let d: Decimal256 = Decimal::raw(w).into();
            let back: Decimal = d.into();
            format!("ok {} {}", d.0, back.atomics())
        }
        "dec_to_std" => {
            let d: Decimal = Decimal256(u256(a[1])).into();
            format!("ok {}", d.atomics())
        }
        "uint_to_u128" => {
            let w: u128 = Uint256(u256(a[1])).into();
            format!("ok {w}")
        }
        _ => panic!("unknown text op {op}"),
    })
}

fn s<T: ToString>(x: T) -> String {
    x.to_string()
}

fn gen_value(r: &mut Rng) -> U256 {
    let e = U256::from(E18 as u64);
    match r.below(8) {
        0 => {
            // whole with fraction having leading / trailing zeros
            let whole = gen_u256(r) % (U256::MAX / e);
            let j = r.range(0, 17) as u32;
            let k = r.below(10u64.pow(18 - j)) ;
            whole * e + U256::from(k) * pow10_256(j)
        }
        1 => U256::from(r.below(E18 as u64)),                 // pure fraction
        2 => (gen_u256(r) % (U256::MAX / e)) * e,             // pure whole
        3 => U256::MAX - U256::from(r.below(1000)),
        _ => gen_u256(r),
    }
}

fn enumerate(alpha: &[u8], len: usize, f: &mut dyn FnMut(&str)) {
    let mut idx = vec![0usize; len];
    loop {
        let st: String = idx.iter().map(|&i| alpha[i] as char).collect();
        f(&st);
        let mut p = len;
        loop {
            if p == 0 {
                return;
            }
            p -= 1;
            idx[p] += 1;
            if idx[p] < alpha.len() {
                break;
            }
            idx[p] = 0;
        }
    }
}

pub fn generate(o: &mut Out, r: &mut Rng, n: u64) {
    // 1. all strings over a small alphabet, exhaustively (length ≤ 5 quick, ≤ 7 when n is large)
    let alpha = [b'0', b'1', b'5', b'9', b'.', b'x', b'-'];
    let maxlen = if n >= 1_000_000 { 7 } else { 5 };
    for len in 0..=maxlen {
        enumerate(&alpha, len, &mut |st| {
            o.case("text", vec!["dec_from_str".into(), hex(st)]);
            if len <= 4 {
                o.case("text", vec!["uint_from_str".into(), hex(st)]);
                o.case("text", vec!["uint_try_from".into(), hex(st)]);
                o.case("text", vec!["dec_json_dec".into(), hex(&format!("\"{st}\""))]);
                o.case("text", vec!["uint_json_dec".into(), hex(&format!("\"{st}\""))]);
            }
        });
    }
    for j in ["", "\"", "\"\"", "1", "\"1", "1\"", "null", "\"1\" ", " \"1\"", "\"1.5\"", "1.5", "[\"1\"]"] {
        o.case("text", vec!["dec_json_dec".into(), hex(j)]);
        o.case("text", vec!["uint_json_dec".into(), hex(j)]);
    }
    // JSON strings with escapes: the deserializer unescapes before the numeral is parsed
    for j in [r#""\u0031""#, r#""1\u002e5""#, r#""\u0031\u0032""#, r#""\u002E""#, r#""\u002e""#, r#""\/""#, r#""\"""#, r#""1\"2""#,
              r#""\\""#, r#""\b""#, r#""\f""#, r#""\n""#, r#""\r""#, r#""\t""#, r#""\x""#, r#""\0""#, r#""\a""#, r#""\U0031""#, r#""\u12""#,
              r#""\u""#, r#""\uZZZZ""#, r#""\u123g""#, r#""\u0000""#, r#""\u007f""#, r#""\u0080""#, r#""\u00e9""#, r#""\ud800""#, r#""\udc00""#,
              r#""\ud83d\ude00""#, r#""\ud800\ud800""#, r#""\ud800a\udc00""#, r#""\ud800\u0031\udc00""#, r#""1\""#, r#""\"#, r#""1"2""#,
              "\"\u{e9}\"", "\"1\u{1}2\"", "\"\\u0031\u{1}\"", r#" "\u0031\u0032" "#, r#""\u0039\u0039\u0039.\u0035""#] {
        o.case("text", vec!["dec_json_dec".into(), hex(j)]);
        o.case("text", vec!["uint_json_dec".into(), hex(j)]);
    }
    // random numerals with some characters written as \uXXXX escapes (either hex case), sometimes malformed
    for _ in 0..(n / 4).max(50) {
        let len = 1 + r.below(6) as usize;
        let mut body = String::new();
        for k in 0..len {
            let c = if k > 0 && r.chance(1, 6) { b'.' } else { b'0' + r.below(10) as u8 };
            match r.below(6) {
                0 => body.push_str(&format!("\\u{:04x}", c as u32)),
                1 => body.push_str(&format!("\\u{:04X}", c as u32)),
                2 if r.chance(1, 8) => body.push_str(["\\x", "\\u00", "\\ud800", "\\", "\\n", "\\/"][r.below(6) as usize]),
                _ => body.push(c as char),
            }
        }
        let j = format!("\"{body}\"");
        o.case("text", vec!["dec_json_dec".into(), hex(&j)]);
        o.case("text", vec!["uint_json_dec".into(), hex(&j)]);
    }
    // 2. values
    for i in 0..n {
        let v = gen_value(r);
        for op in ["dec_to_string", "dec_rt", "dec_json_rt"] {
            o.case("text", vec![op.into(), s(v)]);
        }
        if i % 2 == 0 {
            let v = gen_u256(r);
            for op in ["uint_to_string", "uint_into_string", "uint_rt", "uint_json_rt", "uint_to_u128", "dec_to_std"] {
                o.case("text", vec![op.into(), s(v)]);
            }
            let w = gen_u128(r);
            o.case("text", vec!["u128_rt".into(), s(w)]);
            o.case("text", vec!["std_rt".into(), s(w)]);
            let f = U256::from_dec_str(&w.to_string()).unwrap();
            o.case("text", vec!["uint_to_u128".into(), s(f)]);
            o.case("text", vec!["dec_to_std".into(), s(f)]);
        }
        // 3. structured numerals: long wholes around 2^256 and 2^256/10^18, 17/18/19 fractional digits
        if i % 3 == 0 {
            let whole = match r.below(5) {
                0 => U256::MAX.to_string(),
                1 => {
                    // 2^256 and a bit above: increment the decimal string of MAX
                    let mut d: Vec<u8> = U256::MAX.to_string().into_bytes();
                    let l = d.len();
                    d[l - 1] = b'0' + ((d[l - 1] - b'0' + 1 + r.below(3) as u8) % 10);
                    if r.chance(1, 2) { d[l - 2] = b'9'; }
                    String::from_utf8(d).unwrap()
                }
                2 => ((U256::MAX / U256::from(E18 as u64)) + U256::from(r.below(3)) - U256::one()).to_string(),
                3 => format!("{}{}", "0".repeat(r.range(0, 5) as usize), gen_u256(r)),
                _ => {
                    let len = r.range(76, 80) as usize;
                    (0..len).map(|_| (b'0' + r.below(10) as u8) as char).collect()
                }
            };
            let flen = *r.pick(&[0usize, 1, 2, 17, 18, 19, 20]);
            let frac: String = (0..flen).map(|_| (b'0' + if r.chance(1, 3) { 0 } else { r.below(10) as u8 }) as char).collect();
            let st = match r.below(4) {
                0 => whole.clone(),
                1 => format!("{whole}.{frac}"),
                2 => format!("{}.{frac}", r.below(1000)),
                _ => format!("{}.{frac}.", r.below(10)),
            };
            o.case("text", vec!["dec_from_str".into(), hex(&st)]);
            o.case("text", vec!["uint_from_str".into(), hex(&whole)]);
            o.case("text", vec!["dec_json_dec".into(), hex(&format!("\"{st}\""))]);
        }
    }
}
