//! Function families over the factory registry helpers and the router's route-shape check:
//!   pair_key, pair_key2 (two asset sets, for injectivity), read_pairs, walk, assert_operations.
//! Raw identifiers are written `n<hex>` (native denom bytes) or `t<hex>` (canonical address bytes).
use crate::fnfam::{guarded, Out};
use crate::rng::*;
use cosmwasm_std::testing::{MockApi, MockStorage};
use cosmwasm_std::{CanonicalAddr, Uint128};
use halo_factory::state::{pair_key, read_pairs, PAIRS};
use haloswap::asset::{AssetInfo, AssetInfoRaw, CreatePairRequirements, PairInfoRaw};
use haloswap::router::SwapOperation;

fn hexs(b: &[u8]) -> String {
    b.iter().map(|x| format!("{:02x}", x)).collect()
}
fn unhexb(h: &str) -> Vec<u8> {
    (0..h.len() / 2).map(|i| u8::from_str_radix(&h[2 * i..2 * i + 2], 16).unwrap()).collect()
}
fn raw(s: &str) -> AssetInfoRaw {
    let b = unhexb(&s[1..]);
    if s.starts_with('n') {
        AssetInfoRaw::NativeToken { denom: String::from_utf8(b).unwrap() }
    } else {
        AssetInfoRaw::Token { contract_addr: CanonicalAddr::from(b) }
    }
}
fn pair_of(s: &str) -> [AssetInfoRaw; 2] {
    let (a, b) = s.split_once('.').unwrap();
    [raw(a), raw(b)]
}
fn enc(a: &AssetInfoRaw) -> String {
    match a {
        AssetInfoRaw::NativeToken { denom } => format!("n{}", hexs(denom.as_bytes())),
        AssetInfoRaw::Token { contract_addr } => format!("t{}", hexs(contract_addr.as_slice())),
    }
}

fn storage_with(ids: &str) -> MockStorage {
    let mut st = MockStorage::new();
    if ids != "-" {
        for (i, p) in ids.split(';').enumerate() {
            let infos = pair_of(p);
            let key = pair_key(&infos);
            PAIRS
                .save(
                    &mut st,
                    &key,
                    &PairInfoRaw {
                        asset_infos: infos,
                        // canonical addresses of MockApi are 54 bytes; any bytes humanise, keep them simple
                        contract_addr: MockApi::default().addr_canonicalize(&format!("pair{:04}", i)).unwrap(),
                        liquidity_token: MockApi::default().addr_canonicalize(&format!("lptk{:04}", i)).unwrap(),
                        asset_decimals: [6, 6],
                        requirements: CreatePairRequirements { whitelist: vec![], first_asset_minimum: Uint128::zero(), second_asset_minimum: Uint128::zero() },
                        commission_rate: bignumber::Decimal256::zero(),
                    },
                )
                .unwrap();
        }
    }
    st
}
use cosmwasm_std::Api;

fn info_raw(api: &MockApi, i: &AssetInfo) -> AssetInfoRaw {
    i.to_raw(api).unwrap()
}

pub fn eval(family: &str, a: &[&str]) -> String {
    guarded(|| match family {
        "pair_key" => match a[0] {
            "one" => format!("ok {}", hexs(&pair_key(&pair_of(a[1])))),
            "two" => format!("ok {} {}", hexs(&pair_key(&pair_of(a[1]))), hexs(&pair_key(&pair_of(a[2])))),
            _ => panic!("pair_key mode"),
        },
        "read_pairs" => {
            let st = storage_with(a[1]);
            let api = MockApi::default();
            match a[0] {
                "page" => {
                    let start = if a[2] == "-" { None } else { Some(pair_of(a[2])) };
                    let limit: Option<u32> = if a[3] == "-" { None } else { Some(a[3].parse().unwrap()) };
                    match read_pairs(&st, &api, start, limit) {
                        Ok(v) => {
                            let l: Vec<String> = v.iter().map(|pi| format!("{}.{}", enc(&info_raw(&api, &pi.asset_infos[0])), enc(&info_raw(&api, &pi.asset_infos[1])))).collect();
                            format!("ok {}", if l.is_empty() { "-".into() } else { l.join(";") })
                        }
                        Err(_) => "fail".into(),
                    }
                }
                "walk" => {
                    let limit: Option<u32> = if a[2] == "-" { None } else { Some(a[2].parse().unwrap()) };
                    let mut out: Vec<String> = vec![];
                    let mut cursor: Option<[AssetInfoRaw; 2]> = None;
                    for _ in 0..200 {
                        let v = read_pairs(&st, &api, cursor.clone(), limit).unwrap();
                        if v.is_empty() {
                            break;
                        }
                        for pi in &v {
                            out.push(format!("{}.{}", enc(&info_raw(&api, &pi.asset_infos[0])), enc(&info_raw(&api, &pi.asset_infos[1]))));
                        }
                        let last = v.last().unwrap();
                        cursor = Some([info_raw(&api, &last.asset_infos[0]), info_raw(&api, &last.asset_infos[1])]);
                    }
                    format!("ok {}", if out.is_empty() { "-".into() } else { out.join(";") })
                }
                _ => panic!("read_pairs mode"),
            }
        }
        "assert_operations" => {
            // ops: k:hex>k:hex;…   k = n|t, hex of the display text
            let ops: Vec<SwapOperation> = if a[0] == "-" {
                vec![]
            } else {
                a[0].split(';')
                    .map(|h| {
                        let (x, y) = h.split_once('>').unwrap();
                        let mk = |s: &str| -> AssetInfo {
                            let t = String::from_utf8(unhexb(&s[1..])).unwrap();
                            if s.starts_with('n') { AssetInfo::NativeToken { denom: t } } else { AssetInfo::Token { contract_addr: t } }
                        };
                        SwapOperation::HaloSwap { offer_asset_info: mk(x), ask_asset_info: mk(y) }
                    })
                    .collect()
            };
            match halo_router::assert::assert_operations(&ops) {
                Ok(()) => "ok".into(),
                Err(_) => "fail".into(),
            }
        }
        _ => panic!("unknown registry family"),
    })
}

// ---- generators

/// a pool of identifiers built to collide under plain concatenation and to share prefixes
fn id_pool(r: &mut Rng) -> Vec<String> {
    let api = MockApi::default();
    let mut v: Vec<String> = vec![];
    for d in ["uaura", "uusd", "uaurau", "usd", "u", "aura", "uaurauusd", "ibc/1F", "ibc/1", "F", "ua", "urau", "uaur", "auusd", "a", "b", "ab", "ba", "aa", "aaa", "UAURA", "uAURA", "Uusd", "ibc/1f", "A", "Ab", "aB"] {
        v.push(format!("n{}", hexs(d.as_bytes())));
    }
    // long denoms (token-factory / IBC style, up to the SDK's 128 bytes) sharing long prefixes
    let creator = "factory/aura1qyqszqgpqyqszqgpqyqszqgpqyqszqgpqyqszqgpqyqszqgpqyqs0ewtp9/";
    for sub in ["gold", "golds", "silver", "g"] {
        v.push(format!("n{}", hexs(format!("{creator}{sub}").as_bytes())));
    }
    let h64 = "27394FB092D2ECCD56123C74F36E4C1F926001CEADA9CA97EA622B25F41E5EB2";
    v.push(format!("n{}", hexs(format!("ibc/{h64}").as_bytes())));
    v.push(format!("n{}", hexs(format!("ibc/{}3", &h64[..63]).as_bytes())));
    v.push(format!("n{}", hexs("x".repeat(64).as_bytes())));
    v.push(format!("n{}", hexs("x".repeat(65).as_bytes())));
    v.push(format!("n{}", hexs("x".repeat(127).as_bytes())));
    v.push(format!("n{}", hexs("x".repeat(128).as_bytes())));
    for i in 0..6 {
        let name = format!("contract{}", i * 7 + r.below(3));
        let c = api.addr_canonicalize(&name).unwrap();
        v.push(format!("t{}", hexs(c.as_slice())));
        // the same text as a denom: equal display text, different kind and raw bytes
        v.push(format!("n{}", hexs(name.as_bytes())));
    }
    // short raw token ids (not MockApi-shaped) to stress the length prefix
    for b in [vec![1u8], vec![1, 2], vec![2], vec![1, 2, 3], vec![0x61], vec![0x61, 0x62]] {
        v.push(format!("t{}", hexs(&b)));
    }
    v
}

fn s<T: ToString>(x: T) -> String {
    x.to_string()
}

pub fn generate(o: &mut Out, family: &str, r: &mut Rng, n: u64) {
    let pool = id_pool(r);
    match family {
        "pair_key" => {
            // every ordered pair of pool ids, then every pair of unordered sets over a sub-pool (collision search)
            for x in &pool {
                for y in &pool {
                    o.case("pair_key", vec!["one".into(), format!("{x}.{y}")]);
                }
            }
            let sub: Vec<&String> = pool.iter().take(14).chain(pool.iter().skip(20).take(10)).collect();
            for a in 0..sub.len() {
                for b in a..sub.len() {
                    for c in 0..sub.len() {
                        for d in c..sub.len() {
                            if (a, b) < (c, d) {
                                o.case("pair_key", vec!["two".into(), format!("{}.{}", sub[a], sub[b]), format!("{}.{}", sub[c], sub[d])]);
                            }
                        }
                    }
                }
            }
            for _ in 0..n {
                let p = |r: &mut Rng| format!("{}.{}", r.pick(&pool), r.pick(&pool));
                let (x, y) = (p(r), p(r));
                o.case("pair_key", vec!["two".into(), x, y]);
            }
        }
        "read_pairs" => {
            // stored records are humanised on the way out: token ids must be MockApi-shaped canonical addresses
            let pool: Vec<String> = pool.into_iter().filter(|e| e.starts_with('n') || e.len() > 60).collect();
            for i in 0..n {
                let k = if i % 5 == 0 { r.range(0, 3) } else { r.range(0, 40) } as usize;
                let mut set: Vec<String> = vec![];
                let mut tries = 0;
                while set.len() < k && tries < 400 {
                    tries += 1;
                    let (x, y) = (r.pick(&pool).clone(), r.pick(&pool).clone());
                    if x == y {
                        continue;
                    }
                    // NUL bytes cannot occur in denoms (utf-8 text of the denom alphabet); keep raw token ids as they are
                    let e = format!("{x}.{y}");
                    let rev = format!("{y}.{x}");
                    if !set.contains(&e) && !set.contains(&rev) {
                        set.push(e);
                    }
                }
                let ids = if set.is_empty() { "-".to_string() } else { set.join(";") };
                let limit = match r.below(5) { 0 => "-".to_string(), 1 => s(r.range(1, 5)), 2 => s(r.range(25, 40)), _ => s(r.range(1, 40)) };
                let start = if set.is_empty() || r.chance(1, 3) {
                    "-".to_string()
                } else if r.chance(1, 8) {
                    format!("{}.{}", r.pick(&pool), r.pick(&pool)) // a cursor that is not registered
                } else {
                    let e = r.pick(&set).clone();
                    if r.chance(1, 2) { e } else { let (x, y) = e.split_once('.').unwrap(); format!("{y}.{x}") }
                };
                o.case("read_pairs", vec!["page".into(), ids.clone(), start, limit.clone()]);
                if i % 2 == 0 {
                    let l = if limit == "0" { "1".to_string() } else { limit };
                    o.case("read_pairs", vec!["walk".into(), ids, l]);
                }
            }
        }
        "assert_operations" => {
            let texts = ["uaura", "uusd", "contract1", "contract2", "x"];
            let ent = |r: &mut Rng| {
                let t = *r.pick(&texts);
                format!("{}{}", if r.chance(1, 2) { "n" } else { "t" }, hexs(t.as_bytes()))
            };
            o.case("assert_operations", vec!["-".into()]);
            for _ in 0..n {
                let k = r.range(1, 5);
                let mut ops: Vec<String> = vec![];
                let mut cur = ent(r);
                for _ in 0..k {
                    let nxt = ent(r);
                    let from = if r.chance(4, 5) { cur.clone() } else { ent(r) };
                    ops.push(format!("{from}>{nxt}"));
                    cur = nxt;
                }
                o.case("assert_operations", vec![ops.join(";")]);
            }
        }
        _ => panic!("unknown registry family"),
    }
}
