use crate::fnfam::Out;
use crate::rng::Rng;
pub fn eval(_family: &str, _a: &[&str]) -> String { unimplemented!() }
pub fn generate(_o: &mut Out, _family: &str, _r: &mut Rng, _n: u64) {}
