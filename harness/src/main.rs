//! Correspondence harness: runs the real halotrade-contracts code in-process on generated inputs and
//! prints one line per case / step (line protocol: DESIGN Appendix A).  The Lean driver reads the same
//! lines, runs the model and reports divergences and oracle failures.
mod fnfam;
#[cfg(feature = "f_registry")]
mod registry;
mod rng;
#[cfg(feature = "f_text")]
mod text;
#[cfg(feature = "world")]
mod world;

use std::io::{BufRead, Write};

fn main() {
    // contract panics abort the transaction on chain; here they are caught per case — keep them quiet
    std::panic::set_hook(Box::new(|info| {
        if !fnfam::GUARDED.load(std::sync::atomic::Ordering::SeqCst) {
            eprintln!("harness bug (panic outside the implementation): {info}");
        }
    }));
    let args: Vec<String> = std::env::args().collect();
    let stdout = std::io::stdout();
    let mut w = std::io::BufWriter::with_capacity(1 << 20, stdout.lock());
    match args.get(1).map(|s| s.as_str()) {
        Some("fn") => {
            let family = &args[2];
            let n: u64 = args[3].parse().unwrap();
            let seed: u64 = args[4].parse().unwrap();
            let mut r = rng::Rng::new(seed ^ hash(family));
            let mut o = fnfam::Out { w: &mut w, count: 0 };
            fnfam::run_family(&mut o, family, &mut r, n);
        }
        #[cfg(feature = "world")]
        Some("world") => {
            let family = &args[2];
            let nseq: u64 = args[3].parse().unwrap();
            let nsteps: u64 = args[4].parse().unwrap();
            let seed: u64 = args[5].parse().unwrap();
            world::run(&mut w, family, nseq, nsteps, seed);
        }
        Some("replay") => {
            // re-run the implementation on every line of a replay / corpus file
            let f = std::fs::File::open(&args[2]).expect("replay file");
            let lines: Vec<String> = std::io::BufReader::new(f).lines().map(|l| l.unwrap()).collect();
            let mut world_lines: Vec<String> = vec![];
            for line in lines {
                let line = line.trim();
                if line.is_empty() || line.starts_with('#') {
                    continue;
                }
                if let Some(rest) = line.strip_prefix("fn ") {
                    let lhs = rest.split(" => ").next().unwrap();
                    let toks: Vec<&str> = lhs.split(' ').filter(|t| !t.is_empty()).collect();
                    let res = fnfam::eval(toks[0], &toks[1..]);
                    writeln!(w, "fn {} => {}", toks.join(" "), res).unwrap();
                } else {
                    world_lines.push(line.to_string());
                }
            }
            #[cfg(feature = "world")]
            if !world_lines.is_empty() {
                world::replay(&mut w, &world_lines);
            }
        }
        _ => {
            eprintln!("usage: halo-harness fn <family> <n> <seed> | world <family> <nseq> <nsteps> <seed> | replay <file>");
            std::process::exit(2);
        }
    }
    w.flush().unwrap();
}

fn hash(s: &str) -> u64 {
    let mut h = 0xcbf29ce484222325u64;
    for b in s.bytes() {
        h ^= b as u64;
        h = h.wrapping_mul(0x100000001b3);
    }
    h
}
