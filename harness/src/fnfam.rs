#![allow(unused_imports, dead_code)]
//! Function families: the public pure functions of /repo called directly, one case per line
//!   fn <family> <args…> => ok <values…> | fail | fail:guard
use crate::rng::*;
use bigint::U256;
use bignumber::{Decimal256, Uint256};
use cosmwasm_std::{Addr, Coin, Decimal, MessageInfo, Uint128};
use haloswap::asset::{Asset, AssetInfo, AssetInfoRaw, CreatePairRequirements, PairInfoRaw};
use haloswap::error::ContractError;
use std::panic::{catch_unwind, AssertUnwindSafe};
use std::str::FromStr;

fn u(s: &str) -> u128 {
    s.parse::<u128>().unwrap_or_else(|_| panic!("bad u128 {s}"))
}
fn u256(s: &str) -> U256 {
    U256::from_dec_str(s).unwrap()
}
fn opt_dec(s: &str) -> Option<Decimal> {
    if s == "-" {
        None
    } else {
        Some(Decimal::raw(u(s)))
    }
}
fn d256(atomics: u128) -> Decimal256 {
    Decimal256(U256::from_dec_str(&atomics.to_string()).unwrap())
}
pub fn addr_name(n: u128) -> String {
    format!("addr{n}")
}
pub fn denom_name(n: u128) -> String {
    format!("denom{n}")
}

pub static GUARDED: std::sync::atomic::AtomicBool = std::sync::atomic::AtomicBool::new(false);

/// run the implementation; a panic inside is the contract aborting (→ "fail"), not a harness bug
pub fn guarded<F: FnOnce() -> String>(f: F) -> String {
    GUARDED.store(true, std::sync::atomic::Ordering::SeqCst);
    let r = catch_unwind(AssertUnwindSafe(f));
    GUARDED.store(false, std::sync::atomic::Ordering::SeqCst);
    match r {
        Ok(s) => s,
        Err(_) => "fail".to_string(),
    }
}

fn class_of(e: &ContractError) -> &'static str {
    match e {
        ContractError::MaxSpreadAssertion {} | ContractError::MaxSlippageAssertion {} => "fail:guard",
        _ => "fail",
    }
}

/// run the implementation on one case; `args` are the tokens after the family name
pub fn eval(family: &str, a: &[&str]) -> String {
    match family {
        #[cfg(feature = "f_formulas")]
        "compute_swap" => guarded(|| {
            let (n, s, k) = haloswap::formulas::compute_swap(
                Uint128::new(u(a[0])),
                Uint128::new(u(a[1])),
                Uint128::new(u(a[2])),
                d256(u(a[3])),
            );
            format!("ok {n} {s} {k}")
        }),
        #[cfg(feature = "f_formulas")]
        "compute_swap_mono" => guarded(|| {
            let c = d256(u(a[4]));
            let (n, _, _) = haloswap::formulas::compute_swap(
                Uint128::new(u(a[0])),
                Uint128::new(u(a[1])),
                Uint128::new(u(a[2])),
                c,
            );
            let (n2, _, _) = haloswap::formulas::compute_swap(
                Uint128::new(u(a[0])),
                Uint128::new(u(a[1])),
                Uint128::new(u(a[3])),
                c,
            );
            format!("ok {n} {n2}")
        }),
        #[cfg(feature = "f_formulas")]
        "compute_offer_amount" => guarded(|| {
            let (o, s, k) = haloswap::formulas::compute_offer_amount(
                Uint128::new(u(a[0])),
                Uint128::new(u(a[1])),
                Uint128::new(u(a[2])),
                d256(u(a[3])),
            );
            format!("ok {o} {s} {k}")
        }),
        #[cfg(feature = "f_formulas")]
        "lp_share" => guarded(|| {
            // sender wl min0 min1 S d0 d1 r0 r1
            let info = MessageInfo {
                sender: Addr::unchecked(addr_name(u(a[0]))),
                funds: vec![],
            };
            let wl: Vec<Addr> = if a[1] == "-" {
                vec![]
            } else {
                a[1].split(',').map(|x| Addr::unchecked(addr_name(u(x)))).collect()
            };
            let pi = PairInfoRaw {
                asset_infos: [
                    AssetInfoRaw::NativeToken { denom: "p".into() },
                    AssetInfoRaw::NativeToken { denom: "q".into() },
                ],
                contract_addr: vec![].into(),
                liquidity_token: vec![].into(),
                asset_decimals: [6, 6],
                requirements: CreatePairRequirements {
                    whitelist: wl,
                    first_asset_minimum: Uint128::new(u(a[2])),
                    second_asset_minimum: Uint128::new(u(a[3])),
                },
                commission_rate: Decimal256::zero(),
            };
            let pools = [
                Asset { info: AssetInfo::NativeToken { denom: "p".into() }, amount: Uint128::new(u(a[7])) },
                Asset { info: AssetInfo::NativeToken { denom: "q".into() }, amount: Uint128::new(u(a[8])) },
            ];
            match haloswap::formulas::calculate_lp_token_amount_to_user(
                &info,
                &pi,
                Uint128::new(u(a[4])),
                [Uint128::new(u(a[5])), Uint128::new(u(a[6]))],
                pools,
            ) {
                Ok(m) => format!("ok {m}"),
                Err(_) => "fail".into(),
            }
        }),
        "refund" => guarded(|| {
            // r a S : the arithmetic of withdraw_liquidity (also reached through the world family)
            let ratio = Decimal::from_ratio(Uint128::new(u(a[1])), Uint128::new(u(a[2])));
            let x = Uint128::new(u(a[0])) * ratio;
            format!("ok {x}")
        }),
        #[cfg(feature = "f_guards")]
        "max_spread" => guarded(|| {
            // belief ms offer ret spread od rd
            let offer = Asset { info: AssetInfo::NativeToken { denom: "p".into() }, amount: Uint128::new(u(a[2])) };
            let ret = Asset { info: AssetInfo::NativeToken { denom: "q".into() }, amount: Uint128::new(u(a[3])) };
            match halo_pair::assert::assert_max_spread(
                opt_dec(a[0]),
                opt_dec(a[1]),
                offer,
                ret,
                Uint128::new(u(a[4])),
                u(a[5]) as u8,
                u(a[6]) as u8,
            ) {
                Ok(()) => "ok".into(),
                Err(e) => class_of(&e).into(),
            }
        }),
        #[cfg(feature = "f_guards")]
        "slippage" => guarded(|| {
            // tol d0 d1 r0 r1
            let pools = [
                Asset { info: AssetInfo::NativeToken { denom: "p".into() }, amount: Uint128::new(u(a[3])) },
                Asset { info: AssetInfo::NativeToken { denom: "q".into() }, amount: Uint128::new(u(a[4])) },
            ];
            match halo_pair::assert::assert_slippage_tolerance(
                &opt_dec(a[0]),
                &[Uint128::new(u(a[1])), Uint128::new(u(a[2]))],
                &pools,
            ) {
                Ok(()) => "ok".into(),
                Err(e) => class_of(&e).into(),
            }
        }),
        #[cfg(feature = "f_sent")]
        "assert_sent" => guarded(|| {
            // kind denom amount funds
            let info = if a[0] == "n" {
                AssetInfo::NativeToken { denom: denom_name(u(a[1])) }
            } else {
                AssetInfo::Token { contract_addr: addr_name(u(a[1])) }
            };
            let funds: Vec<Coin> = if a[3] == "-" {
                vec![]
            } else {
                a[3].split(',')
                    .map(|c| {
                        let (d, amt) = c.split_once(':').unwrap();
                        Coin { denom: denom_name(u(d)), amount: Uint128::new(u(amt)) }
                    })
                    .collect()
            };
            let asset = Asset { info, amount: Uint128::new(u(a[2])) };
            match asset.assert_sent_native_token_balance(&MessageInfo { sender: Addr::unchecked("s"), funds }) {
                Ok(()) => "ok".into(),
                Err(_) => "fail".into(),
            }
        }),
        #[cfg(feature = "f_bignum")]
        "bignum" => guarded(|| bignum(a[0], &a[1..])),
        #[cfg(feature = "f_text")]
        "text" => crate::text::eval(a),
        #[cfg(feature = "f_registry")]
        "pair_key" | "read_pairs" | "assert_operations" => crate::registry::eval(family, a),
        _ => panic!("unknown family {family}"),
    }
}

#[cfg(feature = "f_bignum")]
fn bignum(op: &str, a: &[&str]) -> String {
    let x = || u256(a[0]);
    let y = || u256(a[1]);
    match op {
        "dec_add" => format!("ok {}", (Decimal256(x()) + Decimal256(y())).0),
        "dec_add_assign" => {
            let mut v = Decimal256(x());
            v += Decimal256(y());
            format!("ok {}", v.0)
        }
        "dec_sub" => format!("ok {}", (Decimal256(x()) - Decimal256(y())).0),
        "dec_mul" => format!("ok {}", (Decimal256(x()) * Decimal256(y())).0),
        "dec_div" => format!("ok {}", (Decimal256(x()) / Decimal256(y())).0),
        "dec_from_ratio" => format!("ok {}", Decimal256::from_ratio(x(), y()).0),
        "dec_from_uint" => format!("ok {}", Decimal256::from_uint256(Uint256(x())).0),
        "dec_percent" => format!("ok {}", Decimal256::percent(x().low_u64()).0),
        "dec_permille" => format!("ok {}", Decimal256::permille(x().low_u64()).0),
        "dec_is_zero" => format!("ok {}", Decimal256(x()).is_zero() as u8),
        "uint_add" => format!("ok {}", (Uint256(x()) + Uint256(y())).0),
        "uint_add_assign" => {
            let mut v = Uint256(x());
            v += Uint256(y());
            format!("ok {}", v.0)
        }
        "uint_sub" => format!("ok {}", (Uint256(x()) - Uint256(y())).0),
        "uint_mul" => format!("ok {}", (Uint256(x()) * Uint256(y())).0),
        "uint_mul_dec" => format!("ok {}", (Uint256(x()) * Decimal256(y())).0),
        "dec_mul_uint" => format!("ok {}", (Decimal256(x()) * Uint256(y())).0),
        "uint_div_dec" => format!("ok {}", (Uint256(x()) / Decimal256(y())).0),
        "uint_mul_ratio" => format!("ok {}", Uint256(x()).multiply_ratio(y(), u256(a[2])).0),
        "uint_is_zero" => format!("ok {}", Uint256(x()).is_zero() as u8),
        // comparison: 0 = Less, 1 = Equal, 2 = Greater
        "uint_cmp" => format!("ok {}", Uint256(x()).cmp(&Uint256(y())) as i8 + 1),
        "dec_cmp" => format!("ok {}", Decimal256(x()).cmp(&Decimal256(y())) as i8 + 1),
        "uint_to_u128" => {
            let v: u128 = Uint256(x()).into();
            format!("ok {v}")
        }
        "uint_to_uint128" => {
            let v: Uint128 = Uint256(x()).into();
            format!("ok {v}")
        }
        "uint_from_u128" => {
            let v: Uint256 = Uint256::from(u(a[0]));
            let U256(l) = v.0;
            format!("ok {} {} {} {} {}", v.0, l[0], l[1], l[2], l[3])
        }
        "uint_from_uint128" => format!("ok {}", Uint256::from(Uint128::new(u(a[0]))).0),
        "uint_from_u64" => format!("ok {}", Uint256::from(x().low_u64()).0),
        "dec_to_std" => {
            let v: Decimal = Decimal256(x()).into();
            format!("ok {}", v.atomics())
        }
        "dec_from_std" => {
            let v: Decimal256 = Decimal::raw(u(a[0])).into();
            format!("ok {}", v.0)
        }
        "consts" => format!(
            "ok {} {} {} {} {}",
            Decimal256::one().0,
            Decimal256::zero().0,
            Decimal256::DECIMAL_FRACTIONAL,
            Uint256::one().0,
            Uint256::zero().0
        ),
        _ => panic!("unknown bignum op {op}"),
    }
}

// ---------------------------------------------------------------- generators

pub struct Out<'a> {
    pub w: &'a mut dyn std::io::Write,
    pub count: u64,
}
impl<'a> Out<'a> {
    pub fn case(&mut self, family: &str, args: Vec<String>) {
        let refs: Vec<&str> = args.iter().map(|s| s.as_str()).collect();
        let res = eval(family, &refs);
        writeln!(self.w, "fn {} {} => {}", family, args.join(" "), res).unwrap();
        self.count += 1;
    }
}

fn s<T: ToString>(x: T) -> String {
    x.to_string()
}

/// in-window solver for `compute_swap` (DESIGN §4, generator 2): y·a ≡ −j (mod x+a) with j·E < x+a
fn window_case(r: &mut Rng) -> Option<(u128, u128, u128)> {
    let ybits = r.range(20, 100) as u32;
    let abits = r.range(1, 100) as u32;
    let y = r.u128_bits(ybits);
    let a = r.u128_bits(abits);
    let ya = U256::from_dec_str(&y.to_string()).unwrap() * U256::from_dec_str(&a.to_string()).unwrap();
    // m^2 * E <= ya, m <= y
    let mmax_bits = (ya.bits() as u32).saturating_sub(60) / 2;
    if mmax_bits == 0 {
        return None;
    }
    let mb = r.range(1, mmax_bits.min(60) as u64) as u32;
    let m = U256::from(r.u128_bits(mb) as u64);
    let jm = ya % m;
    let j = m - jm; // 1..=m
    let j = if r.chance(1, 3) { j + m * U256::from(r.below(3)) } else { j };
    let d = (ya + j) / m;
    if d.bits() > 127 {
        return None;
    }
    let d = d.low_u64() as u128 | ((d >> 64).low_u64() as u128) << 64;
    if d < a {
        return None;
    }
    let x = d - a;
    Some((x, y, a))
}

pub fn gen_compute_swap(o: &mut Out, r: &mut Rng, n: u64) {
    // corpus-like fixed points first
    let x0 = 340282366920938463463374607431u128;
    for (x, y, a, c) in [
        (1u128, 1u128, 2 * E18, 3_000_000_000_000_000u128),
        (x0, x0, 1, 30_000_000_000_000_000),
        (x0, x0, x0, 30_000_000_000_000_000),
        (395451850234, 317, 1, 30_000_000_000_000_000),
        (u128::MAX, 1, 1, 30_000_000_000_000_000),
        (1, u128::MAX, 1, 30_000_000_000_000_000),
    ] {
        o.case("compute_swap", vec![s(x), s(y), s(a), s(c)]);
    }
    for i in 0..n {
        let c = if r.chance(9, 10) { gen_rate01(r) } else { gen_rate(r) };
        let (x, y, a) = match i % 10 {
            0 | 1 => match window_case(r) {
                Some(t) => t,
                None => (gen_u128_upto(r, 98), gen_u128_upto(r, 98), gen_u128(r)),
            },
            2 => {
                // quotient-zero region a > x*y*E
                let x = gen_u128_upto(r, 30);
                let y = gen_u128_upto(r, 30);
                (x, y, gen_u128(r))
            }
            3 => {
                // overflow frontier x*y*E near 2^256: x*y near 2^196
                let xb = r.range(60, 128) as u32;
                let x = r.u128_bits(xb);
                let yb = (196u32.saturating_sub(xb)).min(128);
                let yb = (yb as i64 + r.range(0, 2) as i64 - 1).clamp(0, 128) as u32;
                (x, r.u128_bits(yb), gen_u128(r))
            }
            4 => (gen_u128(r), gen_u128(r), gen_u128(r)),
            _ => {
                // realistic pools, a as a fraction of x
                let x = gen_u128_upto(r, 100);
                let y = gen_u128_upto(r, 96);
                let a = match r.below(4) {
                    0 => gen_u128_upto(r, 100),
                    1 => x / (1 + r.below(1000) as u128),
                    2 => x.saturating_mul(1 + r.below(1000) as u128),
                    _ => 1 + r.below(1_000_000) as u128,
                };
                (x, y, a)
            }
        };
        o.case("compute_swap", vec![s(x), s(y), s(a), s(c)]);
        if i % 8 == 0 {
            let a2 = match r.below(3) {
                0 => a.saturating_add(1),
                1 => a.saturating_add(gen_u128_upto(r, 64)),
                _ => a.saturating_mul(2),
            };
            o.case("compute_swap_mono", vec![s(x), s(y), s(a), s(a2), s(c)]);
        }
    }
}

pub fn gen_compute_offer_amount(o: &mut Out, r: &mut Rng, n: u64) {
    for i in 0..n {
        let c = if r.chance(9, 10) { gen_rate01(r) } else { gen_rate(r) };
        let (x, y) = if i % 4 == 0 {
            (gen_u128(r), gen_u128(r))
        } else {
            (gen_u128_upto(r, 100), gen_u128_upto(r, 96))
        };
        let b = match r.below(5) {
            0 => gen_u128(r),
            1 => y / (1 + r.below(1000) as u128),
            2 => y.saturating_sub(r.below(1000) as u128),
            3 => {
                // around y*(1-c): the feasibility frontier
                let omc = E18.saturating_sub(c);
                let t = (U256::from_dec_str(&y.to_string()).unwrap() * U256::from_dec_str(&omc.to_string()).unwrap())
                    / U256::from_dec_str(&E18.to_string()).unwrap();
                let t = t.low_u64() as u128 | ((t >> 64).low_u64() as u128) << 64;
                t.wrapping_add(r.below(5) as u128).wrapping_sub(2)
            }
            _ => 1 + r.below(1_000_000) as u128,
        };
        o.case("compute_offer_amount", vec![s(x), s(y), s(b), s(c)]);
    }
}

pub fn gen_lp_share(o: &mut Out, r: &mut Rng, n: u64) {
    for i in 0..n {
        let sender = r.below(4) as u128;
        let wl = match r.below(4) {
            0 => "-".to_string(),
            1 => s(sender),
            2 => format!("{},{}", (sender + 1) % 4, (sender + 2) % 4),
            _ => format!("{},{}", (sender + 1) % 4, sender),
        };
        if i % 3 == 0 {
            // empty pool branch: whitelist × minimum boundary × product overflow
            let d0 = gen_u128_upto(r, 70);
            let d1 = match r.below(3) {
                0 => gen_u128_upto(r, 70),
                1 => {
                    // product near 2^128
                    if d0 == 0 { 0 } else { (u128::MAX / d0).wrapping_add(r.below(3) as u128).wrapping_sub(1) }
                }
                _ => gen_u128(r),
            };
            let min0 = match r.below(4) { 0 => d0, 1 => d0.saturating_add(1), 2 => d0.saturating_sub(1), _ => 0 };
            let min1 = match r.below(4) { 0 => d1, 1 => d1.saturating_add(1), 2 => d1.saturating_sub(1), _ => 0 };
            o.case("lp_share", vec![s(sender), wl, s(min0), s(min1), s(0), s(d0), s(d1), s(gen_u128_upto(r, 64)), s(gen_u128_upto(r, 64))]);
        } else {
            let sup = gen_u128_upto(r, 110).max(1);
            let r0 = gen_u128_upto(r, 110);
            let r1 = gen_u128_upto(r, 110);
            let (d0, d1) = match r.below(4) {
                0 => (gen_u128(r), gen_u128(r)),
                1 => {
                    // balanced deposit
                    let f = 1 + r.below(1000) as u128;
                    (r0 / f, r1 / f)
                }
                2 => {
                    // remainder boundary: d0*S ≡ 0 or -1 mod r0
                    let k = r.below(1_000_000) as u128;
                    let d0 = if sup > 0 { ((k.saturating_mul(r0)) / sup).saturating_add(r.below(2) as u128) } else { k };
                    (d0, gen_u128_upto(r, 100))
                }
                _ => (gen_u128_upto(r, 100), gen_u128_upto(r, 100)),
            };
            o.case("lp_share", vec![s(sender), wl, s(r.below(3)), s(r.below(3)), s(sup), s(d0), s(d1), s(r0), s(r1)]);
        }
    }
}

pub fn gen_refund(o: &mut Out, r: &mut Rng, n: u64) {
    for i in 0..n {
        let sup = gen_u128(r);
        let a = match r.below(5) {
            0 => gen_u128(r),
            1 => sup,
            2 => sup.saturating_sub(1),
            3 => 1,
            _ => if sup > 0 { r.u128_raw() % sup } else { 0 },
        };
        let res = if i % 5 == 0 { gen_u128(r) } else { gen_u128_upto(r, 124) };
        o.case("refund", vec![s(res), s(a), s(sup)]);
    }
}

fn mul_div(a: u128, b: u128, d: u128) -> u128 {
    if d == 0 {
        return 0;
    }
    let v = U256::from_dec_str(&a.to_string()).unwrap() * U256::from_dec_str(&b.to_string()).unwrap()
        / U256::from_dec_str(&d.to_string()).unwrap();
    if v.bits() > 128 {
        u128::MAX
    } else {
        v.low_u64() as u128 | ((v >> 64).low_u64() as u128) << 64
    }
}

pub fn gen_max_spread(o: &mut Out, r: &mut Rng, n: u64) {
    // every ordered decimals pair 0..=18 × both branches, values solved one ulp either side of the limit
    let per = (n / (19 * 19 * 2)).max(1);
    for od in 0..=19u32 {
        for rd in 0..=19u32 {
            for branch in 0..2 {
                for _ in 0..per {
                    let ms = gen_rate(r);
                    let offer = gen_u128_upto(r, 80);
                    let ko: u128 = if rd > od { 10u128.pow(rd - od) } else { 1 };
                    let kr: u128 = if od > rd { 10u128.pow(od - rd) } else { 1 };
                    if branch == 0 {
                        // belief branch: expected = offer' * E / p ; choose ret' around expected*(1-ms)
                        let p = match r.below(6) { 0 => 0, 1 => E18, _ => 1 + gen_u128_upto(r, 70) };
                        let offer_n = offer.saturating_mul(ko);
                        let expected = mul_div(offer_n, E18, p);
                        let limit = mul_div(expected, E18.saturating_sub(ms.min(E18)), E18);
                        let target = match r.below(4) { 0 => gen_u128_upto(r, 90), 1 => expected, _ => limit };
                        let ret = (target / kr).wrapping_add(r.below(5) as u128).wrapping_sub(2);
                        let ret = if ret > u128::MAX / 2 { 0 } else { ret };
                        let ms_s = if r.chance(1, 12) { "-".to_string() } else { s(ms) };
                        o.case("max_spread", vec![s(p), ms_s, s(offer), s(ret), s(gen_u128_upto(r, 60)), s(od), s(rd)]);
                    } else {
                        // spread-only branch: spread/(ret+spread) around ms
                        let tot = gen_u128_upto(r, 90);
                        let sp = mul_div(tot, ms.min(E18), E18).wrapping_add(r.below(5) as u128).wrapping_sub(2);
                        let sp = if sp > tot { tot } else { sp };
                        let ret = tot - sp;
                        let (ret, sp) = if r.chance(1, 20) { (0, 0) } else { (ret / kr.max(1), sp / kr.max(1)) };
                        let bp = if r.chance(1, 10) { s(E18) } else { "-".to_string() };
                        let ms_s = if bp != "-" { "-".to_string() } else { s(ms) };
                        o.case("max_spread", vec![bp, ms_s, s(offer), s(ret), s(sp), s(od), s(rd)]);
                    }
                }
            }
        }
    }
    // decimals beyond 19 (10u64.pow overflow)
    for od in [0u32, 1, 20, 21, 255] {
        for rd in [0u32, 19, 20, 255] {
            o.case("max_spread", vec![s(E18), s(E18 / 2), s(1000), s(900), s(10), s(od), s(rd)]);
        }
    }
}

pub fn gen_slippage(o: &mut Out, r: &mut Rng, n: u64) {
    for i in 0..n {
        let tol = gen_rate(r);
        let r0 = gen_u128_upto(r, 100);
        let r1 = gen_u128_upto(r, 100);
        let (d0, d1) = match i % 5 {
            0 => (gen_u128(r), gen_u128(r)),
            1 => {
                // balanced
                let f = 1 + r.below(100000) as u128;
                (r0 / f, r1 / f)
            }
            2 | 3 => {
                // d0/d1 * (1-tol) ≈ r0/r1  →  d0 ≈ d1 * r0 * E / (r1 * (E - tol))
                let d1 = gen_u128_upto(r, 80).max(1);
                let omt = E18.saturating_sub(tol.min(E18)).max(1);
                let t = mul_div(mul_div(d1, r0, r1.max(1)), E18, omt);
                let d0 = t.wrapping_add(r.below(5) as u128).wrapping_sub(2);
                let d0 = if d0 > u128::MAX / 2 { 0 } else { d0 };
                if i % 2 == 0 { (d0, d1) } else { (d1, d0) }
            }
            _ => (gen_u128_upto(r, 90), gen_u128_upto(r, 90)),
        };
        let tol_s = if r.chance(1, 15) { "-".to_string() } else { s(tol) };
        o.case("slippage", vec![tol_s, s(d0), s(d1), s(r0), s(r1)]);
    }
}

pub fn gen_assert_sent(o: &mut Out, _r: &mut Rng, _n: u64) {
    // finite matrix, enumerated completely: kind × declared × (position, amount) of the matching coin × extra coins
    let amounts = [0u128, 1, 5, 6, u128::MAX];
    for kind in ["n", "t"] {
        for &decl in &amounts {
            let mut shapes: Vec<String> = vec!["-".into()];
            for &att in &amounts {
                shapes.push(format!("1:{att}"));
                shapes.push(format!("2:7,1:{att}"));
                shapes.push(format!("1:{att},2:7"));
                shapes.push(format!("2:{decl},3:{decl},1:{att}"));
                // duplicated denom (cw-multi-test does not validate): first entry wins
                shapes.push(format!("1:{att},1:{decl}"));
            }
            shapes.push(format!("2:{decl}"));
            shapes.push(format!("2:{decl},3:{decl}"));
            for f in shapes {
                o.case("assert_sent", vec![kind.into(), s(1), s(decl), f]);
            }
        }
    }
}

fn factor_near(r: &mut Rng, target: U256) -> (U256, U256) {
    // a * b ∈ {target-ish}: choose a, b = target / a (+0/+1)
    let ab = r.range(1, 255) as u32;
    let a = r.u256_bits(ab);
    let b = target / a;
    let b = match r.below(3) {
        0 => b,
        1 => b.overflowing_add(U256::one()).0,
        _ => b.overflowing_sub(U256::one()).0,
    };
    (a, b)
}

pub fn gen_bignum(o: &mut Out, r: &mut Rng, n: u64) {
    o.case("bignum", vec!["consts".into()]);
    let bin_ops = [
        "dec_add", "dec_add_assign", "dec_sub", "dec_mul", "dec_div", "dec_from_ratio", "uint_add", "uint_add_assign",
        "uint_sub", "uint_mul", "uint_mul_dec", "dec_mul_uint", "uint_div_dec", "uint_cmp", "dec_cmp",
    ];
    let e = U256::from(E18 as u64);
    for i in 0..n {
        let op = bin_ops[(i % bin_ops.len() as u64) as usize];
        let (a, b) = match r.below(8) {
            0 | 1 => factor_near(r, U256::MAX),                 // product at 2^256 -1/0/+1
            2 => factor_near(r, U256::MAX / e),                 // a*b*E near 2^256
            3 => {
                let a = gen_u256(r);
                (a, match r.below(3) { 0 => a, 1 => a.overflowing_add(U256::one()).0, _ => a.overflowing_sub(U256::one()).0 })
            }
            4 => {
                // sum at 2^256
                let a = gen_u256(r);
                let b = U256::MAX - a;
                (a, match r.below(3) { 0 => b, 1 => b.overflowing_add(U256::one()).0, _ => b.overflowing_sub(U256::one()).0 })
            }
            5 => (gen_u256(r), U256::from(r.below(3))),
            _ => (gen_u256(r), gen_u256(r)),
        };
        o.case("bignum", vec![op.into(), s(a), s(b)]);
        if i % 6 == 0 {
            let (u_, n_) = if r.chance(1, 2) { factor_near(r, U256::MAX) } else { (gen_u256(r), gen_u256(r)) };
            let d_ = if r.chance(1, 10) { U256::zero() } else { gen_u256(r) };
            o.case("bignum", vec!["uint_mul_ratio".into(), s(u_), s(n_), s(d_)]);
        }
        if i % 10 == 0 {
            let v = gen_u256(r);
            for op in ["dec_from_uint", "uint_to_u128", "uint_to_uint128", "dec_to_std", "dec_is_zero", "uint_is_zero"] {
                o.case("bignum", vec![op.into(), s(v)]);
            }
            let w = gen_u128(r);
            for op in ["uint_from_u128", "uint_from_uint128", "dec_from_std"] {
                o.case("bignum", vec![op.into(), s(w)]);
            }
            let w64 = r.next();
            for op in ["dec_percent", "dec_permille", "uint_from_u64"] {
                o.case("bignum", vec![op.into(), s(w64)]);
            }
            // a 128-bit-fitting value for the narrowing conversions
            let f = U256::from_dec_str(&gen_u128(r).to_string()).unwrap();
            for op in ["uint_to_u128", "dec_to_std"] {
                o.case("bignum", vec![op.into(), s(f)]);
            }
        }
    }
}

pub fn run_family(o: &mut Out, family: &str, r: &mut Rng, n: u64) {
    match family {
        "compute_swap" => gen_compute_swap(o, r, n),
        "compute_offer_amount" => gen_compute_offer_amount(o, r, n),
        "lp_share" => gen_lp_share(o, r, n),
        "refund" => gen_refund(o, r, n),
        "max_spread" => gen_max_spread(o, r, n),
        "slippage" => gen_slippage(o, r, n),
        "assert_sent" => gen_assert_sent(o, r, n),
        "bignum" => gen_bignum(o, r, n),
        #[cfg(feature = "f_text")]
        "text" => crate::text::generate(o, r, n),
        #[cfg(feature = "f_registry")]
        "pair_key" | "read_pairs" | "assert_operations" => crate::registry::generate(o, family, r, n),
        _ => panic!("unknown family {family}"),
    }
}

#[allow(dead_code)]
pub fn parse_dec256(s: &str) -> Option<Decimal256> {
    Decimal256::from_str(s).ok()
}
