//! World families: the three contracts + cw20-base inside a cw-multi-test `App`, driven by generated
//! operation sequences.  One line per step with the implementation's result, followed by the
//! observations (balances, supplies, allowances, pair / pool / registry queries) that changed.
//! Addresses and denoms are numbered; the driver only ever sees the numbers (plus the raw id bytes
//! and display text of every asset).  Protocol: DESIGN Appendix A.
use crate::fnfam::GUARDED;
use crate::rng::*;
/// lower-case hex of a string's bytes, prefixed with `h` (the line protocol's byte-string form)
fn hex(s: &str) -> String {
    let mut o = String::from("h");
    for b in s.bytes() {
        o.push_str(&format!("{:02x}", b));
    }
    o
}
use bignumber::Decimal256;
use cosmwasm_std::testing::MockApi;
use cosmwasm_std::{to_binary, Addr, Api, Coin, Decimal, Empty, Uint128};
use cw20::{BalanceResponse, Cw20Coin, Cw20ExecuteMsg, Cw20QueryMsg, MinterResponse, TokenInfoResponse};
use cw_multi_test::{App, AppBuilder, AppResponse, Contract, ContractWrapper, Executor};
use haloswap::asset::{Asset, AssetInfo, CreatePairRequirements, LPTokenInfo, PairInfo};
use haloswap::factory::{
    ConfigResponse, ExecuteMsg as FacExec, InstantiateMsg as FacInit, NativeTokenDecimalsResponse, PairsResponse,
    QueryMsg as FacQuery,
};
use haloswap::pair::{
    Cw20HookMsg as PairHook, ExecuteMsg as PairExec, PoolResponse, QueryMsg as PairQuery, ReverseSimulationResponse,
    SimulationResponse,
};
use haloswap::router::{
    Cw20HookMsg as RouterHook, ExecuteMsg as RouterExec, InstantiateMsg as RouterInit, QueryMsg as RouterQuery,
    SimulateSwapOperationsResponse, SwapOperation,
};
use std::collections::HashMap;
use std::io::Write;
use std::panic::{catch_unwind, AssertUnwindSafe};
use std::sync::atomic::Ordering;

fn c_factory() -> Box<dyn Contract<Empty>> {
    Box::new(
        ContractWrapper::new(
            halo_factory::contract::execute,
            halo_factory::contract::instantiate,
            halo_factory::contract::query,
        )
        .with_reply(halo_factory::contract::reply)
        .with_migrate(halo_factory::contract::migrate),
    )
}
fn c_pair() -> Box<dyn Contract<Empty>> {
    Box::new(
        ContractWrapper::new(halo_pair::contract::execute, halo_pair::contract::instantiate, halo_pair::contract::query)
            .with_reply(halo_pair::contract::reply)
            .with_migrate(halo_pair::contract::migrate),
    )
}
fn c_router() -> Box<dyn Contract<Empty>> {
    Box::new(ContractWrapper::new(
        halo_router::contract::execute,
        halo_router::contract::instantiate,
        halo_router::contract::query,
    ))
}
fn c_token() -> Box<dyn Contract<Empty>> {
    Box::new(ContractWrapper::new(
        cw20_base::contract::execute,
        cw20_base::contract::instantiate,
        cw20_base::contract::query,
    ))
}

#[derive(Clone, Copy, PartialEq, Eq, Hash, Debug)]
pub enum A {
    N(u64),
    T(u64),
}
impl std::fmt::Display for A {
    fn fmt(&self, f: &mut std::fmt::Formatter) -> std::fmt::Result {
        match self {
            A::N(d) => write!(f, "n{d}"),
            A::T(t) => write!(f, "t{t}"),
        }
    }
}
fn parse_asset(s: &str) -> A {
    let n: u64 = s[1..].parse().unwrap();
    if s.starts_with('n') {
        A::N(n)
    } else {
        A::T(n)
    }
}

#[derive(Clone, Debug)]
pub enum Hook {
    Swap { offer: A, amt: u128, belief: Option<u128>, ms: Option<u128>, to: Option<u64> },
    Withdraw,
    ROps { ops: Vec<(A, A)>, min: Option<u128>, to: Option<u64> },
    Garbage,
    // the router's *internal* execute messages sent as a hook payload (a `Receive` must never dispatch them)
    IOp { offer: A, ask: A, to: Option<u64> },
    IAssert { asset: A, prev: u128, min: u128, rcv: u64 },
}

fn o<T: ToString>(x: &Option<T>) -> String {
    match x {
        Some(v) => v.to_string(),
        None => "-".into(),
    }
}
fn po<T: std::str::FromStr>(s: &str) -> Option<T> {
    if s == "-" {
        None
    } else {
        s.parse().ok()
    }
}
fn ops_str(ops: &[(A, A)]) -> String {
    if ops.is_empty() {
        "-".into()
    } else {
        ops.iter().map(|(a, b)| format!("{a}>{b}")).collect::<Vec<_>>().join(";")
    }
}
fn parse_ops(s: &str) -> Vec<(A, A)> {
    if s == "-" {
        vec![]
    } else {
        s.split(';')
            .map(|h| {
                let (a, b) = h.split_once('>').unwrap();
                (parse_asset(a), parse_asset(b))
            })
            .collect()
    }
}
impl std::fmt::Display for Hook {
    fn fmt(&self, f: &mut std::fmt::Formatter) -> std::fmt::Result {
        match self {
            Hook::Swap { offer, amt, belief, ms, to } => write!(f, "swap:{offer}:{amt}:{}:{}:{}", o(belief), o(ms), o(to)),
            Hook::Withdraw => write!(f, "withdraw"),
            Hook::ROps { ops, min, to } => write!(f, "rops:{}:{}:{}", ops_str(ops), o(min), o(to)),
            Hook::Garbage => write!(f, "garbage"),
            Hook::IOp { offer, ask, to } => write!(f, "iop:{offer}:{ask}:{}", o(to)),
            Hook::IAssert { asset, prev, min, rcv } => write!(f, "iassert:{asset}:{prev}:{min}:{rcv}"),
        }
    }
}
fn parse_hook(s: &str) -> Hook {
    let p: Vec<&str> = s.split(':').collect();
    match p[0] {
        "swap" => Hook::Swap { offer: parse_asset(p[1]), amt: p[2].parse().unwrap(), belief: po(p[3]), ms: po(p[4]), to: po(p[5]) },
        "withdraw" => Hook::Withdraw,
        "rops" => Hook::ROps { ops: parse_ops(p[1]), min: po(p[2]), to: po(p[3]) },
        "iop" => Hook::IOp { offer: parse_asset(p[1]), ask: parse_asset(p[2]), to: po(p[3]) },
        "iassert" => Hook::IAssert { asset: parse_asset(p[1]), prev: p[2].parse().unwrap(), min: p[3].parse().unwrap(), rcv: p[4].parse().unwrap() },
        _ => Hook::Garbage,
    }
}

type Coins = Vec<(u64, u128)>;
fn coins_str(c: &Coins) -> String {
    if c.is_empty() {
        "-".into()
    } else {
        c.iter().map(|(d, a)| format!("{d}:{a}")).collect::<Vec<_>>().join(",")
    }
}
fn parse_coins(s: &str) -> Coins {
    if s == "-" {
        vec![]
    } else {
        s.split(',')
            .map(|c| {
                let (d, a) = c.split_once(':').unwrap();
                (d.parse().unwrap(), a.parse().unwrap())
            })
            .collect()
    }
}

#[derive(Clone, Debug)]
pub enum Op {
    BankSend { s: u64, d: u64, coins: Coins },
    TokTransfer { t: u64, s: u64, d: u64, amt: u128 },
    TokSend { t: u64, s: u64, d: u64, amt: u128, hook: Hook },
    TokInc { t: u64, owner: u64, spender: u64, amt: u128 },
    TokBurn { t: u64, s: u64, amt: u128 },
    // a third party (`sp`) using the allowance `owner` granted it
    TokXferFrom { t: u64, sp: u64, owner: u64, d: u64, amt: u128 },
    TokSendFrom { t: u64, sp: u64, owner: u64, d: u64, amt: u128, hook: Hook },
    TokBurnFrom { t: u64, sp: u64, owner: u64, amt: u128 },
    TokDec { t: u64, owner: u64, spender: u64, amt: u128 },
    Provide { s: u64, p: u64, funds: Coins, as0: A, am0: u128, as1: A, am1: u128, tol: Option<u128>, rcv: Option<u64> },
    Swap { s: u64, p: u64, funds: Coins, offer: A, amt: u128, belief: Option<u128>, ms: Option<u128>, to: Option<u64> },
    PairReceive { s: u64, p: u64, funds: Coins, from: u64, amount: u128, hook: Hook },
    PairUpd { s: u64, p: u64, funds: Coins, denom: u64, da: u8, db: u8 },
    ROps { s: u64, funds: Coins, ops: Vec<(A, A)>, min: Option<u128>, to: Option<u64> },
    ROp { s: u64, funds: Coins, offer: A, ask: A, to: Option<u64> },
    RAssert { s: u64, funds: Coins, asset: A, prev: u128, min: u128, rcv: u64 },
    RReceive { s: u64, funds: Coins, from: u64, amount: u128, hook: Hook },
    FCfg { s: u64, funds: Coins, owner: Option<u64>, tcode: Option<u64>, pcode: Option<u64> },
    FCreate { s: u64, funds: Coins, a0: A, a1: A, wl: Vec<u64>, min0: u128, min1: u128, comm: Option<u128>, lpd: Option<u8> },
    FAdd { s: u64, funds: Coins, denom: u64, decimals: u8 },
    FMig { s: u64, funds: Coins, p: u64, code: Option<u64> },
}

fn list_str(v: &[u64]) -> String {
    if v.is_empty() {
        "-".into()
    } else {
        v.iter().map(|x| x.to_string()).collect::<Vec<_>>().join(",")
    }
}

impl std::fmt::Display for Op {
    fn fmt(&self, f: &mut std::fmt::Formatter) -> std::fmt::Result {
        match self {
            Op::BankSend { s, d, coins } => write!(f, "bank_send {s} {d} {}", coins_str(coins)),
            Op::TokTransfer { t, s, d, amt } => write!(f, "tok_transfer {t} {s} {d} {amt}"),
            Op::TokSend { t, s, d, amt, hook } => write!(f, "tok_send {t} {s} {d} {amt} {hook}"),
            Op::TokInc { t, owner, spender, amt } => write!(f, "tok_inc {t} {owner} {spender} {amt}"),
            Op::TokBurn { t, s, amt } => write!(f, "tok_burn {t} {s} {amt}"),
            Op::TokXferFrom { t, sp, owner, d, amt } => write!(f, "tok_xfer_from {t} {sp} {owner} {d} {amt}"),
            Op::TokSendFrom { t, sp, owner, d, amt, hook } => write!(f, "tok_send_from {t} {sp} {owner} {d} {amt} {hook}"),
            Op::TokBurnFrom { t, sp, owner, amt } => write!(f, "tok_burn_from {t} {sp} {owner} {amt}"),
            Op::TokDec { t, owner, spender, amt } => write!(f, "tok_dec {t} {owner} {spender} {amt}"),
            Op::Provide { s, p, funds, as0, am0, as1, am1, tol, rcv } => {
                write!(f, "pair_provide {s} {p} {} {as0} {am0} {as1} {am1} {} {}", coins_str(funds), o(tol), o(rcv))
            }
            Op::Swap { s, p, funds, offer, amt, belief, ms, to } => {
                write!(f, "pair_swap {s} {p} {} {offer} {amt} {} {} {}", coins_str(funds), o(belief), o(ms), o(to))
            }
            Op::PairReceive { s, p, funds, from, amount, hook } => {
                write!(f, "pair_receive {s} {p} {} {from} {amount} {hook}", coins_str(funds))
            }
            Op::PairUpd { s, p, funds, denom, da, db } => write!(f, "pair_upd {s} {p} {} {denom} {da} {db}", coins_str(funds)),
            Op::ROps { s, funds, ops, min, to } => write!(f, "r_ops {s} {} {} {} {}", coins_str(funds), ops_str(ops), o(min), o(to)),
            Op::ROp { s, funds, offer, ask, to } => write!(f, "r_op {s} {} {offer} {ask} {}", coins_str(funds), o(to)),
            Op::RAssert { s, funds, asset, prev, min, rcv } => write!(f, "r_assert {s} {} {asset} {prev} {min} {rcv}", coins_str(funds)),
            Op::RReceive { s, funds, from, amount, hook } => write!(f, "r_receive {s} {} {from} {amount} {hook}", coins_str(funds)),
            Op::FCfg { s, funds, owner, tcode, pcode } => write!(f, "f_cfg {s} {} {} {} {}", coins_str(funds), o(owner), o(tcode), o(pcode)),
            Op::FCreate { s, funds, a0, a1, wl, min0, min1, comm, lpd } => {
                write!(f, "f_create {s} {} {a0} {a1} {} {min0} {min1} {} {}", coins_str(funds), list_str(wl), o(comm), o(lpd))
            }
            Op::FAdd { s, funds, denom, decimals } => write!(f, "f_add {s} {} {denom} {decimals}", coins_str(funds)),
            Op::FMig { s, funds, p, code } => write!(f, "f_mig {s} {} {p} {}", coins_str(funds), o(code)),
        }
    }
}

pub fn parse_op(t: &[&str]) -> Op {
    let n = |i: usize| -> u64 { t[i].parse().unwrap() };
    let a = |i: usize| -> u128 { t[i].parse().unwrap() };
    match t[0] {
        "bank_send" => Op::BankSend { s: n(1), d: n(2), coins: parse_coins(t[3]) },
        "tok_transfer" => Op::TokTransfer { t: n(1), s: n(2), d: n(3), amt: a(4) },
        "tok_send" => Op::TokSend { t: n(1), s: n(2), d: n(3), amt: a(4), hook: parse_hook(t[5]) },
        "tok_inc" => Op::TokInc { t: n(1), owner: n(2), spender: n(3), amt: a(4) },
        "tok_burn" => Op::TokBurn { t: n(1), s: n(2), amt: a(3) },
        "tok_xfer_from" => Op::TokXferFrom { t: n(1), sp: n(2), owner: n(3), d: n(4), amt: a(5) },
        "tok_send_from" => Op::TokSendFrom { t: n(1), sp: n(2), owner: n(3), d: n(4), amt: a(5), hook: parse_hook(t[6]) },
        "tok_burn_from" => Op::TokBurnFrom { t: n(1), sp: n(2), owner: n(3), amt: a(4) },
        "tok_dec" => Op::TokDec { t: n(1), owner: n(2), spender: n(3), amt: a(4) },
        "pair_provide" => Op::Provide {
            s: n(1), p: n(2), funds: parse_coins(t[3]), as0: parse_asset(t[4]), am0: a(5), as1: parse_asset(t[6]), am1: a(7),
            tol: po(t[8]), rcv: po(t[9]),
        },
        "pair_swap" => Op::Swap {
            s: n(1), p: n(2), funds: parse_coins(t[3]), offer: parse_asset(t[4]), amt: a(5), belief: po(t[6]), ms: po(t[7]), to: po(t[8]),
        },
        "pair_receive" => Op::PairReceive { s: n(1), p: n(2), funds: parse_coins(t[3]), from: n(4), amount: a(5), hook: parse_hook(t[6]) },
        "pair_upd" => Op::PairUpd { s: n(1), p: n(2), funds: parse_coins(t[3]), denom: n(4), da: n(5) as u8, db: n(6) as u8 },
        "r_ops" => Op::ROps { s: n(1), funds: parse_coins(t[2]), ops: parse_ops(t[3]), min: po(t[4]), to: po(t[5]) },
        "r_op" => Op::ROp { s: n(1), funds: parse_coins(t[2]), offer: parse_asset(t[3]), ask: parse_asset(t[4]), to: po(t[5]) },
        "r_assert" => Op::RAssert { s: n(1), funds: parse_coins(t[2]), asset: parse_asset(t[3]), prev: a(4), min: a(5), rcv: n(6) },
        "r_receive" => Op::RReceive { s: n(1), funds: parse_coins(t[2]), from: n(3), amount: a(4), hook: parse_hook(t[5]) },
        "f_cfg" => Op::FCfg { s: n(1), funds: parse_coins(t[2]), owner: po(t[3]), tcode: t.get(4).and_then(|x| po(x)), pcode: t.get(5).and_then(|x| po(x)) },
        "f_create" => Op::FCreate {
            s: n(1), funds: parse_coins(t[2]), a0: parse_asset(t[3]), a1: parse_asset(t[4]),
            wl: if t[5] == "-" { vec![] } else { t[5].split(',').map(|x| x.parse().unwrap()).collect() },
            min0: a(6), min1: a(7), comm: po(t[8]), lpd: t.get(9).and_then(|x| po(x)),
        },
        "f_add" => Op::FAdd { s: n(1), funds: parse_coins(t[2]), denom: n(3), decimals: n(4) as u8 },
        "f_mig" => Op::FMig { s: n(1), funds: parse_coins(t[2]), p: n(3), code: t.get(4).and_then(|x| po(x)) },
        x => panic!("unknown op {x}"),
    }
}

#[derive(Clone, Debug)]
pub struct PairMeta {
    pub addr: u64,
    pub lp: u64,
    pub a0: A,
    pub a1: A,
}

pub struct Env<'a> {
    pub app: App,
    pub w: &'a mut dyn Write,
    pub addr_id: HashMap<String, u64>,
    pub addrs: Vec<String>,
    pub denoms: Vec<String>, // id = index
    pub factory: u64,
    pub router: u64,
    pub users: Vec<u64>,
    pub tokens: Vec<u64>,
    pub alias_tokens: Vec<u64>, // upper-case spellings of the token addresses: same canonical bytes, no contract lives there
    pub pairs: Vec<PairMeta>,
    pub accounts: Vec<u64>,
    pub assets: Vec<A>,
    pub allow_watch: Vec<(u64, u64, u64)>, // (token, owner, spender)
    pub last: HashMap<String, String>,
    pub seq: u64,
    pub stepno: u64,
    pub token_code: u64,
    pub pair_code: u64,
}

const USER_NAMES: [&str; 6] = ["owner000", "user0001", "user0002", "user0003", "rogue004", "newowner5"];
// denoms chosen so that concatenations collide: "uaura"+"uusd" == "uaurau"+"usd"
// the last three are native denoms whose text equals the address of one of the cw20 tokens (equal display text,
// different asset kind): cw-multi-test allocates contract0 = factory, contract1 = router, contract2..4 = tokens
const DENOMS: [(&str, u8); 13] = [
    ("uaura", 6), ("uusd", 6), ("uaurau", 18), ("usd", 0), ("ibc/1F", 8), ("uaurauusd", 6),
    ("contract2", 6), ("contract3", 6), ("contract4", 6),
    // two token-factory denoms of one creator: a 72-byte common prefix
    ("factory/aura1qyqszqgpqyqszqgpqyqszqgpqyqszqgpqyqszqgpqyqszqgpqyqs0ewtp9/gold", 6),
    ("factory/aura1qyqszqgpqyqszqgpqyqszqgpqyqszqgpqyqszqgpqyqszqgpqyqs0ewtp9/silver", 9),
    // denoms are case-sensitive: these two differ from "uaura" / "ibc/1F" by letter case only
    ("UAURA", 6), ("ibc/1f", 18),
];
const ND: u64 = DENOMS.len() as u64;
/// the denom that differs from `d` by letter case only, if the world has one
fn case_twin(d: u64) -> Option<u64> {
    match d { 0 => Some(11), 11 => Some(0), 4 => Some(12), 12 => Some(4), _ => None }
}

impl<'a> Env<'a> {
    fn aid(&mut self, s: &str) -> u64 {
        if let Some(i) = self.addr_id.get(s) {
            return *i;
        }
        let i = self.addrs.len() as u64;
        self.addrs.push(s.to_string());
        self.addr_id.insert(s.to_string(), i);
        i
    }
    fn addr(&self, i: u64) -> Addr {
        Addr::unchecked(self.addrs[i as usize].clone())
    }
    fn astr(&self, i: u64) -> String {
        self.addrs[i as usize].clone()
    }
    fn info(&self, a: A) -> AssetInfo {
        match a {
            A::N(d) => AssetInfo::NativeToken { denom: self.denoms[d as usize].clone() },
            A::T(t) => AssetInfo::Token { contract_addr: self.astr(t) },
        }
    }
    fn coins(&self, c: &Coins) -> Vec<Coin> {
        c.iter().map(|(d, a)| Coin { denom: self.denoms[*d as usize].clone(), amount: Uint128::new(*a) }).collect()
    }
    fn decl_asset(&mut self, a: A) {
        let (raw, name) = match a {
            A::N(d) => (self.denoms[d as usize].as_bytes().to_vec(), self.denoms[d as usize].clone()),
            A::T(t) => {
                let s = self.astr(t);
                (MockApi::default().addr_canonicalize(&s).unwrap().as_slice().to_vec(), s)
            }
        };
        let rawhex: String = raw.iter().map(|b| format!("{:02x}", b)).collect();
        writeln!(self.w, "asset {a} raw=h{rawhex} name={}", hex(&name)).unwrap();
    }

    /// a smart query that can neither abort the harness (a contract panic inside a query is caught) nor be mistaken
    /// for a harness bug
    pub fn q<T: serde::de::DeserializeOwned, M: serde::Serialize>(&self, addr: String, msg: &M) -> Result<T, String> {
        let app_ptr: *const App = &self.app;
        let prev = GUARDED.swap(true, Ordering::SeqCst);
        let r = catch_unwind(AssertUnwindSafe(|| {
            let app: &App = unsafe { &*app_ptr };
            app.wrap().query_wasm_smart::<T>(addr, msg)
        }));
        GUARDED.store(prev, Ordering::SeqCst);
        match r {
            Ok(Ok(x)) => Ok(x),
            Ok(Err(e)) => Err(e.to_string()),
            Err(_) => Err("panic".into()),
        }
    }
    pub fn bal(&self, a: A, who: u64) -> u128 {
        match a {
            // (the bank query validates the address string: an invalid one holds nothing)
            A::N(d) => self.app.wrap().query_balance(self.astr(who), self.denoms[d as usize].clone()).map(|c| c.amount.u128()).unwrap_or(0),
            A::T(t) => {
                // a query can fail on states only a defective implementation reaches (e.g. an unnormalised address
                // recorded as a pair asset): observe 0 rather than abort the harness — the divergence is reported anyway
                let r: Result<BalanceResponse, _> =
                    self.q(self.astr(t), &Cw20QueryMsg::Balance { address: self.astr(who) });
                r.map(|x| x.balance.u128()).unwrap_or(0)
            }
        }
    }
    pub fn supply(&self, t: u64) -> u128 {
        let r: Result<TokenInfoResponse, _> = self.q(self.astr(t), &Cw20QueryMsg::TokenInfo {});
        r.map(|x| x.total_supply.u128()).unwrap_or(0)
    }

    fn hook_bin(&self, h: &Hook, for_router: bool) -> cosmwasm_std::Binary {
        match h {
            Hook::Swap { offer, amt, belief, ms, to } => to_binary(&PairHook::Swap {
                offer_asset: Asset { info: self.info(*offer), amount: Uint128::new(*amt) },
                belief_price: belief.map(Decimal::raw),
                max_spread: ms.map(Decimal::raw),
                to: to.map(|x| self.astr(x)),
            })
            .unwrap(),
            Hook::Withdraw => to_binary(&PairHook::WithdrawLiquidity {}).unwrap(),
            Hook::ROps { ops, min, to } => to_binary(&RouterHook::ExecuteSwapOperations {
                operations: self.swap_ops(ops),
                minimum_receive: min.map(Uint128::new),
                to: to.map(|x| self.astr(x)),
            })
            .unwrap(),
            Hook::IOp { offer, ask, to } => to_binary(&RouterExec::ExecuteSwapOperation {
                operation: SwapOperation::HaloSwap { offer_asset_info: self.info(*offer), ask_asset_info: self.info(*ask) },
                to: to.map(|x| self.astr(x)),
            })
            .unwrap(),
            Hook::IAssert { asset, prev, min, rcv } => to_binary(&RouterExec::AssertMinimumReceive {
                asset_info: self.info(*asset), prev_balance: Uint128::new(*prev), minimum_receive: Uint128::new(*min), receiver: self.astr(*rcv),
            })
            .unwrap(),
            Hook::Garbage => {
                let _ = for_router;
                cosmwasm_std::Binary::from(b"{\"nonsense\":{}}".to_vec())
            }
        }
    }
    fn swap_ops(&self, ops: &[(A, A)]) -> Vec<SwapOperation> {
        ops.iter()
            .map(|(a, b)| SwapOperation::HaloSwap { offer_asset_info: self.info(*a), ask_asset_info: self.info(*b) })
            .collect()
    }

    /// run one operation on the real contracts
    fn exec(&mut self, op: &Op) -> Result<AppResponse, String> {
        let app_ptr: *mut App = &mut self.app;
        let me: &Env = self;
        let run = || -> Result<AppResponse, String> {
            // SAFETY: `app` is only touched through this pointer inside the closure
            let app: &mut App = unsafe { &mut *app_ptr };
            let r = match op {
                Op::BankSend { s, d, coins } => app.send_tokens(me.addr(*s), me.addr(*d), &me.coins(coins)),
                Op::TokTransfer { t, s, d, amt } => app.execute_contract(
                    me.addr(*s), me.addr(*t),
                    &Cw20ExecuteMsg::Transfer { recipient: me.astr(*d), amount: Uint128::new(*amt) }, &[]),
                Op::TokSend { t, s, d, amt, hook } => app.execute_contract(
                    me.addr(*s), me.addr(*t),
                    &Cw20ExecuteMsg::Send { contract: me.astr(*d), amount: Uint128::new(*amt), msg: me.hook_bin(hook, *d == me.router) }, &[]),
                Op::TokInc { t, owner, spender, amt } => app.execute_contract(
                    me.addr(*owner), me.addr(*t),
                    &Cw20ExecuteMsg::IncreaseAllowance { spender: me.astr(*spender), amount: Uint128::new(*amt), expires: None }, &[]),
                Op::TokBurn { t, s, amt } => app.execute_contract(me.addr(*s), me.addr(*t), &Cw20ExecuteMsg::Burn { amount: Uint128::new(*amt) }, &[]),
                Op::TokXferFrom { t, sp, owner, d, amt } => app.execute_contract(me.addr(*sp), me.addr(*t),
                    &Cw20ExecuteMsg::TransferFrom { owner: me.astr(*owner), recipient: me.astr(*d), amount: Uint128::new(*amt) }, &[]),
                Op::TokSendFrom { t, sp, owner, d, amt, hook } => app.execute_contract(me.addr(*sp), me.addr(*t),
                    &Cw20ExecuteMsg::SendFrom { owner: me.astr(*owner), contract: me.astr(*d), amount: Uint128::new(*amt), msg: me.hook_bin(hook, *d == me.router) }, &[]),
                Op::TokBurnFrom { t, sp, owner, amt } => app.execute_contract(me.addr(*sp), me.addr(*t),
                    &Cw20ExecuteMsg::BurnFrom { owner: me.astr(*owner), amount: Uint128::new(*amt) }, &[]),
                Op::TokDec { t, owner, spender, amt } => app.execute_contract(me.addr(*owner), me.addr(*t),
                    &Cw20ExecuteMsg::DecreaseAllowance { spender: me.astr(*spender), amount: Uint128::new(*amt), expires: None }, &[]),
                Op::Provide { s, p, funds, as0, am0, as1, am1, tol, rcv } => app.execute_contract(
                    me.addr(*s), me.addr(*p),
                    &PairExec::ProvideLiquidity {
                        assets: [Asset { info: me.info(*as0), amount: Uint128::new(*am0) }, Asset { info: me.info(*as1), amount: Uint128::new(*am1) }],
                        slippage_tolerance: tol.map(Decimal::raw),
                        receiver: rcv.map(|x| me.astr(x)),
                    }, &me.coins(funds)),
                Op::Swap { s, p, funds, offer, amt, belief, ms, to } => app.execute_contract(
                    me.addr(*s), me.addr(*p),
                    &PairExec::Swap {
                        offer_asset: Asset { info: me.info(*offer), amount: Uint128::new(*amt) },
                        belief_price: belief.map(Decimal::raw), max_spread: ms.map(Decimal::raw), to: to.map(|x| me.astr(x)),
                    }, &me.coins(funds)),
                Op::PairReceive { s, p, funds, from, amount, hook } => app.execute_contract(
                    me.addr(*s), me.addr(*p),
                    &PairExec::Receive(cw20::Cw20ReceiveMsg { sender: me.astr(*from), amount: Uint128::new(*amount), msg: me.hook_bin(hook, false) }),
                    &me.coins(funds)),
                Op::PairUpd { s, p, funds, denom, da, db } => app.execute_contract(
                    me.addr(*s), me.addr(*p),
                    &PairExec::UpdateNativeTokenDecimals { denom: me.denoms[*denom as usize].clone(), asset_decimals: [*da, *db] }, &me.coins(funds)),
                Op::ROps { s, funds, ops, min, to } => app.execute_contract(
                    me.addr(*s), me.addr(me.router),
                    &RouterExec::ExecuteSwapOperations { operations: me.swap_ops(ops), minimum_receive: min.map(Uint128::new), to: to.map(|x| me.astr(x)) },
                    &me.coins(funds)),
                Op::ROp { s, funds, offer, ask, to } => app.execute_contract(
                    me.addr(*s), me.addr(me.router),
                    &RouterExec::ExecuteSwapOperation {
                        operation: SwapOperation::HaloSwap { offer_asset_info: me.info(*offer), ask_asset_info: me.info(*ask) },
                        to: to.map(|x| me.astr(x)),
                    }, &me.coins(funds)),
                Op::RAssert { s, funds, asset, prev, min, rcv } => app.execute_contract(
                    me.addr(*s), me.addr(me.router),
                    &RouterExec::AssertMinimumReceive { asset_info: me.info(*asset), prev_balance: Uint128::new(*prev), minimum_receive: Uint128::new(*min), receiver: me.astr(*rcv) },
                    &me.coins(funds)),
                Op::RReceive { s, funds, from, amount, hook } => app.execute_contract(
                    me.addr(*s), me.addr(me.router),
                    &RouterExec::Receive(cw20::Cw20ReceiveMsg { sender: me.astr(*from), amount: Uint128::new(*amount), msg: me.hook_bin(hook, true) }),
                    &me.coins(funds)),
                Op::FCfg { s, funds, owner, tcode, pcode } => app.execute_contract(
                    me.addr(*s), me.addr(me.factory),
                    &FacExec::UpdateConfig { owner: owner.map(|x| me.astr(x)), token_code_id: *tcode, pair_code_id: *pcode }, &me.coins(funds)),
                Op::FCreate { s, funds, a0, a1, wl, min0, min1, comm, lpd } => app.execute_contract(
                    me.addr(*s), me.addr(me.factory),
                    &FacExec::CreatePair {
                        asset_infos: [me.info(*a0), me.info(*a1)],
                        requirements: CreatePairRequirements {
                            whitelist: wl.iter().map(|x| me.addr(*x)).collect(),
                            first_asset_minimum: Uint128::new(*min0),
                            second_asset_minimum: Uint128::new(*min1),
                        },
                        commission_rate: comm.map(|c| Decimal256(bigint::U256::from_dec_str(&c.to_string()).unwrap())),
                        lp_token_info: LPTokenInfo { lp_token_name: "halo-lp".into(), lp_token_symbol: "HALOLP".into(), lp_token_decimals: *lpd },
                    }, &me.coins(funds)),
                Op::FAdd { s, funds, denom, decimals } => app.execute_contract(
                    me.addr(*s), me.addr(me.factory),
                    &FacExec::AddNativeTokenDecimals { denom: me.denoms[*denom as usize].clone(), decimals: *decimals }, &me.coins(funds)),
                Op::FMig { s, funds, p, code } => app.execute_contract(
                    me.addr(*s), me.addr(me.factory),
                    &FacExec::MigratePair { contract: me.astr(*p), code_id: *code }, &me.coins(funds)),
            };
            // the typed guard rejections are recognised by enum variant (robust against a reworded message);
            // the rendered text is kept as well for errors that crossed a contract boundary as strings
            r.map_err(|e| {
                let guard = matches!(e.downcast_ref::<haloswap::error::ContractError>(),
                    Some(haloswap::error::ContractError::MaxSpreadAssertion {}) | Some(haloswap::error::ContractError::MaxSlippageAssertion {}));
                let txt = format!("{:#}", e);
                if guard && !txt.contains("Max spread assertion") && !txt.contains("Max slippage assertion") {
                    format!("Max spread assertion (variant) {txt}")
                } else { txt }
            })
        };
        GUARDED.store(std::env::var("HALO_DEBUG").is_err(), Ordering::SeqCst);
        let r = catch_unwind(AssertUnwindSafe(run));
        GUARDED.store(false, Ordering::SeqCst);
        match r {
            Ok(x) => x,
            Err(_) => Err("panic".into()),
        }
    }

    fn attr(resp: &AppResponse, key: &str) -> Option<String> {
        for e in &resp.events {
            for a in &e.attributes {
                if a.key == key {
                    return Some(a.value.clone());
                }
            }
        }
        None
    }

    /// execute + print the step line + print changed observations
    pub fn step(&mut self, op: Op) -> bool {
        self.stepno += 1;
        let res = self.exec(&op);
        let mut line = format!("step seq={} i={} {} => ", self.seq, self.stepno, op);
        let ok = res.is_ok();
        match &res {
            Ok(resp) => {
                line.push_str("ok");
                match &op {
                    Op::Swap { .. } | Op::TokSend { hook: Hook::Swap { .. }, .. } | Op::TokSendFrom { hook: Hook::Swap { .. }, .. } | Op::PairReceive { hook: Hook::Swap { .. }, .. } => {
                        if let (Some(a), Some(b), Some(c), Some(d)) = (
                            Self::attr(resp, "offer_amount"), Self::attr(resp, "return_amount"),
                            Self::attr(resp, "spread_amount"), Self::attr(resp, "commission_amount"),
                        ) {
                            line.push_str(&format!(" swap {a} {b} {c} {d}"));
                        }
                    }
                    Op::Provide { .. } => {
                        if let Some(s) = Self::attr(resp, "share") {
                            line.push_str(&format!(" share {s}"));
                        }
                    }
                    Op::TokSend { hook: Hook::Withdraw, .. } | Op::TokSendFrom { hook: Hook::Withdraw, .. } | Op::PairReceive { hook: Hook::Withdraw, .. } => {
                        if let Some(s) = Self::attr(resp, "refund_assets") {
                            // "<amt0><info0>, <amt1><info1>" — leading digits are the amounts
                            let amts: Vec<String> = s.split(", ").map(|p| p.chars().take_while(|c| c.is_ascii_digit()).collect()).collect();
                            if amts.len() == 2 {
                                line.push_str(&format!(" refund {} {}", amts[0], amts[1]));
                            }
                        }
                    }
                    Op::FCreate { a0, a1, .. } => {
                        let pa = Self::attr(resp, "pair_contract_addr").unwrap_or_default();
                        let la = Self::attr(resp, "liquidity_token_addr").unwrap_or_default();
                        let np = self.aid(&pa);
                        let nl = self.aid(&la);
                        line.push_str(&format!(" created {np} {nl}"));
                        self.pairs.push(PairMeta { addr: np, lp: nl, a0: *a0, a1: *a1 });
                        // balances are observed for the first 8 pairs only (pair / pool / registry observations for all):
                        // keeps registries of 40+ pairs affordable
                        if self.pairs.len() <= 8 {
                            self.accounts.push(np);
                            self.accounts.push(nl);
                            self.assets.push(A::T(nl));
                        }
                        writeln!(self.w, "{line}").unwrap();
                        self.decl_asset(A::T(nl));
                        self.observe();
                        self.q_lookup(*a0, *a1);
                        self.q_lookup(*a1, *a0);
                        return true;
                    }
                    _ => {}
                }
            }
            Err(e) => {
                if std::env::var("HALO_DEBUG").is_ok() {
                    { let m = e.replace('\n', " | "); let tail: String = m.chars().rev().take(160).collect::<Vec<_>>().into_iter().rev().collect(); eprintln!("step {} {} failed: …{}", self.stepno, op, tail); }
                }
                let class = if e.contains("Max spread assertion") || e.contains("Max slippage assertion") { "fail:guard" } else { "fail" };
                line.push_str(class);
            }
        }
        writeln!(self.w, "{line}").unwrap();
        self.observe();
        if let Op::FCreate { a0, a1, .. } = &op {
            self.q_lookup(*a0, *a1);
            self.q_lookup(*a1, *a0);
        }
        ok
    }

    fn put(&mut self, key: String, val: String) {
        if self.last.get(&key) != Some(&val) {
            writeln!(self.w, "obs {key} => {val}").unwrap();
            self.last.insert(key, val);
        }
    }

    fn wl_str(&self, wl: &[Addr]) -> String {
        if wl.is_empty() {
            "-".into()
        } else {
            wl.iter().map(|a| self.addr_id.get(a.as_str()).map(|i| i.to_string()).unwrap_or("?".into())).collect::<Vec<_>>().join(",")
        }
    }
    fn info_id(&self, i: &AssetInfo) -> String {
        match i {
            AssetInfo::NativeToken { denom } => match self.denoms.iter().position(|d| d == denom) {
                Some(p) => format!("n{p}"),
                None => "n?".into(),
            },
            AssetInfo::Token { contract_addr } => match self.addr_id.get(contract_addr) {
                Some(p) => format!("t{p}"),
                None => "t?".into(),
            },
        }
    }
    fn pair_info_str(&self, pi: &PairInfo) -> String {
        format!(
            "{} {} {} {} {} {} {} {} {} {}",
            self.addr_id.get(&pi.contract_addr).map(|x| x.to_string()).unwrap_or("?".into()),
            self.info_id(&pi.asset_infos[0]), self.info_id(&pi.asset_infos[1]),
            pi.asset_decimals[0], pi.asset_decimals[1],
            self.addr_id.get(&pi.liquidity_token).map(|x| x.to_string()).unwrap_or("?".into()),
            pi.commission_rate.0, self.wl_str(&pi.requirements.whitelist),
            pi.requirements.first_asset_minimum, pi.requirements.second_asset_minimum
        )
    }

    /// the full observable state; only changed entries are printed
    pub fn observe(&mut self) {
        let accounts = self.accounts.clone();
        let assets = self.assets.clone();
        for a in &assets {
            for who in &accounts {
                let v = self.bal(*a, *who);
                self.put(format!("bal {a} {who}"), v.to_string());
            }
            if let A::T(t) = a {
                let s = self.supply(*t);
                self.put(format!("supply {t}"), s.to_string());
            }
        }
        for (t, owner, spender) in self.allow_watch.clone() {
            let r: Result<cw20::AllowanceResponse, _> = self.q(self.astr(t), &Cw20QueryMsg::Allowance { owner: self.astr(owner), spender: self.astr(spender) });
            self.put(format!("allow {t} {owner} {spender}"), match r { Ok(x) => x.allowance.to_string(), Err(_) => "err".into() });
        }
        for pm in self.pairs.clone().iter().take(8) {
            let r: Result<cw20::TokenInfoResponse, _> = self.q(self.astr(pm.lp), &Cw20QueryMsg::TokenInfo {});
            self.put(format!("tdec {}", pm.lp), match r { Ok(x) => x.decimals.to_string(), Err(_) => "err".into() });
        }
        let cfg: ConfigResponse = self.q(self.astr(self.factory), &FacQuery::Config {}).unwrap();
        let oid = self.aid(&cfg.owner);
        self.put("owner".into(), oid.to_string());
        self.put("codes".into(), format!("{} {}", cfg.pair_code_id, cfg.token_code_id));
        for d in 0..self.denoms.len() {
            let r: Result<NativeTokenDecimalsResponse, _> =
                self.q(self.astr(self.factory), &FacQuery::NativeTokenDecimals { denom: self.denoms[d].clone() });
            self.put(format!("denom {d}"), match r { Ok(x) => x.decimals.to_string(), Err(_) => "-".into() });
        }
        for pm in self.pairs.clone() {
            let pi: Result<PairInfo, _> = self.q(self.astr(pm.addr), &PairQuery::Pair {});
            let s = match &pi { Ok(pi) => self.pair_info_str(pi), Err(_) => "err".into() };
            self.put(format!("pair {}", pm.addr), s);
            let pool: Result<PoolResponse, _> = self.q(self.astr(pm.addr), &PairQuery::Pool {});
            let ps = match pool { Ok(pool) => format!("{} {} {}", pool.assets[0].amount, pool.assets[1].amount, pool.total_share), Err(_) => "err".into() };
            self.put(format!("pool {}", pm.addr), ps);
            for (x, y) in [(pm.a0, pm.a1), (pm.a1, pm.a0)] {
                let r: Result<PairInfo, _> = self.q(self.astr(self.factory), &FacQuery::Pair { asset_infos: [self.info(x), self.info(y)] });
                let v = match r { Ok(pi) => self.pair_info_str(&pi), Err(_) => "none".into() };
                self.put(format!("reg {x} {y}"), v);
            }
        }
        // the whole listing, walked with the maximum page size
        let mut all: Vec<String> = vec![];
        let mut cursor: Option<[AssetInfo; 2]> = None;
        for _ in 0..100 {
            let r: PairsResponse = match self.q(self.astr(self.factory), &FacQuery::Pairs { start_after: cursor.clone(), limit: Some(30) }) {
                Ok(r) => r,
                Err(_) => { all.push("err".into()); break; }
            };
            if r.pairs.is_empty() {
                break;
            }
            for pi in &r.pairs {
                all.push(self.addr_id.get(&pi.contract_addr).map(|x| x.to_string()).unwrap_or("?".into()));
            }
            cursor = Some(r.pairs.last().unwrap().asset_infos.clone());
        }
        self.put("listing".into(), if all.is_empty() { "-".into() } else { all.join(",") });
    }

    // ---- queries emitted as their own lines (compared with the model's pure query functions)
    pub fn q_sim(&mut self, p: u64, offer: A, amt: u128) {
        let app_ptr: *const App = &self.app;
        let me: &Env = self;
        GUARDED.store(true, Ordering::SeqCst);
        let r = catch_unwind(AssertUnwindSafe(|| {
            let app: &App = unsafe { &*app_ptr };
            app.wrap().query_wasm_smart::<SimulationResponse>(me.astr(p), &PairQuery::Simulation { offer_asset: Asset { info: me.info(offer), amount: Uint128::new(amt) } })
        }));
        GUARDED.store(false, Ordering::SeqCst);
        let s = match r { Ok(Ok(x)) => format!("ok {} {} {}", x.return_amount, x.spread_amount, x.commission_amount), _ => "fail".into() };
        writeln!(self.w, "query seq={} sim {p} {offer} {amt} => {s}", self.seq).unwrap();
    }
    pub fn q_rsim(&mut self, p: u64, ask: A, amt: u128) {
        let app_ptr: *const App = &self.app;
        let me: &Env = self;
        GUARDED.store(true, Ordering::SeqCst);
        let r = catch_unwind(AssertUnwindSafe(|| {
            let app: &App = unsafe { &*app_ptr };
            app.wrap().query_wasm_smart::<ReverseSimulationResponse>(me.astr(p), &PairQuery::ReverseSimulation { ask_asset: Asset { info: me.info(ask), amount: Uint128::new(amt) } })
        }));
        GUARDED.store(false, Ordering::SeqCst);
        let s = match r { Ok(Ok(x)) => format!("ok {} {} {}", x.offer_amount, x.spread_amount, x.commission_amount), _ => "fail".into() };
        writeln!(self.w, "query seq={} rsim {p} {ask} {amt} => {s}", self.seq).unwrap();
    }
    pub fn q_router(&mut self, reverse: bool, amt: u128, ops: &[(A, A)]) {
        let app_ptr: *const App = &self.app;
        let me: &Env = self;
        GUARDED.store(true, Ordering::SeqCst);
        let r = catch_unwind(AssertUnwindSafe(|| {
            let app: &App = unsafe { &*app_ptr };
            let q = if reverse {
                RouterQuery::ReverseSimulateSwapOperations { ask_amount: Uint128::new(amt), operations: me.swap_ops(ops) }
            } else {
                RouterQuery::SimulateSwapOperations { offer_amount: Uint128::new(amt), operations: me.swap_ops(ops) }
            };
            app.wrap().query_wasm_smart::<SimulateSwapOperationsResponse>(me.astr(me.router), &q)
        }));
        GUARDED.store(false, Ordering::SeqCst);
        let s = match r { Ok(Ok(x)) => format!("ok {}", x.amount), _ => "fail".into() };
        writeln!(self.w, "query seq={} {} {amt} {} => {s}", self.seq, if reverse { "rrev" } else { "rsimops" }, ops_str(ops)).unwrap();
    }
    /// the hop-by-hop composition of the pairs' own (reverse) simulation queries, computed here from the
    /// implementation's answers: what the router's (reverse) simulation must equal (C12)
    pub fn q_router_comp(&mut self, reverse: bool, amt: u128, ops: &[(A, A)]) {
        let app_ptr: *const App = &self.app;
        let me: &Env = self;
        GUARDED.store(true, Ordering::SeqCst);
        let r = catch_unwind(AssertUnwindSafe(|| -> Option<u128> {
            let app: &App = unsafe { &*app_ptr };
            if ops.is_empty() {
                return None;
            }
            let mut cur = amt;
            let seq: Vec<&(A, A)> = if reverse { ops.iter().rev().collect() } else { ops.iter().collect() };
            for (o, a) in seq {
                let pi: PairInfo = app.wrap().query_wasm_smart(me.astr(me.factory), &FacQuery::Pair { asset_infos: [me.info(*o), me.info(*a)] }).ok()?;
                if reverse {
                    let x: ReverseSimulationResponse = app.wrap().query_wasm_smart(pi.contract_addr, &PairQuery::ReverseSimulation { ask_asset: Asset { info: me.info(*a), amount: Uint128::new(cur) } }).ok()?;
                    cur = x.offer_amount.u128();
                } else {
                    let x: SimulationResponse = app.wrap().query_wasm_smart(pi.contract_addr, &PairQuery::Simulation { offer_asset: Asset { info: me.info(*o), amount: Uint128::new(cur) } }).ok()?;
                    cur = x.return_amount.u128();
                }
            }
            Some(cur)
        }));
        GUARDED.store(false, Ordering::SeqCst);
        let s = match r { Ok(Some(x)) => format!("ok {x}"), _ => "fail".into() };
        writeln!(self.w, "query seq={} {} {amt} {} => {s}", self.seq, if reverse { "rrevcomp" } else { "rsimcomp" }, ops_str(ops)).unwrap();
    }
    pub fn q_lookup(&mut self, a: A, b: A) {
        let r: Result<PairInfo, _> = self.q(self.astr(self.factory), &FacQuery::Pair { asset_infos: [self.info(a), self.info(b)] });
        let s = match r { Ok(pi) => self.pair_info_str(&pi), Err(_) => "none".into() };
        writeln!(self.w, "query seq={} lookup {a} {b} => ok {s}", self.seq).unwrap();
    }
    pub fn q_pairs(&mut self, start: Option<(A, A)>, limit: Option<u32>) {
        let r: Result<PairsResponse, _> = self.q(
            self.astr(self.factory),
            &FacQuery::Pairs { start_after: start.map(|(a, b)| [self.info(a), self.info(b)]), limit },
        );
        let s = match r {
            Ok(x) => {
                let v: Vec<String> = x.pairs.iter().map(|pi| self.addr_id.get(&pi.contract_addr).map(|x| x.to_string()).unwrap_or("?".into())).collect();
                format!("ok {}", if v.is_empty() { "-".into() } else { v.join(",") })
            }
            Err(_) => "fail".into(),
        };
        writeln!(self.w, "query seq={} pairs {} {} => {s}", self.seq,
            match start { Some((a, b)) => format!("{a},{b}"), None => "-".into() }, o(&limit)).unwrap();
    }
}

/// build the fixed part of a world from the sequence seed and print its declarations
pub fn setup<'a>(w: &'a mut dyn Write, seq: u64, seed: u64, family: &str) -> (Env<'a>, Rng) {
    let mut r = Rng::new(seed.wrapping_mul(0x9E3779B97F4A7C15) ^ seq.wrapping_mul(0xD1B54A32D192ED03));
    // magnitude profile of this sequence
    let big = r.below(4) == 0;
    let unit: u128 = if big { 1u128 << r.range(63, 88) } else { 10u128.pow(r.range(3, 12) as u32) };
    let users: Vec<String> = USER_NAMES.iter().map(|s| s.to_string()).collect();
    let denoms: Vec<String> = DENOMS.iter().map(|(d, _)| d.to_string()).collect();
    let init: Vec<(String, Vec<Coin>)> = users
        .iter()
        .map(|u| {
            (u.clone(), denoms.iter().map(|d| Coin { denom: d.clone(), amount: Uint128::new(unit.saturating_mul(1_000_000).min(1u128 << 120)) }).collect())
        })
        .collect();
    let mut app = AppBuilder::new().build(|router, _, storage| {
        for (u, coins) in &init {
            router.bank.init_balance(storage, &Addr::unchecked(u.clone()), coins.clone()).unwrap();
        }
    });
    let fcode = app.store_code(c_factory());
    let pcode = app.store_code(c_pair());
    let rcode = app.store_code(c_router());
    let tcode = app.store_code(c_token());
    let owner = Addr::unchecked(users[0].clone());
    let factory = app
        .instantiate_contract(fcode, owner.clone(), &FacInit { pair_code_id: pcode, token_code_id: tcode }, &[], "factory", None)
        .unwrap();
    let router = app
        .instantiate_contract(rcode, owner.clone(), &RouterInit { halo_factory: factory.to_string() }, &[], "router", None)
        .unwrap();
    let mut env = Env {
        app, w, addr_id: HashMap::new(), addrs: vec![], denoms, factory: 0, router: 0, users: vec![], tokens: vec![], alias_tokens: vec![], pairs: vec![],
        accounts: vec![], assets: vec![], allow_watch: vec![], last: HashMap::new(), seq, stepno: 0, token_code: tcode, pair_code: pcode,
    };
    writeln!(env.w, "begin seq={seq} seed={seed} family={family}").unwrap();
    for u in &users {
        let i = env.aid(u);
        env.users.push(i);
        env.accounts.push(i);
    }
    env.factory = env.aid(factory.as_str());
    env.router = env.aid(router.as_str());
    env.accounts.push(env.factory);
    env.accounts.push(env.router);
    writeln!(env.w, "fac {} owner={} pair_code={} token_code={}", env.factory, env.users[0], pcode, tcode).unwrap();
    writeln!(env.w, "router {}", env.router).unwrap();
    for d in 0..env.denoms.len() {
        env.assets.push(A::N(d as u64));
        env.decl_asset(A::N(d as u64));
    }
    // cw20 tokens with different decimals, balances spread over the users
    for (k, dec) in [(0usize, 6u8), (1, 18), (2, 8)] {
        let bals: Vec<Cw20Coin> = users.iter().map(|u| Cw20Coin { address: u.clone(), amount: Uint128::new(unit.saturating_mul(1_000_000).min(1u128 << 120)) }).collect();
        let t = env
            .app
            .instantiate_contract(
                env.token_code, owner.clone(),
                &cw20_base::msg::InstantiateMsg {
                    name: format!("token{k}"), symbol: "TOK".into(), decimals: dec, initial_balances: bals.clone(),
                    mint: Some(MinterResponse { minter: users[0].clone(), cap: None }), marketing: None,
                },
                &[], "token", None,
            )
            .unwrap();
        let tid = env.aid(t.as_str());
        env.tokens.push(tid);
        env.accounts.push(tid);
        env.assets.push(A::T(tid));
        let total: u128 = bals.iter().map(|b| b.amount.u128()).sum();
        writeln!(env.w, "token {tid} decimals={dec} minter={} supply={total}", env.users[0]).unwrap();
        env.decl_asset(A::T(tid));
        for (u, b) in users.iter().zip(bals.iter()) {
            let uid = env.addr_id[u];
            writeln!(env.w, "tbal {tid} {uid} {}", b.amount).unwrap();
        }
    }
    // the same token contracts named in upper case (canonicalisation is case-insensitive, address equality is not)
    for t in env.tokens.clone() {
        let up = env.astr(t).to_uppercase();
        let aid = env.aid(&up);
        env.alias_tokens.push(aid);
        env.decl_asset(A::T(aid));
        // as an *account* such a string fails address validation ("not normalized")
        writeln!(env.w, "bad {aid}").unwrap();
        // observed like any account: a swap that (wrongly) accepts it as recipient must be judged on balances
        env.accounts.push(aid);
    }
    for u in 0..users.len() {
        for d in 0..env.denoms.len() {
            let v = env.bal(A::N(d as u64), env.users[u]);
            writeln!(env.w, "bank {} {d} {v}", env.users[u]).unwrap();
        }
    }
    writeln!(env.w, "unit {unit}").unwrap();
    env.observe();
    (env, r)
}

fn pick_rate(r: &mut Rng) -> u128 {
    match r.below(8) {
        0 => 0,
        1 => E18,
        2 => 3_000_000_000_000_000,
        3 => 30_000_000_000_000_000,
        4 => 1,
        5 => E18 - 1,
        _ => r.below(E18 as u64 / 10) as u128,
    }
}

/// amount relative to a reference value: dust … multiples
fn amt_rel(r: &mut Rng, reference: u128) -> u128 {
    match r.below(16) {
        0 => 0,
        1 => 1,
        2 => reference,
        3 | 8 | 9 | 10 => reference / (1 + r.below(1000) as u128),
        4 => reference.saturating_mul(1 + r.below(50) as u128),
        5 | 11 => reference / 2 + r.below(3) as u128,
        _ => {
            if reference == 0 {
                r.below(1000) as u128
            } else {
                r.u128_raw() % reference.saturating_add(1)
            }
        }
    }
}

pub struct Gen {
    pub unit: u128,
}

impl Gen {
    fn user(&self, e: &Env, r: &mut Rng) -> u64 {
        e.users[r.range(1, 4) as usize]
    }
    fn any_asset(&self, e: &Env, r: &mut Rng) -> A {
        if r.chance(1, 2) {
            A::N(r.below(e.denoms.len() as u64))
        } else {
            A::T(*r.pick(&e.tokens))
        }
    }
    fn funds_for(&self, r: &mut Rng, assets: &[(A, u128)]) -> Coins {
        let mut c: Coins = vec![];
        for (a, amt) in assets {
            if let A::N(d) = a {
                c.push((*d, *amt));
            }
        }
        let k = if c.is_empty() { 0 } else { r.below(c.len() as u64) as usize };
        match r.below(40) {
            0 if !c.is_empty() => { c[k].1 = c[k].1.saturating_add(1); }
            1 if !c.is_empty() => { c[k].1 = c[k].1.saturating_sub(1); }
            2 if !c.is_empty() => { c.remove(k); }
            5 if !c.is_empty() => { c[k].1 = c[k].1 / 2; }
            6 if !c.is_empty() => { c[k].1 = c[k].1.saturating_mul(2); }
            // the same amount under a denom that differs by letter case only (denoms are case-sensitive)
            7 | 8 if !c.is_empty() => { if let Some(t) = case_twin(c[k].0) { c[k].0 = t; } }
            3 => { let a = if r.chance(1, 2) { 1 + r.below(1000) as u128 } else { amt_rel(r, self.unit.saturating_mul(100)) }; c.push((r.below(ND), a)); }
            // an extra coin of the *other* pair asset's kind is the interesting one: the last declared asset's neighbour
            9 if !assets.is_empty() => {
                if let Some((A::N(d), amt)) = assets.iter().rev().find(|(a, _)| matches!(a, A::N(_))).copied() {
                    let other = (d + 1 + r.below(ND - 1)) % ND;
                    c.push((other, amt / (1 + r.below(50) as u128) + 1));
                }
            }
            4 => { c.insert(0, (r.below(ND), r.below(3) as u128)); }
            _ => {}
        }
        // a chain validates coins as sorted and duplicate-free before a contract runs; cw-multi-test does not.
        // Duplicated denoms are exercised in the `assert_sent` function family only.
        let mut seen: Vec<u64> = vec![];
        c.retain(|(d, _)| if seen.contains(d) { false } else { seen.push(*d); true });
        c
    }

    pub fn setup_pairs(&self, e: &mut Env, r: &mut Rng, npairs: usize) {
        let owner = e.users[0];
        // factory needs a balance of a denom to register it
        // (one denom is sometimes left without a factory balance: its registration must then be refused)
        let skip = if r.chance(1, 2) { Some(r.below(e.denoms.len() as u64)) } else { None };
        let coins: Coins = (0..e.denoms.len() as u64).filter(|d| Some(*d) != skip).map(|d| (d, 1u128)).collect();
        e.step(Op::BankSend { s: owner, d: e.factory, coins });
        for d in 0..e.denoms.len() {
            if d == 5 && r.chance(1, 2) {
                continue; // sometimes leave one denom unregistered
            }
            e.step(Op::FAdd { s: owner, funds: vec![], denom: d as u64, decimals: DENOMS[d].1 });
        }
        let mut tries = 0;
        while e.pairs.len() < npairs && tries < npairs * 4 {
            tries += 1;
            let a0 = self.any_asset(e, r);
            let a1 = self.any_asset(e, r);
            let wl: Vec<u64> = match r.below(3) {
                0 => vec![e.users[0], e.users[1]],
                1 => e.users[0..5].to_vec(),
                _ => vec![e.users[1], e.users[2], e.users[3]],
            };
            let comm = match r.below(5) { 0 => None, _ => Some(pick_rate(r)) };
            let mu = self.unit.min(1u128 << 62) / 1000;
            let m0 = r.below(3) as u128 * mu;
            let m1 = r.below(3) as u128 * mu;
            let lpd = match r.below(8) { 0 => Some(0u8), 1 => Some(8), 2 => Some(18), _ => None };
            e.step(Op::FCreate { s: owner, funds: vec![], a0, a1, wl, min0: m0, min1: m1, comm, lpd });
        }
        // allowances toward the pairs, including from bystanders that never act
        for pm in e.pairs.clone() {
            for a in [pm.a0, pm.a1] {
                if let A::T(t) = a {
                    for (ui, u) in e.users.clone().iter().take(5).enumerate() {
                        if ui == 1 || ui == 2 || r.chance(3, 4) {
                            let amt = if ui >= 3 && r.chance(1, 4) { r.below(1000) as u128 } else { u128::MAX / 4 };
                            e.step(Op::TokInc { t, owner: *u, spender: pm.addr, amt });
                            if !e.allow_watch.contains(&(t, *u, pm.addr)) {
                                e.allow_watch.push((t, *u, pm.addr));
                            }
                        }
                    }
                }
            }
        }
        // seed liquidity from a whitelisted user
        for pm in e.pairs.clone() {
            if r.chance(5, 6) {
                let s = e.users[1];
                // the first deposit must keep d0*d1 below 2^128 (native u128 product in the share formula)
                let cap = 1u128 << 62;
                let d0 = self.unit.saturating_mul(1 + r.below(1000) as u128).min(cap - r.below(1000) as u128);
                let d1 = (self.unit.saturating_mul(1 + r.below(1000) as u128) / (1 + r.below(3) as u128)).min(cap - r.below(1000) as u128);
                let d1 = if pm.a0 == pm.a1 { d0 } else { d1 };
                let funds = self.plain_funds(&[(pm.a0, d0), (pm.a1, d1)]);
                e.step(Op::Provide { s, p: pm.addr, funds, as0: pm.a0, am0: d0, as1: pm.a1, am1: d1, tol: None, rcv: None });
                if self.unit > cap && r.chance(2, 3) {
                    // deep pools are reached by donation (reserves up to ~2^96 keep x*y*1e18 below 2^256)
                    for a in [pm.a0, pm.a1] {
                        let amt = self.unit.saturating_mul(1 + r.below(100) as u128).min(1u128 << 94);
                        match a {
                            A::N(d) => { e.step(Op::BankSend { s, d: pm.addr, coins: vec![(d, amt)] }); }
                            A::T(t) => { e.step(Op::TokTransfer { t, s, d: pm.addr, amt }); }
                        }
                    }
                }
            }
        }
    }
    /// allowances between users (owner → spender), for base tokens and the LP tokens of the observed pairs: a third
    /// party can then move, send (with a hook), or burn the owner's tokens
    pub fn setup_user_allowances(&self, e: &mut Env, r: &mut Rng) {
        let mut toks: Vec<u64> = e.tokens.clone();
        toks.extend(e.pairs.iter().take(8).map(|pm| pm.lp));
        for t in toks {
            for (owner, spender) in [(e.users[1], e.users[2]), (e.users[3], e.users[1]), (e.users[4], e.users[2])] {
                if r.chance(2, 3) {
                    let amt = match r.below(3) { 0 => 1 + r.below(1_000_000) as u128, 1 => e.bal(A::T(t), owner) / 2 + 1, _ => u128::MAX / 8 };
                    e.step(Op::TokInc { t, owner, spender, amt });
                    if !e.allow_watch.contains(&(t, owner, spender)) { e.allow_watch.push((t, owner, spender)); }
                }
            }
        }
    }
    /// the native denom whose text equals the address of token `t`, if any
    fn alias_of(&self, e: &Env, t: u64) -> Option<u64> {
        let name = e.astr(t);
        e.denoms.iter().position(|d| *d == name).map(|i| i as u64)
    }
    fn plain_funds(&self, assets: &[(A, u128)]) -> Coins {
        let mut c: Coins = vec![];
        for (a, amt) in assets {
            if let A::N(d) = a {
                if !c.iter().any(|x| x.0 == *d) { c.push((*d, *amt)); }
            }
        }
        c
    }

    fn route(&self, e: &Env, r: &mut Rng) -> Vec<(A, A)> {
        // a chain through the pair graph, 1..4 hops; sometimes malformed
        let mut ops = vec![];
        if e.pairs.is_empty() {
            return ops;
        }
        let obs = &e.pairs[..e.pairs.len().min(8)];
        let first = r.pick(obs).clone();
        let (mut cur_from, mut cur_to) = if r.chance(1, 2) { (first.a0, first.a1) } else { (first.a1, first.a0) };
        ops.push((cur_from, cur_to));
        let hops = r.range(1, 4);
        for _ in 1..hops {
            let cands: Vec<&PairMeta> = obs.iter().filter(|p| (p.a0 == cur_to && p.a1 != cur_from) || (p.a1 == cur_to && p.a0 != cur_from)).collect();
            if cands.is_empty() {
                break;
            }
            let n = (*r.pick(&cands)).clone();
            let nxt = if n.a0 == cur_to { n.a1 } else { n.a0 };
            cur_from = cur_to;
            cur_to = nxt;
            ops.push((cur_from, cur_to));
        }
        match r.below(24) {
            0 => ops.clear(),
            1 => ops.push((self.any_asset(e, r), self.any_asset(e, r))), // dangling / unchained
            2 if ops.len() > 1 => { ops.swap(0, 1); }
            3 => { let x = ops[0]; ops.push(x); }
            // identity hops (offer = ask): the shape check lets them through, no pair can exist for them
            4 => { let a = ops[0].0; ops = vec![(a, a)]; }
            5 if r.chance(1, 2) => { let a = ops[ops.len() - 1].1; ops.push((a, a)); }
            _ => {}
        }
        ops
    }

    /// one generated operation against the live state (mostly valid, with a malformed stream mixed in)
    pub fn gen_op(&self, e: &mut Env, r: &mut Rng, family: &str) -> Option<Op> {
        let u = self.user(e, r);
        if e.pairs.is_empty() {
            return Some(Op::BankSend { s: u, d: e.users[1], coins: vec![(0, 1)] });
        }
        // operations address the pairs whose balances are observed (the first 8); later pairs exist for the registry
        let pm = r.pick(&e.pairs[..e.pairs.len().min(8)]).clone();
        let r0 = e.bal(pm.a0, pm.addr);
        let r1 = e.bal(pm.a1, pm.addr);
        // once a pair's own account holds LP tokens (a mistaken plain transfer, or a provision with the pair as receiver),
        // every family regularly tries the one forged withdrawal whose final burn could succeed: a cw20 *asset* of the
        // pair delivering a withdraw hook for no more than that amount
        {
            let held = e.bal(A::T(pm.lp), pm.addr);
            let pair_tok = match (pm.a0, pm.a1) {
                (A::T(t), A::T(t2)) => Some(if r.chance(1, 2) { t } else { t2 }),
                (A::T(t), _) | (_, A::T(t)) => Some(t),
                _ => None,
            };
            if held > 0 && family != "factory" && r.chance(1, 12) {
                if let Some(t) = pair_tok {
                    let b = e.bal(A::T(t), u);
                    if b > 0 {
                        let amt = (held / (1 + r.below(4) as u128)).min(b).max(1);
                        return Some(Op::TokSend { t, s: u, d: pm.addr, amt, hook: Hook::Withdraw });
                    }
                }
            }
        }
        let weights: &[(u32, &str)] = match family {
            "swap" => &[(40, "swap"), (8, "provide"), (4, "withdraw"), (4, "donate"), (6, "forged"), (4, "misc"), (2, "factory"), (4, "third"), (2, "migrate")],
            "auth" if e.pairs.iter().take(8).any(|pm| e.bal(A::T(pm.lp), pm.addr) > 0) => &[(5, "swap"), (5, "provide"), (20, "auth"), (25, "forged"), (10, "rauth"), (10, "factory"), (5, "donate"), (3, "lpmove")],
            "liquidity" => &[(10, "swap"), (30, "provide"), (25, "withdraw"), (6, "donate"), (4, "forged"), (4, "misc"), (3, "lpmove"), (3, "factory"), (5, "third")],
            "route" => &[(10, "swap"), (4, "provide"), (2, "withdraw"), (45, "route"), (4, "donate"), (6, "rauth"), (8, "misc"), (3, "third")],
            "factory" => &[(5, "swap"), (5, "provide"), (30, "factory"), (6, "misc"), (6, "auth")],
            "auth" => &[(5, "swap"), (5, "provide"), (30, "auth"), (10, "forged"), (10, "rauth"), (10, "factory"), (8, "donate"), (5, "lpmove"), (5, "third")],
            _ => &[(20, "swap"), (15, "provide"), (12, "withdraw"), (15, "route"), (6, "donate"), (6, "forged"), (5, "misc"), (6, "factory"), (5, "auth"), (4, "rauth"), (3, "lpmove"), (5, "third")],
        };
        let total: u32 = weights.iter().map(|w| w.0).sum();
        let mut x = r.below(total as u64) as u32;
        let mut kind = weights[0].1;
        for (wgt, k) in weights {
            if x < *wgt {
                kind = k;
                break;
            }
            x -= wgt;
        }
        let to = match r.below(16) {
            0 | 1 | 2 => Some(self.user(e, r)),
            3 | 4 | 5 => Some(u),
            6 => Some(r.pick(&e.pairs[..e.pairs.len().min(8)]).addr),     // a pool as the recipient (a donation; legal)
            // other contracts as recipients: an LP token's own address, a token contract, the factory, the router
            8 if r.chance(1, 2) => Some(match r.below(4) { 0 => pm.lp, 1 => *r.pick(&e.tokens), 2 => e.factory, _ => e.router }),
            7 if family == "route" => Some(e.router),
            // a recipient string that fails address validation: the call must be rejected, not re-routed
            9 => Some(*r.pick(&e.alias_tokens)),
            _ => None,
        };
        Some(match kind {
            "swap" => {
                let (offer, ro) = if r.chance(1, 2) { (pm.a0, r0) } else { (pm.a1, r1) };
                let amt = match r.below(6) { 0 => amt_rel(r, ro), 1 => 1 + r.below(1_000_000) as u128, _ => ro / (1 + r.below(200) as u128) + r.below(3) as u128 };
                let (belief, ms) = match r.below(7) {
                    // a belief price placed around the price this very swap would execute at (from the pair's own quote and
                    // decimals), with a tolerance of the same order: the guard is exercised on both sides of its limit
                    6 => {
                        let ask = if offer == pm.a0 { pm.a1 } else { pm.a0 };
                        let dec: Option<(u8, u8)> = e.q::<PairInfo, _>(e.astr(pm.addr), &haloswap::pair::QueryMsg::Pair {}).ok()
                            .map(|pi| if offer == pm.a0 { (pi.asset_decimals[0], pi.asset_decimals[1]) } else { (pi.asset_decimals[1], pi.asset_decimals[0]) });
                        match (self.sim_route(e, amt, &[(offer, ask)]), dec) {
                            (Some(ret), Some((od, rd))) if ret > 0 && amt > 0 && od <= 24 && rd <= 24 => {
                                let (o2, r2) = if od > rd { (amt, ret.saturating_mul(10u128.pow((od - rd) as u32))) } else { (amt.saturating_mul(10u128.pow((rd - od) as u32)), ret) };
                                let f = [970u128, 990, 999, 1000, 1001, 1010, 1030][r.below(7) as usize];
                                // belief = o2 / (r2 * f/1000)  at 18 decimals, computed in 256 bits
                                let u = |x: u128| bigint::U256::from_dec_str(&x.to_string()).unwrap();
                                let num = u(o2) * u(E18) * u(1000);
                                let den = u(r2) * u(f);
                                let b = if den.is_zero() { bigint::U256::zero() } else { num / den };
                                if b.is_zero() || b > u(u128::MAX) { (None, Some(pick_rate(r))) } else {
                                    (Some(b.to_string().parse::<u128>().unwrap()), Some([E18 / 1000, E18 / 100, E18 * 3 / 100][r.below(3) as usize]))
                                }
                            }
                            _ => (None, Some(pick_rate(r))),
                        }
                    }
                    0 => (Some(1 + r.below(E18 as u64 * 3) as u128), Some(pick_rate(r))),
                    1 => (None, Some(pick_rate(r))),
                    2 => (Some(E18), None),
                    _ => (None, None),
                };
                // named asset: mostly the delivered one
                let named = match r.below(24) { 0 => if offer == pm.a0 { pm.a1 } else { pm.a0 }, 1 => self.any_asset(e, r), _ => offer };
                let named_amt = match r.below(36) { 0 => amt.saturating_add(1), 1 => amt.saturating_sub(1), 2 => 0, _ => amt };
                match offer {
                    A::N(od) => {
                        let mut funds = self.funds_for(r, &[(offer, amt)]);
                        // sometimes coins of the *ask* denom ride along (a donation that is credited before pricing)
                        let (ask, rask) = if offer == pm.a0 { (pm.a1, r1) } else { (pm.a0, r0) };
                        if let A::N(ad) = ask {
                            if ad != od && r.chance(1, 20) && !funds.iter().any(|f| f.0 == ad) {
                                funds.push((ad, (rask / (2 + r.below(100) as u128)).min(e.bal(ask, u) / 4) + 1));
                            }
                        }
                        Op::Swap { s: u, p: pm.addr, funds, offer: named, amt: named_amt, belief, ms, to }
                    }
                    A::T(t) => {
                        if r.chance(1, 15) {
                            // token offer through execute-swap (must be rejected)
                            Op::Swap { s: u, p: pm.addr, funds: vec![], offer: named, amt: named_amt, belief, ms, to }
                        } else if let (true, Some(al)) = (r.chance(1, 10), self.alias_of(e, t)) {
                            // a native coin whose denom reads like the token's address, named as the offer
                            Op::Swap { s: u, p: pm.addr, funds: vec![(al, amt)], offer: A::N(al), amt, belief, ms, to }
                        } else {
                            Op::TokSend { t, s: u, d: pm.addr, amt, hook: Hook::Swap { offer: named, amt: named_amt, belief, ms, to } }
                        }
                    }
                }
            }
            "provide" => {
                let sup = e.supply(pm.lp);
                let s = if sup == 0 && r.chance(2, 3) { e.users[1] } else { u };
                let (d0, d1) = if sup == 0 || r0 == 0 || r1 == 0 {
                    (amt_rel(r, self.unit * 10), amt_rel(r, self.unit * 10))
                } else {
                    match r.below(10) {
                        0 | 1 => (amt_rel(r, r0), amt_rel(r, r1)),
                        2 => {
                            // a provision many times the size of the pool (supply grows by the same factor)
                            let k = 10u128.pow(r.range(1, 6) as u32);
                            let cap0 = e.bal(pm.a0, s) / 2;
                            let cap1 = e.bal(pm.a1, s) / 2;
                            let f = k.min(cap0 / r0.max(1)).min(cap1 / r1.max(1)).max(1);
                            (r0.saturating_mul(f), r1.saturating_mul(f))
                        }
                        _ => {
                            let f = 1 + r.below(500) as u128;
                            let skew = r.below(5) as u128;
                            (r0 / f + skew, r1 / f + r.below(3) as u128)
                        }
                    }
                };
                let tol = match r.below(20) { 0 | 1 | 2 => Some(pick_rate(r)), 3 | 4 | 5 | 6 => Some(E18 / 100), 7 => Some(E18 + 1), 8 => Some(E18 / 2), _ => None };
                let (x0, x1) = match r.below(14) {
                    0 => (self.any_asset(e, r), pm.a1),
                    1 => (pm.a0, pm.a0),
                    2 => (pm.a1, pm.a0), // swapped order is legal
                    _ => (pm.a0, pm.a1),
                };
                let (m0, m1) = if x0 == pm.a1 && x1 == pm.a0 { (d1, d0) } else { (d0, d1) };
                // the same asset on both sides can only be matched by one coin of one amount
                let m1 = if x0 == x1 { m0 } else { m1 };
                // rarely: declare a token deposit under the native denom that reads like the token's address
                let x0 = match x0 { A::T(t) if r.chance(1, 25) => self.alias_of(e, t).map(A::N).unwrap_or(x0), _ => x0 };
                let funds = self.funds_for(r, &[(x0, m0), (x1, m1)]);
                let rcv = match r.below(20) { 0 | 1 | 2 | 3 => Some(self.user(e, r)), 4 => Some(pm.lp), 5 => Some(pm.addr), 6 => Some(e.router), 7 => Some(*r.pick(&e.alias_tokens)), _ => None };
                Op::Provide { s, p: pm.addr, funds, as0: x0, am0: m0, as1: x1, am1: m1, tol, rcv }
            }
            "withdraw" => {
                // "whatever other actors did before": sometimes another account acts on the pair right before the withdrawal
                if r.chance(1, 6) {
                    let g = e.users[4];
                    let any = A::N(r.below(ND));
                    let own = if r.chance(1, 2) { pm.a0 } else { pm.a1 };
                    let (a, amt) = match r.below(6) {
                        0 => (any, 1),
                        1 => (any, e.bal(any, g) / 2),
                        2 => (own, 1),
                        3 => (own, e.bal(own, g) / 2),
                        4 => (A::T(pm.lp), e.bal(A::T(pm.lp), g) / 2 + 1),
                        _ => (own, amt_rel(r, self.unit)),
                    };
                    match a {
                        A::N(d) => { e.step(Op::BankSend { s: g, d: pm.addr, coins: vec![(d, amt)] }); }
                        A::T(t) => { e.step(Op::TokTransfer { t, s: g, d: pm.addr, amt }); }
                    }
                }
                let holders: Vec<u64> = e.users[1..5].iter().copied().filter(|h| e.bal(A::T(pm.lp), *h) > 0).collect();
                let holder = if holders.is_empty() || r.chance(1, 10) { *r.pick(&e.users[1..5].to_vec()) } else { *r.pick(&holders) };
                let b = e.bal(A::T(pm.lp), holder);
                let amt = match r.below(9) {
                    0 => amt_rel(r, b), 1 => b, 2 => b.saturating_add(1),
                    // around the burn at which the scarcer reserve's refund is exactly one unit (below it that refund is zero)
                    3 => { let sup = e.supply(pm.lp); let m = r0.min(r1).max(1); ((sup / m).max(1) + r.below(3) as u128).saturating_sub(1).min(b).max(1) }
                    _ => b / (1 + r.below(20) as u128) + 1 };
                Op::TokSend { t: pm.lp, s: holder, d: pm.addr, amt, hook: Hook::Withdraw }
            }
            "third" => {
                // a third party using an allowance a user granted it (cw20 TransferFrom / SendFrom / BurnFrom), or the
                // owner shrinking it (DecreaseAllowance)
                let watch: Vec<(u64, u64, u64)> = e.allow_watch.iter().copied().filter(|(_, o, sp)| (*o as usize) < 6 && (*sp as usize) < 6).collect();
                if watch.is_empty() {
                    return Some(Op::BankSend { s: u, d: e.users[1], coins: vec![(0, 1)] });
                }
                let (t, owner, sp) = *r.pick(&watch);
                let ob = e.bal(A::T(t), owner);
                let amt = match r.below(6) { 0 => 0, 1 => ob, 2 => ob.saturating_add(1), 3 => 1 + r.below(1000) as u128, _ => ob / (2 + r.below(50) as u128) + 1 };
                let sp = if r.chance(1, 10) { self.user(e, r) } else { sp };   // sometimes somebody without an allowance
                // a pair that trades (or is minted by) this token, if any
                let pairs_t: Vec<PairMeta> = e.pairs.iter().take(8).filter(|q| q.a0 == A::T(t) || q.a1 == A::T(t) || q.lp == t).cloned().collect();
                match r.below(8) {
                    0 | 1 => Op::TokXferFrom { t, sp, owner, d: if r.chance(1, 4) { pm.addr } else { self.user(e, r) }, amt },
                    2 | 3 | 4 if !pairs_t.is_empty() => {
                        let q = r.pick(&pairs_t).clone();
                        if q.lp == t {
                            Op::TokSendFrom { t, sp, owner, d: q.addr, amt, hook: Hook::Withdraw }
                        } else {
                            let rq = e.bal(A::T(t), q.addr);
                            let a2 = if r.chance(1, 2) { (rq / (2 + r.below(100) as u128)).min(ob) + 1 } else { amt };
                            let named_amt = match r.below(12) { 0 => a2.saturating_sub(1), 1 => a2 + 1, _ => a2 };
                            Op::TokSendFrom { t, sp, owner, d: q.addr, amt: a2, hook: Hook::Swap { offer: A::T(t), amt: named_amt, belief: None, ms: if r.chance(1, 4) { Some(pick_rate(r)) } else { None }, to } }
                        }
                    }
                    5 => {
                        // a route entered through SendFrom
                        let ops = self.route(e, r);
                        Op::TokSendFrom { t, sp, owner, d: e.router, amt, hook: Hook::ROps { ops, min: None, to } }
                    }
                    6 => Op::TokBurnFrom { t, sp, owner, amt },
                    _ => Op::TokDec { t, owner, spender: sp, amt: match r.below(3) { 0 => 1, 1 => u128::MAX / 2, _ => amt } },
                }
            }
            "lpmove" => {
                let holder = *r.pick(&e.users[1..5].to_vec());
                let b = e.bal(A::T(pm.lp), holder);
                if r.chance(1, 2) {
                    // to another user — or, sometimes, a plain transfer of LP tokens to the pair's own address
                    let d = if r.chance(1, 3) { pm.addr } else { self.user(e, r) };
                    Op::TokTransfer { t: pm.lp, s: holder, d, amt: b / (2 + r.below(5) as u128) }
                } else {
                    // a holder burning its own tokens: LP tokens, or (cw20-base allows it for anyone) a base token
                    if r.chance(1, 4) { let t = *r.pick(&e.tokens); Op::TokBurn { t, s: holder, amt: e.bal(A::T(t), holder) / (1000 + r.below(1000) as u128) } }
                    else { Op::TokBurn { t: pm.lp, s: holder, amt: b / (3 + r.below(5) as u128) } }
                }
            }
            "donate" if r.chance(1, 6) && e.bal(A::T(pm.lp), u) > 0 => {
                // LP tokens sent to the pair by a plain transfer (they sit on the pair's own account)
                let b = e.bal(A::T(pm.lp), u);
                Op::TokTransfer { t: pm.lp, s: u, d: pm.addr, amt: b / (2 + r.below(20) as u128) + 1 }
            }
            "donate" => {
                // mostly one of the pair's own assets; sometimes a coin the pair has nothing to do with (it just sits there)
                let foreign = r.chance(1, 5);
                let a = if foreign { A::N(r.below(ND)) } else if r.chance(1, 2) { pm.a0 } else { pm.a1 };
                let amt = if foreign {
                    // dust, a fortune, or something in between
                    match r.below(3) { 0 => 1, 1 => e.bal(a, u) / 2, _ => amt_rel(r, self.unit) }
                } else if r.chance(1, 5) { e.bal(a, u) / (2 + r.below(50) as u128) } else { amt_rel(r, self.unit) };
                let dst = if r.chance(1, 6) { e.router } else { pm.addr };
                match a {
                    A::N(d) => Op::BankSend { s: u, d: dst, coins: vec![(d, amt)] },
                    A::T(t) => Op::TokTransfer { t, s: u, d: dst, amt },
                }
            }
            "forged" => {
                // when the pair itself holds LP tokens, forged withdraw hooks claim (part of) exactly that amount
                let held = e.bal(A::T(pm.lp), pm.addr);
                // targeted: a cw20 *asset* of the pair (not its LP token) delivers a withdraw hook for no more than the
                // LP amount sitting on the pair's own account — the only forged withdrawal whose final burn could succeed
                let pair_tok = match (pm.a0, pm.a1) {
                    (A::T(t), A::T(t2)) => Some(if r.chance(1, 2) { t } else { t2 }),
                    (A::T(t), _) | (_, A::T(t)) => Some(t),
                    _ => None,
                };
                if held > 0 && r.chance(1, 3) {
                    if let Some(t) = pair_tok {
                        let b = e.bal(A::T(t), u);
                        let amt = (held / (1 + r.below(4) as u128)).min(b).max(1);
                        return Some(Op::TokSend { t, s: u, d: pm.addr, amt, hook: Hook::Withdraw });
                    }
                }
                let amt = if held > 0 && r.chance(1, 2) { held / (1 + r.below(4) as u128) } else { amt_rel(r, self.unit) };
                let named = match r.below(3) { 0 => pm.a0, 1 => pm.a1, _ => self.any_asset(e, r) };
                let hook = match r.below(4) {
                    0 => Hook::Withdraw,
                    1 => Hook::Garbage,
                    _ => Hook::Swap { offer: named, amt: if r.chance(3, 4) { amt } else { amt + 1 }, belief: None, ms: None, to },
                };
                match r.below(3) {
                    // a raw Receive from an arbitrary caller (a rogue contract / user)
                    0 => Op::PairReceive { s: u, p: pm.addr, funds: vec![], from: self.user(e, r), amount: amt, hook },
                    // a real cw20 (possibly foreign to the pair) delivering a hook
                    1 => Op::TokSend { t: *r.pick(&e.tokens), s: u, d: pm.addr, amt, hook },
                    // the LP token delivering a swap hook / a pair asset delivering a withdraw hook
                    _ => {
                        let t = match r.below(3) { 0 => pm.lp, _ => match pm.a0 { A::T(t) => t, _ => match pm.a1 { A::T(t) => t, _ => pm.lp } } };
                        let b = e.bal(A::T(t), u);
                        Op::TokSend { t, s: u, d: pm.addr, amt: b / (2 + r.below(100) as u128), hook }
                    }
                }
            }
            "route" if r.chance(1, 12) && e.pairs.len() >= 2 => {
                // a route that returns to an asset an earlier pool paid out, delivered to that very pool:
                // [A->B (P1), B->C (P2), C->B (P2)] with recipient P1 — P1's balance of the final asset B falls during
                // the route, so "the recipient's balance grew by at least m" must reject every m > 0
                let obs = &e.pairs[..e.pairs.len().min(8)];
                let p1 = r.pick(obs).clone();
                let (a, b) = if r.chance(1, 2) { (p1.a0, p1.a1) } else { (p1.a1, p1.a0) };
                let p2s: Vec<&PairMeta> = obs.iter().filter(|q| q.addr != p1.addr && (q.a0 == b || q.a1 == b)).collect();
                if p2s.is_empty() {
                    return Some(Op::BankSend { s: u, d: e.users[1], coins: vec![(0, 1)] });
                }
                let p2 = (*r.pick(&p2s)).clone();
                let c = if p2.a0 == b { p2.a1 } else { p2.a0 };
                let ops = vec![(a, b), (b, c), (c, b)];
                let rr = e.bal(a, p1.addr);
                let amt = (rr / (2 + r.below(50) as u128)).min(e.bal(a, u) / 2) + 1;
                e.q_router(false, amt, &ops);
                let min = match r.below(4) { 0 => None, 1 => Some(0), 2 => Some(1), _ => Some(1 + r.below(1_000_000) as u128) };
                match a {
                    A::N(d) => Op::ROps { s: u, funds: vec![(d, amt)], ops, min, to: Some(p1.addr) },
                    A::T(t) => Op::TokSend { t, s: u, d: e.router, amt, hook: Hook::ROps { ops, min, to: Some(p1.addr) } },
                }
            }
            "route" if r.chance(1, 12) => {
                // a round trip a -> b -> a (through one pool, or out through one and back through another), paid to the
                // sender itself, with minimum_receive placed between the real output and output + input: the recipient's
                // balance of the final asset is also the balance it paid from
                let (a, b) = if r.chance(1, 2) { (pm.a0, pm.a1) } else { (pm.a1, pm.a0) };
                let mut ops = vec![(a, b), (b, a)];
                if r.chance(1, 4) { ops.push((a, b)); ops.push((b, a)); }
                let rr = e.bal(a, pm.addr);
                let amt = (rr / (3 + r.below(100) as u128)).min(e.bal(a, u) / 2) + 1;
                e.q_router(false, amt, &ops);
                let quoted = self.sim_route(e, amt, &ops);
                let min = match r.below(6) {
                    0 => quoted,
                    1 => quoted.map(|q| q.saturating_add(1)),
                    2 => quoted.map(|q| q.saturating_add(amt / 2)),
                    3 => quoted.map(|q| q.saturating_add(amt)),
                    4 => quoted.map(|q| q.saturating_add(amt).saturating_add(1)),
                    _ => quoted.map(|q| q.saturating_sub(1)),
                };
                let to = match r.below(3) { 0 => Some(u), 1 => None, _ => to };
                match a {
                    A::N(d) => Op::ROps { s: u, funds: vec![(d, amt)], ops, min, to },
                    A::T(t) => Op::TokSend { t, s: u, d: e.router, amt, hook: Hook::ROps { ops, min, to } },
                }
            }
            "route" if r.chance(1, 14) && e.pairs.len() >= 2 => {
                // two independent swaps in one route, [a->b, c->d], with *both* inputs funded: nothing but the route-shape
                // check stands between this message and success (two dangling outputs)
                let obs = &e.pairs[..e.pairs.len().min(8)];
                let p1 = r.pick(obs).clone();
                let p2 = r.pick(obs).clone();
                let dir = |r: &mut Rng, p: &PairMeta| -> (A, A) {
                    match (p.a0, p.a1) {
                        (A::N(_), A::T(_)) => (p.a0, p.a1),
                        (A::T(_), A::N(_)) => (p.a1, p.a0),
                        _ => if r.chance(1, 2) { (p.a0, p.a1) } else { (p.a1, p.a0) },
                    }
                };
                let (a, b) = dir(r, &p1);
                let (c, d) = dir(r, &p2);
                let ops = if r.chance(1, 2) { vec![(a, b), (c, d)] } else { vec![(c, d), (a, b)] };
                let mut funds: Coins = vec![];
                for (x, pp) in [(a, &p1), (c, &p2)] {
                    if let A::N(dn) = x {
                        if !funds.iter().any(|f| f.0 == dn) {
                            let amt = (e.bal(x, pp.addr) / (20 + r.below(200) as u128)).min(e.bal(x, u) / 4) + 1;
                            funds.push((dn, amt));
                        }
                    }
                }
                e.q_router(false, funds.first().map(|f| f.1).unwrap_or(1), &ops);
                Op::ROps { s: u, funds, ops, min: None, to }
            }
            "route" => {
                let ops = self.route(e, r);
                let first_offer = ops.first().map(|x| x.0).unwrap_or(pm.a0);
                let bal_u = e.bal(first_offer, u);
                // size the input against the reserve of the pool the first hop actually trades on
                let first_pool = ops.first().and_then(|(o, a)| e.pairs.iter().find(|p| (p.a0 == *o && p.a1 == *a) || (p.a1 == *o && p.a0 == *a))).map(|p| p.addr).unwrap_or(pm.addr);
                let rr = e.bal(first_offer, first_pool);
                let amt = match r.below(10) { 0 => amt_rel(r, bal_u / 1000), 1 => 1 + r.below(1_000_000) as u128, _ => (rr / (1 + r.below(300) as u128)).min(bal_u / 2) + r.below(2) as u128 };
                // quote first (forward simulation), then possibly let another trader move the pool
                e.q_router(false, amt, &ops);
                let quoted = self.sim_route(e, amt, &ops);
                if r.chance(1, 4) {
                    let other = e.users[3];
                    let (offer, ro) = (pm.a0, r0);
                    let a2 = ro / (50 + r.below(200) as u128) + 1;
                    match offer {
                        A::N(d) => { e.step(Op::Swap { s: other, p: pm.addr, funds: vec![(d, a2)], offer, amt: a2, belief: None, ms: None, to: None }); }
                        A::T(t) => { e.step(Op::TokSend { t, s: other, d: pm.addr, amt: a2, hook: Hook::Swap { offer, amt: a2, belief: None, ms: None, to: None } }); }
                    }
                    e.q_router(false, amt, &ops);
                }
                let quoted2 = self.sim_route(e, amt, &ops).or(quoted);
                let min = match r.below(10) {
                    0 | 7 | 8 => None,
                    1 | 9 => quoted2.map(|q| q.saturating_sub(1)),
                    2 => quoted2,
                    3 => quoted2.map(|q| q.saturating_add(1)),
                    4 => Some(u128::MAX),
                    5 => Some(0),
                    _ => quoted.map(|q| q - q / 100),
                };
                match first_offer {
                    A::N(d) => {
                        let funds = match r.below(12) { 0 => vec![], 1 => vec![(d, amt), ((d + 1 + r.below(ND - 1)) % ND, 5)], _ => vec![(d, amt)] };
                        Op::ROps { s: u, funds, ops, min, to }
                    }
                    A::T(t) => {
                        if r.chance(1, 12) {
                            Op::ROps { s: u, funds: vec![], ops, min, to }
                        } else {
                            Op::TokSend { t, s: u, d: e.router, amt, hook: Hook::ROps { ops, min, to } }
                        }
                    }
                }
            }
            "migrate" => {
                // the owner migrates a pair that trades (to the pair code itself): nothing about the pair may change
                let cfg: ConfigResponse = e.q(e.astr(e.factory), &FacQuery::Config {}).unwrap();
                let owner = e.aid(&cfg.owner);
                Op::FMig { s: owner, funds: vec![], p: pm.addr, code: if r.chance(1, 2) { Some(e.pair_code) } else { None } }
            }
            "rauth" if r.chance(1, 4) => {
                // the router's internal messages smuggled in as the payload of a `Receive`: raw (any claimed sender, also the
                // router itself) or through a real cw20 `Send`
                let hook = if r.chance(2, 3) { Hook::IOp { offer: pm.a0, ask: pm.a1, to: Some(u) } }
                           else { Hook::IAssert { asset: pm.a1, prev: 0, min: r.below(2) as u128, rcv: u } };
                match r.below(3) {
                    0 => Op::RReceive { s: u, funds: vec![], from: e.router, amount: r.below(1000) as u128, hook },
                    1 => Op::RReceive { s: u, funds: vec![], from: self.user(e, r), amount: r.below(1000) as u128, hook },
                    _ => Op::TokSend { t: *r.pick(&e.tokens), s: u, d: e.router, amt: 1 + r.below(1000) as u128, hook },
                }
            }
            "rauth" => match r.below(4) {
                0 => Op::ROp { s: u, funds: vec![], offer: pm.a0, ask: pm.a1, to },
                1 => Op::RAssert { s: u, funds: vec![], asset: pm.a0, prev: 0, min: r.below(2) as u128, rcv: if r.chance(1, 5) { *r.pick(&e.alias_tokens) } else { u } },
                2 => Op::RReceive { s: u, funds: vec![], from: if r.chance(1, 6) { *r.pick(&e.alias_tokens) } else { self.user(e, r) }, amount: r.below(1000) as u128,
                        hook: Hook::ROps { ops: vec![(pm.a0, pm.a1)], min: None, to } },
                _ => Op::TokSend { t: *r.pick(&e.tokens), s: u, d: e.router, amt: 1 + r.below(1000) as u128, hook: Hook::Garbage },
            },
            "factory" => {
                // current owner as the implementation reports it
                let cfg: ConfigResponse = e.q(e.astr(e.factory), &FacQuery::Config {}).unwrap();
                let owner = e.aid(&cfg.owner);
                let s = if r.chance(5, 6) { owner } else { u };
                match r.below(10) {
                    0 | 1 | 2 => {
                        // sometimes one side is the LP token of an existing pair (a cw20 like any other, with the decimals
                        // that pair's creator chose)
                        let a0 = if r.chance(1, 5) { A::T(r.pick(&e.pairs[..e.pairs.len().min(8)]).lp) } else { self.any_asset(e, r) };
                        let a1 = if r.chance(1, 10) { a0 } else if r.chance(1, 8) {
                            // a token named in upper case — possibly the very same contract as a0
                            match a0 { A::T(t) if r.chance(1, 2) => A::T(e.alias_tokens[e.tokens.iter().position(|x| *x == t).unwrap_or(0)]),
                                       _ => A::T(*r.pick(&e.alias_tokens)) }
                        } else { self.any_asset(e, r) };
                        let comm = match r.below(5) { 0 => None, 1 => Some(E18 + 1), _ => Some(pick_rate(r)) };
                        Op::FCreate { s, funds: vec![], a0, a1, wl: vec![e.users[1], e.users[2]], min0: 0, min1: 0, comm,
                                      lpd: match r.below(10) { 0 => Some(0), 1 => Some(6), 2 => Some(9), 3 => Some(18), 4 => Some(19), 5 => Some(255), _ => None } }
                    }
                    3 | 4 | 5 | 6 => {
                        let d = r.below(e.denoms.len() as u64);
                        // often with coins of the denom attached (the factory must hold some of it; attaching them to the call is the usual way)
                        Op::FAdd { s, funds: if r.chance(1, 3) { vec![(d, 1 + r.below(5000) as u128)] } else { vec![] }, denom: d, decimals: match r.below(12) { 0 => 19 + r.below(12) as u8, 1 => 255, _ => r.below(19) as u8 } }
                    }
                    7 => Op::FMig { s, funds: vec![], p: if r.chance(4, 5) { pm.addr } else { u },
                                     code: match r.below(4) { 0 => Some(e.pair_code), 1 => Some(e.pair_code + 77), _ => None } },
                    8 => {
                        // code ids: keep, set to the right ones, or break one of them (creation and migration must then fail)
                        let pick = |r: &mut Rng, right: u64| match r.below(5) { 0 | 1 => None, 2 | 3 => Some(right), _ => Some(right + 50 + r.below(3)) };
                        let tcode = pick(r, e.token_code);
                        let pcode = pick(r, e.pair_code);
                        Op::FCfg { s, funds: vec![], owner: None, tcode, pcode }
                    }
                    _ => {
                        // hand ownership over (and, next time, possibly back), alone or together with code ids
                        let new = if r.chance(1, 8) { *r.pick(&e.alias_tokens) } else if owner == e.users[0] { e.users[5] } else { e.users[0] };
                        let (tcode, pcode) = match r.below(3) { 0 => (Some(e.token_code), None), 1 => (None, Some(e.pair_code)), _ => (None, None) };
                        Op::FCfg { s, funds: vec![], owner: Some(new), tcode, pcode }
                    }
                }
            }
            "auth" => {
                // every privileged / internal entry point from every caller role
                let roles = [e.users[0], e.users[5], u, e.factory, e.router, pm.addr, pm.lp];
                let s = *r.pick(&roles);
                let s = if (s as usize) < 6 { s } else { u }; // contracts cannot originate calls; a user stands in
                match r.below(7) {
                    0 => Op::FCfg { s, funds: vec![], owner: Some(s), tcode: if r.chance(1, 3) { Some(e.token_code) } else { None }, pcode: None },
                    1 => Op::FCreate { s, funds: vec![], a0: A::N(0), a1: A::T(e.tokens[2]), wl: vec![s], min0: 0, min1: 0, comm: None, lpd: None },
                    2 => Op::FAdd { s, funds: vec![], denom: r.below(ND), decimals: 7 },
                    3 => Op::FMig { s, funds: vec![], p: pm.addr, code: None },
                    4 => Op::PairUpd { s, p: pm.addr, funds: vec![], denom: r.below(ND), da: 9, db: 9 },
                    5 => Op::ROp { s, funds: vec![], offer: pm.a0, ask: pm.a1, to: Some(s) },
                    _ => Op::RAssert { s, funds: vec![], asset: pm.a1, prev: 0, min: 0, rcv: s },
                }
            }
            _ => {
                // misc: simulations and bookkeeping moves
                match r.below(5) {
                    0 => { e.q_sim(pm.addr, pm.a0, amt_rel(r, r0)); }
                    1 => { e.q_rsim(pm.addr, pm.a1, amt_rel(r, r1 / 2)); }
                    2 => { let ops = self.route(e, r); let a = amt_rel(r, self.unit); e.q_router(true, a, &ops); e.q_router_comp(true, a, &ops); }
                    3 => { let ops = self.route(e, r); let a = amt_rel(r, self.unit); e.q_router(false, a, &ops); e.q_router_comp(false, a, &ops); }
                    _ => { e.q_rsim(pm.addr, self.any_asset(e, r), 5); }
                }
                let a = self.any_asset(e, r);
                match a {
                    A::N(d) => Op::BankSend { s: u, d: self.user(e, r), coins: vec![(d, amt_rel(r, self.unit))] },
                    A::T(t) => Op::TokTransfer { t, s: u, d: self.user(e, r), amt: amt_rel(r, self.unit) },
                }
            }
        })
    }

    fn sim_route(&self, e: &Env, amt: u128, ops: &[(A, A)]) -> Option<u128> {
        if ops.is_empty() {
            return None;
        }
        let app_ptr: *const App = &e.app;
        GUARDED.store(true, Ordering::SeqCst);
        let r = catch_unwind(AssertUnwindSafe(|| {
            let app: &App = unsafe { &*app_ptr };
            app.wrap().query_wasm_smart::<SimulateSwapOperationsResponse>(
                e.astr(e.router),
                &RouterQuery::SimulateSwapOperations { offer_amount: Uint128::new(amt), operations: e.swap_ops(ops) },
            )
        }));
        GUARDED.store(false, Ordering::SeqCst);
        match r {
            Ok(Ok(x)) => Some(x.amount.u128()),
            _ => None,
        }
    }
}

fn pre_queries(e: &mut Env, op: &Op) {
    // quote immediately before a swap, so the driver can compare quote and execution (C12)
    match op {
        Op::Swap { p, offer, amt, .. } => e.q_sim(*p, *offer, *amt),
        Op::TokSend { d, hook: Hook::Swap { offer, amt, .. }, .. } | Op::TokSendFrom { d, hook: Hook::Swap { offer, amt, .. }, .. } if e.pairs.iter().any(|pm| pm.addr == *d) => e.q_sim(*d, *offer, *amt),
        _ => {}
    }
}

pub fn run(w: &mut dyn Write, family: &str, nseq: u64, nsteps: u64, seed: u64) {
    for seq in 1..=nseq {
        let (mut e, mut r) = setup(w, seq, seed, family);
        let unit: u128 = {
            // recover the unit from the first user's balance
            let b = e.bal(A::N(0), e.users[1]);
            (b / 1_000_000).max(1)
        };
        let g = Gen { unit };
        let npairs = match family {
            "factory" => r.range(1, 3) as usize,
            _ => r.range(2, 5) as usize,
        };
        g.setup_pairs(&mut e, &mut r, npairs);
        if family != "factory" { g.setup_user_allowances(&mut e, &mut r); }
        if (family == "liquidity" || family == "mixed") && seq % 3 == 0 {
            // deep-and-wide pools: supplies grown by provisions many times the pool, reserves pushed toward
            // 2^120 by donation — the regime where ratio arithmetic meets the 128/256-bit limits (C04, C20)
            for pm in e.pairs.clone() {
                let s = e.users[2];
                for _ in 0..2 {
                    let (r0, r1) = (e.bal(pm.a0, pm.addr), e.bal(pm.a1, pm.addr));
                    if r0 == 0 || r1 == 0 { break; }
                    // keep (r0 + d0)(r1 + d1) below 2^190: the pair's own overflow probe rejects more
                    let prod_bits = (128 - r0.leading_zeros()) + (128 - r1.leading_zeros());
                    let room = if prod_bits >= 188 { 0 } else { 1u128 << ((188 - prod_bits) / 2).min(40) };
                    let f = (e.bal(pm.a0, s) / 3 / r0).min(e.bal(pm.a1, s) / 3 / r1).min(room);
                    if f < 2 { break; }
                    let (d0, d1) = (r0 * f, r1 * f);
                    let funds = g.plain_funds(&[(pm.a0, d0), (pm.a1, d1)]);
                    e.step(Op::Provide { s, p: pm.addr, funds, as0: pm.a0, am0: d0, as1: pm.a1, am1: d1, tol: None, rcv: None });
                }
                let donor = e.users[3];
                // one side, or both (then the reserve *product* passes 2^196, where x*y*1e18 no longer fits 256 bits)
                let sides: Vec<A> = match r.below(3) { 0 => vec![pm.a0], 1 => vec![pm.a1], _ => vec![pm.a0, pm.a1] };
                for a in sides {
                    let amt = e.bal(a, donor) / (2 + r.below(4) as u128);
                    if amt > 0 {
                        match a {
                            A::N(d) => { e.step(Op::BankSend { s: donor, d: pm.addr, coins: vec![(d, amt)] }); }
                            A::T(t) => { e.step(Op::TokTransfer { t, s: donor, d: pm.addr, amt }); }
                        }
                    }
                }
            }
        }
        if family == "factory" {
            // many pairs over few denoms: the fan-out and the pagination need more than one page
            // (every fifth sequence: more than the maximum page size of 30)
            let extra = if seq % 5 == 0 { r.range(28, 44) } else { r.range(0, 14) };
            // distinct unordered asset sets not yet registered, in random order
            let mut all: Vec<A> = (0..e.denoms.len() as u64).map(A::N).collect();
            all.extend(e.tokens.iter().map(|t| A::T(*t)));
            let mut combos: Vec<(A, A)> = vec![];
            for i in 0..all.len() {
                for j in (i + 1)..all.len() {
                    let (x, y) = (all[i], all[j]);
                    if !e.pairs.iter().any(|pm| (pm.a0 == x && pm.a1 == y) || (pm.a0 == y && pm.a1 == x)) {
                        combos.push(if r.chance(1, 2) { (x, y) } else { (y, x) });
                    }
                }
            }
            for i in (1..combos.len()).rev() {
                let j = r.below(i as u64 + 1) as usize;
                combos.swap(i, j);
            }
            for (a0, a1) in combos.into_iter().take(extra as usize) {
                let owner = e.users[0];
                e.step(Op::FCreate { s: owner, funds: vec![], a0, a1, wl: vec![e.users[1]], min0: 0, min1: 0, comm: None, lpd: None });
            }
        }
        for _ in 0..nsteps {
            if let Some(op) = g.gen_op(&mut e, &mut r, family) {
                pre_queries(&mut e, &op);
                let before = e.pairs.len();
                e.step(op);
                if e.pairs.len() > before && e.pairs.len() <= 8 {
                    // a pair created in mid-sequence: the usual allowances toward it, so that provisions can follow
                    let pm = e.pairs[e.pairs.len() - 1].clone();
                    for a in [pm.a0, pm.a1] {
                        if let A::T(t) = a {
                            for u in [e.users[1], e.users[2], e.users[3]] {
                                e.step(Op::TokInc { t, owner: u, spender: pm.addr, amt: u128::MAX / 4 });
                                if !e.allow_watch.contains(&(t, u, pm.addr)) { e.allow_watch.push((t, u, pm.addr)); }
                            }
                        }
                    }
                }
                if family == "factory" && r.chance(1, 4) {
                    let lim = match r.below(4) { 0 => None, 1 => Some(r.range(1, 5) as u32), 2 => Some(40), _ => Some(r.range(1, 31) as u32) };
                    let start = if r.chance(1, 2) || e.pairs.is_empty() { None } else { let pm = r.pick(&e.pairs).clone(); Some(if r.chance(1, 2) { (pm.a0, pm.a1) } else { (pm.a1, pm.a0) }) };
                    e.q_pairs(start, lim);
                }
            }
        }
        let seqn = e.seq;
        writeln!(e.w, "end seq={seqn}").unwrap();
    }
}

/// replay: rebuild the world of each `begin` line from its seed and execute the recorded steps / queries
pub fn replay(w: &mut dyn Write, lines: &[String]) {
    let mut i = 0;
    while i < lines.len() {
        let l = &lines[i];
        if let Some(rest) = l.strip_prefix("begin ") {
            let kv: HashMap<&str, &str> = rest.split(' ').filter_map(|t| t.split_once('=')).collect();
            let seq: u64 = kv["seq"].parse().unwrap();
            let seed: u64 = kv["seed"].parse().unwrap();
            let family = kv.get("family").copied().unwrap_or("mixed").to_string();
            let (mut e, _r) = setup(w, seq, seed, &family);
            i += 1;
            while i < lines.len() && !lines[i].starts_with("end ") && !lines[i].starts_with("begin ") {
                let l = &lines[i];
                if l.starts_with("step ") {
                    let lhs = l.split(" => ").next().unwrap();
                    let toks: Vec<&str> = lhs.split(' ').filter(|t| !t.is_empty()).collect();
                    // step seq=.. i=.. <op…>
                    let op = parse_op(&toks[3..]);
                    if let Op::TokInc { t, owner, spender, .. } = &op {
                        if !e.allow_watch.contains(&(*t, *owner, *spender)) {
                            e.allow_watch.push((*t, *owner, *spender));
                        }
                    }
                    e.step(op);
                } else if l.starts_with("query ") {
                    let lhs = l.split(" => ").next().unwrap();
                    let t: Vec<&str> = lhs.split(' ').filter(|t| !t.is_empty()).collect();
                    match t[2] {
                        "sim" => e.q_sim(t[3].parse().unwrap(), parse_asset(t[4]), t[5].parse().unwrap()),
                        "rsim" => e.q_rsim(t[3].parse().unwrap(), parse_asset(t[4]), t[5].parse().unwrap()),
                        "rsimops" => e.q_router(false, t[3].parse().unwrap(), &parse_ops(t[4])),
                        "rrev" => e.q_router(true, t[3].parse().unwrap(), &parse_ops(t[4])),
                        "rsimcomp" => e.q_router_comp(false, t[3].parse().unwrap(), &parse_ops(t[4])),
                        "rrevcomp" => e.q_router_comp(true, t[3].parse().unwrap(), &parse_ops(t[4])),
                        "lookup" => e.q_lookup(parse_asset(t[3]), parse_asset(t[4])),
                        "pairs" => {
                            let start = if t[3] == "-" { None } else { let (a, b) = t[3].split_once(',').unwrap(); Some((parse_asset(a), parse_asset(b))) };
                            e.q_pairs(start, po(t[4]));
                        }
                        _ => {}
                    }
                }
                i += 1;
            }
            let seqn = e.seq;
            writeln!(e.w, "end seq={seqn}").unwrap();
        }
        i += 1;
    }
}
