pub fn run(_w: &mut dyn std::io::Write, _family: &str, _nseq: u64, _nsteps: u64, _seed: u64) {}
pub fn replay(_w: &mut dyn std::io::Write, _lines: &[String]) {}
