/-
halodriver — reads harness lines on stdin, runs the Lean model on each, prints
  DIVERGE <family> model=<model result> :: <line>
  ORACLE-FAIL <property> <note> :: <line>
and, at end of input, one `STATS …` line per family.  Imports only model + Spec (no Mathlib).
-/
import Halo.Driver.Fn
import Halo.Driver.WorldFam
import Std.Data.HashMap
import Std.Data.HashSet

open Halo Halo.Driver

structure FamStats where
  cases : Nat := 0
  nontrivial : Nat := 0
  implOk : Nat := 0
  diverge : Nat := 0
  oracle : Nat := 0
  seen : Std.HashSet UInt64 := {}
  tags : Std.HashMap String Nat := {}
  sample : List String := []

structure St where
  fams : Std.HashMap String FamStats := {}
  world : WorldSt := {}

def bump (st : St) (family : String) (line : String) (v : Verdict) (implOk : Bool) : St :=
  let fs := st.fams.getD family {}
  let fams := st.fams.erase family      -- keep `fs` uniquely referenced: in-place updates below
  let h := hash line
  let fresh := !fs.seen.contains h
  let fs := { fs with
    cases := fs.cases + 1
    nontrivial := fs.nontrivial + (if v.nontrivial && fresh then 1 else 0)
    implOk := fs.implOk + (if implOk then 1 else 0)
    diverge := fs.diverge + (if v.diverge.isSome then 1 else 0)
    oracle := fs.oracle + v.oracle.length
    seen := if v.nontrivial then fs.seen.insert h else fs.seen
    tags := v.tags.foldl (fun m t => m.insert t (m.getD t 0 + 1)) fs.tags
    sample := if fs.sample.length < 3 && v.nontrivial then line :: fs.sample else fs.sample }
  { st with fams := fams.insert family fs }

def report (family line : String) (v : Verdict) : IO Unit := do
  match v.diverge with
  | some m => IO.println s!"DIVERGE {family} model={m} :: {line}"
  | none => pure ()
  for (p, note) in v.oracle do
    IO.println s!"ORACLE-FAIL {p} {note} :: {line}"

def processLine (st : St) (line : String) : IO St := do
  if line.startsWith "fn " then
    match line.splitOn " => " with
    | [lhs, impl] =>
      match (lhs.splitOn " ").filter (· ≠ "") with
      | _ :: family :: args =>
        let v := fnLine family args impl
        report family line v
        return bump st family line v (!isFail impl)
      | _ => IO.println s!"DIVERGE parse model=? :: {line}"; return st
    | _ => IO.println s!"DIVERGE parse model=? :: {line}"; return st
  else
    let (ws, outs, fam, v) := worldLine st.world line
    for o in outs do IO.println o
    let st := { st with world := ws }
    match v with
    | some v => return bump st fam line v v.nontrivial
    | none => return st

partial def loop (h : IO.FS.Stream) (st : St) : IO St := do
  let line ← h.getLine
  if line.isEmpty then return st
  let line := line.trimAsciiEnd.toString
  if line.isEmpty || line.startsWith "#" then loop h st
  else
    let st ← processLine st line
    loop h st

def main : IO Unit := do
  let st ← loop (← IO.getStdin) {}
  for (fam, fs) in st.fams.toList do
    let tags := ",".intercalate (fs.tags.toList.map fun (k, v) => s!"{k}={v}")
    IO.println s!"STATS family={fam} cases={fs.cases} distinct_nontrivial={fs.nontrivial} impl_ok={fs.implOk} diverge={fs.diverge} oracle={fs.oracle} tags={tags}"
    for s in fs.sample do
      IO.println s!"SAMPLE {fam} :: {s}"
