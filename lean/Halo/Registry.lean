/-
N4 — registry keys and pagination.  Model of `contracts/halo-factory/src/state.rs`
(`pair_key`, `calc_range_start`, `read_pairs`).  Raw asset identifiers are byte lists
(`denom.as_bytes()` for native coins, the canonical address bytes for cw20 tokens); byte strings are
ordered lexicographically (core `List` order = `<[u8]>::cmp` = cw-storage-plus range order).
-/
import Halo.Num

namespace Halo

abbrev Bytes := List Nat

/-- `(n as u32).to_be_bytes()` -/
def be32 (n : Nat) : Bytes := [n / 16777216 % 256, n / 65536 % 256, n / 256 % 256, n % 256]

/-- the two identifiers in `sort_by(|a, b| a.as_bytes().cmp(b.as_bytes()))` order (stable) -/
def sortPair (a b : Bytes) : Bytes × Bytes := if b < a then (b, a) else (a, b)

/-- `pair_key` as in the pinned commit: plain concatenation of the sorted identifiers
(kept for the collision witness of defect D3; no longer what the repaired code computes) -/
def pairKeyOld (a b : Bytes) : Bytes := let (f, s) := sortPair a b; f ++ s

/-- `pair_key` after the repair of D3: the first identifier is length-prefixed (u32, big endian) -/
def pairKey (a b : Bytes) : Bytes := let (f, s) := sortPair a b; be32 f.length ++ f ++ s

/-- `calc_range_start`: the exclusive lower bound derived from the cursor's key -/
def rangeStart (k : Bytes) : Bytes := k ++ [1]

/-- settings for pagination -/
def maxLimit : Nat := 30
def defaultLimit : Nat := 10
def pageSize (limit : Option Nat) : Nat := min (limit.getD defaultLimit) maxLimit

/-- the part of a key-sorted registry strictly after the exclusive bound -/
def afterCursor {α} (reg : List (Bytes × α)) : Option Bytes → List (Bytes × α)
  | none => reg
  | some k => reg.filter (fun e => decide (rangeStart k < e.1))

/-- `read_pairs` over a key-sorted association list; `start` is the cursor's key -/
def readPairs {α} (reg : List (Bytes × α)) (start : Option Bytes) (limit : Option Nat) : List (Bytes × α) :=
  (afterCursor reg start).take (pageSize limit)

/-- insertion into a key-sorted association list (`PAIRS.save`): replaces an equal key -/
def regInsert {α} (k : Bytes) (v : α) : List (Bytes × α) → List (Bytes × α)
  | [] => [(k, v)]
  | (k', v') :: rest =>
    if k < k' then (k, v) :: (k', v') :: rest
    else if k = k' then (k, v) :: rest
    else (k', v') :: regInsert k v rest

/-- `PAIRS.may_load` -/
def regLookup {α} (k : Bytes) (reg : List (Bytes × α)) : Option α :=
  (reg.find? (fun e => e.1 = k)).map (·.2)

/-- walking the list page by page, each time continuing after the last entry returned -/
def walkFuel {α} (reg : List (Bytes × α)) (limit : Option Nat) : Nat → Option Bytes → List (Bytes × α)
  | 0, _ => []
  | f + 1, c =>
    let pg := readPairs reg c limit
    match pg.getLast? with
    | none => []
    | some e => pg ++ walkFuel reg limit f (some e.1)

/-- the walk: at most `length + 1` pages are ever needed -/
def walk {α} (reg : List (Bytes × α)) (limit : Option Nat) : List (Bytes × α) :=
  walkFuel reg limit (reg.length + 1) none

/-- no registered key equals another registered key extended by a suffix that starts with byte 0
or is exactly `[1]` (true whenever identifier bytes are ≥ 2, as for every Cosmos-SDK denom) -/
def NoLowExt1 (c k : Bytes) : Prop := (∀ s, k ≠ c ++ 0 :: s) ∧ k ≠ c ++ [1]
def NoLowExt {α} (reg : List (Bytes × α)) : Prop := ∀ c ∈ reg, ∀ k ∈ reg, NoLowExt1 c.1 k.1

/-- `assert_operations`: the set of asset texts left unconsumed by the hop list.  `txt` is the
`Display` text of an asset id — the map is keyed on text, so a denom and a token address with equal
text are conflated, exactly as in the code. -/
def danglingAsks (ops : List (String × String)) : List String :=
  ops.foldl (fun m (op : String × String) => (m.filter (· ≠ op.1)).filter (· ≠ op.2) ++ [op.2]) []

def assertOperations (ops : List (String × String)) : M Unit :=
  if (danglingAsks ops).length = 1 then .ok () else .error .err

end Halo
