/-
Specification-level definitions over the world model: who an operation may touch (C07), the
registry invariant (C16, C17), the share-value order (C03), sums of balances.  Core Lean only.
-/
import Halo.World
import Halo.Proofs.WorldBasic

namespace Halo

/-! ### C07: the accounts an operation may touch -/

/-- receivers named by a hook -/
def Hook.receivers : Hook → List Nat
  | .swap _ _ _ _ to => to.toList
  | .routerOps _ _ to => to.toList
  | _ => []

def Hook.isRoute : Hook → Bool
  | .routerOps .. => true
  | _ => false

/-- `z` is an account the operation may touch: the actor, the contract it addresses, the designated
receiver; for a route the pairs (any pair contract) and the router; and — for LP assets only, but stated
for all assets to keep the predicate simple — the LP token address of the addressed pair (it holds the
reserved unit).  Everything else is a bystander. -/
def Touched (w : World) (op : Op) (z : Nat) : Prop :=
  match op with
  | .bankSend s d _ => z = s ∨ z = d
  | .tokTransfer _ s d _ => z = s ∨ z = d
  | .tokIncAllow _ o _ _ => z = o
  | .tokBurn _ s _ => z = s
  | .tokSend _ s d _ h =>
    z = s ∨ z = d ∨ z ∈ h.receivers ∨ (h.isRoute = true ∧ ((w.pair z).isSome ∨ z = w.router)) ∨
      (∃ P, w.pair d = some P ∧ z = P.lp)
  | .pair s p _ m =>
    z = s ∨ z = p ∨ (∃ P, w.pair p = some P ∧ z = P.lp) ∨
      (match m with
       | .provide _ _ _ _ _ r => z ∈ r.toList
       | .swap _ _ _ _ to => z ∈ to.toList
       | .receive f _ h => z = f ∨ z ∈ h.receivers
       | .updateDecimals .. => False)
  | .router s _ m =>
    z = s ∨ z = w.router ∨ (w.pair z).isSome ∨
      (match m with
       | .swapOps _ _ to => z ∈ to.toList
       | .swapOp _ _ to => z ∈ to.toList
       | .assertMin .. => False
       | .receive f _ h => z = f ∨ z ∈ h.receivers)
  | .factory s _ _ => z = s ∨ z = w.facAddr
  | .tokTransferFrom _ sp o d _ => z = sp ∨ z = o ∨ z = d
  | .tokBurnFrom _ sp o _ => z = sp ∨ z = o
  | .tokDecAllow _ o _ _ => z = o
  | .tokSendFrom _ sp o d _ h =>
    z = sp ∨ z = o ∨ z = d ∨ z ∈ h.receivers ∨ (h.isRoute = true ∧ ((w.pair z).isSome ∨ z = w.router)) ∨
      (∃ P, w.pair d = some P ∧ z = P.lp)

/-! ### address validation: the address strings an operation submits to `addr_validate` -/

/-- the address strings a hook payload makes the receiving contract validate; `from_` is `cw20_msg.sender`.
A swap hook (pair) validates its `to`; `WithdrawLiquidity` (pair) validates the cw20 sender; a route hook (router)
validates the cw20 sender and its `to`. -/
def Hook.validated (from_ : Nat) : Hook → List Nat
  | .swap _ _ _ _ dst => dst.toList
  | .withdraw => [from_]
  | .routerOps _ _ dst => from_ :: dst.toList
  | .garbage => []

/-- the user-supplied address strings of an operation that the contracts (or, for the receiver of a provision, the
LP token's `Mint`) pass through `addr_validate` before the operation can succeed -/
def validatedAddrs : Op → List Nat
  | .pair _ _ _ (.provide _ _ _ _ _ r) => r.toList
  | .pair _ _ _ (.swap _ _ _ _ dst) => dst.toList
  | .pair _ _ _ (.receive f _ h) => h.validated f
  | .tokSend _ s _ _ h => h.validated s
  | .tokSendFrom _ sp _ _ _ h => h.validated sp
  | .router _ _ (.swapOps _ _ dst) => dst.toList
  | .router _ _ (.swapOp _ _ dst) => dst.toList
  | .router _ _ (.assertMin _ _ _ rcv) => [rcv]
  | .router _ _ (.receive f _ h) => h.validated f
  | .factory _ _ (.updateConfig o _ _) => o.toList
  | _ => []

/-- the account that submits an operation -/
def actorOf : Op → Nat
  | .bankSend s _ _ => s
  | .tokTransfer _ s _ _ => s
  | .tokSend _ s _ _ _ => s
  | .tokIncAllow _ o _ _ => o
  | .tokBurn _ s _ => s
  | .pair s _ _ _ => s
  | .router s _ _ => s
  | .factory s _ _ => s
  | .tokTransferFrom _ sp _ _ _ => sp
  | .tokSendFrom _ sp _ _ _ _ => sp
  | .tokBurnFrom _ sp _ _ => sp
  | .tokDecAllow _ o _ _ => o

/-- the accounts whose tokens an operation moves with an allowance they granted to the actor (they consented by
granting it): the `owner` of `TransferFrom` / `SendFrom` / `BurnFrom`; nobody for all other operations -/
def ownersOf : Op → List Nat
  | .tokTransferFrom _ _ o _ _ => [o]
  | .tokSendFrom _ _ o _ _ _ => [o]
  | .tokBurnFrom _ _ o _ => [o]
  | _ => []

/-- environment: the addresses the chain allocates to a new pair and its LP token are fresh (the new
pair address is neither an existing pair nor an existing token contract; the new token address is not an
existing token contract) -/
def FreshOK (w : World) (op : Op) : Prop :=
  ∀ s f a0 a1 req c ld np nl, op = .factory s f (.createPair a0 a1 req c ld np nl) →
    w.pair np = none ∧ w.tok nl = none ∧ w.tok np = none

/-- sum of the balances of an asset over a list of accounts -/
def sumBal (w : World) (a : Asset) (L : List Nat) : Nat := (L.map (bal w a)).sum

/-- cw20 conservation in inductive form: over every duplicate-free list of accounts the balances sum to at
most the total supply -/
def TokSumOK (w : World) (t : Nat) : Prop := ∀ L : List Nat, L.Nodup → sumBal w (.token t) L ≤ supply w t

/-- `t` is the LP token of some pair -/
def IsLp (w : World) (t : Nat) : Prop := ∃ p P, w.pair p = some P ∧ P.lp = t

/-! ### C16 / C17: the registry invariant -/

/-- the factory record equals the pair contract's self-description -/
def recMatches (w : World) (R : Record) : Prop :=
  ∃ P, w.pair R.pair = some P ∧ P.a0 = R.a0 ∧ P.a1 = R.a1 ∧ P.d0 = R.d0 ∧ P.d1 = R.d1 ∧ P.lp = R.lp ∧
    P.comm = R.comm ∧ P.req = R.req ∧ P.factory = w.facAddr

/-- a live asset: a registered native denom or a live cw20 contract — exactly the assets for which the factory's
decimals query `assetDecimals` succeeds (`Halo.RegOKP.live_iff_decimals`), hence the only assets a pair can be
created over -/
def Live (w : World) (a : Asset) : Prop :=
  match a with
  | .native d => (w.denoms d).isSome
  | .token t => (w.tok t).isSome

instance (w : World) (a : Asset) : Decidable (Live w a) :=
  match a with
  | .native d => inferInstanceAs (Decidable ((w.denoms d).isSome = true))
  | .token t => inferInstanceAs (Decidable ((w.tok t).isSome = true))

/-- environment: distinct LIVE assets have distinct raw identifiers; raw identifiers are shorter than 2^32 bytes.
Nothing is assumed about identifiers that are not live: another spelling of a token address (upper case) is a
different `Asset.token` with the same raw identifier as the live contract, and is not a contract itself. -/
structure RawOK (w : World) : Prop where
  inj : ∀ a b, Live w a → Live w b → w.rawId a = w.rawId b → a = b
  short : ∀ a, (w.rawId a).length < 2 ^ 32

structure RegOK (w : World) : Prop where
  /-- `PAIRS` is ordered by key (so keys are unique) -/
  sorted : w.registry.Pairwise (fun e f => e.1 < f.1)
  /-- every record is stored under the key of its own asset identifiers -/
  keyed : ∀ e ∈ w.registry, e.1 = pairKey (w.rawId e.2.a0) (w.rawId e.2.a1)
  /-- every record equals the self-description of the pair it points to -/
  matched : ∀ e ∈ w.registry, recMatches w e.2
  /-- no two records share a pair address -/
  distinctPairs : w.registry.Pairwise (fun e f => e.2.pair ≠ f.2.pair)
  /-- a pair is never over two identical assets -/
  distinctAssets : ∀ e ∈ w.registry, e.2.a0 ≠ e.2.a1
  /-- native assets of registered pairs are registered denoms -/
  denomsKnown : ∀ e ∈ w.registry, ∀ d, (e.2.a0 = .native d ∨ e.2.a1 = .native d) → (w.denoms d).isSome
  /-- both assets of a registered pair are live (the factory queried their decimals at creation, and liveness is
  never revoked); subsumes `denomsKnown` -/
  live : ∀ e ∈ w.registry, Live w e.2.a0 ∧ Live w e.2.a1

/-! ### C03: share value -/

/-- `reserve0·reserve1/S²` does not decrease (and a positive supply stays positive) -/
def NonDecr (v v' : Nat × Nat × Nat) : Prop :=
  0 < v.2.2 → 0 < v'.2.2 ∧ v.1 * v.2.1 * (v'.2.2 * v'.2.2) ≤ v'.1 * v'.2.1 * (v.2.2 * v.2.2)

/-- the view of a pair: its two actual reserves and the LP total supply -/
def view (w : World) (p : Nat) : Nat × Nat × Nat :=
  match w.pair p with
  | some P => (bal w P.a0 p, bal w P.a1 p, supply w P.lp)
  | none => (0, 0, 0)

end Halo

namespace Halo

/-! ### the swaps an operation performs (C01 / C03 at system level) -/

/-- the asset of a pair other than `o` -/
def PairSt.other (P : PairSt) (o : Asset) : Asset := if o = P.a0 then P.a1 else P.a0

/-- pricing inputs `(pair, x, y, a)` — offer reserve net of the offer, ask reserve, offer amount — of the
swaps a route performs, hop by hop (mirrors `routerHops`) -/
def hopTrace (w : World) (rcv : Nat) : List (Asset × Asset) → List (Nat × Nat × Nat × Nat)
  | [] => []
  | (o, a) :: rest =>
    match facLookup w o a with
    | none => []
    | some R =>
      match w.pair R.pair with
      | none => []
      | some P =>
        let t := (R.pair, bal w o R.pair, bal w (P.other o) R.pair, bal w o w.router)
        match routerHop w w.router o a (if rest.isEmpty then some rcv else none) with
        | .ok w' => t :: hopTrace w' rcv rest
        | .error _ => [t]

/-- pricing inputs of every swap an operation performs, in order (mirrors `exec`) -/
def swapsOn (w : World) : Op → List (Nat × Nat × Nat × Nat)
  | .pair s p funds (.swap offer amt _ _ _) =>
    (match attach w s p funds, w.pair p with
     | .ok w0, some P => [(p, bal w0 offer p - amt, bal w0 (P.other offer) p, amt)]
     | _, _ => [])
  | .pair s p funds (.receive _ amount (.swap offer _ _ _ _)) =>
    (match attach w s p funds, w.pair p with
     | .ok w0, some P => [(p, bal w0 offer p - amount, bal w0 (P.other offer) p, amount)]
     | _, _ => [])
  | .tokSend t s d amt (.swap offer _ _ _ _) =>
    (match w.pair d with
     | some P => [(d, bal w offer d, bal w (P.other offer) d, amt)]
     | none => [])
  | .tokSend t s d amt (.routerOps ops _ to) =>
    if (w.pair d).isNone ∧ d = w.router then
      (match tokTransfer w t s d amt with
       | .ok w0 => hopTrace w0 (to.getD s) ops
       | .error _ => [])
    else []
  | .tokSendFrom _ _ _ d amt (.swap offer _ _ _ _) =>
    (match w.pair d with
     | some P => [(d, bal w offer d, bal w (P.other offer) d, amt)]
     | none => [])
  | .tokSendFrom t sp o d amt (.routerOps ops _ to) =>
    if (w.pair d).isNone ∧ d = w.router then
      (match tokTransferFrom w t sp o d amt with
       | .ok w0 => hopTrace w0 (to.getD sp) ops
       | .error _ => [])
    else []
  | .router s funds (.swapOps ops _ to) =>
    (match attach w s w.router funds with
     | .ok w0 => hopTrace w0 (to.getD s) ops
     | .error _ => [])
  | .router s funds (.receive from_ _ (.routerOps ops _ to)) =>
    (match attach w s w.router funds with
     | .ok w0 => hopTrace w0 (to.getD from_) ops
     | .error _ => [])
  | .router s funds (.swapOp o a to) =>
    (match attach w s w.router funds with
     | .ok w0 => hopTrace w0 (to.getD s) [(o, a)]
     | .error _ => [])
  | _ => []

/-- the operation performs a swap on pair `p` whose pricing inputs lie in the window of defect D1 -/
def WindowedOn (w : World) (op : Op) (p : Nat) : Prop :=
  ∃ t ∈ swapsOn w op, t.1 = p ∧ inWindow t.2.1 t.2.2.1 t.2.2.2 = true

/-- an actor is an account that is none of the system's contracts -/
def IsActor (w : World) (s : Nat) : Prop :=
  (w.pair s).isNone ∧ (w.tok s).isNone ∧ s ≠ w.router ∧ s ≠ w.facAddr

/-- the funds of a message carry each denom at most once (the chain validates `Coins`) -/
def fundsOf : Op → List (Nat × Nat)
  | .pair _ _ f _ => f
  | .router _ f _ => f
  | .factory _ f _ => f
  | .bankSend _ _ cs => cs
  | _ => []

/-- an operation as an external actor can submit it -/
structure ValidOp (w : World) (op : Op) : Prop where
  actor : IsActor w (actorOf op)
  fresh : FreshOK w op
  coins : ((fundsOf op).map (·.1)).Nodup

end Halo

namespace Halo

/-- what C03 needs of a pair `p` over assets `a0`, `a1` with LP token `lp`, in inductive form:
the pair exists with those assets and LP token (decimals may change); the assets are distinct and are not
the LP token; the LP token is a live cw20 minted only by the pair, with balances summing to at most its
supply (cw20 conservation) and — once the supply is positive — the reserved unit held by the LP token's own
address; the addresses involved are distinct contracts, which have granted no cw20 allowance to anybody -/
structure PairInv (w : World) (p : Nat) (a0 a1 : Asset) (lp : Nat) : Prop where
  pair : ∃ P, w.pair p = some P ∧ P.a0 = a0 ∧ P.a1 = a1 ∧ P.lp = lp
  distinct : a0 ≠ a1
  notLp0 : a0 ≠ .token lp
  notLp1 : a1 ≠ .token lp
  lpLive : ∃ T, w.tok lp = some T ∧ T.minter = some p
  live0 : ∀ t, a0 = .token t → (w.tok t).isSome
  live1 : ∀ t, a1 = .token t → (w.tok t).isSome
  sumOK : TokSumOK w lp
  reserved : 0 < supply w lp → 1 ≤ bal w (.token lp) lp
  lpNoPair : (w.pair lp).isNone
  lpNotRouter : lp ≠ w.router
  pNotRouter : p ≠ w.router
  /-- neither the pair contract nor the LP token's own address (which holds the reserved unit) has granted an
  allowance on any cw20 contract: they are contracts that never send `IncreaseAllowance`, so no third party can move
  their tokens with `TransferFrom` / `SendFrom` / `BurnFrom` -/
  noAllow : ∀ t T, w.tok t = some T → ∀ s, T.allow p s = none ∧ T.allow lp s = none

/-- the environment's address allocation for a `CreatePair`: the addresses handed to the new pair contract and
to its LP token are distinct, not in use as a pair, not the router, and have granted no cw20 allowance (`FreshOK` says
the rest) -/
structure NewAddrs (w : World) (np nl : Nat) : Prop where
  ne : np ≠ nl
  pairFree : w.pair nl = none
  npNotRouter : np ≠ w.router
  nlNotRouter : nl ≠ w.router
  /-- the two addresses have never acted: they have granted no allowance on any existing cw20 contract -/
  noAllow : ∀ t T, w.tok t = some T → ∀ s, T.allow np s = none ∧ T.allow nl s = none

/-- the view of a pair through its (fixed) assets and LP token -/
def viewOf (w : World) (p : Nat) (a0 a1 : Asset) (lp : Nat) : Nat × Nat × Nat :=
  (bal w a0 p, bal w a1 p, supply w lp)

/-- every step of a history is submitted by an external actor -/
def ValidRun (name : Asset → String) : World → List Op → Prop
  | _, [] => True
  | w, op :: rest => ValidOp w op ∧ ValidRun name (step name w op) rest

/-- no step of a history performs an in-window swap on pair `p` -/
def NoWindowRun (name : Asset → String) (p : Nat) : World → List Op → Prop
  | _, [] => True
  | w, op :: rest => ¬ WindowedOn w op p ∧ NoWindowRun name p (step name w op) rest

/-- the operations that are swaps: direct, through a cw20 hook (`Send`, or `SendFrom` by a spender), or through the router (both entry points, and a
raw `Receive` sent to the router by anybody, which executes a route as well) -/
def IsSwapOp : Op → Prop
  | .pair _ _ _ (.swap ..) => True
  | .tokSend _ _ _ _ (.swap ..) => True
  | .tokSend _ _ _ _ (.routerOps ..) => True
  | .tokSendFrom _ _ _ _ _ (.swap ..) => True
  | .tokSendFrom _ _ _ _ _ (.routerOps ..) => True
  | .router _ _ (.swapOps ..) => True
  | .router _ _ (.receive _ _ (.routerOps ..)) => True
  | _ => False

end Halo
