/-
Specification-level definitions over the world model: who an operation may touch (C07), the
registry invariant (C16, C17), the share-value order (C03), sums of balances.  Core Lean only.
-/
import Halo.World
import Halo.Proofs.WorldBasic

namespace Halo

/-! ### C07: the accounts an operation may touch -/

/-- receivers named by a hook -/
def Hook.receivers : Hook → List Nat
  | .swap _ _ _ _ to => to.toList
  | .routerOps _ _ to => to.toList
  | _ => []

def Hook.isRoute : Hook → Bool
  | .routerOps .. => true
  | _ => false

/-- `z` is an account the operation may touch: the actor, the contract it addresses, the designated
receiver; for a route the pairs (any pair contract) and the router; and — for LP assets only, but stated
for all assets to keep the predicate simple — the LP token address of the addressed pair (it holds the
reserved unit).  Everything else is a bystander. -/
def Touched (w : World) (op : Op) (z : Nat) : Prop :=
  match op with
  | .bankSend s d _ => z = s ∨ z = d
  | .tokTransfer _ s d _ => z = s ∨ z = d
  | .tokIncAllow _ o _ _ => z = o
  | .tokBurn _ s _ => z = s
  | .tokSend _ s d _ h =>
    z = s ∨ z = d ∨ z ∈ h.receivers ∨ (h.isRoute = true ∧ ((w.pair z).isSome ∨ z = w.router)) ∨
      (∃ P, w.pair d = some P ∧ z = P.lp)
  | .pair s p _ m =>
    z = s ∨ z = p ∨ (∃ P, w.pair p = some P ∧ z = P.lp) ∨
      (match m with
       | .provide _ _ _ _ _ r => z ∈ r.toList
       | .swap _ _ _ _ to => z ∈ to.toList
       | .receive f _ h => z = f ∨ z ∈ h.receivers
       | .updateDecimals .. => False)
  | .router s _ m =>
    z = s ∨ z = w.router ∨ (w.pair z).isSome ∨
      (match m with
       | .swapOps _ _ to => z ∈ to.toList
       | .swapOp _ _ to => z ∈ to.toList
       | .assertMin .. => False
       | .receive f _ h => z = f ∨ z ∈ h.receivers)
  | .factory s _ _ => z = s ∨ z = w.facAddr

/-- the account that submits an operation -/
def actorOf : Op → Nat
  | .bankSend s _ _ => s
  | .tokTransfer _ s _ _ => s
  | .tokSend _ s _ _ _ => s
  | .tokIncAllow _ o _ _ => o
  | .tokBurn _ s _ => s
  | .pair s _ _ _ => s
  | .router s _ _ => s
  | .factory s _ _ => s

/-- environment: the addresses the chain allocates to a new pair and its LP token are fresh -/
def FreshOK (w : World) (op : Op) : Prop :=
  ∀ s f a0 a1 req c np nl, op = .factory s f (.createPair a0 a1 req c np nl) → w.pair np = none ∧ w.tok nl = none

/-- sum of the balances of an asset over a list of accounts -/
def sumBal (w : World) (a : Asset) (L : List Nat) : Nat := (L.map (bal w a)).sum

/-- cw20 conservation in inductive form: over every duplicate-free list of accounts the balances sum to at
most the total supply -/
def TokSumOK (w : World) (t : Nat) : Prop := ∀ L : List Nat, L.Nodup → sumBal w (.token t) L ≤ supply w t

/-- `t` is the LP token of some pair -/
def IsLp (w : World) (t : Nat) : Prop := ∃ p P, w.pair p = some P ∧ P.lp = t

/-! ### C16 / C17: the registry invariant -/

/-- the factory record equals the pair contract's self-description -/
def recMatches (w : World) (R : Record) : Prop :=
  ∃ P, w.pair R.pair = some P ∧ P.a0 = R.a0 ∧ P.a1 = R.a1 ∧ P.d0 = R.d0 ∧ P.d1 = R.d1 ∧ P.lp = R.lp ∧
    P.comm = R.comm ∧ P.req = R.req ∧ P.factory = w.facAddr

/-- environment: distinct assets have distinct raw identifiers, shorter than 2^32 bytes -/
structure RawOK (w : World) : Prop where
  inj : ∀ a b, w.rawId a = w.rawId b → a = b
  short : ∀ a, (w.rawId a).length < 2 ^ 32

structure RegOK (w : World) : Prop where
  /-- `PAIRS` is ordered by key (so keys are unique) -/
  sorted : w.registry.Pairwise (fun e f => e.1 < f.1)
  /-- every record is stored under the key of its own asset identifiers -/
  keyed : ∀ e ∈ w.registry, e.1 = pairKey (w.rawId e.2.a0) (w.rawId e.2.a1)
  /-- every record equals the self-description of the pair it points to -/
  matched : ∀ e ∈ w.registry, recMatches w e.2
  /-- no two records share a pair address -/
  distinctPairs : w.registry.Pairwise (fun e f => e.2.pair ≠ f.2.pair)
  /-- a pair is never over two identical assets -/
  distinctAssets : ∀ e ∈ w.registry, e.2.a0 ≠ e.2.a1
  /-- native assets of registered pairs are registered denoms -/
  denomsKnown : ∀ e ∈ w.registry, ∀ d, (e.2.a0 = .native d ∨ e.2.a1 = .native d) → (w.denoms d).isSome

/-! ### C03: share value -/

/-- `reserve0·reserve1/S²` does not decrease (and a positive supply stays positive) -/
def NonDecr (v v' : Nat × Nat × Nat) : Prop :=
  0 < v.2.2 → 0 < v'.2.2 ∧ v.1 * v.2.1 * (v'.2.2 * v'.2.2) ≤ v'.1 * v'.2.1 * (v.2.2 * v.2.2)

/-- the view of a pair: its two actual reserves and the LP total supply -/
def view (w : World) (p : Nat) : Nat × Nat × Nat :=
  match w.pair p with
  | some P => (bal w P.a0 p, bal w P.a1 p, supply w P.lp)
  | none => (0, 0, 0)

end Halo
