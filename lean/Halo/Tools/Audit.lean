/-
`#audit_ns Halo.Props.C01` prints, for every theorem whose name lies in that namespace, one line
  AUDIT <theorem> axioms=[…]
so that the check script can verify that nothing beyond `propext`, `Classical.choice`, `Quot.sound`
(in particular no `sorryAx`, no `native_decide`/`bv_decide` axiom) is used.  The list of theorems is
read from the environment, not from a hand-kept table.
-/
import Lean
open Lean Elab Command

elab "#audit_ns " ns:ident : command => do
  let env ← getEnv
  let nsName := ns.getId
  let mut names : Array Name := #[]
  for (n, ci) in env.constants.toList do
    if nsName.isPrefixOf n && !n.isInternalDetail then
      match ci with
      | .thmInfo _ => names := names.push n
      | _ => pure ()
  let sorted := names.qsort (fun a b => a.toString < b.toString)
  for n in sorted do
    let axs ← collectAxioms n
    let axs := (axs.map toString).qsort (· < ·)
    logInfo m!"AUDIT {n} axioms={axs.toList}"
  logInfo m!"AUDIT-COUNT {nsName} {sorted.size}"
