/-
Decidable specification predicates, one group per property.  Each is used twice:
the theorems in `Halo/Props/*` state them of the *model's* output for all inputs, and the run-time
oracle of the driver evaluates the very same predicate on the *implementation's* output.
All ratios are cross-multiplied integers (no reals); the ℚ readings are proved in the property files.
-/
import Halo.Formulas

namespace Halo.Spec

/-- C01 (function level): the pay-out never exceeds `y·a/(x+a)` — hence the reserve product does not
decrease — and never empties a non-empty ask reserve. -/
def c01 (x y a n : Nat) : Bool :=
  decide (n * (x + a) ≤ y * a) && (decide (y = 0) || decide (n < y))

/-- C01 in reserve form: product after ≥ product before and the ask reserve stays positive. -/
def c01Reserves (x y x' y' : Nat) : Bool :=
  decide (x * y ≤ x' * y') && decide (0 < y')

/-- C06: commission, spread identity and the one-unit bracket around `g(1−γ)`, `g = y·a/(x+a)`. -/
def c06 (x y a c n s k : Nat) : Bool :=
  decide (k = (n + k) * c / E) &&
  decide (n + k + s = y * a / x) &&
  decide (n * ((x + a) * E) < y * a * (E - c) + (x + a) * E) &&
  decide (y * a * (E - c) < (n + 1) * ((x + a) * E))

/-- C04: `r·a/S − r/10^18 − 1 < x ≤ r·a/S`. -/
def c04 (r a S x : Nat) : Bool :=
  decide (x * S ≤ r * a) && decide (r * a * E < (x + 1) * S * E + r * S)

/-- C05, positive supply: `min_i(d_i·S/r_i) − 1 < m ≤ min_i(d_i·S/r_i)`. -/
def c05Pos (S d0 d1 r0 r1 m : Nat) : Bool :=
  decide (m * r0 ≤ d0 * S) && decide (m * r1 ≤ d1 * S) &&
  (decide (d0 * S < (m + 1) * r0) || decide (d1 * S < (m + 1) * r1))

/-- C05, empty pair: whitelist, minimums, and `m = ⌊√(d0·d1)⌋`. -/
def c05Empty (sender : Nat) (req : Requirements) (d0 d1 m : Nat) : Bool :=
  decide (sender ∈ req.whitelist) && decide (req.min0 ≤ d0) && decide (req.min1 ≤ d1) &&
  decide (m * m ≤ d0 * d1) && decide (d0 * d1 < (m + 1) * (m + 1))

/-- C10, belief-price branch, soundness: accepted ⇒ `r' > (o'/p − 1)(1 − σ − 10⁻¹⁸)` when binding. -/
def c10BeliefSound (o r p ms : Nat) : Bool :=
  !(decide (p < o * E) && decide (ms < E)) || decide ((o * E - p) * (E - ms - 1) < r * p * E)

/-- C10, belief-price branch, completeness: rejected by the guard ⇒ `r' < (o'/p)(1 − σ)`. -/
def c10BeliefComplete (o r p ms : Nat) : Bool :=
  decide (ms ≤ E) && decide (r * p < o * (E - ms))

/-- C10, spread-only branch, soundness: accepted ⇒ `s'/(r'+s') < σ + 10⁻¹⁸`. -/
def c10SpreadSound (r s ms : Nat) : Bool := decide (s * E < (ms + 1) * (r + s))

/-- C10, spread-only branch, completeness: rejected by the guard ⇒ `s'/(r'+s') > σ`. -/
def c10SpreadComplete (r s ms : Nat) : Bool := decide (ms * (r + s) < s * E)

/-- C15 soundness: accepted ⇒ both `(d_i/d_j)(1−τ) < r_i/r_j + 2·10⁻¹⁸`. -/
def c15Sound (t d0 d1 r0 r1 : Nat) : Bool :=
  decide (t ≤ E) &&
  decide (d0 * (E - t) * r1 < r0 * d1 * E + 2 * d1 * r1) &&
  decide (d1 * (E - t) * r0 < r1 * d0 * E + 2 * d0 * r0)

/-- C15 completeness: rejected by the guard ⇒ not both `(d_i/d_j)(1−τ) ≤ r_i/r_j − 10⁻¹⁸`. -/
def c15Complete (t d0 d1 r0 r1 : Nat) : Bool :=
  decide (r0 * d1 * E < d0 * (E - t) * r1 + d1 * r1) ||
  decide (r1 * d0 * E < d1 * (E - t) * r0 + d0 * r0)

/-- C09: a native declaration is accepted iff the first attached coin of that denom (absent ≙ 0)
carries exactly the declared amount. -/
def c09 (denom amount : Nat) (funds : List (Nat × Nat)) : Bool :=
  decide (((funds.find? (fun c => c.1 = denom)).map (·.2)).getD 0 = amount)

/-- C12, reverse simulation against the closed form `F = x·y/(y − b') − x` with
`b' = ask/(1−γ)` on its domain `ask·E < y·(E−c)`: never above, below by at most the rounding. -/
def c12Reverse (x y b c o : Nat) : Bool :=
  -- o ≤ x*y/(y - b/(1-γ)) - x   ⟸   (o + x) * (y*(E-c) - b*E) ≤ x*y*(E-c)
  decide ((o + x) * (y * (E - c) - b * E) ≤ x * y * (E - c))

/-- C12, reverse simulation, lower side: `o > x·y/(y − b/(1−γ) + b·10⁻¹⁸ + 1) − x − 1`
(the rounding of `1/(1−γ)`, of `ask·inv` and of the final quotient). -/
def c12ReverseLower (x y b c o : Nat) : Bool :=
  decide (x * y * E * (E - c) + (o + x + 1) * b * E * E <
          (o + x + 1) * (y * E * (E - c) + b * (E - c) + E * (E - c)))

/-- domain of the closed form: `c < 1` and `ask/(1−c) < y` -/
def c12Domain (y b c : Nat) : Bool := decide (c < E) && decide (b * E < y * (E - c))

end Halo.Spec
