/-
C14 — privileged and internal entry points reject every other caller.
One theorem per guarded entry point: success ⇒ the caller is the authority.  A rejected call
changes nothing because a transaction is atomic (`step`).
-/
import Halo.Proofs.C14

namespace Halo.Props.C14
open Halo

/-- every factory message (UpdateConfig, CreatePair, AddNativeTokenDecimals, MigratePair) succeeds only for the current owner -/
theorem factory_only_owner {w w' : World} {s : Nat} {funds : List (Nat × Nat)} {m : FacMsg}
    (h : facExec w s funds m = .ok w') : s = w.owner :=
  Halo.C14.factory_only_owner h

/-- ownership follows a successful configuration update … -/
theorem ownership_follows {w w' : World} {s o : Nat} {funds : List (Nat × Nat)} {tc pc : Option Nat}
    (h : facExec w s funds (.updateConfig (some o) tc pc) = .ok w') : w'.owner = o :=
  Halo.C14.ownership_follows h

/-- every field of a successful configuration update (owner, cw20 code id, pair code id) replaces the stored
one exactly when given, and is kept otherwise -/
theorem config_follows {w w' : World} {s : Nat} {funds : List (Nat × Nat)} {o tc pc : Option Nat}
    (h : facExec w s funds (.updateConfig o tc pc) = .ok w') :
    w'.owner = o.getD w.owner ∧ w'.tokenCode = tc.getD w.tokenCode ∧ w'.pairCode = pc.getD w.pairCode :=
  Halo.C14.config_follows h

/-- … and nothing else ever changes the owner -/
theorem owner_changes_only_by_owner {name : Asset → String} {w w' : World} {op : Op} {out : Out}
    (h : exec name w op = .ok (w', out)) :
    w'.owner = w.owner ∨
      ∃ s f o tc pc, op = .factory s f (.updateConfig (some o) tc pc) ∧ s = w.owner ∧ w'.owner = o :=
  Halo.C14.owner_changes_only_by_owner h

/-- a pair accepts a decimals update only from its factory -/
theorem pair_update_only_factory {w : World} {s p : Nat} {funds : List (Nat × Nat)} {d da db : Nat} {r : World × Out}
    (h : pairExec w s p funds (.updateDecimals d da db) = .ok r) : ∃ P, w.pair p = some P ∧ s = P.factory :=
  Halo.C14.pair_update_only_factory h

/-- a withdraw hook only from the pair's own LP token (whoever calls `Receive`, directly or through a cw20 `Send`) -/
theorem withdraw_hook_only_lp {w : World} {s p from_ amount : Nat} {funds : List (Nat × Nat)} {r : World × Out}
    (h : pairExec w s p funds (.receive from_ amount .withdraw) = .ok r) : ∃ P, w.pair p = some P ∧ s = P.lp :=
  Halo.C14.withdraw_hook_only_lp h

/-- a swap hook only from one of the pair's own cw20 assets, naming that very token and amount -/
theorem swap_hook_only_pair_token {w : World} {s p from_ amount : Nat} {funds : List (Nat × Nat)}
    {offer : Asset} {amt : Nat} {b ms to : Option Nat} {r : World × Out}
    (h : pairExec w s p funds (.receive from_ amount (.swap offer amt b ms to)) = .ok r) :
    ∃ P, w.pair p = some P ∧ (P.a0 = .token s ∨ P.a1 = .token s) ∧ offer = .token s ∧ amt = amount :=
  Halo.C14.swap_hook_only_pair_token h

/-- the same through a real cw20 `Send` -/
theorem send_hook_auth {w : World} {t u p amt : Nat} {h' : Hook} {r : World × Out}
    (h : tokSendPair w t u p amt h' = .ok r) :
    ∃ P, w.pair p = some P ∧
      (match h' with
       | .swap offer a _ _ _ => (P.a0 = .token t ∨ P.a1 = .token t) ∧ offer = .token t ∧ a = amt
       | .withdraw => t = P.lp
       | _ => False) :=
  Halo.C14.send_hook_auth h

/-- … and through `SendFrom` by a spender with the holder's allowance -/
theorem sendFrom_hook_auth {name : Asset → String} {w : World} {t sp o p amt : Nat} {h' : Hook} {r : World × Out}
    (hp : (w.pair p).isSome) (h : tokSendFrom name w t sp o p amt h' = .ok r) :
    ∃ P, w.pair p = some P ∧
      (match h' with
       | .swap offer a _ _ _ => (P.a0 = .token t ∨ P.a1 = .token t) ∧ offer = .token t ∧ a = amt
       | .withdraw => t = P.lp
       | _ => False) :=
  Halo.C14.sendFrom_hook_auth hp h

/-- cw20 `SendFrom` is exactly a `TransferFrom` by the spender followed by the `Receive` that the token contract
sends to the destination (`info.sender` = the token, `cw20_msg.sender` = the SPENDER, no funds): every statement about
a raw `Receive` (`Op.pair t d [] (.receive …)`, `Op.router t [] (.receive …)`) speaks about `SendFrom` too -/
theorem sendFrom_is_transferFrom_then_receive {name : Asset → String} {w : World} {t sp o d amt : Nat} {hk : Hook}
    {r : World × Out} :
    exec name w (.tokSendFrom t sp o d amt hk) = .ok r ↔
      ∃ w1, tokTransferFrom w t sp o d amt = .ok w1 ∧
        (((w.pair d).isSome ∧ exec name w1 (.pair t d [] (.receive sp amt hk)) = .ok r) ∨
         ((w.pair d).isSome = false ∧ d = w.router ∧ exec name w1 (.router t [] (.receive sp amt hk)) = .ok r)) :=
  Halo.C14.exec_tokSendFrom_iff

/-- malformed hooks are rejected -/
theorem garbage_hook_rejected {w : World} {s p from_ amount : Nat} {funds : List (Nat × Nat)} {r : World × Out} :
    pairExec w s p funds (.receive from_ amount .garbage) ≠ .ok r :=
  Halo.C14.garbage_hook_rejected

/-- execute-swap never accepts a token offer (tokens enter through their own `Send`) -/
theorem execute_swap_rejects_token_offer {w : World} {s p t amt : Nat} {funds : List (Nat × Nat)}
    {b ms to : Option Nat} {r : World × Out} :
    pairExec w s p funds (.swap (.token t) amt b ms to) ≠ .ok r :=
  Halo.C14.execute_swap_rejects_token_offer

/-- the router's single-hop and minimum-receive messages are accepted only from the router itself -/
theorem router_hop_only_self {name : Asset → String} {w w' : World} {s : Nat} {funds : List (Nat × Nat)}
    {o a : Asset} {to : Option Nat} (h : routerExec name w s funds (.swapOp o a to) = .ok w') : s = w.router :=
  Halo.C14.router_hop_only_self h
theorem router_assert_only_self {name : Asset → String} {w w' : World} {s : Nat} {funds : List (Nat × Nat)}
    {a : Asset} {prev m rcv : Nat} (h : routerExec name w s funds (.assertMin a prev m rcv) = .ok w') : s = w.router :=
  Halo.C14.router_assert_only_self h

/-- a rejected call changes no state and no balance -/
theorem rejected_unchanged {name : Asset → String} {w : World} {op : Op} {e : Err}
    (h : exec name w op = .error e) : step name w op = w := by
  unfold step; rw [h]

end Halo.Props.C14
