/-
C08 — 256-bit arithmetic is exact or aborts, never silently wrong.

For every operation: `op a b = ok r ↔ guard ∧ r = exact`, where `exact` is the mathematical result
(floor division where the result type requires rounding toward zero) and `guard` is precisely
"divisor non-zero ∧ every intermediate product / the sum < 2^256 ∧ difference non-negative".
The `bigint::U256` operators themselves are assumed exact-or-panic (`Halo.u256.*`, DESIGN §8) and
exercised against the implementation by the `bignum` correspondence family.
-/
import Halo.Proofs.C08

namespace Halo.Props.C08
open Halo

theorem dec_add_spec {a b r : Nat} : Dec.add a b = .ok r ↔ a + b < U ∧ r = a + b := Dec.add_ok
theorem dec_sub_spec {a b r : Nat} : Dec.sub a b = .ok r ↔ b ≤ a ∧ r = a - b := Dec.sub_ok
theorem dec_mul_spec {a b r : Nat} : Dec.mul a b = .ok r ↔ a * b < U ∧ r = a * b / E := Dec.mul_ok
theorem dec_div_spec {a b r : Nat} : Dec.div a b = .ok r ↔ b ≠ 0 ∧ a * E < U ∧ r = a * E / b := Dec.div_ok
theorem dec_fromRatio_spec {n d r : Nat} :
    Dec.fromRatio n d = .ok r ↔ d ≠ 0 ∧ n * E < U ∧ r = n * E / d := Dec.fromRatio_ok
theorem dec_fromUint_spec {v r : Nat} : Dec.fromUint v = .ok r ↔ v * E < U ∧ r = v * E := Dec.fromUint_ok
theorem uint_add_spec {a b r : Nat} : Uint.add a b = .ok r ↔ a + b < U ∧ r = a + b := Uint.add_ok
theorem uint_sub_spec {a b r : Nat} : Uint.sub a b = .ok r ↔ b ≤ a ∧ r = a - b := Uint.sub_ok
theorem uint_mul_spec {a b r : Nat} : Uint.mul a b = .ok r ↔ a * b < U ∧ r = a * b := Uint.mul_ok
theorem uint_mulRatio_spec {u n d r : Nat} :
    Uint.mulRatio u n d = .ok r ↔ d ≠ 0 ∧ u * n < U ∧ r = u * n / d := Uint.mulRatio_ok
theorem uint_mulDec_spec {u d r : Nat} : Uint.mulDec u d = .ok r ↔ u * d < U ∧ r = u * d / E := Uint.mulDec_ok
theorem uint_divDec_spec {u d r : Nat} :
    Uint.divDec u d = .ok r ↔ d ≠ 0 ∧ u * E < U ∧ r = u * E / d := Uint.divDec_ok

/-- no operation ever returns a wrapped value: results of in-range operands are in range -/
theorem results_in_range {a b r : Nat} (ha : a < U) (hb : b < U) :
    (Dec.add a b = .ok r → r < U) ∧ (Dec.sub a b = .ok r → r < U) ∧ (Dec.mul a b = .ok r → r < U) ∧
    (Dec.div a b = .ok r → r < U) ∧ (Dec.fromRatio a b = .ok r → r < U) ∧ (Dec.fromUint a = .ok r → r < U) ∧
    (Uint.mul a b = .ok r → r < U) ∧ (Uint.mulDec a b = .ok r → r < U) ∧ (Uint.divDec a b = .ok r → r < U) :=
  Halo.C08.results_in_range ha hb

theorem mulRatio_in_range {u n d r : Nat} (h : Uint.mulRatio u n d = .ok r) : r < U :=
  Halo.C08.mulRatio_in_range h

/-- rounding is toward zero and by less than one unit of the result type: the exact quotient lies in `[r, r+1)` -/
theorem dec_mul_rounding {a b r : Nat} (h : Dec.mul a b = .ok r) : r * E ≤ a * b ∧ a * b < (r + 1) * E :=
  Halo.C08.dec_mul_rounding h
theorem dec_div_rounding {a b r : Nat} (h : Dec.div a b = .ok r) : r * b ≤ a * E ∧ a * E < (r + 1) * b :=
  Halo.C08.dec_div_rounding h
theorem dec_fromRatio_rounding {n d r : Nat} (h : Dec.fromRatio n d = .ok r) :
    r * d ≤ n * E ∧ n * E < (r + 1) * d :=
  Halo.C08.dec_fromRatio_rounding h
theorem uint_mulRatio_rounding {u n d r : Nat} (h : Uint.mulRatio u n d = .ok r) :
    r * d ≤ u * n ∧ u * n < (r + 1) * d :=
  Halo.C08.uint_mulRatio_rounding h
theorem uint_mulDec_rounding {u d r : Nat} (h : Uint.mulDec u d = .ok r) :
    r * E ≤ u * d ∧ u * d < (r + 1) * E :=
  Halo.C08.uint_mulDec_rounding h
theorem uint_divDec_rounding {u d r : Nat} (h : Uint.divDec u d = .ok r) :
    r * d ≤ u * E ∧ u * E < (r + 1) * d :=
  Halo.C08.uint_divDec_rounding h

/-- limb level: the in-repo width conversions -/
theorem ofU128_value (a : Nat) : (Limbs.ofU128 a).value = a := Halo.ofU128_eq a
theorem ofU128_wf {a : Nat} (h : a < W) : (Limbs.ofU128 a).wf := Halo.C08.ofU128_wf h
theorem toU128_ok_iff {n r : Nat} (h : n < U) : toU128 n = .ok r ↔ n < W ∧ r = n := Halo.toU128_ok h
theorem limbs_value_ofNat {n : Nat} (h : n < U) : (Limbs.ofNat n).value = n := Limbs.ofNat_value h
theorem decimalFractional_value : Limbs.decimalFractional.value = E := by decide

/-- comparison is the order of the mathematical values (derive(Ord) on a big-endian-compared
`U256`): modelled as `Nat` order; the limb-lexicographic order agrees with it -/
theorem limbs_order {x y : Limbs} (hx : x.wf) (hy : y.wf) :
    x.value < y.value ↔
      (x.l3 < y.l3 ∨ (x.l3 = y.l3 ∧ (x.l2 < y.l2 ∨ (x.l2 = y.l2 ∧ (x.l1 < y.l1 ∨ (x.l1 = y.l1 ∧ x.l0 < y.l0)))))) :=
  Halo.C08.limbs_order hx hy

example : Dec.mul (2 * E) (3 * E) = .ok (6 * E) := by decide
example : Dec.fromRatio 1 3 = .ok 333333333333333333 := by decide
example : u256.mul (2 ^ 128) (2 ^ 128) = .error .abort := by decide

end Halo.Props.C08
