/-
C20 over histories — "in every reachable pair state … whatever other actors did before".
After *any* history of external actors' operations on a world in which the pair satisfies `PairInv`
(established at creation, `Halo.Props.C03G.created_pair_inv`), a holder's withdrawal transaction of any
amount `1 ≤ a ≤` balance with the stated entitlement succeeds.  The 128-bit bounds are facts of the real
ledger (`Uint128` balances and supplies) that the unbounded model records as hypotheses.
`hvalid`: the holder's address is a valid one (the pair validates the cw20 sender of `WithdrawLiquidity`); validity is
a fact of the environment that no operation changes (`Halo.Props.C02V.badAddr_static_run`), so it is stated on the
initial world.
-/
import Halo.Proofs.C03G

namespace Halo.Props.C20W
open Halo

theorem withdraw_live_after_history {name : Asset → String} {p : Nat} {a0 a1 : Asset} {lp : Nat}
    (ops : List Op) (w : World) (hinv : PairInv w p a0 a1 lp) (hv : ValidRun name w ops)
    {h a : Nat} (hhp : h ≠ p) (hvalid : w.badAddr h = false) (ha1 : 1 ≤ a)
    (hab : a ≤ bal (run name w ops) (.token lp) h)
    (hr0 : bal (run name w ops) a0 p < W) (hr1 : bal (run name w ops) a1 p < W)
    (hSW : supply (run name w ops) lp < W)
    (hent0 : (bal (run name w ops) a0 p + 2 * E) * supply (run name w ops) lp ≤ bal (run name w ops) a0 p * a * E)
    (hent1 : (bal (run name w ops) a1 p + 2 * E) * supply (run name w ops) lp ≤ bal (run name w ops) a1 p * a * E) :
    ∃ w' x0 x1, exec name (run name w ops) (.tokSend lp h p a .withdraw) = .ok (w', .withdraw x0 x1) ∧
      2 ≤ x0 ∧ 2 ≤ x1 :=
  Halo.C03G.withdraw_live_after_history ops w hinv hv hhp hvalid ha1 hab hr0 hr1 hSW hent0 hent1

/-- the same from genesis: the pair was created by the factory, then anything happened -/
theorem withdraw_live_from_creation {name : Asset → String} {w w1 : World} {s : Nat} {f : List (Nat × Nat)}
    {a0 a1 : Asset} {req : Requirements} {c ld : Option Nat} {np nl : Nat} {out : Out}
    (hv : ValidOp w (.factory s f (.createPair a0 a1 req c ld np nl))) (hn : NewAddrs w np nl)
    (hc : exec name w (.factory s f (.createPair a0 a1 req c ld np nl)) = .ok (w1, out))
    (ops : List Op) (hvr : ValidRun name w1 ops)
    {h a : Nat} (hhp : h ≠ np) (hvalid : w.badAddr h = false) (ha1 : 1 ≤ a)
    (hab : a ≤ bal (run name w1 ops) (.token nl) h)
    (hr0 : bal (run name w1 ops) a0 np < W) (hr1 : bal (run name w1 ops) a1 np < W)
    (hSW : supply (run name w1 ops) nl < W)
    (hent0 : (bal (run name w1 ops) a0 np + 2 * E) * supply (run name w1 ops) nl ≤ bal (run name w1 ops) a0 np * a * E)
    (hent1 : (bal (run name w1 ops) a1 np + 2 * E) * supply (run name w1 ops) nl ≤ bal (run name w1 ops) a1 np * a * E) :
    ∃ w' x0 x1, exec name (run name w1 ops) (.tokSend nl h np a .withdraw) = .ok (w', .withdraw x0 x1) ∧
      2 ≤ x0 ∧ 2 ≤ x1 :=
  Halo.C03G.withdraw_live_from_creation hv hn hc ops hvr hhp hvalid ha1 hab hr0 hr1 hSW hent0 hent1

end Halo.Props.C20W
