/-
Non-vacuity witnesses: one concrete, realistic world on which the structured hypotheses of the main
world-level theorems (`RegOK`, `RawOK`, `PairInv`, `ValidOp`, `RouteOK`, the hypotheses of
`withdraw_live`) hold, and on which those theorems are instantiated to concrete consequences.
-/
import Halo.Props.C02
import Halo.Props.C03W
import Halo.Props.C13W
import Halo.Props.C16W
import Halo.Props.C16R
import Halo.Props.C20
import Halo.Props.C03G
import Halo.Props.C20W

namespace Halo.Props.Examples
open Halo

/-! ### the world -/

def rawId0 : Asset → Bytes
  | .native d => [110, d + 2]
  | .token t => [116, t + 2]

def noReq : Requirements := { whitelist := [2, 3], min0 := 0, min1 := 0 }

def tok8 : Token :=
  { bal := fun a =>
      if a = 1 then 5000000 else if a = 2 then 3000000 else if a = 3 then 1000000
      else if a = 11 then 2000000 else if a = 13 then 1000000 else 0
    allow := fun _ _ => none
    supply := 12000000
    minter := some 0
    decimals := 6 }

def tok9 : Token :=
  { bal := fun a => if a = 1 then 100 else if a = 2 then 200 else 0
    allow := fun _ _ => none
    supply := 300
    minter := some 0
    decimals := 8 }

/-- LP token of pair 11: the reserved unit sits at the token's own address -/
def lp12 : Token :=
  { bal := fun a => if a = 12 then 1 else if a = 2 then 1000000 else if a = 3 then 414212 else 0
    allow := fun _ _ => none
    supply := 1414213
    minter := some 11
    decimals := 6 }

/-- LP token of pair 13 -/
def lp14 : Token :=
  { bal := fun a => if a = 14 then 1 else if a = 3 then 1414212 else 0
    allow := fun _ _ => none
    supply := 1414213
    minter := some 13
    decimals := 6 }

def pair11 : PairSt :=
  { a0 := .native 0, a1 := .token 8, d0 := 6, d1 := 6, lp := 12, comm := defaultCommission,
    req := noReq, factory := 6 }

def pair13 : PairSt :=
  { a0 := .token 8, a1 := .native 1, d0 := 6, d1 := 6, lp := 14, comm := defaultCommission,
    req := noReq, factory := 6 }

def rec11 : Record :=
  { a0 := .native 0, a1 := .token 8, pair := 11, lp := 12, d0 := 6, d1 := 6, req := noReq,
    comm := defaultCommission }

def rec13 : Record :=
  { a0 := .token 8, a1 := .native 1, pair := 13, lp := 14, d0 := 6, d1 := 6, req := noReq,
    comm := defaultCommission }

def bank0 : Nat → Nat → Nat := fun a d =>
  if a = 1 ∨ a = 2 ∨ a = 3 then (if d = 0 ∨ d = 1 then 10000000 else 0)
  else if a = 11 then (if d = 0 then 1000000 else 0)
  else if a = 13 then (if d = 1 then 2000000 else 0)
  else 0

/-- owner 0, users 1 2 3, factory 6, router 7, cw20 tokens 8 9, pair 11 (native 0 / token 8, LP 12),
pair 13 (token 8 / native 1, LP 14) -/
def w0 : World :=
  { bank := bank0
    tok := fun a =>
      if a = 8 then some tok8 else if a = 9 then some tok9
      else if a = 12 then some lp12 else if a = 14 then some lp14 else none
    pair := fun a => if a = 11 then some pair11 else if a = 13 then some pair13 else none
    facAddr := 6
    owner := 0
    denoms := fun d => if d = 0 ∨ d = 1 then some 6 else none
    registry :=
      regInsert (pairKey (rawId0 (.token 8)) (rawId0 (.native 1))) rec13
        (regInsert (pairKey (rawId0 (.native 0)) (rawId0 (.token 8))) rec11 [])
    rawId := rawId0
    router := 7 }

/-- the same world with the router holding 5000 of native 0 (and nothing else) -/
def w1 : World :=
  { w0 with bank := fun a d => if a = 7 then (if d = 0 then 5000 else 0) else bank0 a d }

def name0 : Asset → String := fun _ => ""

/-! ### generic helpers -/

def isOk {α} : M α → Bool
  | .ok _ => true
  | .error _ => false

theorem exists_of_isOk {α} {x : M α} (h : isOk x = true) : ∃ v, x = .ok v := by
  cases x with
  | ok v => exact ⟨v, rfl⟩
  | error e => cases h

theorem exists_pair_of_isOk {α β} {x : M (α × β)} (h : isOk x = true) : ∃ a b, x = .ok (a, b) := by
  obtain ⟨⟨a, b⟩, hv⟩ := exists_of_isOk h
  exact ⟨a, b, hv⟩

/-! ### 1. the registry invariant and the raw identifiers -/

def key11 : Bytes := [0, 0, 0, 2, 110, 2, 116, 10]
def key13 : Bytes := [0, 0, 0, 2, 110, 3, 116, 10]

theorem registry_eq : w0.registry = [(key11, rec11), (key13, rec13)] := rfl

theorem rawOK_w0 : RawOK w0 where
  inj := by
    intro a b _ _ h
    cases a <;> cases b <;> simp [w0, rawId0] at h ⊢ <;> omega
  short := by
    intro a
    cases a <;> simp [w0, rawId0]

theorem regOK_w0 : RegOK w0 where
  sorted := by rw [registry_eq]; decide
  keyed := by
    rw [registry_eq]; intro e he
    simp at he
    rcases he with rfl | rfl <;> rfl
  matched := by
    rw [registry_eq]; intro e he
    simp at he
    rcases he with rfl | rfl
    · exact ⟨pair11, rfl, rfl, rfl, rfl, rfl, rfl, rfl, rfl, rfl⟩
    · exact ⟨pair13, rfl, rfl, rfl, rfl, rfl, rfl, rfl, rfl, rfl⟩
  distinctPairs := by rw [registry_eq]; decide
  distinctAssets := by
    rw [registry_eq]; intro e he
    simp at he
    rcases he with rfl | rfl <;> decide
  denomsKnown := by
    rw [registry_eq]; intro e he d hd
    simp at he
    rcases he with rfl | rfl
    · simp [rec11] at hd; subst hd; rfl
    · simp [rec13] at hd; subst hd; rfl
  live := by
    rw [registry_eq]; intro e he
    simp at he
    rcases he with rfl | rfl <;> decide

/-! ### 1b. an aliased identifier: why `RawOK` speaks about live assets only

`wA` is `w0` in an environment where the identifier `token 108` — think of the upper-case spelling of the address of
the cw20 contract `token 8` — canonicalises to the raw identifier of `token 8`.  It is not a contract (`¬ Live`).
`rawId` is not injective there, so the former `RawOK` (injectivity on all identifiers) fails; the present one holds,
and so does `RegOK`.  A lookup with the alias returns the record of the live pair, which is not over the queried
identifiers: the former conclusion of `lookup_sound` needs the queried assets to be live. -/

def rawIdA : Asset → Bytes := fun a => if a = .token 108 then rawId0 (.token 8) else rawId0 a

def wA : World := { w0 with rawId := rawIdA }

theorem alias_not_live : ¬ Live wA (.token 108) := by decide

theorem alias_same_raw : wA.rawId (.token 108) = wA.rawId (.token 8) ∧ Live wA (.token 8) := by decide

/-- the former `RawOK.inj` fails in `wA` … -/
theorem old_inj_fails_wA : ¬ ∀ a b, wA.rawId a = wA.rawId b → a = b := by
  intro h
  exact absurd (h (.token 108) (.token 8) alias_same_raw.1) (by decide)

/-- … the present `RawOK` holds -/
theorem rawOK_wA : RawOK wA where
  inj := by
    intro a b la lb h
    have ha : a ≠ .token 108 := by rintro rfl; exact alias_not_live la
    have hb : b ≠ .token 108 := by rintro rfl; exact alias_not_live lb
    simp only [wA, rawIdA, if_neg ha, if_neg hb] at h
    exact rawOK_w0.inj a b la lb h
  short := by
    intro a
    by_cases ha : a = .token 108
    · simp [wA, rawIdA, ha, rawId0]
    · simp only [wA, rawIdA, if_neg ha]; exact rawOK_w0.short a

theorem registry_eq_A : wA.registry = [(key11, rec11), (key13, rec13)] := rfl

theorem regOK_wA : RegOK wA where
  sorted := by rw [registry_eq_A]; decide
  keyed := by
    rw [registry_eq_A]; intro e he
    simp at he
    rcases he with rfl | rfl <;> rfl
  matched := by
    rw [registry_eq_A]; intro e he
    simp at he
    rcases he with rfl | rfl
    · exact ⟨pair11, rfl, rfl, rfl, rfl, rfl, rfl, rfl, rfl, rfl⟩
    · exact ⟨pair13, rfl, rfl, rfl, rfl, rfl, rfl, rfl, rfl, rfl⟩
  distinctPairs := by rw [registry_eq_A]; decide
  distinctAssets := by
    rw [registry_eq_A]; intro e he
    simp at he
    rcases he with rfl | rfl <;> decide
  denomsKnown := regOK_w0.denomsKnown
  live := regOK_w0.live

/-- the alias is looked up as the live token (instance of `C16W.lookup_by_raw`) … -/
theorem alias_lookup : facLookup wA (.native 0) (.token 108) = some rec11 := by
  rw [Halo.Props.C16W.lookup_by_raw (w := wA) (a' := .native 0) (b' := .token 8) rfl alias_same_raw.1]
  rfl

/-- … so the record returned is NOT over the queried identifiers (the former conclusion of `lookup_sound` fails for a
non-live query) — it is over their raw identifiers, and over live assets (instances of `C16W.lookup_sound`,
`C16W.lookup_live`) -/
theorem alias_lookup_not_old :
    ¬ ((rec11.a0 = .native 0 ∧ rec11.a1 = .token 108) ∨ (rec11.a0 = .token 108 ∧ rec11.a1 = .native 0)) := by decide

theorem alias_lookup_sound :
    (wA.rawId rec11.a0 = wA.rawId (.native 0) ∧ wA.rawId rec11.a1 = wA.rawId (.token 108)) ∧
    Live wA rec11.a0 ∧ Live wA rec11.a1 := by
  obtain ⟨hraw, _⟩ := Halo.Props.C16W.lookup_sound regOK_wA rawOK_wA alias_lookup
  obtain ⟨l0, l1, _⟩ := Halo.Props.C16W.lookup_live regOK_wA alias_lookup
  refine ⟨?_, l0, l1⟩
  rcases hraw with h | ⟨h, _⟩
  · exact h
  · exact absurd h (by decide)

/-- with live query assets the lookup theorem gives the assets themselves -/
theorem live_lookup_sound {R : Record} (h : facLookup wA (.token 8) (.native 0) = some R) :
    (R.a0 = .token 8 ∧ R.a1 = .native 0) ∨ (R.a0 = .native 0 ∧ R.a1 = .token 8) :=
  (Halo.Props.C16W.lookup_sound regOK_wA rawOK_wA h).2 (by decide) (by decide)

/-! ### cw20 conservation for a concrete token

A balance function that vanishes outside an explicit finite list `S` sums, over any duplicate-free
list of accounts, to at most its sum over `S`. -/

theorem sum_le_zeroed (f : Nat → Nat) (s : Nat) : ∀ L : List Nat, L.Nodup →
    (L.map f).sum ≤ f s + (L.map (fun a => if a = s then 0 else f a)).sum
  | [], _ => by simp
  | x :: L, h => by
    have hn := List.nodup_cons.mp h
    have ih := sum_le_zeroed f s L hn.2
    by_cases hx : x = s
    · subst hx
      have hm : L.map (fun a => if a = x then 0 else f a) = L.map f :=
        List.map_congr_left (fun a ha => by
          have hax : a ≠ x := fun e => hn.1 (e ▸ ha)
          simp [hax])
      simp [hm]
    · simp [hx]; omega

theorem sum_map_le {f g : Nat → Nat} (h : ∀ a, g a ≤ f a) : ∀ S : List Nat, (S.map g).sum ≤ (S.map f).sum
  | [] => by simp
  | x :: S => by
    have := sum_map_le h S
    have := h x
    simp; omega

theorem sum_le_support : ∀ (S : List Nat) (f : Nat → Nat), (∀ a, a ∉ S → f a = 0) →
    ∀ L : List Nat, L.Nodup → (L.map f).sum ≤ (S.map f).sum
  | [], f, h, L, _ => by
    have hm : L.map f = L.map (fun _ => 0) := List.map_congr_left (fun a _ => h a (by simp))
    simp [hm]
  | s :: S, f, h, L, hL => by
    have hg : ∀ a, a ∉ S → (fun a => if a = s then 0 else f a) a = 0 := by
      intro a ha
      by_cases has : a = s
      · simp [has]
      · simp [has]; exact h a (by simp [has, ha])
    have ih := sum_le_support S _ hg L hL
    have h1 := sum_le_zeroed f s L hL
    have h2 : (S.map (fun a => if a = s then 0 else f a)).sum ≤ (S.map f).sum :=
      sum_map_le (fun a => by by_cases has : a = s <;> simp [has]) S
    simp; omega

theorem tokSumOK_lp12 : TokSumOK w0 12 := by
  intro L hL
  have h := sum_le_support [12, 2, 3] lp12.bal (by
    intro a ha
    simp at ha
    simp [lp12, ha]) L hL
  exact h

theorem tokSumOK_lp14 : TokSumOK w0 14 := by
  intro L hL
  have h := sum_le_support [14, 3] lp14.bal (by
    intro a ha
    simp at ha
    simp [lp14, ha]) L hL
  exact h

theorem tokSumOK_tok8 : TokSumOK w0 8 := by
  intro L hL
  have h := sum_le_support [1, 2, 3, 11, 13] tok8.bal (by
    intro a ha
    simp at ha
    simp [tok8, ha]) L hL
  exact h

theorem tokSumOK_tok9 : TokSumOK w0 9 := by
  intro L hL
  have h := sum_le_support [1, 2] tok9.bal (by
    intro a ha
    simp at ha
    simp [tok9, ha]) L hL
  exact h

/-! ### 2. the pair invariant -/

/-- nobody has granted any cw20 allowance in `w0` -/
theorem noAllow_w0 (t : Nat) (T : Token) (hT : w0.tok t = some T) (o s : Nat) : T.allow o s = none := by
  have h : (if t = 8 then some tok8 else if t = 9 then some tok9
      else if t = 12 then some lp12 else if t = 14 then some lp14 else none) = some T := hT
  split at h
  · injection h with h; subst h; rfl
  · split at h
    · injection h with h; subst h; rfl
    · split at h
      · injection h with h; subst h; rfl
      · split at h
        · injection h with h; subst h; rfl
        · cases h

theorem pairInv_11 : PairInv w0 11 (.native 0) (.token 8) 12 where
  pair := ⟨pair11, rfl, rfl, rfl, rfl⟩
  distinct := by decide
  notLp0 := by decide
  notLp1 := by decide
  lpLive := ⟨lp12, rfl, rfl⟩
  live0 := by intro t h; cases h
  live1 := by intro t h; cases h; rfl
  sumOK := tokSumOK_lp12
  reserved := by intro _; decide
  lpNoPair := rfl
  lpNotRouter := by decide
  pNotRouter := by decide
  noAllow := fun t T hT s => ⟨noAllow_w0 t T hT _ s, noAllow_w0 t T hT _ s⟩

theorem pairInv_13 : PairInv w0 13 (.token 8) (.native 1) 14 where
  pair := ⟨pair13, rfl, rfl, rfl, rfl⟩
  distinct := by decide
  notLp0 := by decide
  notLp1 := by decide
  lpLive := ⟨lp14, rfl, rfl⟩
  live0 := by intro t h; cases h; rfl
  live1 := by intro t h; cases h
  sumOK := tokSumOK_lp14
  reserved := by intro _; decide
  lpNoPair := rfl
  lpNotRouter := by decide
  pNotRouter := by decide
  noAllow := fun t T hT s => ⟨noAllow_w0 t T hT _ s, noAllow_w0 t T hT _ s⟩

/-! ### 6. actors and fresh addresses -/

theorem isActor_1 : IsActor w0 1 := by unfold IsActor; decide
theorem isActor_2 : IsActor w0 2 := by unfold IsActor; decide
theorem isActor_3 : IsActor w0 3 := by unfold IsActor; decide
theorem isActor_0 : IsActor w0 0 := by unfold IsActor; decide
/-- contracts are not actors -/
theorem not_isActor_11 : ¬ IsActor w0 11 := by unfold IsActor; decide
theorem not_isActor_7 : ¬ IsActor w0 7 := by unfold IsActor; decide

/-- an operation that is not a pair creation is trivially fresh -/
theorem freshOK_pairOp (w : World) (s p : Nat) (f : List (Nat × Nat)) (m : PairMsg) : FreshOK w (.pair s p f m) := by
  intro _ _ _ _ _ _ _ _ _ h; cases h

theorem freshOK_tokSend (w : World) (t s d a : Nat) (h : Hook) : FreshOK w (.tokSend t s d a h) := by
  intro _ _ _ _ _ _ _ _ _ h; cases h

/-- a pair creation at the unused addresses 15, 16 is fresh in `w0` (a non-trivial instance) -/
theorem freshOK_create :
    FreshOK w0 (.factory 0 [] (.createPair (.token 9) (.native 0) noReq none none 15 16)) := by
  intro s f a0 a1 req c ld np nl h
  cases h
  exact ⟨rfl, rfl, rfl⟩

/-- ... and that creation succeeds and preserves `RegOK` (instance of `C16W.regOK_step`) -/
theorem create_ok : ∃ w' out,
    exec name0 w0 (.factory 0 [] (.createPair (.token 9) (.native 0) noReq none none 15 16)) = .ok (w', out) ∧
    RegOK w' := by
  obtain ⟨w', out, h⟩ := exists_pair_of_isOk
    (x := exec name0 w0 (.factory 0 [] (.createPair (.token 9) (.native 0) noReq none none 15 16))) (by decide +kernel)
  refine ⟨w', out, h, Halo.Props.C16W.regOK_step regOK_w0 rawOK_w0 ?_ ?_ h⟩
  · intro s p f m h; cases h
  · intro s f a0 a1 req c ld np nl h; exact (freshOK_create s f a0 a1 req c ld np nl h).1

/-- the LP token address 16 carries a raw identifier no live asset carries: `RawFreshOK` holds for that creation, so it
preserves `RawOK` as well (instance of `C16R.rawOK_step`) -/
theorem rawFreshOK_create :
    Halo.Reach.RawFreshOK w0 (.factory 0 [] (.createPair (.token 9) (.native 0) noReq none none 15 16)) := by
  rw [Halo.Props.C16R.rawFreshOK_createPair]
  intro a _ hne h
  cases a with
  | native d => simp [w0, rawId0] at h
  | token t => simp [w0, rawId0] at h hne; omega

theorem create_keeps_rawOK {w' : World} {out : Out}
    (h : exec name0 w0 (.factory 0 [] (.createPair (.token 9) (.native 0) noReq none none 15 16)) = .ok (w', out)) :
    RawOK w' :=
  Halo.Props.C16R.rawOK_step rawOK_w0 rawFreshOK_create h

/-- the hypotheses of the genesis theorem `C03G.created_pair_inv` are met by that creation: the owner (account 0) is an
external actor, the addresses 15 / 16 are fresh and allocated as the environment does, and the creation succeeds — so
the new pair satisfies `PairInv` with zero supply -/
theorem create_establishes_inv : ∃ w', PairInv w' 15 (.token 9) (.native 0) 16 ∧ supply w' 16 = 0 := by
  obtain ⟨w', out, h⟩ := exists_pair_of_isOk
    (x := exec name0 w0 (.factory 0 [] (.createPair (.token 9) (.native 0) noReq none none 15 16))) (by decide +kernel)
  have hv : ValidOp w0 (.factory 0 [] (.createPair (.token 9) (.native 0) noReq none none 15 16)) :=
    { actor := isActor_0, fresh := freshOK_create, coins := by decide }
  have hn : NewAddrs w0 15 16 :=
    { ne := by decide, pairFree := rfl, npNotRouter := by decide, nlNotRouter := by decide
      noAllow := fun t T hT s => ⟨noAllow_w0 t T hT _ s, noAllow_w0 t T hT _ s⟩ }
  exact ⟨w', Halo.Props.C03G.created_pair_inv hv hn h⟩

/-! ### 3. a direct swap on pair 11 -/

def op1 : Op := .pair 1 11 [(0, 1000)] (.swap (.native 0) 1000 none none none)

theorem validOp_op1 : ValidOp w0 op1 where
  actor := isActor_1
  fresh := freshOK_pairOp _ _ _ _ _
  coins := by decide

theorem op1_ok : ∃ w' out, exec name0 w0 op1 = .ok (w', out) :=
  exists_pair_of_isOk (by decide +kernel)

theorem op1_swaps : swapsOn w0 op1 = [(11, 1000000, 2000000, 1000)] := by decide +kernel

theorem op1_not_windowed : ¬ WindowedOn w0 op1 11 := by
  unfold WindowedOn
  rw [op1_swaps]
  decide +kernel

/-- `C03W.step_nondecr` applies: the invariant is preserved and the share value does not decrease -/
theorem op1_nondecr {w' : World} {out : Out} (h : exec name0 w0 op1 = .ok (w', out)) :
    PairInv w' 11 (.native 0) (.token 8) 12 ∧
    NonDecr (viewOf w0 11 (.native 0) (.token 8) 12) (viewOf w' 11 (.native 0) (.token 8) 12) :=
  have hs := Halo.Props.C03W.step_nondecr pairInv_11 validOp_op1 h
  ⟨hs.1, hs.2.resolve_right op1_not_windowed⟩

def swapOut? : M (World × Out) → Option SwapOut
  | .ok (_, .swap o) => some o
  | _ => none

theorem exists_of_swapOut {x : M (World × Out)} {o : SwapOut} (h : swapOut? x = some o) :
    ∃ w', x = .ok (w', .swap o) := by
  match x, h with
  | .ok (w', .swap o'), h => exact ⟨w', by cases h; rfl⟩

/-- what the swap reports -/
def out1 : SwapOut := { offer := 1000, ret := 1993, spread := 2, comm := 5, ask := .token 8 }

theorem op1_out : swapOut? (exec name0 w0 op1) = some out1 := by decide +kernel

/-- `C02.swap_native_effect` instantiated on `op1`, with the `attach` step resolved by
`C02.attach_single_effect`: exactly 1000 of native 0 moves from user 1 to the pair, exactly the reported
1993 of token 8 moves from the pair to user 1, LP supplies are untouched, bystanders are untouched -/
theorem op1_effect : ∃ w', exec name0 w0 op1 = .ok (w', .swap out1) ∧
    bal w' (.native 0) 11 = 1001000 ∧ bal w' (.native 0) 1 = 9999000 ∧
    bal w' (.token 8) 11 = 1998007 ∧ bal w' (.token 8) 1 = 5001993 ∧
    supply w' 12 = 1414213 ∧ supply w' 8 = 12000000 ∧
    (∀ a z, z ≠ 11 → z ≠ 1 → bal w' a z = bal w0 a z) := by
  obtain ⟨w', h⟩ := exists_of_swapOut op1_out
  refine ⟨w', h, ?_⟩
  have h' : pairExec w0 1 11 [(0, 1000)] (.swap (.native 0) 1000 none none none) = .ok (w', .swap out1) := h
  obtain ⟨P, wa, _, hatt, _, _, _, _, _, _, hmove, hrest, hsup⟩ := Halo.Props.C02.swap_native_effect h'
  obtain ⟨_, _, hp, hs, hoth⟩ := Halo.Props.C02.attach_single_effect (by decide) hatt
  have hm := hmove (by decide)
  have hsa : ∀ t, supply wa t = supply w0 t := fun t => by unfold supply; rw [(attach_same hatt).2]
  have e1 : bal wa (.token 8) 11 = 2000000 := hoth _ _ (Or.inl (by decide))
  have e2 : bal wa (.token 8) 1 = 5000000 := hoth _ _ (Or.inl (by decide))
  refine ⟨?_, ?_, ?_, ?_, ?_, ?_, ?_⟩
  · rw [hrest _ _ (Or.inl (by decide)), hp]; rfl
  · rw [hrest _ _ (Or.inl (by decide)), hs]; rfl
  · have hm1 : bal w' (.token 8) 11 = bal wa (.token 8) 11 - 1993 := hm.1
    rw [hm1, e1]
  · have hm2 : bal w' (.token 8) 1 = bal wa (.token 8) 1 + 1993 := hm.2
    rw [hm2, e2]
  · rw [hsup, hsa]; rfl
  · rw [hsup, hsa]; rfl
  · intro a z hz1 hz2
    by_cases ha : a = out1.ask
    · rw [hrest a z (Or.inr ⟨hz1, hz2⟩), hoth a z (Or.inr ⟨hz1, hz2⟩)]
    · rw [hrest a z (Or.inl ha), hoth a z (Or.inr ⟨hz1, hz2⟩)]

/-- the concrete content of `op1_nondecr`: `1000000·2000000/S² ≤ 1001000·1998007/S²` -/
theorem op1_nondecr_concrete {w' : World} {out : Out} (h : exec name0 w0 op1 = .ok (w', out)) :
    (1000000 : Nat) * 2000000 * (supply w' 12 * supply w' 12) ≤
      bal w' (.native 0) 11 * bal w' (.token 8) 11 * (1414213 * 1414213) :=
  ((op1_nondecr h).2 (by decide)).2

/-! ### 4. withdrawing 1000 LP from pair 11 by user 2 -/

namespace Withdraw

theorem hP : w0.pair 11 = some pair11 := rfl
theorem hhp : (2 : Nat) ≠ 11 := by decide
theorem hne : pair11.a0 ≠ pair11.a1 := by decide
theorem hl0 : pair11.a0 ≠ .token pair11.lp := by decide
theorem hl1 : pair11.a1 ≠ .token pair11.lp := by decide
theorem hlp : (w0.tok pair11.lp).isSome := rfl
theorem ht0 : ∀ t, pair11.a0 = .token t → (w0.tok t).isSome := by intro t h; cases h
theorem ht1 : ∀ t, pair11.a1 = .token t → (w0.tok t).isSome := by intro t h; cases h; rfl
theorem ha1 : 1 ≤ 1000 := by decide
theorem hab : 1000 ≤ bal w0 (.token pair11.lp) 2 := by decide
/-- also a consequence of `TokSumOK` (`C20.tokSumOK_holder`) -/
theorem haS : 1000 ≤ supply w0 pair11.lp :=
  Nat.le_trans hab (Halo.Props.C20.tokSumOK_holder tokSumOK_lp12)
theorem hr0 : bal w0 pair11.a0 11 < W := by decide +kernel
theorem hr1 : bal w0 pair11.a1 11 < W := by decide +kernel
theorem hSW : supply w0 pair11.lp < W := by decide +kernel
theorem hent0 : (bal w0 pair11.a0 11 + 2 * E) * supply w0 pair11.lp ≤ bal w0 pair11.a0 11 * 1000 * E := by
  decide +kernel
theorem hent1 : (bal w0 pair11.a1 11 + 2 * E) * supply w0 pair11.lp ≤ bal w0 pair11.a1 11 * 1000 * E := by
  decide +kernel

/-- `C20.withdraw_live` applies -/
theorem send_ok : ∃ w' x0 x1, tokSendPair w0 12 2 11 1000 .withdraw = .ok (w', .withdraw x0 x1) ∧ 2 ≤ x0 ∧ 2 ≤ x1 :=
  Halo.Props.C20.withdraw_live hP hhp rfl hne hl0 hl1 hlp ht0 ht1 ha1 hab haS hr0 hr1 hSW hent0 hent1

def opW : Op := .tokSend 12 2 11 1000 .withdraw

theorem exec_eq : exec name0 w0 opW = tokSendPair w0 12 2 11 1000 .withdraw := rfl

/-- hence the transaction succeeds -/
theorem tx_ok : ∃ w' x0 x1, exec name0 w0 opW = .ok (w', .withdraw x0 x1) ∧ 2 ≤ x0 ∧ 2 ≤ x1 := by
  rw [exec_eq]; exact send_ok

theorem validOp_opW : ValidOp w0 opW where
  actor := isActor_2
  fresh := freshOK_tokSend _ _ _ _ _ _
  coins := by decide

theorem opW_not_windowed : ¬ WindowedOn w0 opW 11 := by
  unfold WindowedOn; decide +kernel

/-- `C03W.step_nondecr` applies to the withdrawal as well -/
theorem opW_nondecr {w' : World} {out : Out} (h : exec name0 w0 opW = .ok (w', out)) :
    PairInv w' 11 (.native 0) (.token 8) 12 ∧
    NonDecr (viewOf w0 11 (.native 0) (.token 8) 12) (viewOf w' 11 (.native 0) (.token 8) 12) :=
  have hs := Halo.Props.C03W.step_nondecr pairInv_11 validOp_opW h
  ⟨hs.1, hs.2.resolve_right opW_not_windowed⟩

end Withdraw

/-! ### a two-step history: the swap, then the withdrawal (`C03W.history_nondecr` applies) -/

def hist : List Op := [op1, Withdraw.opW]

theorem validRun_hist : ValidRun name0 w0 hist := by
  refine ⟨validOp_op1, ⟨?_, freshOK_tokSend _ _ _ _ _ _, by decide⟩, trivial⟩
  unfold IsActor; decide +kernel

theorem noWindow_hist : NoWindowRun name0 11 w0 hist := by
  refine ⟨op1_not_windowed, ?_, trivial⟩
  unfold WindowedOn; decide +kernel

theorem hist_nondecr :
    PairInv (run name0 w0 hist) 11 (.native 0) (.token 8) 12 ∧
    NonDecr (viewOf w0 11 (.native 0) (.token 8) 12) (viewOf (run name0 w0 hist) 11 (.native 0) (.token 8) 12) :=
  Halo.Props.C03W.history_nondecr hist w0 pairInv_11 validRun_hist noWindow_hist

/-- the history really changes the pair: both steps succeed (reserves and supply after it) -/
theorem hist_view : viewOf (run name0 w0 hist) 11 (.native 0) (.token 8) 12 = (1000293, 1996595, 1413213) := by
  decide +kernel

/-! ### 4b. a history in which third parties spend allowances (`TransferFrom` / `SendFrom` / `BurnFrom` /
`DecreaseAllowance` are operations of the universe: the history theorems quantify over them) -/

namespace Spend

/-- user 1 lets user 2 spend its token 8; user 2 swaps 5000 of them on pair 11 (and keeps the proceeds), moves 1000 to
user 3 and burns 500; user 2 lets user 3 spend its LP tokens, and user 3 withdraws 1000 of them (and is paid the
refunds); finally user 1 revokes what is left of the allowance -/
def ops : List Op :=
  [.tokIncAllow 8 1 2 10000,
   .tokSendFrom 8 2 1 11 5000 (.swap (.token 8) 5000 none none none),
   .tokTransferFrom 8 2 1 3 1000,
   .tokBurnFrom 8 2 1 500,
   .tokIncAllow 12 2 3 1000,
   .tokSendFrom 12 3 2 11 1000 .withdraw,
   .tokDecAllow 8 1 2 10000]

/-- an operation other than a factory message is trivially fresh -/
theorem freshOK_of (w : World) (op : Op) (h : ∀ s f m, op ≠ .factory s f m) : FreshOK w op := by
  intro s f a0 a1 req c ld np nl e
  exact absurd e (h _ _ _)

theorem validRun_ops : ValidRun name0 w0 ops := by
  refine ⟨⟨?_, freshOK_of _ _ (by intro _ _ _ e; cases e), by decide⟩,
    ⟨?_, freshOK_of _ _ (by intro _ _ _ e; cases e), by decide⟩,
    ⟨?_, freshOK_of _ _ (by intro _ _ _ e; cases e), by decide⟩,
    ⟨?_, freshOK_of _ _ (by intro _ _ _ e; cases e), by decide⟩,
    ⟨?_, freshOK_of _ _ (by intro _ _ _ e; cases e), by decide⟩,
    ⟨?_, freshOK_of _ _ (by intro _ _ _ e; cases e), by decide⟩,
    ⟨?_, freshOK_of _ _ (by intro _ _ _ e; cases e), by decide⟩, trivial⟩ <;>
  (unfold IsActor; decide +kernel)

theorem noWindow_ops : NoWindowRun name0 11 w0 ops := by
  refine ⟨?_, ?_, ?_, ?_, ?_, ?_, ?_, trivial⟩ <;> (unfold WindowedOn; decide +kernel)

/-- `C03W.history_nondecr` applies: the invariant (including "the pair and the LP address have granted no allowance")
holds at the end and the share value has not decreased -/
theorem ops_nondecr :
    PairInv (run name0 w0 ops) 11 (.native 0) (.token 8) 12 ∧
    NonDecr (viewOf w0 11 (.native 0) (.token 8) 12) (viewOf (run name0 w0 ops) 11 (.native 0) (.token 8) 12) :=
  Halo.Props.C03W.history_nondecr ops w0 pairInv_11 validRun_ops noWindow_ops

/-- every step of the history succeeds: the owner's tokens are spent (5000 + 1000 + 500), the SPENDERS are paid
(user 2 the swap's return, user 3 the refunds); the revoked allowance entry is gone at the end, the used-up one remains
with 0 -/
theorem ops_effect :
    bal (run name0 w0 ops) (.token 8) 1 = 5000000 - 6500 ∧
    bal (run name0 w0 ops) (.token 8) 3 = 1000000 + 1000 + 1417 ∧
    bal (run name0 w0 ops) (.native 0) 3 = 10000000 + 705 ∧
    bal (run name0 w0 ops) (.native 0) 2 = 10000000 + 2486 ∧
    bal (run name0 w0 ops) (.token 12) 2 = 1000000 - 1000 ∧
    supply (run name0 w0 ops) 8 = 12000000 - 500 ∧
    supply (run name0 w0 ops) 12 = 1414213 - 1000 ∧
    Halo.C07.allowOf (run name0 w0 ops) 8 1 2 = none ∧
    Halo.C07.allowOf (run name0 w0 ops) 12 2 3 = some 0 := by
  decide +kernel

end Spend

/-! ### 5. a two-hop route through both pairs -/

def route : List (Asset × Asset) := [(.native 0, .token 8), (.token 8, .native 1)]

theorem routeOK_w1 : Halo.C13W.RouteOK w1 2 route where
  resolves := by
    intro h hh
    simp [route] at hh
    rcases hh with rfl | rfl
    · exact ⟨rec11, pair11, rfl, rfl, Or.inl ⟨rfl, rfl⟩, by decide, by decide, by decide⟩
    · exact ⟨rec13, pair13, rfl, rfl, Or.inl ⟨rfl, rfl⟩, by decide, by decide, by decide⟩
  distinctPairs := by decide +kernel
  routerEmpty := by
    intro h hh b hb hne
    simp [route] at hh hne
    rcases hh with rfl | rfl <;> rcases hb with rfl | rfl
    · exact absurd rfl hne
    · rfl
    · rfl
    · rfl
  rcvNotRouter := by decide
  routerNoPair := rfl

theorem route_ok : ∃ w', routerHops w1 2 route = .ok w' := exists_of_isOk (by decide +kernel)

theorem route_quote : routerSimulateTop w1 5000 route = .ok 19589 := by decide +kernel

/-- `C13W.route_passthrough` instantiated on the actual result: user 2 receives exactly the quoted
19589 of native 1, the router ends with none of the route's assets, and user 2's balance of the
intermediate token 8 is unchanged -/
theorem route_effect : ∃ w', routerHops w1 2 route = .ok w' ∧
    bal w' (.native 1) 2 = 10019589 ∧
    bal w' (.native 0) 7 = 0 ∧ bal w' (.token 8) 7 = 0 ∧ bal w' (.native 1) 7 = 0 ∧
    bal w' (.token 8) 2 = 3000000 ∧ bal w' (.native 0) 2 = 10000000 := by
  obtain ⟨w', h⟩ := route_ok
  refine ⟨w', h, ?_⟩
  obtain ⟨target, n, htgt, hsim, hrcv, hrouter, hkeep, hinter⟩ :=
    Halo.Props.C13W.route_passthrough routeOK_w1 (by decide) h
  have ht : target = .native 1 := by
    have : some (Asset.native 1) = some target := htgt
    exact (Option.some.inj this).symm
  subst ht
  have hn : n = 19589 := by
    have e : routerSimulateTop w1 5000 route = .ok n := hsim
    rw [route_quote] at e
    exact (Except.ok.inj e).symm
  subst hn
  refine ⟨?_, ?_, ?_, ?_, ?_, ?_⟩
  · exact hrcv (.native 0) rfl (by decide)
  · exact hrouter (.native 0, .token 8) (by simp [route]) _ (Or.inl rfl) (by decide)
  · exact hrouter (.native 0, .token 8) (by simp [route]) _ (Or.inr rfl) (by decide)
  · exact hkeep
  · exact hinter _ (by decide)
  · exact hinter _ (by decide)

end Halo.Props.Examples
