/-
C05 — the reserved unit is reserved forever: once the LP supply of a pair is positive, after any history of
external actors' operations the LP token's own address still holds at least one unit, and the supply is still
positive.
-/
import Halo.Proofs.Reach

namespace Halo.Props.C05R
open Halo

theorem reserved_unit_forever {name : Asset → String} {p : Nat} {a0 a1 : Asset} {lp : Nat} (ops : List Op)
    (w : World) (hinv : PairInv w p a0 a1 lp) (hv : ValidRun name w ops) (hpos : 0 < supply w lp) :
    1 ≤ bal (run name w ops) (.token lp) lp ∧ 0 < supply (run name w ops) lp :=
  Halo.Reach.reserved_unit_forever ops w hinv hv hpos

end Halo.Props.C05R
