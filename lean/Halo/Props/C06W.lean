/-
C06 at system level — the commission rate that prices every swap of a pair is fixed at creation, is at most 1
for every pair the factory creates, and never changes; neither do the pair's assets, LP token, requirements and
factory (only its decimals can be rewritten, by the factory's `AddNativeTokenDecimals` fan-out).
`FreshRun` (Halo/Proofs/Reach.lean): every step satisfies `FreshOK`; `ValidRun` implies it.
-/
import Halo.Proofs.Reach

namespace Halo.Props.C06W
open Halo Halo.Reach

/-- one operation -/
theorem commission_fixed {name : Asset → String} {w w' : World} {op : Op} {out : Out} {p : Nat} {P : PairSt}
    (hf : FreshOK w op) (h : exec name w op = .ok (w', out)) (hP : w.pair p = some P) :
    ∃ P', w'.pair p = some P' ∧ P'.comm = P.comm ∧ P'.a0 = P.a0 ∧ P'.a1 = P.a1 ∧ P'.lp = P.lp ∧
      P'.req = P.req ∧ P'.factory = P.factory :=
  Halo.Reach.commission_fixed hf h hP

/-- any history -/
theorem commission_fixed_run {name : Asset → String} (ops : List Op) (w : World) (hf : FreshRun name w ops)
    {p : Nat} {P : PairSt} (hP : w.pair p = some P) :
    ∃ P', (run name w ops).pair p = some P' ∧ P'.comm = P.comm ∧ P'.a0 = P.a0 ∧ P'.a1 = P.a1 ∧ P'.lp = P.lp ∧
      P'.req = P.req ∧ P'.factory = P.factory :=
  Halo.Reach.commission_fixed_run ops w hf hP

theorem freshRun_of_validRun {name : Asset → String} (ops : List Op) (w : World) (h : ValidRun name w ops) :
    FreshRun name w ops :=
  Halo.Reach.freshRun_of_validRun ops w h

/-- a pair created by the factory charges the requested rate (default 0.3%), which is at most 1 -/
theorem commission_le_one {w w' : World} {s : Nat} {a0 a1 : Asset} {req : Requirements} {comm lpDec : Option Nat}
    {np nl : Nat} (h : facCreatePair w s a0 a1 req comm lpDec np nl = .ok w') :
    ∃ P, w'.pair np = some P ∧ P.comm = comm.getD defaultCommission ∧ P.comm ≤ E :=
  Halo.Reach.commission_le_one h

/-- … and so in every later state (so `C06.computeSwap_spec`'s hypothesis `c ≤ E` holds for every swap on it) -/
theorem commission_le_one_forever {name : Asset → String} {w w' : World} {s : Nat} {a0 a1 : Asset}
    {req : Requirements} {comm lpDec : Option Nat} {np nl : Nat}
    (h : facCreatePair w s a0 a1 req comm lpDec np nl = .ok w') (ops : List Op) (hf : FreshRun name w' ops) :
    ∃ P, (run name w' ops).pair np = some P ∧ P.comm = comm.getD defaultCommission ∧ P.comm ≤ E ∧
      P.a0 = a0 ∧ P.a1 = a1 ∧ P.lp = nl :=
  Halo.Reach.commission_le_one_forever h ops hf

end Halo.Props.C06W
