/-
C06 — swap output is the constant-product price less commission, within one unit.
-/
import Halo.Proofs.C01
import Halo.Proofs.C06M

namespace Halo.Props.C06
open Halo

/-- commission = ⌊c·gross⌋, return + commission + spread = ⌊a·y/x⌋, and
`g(1−γ) − 1 < n < g(1−γ) + 1` with `g = y·a/(x+a)`, `γ = c/10^18` (cross-multiplied in `Spec.c06`) -/
theorem computeSwap_spec {x y a c n s k : Nat}
    (h : computeSwap x y a c = .ok (n, s, k)) (hc : c ≤ E) :
    Spec.c06 x y a c n s k = true :=
  Halo.C01.c06_of_ok h hc

/-- the output never decreases when the offer grows -/
theorem computeSwap_mono {x y a a' c n s k n' s' k' : Nat}
    (h : computeSwap x y a c = .ok (n, s, k)) (h' : computeSwap x y a' c = .ok (n', s', k'))
    (hc : c ≤ E) (ha : a ≤ a') : n ≤ n' :=
  Halo.C01.mono h h' hc ha

/-- the output never decreases when the ask reserve is deeper (same offer reserve, offer and rate) -/
theorem computeSwap_mono_ask {x y y' a c n s k n' s' k' : Nat}
    (h : computeSwap x y a c = .ok (n, s, k)) (h' : computeSwap x y' a c = .ok (n', s', k'))
    (hc : c ≤ E) (hy : y ≤ y') : n ≤ n' :=
  Halo.C01.mono_ask h h' hc hy

/-- non-vacuity of `computeSwap_mono_ask`: a deeper ask reserve, a strictly larger output -/
example : computeSwap 1000000 2000000 1000 3000000000000000 = .ok (1993, 2, 5) ∧
    computeSwap 1000000 3000000 1000 3000000000000000 = .ok (2989, 3, 8) := by decide

/-- the three results always fit the 128-bit return type and the commission never exceeds the gross -/
theorem computeSwap_range {x y a c n s k : Nat}
    (h : computeSwap x y a c = .ok (n, s, k)) : n < W ∧ s < W ∧ k < W :=
  Halo.C01.range h

/-- success is characterised exactly: `compute_swap` aborts only when the offer reserve is zero, an
intermediate product leaves 256 bits, the ideal output is below the gross output (only possible in
the window), the commission exceeds the gross output (only possible for rates above 1), or a
result leaves 128 bits -/
theorem computeSwap_ok_iff {x y a c : Nat} (hx : x < W) (hy : y < W) (ha : a < W) :
    (∃ r, computeSwap x y a c = .ok r) ↔
      x ≠ 0 ∧ x * y * E < U ∧ y * a * E < U ∧
      (let G := (y * a * E + x * y * E % (x + a)) / ((x + a) * E)
       G ≤ y * a / x ∧ G * c < U ∧ G * c / E ≤ G ∧ y * a / x - G < W ∧ G - G * c / E < W ∧ G * c / E < W) :=
  Halo.C01.ok_iff hx hy ha

example : computeSwap 1000000 2000000 1000 3000000000000000 = .ok (1993, 2, 5) := by decide

end Halo.Props.C06
