/-
C13 — router is a pure pass-through and delivers what it quoted.
Proved: the exact meaning of the route-shape check, the rejection of empty and multi-output routes,
the single-hop pass-through theorem (recipient receives exactly the router's quote; the input is consumed
entirely; the router keeps nothing), and the general fact that every hop spends the router's whole
balance of its offer asset.  The multi-hop induction is in Halo/Props/C13W.lean.
-/
import Halo.Proofs.C13

namespace Halo.Props.C13
open Halo

/-- what `assert_operations` computes: the asks that are produced and never consumed by a later hop -/
theorem mem_danglingAsks {ops : List (String × String)} {x : String} :
    x ∈ danglingAsks ops ↔ ∃ i : Fin ops.length, (ops.get i).2 = x ∧ ∀ j : Fin ops.length, i < j → (ops.get j).1 ≠ x :=
  Halo.C13.mem_danglingAsks

theorem danglingAsks_nodup (ops : List (String × String)) : (danglingAsks ops).Nodup :=
  Halo.C13.danglingAsks_nodup ops

/-- the check accepts exactly the routes with one dangling output asset (by text) -/
theorem assertOperations_iff (ops : List (String × String)) :
    assertOperations ops = .ok () ↔ (danglingAsks ops).length = 1 := Halo.C13.assertOperations_iff ops

/-- empty routes and routes leaving two dangling outputs are rejected -/
theorem empty_rejected : assertOperations [] = .error .err := by decide
theorem two_outputs_rejected {o1 a1 o2 a2 : String} (h1 : a1 ≠ o2) (h2 : a1 ≠ a2) :
    assertOperations [(o1, a1), (o2, a2)] = .error .err := Halo.C13.two_outputs_rejected h1 h2
/-- a proper chain is accepted -/
theorem chain2_accepted {a b c : String} (h : b ≠ c) : assertOperations [(a, b), (b, c)] = .ok () :=
  Halo.C13.chain2_accepted h

/-- every hop offers the router's entire balance of the hop's offer asset (a hop whose offer asset the
router does not hold is rejected), and nothing of it is left afterwards -/
theorem hop_spends_whole_balance {w w' : World} {o a : Asset} {to : Option Nat}
    (h : routerHop w w.router o a to = .ok w') :
    ∃ R P, facLookup w o a = some R ∧ w.pair R.pair = some P ∧ bal w o w.router ≠ 0 ∧
      (R.pair ≠ w.router → P.a0 ≠ P.a1 → bal w' o w.router = 0) :=
  Halo.C13.hop_spends_whole_balance h

/-- single hop: the recipient receives exactly the amount the router's simulation quotes for the
router's input balance in the same state; all of the input is consumed; only the final asset reaches
the recipient -/
theorem single_hop_passthrough {name : Asset → String} {w w' : World} {sender : Nat} {o a : Asset}
    {mn to : Option Nat} {R : Record} {P : PairSt}
    (hR : facLookup w o a = some R) (hP : w.pair R.pair = some P)
    (hPa : (P.a0 = o ∧ P.a1 = a) ∨ (P.a0 = a ∧ P.a1 = o))   -- from the registry invariant: Halo.Props.C16W.lookup_sound
    (hne : P.a0 ≠ P.a1) (hoa : o ≠ a)
    (hpr : R.pair ≠ w.router) (hrcv1 : to.getD sender ≠ w.router) (hrcv2 : to.getD sender ≠ R.pair)
    (h : routerSwapOps name w sender [(o, a)] mn to = .ok w') :
    ∃ n, routerSimulateTop w (bal w o w.router) [(o, a)] = .ok n ∧
      bal w' a (to.getD sender) = bal w a (to.getD sender) + n ∧
      bal w' o w.router = 0 ∧ bal w' a w.router = bal w a w.router ∧
      (∀ b, b ≠ a → bal w' b (to.getD sender) = bal w b (to.getD sender)) :=
  Halo.C13.single_hop_passthrough' hR hP hPa hne hoa hpr hrcv1 hrcv2 h

end Halo.Props.C13
