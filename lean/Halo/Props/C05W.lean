/-
C05 at system level: the effect of a provision.
`w0` is the world at handler entry (attached native deposits credited).
-/
import Halo.Proofs.Liquidity

namespace Halo.Props.C05W
open Halo

/-- a successful provision on a pair with positive supply: mints `m ≥ 1` within the fair bracket of the
reserves net of the caller's native deposit, to the chosen receiver; pulls exactly the declared cw20
deposits from the caller's own allowance; native deposits equal the attached funds -/
theorem provide_effect_pos {w0 w' : World} {p : Nat} {P : PairSt} {s : Nat} {funds : List (Nat × Nat)}
    {as0 as1 : Asset} {am0 am1 : Nat} {tol rcv : Option Nat} {m : Nat}
    (hsp : s ≠ p) (hne : P.a0 ≠ P.a1) (hl0 : P.a0 ≠ .token P.lp) (hl1 : P.a1 ≠ .token P.lp)
    (hS : supply w0 P.lp ≠ 0)
    (h : pairProvide w0 p P s funds as0 am0 as1 am1 tol rcv = .ok (w', m)) :
    ∃ d0 d1,
      ((as0 = P.a0 ∧ d0 = am0) ∨ (as0 ≠ P.a0 ∧ as1 = P.a0 ∧ d0 = am1)) ∧
      ((as0 = P.a1 ∧ d1 = am0) ∨ (as0 ≠ P.a1 ∧ as1 = P.a1 ∧ d1 = am1)) ∧
      -- natives: declared = attached, already in the pair at entry; tokens: pulled now
      (∀ d, P.a0 = .native d → Spec.c09 d d0 funds = true ∧ bal w' P.a0 p = bal w0 P.a0 p) ∧
      (∀ d, P.a1 = .native d → Spec.c09 d d1 funds = true ∧ bal w' P.a1 p = bal w0 P.a1 p) ∧
      (∀ t, P.a0 = .token t → bal w' P.a0 p = bal w0 P.a0 p + d0 ∧ bal w' P.a0 s + d0 = bal w0 P.a0 s) ∧
      (∀ t, P.a1 = .token t → bal w' P.a1 p = bal w0 P.a1 p + d1 ∧ bal w' P.a1 s + d1 = bal w0 P.a1 s) ∧
      -- the share
      1 ≤ m ∧
      Spec.c05Pos (supply w0 P.lp) d0 d1
        (match P.a0 with | .native _ => bal w0 P.a0 p - d0 | .token _ => bal w0 P.a0 p)
        (match P.a1 with | .native _ => bal w0 P.a1 p - d1 | .token _ => bal w0 P.a1 p) m = true ∧
      supply w' P.lp = supply w0 P.lp + m ∧
      bal w' (.token P.lp) (rcv.getD s) = bal w0 (.token P.lp) (rcv.getD s) + m ∧
      -- nobody else
      (∀ b z, z ≠ s → z ≠ p → z ≠ rcv.getD s → bal w' b z = bal w0 b z) :=
  Halo.Liquidity.provide_effect_pos hsp hne hl0 hl1 hS h

/-- on an empty pair only a whitelisted caller meeting both minimums can provide; the supply becomes
`⌊√(d0·d1)⌋`, of which exactly one unit is minted to the LP token's own address -/
theorem provide_effect_empty {w0 w' : World} {p : Nat} {P : PairSt} {s : Nat} {funds : List (Nat × Nat)}
    {as0 as1 : Asset} {am0 am1 : Nat} {tol rcv : Option Nat} {m : Nat}
    (hl0 : P.a0 ≠ .token P.lp) (hl1 : P.a1 ≠ .token P.lp) (hrl : rcv.getD s ≠ P.lp)
    (hS : supply w0 P.lp = 0)
    (h : pairProvide w0 p P s funds as0 am0 as1 am1 tol rcv = .ok (w', m)) :
    ∃ d0 d1,
      ((as0 = P.a0 ∧ d0 = am0) ∨ (as0 ≠ P.a0 ∧ as1 = P.a0 ∧ d0 = am1)) ∧
      ((as0 = P.a1 ∧ d1 = am0) ∨ (as0 ≠ P.a1 ∧ as1 = P.a1 ∧ d1 = am1)) ∧
      Spec.c05Empty s P.req d0 d1 (m + 1) = true ∧ 1 ≤ m ∧
      supply w' P.lp = m + 1 ∧
      bal w' (.token P.lp) P.lp = bal w0 (.token P.lp) P.lp + 1 ∧
      bal w' (.token P.lp) (rcv.getD s) = bal w0 (.token P.lp) (rcv.getD s) + m :=
  Halo.Liquidity.provide_effect_empty hl0 hl1 hrl hS h

/-- the reserved unit can never be spent: no operation submitted by anyone but the LP token address
itself (a contract address, which originates no operations) lowers that address' own LP balance -/
theorem reserved_unit_unspendable {name : Asset → String} {w w' : World} {op : Op} {out : Out} {p : Nat} {P : PairSt}
    (hP : w.pair p = some P) (hlpp : (w.pair P.lp).isNone) (hlr : P.lp ≠ w.router)
    (hnoallow : ∀ T, w.tok P.lp = some T → ∀ s, T.allow P.lp s = none)
    (hact : actorOf op ≠ P.lp) (hf : FreshOK w op)
    (h : exec name w op = .ok (w', out)) :
    bal w (.token P.lp) P.lp ≤ bal w' (.token P.lp) P.lp :=
  Halo.Liquidity.reserved_unit_unspendable hP hlpp hlr hnoallow hact hf h

end Halo.Props.C05W
