/-
C16 — factory registry: one pair per unordered asset set (pure part: the registry key).
The registry invariant over all factory histories and its consequences are in Halo/Props/C16W.lean.
-/
import Halo.Proofs.C19

namespace Halo.Props.C16
open Halo

/-- the key does not depend on the order of the two assets -/
theorem pairKey_comm (a b : Bytes) : pairKey a b = pairKey b a := Halo.C19.pairKey_comm a b

/-- two different unordered identifier sets never share a key (identifiers shorter than 2^32 bytes) -/
theorem pairKey_inj {a b c d : Bytes} (ha : a.length < 2 ^ 32) (hb : b.length < 2 ^ 32)
    (hc : c.length < 2 ^ 32) (hd : d.length < 2 ^ 32) (h : pairKey a b = pairKey c d) :
    (a = c ∧ b = d) ∨ (a = d ∧ b = c) := Halo.C19.pairKey_inj ha hb hc hd h

/-- the key format of the pinned commit was not injective: {uaura, uusd} and {uaurau, usd} collide (defect D3) -/
theorem pairKeyOld_collision :
    pairKeyOld [117, 97, 117, 114, 97] [117, 117, 115, 100] = pairKeyOld [117, 97, 117, 114, 97, 117] [117, 115, 100] ∧
    pairKey [117, 97, 117, 114, 97] [117, 117, 115, 100] ≠ pairKey [117, 97, 117, 114, 97, 117] [117, 115, 100] := by decide

/-- lookup after insertion: the inserted key resolves to the inserted record, every other key is unaffected -/
theorem regLookup_insert_self {α} (k : Bytes) (v : α) (reg : List (Bytes × α))
    (hs : reg.Pairwise (fun e f => e.1 < f.1)) : regLookup k (regInsert k v reg) = some v :=
  Halo.C19.regLookup_insert_self k v reg hs
theorem regLookup_insert_other {α} (k k' : Bytes) (v : α) (reg : List (Bytes × α)) (hne : k' ≠ k) :
    regLookup k' (regInsert k v reg) = regLookup k' reg :=
  Halo.C19.regLookup_insert_other k k' v reg hne

end Halo.Props.C16
