/-
C12X — the reverse formula `compute_offer_amount` on EVERY successful call (no `Spec.c12Domain`
hypothesis), and the band in which the code succeeds although the documented real closed form
`x·y/(y − ask/(1−γ)) − x` is undefined.

The code subtracts from `y` the ROUNDED quantity `qR b c = ⌊b·⌊E²/(E−c)⌋/E⌋` and succeeds whenever
`qR b c < y`; the closed form needs the real `ask/(1−γ) < y` (`γ = c/E`).  Always
`qR b c ≤ ask/(1−γ) < qR b c + 1 + ask/E`, so the code's denominator `y − q` is never smaller than
the ideal one, and the band `q < y ≤ ask/(1−γ)` only contains asks within `ask/E` (< 1 base unit
for asks below 10^18) of draining the pool.
-/
import Halo.Proofs.C12X

namespace Halo.Props.C12X
open Halo
open Halo.C12X (qR)

/-- `qR` is the rounded `ask/(1−γ)` of `C12.reverse_closed_form` -/
theorem qR_eq (b c : Nat) : qR b c = b * (E * E / (E - c)) / E :=
  Halo.C12X.qR_eq b c

/-! ### the two floors: `q ≤ ask/(1−γ) < q + 1 + ask/E` (pure arithmetic, `c < 1` only) -/

/-- `q ≤ ask/(1−γ)` -/
theorem rounded_le {b c : Nat} (hc : c < E) : qR b c * (E - c) ≤ b * E :=
  Halo.C12X.rounded_le hc

/-- `ask/(1−γ) < q + 1 + ask/E`, tight integer form -/
theorem rounded_gap {b c : Nat} (hc : c < E) :
    b * E * E + b + (E - c) ≤ (qR b c + 1) * E * (E - c) + b * (E - c) :=
  Halo.C12X.rounded_gap hc

/-- `ask/(1−γ) < q + 1 + ask/E`, strict form -/
theorem rounded_gap_lt {b c : Nat} (hc : c < E) :
    b * E * E < (qR b c + 1) * E * (E - c) + b * (E - c) :=
  Halo.C12X.rounded_gap_lt hc

/-- the same divided by `E`: `ask·E ≤ (q+1)(E−c) + ⌊ask·(E−c)/E⌋` -/
theorem rounded_gap_div {b c : Nat} (hc : c < E) :
    b * E ≤ (qR b c + 1) * (E - c) + b * (E - c) / E :=
  Halo.C12X.rounded_gap_div hc

/-! ### 1. lower side, every successful call -/

/-- success gives `c < 1`, `q < y`, and `o + x` is exactly `⌊x·y/(y−q)⌋` -/
theorem reverse_exact {x y b c o s k : Nat}
    (h : computeOfferAmount x y b c = .ok (o, s, k)) :
    c < E ∧ qR b c < y ∧ o + x = x * y / (y - qR b c) :=
  Halo.C12X.reverse_exact h

/-- `o > x·y/(y−q) − x − 1`, with `q ≤ ask/(1−γ) < q + 1 + ask/E` -/
theorem reverse_lower_always {x y b c o s k : Nat}
    (h : computeOfferAmount x y b c = .ok (o, s, k)) :
    x * y < (o + x + 1) * (y - qR b c) ∧
    qR b c * (E - c) ≤ b * E ∧
    b * E * E + b + (E - c) ≤ (qR b c + 1) * E * (E - c) + b * (E - c) :=
  Halo.C12X.reverse_lower_always h

/-- the perturbed denominator `y − ask/(1−γ) + ask/E + 1` of `Spec.c12ReverseLower` (scaled by
`E(E−c)`) exceeds the code's denominator `y − q ≥ 1` on every successful call: the documented lower
bound is meaningful (not vacuous) off the domain as well -/
theorem perturbed_den_gt {x y b c o s k : Nat}
    (h : computeOfferAmount x y b c = .ok (o, s, k)) :
    (y - qR b c) * E * (E - c) + b * E * E <
      y * E * (E - c) + b * (E - c) + E * (E - c) :=
  Halo.C12X.perturbed_den_gt h

/-- `Spec.c12ReverseLower` without `Spec.c12Domain` -/
theorem reverse_ge_closed_form_always {x y b c o s k : Nat}
    (h : computeOfferAmount x y b c = .ok (o, s, k)) :
    Spec.c12ReverseLower x y b c o = true :=
  Halo.C12X.reverse_ge_closed_form_always h

/-! ### 2. upper side, every successful call -/

/-- `o ≤ x·y/(y−q) − x` -/
theorem reverse_upper_always {x y b c o s k : Nat}
    (h : computeOfferAmount x y b c = .ok (o, s, k)) :
    (o + x) * (y - qR b c) ≤ x * y :=
  Halo.C12X.reverse_upper_always h

/-- sanity: the unconditional upper bound implies the documented one, `Spec.c12Reverse`
(whose truncated factor `y(E−c) − ask·E` is 0 off the domain: it says nothing there) -/
theorem upper_always_imp_closed_form {x y b c o : Nat} (hc : c < E) (hq : qR b c < y)
    (hu : (o + x) * (y - qR b c) ≤ x * y) :
    Spec.c12Reverse x y b c o = true :=
  Halo.C12X.upper_always_imp_closed_form hc hq hu

/-! ### 3. the band `q < y ≤ ask/(1−γ)` -/

/-- success off the domain: `c < 1`, `q < y ≤ ask/(1−γ)`; the band is narrow:
`ask/(1−γ) < y + ask/E` (tight integer form, and divided by `E`), and there `y − q < 1 + ask/E` -/
theorem band_characterisation {x y b c o s k : Nat}
    (h : computeOfferAmount x y b c = .ok (o, s, k)) (hnd : ¬ Spec.c12Domain y b c = true) :
    c < E ∧ qR b c < y ∧ y * (E - c) ≤ b * E ∧
    b * E * E + b + (E - c) ≤ y * E * (E - c) + b * (E - c) ∧
    b * E ≤ y * (E - c) + b * (E - c) / E ∧
    y * E * (E - c) + b + (E - c) ≤ (qR b c + 1) * E * (E - c) + b * (E - c) :=
  Halo.C12X.band_characterisation h hnd

/-- in the band, boundary: `γ = 0.003`, `ask = 997`, `y = 1000`, so `ask/(1−γ) = y` exactly and the
closed form divides by zero; `⌊E²/(E−c)⌋ = 1003009027081243731` is inexact, `q = 999`, and the code
quotes `x·y/1 − x = 999·x` -/
example : computeOfferAmount 1000000 1000 997 3000000000000000 = .ok (999000000, 998001, 2) ∧
    qR 997 3000000000000000 = 999 ∧
    Spec.c12Domain 1000 997 3000000000000000 = false ∧
    1000 * (E - 3000000000000000) = 997 * E ∧
    Spec.c12ReverseLower 1000000 1000 997 3000000000000000 999000000 = true := by decide

/-- in the band, strictly inside: `ask/(1−γ) > y` (the closed form is negative), `q = y − 1`, and the
code quotes `(y−1)·x`; one unit more of `y` and the input is back on the domain -/
example : computeOfferAmount 1000000 6000000000000667 5982000000000665 3000000000000000 =
      .ok (6000000000000666000000, 36000000000007992000000000443556, 18000000000001) ∧
    qR 5982000000000665 3000000000000000 = 6000000000000666 ∧
    Spec.c12Domain 6000000000000667 5982000000000665 3000000000000000 = false ∧
    6000000000000667 * (E - 3000000000000000) < 5982000000000665 * E ∧
    Spec.c12ReverseLower 1000000 6000000000000667 5982000000000665 3000000000000000
      6000000000000666000000 = true ∧
    Spec.c12Domain 6000000000000668 5982000000000665 3000000000000000 = true := by decide

/-! ### 4. rational readings (`γ = c/E`) -/

/-- `(o+x+1)(y−q) > x·y` is `o > x·y/(y−q) − x − 1` -/
theorem lower_always_rat {x y q o : Nat} (hq : q < y) :
    x * y < (o + x + 1) * (y - q) ↔
      (x : ℚ) * y / ((y : ℚ) - q) - x - 1 < (o : ℚ) :=
  Halo.C12X.lower_always_rat hq

/-- `(o+x)(y−q) ≤ x·y` is `o ≤ x·y/(y−q) − x` -/
theorem upper_always_rat {x y q o : Nat} (hq : q < y) :
    (o + x) * (y - q) ≤ x * y ↔
      (o : ℚ) ≤ (x : ℚ) * y / ((y : ℚ) - q) - x :=
  Halo.C12X.upper_always_rat hq

/-- `t·(E−c) ≤ ask·E` is `t ≤ ask/(1−γ)` -/
theorem le_ideal_rat {t b c : Nat} (hc : c < E) :
    t * (E - c) ≤ b * E ↔ (t : ℚ) ≤ (b : ℚ) / (1 - (c : ℚ) / E) :=
  Halo.C12X.le_ideal_rat hc

/-- `ask·E·E < t·E·(E−c) + ask·(E−c)` is `ask/(1−γ) < t + ask/E` -/
theorem lt_ideal_gap_rat {t b c : Nat} (hc : c < E) :
    b * E * E < t * E * (E - c) + b * (E - c) ↔
      (b : ℚ) / (1 - (c : ℚ) / E) < (t : ℚ) + (b : ℚ) / E :=
  Halo.C12X.lt_ideal_gap_rat hc

/-- `Spec.c12ReverseLower` reads `o > x·y/(y − ask/(1−γ) + ask/E + 1) − x − 1` as soon as that
denominator is positive — which every successful call gives (`perturbed_den_gt`) -/
theorem c12ReverseLower_rat_of_pos {x y b c o : Nat} (hc : c < E)
    (hpos : b * E * E < y * E * (E - c) + b * (E - c) + E * (E - c)) :
    Spec.c12ReverseLower x y b c o = true ↔
      (x : ℚ) * y / ((y : ℚ) - (b : ℚ) / (1 - (c : ℚ) / E) + (b : ℚ) / E + 1) - x - 1 < (o : ℚ) :=
  Halo.C12X.c12ReverseLower_rat_of_pos hc hpos

/-- off the domain (with `c < 1`) is exactly `y ≤ ask/(1−γ)` -/
theorem not_domain_rat {y b c : Nat} (hc : c < E) :
    ¬ Spec.c12Domain y b c = true ↔ (y : ℚ) ≤ (b : ℚ) / (1 - (c : ℚ) / E) :=
  Halo.C12X.not_domain_rat hc

/-- every successful call, over ℚ: `x·y/(y−q) − x − 1 < o ≤ x·y/(y−q) − x`,
`q ≤ ask/(1−γ) < q + 1 + ask/E`, and the documented lower bound -/
theorem reverse_bounds_rat {x y b c o s k : Nat}
    (h : computeOfferAmount x y b c = .ok (o, s, k)) :
    (c : ℚ) < E ∧ (qR b c : ℚ) < y ∧
    (x : ℚ) * y / ((y : ℚ) - qR b c) - x - 1 < (o : ℚ) ∧
    (o : ℚ) ≤ (x : ℚ) * y / ((y : ℚ) - qR b c) - x ∧
    (qR b c : ℚ) ≤ (b : ℚ) / (1 - (c : ℚ) / E) ∧
    (b : ℚ) / (1 - (c : ℚ) / E) < (qR b c : ℚ) + 1 + (b : ℚ) / E ∧
    (x : ℚ) * y / ((y : ℚ) - (b : ℚ) / (1 - (c : ℚ) / E) + (b : ℚ) / E + 1) - x - 1 < (o : ℚ) :=
  Halo.C12X.reverse_bounds_rat h

/-- the band over ℚ: `q < y ≤ ask/(1−γ) < y + ask/E`, and `y − q < 1 + ask/E` -/
theorem band_rat {x y b c o s k : Nat}
    (h : computeOfferAmount x y b c = .ok (o, s, k)) (hnd : ¬ Spec.c12Domain y b c = true) :
    (qR b c : ℚ) < y ∧ (y : ℚ) ≤ (b : ℚ) / (1 - (c : ℚ) / E) ∧
    (b : ℚ) / (1 - (c : ℚ) / E) < (y : ℚ) + (b : ℚ) / E ∧
    (y : ℚ) - qR b c < 1 + (b : ℚ) / E :=
  Halo.C12X.band_rat h hnd

end Halo.Props.C12X
