/-
C18 — decimal and integer text, JSON (with escape sequences) and width conversions are lossless.
Text is a byte list (`Halo.Text`); `denote` / `valOf` give the number a numeral denotes, independently
of the parser; `canonicalDec` / `canonicalInt` recognise the canonical numerals
`0|[1-9][0-9]*` (optionally `.` and 1–18 digits not ending in `0`).
-/
import Halo.Proofs.C18

namespace Halo.Props.C18
open Halo Halo.Text

/-- render → parse is the identity on every 256-bit integer -/
theorem uint_parse_render {v : Nat} (h : v < U) : uintParse (uintRender v) = .ok v :=
  Halo.C18.uint_parse_render h

/-- render → parse is the identity on every Decimal256 value -/
theorem dec_parse_render {v : Nat} (h : v < U) : decParse (decRender v) = .ok v :=
  Halo.C18.dec_parse_render h

/-- the rendered integer is the canonical numeral of exactly that number -/
theorem uint_render_canonical (v : Nat) : canonicalInt (uintRender v) = true ∧ valOf (uintRender v) = v :=
  Halo.C18.uint_render_canonical v

/-- the rendered decimal is the canonical numeral of exactly `v / 10^18` -/
theorem dec_render_canonical (v : Nat) : canonicalDec (decRender v) = true ∧ denote (decRender v) = some v :=
  Halo.C18.dec_render_canonical v

/-- every accepted string parses to exactly the number it denotes — and the accepted strings are
exactly the numerals (digits, at most one dot, at most 18 fractional digits) whose value fits 256 bits -/
theorem dec_parse_ok_iff {s : List Nat} {v : Nat} : decParse s = .ok v ↔ denote s = some v ∧ v < U :=
  Halo.C18.dec_parse_ok_iff

theorem uint_parse_ok_iff {s : List Nat} {v : Nat} :
    uintParse s = .ok v ↔ s.all isDigit = true ∧ valOf s = v ∧ v < U :=
  Halo.C18.uint_parse_ok_iff

/-- more than 18 fractional digits are an error (even zeros) -/
theorem dec_parse_19_digits {w f : List Nat} (hw : 46 ∉ w) (hf : 46 ∉ f) (h : 18 < f.length) :
    ∀ v, decParse (w ++ [46] ++ f) ≠ .ok v :=
  Halo.C18.dec_parse_19_digits hw hf h

/-- JSON: both types serialise as the quoted `Display` text, and decoding it gives the value back -/
theorem dec_json_roundtrip {v : Nat} (h : v < U) : (jsonDec (jsonEnc (decRender v)) >>= decParse) = .ok v :=
  Halo.C18.dec_json_roundtrip h
theorem uint_json_roundtrip {v : Nat} (h : v < U) : (jsonDec (jsonEnc (uintRender v)) >>= uintParse) = .ok v :=
  Halo.C18.uint_json_roundtrip h

/-- unescaping does nothing to an ASCII text without a backslash (in particular to every rendered numeral) -/
theorem jsonUnescape_id {s : List Nat} (h : ∀ b ∈ s, b ≠ 92 ∧ b < 128) : jsonUnescape s = .ok s :=
  Halo.C18.jsonUnescape_id h

/-- JSON escapes are transparent: an accepted JSON text is whitespace, a quoted body, whitespace, and the
value is exactly the number denoted by the *unescaped* body (`"\u0031"` is 1, `"1\u002e5"` is 1.5) -/
theorem json_parse_denotes {j : List Nat} {v : Nat} (h : (jsonDec j >>= decParse) = .ok v) :
    ∃ pre body post s, j = pre ++ [34] ++ body ++ [34] ++ post ∧
      pre.all isJsonWs = true ∧ post.all isJsonWs = true ∧
      jsonUnescape body = .ok s ∧ decParse s = .ok v ∧ denote s = some v ∧ v < U :=
  Halo.C18.json_parse_denotes_dec h
theorem json_parse_denotes_uint {j : List Nat} {v : Nat} (h : (jsonDec j >>= uintParse) = .ok v) :
    ∃ pre body post s, j = pre ++ [34] ++ body ++ [34] ++ post ∧
      pre.all isJsonWs = true ∧ post.all isJsonWs = true ∧
      jsonUnescape body = .ok s ∧ parseDigits s = .ok v ∧ s.all isDigit = true ∧ valOf s = v ∧ v < U :=
  Halo.C18.json_parse_denotes_uint h

/-- width conversions: `u128 → Uint256 → u128` is the identity; narrowing aborts iff the value does not fit -/
theorem u128_roundtrip {w : Nat} (h : w < W) : toU128 (ofU128 w) = .ok w :=
  Halo.C18.u128_roundtrip h
theorem narrowing_iff {v r : Nat} (h : v < U) : toU128 v = .ok r ↔ v < W ∧ r = v := Halo.toU128_ok h

/-- `Decimal256 → cosmwasm Decimal` (two limb `assert!`s, then `to_string` / `from_str`) preserves the
atomics or aborts: it succeeds iff the atomics fit 128 bits, and is then the identity on them; it is the
limb check `toU128` and nothing else -/
theorem dec_to_std_iff {v r : Nat} (h : v < U) : decToStd v = .ok r ↔ v < W ∧ r = v :=
  Halo.C18.dec_to_std_iff h
theorem dec_to_std_abort {v : Nat} (h : v < U) : decToStd v = .error .abort ↔ W ≤ v :=
  Halo.C18.dec_to_std_abort h
theorem dec_to_std_eq {v : Nat} (h : v < U) : decToStd v = toU128 v := Halo.C18.decToStd_eq h
/-- `cosmwasm Decimal → Decimal256` (through `to_string` / `from_str`) is the identity on the atomics -/
theorem dec_from_std_id {a : Nat} (h : a < W) : decFromStd a = .ok a :=
  Halo.C18.dec_from_std_id h
theorem dec_std_roundtrip {a : Nat} (h : a < W) : (decFromStd a >>= decToStd) = .ok a :=
  Halo.C18.dec_std_roundtrip h

example : decRender 1500000000000000000 = [49, 46, 53] := by decide +kernel
example : decParse [49, 46, 53] = .ok 1500000000000000000 := by decide +kernel
example : decParse [] = .ok 0 := by decide +kernel
example : decParse [49, 46, 50, 46, 51] = .error .err := by decide +kernel

/-- `"\u0031"` is 1 (as a decimal: 10^18 atomics) -/
example : (jsonDec [34, 92, 117, 48, 48, 51, 49, 34] >>= decParse) = .ok 1000000000000000000 := by
  decide +kernel
example : (jsonDec [34, 92, 117, 48, 48, 51, 49, 34] >>= uintParse) = .ok 1 := by decide +kernel
/-- `"1\u002e5"` is 1.5 -/
example : (jsonDec [34, 49, 92, 117, 48, 48, 50, 101, 53, 34] >>= decParse) = .ok 1500000000000000000 := by
  decide +kernel
/-- `"\u0031\u0032"` is 12, `"\u002E"` is the decimal 0, whitespace around the string is fine -/
example : (jsonDec [32, 34, 92, 117, 48, 48, 51, 49, 92, 117, 48, 48, 51, 50, 34, 10] >>= uintParse) = .ok 12 := by
  decide +kernel
example : (jsonDec [34, 92, 117, 48, 48, 50, 69, 34] >>= decParse) = .ok 0 := by decide +kernel
/-- malformed escapes are errors: `"\x"`, `"\u12"`, `"\ud800"`, `"1\"` ; so is a raw control byte next to
an escape (`"\u0031<TAB>"`) and an unescaped quote inside (`"1"2"`) -/
example : jsonDec [34, 92, 120, 34] = .error .err := by decide +kernel
example : jsonDec [34, 92, 117, 49, 50, 34] = .error .err := by decide +kernel
example : jsonDec [34, 92, 117, 100, 56, 48, 48, 34] = .error .err := by decide +kernel
example : jsonDec [34, 49, 92, 34] = .error .err := by decide +kernel
example : jsonDec [34, 92, 117, 48, 48, 51, 49, 9, 34] = .error .err := by decide +kernel
example : jsonDec [34, 49, 34, 50, 34] = .error .err := by decide +kernel
/-- a surrogate pair is one character: `"\ud83d\ude00"` is U+1F600, `f0 9f 98 80` -/
example : jsonDec [34, 92, 117, 100, 56, 51, 100, 92, 117, 100, 101, 48, 48, 34] = .ok [240, 159, 152, 128] := by
  decide +kernel

end Halo.Props.C18
