/-
C18 — decimal and integer text, JSON and width conversions are lossless.
Text is a byte list (`Halo.Text`); `denote` / `valOf` give the number a numeral denotes, independently
of the parser; `canonicalDec` / `canonicalInt` recognise the canonical numerals
`0|[1-9][0-9]*` (optionally `.` and 1–18 digits not ending in `0`).
-/
import Halo.Proofs.C18

namespace Halo.Props.C18
open Halo Halo.Text

/-- render → parse is the identity on every 256-bit integer -/
theorem uint_parse_render {v : Nat} (h : v < U) : uintParse (uintRender v) = .ok v :=
  Halo.C18.uint_parse_render h

/-- render → parse is the identity on every Decimal256 value -/
theorem dec_parse_render {v : Nat} (h : v < U) : decParse (decRender v) = .ok v :=
  Halo.C18.dec_parse_render h

/-- the rendered integer is the canonical numeral of exactly that number -/
theorem uint_render_canonical (v : Nat) : canonicalInt (uintRender v) = true ∧ valOf (uintRender v) = v :=
  Halo.C18.uint_render_canonical v

/-- the rendered decimal is the canonical numeral of exactly `v / 10^18` -/
theorem dec_render_canonical (v : Nat) : canonicalDec (decRender v) = true ∧ denote (decRender v) = some v :=
  Halo.C18.dec_render_canonical v

/-- every accepted string parses to exactly the number it denotes — and the accepted strings are
exactly the numerals (digits, at most one dot, at most 18 fractional digits) whose value fits 256 bits -/
theorem dec_parse_ok_iff {s : List Nat} {v : Nat} : decParse s = .ok v ↔ denote s = some v ∧ v < U :=
  Halo.C18.dec_parse_ok_iff

theorem uint_parse_ok_iff {s : List Nat} {v : Nat} :
    uintParse s = .ok v ↔ s.all isDigit = true ∧ valOf s = v ∧ v < U :=
  Halo.C18.uint_parse_ok_iff

/-- more than 18 fractional digits are an error (even zeros) -/
theorem dec_parse_19_digits {w f : List Nat} (hw : 46 ∉ w) (hf : 46 ∉ f) (h : 18 < f.length) :
    ∀ v, decParse (w ++ [46] ++ f) ≠ .ok v :=
  Halo.C18.dec_parse_19_digits hw hf h

/-- JSON: both types serialise as the quoted `Display` text, and decoding it gives the value back -/
theorem dec_json_roundtrip {v : Nat} (h : v < U) : (jsonDec (jsonEnc (decRender v)) >>= decParse) = .ok v :=
  Halo.C18.dec_json_roundtrip h
theorem uint_json_roundtrip {v : Nat} (h : v < U) : (jsonDec (jsonEnc (uintRender v)) >>= uintParse) = .ok v :=
  Halo.C18.uint_json_roundtrip h

/-- width conversions: `u128 → Uint256 → u128` is the identity; narrowing aborts iff the value does not fit.
(`Decimal ↔ Decimal256` go through `to_string` / `from_str`, i.e. through `dec_parse_render`.) -/
theorem u128_roundtrip {w : Nat} (h : w < W) : toU128 (ofU128 w) = .ok w :=
  Halo.C18.u128_roundtrip h
theorem narrowing_iff {v r : Nat} (h : v < U) : toU128 v = .ok r ↔ v < W ∧ r = v := Halo.toU128_ok h

example : decRender 1500000000000000000 = [49, 46, 53] := by decide +kernel
example : decParse [49, 46, 53] = .ok 1500000000000000000 := by decide +kernel
example : decParse [] = .ok 0 := by decide +kernel
example : decParse [49, 46, 50, 46, 51] = .error .err := by decide +kernel

end Halo.Props.C18
