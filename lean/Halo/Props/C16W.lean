/-
C16 at system level: the registry invariant `RegOK` (Halo/Inv.lean) — keys sorted, each record stored
under the key of its own assets and equal to the self-description of the pair it points to, no two
records for one pair, no pair over identical assets — holds after every operation, and its consequences.
Environment (`RawOK`): distinct LIVE assets (`Live`: registered denoms, live cw20 contracts) have distinct raw
identifiers; the chain allocates fresh addresses.  Identifiers that are not live may share the raw identifier of a
live asset (another spelling of a token address): a lookup sees raw identifiers only (`lookup_by_raw`), so the
lookup theorems speak about raw identifiers in general and about the assets themselves when the queried assets are
live.  The invariant itself does not depend on `RawOK` (the `hraw` arguments below are not used).
-/
import Halo.Proofs.RegOK

namespace Halo.Props.C16W
open Halo

/-- the empty registry is fine -/
theorem regOK_init {w : World} (h : w.registry = []) : RegOK w := Halo.RegOKP.regOK_init h

/-- creation preserves the invariant (fresh pair and LP token addresses) -/
theorem regOK_createPair {w w' : World} {s : Nat} {a0 a1 : Asset} {req : Requirements} {comm lpDec : Option Nat} {np nl : Nat}
    (hr : RegOK w) (hraw : RawOK w) (hfresh : w.pair np = none)
    (h : facCreatePair w s a0 a1 req comm lpDec np nl = .ok w') : RegOK w' :=
  Halo.RegOKP.regOK_createPair hr hraw hfresh h

/-- decimals re-registration preserves it (C17) -/
theorem regOK_addDecimals {w w' : World} {s d k : Nat} (hr : RegOK w) (hraw : RawOK w)
    (h : facAddDecimals w s d k = .ok w') : RegOK w' :=
  Halo.RegOKP.regOK_addDecimals hr hraw h

/-- every operation of every actor preserves it (actors are not the factory contract itself; new
addresses are fresh) -/
theorem regOK_step {name : Asset → String} {w w' : World} {op : Op} {out : Out}
    (hr : RegOK w) (hraw : RawOK w)
    (hactor : ∀ s p f m, op = .pair s p f m → s ≠ w.facAddr)
    (hfresh : ∀ s f a0 a1 req c ld np nl, op = .factory s f (.createPair a0 a1 req c ld np nl) → w.pair np = none)
    (h : exec name w op = .ok (w', out)) : RegOK w' :=
  Halo.RegOKP.regOK_step hr hraw hactor hfresh h

/-- looking a registered pair up with its two assets in either order returns that pair's record,
which equals what the pair reports about itself -/
theorem lookup_both_orders {w : World} (hr : RegOK w) {e : Bytes × Record} (he : e ∈ w.registry) :
    facLookup w e.2.a0 e.2.a1 = some e.2 ∧ facLookup w e.2.a1 e.2.a0 = some e.2 ∧ recMatches w e.2 :=
  Halo.RegOKP.lookup_both_orders hr he

/-- a lookup depends on the queried assets through their raw identifiers only: a non-live identifier that shares
the raw identifier of a live asset (an upper-case spelling of a token address) is looked up as that asset -/
theorem lookup_by_raw {w : World} {a b a' b' : Asset} (ha : w.rawId a = w.rawId a') (hb : w.rawId b = w.rawId b') :
    facLookup w a b = facLookup w a' b' :=
  Halo.RegOKP.lookup_by_raw ha hb

/-- two different unordered pairs of raw identifiers never resolve to the same record; hence neither do two
different unordered sets of live assets -/
theorem lookup_distinct {w : World} (hr : RegOK w) (hraw : RawOK w) {a b c d : Asset} {R : Record}
    (h1 : facLookup w a b = some R) (h2 : facLookup w c d = some R) :
    ((w.rawId a = w.rawId c ∧ w.rawId b = w.rawId d) ∨ (w.rawId a = w.rawId d ∧ w.rawId b = w.rawId c)) ∧
    (Live w a → Live w b → Live w c → Live w d → (a = c ∧ b = d) ∨ (a = d ∧ b = c)) :=
  Halo.RegOKP.lookup_distinct hr hraw h1 h2

/-- a lookup only ever returns a record over the queried unordered pair of raw identifiers — and, when the two
queried assets are live, over exactly the queried asset set -/
theorem lookup_sound {w : World} (hr : RegOK w) (hraw : RawOK w) {a b : Asset} {R : Record}
    (h : facLookup w a b = some R) :
    ((w.rawId R.a0 = w.rawId a ∧ w.rawId R.a1 = w.rawId b) ∨ (w.rawId R.a0 = w.rawId b ∧ w.rawId R.a1 = w.rawId a)) ∧
    (Live w a → Live w b → (R.a0 = a ∧ R.a1 = b) ∨ (R.a0 = b ∧ R.a1 = a)) :=
  Halo.RegOKP.lookup_sound hr hraw h

/-- position by position: each queried asset that is live IS the record's asset carrying its raw identifier -/
theorem lookup_sound_fine {w : World} (hr : RegOK w) (hraw : RawOK w) {a b : Asset} {R : Record}
    (h : facLookup w a b = some R) :
    (w.rawId R.a0 = w.rawId a ∧ w.rawId R.a1 = w.rawId b ∧ (Live w a → R.a0 = a) ∧ (Live w b → R.a1 = b)) ∨
    (w.rawId R.a0 = w.rawId b ∧ w.rawId R.a1 = w.rawId a ∧ (Live w b → R.a0 = b) ∧ (Live w a → R.a1 = a)) :=
  Halo.RegOKP.lookup_sound_fine hr hraw h

/-- whatever is queried, the record returned is over two distinct live assets -/
theorem lookup_live {w : World} (hr : RegOK w) {a b : Asset} {R : Record} (h : facLookup w a b = some R) :
    Live w R.a0 ∧ Live w R.a1 ∧ R.a0 ≠ R.a1 :=
  Halo.RegOKP.lookup_live hr h

/-- a lookup with live assets resolves to a pair contract over exactly those two (distinct) assets: the per-hop
hypothesis of `C13W.RouteOK` / `hPa` of `C13.hop_effect` -/
theorem lookup_pair_assets {w : World} (hr : RegOK w) (hraw : RawOK w) {a b : Asset} {R : Record}
    (h : facLookup w a b = some R) (la : Live w a) (lb : Live w b) :
    ∃ P, w.pair R.pair = some P ∧ ((P.a0 = a ∧ P.a1 = b) ∨ (P.a0 = b ∧ P.a1 = a)) ∧ a ≠ b :=
  Halo.RegOKP.lookup_pair_assets hr hraw h la lb

/-- the live assets are exactly those whose decimals the factory can query (so exactly those a pair can be created
over), and liveness is never revoked: a registered denom stays registered, a cw20 contract stays a contract -/
theorem live_iff_decimals {w : World} {a : Asset} : Live w a ↔ ∃ d, assetDecimals w a = .ok d :=
  Halo.RegOKP.live_iff_decimals

theorem live_exec {name : Asset → String} {w w' : World} {op : Op} {out : Out}
    (h : exec name w op = .ok (w', out)) {a : Asset} (hl : Live w a) : Live w' a :=
  Halo.RegOKP.live_exec h hl

theorem live_step {name : Asset → String} (w : World) (op : Op) {a : Asset} (hl : Live w a) :
    Live (step name w op) a :=
  Halo.RegOKP.live_step w op hl

/-- creating a pair for an already registered set (either order) or for two identical assets fails;
creation succeeds only for registered denoms and live cw20 contracts, recording their true decimals -/
theorem create_dup_fails {w w' : World} {s : Nat} {a0 a1 : Asset} {req : Requirements} {comm lpDec : Option Nat} {np nl : Nat}
    (h : facCreatePair w s a0 a1 req comm lpDec np nl = .ok w') :
    a0 ≠ a1 ∧ facLookup w a0 a1 = none ∧ facLookup w a1 a0 = none ∧
    assetDecimals w a0 = .ok ((w'.pair np).map (·.d0) |>.getD 0) ∧
    assetDecimals w a1 = .ok ((w'.pair np).map (·.d1) |>.getD 0) ∧
    (match comm with | some c => c ≤ E | none => True) :=
  Halo.RegOKP.create_dup_fails h

/-- the LP token of a new pair is a fresh cw20 with zero supply, minted only by the pair, carrying the requested
decimals (default 6); used as an asset of a later pair it is recorded with exactly those decimals -/
theorem create_lp_token {w w' : World} {s : Nat} {a0 a1 : Asset} {req : Requirements} {comm lpDec : Option Nat}
    {np nl : Nat} (h : facCreatePair w s a0 a1 req comm lpDec np nl = .ok w') :
    ∃ T, w'.tok nl = some T ∧ T.decimals = lpDec.getD 6 ∧ T.supply = 0 ∧ T.minter = some np ∧
      assetDecimals w' (.token nl) = .ok (lpDec.getD 6) :=
  Halo.RegOKP.create_lp_token h

end Halo.Props.C16W
