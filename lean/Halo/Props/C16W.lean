/-
C16 at system level: the registry invariant `RegOK` (Halo/Inv.lean) — keys sorted, each record stored
under the key of its own assets and equal to the self-description of the pair it points to, no two
records for one pair, no pair over identical assets — holds after every operation, and its consequences.
Environment (`RawOK`): distinct assets have distinct raw identifiers; the chain allocates fresh addresses.
-/
import Halo.Proofs.RegOK

namespace Halo.Props.C16W
open Halo

/-- the empty registry is fine -/
theorem regOK_init {w : World} (h : w.registry = []) : RegOK w := Halo.RegOKP.regOK_init h

/-- creation preserves the invariant (fresh pair and LP token addresses) -/
theorem regOK_createPair {w w' : World} {s : Nat} {a0 a1 : Asset} {req : Requirements} {comm lpDec : Option Nat} {np nl : Nat}
    (hr : RegOK w) (hraw : RawOK w) (hfresh : w.pair np = none)
    (h : facCreatePair w s a0 a1 req comm lpDec np nl = .ok w') : RegOK w' :=
  Halo.RegOKP.regOK_createPair hr hraw hfresh h

/-- decimals re-registration preserves it (C17) -/
theorem regOK_addDecimals {w w' : World} {s d k : Nat} (hr : RegOK w) (hraw : RawOK w)
    (h : facAddDecimals w s d k = .ok w') : RegOK w' :=
  Halo.RegOKP.regOK_addDecimals hr hraw h

/-- every operation of every actor preserves it (actors are not the factory contract itself; new
addresses are fresh) -/
theorem regOK_step {name : Asset → String} {w w' : World} {op : Op} {out : Out}
    (hr : RegOK w) (hraw : RawOK w)
    (hactor : ∀ s p f m, op = .pair s p f m → s ≠ w.facAddr)
    (hfresh : ∀ s f a0 a1 req c ld np nl, op = .factory s f (.createPair a0 a1 req c ld np nl) → w.pair np = none)
    (h : exec name w op = .ok (w', out)) : RegOK w' :=
  Halo.RegOKP.regOK_step hr hraw hactor hfresh h

/-- looking a registered pair up with its two assets in either order returns that pair's record,
which equals what the pair reports about itself -/
theorem lookup_both_orders {w : World} (hr : RegOK w) {e : Bytes × Record} (he : e ∈ w.registry) :
    facLookup w e.2.a0 e.2.a1 = some e.2 ∧ facLookup w e.2.a1 e.2.a0 = some e.2 ∧ recMatches w e.2 :=
  Halo.RegOKP.lookup_both_orders hr he

/-- two different unordered asset sets never resolve to the same record -/
theorem lookup_distinct {w : World} (hr : RegOK w) (hraw : RawOK w) {a b c d : Asset} {R : Record}
    (h1 : facLookup w a b = some R) (h2 : facLookup w c d = some R) : (a = c ∧ b = d) ∨ (a = d ∧ b = c) :=
  Halo.RegOKP.lookup_distinct hr hraw h1 h2

/-- a lookup only ever returns a record over exactly the queried asset set -/
theorem lookup_sound {w : World} (hr : RegOK w) (hraw : RawOK w) {a b : Asset} {R : Record}
    (h : facLookup w a b = some R) : (R.a0 = a ∧ R.a1 = b) ∨ (R.a0 = b ∧ R.a1 = a) :=
  Halo.RegOKP.lookup_sound hr hraw h

/-- creating a pair for an already registered set (either order) or for two identical assets fails;
creation succeeds only for registered denoms and live cw20 contracts, recording their true decimals -/
theorem create_dup_fails {w w' : World} {s : Nat} {a0 a1 : Asset} {req : Requirements} {comm lpDec : Option Nat} {np nl : Nat}
    (h : facCreatePair w s a0 a1 req comm lpDec np nl = .ok w') :
    a0 ≠ a1 ∧ facLookup w a0 a1 = none ∧ facLookup w a1 a0 = none ∧
    assetDecimals w a0 = .ok ((w'.pair np).map (·.d0) |>.getD 0) ∧
    assetDecimals w a1 = .ok ((w'.pair np).map (·.d1) |>.getD 0) ∧
    (match comm with | some c => c ≤ E | none => True) :=
  Halo.RegOKP.create_dup_fails h

/-- the LP token of a new pair is a fresh cw20 with zero supply, minted only by the pair, carrying the requested
decimals (default 6); used as an asset of a later pair it is recorded with exactly those decimals -/
theorem create_lp_token {w w' : World} {s : Nat} {a0 a1 : Asset} {req : Requirements} {comm lpDec : Option Nat}
    {np nl : Nat} (h : facCreatePair w s a0 a1 req comm lpDec np nl = .ok w') :
    ∃ T, w'.tok nl = some T ∧ T.decimals = lpDec.getD 6 ∧ T.supply = 0 ∧ T.minter = some np ∧
      assetDecimals w' (.token nl) = .ok (lpDec.getD 6) :=
  Halo.RegOKP.create_lp_token h

end Halo.Props.C16W
