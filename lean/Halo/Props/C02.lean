/-
C02 — swap settlement moves exactly the declared asset and amounts.

`w0` is the world at handler entry (attached funds credited, resp. the cw20 amount transferred):
that is where the pair measures its reserves.  Hypotheses `P.a0 ≠ P.a1` (the factory never creates a
pair over two identical assets, C16) and `trader ≠ p` (contracts originate no operations).
-/
import Halo.Proofs.C02

namespace Halo.Props.C02
open Halo

/-- direct swap of a native offer -/
theorem swap_native_effect {w w' : World} {s p d amt : Nat} {funds : List (Nat × Nat)}
    {b ms to : Option Nat} {o : SwapOut}
    (h : pairExec w s p funds (.swap (.native d) amt b ms to) = .ok (w', .swap o)) :
    ∃ P w0, w.pair p = some P ∧ attach w s p funds = .ok w0 ∧
      -- (i) the offered asset is a pair asset and is the asset actually delivered, in the declared amount
      (P.a0 = .native d ∨ P.a1 = .native d) ∧ Spec.c09 d amt funds = true ∧ o.offer = amt ∧
      -- the asset paid out is the other one
      (o.ask = P.a0 ∨ o.ask = P.a1) ∧ (P.a0 ≠ P.a1 → o.ask ≠ .native d) ∧
      -- (iii) the pair's ask reserve falls by exactly the reported return; (iv) the receiver gets exactly that
      o.ret ≤ bal w0 o.ask p ∧
      (to.getD s ≠ p → bal w' o.ask p = bal w0 o.ask p - o.ret ∧ bal w' o.ask (to.getD s) = bal w0 o.ask (to.getD s) + o.ret) ∧
      -- (v) nothing else moves after handler entry
      (∀ a z, (a ≠ o.ask ∨ (z ≠ p ∧ z ≠ to.getD s)) → bal w' a z = bal w0 a z) ∧
      (∀ t, supply w' t = supply w0 t) :=
  Halo.C02.swap_native_effect h

/-- what "attached funds credited" means for the usual single-coin funds: the pair's offer reserve
rises by exactly the offered amount, delivered by the trader in that same transaction -/
theorem attach_single_effect {w w0 : World} {s p d amt : Nat} (hsp : s ≠ p)
    (h : attach w s p [(d, amt)] = .ok w0) :
    amt ≠ 0 ∧ amt ≤ bal w (.native d) s ∧
    bal w0 (.native d) p = bal w (.native d) p + amt ∧ bal w0 (.native d) s = bal w (.native d) s - amt ∧
    (∀ a z, (a ≠ .native d ∨ (z ≠ p ∧ z ≠ s)) → bal w0 a z = bal w a z) :=
  Halo.C02.attach_single_effect hsp h

/-- swap through a cw20 `Send` hook -/
theorem swap_hook_effect {w w' : World} {t u p amt a : Nat} {offer : Asset}
    {b ms to : Option Nat} {o : SwapOut} (hup : u ≠ p)
    (h : tokSendPair w t u p amt (.swap offer a b ms to) = .ok (w', .swap o)) :
    ∃ P w0, w.pair p = some P ∧ tokTransfer w t u p amt = .ok w0 ∧
      -- (i) a trader is never credited for an asset or amount other than what the pair received
      offer = .token t ∧ a = amt ∧ o.offer = amt ∧ (P.a0 = .token t ∨ P.a1 = .token t) ∧
      -- (ii) the pair's offer reserve rose by exactly that amount, paid by the trader
      amt ≠ 0 ∧ amt ≤ bal w (.token t) u ∧
      bal w0 (.token t) p = bal w (.token t) p + amt ∧ bal w0 (.token t) u = bal w (.token t) u - amt ∧
      (o.ask = P.a0 ∨ o.ask = P.a1) ∧ (P.a0 ≠ P.a1 → o.ask ≠ .token t) ∧
      -- (iii), (iv)
      o.ret ≤ bal w0 o.ask p ∧
      (to.getD u ≠ p → bal w' o.ask p = bal w0 o.ask p - o.ret ∧ bal w' o.ask (to.getD u) = bal w0 o.ask (to.getD u) + o.ret) ∧
      -- (v)
      (∀ x z, (x ≠ o.ask ∨ (z ≠ p ∧ z ≠ to.getD u)) → bal w' x z = bal w0 x z) ∧
      (∀ x z, (x ≠ .token t ∨ (z ≠ p ∧ z ≠ u)) → bal w0 x z = bal w x z) :=
  Halo.C02.swap_hook_effect hup h

/-- a hook whose named asset differs from the sending token is rejected (this was defect D2) -/
theorem hook_wrong_asset_rejected {w : World} {t u p amt a : Nat} {offer : Asset}
    {b ms to : Option Nat} {r : World × Out} (hne : offer ≠ .token t) :
    tokSendPair w t u p amt (.swap offer a b ms to) ≠ .ok r :=
  Halo.C02.hook_wrong_asset_rejected hne

/-- a hook whose named amount differs from the amount sent is rejected -/
theorem hook_wrong_amount_rejected {w : World} {t u p amt a : Nat} {offer : Asset}
    {b ms to : Option Nat} {r : World × Out} (hne : a ≠ amt) :
    tokSendPair w t u p amt (.swap offer a b ms to) ≠ .ok r :=
  Halo.C02.hook_wrong_amount_rejected hne

/-- the reported amounts are exactly those of the pricing function on the reserves net of the credited offer -/
theorem swap_reports_pricing {w0 w' : World} {p : Nat} {P : PairSt} {funds : List (Nat × Nat)} {trader : Nat}
    {offer : Asset} {amt : Nat} {b ms to : Option Nat} {o : SwapOut}
    (h : pairSwap w0 p P funds trader offer amt b ms to = .ok (w', o)) (hne : P.a0 ≠ P.a1) :
    ∃ ask, o.ask = ask ∧ ((offer = P.a0 ∧ ask = P.a1) ∨ (offer = P.a1 ∧ ask = P.a0)) ∧
      amt ≤ bal w0 offer p ∧
      computeSwap (bal w0 offer p - amt) (bal w0 ask p) amt P.comm = .ok (o.ret, o.spread, o.comm) ∧ o.offer = amt :=
  Halo.C02.swap_reports_pricing h hne

end Halo.Props.C02
