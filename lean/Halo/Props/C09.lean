/-
C09 — declared native amounts must equal the attached funds exactly (function level).
-/
import Halo.Proofs.Basic
import Halo.Spec

namespace Halo.Props.C09
open Halo

/-- accepted iff the first attached coin of the denom (absent ≙ 0) carries exactly the declared amount -/
theorem assertSent_iff (denom amount : Nat) (funds : List (Nat × Nat)) :
    assertSentNative denom amount funds = .ok () ↔ Spec.c09 denom amount funds = true := by
  unfold assertSentNative Spec.c09
  cases h : funds.find? (fun c => decide (c.1 = denom)) with
  | none => simp [eq_comm]
  | some c =>
    simp only [Option.map_some, Option.getD_some, decide_eq_true_eq]
    split <;> simp_all [eq_comm]

/-- and a rejection is an ordinary error, never an abort -/
theorem assertSent_err (denom amount : Nat) (funds : List (Nat × Nat)) :
    assertSentNative denom amount funds = .ok () ∨ assertSentNative denom amount funds = .error .err := by
  unfold assertSentNative
  split <;> split <;> simp

example : assertSentNative 1 5 [(2, 7), (1, 5)] = .ok () := by decide
example : assertSentNative 1 5 [(2, 5)] = .error .err := by decide

end Halo.Props.C09
