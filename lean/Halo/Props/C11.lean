/-
C11 — router delivers at least `minimum_receive` or the whole route reverts.
`w0` is the world at router entry, i.e. after the caller's funds (or cw20 send) were credited to the
router — so growth is measured net of what the recipient itself paid in that transaction.
-/
import Halo.Proofs.C11

namespace Halo.Props.C11
open Halo

/-- core: an accepted route with `minimum_receive = m` ends with the recipient's balance of the final
asset at least `m` above its value at router entry -/
theorem route_min_receive {name : Asset → String} {w w' : World} {sender m : Nat} {ops : List (Asset × Asset)}
    {to : Option Nat} (h : routerSwapOps name w sender ops (some m) to = .ok w') :
    ∃ o target, ops.getLast? = some (o, target) ∧
      bal w target (to.getD sender) + m ≤ bal w' target (to.getD sender) :=
  Halo.C11.route_min_receive h

/-- entry point 1: native funds -/
theorem exec_min_receive {name : Asset → String} {w w' : World} {s m : Nat} {funds : List (Nat × Nat)}
    {ops : List (Asset × Asset)} {to : Option Nat}
    (h : routerExec name w s funds (.swapOps ops (some m) to) = .ok w') :
    ∃ w0 o target, attach w s w.router funds = .ok w0 ∧ ops.getLast? = some (o, target) ∧
      bal w0 target (to.getD s) + m ≤ bal w' target (to.getD s) :=
  Halo.C11.exec_min_receive h

/-- entry point 2: a cw20 `Send` to the router -/
theorem send_min_receive {name : Asset → String} {w w' : World} {t u amt m : Nat}
    {ops : List (Asset × Asset)} {to : Option Nat} {out : Out}
    (hr : (w.pair w.router).isNone)
    (h : tokSend name w t u w.router amt (.routerOps ops (some m) to) = .ok (w', out)) :
    ∃ w0 o target, tokTransfer w t u w.router amt = .ok w0 ∧ ops.getLast? = some (o, target) ∧
      bal w0 target (to.getD u) + m ≤ bal w' target (to.getD u) :=
  Halo.C11.send_min_receive hr h

/-- if the route would deliver less, the entire transaction fails and no balance or supply changes -/
theorem route_atomic {name : Asset → String} {w : World} {op : Op} {e : Err}
    (h : exec name w op = .error e) : step name w op = w := by
  unfold step; rw [h]

/-- empty routes are rejected -/
theorem empty_route_rejected {name : Asset → String} {w w' : World} {sender : Nat} {m to : Option Nat} :
    routerSwapOps name w sender [] m to ≠ .ok w' :=
  Halo.C11.empty_route_rejected

end Halo.Props.C11
