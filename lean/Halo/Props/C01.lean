/-
C01 — a swap never lowers the reserve product nor empties a reserve (function level).

The full statement is FALSE of the code (defect D1, DESIGN §7): the gross output of `compute_swap`
is `⌊(y·a·E + ρ)/((x+a)·E)⌋`, `ρ = x·y·E mod (x+a)`, which is one above `⌊y·a/(x+a)⌋` exactly on
`inWindow`.  Proved here: the closed form, the exact characterisation of the deviation, the
property outside the window (`C01_partial…`), and the negation with concrete witnesses.
-/
import Halo.Proofs.C01

namespace Halo.Props.C01
open Halo

/-- the gross output (return + commission) in closed form -/
theorem gross_closed_form {x y a c n s k : Nat}
    (h : computeSwap x y a c = .ok (n, s, k)) :
    n + k = (y * a * E + x * y * E % (x + a)) / ((x + a) * E) :=
  Halo.C01.gross_closed_form h

/-- the gross output is `⌊y·a/(x+a)⌋`, plus one exactly on the window -/
theorem gross_window {x y a c n s k : Nat}
    (h : computeSwap x y a c = .ok (n, s, k)) :
    n + k = y * a / (x + a) + (if inWindow x y a then 1 else 0) :=
  Halo.C01.gross_window h

/-- the window needs a deep pool: it is empty whenever `x + a ≤ 10^18`
(`0 < x + a` excludes the degenerate `x = a = 0`, on which `compute_swap` aborts anyway) -/
theorem window_needs_depth {x y a : Nat} (hD : 0 < x + a) (h : inWindow x y a = true) : E < x + a :=
  Halo.C01.window_needs_depth hD h

/-- C01 outside the window -/
theorem C01_partial {x y a c n s k : Nat}
    (h : computeSwap x y a c = .ok (n, s, k)) (hw : inWindow x y a = false) :
    Spec.c01 x y a n = true :=
  Halo.C01.c01_of_not_window h hw

/-- C01 for shallow pools (`x + a ≤ 10^18`), a hypothesis that needs no remainder arithmetic to check -/
theorem C01_partial_shallow {x y a c n s k : Nat}
    (h : computeSwap x y a c = .ok (n, s, k)) (hd : x + a ≤ E) :
    Spec.c01 x y a n = true :=
  Halo.C01.c01_of_shallow h hd

/-- C01 whenever a non-zero commission is charged: the commission absorbs the extra unit -/
theorem C01_partial_commission {x y a c n s k : Nat}
    (h : computeSwap x y a c = .ok (n, s, k)) (hk : 1 ≤ k) :
    Spec.c01 x y a n = true :=
  Halo.C01.c01_of_commission h hk

/-- every violating input is in the window and the deviation is exactly one unit of gross output:
this is the predicate the known finding KF-SWAP-WINDOW is matched by -/
theorem violation_is_window {x y a c n s k : Nat}
    (h : computeSwap x y a c = .ok (n, s, k)) (hv : Spec.c01 x y a n = false) :
    inWindow x y a = true ∧ n + k = y * a / (x + a) + 1 :=
  Halo.C01.violation_is_window h hv

/-- C01 in reserve form, outside the window: the product of the reserves does not decrease and the
ask reserve stays positive (`x`, `y` reserves before, `x + a`, `y − n` after) -/
theorem C01_partial_reserves {x y a c n s k : Nat}
    (h : computeSwap x y a c = .ok (n, s, k)) (hw : inWindow x y a = false) (hy : 1 ≤ y) :
    Spec.c01Reserves x y (x + a) (y - n) = true :=
  Halo.C01.c01Reserves_of_not_window h hw hy

/-- the unrestricted statement is false: the ask reserve can be emptied … -/
theorem C01_full_is_false_empties :
    computeSwap 1 1 2000000000000000000 3000000000000000 = .ok (1, 1999999999999999999, 0) ∧
    Spec.c01 1 1 2000000000000000000 1 = false := by decide

/-- … and the product can decrease, on the very input the repository's own test
`test_compute_swap_with_huge_ask_pool_and_offer_pool` pins to return 1 -/
theorem C01_full_is_false_pinned :
    computeSwap 340282366920938463463374607431 340282366920938463463374607431 1 30000000000000000
      = .ok (1, 0, 0) ∧
    Spec.c01 340282366920938463463374607431 340282366920938463463374607431 1 1 = false ∧
    Spec.c01Reserves 340282366920938463463374607431 340282366920938463463374607431
      (340282366920938463463374607431 + 1) (340282366920938463463374607431 - 1) = false := by decide

/-- non-vacuity: a successful, out-of-window swap with non-trivial output -/
example : computeSwap 1000000 2000000 1000 3000000000000000 = .ok (1993, 2, 5) ∧
    inWindow 1000000 2000000 1000 = false := by decide

end Halo.Props.C01
