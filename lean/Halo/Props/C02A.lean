/-
C02, the credit side for general funds.  `Halo/Props/C02.lean` describes a direct swap from the world
`w0` at handler entry and gives "attached funds credited" only for single-coin funds
(`attach_single_effect`).  Here: the effect of the funds transfer for *any* coin list with pairwise
distinct denoms (the chain rejects duplicated denoms; cw-multi-test does not — DESIGN §6 C09), the
delivery of the native offer of a direct swap as a corollary, and the case `C02.swap_native_effect` /
`swap_hook_effect` leave open: the receiver of the swap is the pair itself.

`Halo.CallSites.coinOf funds d` is the amount of denom `d` the contract sees in `funds`,

  def coinOf (funds : List (Nat × Nat)) (d : Nat) : Nat := ((funds.find? (fun c => c.1 = d)).map (·.2)).getD 0

(first coin of that denom, 0 if absent) — the very quantity `Spec.c09` compares a declaration with.
-/
import Halo.Proofs.CallSites

namespace Halo.Props.C02A
open Halo
open Halo.CallSites (coinOf)

theorem c09_iff_coinOf {d amt : Nat} {funds : List (Nat × Nat)} :
    Spec.c09 d amt funds = true ↔ coinOf funds d = amt :=
  Halo.CallSites.c09_iff_coinOf

/-- `attach` (the funds of an execute message): for every denom the receiving contract's balance rises by
exactly the amount of that denom in the funds, the sender's falls by exactly that, and no other account
and no cw20 balance changes -/
theorem attach_effect {w w0 : World} {s p : Nat} {funds : List (Nat × Nat)} (hsp : s ≠ p)
    (hnd : (funds.map (·.1)).Nodup) (h : attach w s p funds = .ok w0) :
    (∀ d, bal w0 (.native d) p = bal w (.native d) p + coinOf funds d) ∧
    (∀ d, bal w0 (.native d) s + coinOf funds d = bal w (.native d) s) ∧
    (∀ d z, z ≠ s → z ≠ p → bal w0 (.native d) z = bal w (.native d) z) ∧
    (∀ t z, bal w0 (.token t) z = bal w (.token t) z) :=
  Halo.CallSites.attach_effect hsp hnd h

/-- a successful direct swap of `amt` of denom `d`: the funds carry exactly `amt` of `d`, and at handler
entry the pair's balance of `d` is its pre-transaction balance plus exactly `amt`, paid by the sender -/
theorem swap_native_delivered {w w' : World} {s p d amt : Nat} {funds : List (Nat × Nat)}
    {b ms toAddr : Option Nat} {out : Out} (hsp : s ≠ p) (hnd : (funds.map (·.1)).Nodup)
    (h : pairExec w s p funds (.swap (.native d) amt b ms toAddr) = .ok (w', out)) :
    ∃ P w0 o, w.pair p = some P ∧ attach w s p funds = .ok w0 ∧
      pairSwap w0 p P funds s (.native d) amt b ms toAddr = .ok (w', o) ∧ out = .swap o ∧
      coinOf funds d = amt ∧
      bal w0 (.native d) p = bal w (.native d) p + amt ∧
      bal w0 (.native d) s + amt = bal w (.native d) s :=
  Halo.CallSites.swap_native_delivered hsp hnd h

/-- the receiver is the pair itself (`to = pair`, or the pair trading with itself): the payout goes from
the pair to the pair, so after handler entry no balance of any account in any asset changes — in
particular nothing leaves the ask reserve -/
theorem swap_to_self {w0 w' : World} {p : Nat} {P : PairSt} {funds : List (Nat × Nat)} {trader : Nat}
    {offer : Asset} {amt : Nat} {b ms toAddr : Option Nat} {o : SwapOut}
    (hself : toAddr.getD trader = p)
    (h : pairSwap w0 p P funds trader offer amt b ms toAddr = .ok (w', o)) :
    (∀ a z, bal w' a z = bal w0 a z) ∧ (∀ t, supply w' t = supply w0 t) :=
  Halo.CallSites.swap_to_self hself h

/-- … for the direct entry point -/
theorem exec_swap_to_self {w w' : World} {s p d amt : Nat} {funds : List (Nat × Nat)}
    {b ms toAddr : Option Nat} {out : Out} (hself : toAddr.getD s = p)
    (h : pairExec w s p funds (.swap (.native d) amt b ms toAddr) = .ok (w', out)) :
    ∃ P w0 o, w.pair p = some P ∧ attach w s p funds = .ok w0 ∧ out = .swap o ∧
      bal w' o.ask p = bal w0 o.ask p ∧
      (∀ a z, bal w' a z = bal w0 a z) ∧ (∀ t, supply w' t = supply w0 t) :=
  Halo.CallSites.exec_swap_to_self hself h

/-- … and for the cw20 `Send` hook -/
theorem hook_swap_to_self {w w' : World} {t u p amt a : Nat} {offer : Asset}
    {b ms toAddr : Option Nat} {out : Out} (hself : toAddr.getD u = p)
    (h : tokSendPair w t u p amt (.swap offer a b ms toAddr) = .ok (w', out)) :
    ∃ P w0 o, w.pair p = some P ∧ tokTransfer w t u p amt = .ok w0 ∧ out = .swap o ∧
      bal w' o.ask p = bal w0 o.ask p ∧
      (∀ x z, bal w' x z = bal w0 x z) ∧ (∀ v, supply w' v = supply w0 v) :=
  Halo.CallSites.hook_swap_to_self hself h

end Halo.Props.C02A
