/-
C03 — LP share value never decreases (arithmetic core and the three pricing functions).

`NonDecr (r0, r1, S) (r0', r1', S')` (Halo/Inv.lean): a positive supply stays positive and
`r0·r1/S² ≤ r0'·r1'/S'²` (cross-multiplied).  The full statement is false of the code for the same
reason as C01 (defect D1, known finding KF-SWAP-WINDOW): an in-window swap lowers the product.  Proved
here: every other ingredient — provisions, withdrawals, out-of-window swaps, donations, burns — never
lowers the share value, and the relation composes over histories.
-/
import Halo.Proofs.C03

namespace Halo.Props.C03
open Halo

theorem nonDecr_refl (v : Nat × Nat × Nat) : NonDecr v v := Halo.C03.nonDecr_refl v

/-- the relation composes, so it lifts from steps to histories -/
theorem nonDecr_trans {a b c : Nat × Nat × Nat} (h1 : NonDecr a b) (h2 : NonDecr b c) : NonDecr a c :=
  Halo.C03.nonDecr_trans h1 h2

/-- over any list of views each related to the next, the first is related to the last -/
theorem nonDecr_chain (v : Nat × Nat × Nat) (vs : List (Nat × Nat × Nat))
    (h : List.IsChain NonDecr (v :: vs)) : NonDecr v ((v :: vs).getLast (List.cons_ne_nil _ _)) :=
  Halo.C03.nonDecr_chain v vs h

/-- provision: share minted at or below both deposit ratios -/
theorem provide_nondecr {r0 r1 S d0 d1 m : Nat} (h0 : m * r0 ≤ d0 * S) (h1 : m * r1 ≤ d1 * S) :
    NonDecr (r0, r1, S) (r0 + d0, r1 + d1, S + m) := Halo.C03.provide_nondecr h0 h1

/-- withdrawal: refunds at or below the pro-rata share (the reserved unit keeps `a < S`) -/
theorem withdraw_nondecr {r0 r1 S x0 x1 a : Nat} (h0 : x0 * S ≤ r0 * a) (h1 : x1 * S ≤ r1 * a) (ha : a < S) :
    NonDecr (r0, r1, S) (r0 - x0, r1 - x1, S - a) := Halo.C03.withdraw_nondecr h0 h1 ha

/-- swap in either direction with a non-decreasing product -/
theorem swap_nondecr {x y x' y' S : Nat} (h : x * y ≤ x' * y') : NonDecr (x, y, S) (x', y', S) :=
  Halo.C03.swap_nondecr h

/-- direct donations to the pair -/
theorem donation_nondecr (r0 r1 S e0 e1 : Nat) : NonDecr (r0, r1, S) (r0 + e0, r1 + e1, S) :=
  Halo.C03.donation_nondecr r0 r1 S e0 e1

/-- a holder burning its own LP tokens -/
theorem burn_nondecr {r0 r1 S b : Nat} (hb : b < S) : NonDecr (r0, r1, S) (r0, r1, S - b) :=
  Halo.C03.burn_nondecr hb

/-- the share formula of the code satisfies the provision premise … -/
theorem lpShare_nondecr {sender : Nat} {req : Requirements} {S d0 d1 p0 p1 m : Nat}
    (hS : S ≠ 0) (h : lpShare sender req S d0 d1 p0 p1 = .ok m) :
    NonDecr (p0, p1, S) (p0 + d0, p1 + d1, S + m) := Halo.C03.lpShare_nondecr hS h

/-- … the refund formula the withdrawal premise … -/
theorem refund_nondecr {r0 r1 a S x0 x1 : Nat}
    (h0 : withdrawRefund r0 a S = .ok x0) (h1 : withdrawRefund r1 a S = .ok x1) (ha : a < S) :
    NonDecr (r0, r1, S) (r0 - x0, r1 - x1, S - a) := Halo.C03.refund_nondecr h0 h1 ha

/-- … and the pricing function the swap premise, outside the window (commission stays in the pool) -/
theorem computeSwap_nondecr {x y a c n s k S : Nat}
    (h : computeSwap x y a c = .ok (n, s, k)) (hw : inWindow x y a = false) :
    NonDecr (x, y, S) (x + a, y - n, S) ∧ NonDecr (y, x, S) (y - n, x + a, S) :=
  Halo.C03.computeSwap_nondecr h hw

/-- the unrestricted statement is false: on the input a repository test pins, the share value drops -/
theorem C03_full_is_false :
    computeSwap 340282366920938463463374607431 340282366920938463463374607431 1 30000000000000000 = .ok (1, 0, 0) ∧
    ¬ NonDecr (340282366920938463463374607431, 340282366920938463463374607431, 340282366920938463463374607431)
              (340282366920938463463374607431 + 1, 340282366920938463463374607431 - 1, 340282366920938463463374607431) :=
  Halo.C03.C03_full_is_false

example : NonDecr (1000, 4000, 2000) (1000 + 100, 4000 + 401, 2000 + 200) := by
  unfold NonDecr; decide

end Halo.Props.C03
