/-
C03 at system level — LP share value never decreases over any history.

`viewOf w p a0 a1 lp = (reserve0, reserve1, LP supply)` with the pair's *actual* balances.
`step_nondecr`: every operation of every external actor (provide, withdraw, swaps in either direction and
through either entry point, router routes, donations, LP transfers and burns, factory messages, malformed and
rejected calls) either leaves `reserve0·reserve1/S²` non-decreasing, or performs an in-window swap on that pair
(`WindowedOn`, defect D1 / known finding KF-SWAP-WINDOW) — and preserves the invariant `PairInv` that makes the
statement inductive.  `history_nondecr` lifts it to all finite histories: **C03_partial** — the full statement
minus exactly the in-window swaps (whose effect is a proved counterexample, Halo.Props.C03.C03_full_is_false).
-/
import Halo.Proofs.C03W

namespace Halo.Props.C03W
open Halo

/-- one step -/
theorem step_nondecr {name : Asset → String} {w w' : World} {op : Op} {out : Out} {p : Nat} {a0 a1 : Asset} {lp : Nat}
    (hinv : PairInv w p a0 a1 lp) (hv : ValidOp w op) (h : exec name w op = .ok (w', out)) :
    PairInv w' p a0 a1 lp ∧ (NonDecr (viewOf w p a0 a1 lp) (viewOf w' p a0 a1 lp) ∨ WindowedOn w op p) :=
  Halo.C03W.step_nondecr hinv hv h

/-- a rejected step changes nothing -/
theorem failed_step {name : Asset → String} {w : World} {op : Op} {e : Err} (h : exec name w op = .error e) :
    step name w op = w := by unfold step; rw [h]

/-- **C03_partial**: along any history of external actors' operations none of whose swaps on `p` is in the
window, the share value of `p` at the end is at least its value at the start -/
theorem history_nondecr {name : Asset → String} {p : Nat} {a0 a1 : Asset} {lp : Nat} (ops : List Op) (w : World)
    (hinv : PairInv w p a0 a1 lp) (hv : ValidRun name w ops) (hnw : NoWindowRun name p w ops) :
    PairInv (run name w ops) p a0 a1 lp ∧
    NonDecr (viewOf w p a0 a1 lp) (viewOf (run name w ops) p a0 a1 lp) :=
  Halo.C03W.history_nondecr ops w hinv hv hnw

/-- once the supply is positive it stays positive (the reserved unit can never be withdrawn) -/
theorem supply_stays_positive {name : Asset → String} {p : Nat} {a0 a1 : Asset} {lp : Nat} (ops : List Op) (w : World)
    (hinv : PairInv w p a0 a1 lp) (hv : ValidRun name w ops) (hpos : 0 < supply w lp) :
    0 < supply (run name w ops) lp :=
  Halo.C03W.supply_stays_positive ops w hinv hv hpos

/-- C01 at system level: every successful swap — sent directly, through a cw20 send hook, or through the
router — that is not in the window leaves the product of the pair's two actual reserves at least as large
as before the transaction, and positive reserves stay strictly positive (**C01_partial**, system level) -/
theorem swap_product {name : Asset → String} {w w' : World} {op : Op} {out : Out} {p : Nat} {a0 a1 : Asset} {lp : Nat}
    (hinv : PairInv w p a0 a1 lp) (hv : ValidOp w op) (hs : IsSwapOp op) (h : exec name w op = .ok (w', out))
    (hnw : ¬ WindowedOn w op p) :
    bal w a0 p * bal w a1 p ≤ bal w' a0 p * bal w' a1 p ∧
    (0 < bal w a0 p → 0 < bal w a1 p → 0 < bal w' a0 p ∧ 0 < bal w' a1 p) :=
  Halo.C03W.swap_product hinv hv hs h hnw

end Halo.Props.C03W
