/-
C13 at system level without the restrictions of `Halo/Props/C13W.lean` (audit items):

  (i)   cyclic routes: `route_passthrough` (C13W) states the recipient's gain only for `first ≠ target`.
        `route_passthrough_cyclic` drops that condition: for a → x → y → a the recipient's balance of the
        target (= first) asset rises by exactly the quote, and the router ends with zero of it.
  (ii)  the recipient may be a pair of the route (a donation to that pool): `route_effect` gives the complete
        effect of a route on EVERY balance for any recipient other than the router; `route_rcv_pair` reads it
        at a recipient that is a route pair; `route_rcv_last_pair` is the counterexample to "the recipient's
        target balance rises by the quote": when the recipient is the LAST hop's pair, that pair pays the
        quote to itself and its target balance does not change at all.
        (A recipient equal to the router is excluded: then the output stays in the router and clause
        "the router ends with zero of every route asset" is false.)
  (iii) transaction level: `exec_route_passthrough` (direct `ExecuteSwapOperations` with the input attached)
        and `exec_tokSend_passthrough` (cw20 `Send` to the router) link "the input" to the amount
        attached / sent and "the quote" to `routerSimulateTop` evaluated in the PRE-transaction world
        (`quote_attach`, `quote_tokTransfer`: crediting the router changes no quote).
        `exec_route_effect` / `exec_tokSend_effect` are the same for any recipient other than the router.
-/
import Halo.Proofs.C13X

namespace Halo.Props.C13X
open Halo

/- Declared in `Halo/Proofs/C13W.lean` / `Halo/Proofs/C13X.lean` (the proofs need to mention them):

structure RouteOK (w : World) (rcv : Nat) (ops : List (Asset × Asset)) : Prop      -- see Halo/Props/C13W.lean

/-- `b` is one of the assets of the route -/
def OnRoute (b : Asset) (ops : List (Asset × Asset)) : Prop := ∃ h ∈ ops, b = h.1 ∨ b = h.2

/-- `z` is not the pair of any hop of the route -/
def NotRoutePair (w : World) (ops : List (Asset × Asset)) (z : Nat) : Prop :=
  ∀ h ∈ ops, ∀ R, facLookup w h.1 h.2 = some R → R.pair ≠ z

/-- `RouteOK` without its conditions on the recipient (and without `routerNoPair`) -/
structure RouteOK' (w : World) (ops : List (Asset × Asset)) : Prop where
  resolves : ∀ h ∈ ops, ∃ R P, facLookup w h.1 h.2 = some R ∧ w.pair R.pair = some P ∧
      ((P.a0 = h.1 ∧ P.a1 = h.2) ∨ (P.a0 = h.2 ∧ P.a1 = h.1)) ∧ h.1 ≠ h.2 ∧ R.pair ≠ w.router
  distinctPairs : (ops.map fun h => (facLookup w h.1 h.2).map (·.pair)).Nodup
  routerEmpty : ∀ h ∈ ops, ∀ b, (b = h.1 ∨ b = h.2) → b ≠ (ops.head?.map (·.1)).getD b → bal w b w.router = 0
-/
open Halo.C13W (RouteOK OnRoute)
open Halo.C13X (RouteOK' NotRoutePair)

/-! ### (i) cyclic routes -/

/-- for any route over pairwise distinct pairs (cyclic or not), executed while the router holds none of the
route's assets except the input `amt` of the first offer asset, with a recipient that is neither the router
nor a pair of the route: the recipient's balance of the target asset rises by exactly the quote — also when
the target is the first asset; every route asset ends at zero in the router; no other asset reaches the
recipient; assets off the route do not move at all -/
theorem route_passthrough_cyclic {w w' : World} {rcv amt : Nat} {first : Asset} {ops : List (Asset × Asset)}
    (hok : RouteOK w rcv ops) (hfirst : ops.head?.map (·.1) = some first)
    (hamt : bal w first w.router = amt) (h : routerHops w rcv ops = .ok w') :
    ∃ target q, ops.getLast?.map (·.2) = some target ∧ routerSimulateTop w amt ops = .ok q ∧
      bal w' target rcv = bal w target rcv + q ∧
      (∀ b, OnRoute b ops → bal w' b w.router = 0) ∧
      (∀ b, b ≠ target → bal w' b rcv = bal w b rcv) ∧
      (∀ b, ¬ OnRoute b ops → ∀ z, bal w' b z = bal w b z) :=
  Halo.C13X.route_passthrough_cyclic hok hfirst hamt h

/-! ### (ii) any recipient other than the router -/

/-- `RouteOK` is `RouteOK'` plus: the recipient is not the router and not a pair of the route -/
theorem routeOK_weaken {w : World} {rcv : Nat} {ops : List (Asset × Asset)} (hok : RouteOK w rcv ops) :
    RouteOK' w ops ∧ rcv ≠ w.router ∧ NotRoutePair w ops rcv :=
  Halo.C13X.RouteOK.weaken hok

/-- the complete effect of one hop: the router's whole balance of the offer asset goes to the pair, the pair
pays the quoted `n` of the ask asset to the recipient — which may be the pair itself or the router —, and
nothing else moves (additive form, so that a self-payment is covered) -/
theorem hop_full {w w1 : World} {o a : Asset} {tgt : Option Nat} {R : Record} {P : PairSt}
    (hR : facLookup w o a = some R) (hP : w.pair R.pair = some P)
    (hPa : (P.a0 = o ∧ P.a1 = a) ∨ (P.a0 = a ∧ P.a1 = o)) (hoa : o ≠ a)
    (hpr : R.pair ≠ w.router)
    (h : routerHop w w.router o a tgt = .ok w1) :
    ∃ n s k, bal w o w.router ≠ 0 ∧
      qSimulation w R.pair o (bal w o w.router) = .ok (n, s, k) ∧
      (∀ c z, bal w1 c z + (if c = o ∧ z = w.router then bal w o w.router else 0) +
            (if c = a ∧ z = R.pair then n else 0) =
          bal w c z + (if c = o ∧ z = R.pair then bal w o w.router else 0) +
            (if c = a ∧ z = tgt.getD w.router then n else 0)) ∧
      Same w w1 ∧ SameToks w w1 :=
  Halo.C13X.hop_full hR hP hPa hoa hpr h

/-- a successful simulation splits at every hop: the prefix quotes the hop's input `x`, the hop's pair quotes
`y` for it, the rest of the route turns `y` into the final quote -/
theorem routerSimulate_split {w : World} (pre : List (Asset × Asset)) {o a : Asset}
    {post : List (Asset × Asset)} {amt q : Nat}
    (h : routerSimulate w amt (pre ++ (o, a) :: post) = .ok q) :
    ∃ R x y s k, facLookup w o a = some R ∧ routerSimulate w amt pre = .ok x ∧
      qSimulation w R.pair o x = .ok (y, s, k) ∧ routerSimulate w y post = .ok q :=
  Halo.C13X.routerSimulate_split pre h

/-- the complete effect of a route for ANY recipient other than the router: the quote `q` for the router's
input balance in the same state; every route asset ends at zero in the router; assets off the route do not
move; an account that is neither the router nor a pair of the route is untouched except that the recipient
receives `q` of the target asset; the pair of each hop receives the hop's input `x` (the quote of the
prefix) and pays the hop's quote `y` — plus `q` of the target asset if that pair is the recipient -/
theorem route_effect {w w' : World} {rcv amt : Nat} {first : Asset} {ops : List (Asset × Asset)}
    (hok : RouteOK' w ops) (hrr : rcv ≠ w.router) (hfirst : ops.head?.map (·.1) = some first)
    (hamt : bal w first w.router = amt) (h : routerHops w rcv ops = .ok w') :
    ∃ target q, ops.getLast?.map (·.2) = some target ∧ routerSimulateTop w amt ops = .ok q ∧
      (∀ b, OnRoute b ops → bal w' b w.router = 0) ∧
      (∀ b, ¬ OnRoute b ops → ∀ z, bal w' b z = bal w b z) ∧
      (∀ z, z ≠ w.router → NotRoutePair w ops z → ∀ b,
        bal w' b z = bal w b z + (if z = rcv ∧ b = target then q else 0)) ∧
      (∀ pre o a post, ops = pre ++ (o, a) :: post →
        ∃ R x y s k, facLookup w o a = some R ∧ routerSimulate w amt pre = .ok x ∧
          qSimulation w R.pair o x = .ok (y, s, k) ∧ routerSimulate w y post = .ok q ∧
          ∀ b, bal w' b R.pair + (if b = a then y else 0) =
            bal w b R.pair + (if b = o then x else 0) + (if R.pair = rcv ∧ b = target then q else 0)) :=
  Halo.C13X.route_effect_top hok hrr hfirst hamt h

/-- the recipient is the pair of a hop of the route: its balances change by its own hop (it receives the
hop's input `x` of `o` and pays the hop's quote `y` of `a`) and by the final payment of the route's quote `q`
of the target asset -/
theorem route_rcv_pair {w w' : World} {rcv amt : Nat} {first : Asset} {ops pre post : List (Asset × Asset)}
    {o a : Asset} {R : Record}
    (hok : RouteOK' w ops) (hrr : rcv ≠ w.router) (hfirst : ops.head?.map (·.1) = some first)
    (hamt : bal w first w.router = amt) (h : routerHops w rcv ops = .ok w')
    (hsplit : ops = pre ++ (o, a) :: post) (hR : facLookup w o a = some R) (hrcv : R.pair = rcv) :
    ∃ target q x y s k, ops.getLast?.map (·.2) = some target ∧ routerSimulateTop w amt ops = .ok q ∧
      routerSimulate w amt pre = .ok x ∧ qSimulation w rcv o x = .ok (y, s, k) ∧
      routerSimulate w y post = .ok q ∧
      ∀ b, bal w' b rcv + (if b = a then y else 0) =
        bal w b rcv + (if b = o then x else 0) + (if b = target then q else 0) :=
  Halo.C13X.route_rcv_pair hok hrr hfirst hamt h hsplit hR hrcv

/-- counterexample to "the recipient's target balance rises by the quote" for a recipient that is a pair of
the route: if it is the LAST hop's pair, the quote is paid by the pair to itself — its balance of the target
asset is unchanged, and it keeps the last hop's input -/
theorem route_rcv_last_pair {w w' : World} {rcv amt : Nat} {first : Asset} {ops pre : List (Asset × Asset)}
    {o a : Asset} {R : Record}
    (hok : RouteOK' w ops) (hrr : rcv ≠ w.router) (hfirst : ops.head?.map (·.1) = some first)
    (hamt : bal w first w.router = amt) (h : routerHops w rcv ops = .ok w')
    (hsplit : ops = pre ++ [(o, a)]) (hR : facLookup w o a = some R) (hrcv : R.pair = rcv) :
    ∃ q x, routerSimulateTop w amt ops = .ok q ∧ routerSimulate w amt pre = .ok x ∧
      bal w' a rcv = bal w a rcv ∧ bal w' o rcv = bal w o rcv + x ∧
      ∀ b, b ≠ o → b ≠ a → bal w' b rcv = bal w b rcv :=
  Halo.C13X.route_rcv_last_pair hok hrr hfirst hamt h hsplit hR hrcv

/-! ### (iii) transaction level -/

/-- the handler `execute_swap_operations` is the hops of its route (no route hypothesis needed) -/
theorem swapOps_hops {name : Asset → String} {w w' : World} {sender : Nat} {ops : List (Asset × Asset)}
    {mn tgt : Option Nat} (h : routerSwapOps name w sender ops mn tgt = .ok w') :
    routerHops w (tgt.getD sender) ops = .ok w' :=
  Halo.C13X.swapOps_hops h

/-- attaching funds (any coin list) to the router changes no pair's reserves: the router's quote for any
route and any input is the same before and after the funds arrive -/
theorem quote_attach {w w0 : World} {s : Nat} {funds : List (Nat × Nat)}
    (hat : attach w s w.router funds = .ok w0) (hsp : (w.pair s).isNone) (hrp : (w.pair w.router).isNone)
    (ops : List (Asset × Asset)) (n : Nat) : routerSimulateTop w0 n ops = routerSimulateTop w n ops :=
  Halo.C13X.quote_attach hat hsp hrp ops n

/-- the same for the cw20 transfer that precedes the router's `Receive` -/
theorem quote_tokTransfer {w w0 : World} {t s amt : Nat}
    (htr : tokTransfer w t s w.router amt = .ok w0) (hsp : (w.pair s).isNone) (hrp : (w.pair w.router).isNone)
    (ops : List (Asset × Asset)) (n : Nat) : routerSimulateTop w0 n ops = routerSimulateTop w n ops :=
  Halo.C13X.quote_tokTransfer htr hsp hrp ops n

/-- transaction, direct entry.  An external actor `s` submits `ExecuteSwapOperations` with `amt` of denom `d`
attached; the route starts with `.native d`, its hops resolve to pairwise distinct pairs, the router holds
none of the route's assets in the pre-transaction world `w`, and the recipient `toAddr.getD s` is neither the
router nor a pair of the route (all bundled in `RouteOK w` + `h0`).  Then, with `q` the router's quote for
`amt` in `w`: the recipient's balance of the target asset rises by exactly `q`, net of the input when the
recipient itself paid it in the target asset (cyclic route); no other asset of the recipient changes except
that it paid the input if it is the sender; all of `amt` leaves the sender; the router ends with zero of
every route asset; assets off the route do not move -/
theorem exec_route_passthrough {name : Asset → String} {w w' : World} {s d amt : Nat}
    {ops : List (Asset × Asset)} {mn toAddr : Option Nat} {out : Out}
    (hok : RouteOK w (toAddr.getD s) ops)
    (hfirst : ops.head?.map (·.1) = some (.native d))
    (h0 : bal w (.native d) w.router = 0)
    (hact : IsActor w s)
    (h : exec name w (.router s [(d, amt)] (.swapOps ops mn toAddr)) = .ok (w', out)) :
    ∃ target q, ops.getLast?.map (·.2) = some target ∧ routerSimulateTop w amt ops = .ok q ∧
      amt ≠ 0 ∧ amt ≤ bal w (.native d) s ∧
      bal w' target (toAddr.getD s) = bal w target (toAddr.getD s) + q -
        (if toAddr.getD s = s ∧ target = .native d then amt else 0) ∧
      (∀ b, bal w' b (toAddr.getD s) + (if toAddr.getD s = s ∧ b = .native d then amt else 0) =
        bal w b (toAddr.getD s) + (if b = target then q else 0)) ∧
      (toAddr.getD s ≠ s → ∀ b, bal w' b s + (if b = .native d then amt else 0) = bal w b s) ∧
      (∀ b, OnRoute b ops → bal w' b w.router = 0) ∧
      (∀ b, ¬ OnRoute b ops → ∀ z, bal w' b z = bal w b z) :=
  Halo.C13X.exec_route_passthrough hok hfirst h0 hact h

/-- transaction, cw20 entry: `Send` of `amt` of token `t` to the router carrying the route; as above with
`.token t` for the first offer asset -/
theorem exec_tokSend_passthrough {name : Asset → String} {w w' : World} {t s amt : Nat}
    {ops : List (Asset × Asset)} {mn toAddr : Option Nat} {out : Out}
    (hok : RouteOK w (toAddr.getD s) ops)
    (hfirst : ops.head?.map (·.1) = some (.token t))
    (h0 : bal w (.token t) w.router = 0)
    (hact : IsActor w s)
    (h : exec name w (.tokSend t s w.router amt (.routerOps ops mn toAddr)) = .ok (w', out)) :
    ∃ target q, ops.getLast?.map (·.2) = some target ∧ routerSimulateTop w amt ops = .ok q ∧
      amt ≠ 0 ∧ amt ≤ bal w (.token t) s ∧
      bal w' target (toAddr.getD s) = bal w target (toAddr.getD s) + q -
        (if toAddr.getD s = s ∧ target = .token t then amt else 0) ∧
      (∀ b, bal w' b (toAddr.getD s) + (if toAddr.getD s = s ∧ b = .token t then amt else 0) =
        bal w b (toAddr.getD s) + (if b = target then q else 0)) ∧
      (toAddr.getD s ≠ s → ∀ b, bal w' b s + (if b = .token t then amt else 0) = bal w b s) ∧
      (∀ b, OnRoute b ops → bal w' b w.router = 0) ∧
      (∀ b, ¬ OnRoute b ops → ∀ z, bal w' b z = bal w b z) :=
  Halo.C13X.exec_tokSend_passthrough hok hfirst h0 hact h

/-- transaction, direct entry, any recipient other than the router (it may be a pair of the route): the
complete effect on every balance relative to the pre-transaction world, the quote and all per-hop amounts
being the router's / the pairs' simulations in the pre-transaction world -/
theorem exec_route_effect {name : Asset → String} {w w' : World} {s d amt : Nat}
    {ops : List (Asset × Asset)} {mn toAddr : Option Nat} {out : Out}
    (hok : RouteOK' w ops) (hrr : toAddr.getD s ≠ w.router)
    (hfirst : ops.head?.map (·.1) = some (.native d))
    (h0 : bal w (.native d) w.router = 0)
    (hact : IsActor w s)
    (h : exec name w (.router s [(d, amt)] (.swapOps ops mn toAddr)) = .ok (w', out)) :
    ∃ target q, ops.getLast?.map (·.2) = some target ∧ routerSimulateTop w amt ops = .ok q ∧
      amt ≠ 0 ∧ amt ≤ bal w (.native d) s ∧
      (∀ b, OnRoute b ops → bal w' b w.router = 0) ∧
      (∀ b, ¬ OnRoute b ops → ∀ z, bal w' b z = bal w b z) ∧
      (∀ z, z ≠ w.router → NotRoutePair w ops z → ∀ b,
        bal w' b z + (if z = s ∧ b = .native d then amt else 0) =
          bal w b z + (if z = toAddr.getD s ∧ b = target then q else 0)) ∧
      (∀ pre o a post, ops = pre ++ (o, a) :: post →
        ∃ R x y s' k, facLookup w o a = some R ∧ routerSimulate w amt pre = .ok x ∧
          qSimulation w R.pair o x = .ok (y, s', k) ∧ routerSimulate w y post = .ok q ∧
          ∀ b, bal w' b R.pair + (if b = a then y else 0) =
            bal w b R.pair + (if b = o then x else 0) +
              (if R.pair = toAddr.getD s ∧ b = target then q else 0)) :=
  Halo.C13X.exec_route_effect hok hrr hfirst h0 hact h

/-- transaction, cw20 entry, any recipient other than the router -/
theorem exec_tokSend_effect {name : Asset → String} {w w' : World} {t s amt : Nat}
    {ops : List (Asset × Asset)} {mn toAddr : Option Nat} {out : Out}
    (hok : RouteOK' w ops) (hrr : toAddr.getD s ≠ w.router)
    (hfirst : ops.head?.map (·.1) = some (.token t))
    (h0 : bal w (.token t) w.router = 0)
    (hact : IsActor w s)
    (h : exec name w (.tokSend t s w.router amt (.routerOps ops mn toAddr)) = .ok (w', out)) :
    ∃ target q, ops.getLast?.map (·.2) = some target ∧ routerSimulateTop w amt ops = .ok q ∧
      amt ≠ 0 ∧ amt ≤ bal w (.token t) s ∧
      (∀ b, OnRoute b ops → bal w' b w.router = 0) ∧
      (∀ b, ¬ OnRoute b ops → ∀ z, bal w' b z = bal w b z) ∧
      (∀ z, z ≠ w.router → NotRoutePair w ops z → ∀ b,
        bal w' b z + (if z = s ∧ b = .token t then amt else 0) =
          bal w b z + (if z = toAddr.getD s ∧ b = target then q else 0)) ∧
      (∀ pre o a post, ops = pre ++ (o, a) :: post →
        ∃ R x y s' k, facLookup w o a = some R ∧ routerSimulate w amt pre = .ok x ∧
          qSimulation w R.pair o x = .ok (y, s', k) ∧ routerSimulate w y post = .ok q ∧
          ∀ b, bal w' b R.pair + (if b = a then y else 0) =
            bal w b R.pair + (if b = o then x else 0) +
              (if R.pair = toAddr.getD s ∧ b = target then q else 0)) :=
  Halo.C13X.exec_tokSend_effect hok hrr hfirst h0 hact h

/-! ### non-vacuity: a concrete cyclic route

`Halo.C13X.Example.wE` (declared in `Halo/Proofs/C13X.lean`): users 1 2, factory 6, router 7, three pools over
the native denoms 0 1 2 forming a triangle — pair 11 (0/1), pair 13 (1/2), pair 15 (2/0); `cyc` is the route
0 → 1 → 2 → 0, accepted by `assert_operations`; `gain r b` is the change of `r`'s balance of `b` when user 2
submits `ExecuteSwapOperations cyc` with 5000 of denom 0 attached and recipient `r`. -/

open Halo.C13X.Example (wE cyc nameE gain)

/-- the hypotheses of `exec_route_passthrough` hold for the cyclic route with user 2 as sender and recipient -/
theorem routeOK_cyc : RouteOK wE 2 cyc := Halo.C13X.Example.routeOK_cyc

theorem cyc_quote : routerSimulateTop wE 5000 cyc = .ok 5032 := Halo.C13X.Example.cyc_quote

/-- `exec_route_passthrough` on the cyclic route, sender = recipient: user 2 ends with exactly
`quote − input` = 32 more of denom 0; the router ends with none of the three denoms -/
theorem cyc_effect : ∃ w' out, exec nameE wE (.router 2 [(0, 5000)] (.swapOps cyc none none)) = .ok (w', out) ∧
    bal w' (.native 0) 2 = 10000032 ∧
    bal w' (.native 0) 7 = 0 ∧ bal w' (.native 1) 7 = 0 ∧ bal w' (.native 2) 7 = 0 ∧
    bal w' (.native 1) 2 = 10000000 ∧ bal w' (.native 2) 2 = 10000000 :=
  Halo.C13X.Example.cyc_effect

/-- a third-party recipient receives exactly the quote in the target (= first) denom -/
theorem gain_user : gain 1 (.native 0) = some 5032 := Halo.C13X.Example.gain_user

/-- the counterexample of (ii): the recipient is the LAST hop's pair; the quote is 5032 but its balance of
the target denom does not change (it keeps the last hop's input 4930 of denom 2) -/
theorem gain_last_pair : gain 15 (.native 0) = some 0 ∧ gain 15 (.native 2) = some 4930 :=
  Halo.C13X.Example.gain_last_pair

/-- the recipient is the FIRST hop's pair: +input +quote in denom 0, −(its own hop's output) in denom 1 -/
theorem gain_first_pair : gain 11 (.native 0) = some (5000 + 5032) ∧ gain 11 (.native 1) = some (-9921) :=
  Halo.C13X.Example.gain_first_pair

end Halo.Props.C13X
