/-
C04 — withdrawal pays the pro-rata share: never more, at most dust less (function level:
the refund arithmetic of `withdraw_liquidity`, `pool * Decimal::from_ratio(amount, total_share)`).
-/
import Halo.Proofs.C04

namespace Halo.Props.C04
open Halo

/-- `r·a/S − r/10^18 − 1 < x ≤ r·a/S` -/
theorem refund_bounds {r a S x : Nat}
    (h : withdrawRefund r a S = .ok x) (ha : 1 ≤ a) (haS : a ≤ S) :
    Spec.c04 r a S x = true :=
  Halo.C04.refund_bounds h ha haS

/-- the refund never exceeds the reserve -/
theorem refund_le_reserve {r a S x : Nat}
    (h : withdrawRefund r a S = .ok x) (haS : a ≤ S) : x ≤ r :=
  Halo.C04.refund_le_reserve h haS

/-- the refund arithmetic cannot abort on a legal burn (`0 < S`, `a ≤ S`, 128-bit reserve) -/
theorem refund_total {r a S : Nat} (hS : 0 < S) (haS : a ≤ S) (hr : r < W) (hSW : S < W) :
    ∃ x, withdrawRefund r a S = .ok x :=
  Halo.C04.refund_total hS haS hr hSW

/-- success characterised exactly -/
theorem refund_ok_iff {r a S x : Nat} :
    withdrawRefund r a S = .ok x ↔
      S ≠ 0 ∧ a * E / S < W ∧ r * (a * E / S) / E < W ∧ x = r * (a * E / S) / E :=
  Halo.C04.refund_ok_iff

/-- an entitlement of at least `r/10^18 + 2` yields a refund of at least 2 (used by C20) -/
theorem refund_ge_two {r a S x : Nat}
    (h : withdrawRefund r a S = .ok x) (ha : 1 ≤ a) (haS : a ≤ S)
    (hent : (r + 2 * E) * S ≤ r * a * E) : 2 ≤ x :=
  Halo.C04.refund_ge_two h ha haS hent

/-- burning more never pays less (same reserve and supply) -/
theorem refund_mono_amount {r a a' S x x' : Nat}
    (h : withdrawRefund r a S = .ok x) (h' : withdrawRefund r a' S = .ok x') (haa : a ≤ a') :
    x ≤ x' :=
  Halo.C04.refund_mono_amount h h' haa

/-- a larger reserve (e.g. after a donation) never pays less for the same burn -/
theorem refund_mono_reserve {r r' a S x x' : Nat}
    (h : withdrawRefund r a S = .ok x) (h' : withdrawRefund r' a S = .ok x') (hrr : r ≤ r') :
    x ≤ x' :=
  Halo.C04.refund_mono_reserve h h' hrr

/-- "never more" under splitting: two burns priced against the same reserve and supply never pay
more than the single burn of their sum -/
theorem refund_superadditive {r a b S x y z : Nat}
    (ha : withdrawRefund r a S = .ok x) (hb : withdrawRefund r b S = .ok y)
    (hab : withdrawRefund r (a + b) S = .ok z) : x + y ≤ z :=
  Halo.C04.refund_superadditive ha hb hab

/-- the three hypotheses of `refund_superadditive` are jointly satisfiable, strictly -/
example : withdrawRefund 1000003 333 1000 = .ok 333000 ∧ withdrawRefund 1000003 334 1000 = .ok 334001 ∧
    withdrawRefund 1000003 667 1000 = .ok 667002 := by decide

example : withdrawRefund 1000003 333 1000 = .ok 333000 ∧ Spec.c04 1000003 333 1000 333000 = true := by decide

end Halo.Props.C04
