/-
C12 — quotes are faithful to execution (function level: the reverse formula `compute_offer_amount`
against the documented closed form `x·y/(y − ask/(1−c)) − x`).  The forward part
(simulation = execution) and the router folds are world-level theorems (Halo/Props/C12W.lean).
-/
import Halo.Proofs.C12
import Halo.Proofs.C12M

namespace Halo.Props.C12
open Halo

/-- the offer amount in closed integer form -/
theorem reverse_closed_form {x y b c o s k : Nat}
    (h : computeOfferAmount x y b c = .ok (o, s, k)) :
    c < E ∧ b * (E * E / (E - c)) / E < y ∧
    o = x * y / (y - b * (E * E / (E - c)) / E) - x :=
  Halo.C12.reverse_closed_form h

/-- never above the documented closed form on its domain (`c < 1`, `ask/(1−c) < y`) -/
theorem reverse_le_closed_form {x y b c o s k : Nat}
    (h : computeOfferAmount x y b c = .ok (o, s, k)) (hd : Spec.c12Domain y b c = true) :
    Spec.c12Reverse x y b c o = true :=
  Halo.C12.reverse_le_closed_form h hd

/-- below it by at most the stated rounding -/
theorem reverse_ge_closed_form {x y b c o s k : Nat}
    (h : computeOfferAmount x y b c = .ok (o, s, k)) (hd : Spec.c12Domain y b c = true) :
    Spec.c12ReverseLower x y b c o = true :=
  Halo.C12.reverse_ge_closed_form h hd

/-- the reported commission is `⌊c · ⌊ask/(1−c)⌋⌋` -/
theorem reverse_commission {x y b c o s k : Nat}
    (h : computeOfferAmount x y b c = .ok (o, s, k)) :
    k = b * (E * E / (E - c)) / E * c / E :=
  Halo.C12.reverse_commission h

/-- the reverse quote is monotone: asking for more never quotes a smaller required offer -/
theorem reverse_mono_ask {x y b b' c o s k o' s' k' : Nat}
    (h : computeOfferAmount x y b c = .ok (o, s, k))
    (h' : computeOfferAmount x y b' c = .ok (o', s', k')) (hb : b ≤ b') : o ≤ o' :=
  Halo.C12.reverse_mono_ask h h' hb

/-- non-vacuity of `reverse_mono_ask`, strictly -/
example : computeOfferAmount 1000000 2000000 1993 3000000000000000 = .ok (999, 0, 5) ∧
    computeOfferAmount 1000000 2000000 2989 3000000000000000 = .ok (1500, 3, 8) := by decide

example : computeOfferAmount 1000000 2000000 1993 3000000000000000 = .ok (999, 0, 5) ∧
    Spec.c12Domain 2000000 1993 3000000000000000 = true ∧
    Spec.c12Reverse 1000000 2000000 1993 3000000000000000 999 = true ∧
    Spec.c12ReverseLower 1000000 2000000 1993 3000000000000000 999 = true := by decide

end Halo.Props.C12
