/-
C15 — provision succeeds only within the caller's slippage tolerance
(function level: `assert_slippage_tolerance`; `t` in `Decimal` atomics).
-/
import Halo.Proofs.C15
import Halo.Proofs.C15M

namespace Halo.Props.C15
open Halo

/-- accepted ⇒ both `(d_i/d_j)(1−τ) < r_i/r_j + 2·10⁻¹⁸` -/
theorem slippage_sound {t d0 d1 r0 r1 : Nat}
    (h : assertSlippage (some t) d0 d1 r0 r1 = .ok ()) :
    Spec.c15Sound t d0 d1 r0 r1 = true :=
  Halo.C15.slippage_sound h

/-- rejected by the guard ⇒ not both `(d_i/d_j)(1−τ) ≤ r_i/r_j − 10⁻¹⁸` -/
theorem slippage_complete {t d0 d1 r0 r1 : Nat}
    (h : assertSlippage (some t) d0 d1 r0 r1 = .error .guard) :
    t ≤ E ∧ Spec.c15Complete t d0 d1 r0 r1 = true :=
  Halo.C15.slippage_complete h

/-- a tolerance above 100% is always rejected -/
theorem slippage_gt_one {t d0 d1 r0 r1 : Nat} (h : E < t) :
    assertSlippage (some t) d0 d1 r0 r1 = .error .err :=
  Halo.C15.slippage_gt_one h

/-- no tolerance, no check -/
theorem slippage_none {d0 d1 r0 r1 : Nat} : assertSlippage none d0 d1 r0 r1 = .ok () := rfl

/-- besides the guard and the >100% error the only failures are aborts, and those need a zero
deposit, a zero reserve or a 256-bit overflow of `d·10^18` / `r·10^18` / the ratio product -/
theorem slippage_no_abort {t d0 d1 r0 r1 : Nat} (ht : t ≤ E)
    (hd0 : 0 < d0) (hd1 : 0 < d1) (hr0 : 0 < r0) (hr1 : 0 < r1)
    (hd0W : d0 < W) (hd1W : d1 < W) (hr0W : r0 < W) (hr1W : r1 < W) :
    assertSlippage (some t) d0 d1 r0 r1 = .ok () ∨ assertSlippage (some t) d0 d1 r0 r1 = .error .guard :=
  Halo.C15.slippage_no_abort ht hd0 hd1 hr0 hr1 hd0W hd1W hr0W hr1W

/-- "only within the caller's tolerance" is monotone: a provision accepted at tolerance `t` is
accepted at every larger tolerance up to 100% (raising the tolerance never turns success into failure) -/
theorem slippage_mono_tolerance {t t' d0 d1 r0 r1 : Nat}
    (h : assertSlippage (some t) d0 d1 r0 r1 = .ok ()) (htt : t ≤ t') (ht' : t' ≤ E) :
    assertSlippage (some t') d0 d1 r0 r1 = .ok () :=
  Halo.C15.slippage_mono_tolerance h htt ht'

/-- non-vacuity, and the converse direction fails: the 2%-off deposit passes at 5% but not at 1% -/
example : assertSlippage (some (E / 20)) 1020 2000 1000000 2000000 = .ok () := by decide

example : assertSlippage (some (E / 100)) 1000 2000 1000000 2000000 = .ok () := by decide
example : assertSlippage (some (E / 100)) 1020 2000 1000000 2000000 = .error .guard := by decide

end Halo.Props.C15
