/-
C10 — a swap that succeeds honours max_spread and belief_price (function level: `assert_max_spread`).
`p`, `ms` are `Decimal` atomics (value·10^18).  The bounds are the cross-multiplied integer forms in
`Halo.Spec`; `o`, `r`, `s` are the decimals-normalised offer, return and spread.
-/
import Halo.Proofs.C10
import Halo.Proofs.C10M

namespace Halo.Props.C10
open Halo

/-- the normalisation multiplies the side with fewer decimals by `10^|od − rd|` -/
theorem norm_correct {offer ret spread od rd o r s : Nat}
    (h : normSpread offer ret spread od rd = .ok (o, r, s)) :
    (rd < od → o = offer ∧ r = ret * 10 ^ (od - rd) ∧ s = spread * 10 ^ (od - rd)) ∧
    (od < rd → o = offer * 10 ^ (rd - od) ∧ r = ret ∧ s = spread) ∧
    (od = rd → o = offer ∧ r = ret ∧ s = spread) :=
  Halo.C10.norm_correct h

/-- the normalisation succeeds for every pair of decimals up to 19 apart unless a scaled amount leaves 128 bits -/
theorem norm_ok_iff {offer ret spread od rd : Nat} :
    (∃ t, normSpread offer ret spread od rd = .ok t) ↔
      (rd < od → 10 ^ (od - rd) < L ∧ ret * 10 ^ (od - rd) < W ∧ spread * 10 ^ (od - rd) < W) ∧
      (od < rd → 10 ^ (rd - od) < L ∧ offer * 10 ^ (rd - od) < W) :=
  Halo.C10.norm_ok_iff

/-- belief-price branch, soundness: accepted ⇒ `r > (o/p − 1)(1 − σ − 10⁻¹⁸)` whenever `o/p > 1`, `σ < 1` -/
theorem belief_sound {p ms offer ret spread od rd o r s : Nat}
    (hn : normSpread offer ret spread od rd = .ok (o, r, s))
    (h : assertMaxSpread (some p) (some ms) offer ret spread od rd = .ok ()) :
    Spec.c10BeliefSound o r p ms = true :=
  Halo.C10.belief_sound hn h

/-- belief-price branch, completeness: rejected by the guard ⇒ `r < (o/p)(1 − σ)` -/
theorem belief_complete {p ms offer ret spread od rd o r s : Nat}
    (hn : normSpread offer ret spread od rd = .ok (o, r, s))
    (h : assertMaxSpread (some p) (some ms) offer ret spread od rd = .error .guard) :
    Spec.c10BeliefComplete o r p ms = true :=
  Halo.C10.belief_complete hn h

/-- spread-only branch, soundness: accepted ⇒ `s/(r+s) < σ + 10⁻¹⁸` -/
theorem spread_sound {ms offer ret spread od rd o r s : Nat}
    (hn : normSpread offer ret spread od rd = .ok (o, r, s))
    (h : assertMaxSpread none (some ms) offer ret spread od rd = .ok ()) :
    Spec.c10SpreadSound r s ms = true :=
  Halo.C10.spread_sound hn h

/-- spread-only branch, completeness: rejected by the guard ⇒ `s/(r+s) > σ` -/
theorem spread_complete {ms offer ret spread od rd o r s : Nat}
    (hn : normSpread offer ret spread od rd = .ok (o, r, s))
    (h : assertMaxSpread none (some ms) offer ret spread od rd = .error .guard) :
    Spec.c10SpreadComplete r s ms = true :=
  Halo.C10.spread_complete hn h

/-- without `max_spread` the guard never rejects -/
theorem no_limit_no_guard {belief : Option Nat} {offer ret spread od rd : Nat} :
    assertMaxSpread belief none offer ret spread od rd ≠ .error .guard :=
  Halo.C10.no_limit_no_guard

/-- a guard rejection is only ever produced after a successful normalisation -/
theorem guard_needs_norm {belief ms : Option Nat} {offer ret spread od rd : Nat}
    (h : assertMaxSpread belief ms offer ret spread od rd = .error .guard) :
    ∃ t, normSpread offer ret spread od rd = .ok t :=
  Halo.C10.guard_needs_norm h

/-- "honours max_spread" is monotone in the limit: a swap accepted under `max_spread = ms` is accepted
under every larger limit, with or without a belief price -/
theorem spread_mono_limit {belief : Option Nat} {ms ms' offer ret spread od rd : Nat}
    (h : assertMaxSpread belief (some ms) offer ret spread od rd = .ok ()) (hm : ms ≤ ms') :
    assertMaxSpread belief (some ms') offer ret spread od rd = .ok () :=
  Halo.C10.spread_mono_limit h hm

/-- the converse fails: the swap rejected at 1% passes at 2% -/
example : assertMaxSpread (some E) (some (E / 50)) 1000 989 0 6 6 = .ok () := by decide

example : assertMaxSpread (some E) (some (E / 100)) 1000 990 0 6 6 = .ok () := by decide
example : assertMaxSpread (some E) (some (E / 100)) 1000 989 0 6 6 = .error .guard := by decide
example : assertMaxSpread none (some (E / 100)) 1000 990 11 6 6 = .error .guard := by decide
example : assertMaxSpread none (some (E / 100)) 1000 99 1 6 6 = .ok () := by decide

end Halo.Props.C10
