/-
C02V — address validation (`deps.api.addr_validate`).

Every user-supplied address string is validated before it is used:
  pair     `Swap { to }` (direct and cw20 hook), the cw20 sender of `WithdrawLiquidity`;
           the receiver of `ProvideLiquidity` is validated by the LP token's `Mint { recipient }` (cw20-base);
  router   `to` of `ExecuteSwapOperations` (direct and hook) and of `ExecuteSwapOperation`, `receiver` of
           `AssertMinimumReceive`, the cw20 sender of the hook;
  factory  the new owner of `UpdateConfig`.
`World.badAddr a` says that the account id `a` stands for a string that fails the check (too short, not normalised —
e.g. an upper-case spelling); `validatedAddrs op` lists the strings an operation submits to the check.

An operation that names a bad address where one is validated is REJECTED and changes nothing — it is not silently
re-routed to the caller (a defect such as `to.and_then(|t| api.addr_validate(&t).ok())` would pay the caller instead).
Conversely the "designated receiver" that C02 / C13 speak about is, for every successful swap or route, a validated
address.  `badAddr` is a fact of the environment: no operation changes it.
-/
import Halo.Proofs.Valid

namespace Halo.Props.C02V
open Halo

/-- every address string a successful operation submitted for validation is a valid address -/
theorem exec_ok_validated {name : Asset → String} {w w' : World} {op : Op} {out : Out}
    (h : exec name w op = .ok (w', out)) : ∀ a ∈ validatedAddrs op, w.badAddr a = false :=
  Halo.Valid.exec_ok_validated h

/-- an operation that names a bad address where one is validated does not succeed … -/
theorem bad_rejected {name : Asset → String} {w : World} {op : Op} {a : Nat}
    (ha : a ∈ validatedAddrs op) (hbad : w.badAddr a = true) (r : World × Out) : exec name w op ≠ .ok r :=
  Halo.Valid.bad_rejected ha hbad r

/-- … and, transactions being atomic, changes nothing -/
theorem bad_step {name : Asset → String} {w : World} {op : Op} {a : Nat}
    (ha : a ∈ validatedAddrs op) (hbad : w.badAddr a = true) : step name w op = w :=
  Halo.Valid.bad_step ha hbad

/-- a direct swap, a hook swap (`Send`) and a hook swap by a spender (`SendFrom`) whose `to` is a bad address are
rejected and change nothing -/
theorem swap_bad_to_rejected {name : Asset → String} {w : World} {a : Nat} (hbad : w.badAddr a = true) :
    (∀ s p f offer amt b ms, step name w (.pair s p f (.swap offer amt b ms (some a))) = w) ∧
    (∀ t s p amt offer a' b ms, step name w (.tokSend t s p amt (.swap offer a' b ms (some a))) = w) ∧
    (∀ t sp o p amt offer a' b ms, step name w (.tokSendFrom t sp o p amt (.swap offer a' b ms (some a))) = w) :=
  Halo.Valid.swap_bad_to_rejected hbad

/-- the same for the three entry points of a route -/
theorem route_bad_to_rejected {name : Asset → String} {w : World} {a : Nat} (hbad : w.badAddr a = true) :
    (∀ s f ops mn, step name w (.router s f (.swapOps ops mn (some a))) = w) ∧
    (∀ t s amt ops mn, step name w (.tokSend t s w.router amt (.routerOps ops mn (some a))) = w) ∧
    (∀ t sp o amt ops mn, step name w (.tokSendFrom t sp o w.router amt (.routerOps ops mn (some a))) = w) :=
  Halo.Valid.route_bad_to_rejected hbad

/-- a provision whose receiver is a bad address fails (in the LP token's `Mint`) and changes nothing -/
theorem provide_bad_receiver_rejected {name : Asset → String} {w : World} {a : Nat} (hbad : w.badAddr a = true)
    (s p : Nat) (f : List (Nat × Nat)) (as0 : Asset) (am0 : Nat) (as1 : Asset) (am1 : Nat) (tol : Option Nat) :
    step name w (.pair s p f (.provide as0 am0 as1 am1 tol (some a))) = w :=
  Halo.Valid.provide_bad_receiver_rejected hbad s p f as0 am0 as1 am1 tol

/-- `UpdateConfig` with a bad new owner is rejected and changes nothing (whoever sends it) -/
theorem config_bad_owner_rejected {name : Asset → String} {w : World} {a : Nat} (hbad : w.badAddr a = true)
    (s : Nat) (f : List (Nat × Nat)) (tc pc : Option Nat) :
    step name w (.factory s f (.updateConfig (some a) tc pc)) = w :=
  Halo.Valid.config_bad_owner_rejected hbad s f tc pc

/-- a withdrawal whose cw20 sender is a bad address, and a route hook whose cw20 sender is one, are rejected -/
theorem hook_bad_sender_rejected {name : Asset → String} {w : World} {a : Nat} (hbad : w.badAddr a = true) :
    (∀ t p amt, step name w (.tokSend t a p amt .withdraw) = w) ∧
    (∀ t d amt ops mn dst, step name w (.tokSend t a d amt (.routerOps ops mn dst)) = w) :=
  Halo.Valid.hook_bad_sender_rejected hbad

/-- the contrapositive: the designated receiver of a successful swap or route is a validated address -/
theorem successful_swap_to_is_valid {name : Asset → String} {w w' : World} {out : Out} {a : Nat} :
    (∀ s p f offer amt b ms, exec name w (.pair s p f (.swap offer amt b ms (some a))) = .ok (w', out) →
      w.badAddr a = false) ∧
    (∀ t s p amt offer a' b ms, exec name w (.tokSend t s p amt (.swap offer a' b ms (some a))) = .ok (w', out) →
      w.badAddr a = false) ∧
    (∀ t sp o p amt offer a' b ms,
      exec name w (.tokSendFrom t sp o p amt (.swap offer a' b ms (some a))) = .ok (w', out) → w.badAddr a = false) ∧
    (∀ s f ops mn, exec name w (.router s f (.swapOps ops mn (some a))) = .ok (w', out) → w.badAddr a = false) ∧
    (∀ t s d amt ops mn, exec name w (.tokSend t s d amt (.routerOps ops mn (some a))) = .ok (w', out) →
      w.badAddr a = false) ∧
    (∀ t sp o d amt ops mn, exec name w (.tokSendFrom t sp o d amt (.routerOps ops mn (some a))) = .ok (w', out) →
      w.badAddr a = false) :=
  Halo.Valid.successful_swap_to_is_valid

/-- the same at the level of the handlers the statements of C02 / C13 are about (`pairExec`, `tokSendPair`,
`routerExec`, `routerReceive`): success implies that the optional `to` passed validation -/
theorem handler_to_is_valid {name : Asset → String} {w : World} {dst : Option Nat} :
    (∀ s p f offer amt b ms r, pairExec w s p f (.swap offer amt b ms dst) = .ok r → badTo w dst = false) ∧
    (∀ t u p amt offer a' b ms r, tokSendPair w t u p amt (.swap offer a' b ms dst) = .ok r → badTo w dst = false) ∧
    (∀ s f ops mn w', routerExec name w s f (.swapOps ops mn dst) = .ok w' → badTo w dst = false) ∧
    (∀ from_ ops mn w', routerReceive name w from_ (.routerOps ops mn dst) = .ok w' → badTo w dst = false) :=
  Halo.Valid.handler_to_is_valid

/-- no operation changes which address strings are invalid -/
theorem badAddr_static {name : Asset → String} {w w' : World} {op : Op} {out : Out}
    (h : exec name w op = .ok (w', out)) : w'.badAddr = w.badAddr :=
  Halo.Valid.badAddr_static h

/-- along any history -/
theorem badAddr_static_run {name : Asset → String} (ops : List Op) (w : World) :
    (run name w ops).badAddr = w.badAddr :=
  Halo.Valid.badAddr_static_run ops w

end Halo.Props.C02V
