/-
C05 — provision mints a fair share (function level: `calculate_lp_token_amount_to_user`).
-/
import Halo.Proofs.C04
import Halo.Proofs.C05M

namespace Halo.Props.C05
open Halo

/-- positive supply: `min_i(d_i·S/r_i) − 1 < m ≤ min_i(d_i·S/r_i)` -/
theorem share_bounds_pos {sender : Nat} {req : Requirements} {S d0 d1 r0 r1 m : Nat}
    (hS : S ≠ 0) (h : lpShare sender req S d0 d1 r0 r1 = .ok m) :
    Spec.c05Pos S d0 d1 r0 r1 m = true :=
  Halo.C04.share_bounds_pos hS h

/-- exact value on a positive supply -/
theorem share_pos_eq {sender : Nat} {req : Requirements} {S d0 d1 r0 r1 m : Nat}
    (hS : S ≠ 0) (h : lpShare sender req S d0 d1 r0 r1 = .ok m) :
    r0 ≠ 0 ∧ r1 ≠ 0 ∧ m = min (d0 * S / r0) (d1 * S / r1) :=
  Halo.C04.share_pos_eq hS h

/-- empty pair: only a whitelisted sender meeting both minimums, and the share is `⌊√(d0·d1)⌋` -/
theorem share_bounds_empty {sender : Nat} {req : Requirements} {d0 d1 r0 r1 m : Nat}
    (h : lpShare sender req 0 d0 d1 r0 r1 = .ok m) :
    Spec.c05Empty sender req d0 d1 m = true ∧ d0 * d1 < W :=
  Halo.C04.share_bounds_empty h

/-- success characterised exactly, positive supply -/
theorem share_ok_iff_pos {sender : Nat} {req : Requirements} {S d0 d1 r0 r1 : Nat} (hS : S ≠ 0) :
    (∃ m, lpShare sender req S d0 d1 r0 r1 = .ok m) ↔
      r0 ≠ 0 ∧ r1 ≠ 0 ∧ d0 * S / r0 < W ∧ d1 * S / r1 < W :=
  Halo.C04.share_ok_iff_pos hS

/-- positive supply: depositing more of either asset never mints less -/
theorem share_mono_deposits {sender sender' : Nat} {req req' : Requirements} {S d0 d1 e0 e1 r0 r1 m m' : Nat}
    (hS : S ≠ 0) (h : lpShare sender req S d0 d1 r0 r1 = .ok m)
    (h' : lpShare sender' req' S e0 e1 r0 r1 = .ok m') (h0 : d0 ≤ e0) (h1 : d1 ≤ e1) : m ≤ m' :=
  Halo.C04.share_mono_deposits hS h h' h0 h1

/-- positive supply, "fair share" under splitting: two provisions priced against the same reserves and
supply never mint more than the single provision of their sums -/
theorem share_superadditive {s1 s2 s3 : Nat} {q1 q2 q3 : Requirements} {S d0 d1 e0 e1 r0 r1 m n k : Nat}
    (hS : S ≠ 0) (h1 : lpShare s1 q1 S d0 d1 r0 r1 = .ok m) (h2 : lpShare s2 q2 S e0 e1 r0 r1 = .ok n)
    (h3 : lpShare s3 q3 S (d0 + e0) (d1 + e1) r0 r1 = .ok k) : m + n ≤ k :=
  Halo.C04.share_superadditive hS h1 h2 h3

/-- the hypotheses of `share_superadditive` are jointly satisfiable, with a strict gap -/
example : lpShare 7 ⟨[], 0, 0⟩ 2000 100 401 1000 4000 = .ok 200 ∧ lpShare 7 ⟨[], 0, 0⟩ 2000 101 403 1000 4000 = .ok 201 ∧
    lpShare 7 ⟨[], 0, 0⟩ 2000 201 804 1000 4000 = .ok 402 := by decide

example : lpShare 7 ⟨[7], 10, 10⟩ 0 1000 4000 0 0 = .ok 2000 ∧
    Spec.c05Empty 7 ⟨[7], 10, 10⟩ 1000 4000 2000 = true := by decide +kernel
example : lpShare 7 ⟨[], 0, 0⟩ 2000 100 401 1000 4000 = .ok 200 ∧
    Spec.c05Pos 2000 100 401 1000 4000 200 = true := by decide

end Halo.Props.C05
