/-
C05 — provision mints a fair share (function level: `calculate_lp_token_amount_to_user`).
-/
import Halo.Proofs.C04

namespace Halo.Props.C05
open Halo

/-- positive supply: `min_i(d_i·S/r_i) − 1 < m ≤ min_i(d_i·S/r_i)` -/
theorem share_bounds_pos {sender : Nat} {req : Requirements} {S d0 d1 r0 r1 m : Nat}
    (hS : S ≠ 0) (h : lpShare sender req S d0 d1 r0 r1 = .ok m) :
    Spec.c05Pos S d0 d1 r0 r1 m = true :=
  Halo.C04.share_bounds_pos hS h

/-- exact value on a positive supply -/
theorem share_pos_eq {sender : Nat} {req : Requirements} {S d0 d1 r0 r1 m : Nat}
    (hS : S ≠ 0) (h : lpShare sender req S d0 d1 r0 r1 = .ok m) :
    r0 ≠ 0 ∧ r1 ≠ 0 ∧ m = min (d0 * S / r0) (d1 * S / r1) :=
  Halo.C04.share_pos_eq hS h

/-- empty pair: only a whitelisted sender meeting both minimums, and the share is `⌊√(d0·d1)⌋` -/
theorem share_bounds_empty {sender : Nat} {req : Requirements} {d0 d1 r0 r1 m : Nat}
    (h : lpShare sender req 0 d0 d1 r0 r1 = .ok m) :
    Spec.c05Empty sender req d0 d1 m = true ∧ d0 * d1 < W :=
  Halo.C04.share_bounds_empty h

/-- success characterised exactly, positive supply -/
theorem share_ok_iff_pos {sender : Nat} {req : Requirements} {S d0 d1 r0 r1 : Nat} (hS : S ≠ 0) :
    (∃ m, lpShare sender req S d0 d1 r0 r1 = .ok m) ↔
      r0 ≠ 0 ∧ r1 ≠ 0 ∧ d0 * S / r0 < W ∧ d1 * S / r1 < W :=
  Halo.C04.share_ok_iff_pos hS

example : lpShare 7 ⟨[7], 10, 10⟩ 0 1000 4000 0 0 = .ok 2000 ∧
    Spec.c05Empty 7 ⟨[7], 10, 10⟩ 1000 4000 2000 = true := by decide +kernel
example : lpShare 7 ⟨[], 0, 0⟩ 2000 100 401 1000 4000 = .ok 200 ∧
    Spec.c05Pos 2000 100 401 1000 4000 200 = true := by decide

end Halo.Props.C05
