/-
C15 at system level (call sites): `Halo/Props/C15.lean` proves what `assert_slippage_tolerance` means
as a function.  Here: every accepted provision — inside the handler and as a whole transaction — passed
it on (the deposits in pair order, the reserves net of the native deposits already credited), and a
provision (transaction) failing with the typed guard error was rejected by that very call.
`w0` is the world at handler entry (attached funds credited).
-/
import Halo.Proofs.CallSites

namespace Halo.Props.C15W
open Halo

/-- an accepted `provide_liquidity` passed the slippage guard; with `Halo.Props.C15.slippage_sound` the
C15 bound follows for `tol = some t` -/
theorem provide_passed_guard {w w' : World} {p : Nat} {P : PairSt} {s : Nat} {funds : List (Nat × Nat)}
    {as0 as1 : Asset} {am0 am1 : Nat} {tol rcv : Option Nat} {m : Nat}
    (h : pairProvide w p P s funds as0 am0 as1 am1 tol rcv = .ok (w', m)) :
    ∃ d0 d1,
      ((as0 = P.a0 ∧ d0 = am0) ∨ (as0 ≠ P.a0 ∧ as1 = P.a0 ∧ d0 = am1)) ∧
      ((as0 = P.a1 ∧ d1 = am0) ∨ (as0 ≠ P.a1 ∧ as1 = P.a1 ∧ d1 = am1)) ∧
      assertSlippage tol d0 d1
        (match P.a0 with | .native _ => bal w P.a0 p - d0 | .token _ => bal w P.a0 p)
        (match P.a1 with | .native _ => bal w P.a1 p - d1 | .token _ => bal w P.a1 p) = .ok () :=
  Halo.CallSites.provide_passed_guard h

/-- the only source of a `.guard` error in `provide_liquidity` is `assert_slippage_tolerance` on exactly
those arguments (`Halo.Props.C15.slippage_complete` then says why) -/
theorem provide_guard_rejection {w : World} {p : Nat} {P : PairSt} {s : Nat} {funds : List (Nat × Nat)}
    {as0 as1 : Asset} {am0 am1 : Nat} {tol rcv : Option Nat}
    (h : pairProvide w p P s funds as0 am0 as1 am1 tol rcv = .error .guard) :
    ∃ d0 d1,
      ((as0 = P.a0 ∧ d0 = am0) ∨ (as0 ≠ P.a0 ∧ as1 = P.a0 ∧ d0 = am1)) ∧
      ((as0 = P.a1 ∧ d1 = am0) ∨ (as0 ≠ P.a1 ∧ as1 = P.a1 ∧ d1 = am1)) ∧
      assertSlippage tol d0 d1
        (match P.a0 with | .native _ => bal w P.a0 p - d0 | .token _ => bal w P.a0 p)
        (match P.a1 with | .native _ => bal w P.a1 p - d1 | .token _ => bal w P.a1 p) = .error .guard :=
  Halo.CallSites.provide_guard_rejection h

/-- the transaction, success -/
theorem exec_provide_passed_guard {w w' : World} {s p : Nat} {funds : List (Nat × Nat)}
    {as0 as1 : Asset} {am0 am1 : Nat} {tol rcv : Option Nat} {out : Out}
    (h : pairExec w s p funds (.provide as0 am0 as1 am1 tol rcv) = .ok (w', out)) :
    ∃ P w0 d0 d1, w.pair p = some P ∧ attach w s p funds = .ok w0 ∧
      ((as0 = P.a0 ∧ d0 = am0) ∨ (as0 ≠ P.a0 ∧ as1 = P.a0 ∧ d0 = am1)) ∧
      ((as0 = P.a1 ∧ d1 = am0) ∨ (as0 ≠ P.a1 ∧ as1 = P.a1 ∧ d1 = am1)) ∧
      assertSlippage tol d0 d1
        (match P.a0 with | .native _ => bal w0 P.a0 p - d0 | .token _ => bal w0 P.a0 p)
        (match P.a1 with | .native _ => bal w0 P.a1 p - d1 | .token _ => bal w0 P.a1 p) = .ok () :=
  Halo.CallSites.exec_provide_passed_guard h

/-- the transaction, guard rejection: neither the funds transfer nor any message of the response
produces the guard error -/
theorem exec_provide_guard_rejection {w : World} {s p : Nat} {funds : List (Nat × Nat)}
    {as0 as1 : Asset} {am0 am1 : Nat} {tol rcv : Option Nat}
    (h : pairExec w s p funds (.provide as0 am0 as1 am1 tol rcv) = .error .guard) :
    ∃ P w0 d0 d1, w.pair p = some P ∧ attach w s p funds = .ok w0 ∧
      ((as0 = P.a0 ∧ d0 = am0) ∨ (as0 ≠ P.a0 ∧ as1 = P.a0 ∧ d0 = am1)) ∧
      ((as0 = P.a1 ∧ d1 = am0) ∨ (as0 ≠ P.a1 ∧ as1 = P.a1 ∧ d1 = am1)) ∧
      assertSlippage tol d0 d1
        (match P.a0 with | .native _ => bal w0 P.a0 p - d0 | .token _ => bal w0 P.a0 p)
        (match P.a1 with | .native _ => bal w0 P.a1 p - d1 | .token _ => bal w0 P.a1 p) = .error .guard :=
  Halo.CallSites.exec_provide_guard_rejection h

end Halo.Props.C15W
