/-
C13 at system level, any number of hops: for an accepted route whose hops use pairwise distinct pairs,
executed while the router holds none of the route's assets except the input, the recipient receives exactly
the amount the router's simulation quotes for that input in the same state; all of the input is consumed,
every intermediate asset ends at zero in the router, and only the final asset reaches the recipient.
-/
import Halo.Proofs.C13W

namespace Halo.Props.C13W
open Halo

/- `RouteOK` is declared in `Halo/Proofs/C13W.lean` (the proofs need to mention it) as

structure RouteOK (w : World) (rcv : Nat) (ops : List (Asset × Asset)) : Prop where
  resolves : ∀ h ∈ ops, ∃ R P, facLookup w h.1 h.2 = some R ∧ w.pair R.pair = some P ∧
      ((P.a0 = h.1 ∧ P.a1 = h.2) ∨ (P.a0 = h.2 ∧ P.a1 = h.1)) ∧ h.1 ≠ h.2 ∧ R.pair ≠ w.router ∧ R.pair ≠ rcv
  distinctPairs : (ops.map fun h => (facLookup w h.1 h.2).map (·.pair)).Nodup
  routerEmpty : ∀ h ∈ ops, ∀ b, (b = h.1 ∨ b = h.2) → b ≠ (ops.head?.map (·.1)).getD b → bal w b w.router = 0
  rcvNotRouter : rcv ≠ w.router
  routerNoPair : (w.pair w.router).isNone

the hypotheses under which a route is a pure pass-through, checked hop by hop against the state
in which the route starts: every hop resolves to a registered pair over exactly its two (distinct) assets,
the pairs are pairwise distinct, none is the router or the recipient, and the router holds nothing of any
asset of the route other than the first hop's offer asset -/
open Halo.C13W (RouteOK)

/-- the hops of a successful route deliver exactly the router's quote -/
theorem route_passthrough {w w' : World} {rcv : Nat} {ops : List (Asset × Asset)}
    (hok : RouteOK w rcv ops) (hne : ops ≠ [])
    (h : routerHops w rcv ops = .ok w') :
    ∃ target n, (ops.getLast?.map (·.2)) = some target ∧
      routerSimulateTop w (bal w ((ops.head?.map (·.1)).getD target) w.router) ops = .ok n ∧
      -- (ii) the recipient receives exactly the quoted amount of the final asset
      (∀ first, ops.head?.map (·.1) = some first → first ≠ target →
        bal w' target rcv = bal w target rcv + n) ∧
      -- (iii) the router keeps nothing of any route asset (the input is consumed entirely)
      (∀ hp ∈ ops, ∀ b, (b = hp.1 ∨ b = hp.2) → b ≠ target → bal w' b w.router = 0) ∧
      bal w' target w.router = bal w target w.router -
        (if ops.head?.map (·.1) = some target then bal w target w.router else 0) ∧
      -- (iv) no intermediate asset reaches the recipient
      (∀ b, b ≠ target → bal w' b rcv = bal w b rcv) :=
  Halo.C13W.route_passthrough hok hne h

/-- the same for the whole `ExecuteSwapOperations` transaction (the trailing minimum-receive assertion
changes nothing) -/
theorem swapOps_passthrough {name : Asset → String} {w w' : World} {sender : Nat} {ops : List (Asset × Asset)}
    {mn tgt : Option Nat} (hok : RouteOK w (tgt.getD sender) ops)
    (h : routerSwapOps name w sender ops mn tgt = .ok w') :
    routerHops w (tgt.getD sender) ops = .ok w' ∧ ops ≠ [] :=
  Halo.C13W.swapOps_passthrough hok h

end Halo.Props.C13W
