/-
C07 for router routes — the frame names the pairs.
`Touched w op z` (Halo/Inv.lean) contains every pair contract when `op` is a route, so `C07.step_frame` says
nothing about the pairs that are not on the route.  Here the frame is sharp: a successful route changes no balance
of any account other than the actor, the router, the designated recipient, and the pair contracts that the hops of
the route resolve to in the factory registry (`facLookup`, read in the world in which the operation is
submitted: no router or pair handler writes the registry).  Funds attached to the message go to the router.

All entry points of a route: `ExecuteSwapOperations` sent to the router, a cw20 `Send` to the router carrying the
route as its hook, a raw `Receive` sent to the router by anybody (its default recipient is the `from` field of
the forged message), and the internal single `ExecuteSwapOperation` (which succeeds only when the router itself
submits it).  No freshness assumption is needed: a route creates no contract.
-/
import Halo.Proofs.Bounds

namespace Halo.Props.C07R
open Halo

/-- `ExecuteSwapOperations`: every account that is not the actor, the router, the recipient, or a pair that some
hop of the route resolves to keeps all its balances -/
theorem route_frame {name : Asset → String} {w w' : World} {s : Nat} {funds : List (Nat × Nat)}
    {ops : List (Asset × Asset)} {mn toAddr : Option Nat} {out : Out}
    (h : exec name w (.router s funds (.swapOps ops mn toAddr)) = .ok (w', out)) (z : Nat)
    (hs : z ≠ s) (hr : z ≠ w.router) (hrcv : z ≠ toAddr.getD s)
    (hp : ¬ ∃ o a R, (o, a) ∈ ops ∧ facLookup w o a = some R ∧ R.pair = z) :
    ∀ asset, bal w' asset z = bal w asset z :=
  Halo.Bounds.route_frame h z hs hr hrcv hp

/-- the same for a route delivered by a cw20 `Send` to the router -/
theorem route_frame_hook {name : Asset → String} {w w' : World} {t s amt : Nat}
    {ops : List (Asset × Asset)} {mn toAddr : Option Nat} {out : Out}
    (h : exec name w (.tokSend t s w.router amt (.routerOps ops mn toAddr)) = .ok (w', out)) (z : Nat)
    (hs : z ≠ s) (hr : z ≠ w.router) (hrcv : z ≠ toAddr.getD s)
    (hp : ¬ ∃ o a R, (o, a) ∈ ops ∧ facLookup w o a = some R ∧ R.pair = z) :
    ∀ asset, bal w' asset z = bal w asset z :=
  Halo.Bounds.route_frame_hook h z hs hr hrcv hp

/-- the same for a raw `Receive` sent to the router: the default recipient is the `from` field `f` -/
theorem route_frame_raw {name : Asset → String} {w w' : World} {s f amt : Nat} {funds : List (Nat × Nat)}
    {ops : List (Asset × Asset)} {mn toAddr : Option Nat} {out : Out}
    (h : exec name w (.router s funds (.receive f amt (.routerOps ops mn toAddr))) = .ok (w', out)) (z : Nat)
    (hs : z ≠ s) (hr : z ≠ w.router) (hrcv : z ≠ toAddr.getD f)
    (hp : ¬ ∃ o a R, (o, a) ∈ ops ∧ facLookup w o a = some R ∧ R.pair = z) :
    ∀ asset, bal w' asset z = bal w asset z :=
  Halo.Bounds.route_frame_raw h z hs hr hrcv hp

/-- the single `ExecuteSwapOperation` (the default recipient of the hop is the router) -/
theorem route_frame_swapOp {name : Asset → String} {w w' : World} {s : Nat} {funds : List (Nat × Nat)}
    {o a : Asset} {toAddr : Option Nat} {out : Out}
    (h : exec name w (.router s funds (.swapOp o a toAddr)) = .ok (w', out)) (z : Nat)
    (hs : z ≠ s) (hr : z ≠ w.router) (hrcv : z ≠ toAddr.getD w.router)
    (hp : ¬ ∃ R, facLookup w o a = some R ∧ R.pair = z) :
    ∀ asset, bal w' asset z = bal w asset z :=
  Halo.Bounds.route_frame_swapOp h z hs hr hrcv hp

/-- the allowances granted by an account off the route are untouched -/
theorem route_allow_frame {name : Asset → String} {w w' : World} {s : Nat} {funds : List (Nat × Nat)}
    {ops : List (Asset × Asset)} {mn toAddr : Option Nat} {out : Out}
    (h : exec name w (.router s funds (.swapOps ops mn toAddr)) = .ok (w', out)) (z : Nat)
    (hs : z ≠ s) (hr : z ≠ w.router) (hrcv : z ≠ toAddr.getD s)
    (hp : ¬ ∃ o a R, (o, a) ∈ ops ∧ facLookup w o a = some R ∧ R.pair = z) :
    ∀ t sp, Halo.C07.allowOf w' t z sp = Halo.C07.allowOf w t z sp :=
  Halo.Bounds.route_allow_frame h z hs hr hrcv hp

/-- a route mints and burns nothing -/
theorem route_supply {name : Asset → String} {w w' : World} {s : Nat} {funds : List (Nat × Nat)}
    {ops : List (Asset × Asset)} {mn toAddr : Option Nat} {out : Out}
    (h : exec name w (.router s funds (.swapOps ops mn toAddr)) = .ok (w', out)) (t : Nat) :
    supply w' t = supply w t :=
  Halo.Bounds.route_supply h t

end Halo.Props.C07R
