/-
C19 — a page is exactly as long as the limit allows: `min(limit or 10, 30)` entries, or all that remain after the
cursor if fewer (not merely "at most").
-/
import Halo.Proofs.Reach

namespace Halo.Props.C19P
open Halo

theorem page_length {α} (reg : List (Bytes × α)) (cursor : Option Bytes) (lim : Option Nat) :
    (readPairs reg cursor lim).length = min (pageSize lim) (afterCursor reg cursor).length :=
  Halo.Reach.page_length reg cursor lim

example : pageSize none = 10 ∧ pageSize (some 7) = 7 ∧ pageSize (some 100) = 30 := by decide

end Halo.Props.C19P
