/-
C16 over histories: what the factory registered stays registered.  A created pair is registered under both
orders of its assets, with the true decimals; no operation ever removes or re-points a registry entry (only the
decimals of an entry can be re-registered); hence a pair created through the factory can be looked up in both
orders after any later history, and the registry invariant `RegOK` holds in every reachable state.
`RegRun` (Halo/Proofs/Reach.lean) is the run-level form of the side conditions of `C16W.regOK_step`: no message
to a pair is sent by the factory contract itself, new pair addresses are unused; `ValidRun` implies it.
-/
import Halo.Proofs.Reach

namespace Halo.Props.C16R
open Halo Halo.Reach

/-- a created pair is registered afterwards, under both orders of its assets -/
theorem created_registered {w w' : World} {s : Nat} {a0 a1 : Asset} {req : Requirements} {comm lpDec : Option Nat}
    {np nl : Nat} (hr : RegOK w) (h : facCreatePair w s a0 a1 req comm lpDec np nl = .ok w') :
    ∃ R, facLookup w' a0 a1 = some R ∧ facLookup w' a1 a0 = some R ∧ R.pair = np ∧ R.lp = nl ∧ R.a0 = a0 ∧
      R.a1 = a1 :=
  Halo.Reach.created_registered hr h

/-- two lookups that return the same pair address are over the same unordered pair of raw identifiers — and, when
the four queried assets are live, over the same unordered asset set -/
theorem lookup_distinct_addr {w : World} (hr : RegOK w) (hraw : RawOK w) {a b c d : Asset} {R1 R2 : Record}
    (h1 : facLookup w a b = some R1) (h2 : facLookup w c d = some R2) (hp : R1.pair = R2.pair) :
    ((w.rawId a = w.rawId c ∧ w.rawId b = w.rawId d) ∨ (w.rawId a = w.rawId d ∧ w.rawId b = w.rawId c)) ∧
    (Live w a → Live w b → Live w c → Live w d → (a = c ∧ b = d) ∨ (a = d ∧ b = c)) :=
  Halo.Reach.lookup_distinct_addr hr hraw h1 h2 hp

/-- the pair contract a creation instantiates describes itself with the created assets and LP token and with the
true decimals of both assets -/
theorem create_records_decimals {w w' : World} {s : Nat} {a0 a1 : Asset} {req : Requirements}
    {comm lpDec : Option Nat} {np nl : Nat} (h : facCreatePair w s a0 a1 req comm lpDec np nl = .ok w') :
    ∃ P, w'.pair np = some P ∧ P.a0 = a0 ∧ P.a1 = a1 ∧ P.lp = nl ∧
      assetDecimals w a0 = .ok P.d0 ∧ assetDecimals w a1 = .ok P.d1 :=
  Halo.Reach.create_records_decimals h

/-- one operation: every key present in the registry is still present, with a record for the same pair, LP token,
assets, requirements and commission (the decimals may change through `AddNativeTokenDecimals`) -/
theorem registry_only_grows {name : Asset → String} {w w' : World} {op : Op} {out : Out} (hr : RegOK w)
    (h : exec name w op = .ok (w', out)) :
    ∀ k R, regLookup k w.registry = some R → ∃ R', regLookup k w'.registry = some R' ∧ R'.pair = R.pair ∧
      R'.lp = R.lp ∧ R'.a0 = R.a0 ∧ R'.a1 = R.a1 ∧ R'.req = R.req ∧ R'.comm = R.comm :=
  Halo.Reach.registry_only_grows hr h

/-- the registry invariant holds after every history whose steps are not sent to a pair by the factory contract and
allocate unused pair addresses; so does the environment assumption `RawOK` when moreover every newly live asset gets
a fresh raw identifier (`RawRun`, see `rawOK_run`) -/
theorem regOK_run {name : Asset → String} (ops : List Op) (w : World) (hr : RegOK w) (hraw : RawOK w)
    (hrun : RegRun name w ops) : RegOK (run name w ops) ∧ (RawRun name w ops → RawOK (run name w ops)) :=
  Halo.Reach.regOK_run ops w hr hraw hrun

/-- the invariant alone needs no assumption on raw identifiers -/
theorem regOK_run_only {name : Asset → String} (ops : List Op) (w : World) (hr : RegOK w)
    (hrun : RegRun name w ops) : RegOK (run name w ops) :=
  (Halo.Reach.regOK_run'' ops w hr hrun).1

/-- histories of external actors' operations are such histories -/
theorem regRun_of_validRun {name : Asset → String} (ops : List Op) (w : World) (h : ValidRun name w ops) :
    RegRun name w ops :=
  Halo.Reach.regRun_of_validRun ops w h

/-- `RawOK` speaks about `rawId`, which no operation changes, and about the live assets, whose set only grows
(`live_run`) — by the LP token of a created pair and by the denom of an `AddNativeTokenDecimals` (`NewLive`).  It is
preserved by an operation when the asset the operation makes live carries a raw identifier no other live asset
carries (`RawFreshOK`: the chain allocates a fresh address to the LP token; the owner registers a denom that is not
the raw identifier of a live asset) … -/
theorem rawOK_step {name : Asset → String} {w w' : World} {op : Op} {out : Out} (hraw : RawOK w)
    (hf : RawFreshOK w op)
    (h : exec name w op = .ok (w', out)) : RawOK w' :=
  Halo.Reach.rawOK_step hraw hf h

/-- … in particular, unconditionally, by every operation that makes no further asset live -/
theorem rawOK_step_of_no_new {name : Asset → String} {w w' : World} {op : Op} {out : Out} (hraw : RawOK w)
    (hn : ∀ b, Halo.RegOKP.NewLive op b → Live w b) (h : exec name w op = .ok (w', out)) : RawOK w' :=
  Halo.Reach.rawOK_step_of_no_new hraw hn h

/-- … and so along every history whose steps satisfy `RawFreshOK` (`RawRun`).  Formerly `RawOK` was injectivity of
`rawId` on ALL identifiers, which no history can break but which fails in worlds with aliased non-live identifiers;
the side condition is the price of the weaker assumption. -/
theorem rawOK_run {name : Asset → String} (ops : List Op) (w : World) (hraw : RawOK w) (hrun : RawRun name w ops) :
    RawOK (run name w ops) :=
  Halo.Reach.rawOK_run ops w hraw hrun

/-- `RawFreshOK` for the two operations that can make an asset live -/
theorem rawFreshOK_createPair {w : World} {s : Nat} {f : List (Nat × Nat)} {a0 a1 : Asset} {req : Requirements}
    {c ld : Option Nat} {np nl : Nat} :
    RawFreshOK w (.factory s f (.createPair a0 a1 req c ld np nl)) ↔
      ∀ a, Live w a → a ≠ .token nl → w.rawId a ≠ w.rawId (.token nl) :=
  Halo.Reach.rawFreshOK_createPair

theorem rawFreshOK_addDecimals {w : World} {s : Nat} {f : List (Nat × Nat)} {d k : Nat} :
    RawFreshOK w (.factory s f (.addDecimals d k)) ↔
      ∀ a, Live w a → a ≠ .native d → w.rawId a ≠ w.rawId (.native d) :=
  Halo.Reach.rawFreshOK_addDecimals

/-- liveness is never revoked along a history -/
theorem live_run {name : Asset → String} (ops : List Op) (w : World) {a : Asset} (hl : Live w a) :
    Live (run name w ops) a :=
  Halo.Reach.live_run ops w hl

/-- whatever is registered stays registered, for the same pair, after any later history -/
theorem registered_forever {name : Asset → String} (ops : List Op) (w : World) (hr : RegOK w) (hraw : RawOK w)
    (hrun : RegRun name w ops) :
    ∀ k R, regLookup k w.registry = some R → ∃ R', regLookup k (run name w ops).registry = some R' ∧
      R'.pair = R.pair ∧ R'.lp = R.lp ∧ R'.a0 = R.a0 ∧ R'.a1 = R.a1 ∧ R'.req = R.req ∧ R'.comm = R.comm :=
  Halo.Reach.registered_forever ops w hr hraw hrun

/-- in terms of the factory's pair query: a successful lookup keeps succeeding, in both orders -/
theorem lookup_forever {name : Asset → String} (ops : List Op) (w : World) (hr : RegOK w) (hraw : RawOK w)
    (hrun : RegRun name w ops) {a b : Asset} {R : Record} (h : facLookup w a b = some R) :
    ∃ R', facLookup (run name w ops) a b = some R' ∧ facLookup (run name w ops) b a = some R' ∧
      R'.pair = R.pair ∧ R'.lp = R.lp ∧ R'.a0 = R.a0 ∧ R'.a1 = R.a1 ∧ R'.req = R.req ∧ R'.comm = R.comm :=
  Halo.Reach.lookup_forever ops w hr hraw hrun h

/-- a pair created through the factory can be looked up in both orders after any later history -/
theorem created_registered_forever {name : Asset → String} {w w' : World} {s : Nat} {a0 a1 : Asset}
    {req : Requirements} {comm lpDec : Option Nat} {np nl : Nat} (hr : RegOK w) (hraw : RawOK w)
    (hfresh : w.pair np = none) (h : facCreatePair w s a0 a1 req comm lpDec np nl = .ok w')
    (ops : List Op) (hrun : RegRun name w' ops) :
    ∃ R, facLookup (run name w' ops) a0 a1 = some R ∧ facLookup (run name w' ops) a1 a0 = some R ∧
      R.pair = np ∧ R.lp = nl ∧ R.a0 = a0 ∧ R.a1 = a1 :=
  Halo.Reach.created_registered_forever hr hraw hfresh h ops hrun

end Halo.Props.C16R
