/-
C16 over histories: what the factory registered stays registered.  A created pair is registered under both
orders of its assets, with the true decimals; no operation ever removes or re-points a registry entry (only the
decimals of an entry can be re-registered); hence a pair created through the factory can be looked up in both
orders after any later history, and the registry invariant `RegOK` holds in every reachable state.
`RegRun` (Halo/Proofs/Reach.lean) is the run-level form of the side conditions of `C16W.regOK_step`: no message
to a pair is sent by the factory contract itself, new pair addresses are unused; `ValidRun` implies it.
-/
import Halo.Proofs.Reach

namespace Halo.Props.C16R
open Halo Halo.Reach

/-- a created pair is registered afterwards, under both orders of its assets -/
theorem created_registered {w w' : World} {s : Nat} {a0 a1 : Asset} {req : Requirements} {comm lpDec : Option Nat}
    {np nl : Nat} (hr : RegOK w) (h : facCreatePair w s a0 a1 req comm lpDec np nl = .ok w') :
    ∃ R, facLookup w' a0 a1 = some R ∧ facLookup w' a1 a0 = some R ∧ R.pair = np ∧ R.lp = nl ∧ R.a0 = a0 ∧
      R.a1 = a1 :=
  Halo.Reach.created_registered hr h

/-- two lookups that return the same pair address are over the same unordered asset set -/
theorem lookup_distinct_addr {w : World} (hr : RegOK w) (hraw : RawOK w) {a b c d : Asset} {R1 R2 : Record}
    (h1 : facLookup w a b = some R1) (h2 : facLookup w c d = some R2) (hp : R1.pair = R2.pair) :
    (a = c ∧ b = d) ∨ (a = d ∧ b = c) :=
  Halo.Reach.lookup_distinct_addr hr hraw h1 h2 hp

/-- the pair contract a creation instantiates describes itself with the created assets and LP token and with the
true decimals of both assets -/
theorem create_records_decimals {w w' : World} {s : Nat} {a0 a1 : Asset} {req : Requirements}
    {comm lpDec : Option Nat} {np nl : Nat} (h : facCreatePair w s a0 a1 req comm lpDec np nl = .ok w') :
    ∃ P, w'.pair np = some P ∧ P.a0 = a0 ∧ P.a1 = a1 ∧ P.lp = nl ∧
      assetDecimals w a0 = .ok P.d0 ∧ assetDecimals w a1 = .ok P.d1 :=
  Halo.Reach.create_records_decimals h

/-- one operation: every key present in the registry is still present, with a record for the same pair, LP token,
assets, requirements and commission (the decimals may change through `AddNativeTokenDecimals`) -/
theorem registry_only_grows {name : Asset → String} {w w' : World} {op : Op} {out : Out} (hr : RegOK w)
    (h : exec name w op = .ok (w', out)) :
    ∀ k R, regLookup k w.registry = some R → ∃ R', regLookup k w'.registry = some R' ∧ R'.pair = R.pair ∧
      R'.lp = R.lp ∧ R'.a0 = R.a0 ∧ R'.a1 = R.a1 ∧ R'.req = R.req ∧ R'.comm = R.comm :=
  Halo.Reach.registry_only_grows hr h

/-- the registry invariant (and the environment assumption `RawOK`, which speaks about `rawId` only) holds after
every history whose steps are not sent to a pair by the factory contract and allocate unused pair addresses -/
theorem regOK_run {name : Asset → String} (ops : List Op) (w : World) (hr : RegOK w) (hraw : RawOK w)
    (hrun : RegRun name w ops) : RegOK (run name w ops) ∧ RawOK (run name w ops) :=
  Halo.Reach.regOK_run ops w hr hraw hrun

/-- histories of external actors' operations are such histories -/
theorem regRun_of_validRun {name : Asset → String} (ops : List Op) (w : World) (h : ValidRun name w ops) :
    RegRun name w ops :=
  Halo.Reach.regRun_of_validRun ops w h

/-- `RawOK` alone holds after any history whatsoever: no operation changes `rawId` -/
theorem rawOK_run {name : Asset → String} (ops : List Op) (w : World) (hraw : RawOK w) : RawOK (run name w ops) :=
  Halo.Reach.rawOK_run ops w hraw

/-- whatever is registered stays registered, for the same pair, after any later history -/
theorem registered_forever {name : Asset → String} (ops : List Op) (w : World) (hr : RegOK w) (hraw : RawOK w)
    (hrun : RegRun name w ops) :
    ∀ k R, regLookup k w.registry = some R → ∃ R', regLookup k (run name w ops).registry = some R' ∧
      R'.pair = R.pair ∧ R'.lp = R.lp ∧ R'.a0 = R.a0 ∧ R'.a1 = R.a1 ∧ R'.req = R.req ∧ R'.comm = R.comm :=
  Halo.Reach.registered_forever ops w hr hraw hrun

/-- in terms of the factory's pair query: a successful lookup keeps succeeding, in both orders -/
theorem lookup_forever {name : Asset → String} (ops : List Op) (w : World) (hr : RegOK w) (hraw : RawOK w)
    (hrun : RegRun name w ops) {a b : Asset} {R : Record} (h : facLookup w a b = some R) :
    ∃ R', facLookup (run name w ops) a b = some R' ∧ facLookup (run name w ops) b a = some R' ∧
      R'.pair = R.pair ∧ R'.lp = R.lp ∧ R'.a0 = R.a0 ∧ R'.a1 = R.a1 ∧ R'.req = R.req ∧ R'.comm = R.comm :=
  Halo.Reach.lookup_forever ops w hr hraw hrun h

/-- a pair created through the factory can be looked up in both orders after any later history -/
theorem created_registered_forever {name : Asset → String} {w w' : World} {s : Nat} {a0 a1 : Asset}
    {req : Requirements} {comm lpDec : Option Nat} {np nl : Nat} (hr : RegOK w) (hraw : RawOK w)
    (hfresh : w.pair np = none) (h : facCreatePair w s a0 a1 req comm lpDec np nl = .ok w')
    (ops : List Op) (hrun : RegRun name w' ops) :
    ∃ R, facLookup (run name w' ops) a0 a1 = some R ∧ facLookup (run name w' ops) a1 a0 = some R ∧
      R.pair = np ∧ R.lp = nl ∧ R.a0 = a0 ∧ R.a1 = a1 :=
  Halo.Reach.created_registered_forever hr hraw hfresh h ops hrun

end Halo.Props.C16R
