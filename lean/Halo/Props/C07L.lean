/-
C07 for LP tokens — who can change an LP token's total supply.  `supply_non_lp` (Halo/Props/C07.lean) says that
the supply of a cw20 token that is not an LP token changes only by a burn of a holder's tokens (by the holder, or
by a spender with its allowance: `BurnFrom`); for an LP token `t` the only further operations are a provision
addressed to a pair whose LP token is `t`, and a withdrawal hook that `t` delivers to such a pair (on the holder's
`Send`, or on a spender's `SendFrom` with the holder's allowance).  Routes cannot reach a provision or a withdrawal:
the router only ever swaps.
The model also lets the raw `Receive {Withdraw}` through when its sender is the LP token contract itself (the pair
cannot tell it from the hook); an external actor is not a cw20 contract, so `ValidOp` excludes that form.
-/
import Halo.Proofs.Reach

namespace Halo.Props.C07L
open Halo

/-- the total supply of a cw20 token `t` is changed only by: a provision addressed to a pair whose LP token is `t`,
a withdrawal hook that `t` delivers to such a pair — on `Send` by the holder or on `SendFrom` by a spender with the
holder's allowance — (or the same `Receive` submitted raw with `t` as the sender), or a burn of a holder's tokens by
the holder or by a spender with its allowance (`BurnFrom`) -/
theorem lp_supply_changes_only {name : Asset → String} {w w' : World} {op : Op} {out : Out}
    (h : exec name w op = .ok (w', out)) (hf : FreshOK w op) (t : Nat) :
    supply w' t = supply w t ∨
    (∃ s q Q f as0 am0 as1 am1 tol r, w.pair q = some Q ∧ Q.lp = t ∧
        op = .pair s q f (.provide as0 am0 as1 am1 tol r)) ∨
    (∃ s q Q a, w.pair q = some Q ∧ Q.lp = t ∧ op = .tokSend t s q a .withdraw) ∨
    (∃ sp o q Q a, w.pair q = some Q ∧ Q.lp = t ∧ op = .tokSendFrom t sp o q a .withdraw) ∨
    (∃ q Q f from_ a, w.pair q = some Q ∧ Q.lp = t ∧ op = .pair t q f (.receive from_ a .withdraw)) ∨
    (∃ s a, op = .tokBurn t s a) ∨
    (∃ sp o a, op = .tokBurnFrom t sp o a) :=
  Halo.Reach.lp_supply_changes_only h hf t

/-- when `p` is the only pair whose LP token is `t`, the provisions and withdrawals are those addressed to `p` -/
theorem lp_supply_changes_only_pair {name : Asset → String} {w w' : World} {op : Op} {out : Out}
    (h : exec name w op = .ok (w', out)) (hf : FreshOK w op) (t p : Nat)
    (huniq : ∀ q Q, w.pair q = some Q → Q.lp = t → q = p) :
    supply w' t = supply w t ∨
    (∃ s f as0 am0 as1 am1 tol r, op = .pair s p f (.provide as0 am0 as1 am1 tol r)) ∨
    (∃ s a, op = .tokSend t s p a .withdraw) ∨
    (∃ sp o a, op = .tokSendFrom t sp o p a .withdraw) ∨
    (∃ f from_ a, op = .pair t p f (.receive from_ a .withdraw)) ∨
    (∃ s a, op = .tokBurn t s a) ∨
    (∃ sp o a, op = .tokBurnFrom t sp o a) :=
  Halo.Reach.lp_supply_changes_only_pair h hf t p huniq

/-- for an operation submitted by an external actor and a live token the raw `Receive` form is impossible -/
theorem lp_supply_changes_only_valid {name : Asset → String} {w w' : World} {op : Op} {out : Out}
    (h : exec name w op = .ok (w', out)) (hv : ValidOp w op) (t : Nat) (hlive : (w.tok t).isSome) :
    supply w' t = supply w t ∨
    (∃ s q Q f as0 am0 as1 am1 tol r, w.pair q = some Q ∧ Q.lp = t ∧
        op = .pair s q f (.provide as0 am0 as1 am1 tol r)) ∨
    (∃ s q Q a, w.pair q = some Q ∧ Q.lp = t ∧ op = .tokSend t s q a .withdraw) ∨
    (∃ sp o q Q a, w.pair q = some Q ∧ Q.lp = t ∧ op = .tokSendFrom t sp o q a .withdraw) ∨
    (∃ s a, op = .tokBurn t s a) ∨
    (∃ sp o a, op = .tokBurnFrom t sp o a) :=
  Halo.Reach.lp_supply_changes_only_valid h hv t hlive

/-- the supply of a live cw20 token whose minter is `p` grows only through a provision addressed to `p` -/
theorem lp_supply_grows_only {name : Asset → String} {w w' : World} {op : Op} {out : Out}
    (h : exec name w op = .ok (w', out)) (hf : FreshOK w op) (t p : Nat)
    (hlive : ∃ T, w.tok t = some T ∧ T.minter = some p) :
    supply w' t ≤ supply w t ∨ ∃ s f as0 am0 as1 am1 tol r, op = .pair s p f (.provide as0 am0 as1 am1 tol r) :=
  Halo.Reach.lp_supply_grows_only h hf t p hlive

end Halo.Props.C07L
