/-
C10 at system level (call sites): `Halo/Props/C10.lean` proves what `assert_max_spread` means as a
function.  Here: every successful swap — inside the handler, and as a whole transaction through either
entry point — *passed* that function on exactly the amounts it reports, with the pair's own decimals in
(offer, ask) order; and a swap (transaction) that fails with the typed guard error was rejected by that
very call, on the amounts the swap would have reported.

`w0` is the world at handler entry (attached funds credited, resp. the cw20 amount transferred): the
reported amounts are `compute_swap` of the pair's reserves there, net of the credited offer.
-/
import Halo.Proofs.CallSites

namespace Halo.Props.C10W
open Halo

/-- (a) a successful `swap` passed `assert_max_spread belief max_spread offer_amount return_amount
spread_amount offer_decimals ask_decimals` on its reported amounts -/
theorem swap_passed_guard {w0 w' : World} {p : Nat} {P : PairSt} {funds : List (Nat × Nat)} {trader : Nat}
    {offer : Asset} {amt : Nat} {belief ms toAddr : Option Nat} {o : SwapOut}
    (h : pairSwap w0 p P funds trader offer amt belief ms toAddr = .ok (w', o)) :
    (offer = P.a0 ∨ offer = P.a1) ∧ amt ≤ bal w0 offer p ∧
    o.offer = amt ∧ o.ask = (if offer = P.a0 then P.a1 else P.a0) ∧
    computeSwap (bal w0 offer p - amt) (bal w0 (if offer = P.a0 then P.a1 else P.a0) p) amt P.comm
      = .ok (o.ret, o.spread, o.comm) ∧
    assertMaxSpread belief ms amt o.ret o.spread
      (if offer = P.a0 then P.d0 else P.d1) (if offer = P.a0 then P.d1 else P.d0) = .ok () :=
  Halo.CallSites.swap_passed_guard h

/-- hence, with `Halo.Props.C10.belief_sound`: a successful swap with a belief price satisfies the C10
bound on its reported amounts (normalised to common decimals) -/
theorem swap_honours_belief {w0 w' : World} {p : Nat} {P : PairSt} {funds : List (Nat × Nat)} {trader : Nat}
    {offer : Asset} {amt pb m : Nat} {toAddr : Option Nat} {o : SwapOut}
    (h : pairSwap w0 p P funds trader offer amt (some pb) (some m) toAddr = .ok (w', o)) :
    ∃ o' r' s', normSpread amt o.ret o.spread
        (if offer = P.a0 then P.d0 else P.d1) (if offer = P.a0 then P.d1 else P.d0) = .ok (o', r', s') ∧
      Spec.c10BeliefSound o' r' pb m = true :=
  Halo.CallSites.swap_honours_belief h

/-- and with `Halo.Props.C10.spread_sound`: without a belief price, the spread bound -/
theorem swap_honours_spread {w0 w' : World} {p : Nat} {P : PairSt} {funds : List (Nat × Nat)} {trader : Nat}
    {offer : Asset} {amt m : Nat} {toAddr : Option Nat} {o : SwapOut}
    (h : pairSwap w0 p P funds trader offer amt none (some m) toAddr = .ok (w', o)) :
    ∃ o' r' s', normSpread amt o.ret o.spread
        (if offer = P.a0 then P.d0 else P.d1) (if offer = P.a0 then P.d1 else P.d0) = .ok (o', r', s') ∧
      Spec.c10SpreadSound r' s' m = true :=
  Halo.CallSites.swap_honours_spread h

/-- (b) the only source of a `.guard` error in `swap` is its call of `assert_max_spread`, made after
`compute_swap` succeeded; `Halo.Props.C10.belief_complete` / `spread_complete` then say why -/
theorem swap_guard_rejection {w0 : World} {p : Nat} {P : PairSt} {funds : List (Nat × Nat)} {trader : Nat}
    {offer : Asset} {amt : Nat} {belief ms toAddr : Option Nat}
    (h : pairSwap w0 p P funds trader offer amt belief ms toAddr = .error .guard) :
    (offer = P.a0 ∨ offer = P.a1) ∧ amt ≤ bal w0 offer p ∧
    ∃ n s k,
      computeSwap (bal w0 offer p - amt) (bal w0 (if offer = P.a0 then P.a1 else P.a0) p) amt P.comm
        = .ok (n, s, k) ∧
      assertMaxSpread belief ms amt n s
        (if offer = P.a0 then P.d0 else P.d1) (if offer = P.a0 then P.d1 else P.d0) = .error .guard :=
  Halo.CallSites.swap_guard_rejection h

/-- (c) the direct entry point, success -/
theorem exec_swap_passed_guard {w w' : World} {s p : Nat} {funds : List (Nat × Nat)} {offer : Asset} {amt : Nat}
    {belief ms toAddr : Option Nat} {out : Out}
    (h : pairExec w s p funds (.swap offer amt belief ms toAddr) = .ok (w', out)) :
    ∃ P w0 o, w.pair p = some P ∧ attach w s p funds = .ok w0 ∧ out = .swap o ∧
      (offer = P.a0 ∨ offer = P.a1) ∧ amt ≤ bal w0 offer p ∧
      o.offer = amt ∧ o.ask = (if offer = P.a0 then P.a1 else P.a0) ∧
      computeSwap (bal w0 offer p - amt) (bal w0 (if offer = P.a0 then P.a1 else P.a0) p) amt P.comm
        = .ok (o.ret, o.spread, o.comm) ∧
      assertMaxSpread belief ms amt o.ret o.spread
        (if offer = P.a0 then P.d0 else P.d1) (if offer = P.a0 then P.d1 else P.d0) = .ok () :=
  Halo.CallSites.exec_swap_passed_guard h

/-- the direct entry point, guard rejection: neither the funds transfer nor anything else in the
transaction produces the guard error -/
theorem exec_swap_guard_rejection {w : World} {s p : Nat} {funds : List (Nat × Nat)} {offer : Asset} {amt : Nat}
    {belief ms toAddr : Option Nat}
    (h : pairExec w s p funds (.swap offer amt belief ms toAddr) = .error .guard) :
    ∃ P w0, w.pair p = some P ∧ attach w s p funds = .ok w0 ∧
      (offer = P.a0 ∨ offer = P.a1) ∧ amt ≤ bal w0 offer p ∧
      ∃ n s' k,
        computeSwap (bal w0 offer p - amt) (bal w0 (if offer = P.a0 then P.a1 else P.a0) p) amt P.comm
          = .ok (n, s', k) ∧
        assertMaxSpread belief ms amt n s'
          (if offer = P.a0 then P.d0 else P.d1) (if offer = P.a0 then P.d1 else P.d0) = .error .guard :=
  Halo.CallSites.exec_swap_guard_rejection h

/-- the cw20 `Send` hook entry point, success -/
theorem hook_swap_passed_guard {w w' : World} {t u p amt a : Nat} {offer : Asset}
    {belief ms toAddr : Option Nat} {out : Out}
    (h : tokSendPair w t u p amt (.swap offer a belief ms toAddr) = .ok (w', out)) :
    ∃ P w0 o, w.pair p = some P ∧ tokTransfer w t u p amt = .ok w0 ∧ out = .swap o ∧
      offer = .token t ∧ a = amt ∧
      (offer = P.a0 ∨ offer = P.a1) ∧ amt ≤ bal w0 offer p ∧
      o.offer = amt ∧ o.ask = (if offer = P.a0 then P.a1 else P.a0) ∧
      computeSwap (bal w0 offer p - amt) (bal w0 (if offer = P.a0 then P.a1 else P.a0) p) amt P.comm
        = .ok (o.ret, o.spread, o.comm) ∧
      assertMaxSpread belief ms amt o.ret o.spread
        (if offer = P.a0 then P.d0 else P.d1) (if offer = P.a0 then P.d1 else P.d0) = .ok () :=
  Halo.CallSites.hook_swap_passed_guard h

/-- the hook entry point, guard rejection -/
theorem hook_swap_guard_rejection {w : World} {t u p amt a : Nat} {offer : Asset}
    {belief ms toAddr : Option Nat}
    (h : tokSendPair w t u p amt (.swap offer a belief ms toAddr) = .error .guard) :
    ∃ P w0, w.pair p = some P ∧ tokTransfer w t u p amt = .ok w0 ∧ offer = .token t ∧ a = amt ∧
      (offer = P.a0 ∨ offer = P.a1) ∧ amt ≤ bal w0 offer p ∧
      ∃ n s' k,
        computeSwap (bal w0 offer p - amt) (bal w0 (if offer = P.a0 then P.a1 else P.a0) p) amt P.comm
          = .ok (n, s', k) ∧
        assertMaxSpread belief ms amt n s'
          (if offer = P.a0 then P.d0 else P.d1) (if offer = P.a0 then P.d1 else P.d0) = .error .guard :=
  Halo.CallSites.hook_swap_guard_rejection h

end Halo.Props.C10W
