/-
C17 — native-decimals updates reach every affected pair, for any number of registered pairs.
-/
import Halo.Proofs.RegOK

namespace Halo.Props.C17
open Halo

/-- after the owner re-registers denom `d` with decimals `k`: the denom table reports `k`; every
registered pair containing `d` carries `k` in `d`'s position, in the factory record and in the pair's own
description (which agree, `recMatches`); records are otherwise unchanged, and pairs not containing `d`
are untouched -/
theorem update_reaches_all {w w' : World} {s d k : Nat} (hr : RegOK w) (hraw : RawOK w)
    (h : facAddDecimals w s d k = .ok w') :
    w'.denoms d = some k ∧
    w'.registry.map (·.1) = w.registry.map (·.1) ∧
    (∀ e' ∈ w'.registry, ∃ e ∈ w.registry, e.1 = e'.1 ∧
        e'.2.a0 = e.2.a0 ∧ e'.2.a1 = e.2.a1 ∧ e'.2.pair = e.2.pair ∧ e'.2.lp = e.2.lp ∧ e'.2.req = e.2.req ∧ e'.2.comm = e.2.comm ∧
        e'.2.d0 = (if e.2.a0 = .native d then k else e.2.d0) ∧
        e'.2.d1 = (if e.2.a1 = .native d then k else e.2.d1) ∧
        recMatches w' e'.2) :=
  Halo.RegOKP.update_reaches_all hr hraw h

/-- pairs that do not contain the denom keep their state -/
theorem update_others_untouched {w w' : World} {s d k : Nat} (hr : RegOK w) (hraw : RawOK w)
    (h : facAddDecimals w s d k = .ok w') (p : Nat) (P : PairSt) (hP : w.pair p = some P)
    (h0 : P.a0 ≠ .native d) (h1 : P.a1 ≠ .native d) : w'.pair p = some P :=
  Halo.RegOKP.update_others_untouched hr hraw h p P hP h0 h1

/-- the fan-out moves no balance and no supply -/
theorem update_moves_nothing {w w' : World} {s d k : Nat} (h : facAddDecimals w s d k = .ok w') :
    w'.bank = w.bank ∧ w'.tok = w.tok :=
  Halo.RegOKP.update_moves_nothing h

/-- consequently factory record and pair self-description never diverge over any history of
creations and updates: `RegOK` is preserved by every operation (Halo.Props.C16W.regOK_step) -/
theorem record_eq_pair_forever {name : Asset → String} {w w' : World} {op : Op} {out : Out}
    (hr : RegOK w) (hraw : RawOK w)
    (hactor : ∀ s p f m, op = .pair s p f m → s ≠ w.facAddr)
    (hfresh : ∀ s f a0 a1 req c ld np nl, op = .factory s f (.createPair a0 a1 req c ld np nl) → w.pair np = none)
    (h : exec name w op = .ok (w', out)) : ∀ e ∈ w'.registry, recMatches w' e.2 :=
  (Halo.RegOKP.regOK_step hr hraw hactor hfresh h).matched

end Halo.Props.C17
