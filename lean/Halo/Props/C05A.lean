/-
C05, the movement of the deposits.  `Halo/Props/C05W.lean` describes a provision from the world `w0` at
handler entry (native deposits already credited, and only for a pair with positive supply does it say how
the cw20 deposits move).  Here, for the whole transaction and for both the positive-supply and the
empty-pool case: each pair asset — native (through the attached funds) or cw20 (through `TransferFrom`
on the caller's allowance) — moves from the caller to the pair in exactly the declared amount, and
nobody else's balance of it changes.

Hypotheses: the caller is not the pair, the funds carry each denom at most once (DESIGN §6 C09), the pair's
assets are distinct and neither is its own LP token (C16).
-/
import Halo.Proofs.CallSites

namespace Halo.Props.C05A
open Halo

/-- inside the handler (`w0` = handler entry): a native pair asset was declared exactly as attached and
does not move any more; a cw20 pair asset is pulled from the caller in exactly the declared amount -/
theorem provide_moves {w0 w' : World} {p : Nat} {P : PairSt} {s : Nat} {funds : List (Nat × Nat)}
    {as0 as1 : Asset} {am0 am1 : Nat} {tol rcv : Option Nat} {m : Nat}
    (hsp : s ≠ p) (hne : P.a0 ≠ P.a1) (hl0 : P.a0 ≠ .token P.lp) (hl1 : P.a1 ≠ .token P.lp)
    (h : pairProvide w0 p P s funds as0 am0 as1 am1 tol rcv = .ok (w', m)) :
    ∃ d0 d1,
      ((as0 = P.a0 ∧ d0 = am0) ∨ (as0 ≠ P.a0 ∧ as1 = P.a0 ∧ d0 = am1)) ∧
      ((as0 = P.a1 ∧ d1 = am0) ∨ (as0 ≠ P.a1 ∧ as1 = P.a1 ∧ d1 = am1)) ∧
      (∀ d, P.a0 = .native d → Spec.c09 d d0 funds = true ∧ ∀ z, bal w' P.a0 z = bal w0 P.a0 z) ∧
      (∀ d, P.a1 = .native d → Spec.c09 d d1 funds = true ∧ ∀ z, bal w' P.a1 z = bal w0 P.a1 z) ∧
      (∀ t, P.a0 = .token t →
        bal w' P.a0 p = bal w0 P.a0 p + d0 ∧ bal w' P.a0 s + d0 = bal w0 P.a0 s ∧
        ∀ z, z ≠ s → z ≠ p → bal w' P.a0 z = bal w0 P.a0 z) ∧
      (∀ t, P.a1 = .token t →
        bal w' P.a1 p = bal w0 P.a1 p + d1 ∧ bal w' P.a1 s + d1 = bal w0 P.a1 s ∧
        ∀ z, z ≠ s → z ≠ p → bal w' P.a1 z = bal w0 P.a1 z) :=
  Halo.CallSites.provide_moves hsp hne hl0 hl1 h

/-- the whole transaction, uniformly in the kind of each asset and in whether the pool was empty:
`d0`, `d1` are the declared deposits in pair order; the pair's balance of each pair asset rises by exactly
the deposit, the caller's falls by exactly that, nobody else's changes -/
theorem exec_provide_moves {w w' : World} {s p : Nat} {funds : List (Nat × Nat)} {P : PairSt}
    {as0 as1 : Asset} {am0 am1 : Nat} {tol rcv : Option Nat} {out : Out}
    (hsp : s ≠ p) (hnd : (funds.map (·.1)).Nodup) (hP : w.pair p = some P)
    (hne : P.a0 ≠ P.a1) (hl0 : P.a0 ≠ .token P.lp) (hl1 : P.a1 ≠ .token P.lp)
    (h : pairExec w s p funds (.provide as0 am0 as1 am1 tol rcv) = .ok (w', out)) :
    ∃ w0 d0 d1 m, attach w s p funds = .ok w0 ∧
      pairProvide w0 p P s funds as0 am0 as1 am1 tol rcv = .ok (w', m) ∧ out = .provide m ∧
      ((as0 = P.a0 ∧ d0 = am0) ∨ (as0 ≠ P.a0 ∧ as1 = P.a0 ∧ d0 = am1)) ∧
      ((as0 = P.a1 ∧ d1 = am0) ∨ (as0 ≠ P.a1 ∧ as1 = P.a1 ∧ d1 = am1)) ∧
      (bal w' P.a0 p = bal w P.a0 p + d0 ∧ bal w' P.a0 s + d0 = bal w P.a0 s ∧
        ∀ z, z ≠ s → z ≠ p → bal w' P.a0 z = bal w P.a0 z) ∧
      (bal w' P.a1 p = bal w P.a1 p + d1 ∧ bal w' P.a1 s + d1 = bal w P.a1 s ∧
        ∀ z, z ≠ s → z ≠ p → bal w' P.a1 z = bal w P.a1 z) :=
  Halo.CallSites.exec_provide_moves hsp hnd hP hne hl0 hl1 h

end Halo.Props.C05A
