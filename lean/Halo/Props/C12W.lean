/-
C12 at system level: a pair's forward simulation of an offer returns exactly the return, spread and
commission that an immediately following swap of the same offer produces whenever that swap
succeeds; the router's simulations are the hop-by-hop composition of the pair queries.
-/
import Halo.Proofs.C02

namespace Halo.Props.C12W
open Halo

/-- direct swap carrying exactly the offer -/
theorem sim_eq_exec_native {w w' : World} {s p d amt : Nat} {b ms to : Option Nat} {o : SwapOut} {P : PairSt}
    (hP : w.pair p = some P) (hne : P.a0 ≠ P.a1) (hsp : s ≠ p)
    (h : pairExec w s p [(d, amt)] (.swap (.native d) amt b ms to) = .ok (w', .swap o)) :
    qSimulation w p (.native d) amt = .ok (o.ret, o.spread, o.comm) :=
  Halo.C02.sim_eq_exec_native hP hne hsp h

/-- swap through a cw20 hook -/
theorem sim_eq_exec_hook {w w' : World} {t u p amt : Nat} {b ms to : Option Nat} {o : SwapOut} {P : PairSt}
    (hP : w.pair p = some P) (hne : P.a0 ≠ P.a1) (hup : u ≠ p)
    (h : tokSendPair w t u p amt (.swap (.token t) amt b ms to) = .ok (w', .swap o)) :
    qSimulation w p (.token t) amt = .ok (o.ret, o.spread, o.comm) :=
  Halo.C02.sim_eq_exec_hook hP hne hup h

/-- the simulation is the pricing function on the current reserves -/
theorem sim_is_pricing {w : World} {p : Nat} {P : PairSt} {offer : Asset} {amt : Nat} {r : Nat × Nat × Nat}
    (hP : w.pair p = some P) (h : qSimulation w p offer amt = .ok r) :
    (offer = P.a0 ∧ computeSwap (bal w P.a0 p) (bal w P.a1 p) amt P.comm = .ok r) ∨
    (offer ≠ P.a0 ∧ offer = P.a1 ∧ computeSwap (bal w P.a1 p) (bal w P.a0 p) amt P.comm = .ok r) :=
  Halo.C02.sim_is_pricing hP h

/-- reverse simulation is the reverse formula on the current reserves (bounds against the closed form: Halo.Props.C12) -/
theorem rsim_is_pricing {w : World} {p : Nat} {P : PairSt} {ask : Asset} {amt : Nat} {r : Nat × Nat × Nat}
    (hP : w.pair p = some P) (h : qReverseSimulation w p ask amt = .ok r) :
    (ask = P.a0 ∧ computeOfferAmount (bal w P.a1 p) (bal w P.a0 p) amt P.comm = .ok r) ∨
    (ask ≠ P.a0 ∧ ask = P.a1 ∧ computeOfferAmount (bal w P.a0 p) (bal w P.a1 p) amt P.comm = .ok r) :=
  Halo.C02.rsim_is_pricing hP h

/-- router forward simulation = left fold of the pairs' simulations over the hops -/
theorem router_sim_nil (w : World) (amt : Nat) : routerSimulate w amt [] = .ok amt := rfl
theorem router_sim_cons {w : World} {amt n : Nat} {o a : Asset} {rest : List (Asset × Asset)} {R : Record} {s k : Nat}
    (hR : facLookup w o a = some R) (hq : qSimulation w R.pair o amt = .ok (n, s, k)) :
    routerSimulate w amt ((o, a) :: rest) = routerSimulate w n rest :=
  Halo.C02.router_sim_cons hR hq

/-- router reverse simulation = right fold of the pairs' reverse simulations -/
theorem router_rev_nil (w : World) (amt : Nat) : routerReverse w amt [] = .ok amt := rfl
theorem router_rev_cons {w : World} {amt need x : Nat} {o a : Asset} {rest : List (Asset × Asset)} {R : Record} {s k : Nat}
    (hrest : routerReverse w amt rest = .ok need) (hR : facLookup w o a = some R)
    (hq : qReverseSimulation w R.pair a need = .ok (x, s, k)) :
    routerReverse w amt ((o, a) :: rest) = .ok x :=
  Halo.C02.router_rev_cons hrest hR hq

end Halo.Props.C12W
