/-
C19 — pair listing pagination is complete and duplicate-free.
The registry is a key-sorted association list (`PAIRS`); a page is `read_pairs` (exclusive start
`cursor ++ [1]`, `take (min (limit or 10) 30)`); the walk continues after the last entry returned.
-/
import Halo.Proofs.C19

namespace Halo.Props.C19
open Halo

/-- a page never exceeds 30 entries, defaults to 10, and never exceeds the requested limit -/
theorem page_le_30 {α} (reg : List (Bytes × α)) (c : Option Bytes) (lim : Option Nat) :
    (readPairs reg c lim).length ≤ 30 := Halo.C19.page_le_30 reg c lim
theorem page_default_10 {α} (reg : List (Bytes × α)) (c : Option Bytes) :
    (readPairs reg c none).length ≤ 10 := Halo.C19.page_default_10 reg c
theorem page_le_limit {α} (reg : List (Bytes × α)) (c : Option Bytes) (k : Nat) :
    (readPairs reg c (some k)).length ≤ k := Halo.C19.page_le_limit reg c k

/-- the exclusive bound `cursor ++ [1]` means "strictly after the cursor" for every key that does not
extend the cursor by a NUL-leading suffix or by exactly `[1]` -/
theorem rangeStart_lt_iff {c k : Bytes} (h : NoLowExt1 c k) : rangeStart c < k ↔ c < k :=
  Halo.C19.rangeStart_lt_iff h

/-- walking with any page size (absent, or ≥ 1), each time continuing after the last pair returned,
visits every registered pair exactly once, in order, and then ends -/
theorem walk_complete {α} (reg : List (Bytes × α)) (lim : Option Nat) (hl : lim ≠ some 0)
    (hs : reg.Pairwise (fun e f => e.1 < f.1)) (hno : NoLowExt reg) :
    walk reg lim = reg := Halo.C19.walk_complete reg lim hl hs hno

/-- more fuel than `length + 1` pages changes nothing: the walk has ended -/
theorem walk_fuel_irrelevant {α} (reg : List (Bytes × α)) (lim : Option Nat) (hl : lim ≠ some 0)
    (hs : reg.Pairwise (fun e f => e.1 < f.1)) (hno : NoLowExt reg) (f : Nat) (hf : reg.length + 1 ≤ f) :
    walkFuel reg lim f none = reg := Halo.C19.walk_fuel_irrelevant reg lim hl hs hno f hf

/-- `NoLowExt` holds for registry keys (`pair_key`, with its length prefix) whenever every identifier byte is ≥ 2 —
in particular for all Cosmos-SDK denoms `[a-zA-Z][a-zA-Z0-9/:._-]{2,127}` -/
theorem noLowExt_of_ids_ge_2 {α} (reg : List (Bytes × α))
    (h : ∀ e ∈ reg, ∃ a b : Bytes, e.1 = pairKey a b ∧ (∀ x ∈ a, 2 ≤ x) ∧ (∀ x ∈ b, 2 ≤ x)) :
    NoLowExt reg := Halo.C19.noLowExt_of_ids_ge_2 reg h

/-- the hypothesis is necessary: with a key extended by a NUL byte the walk skips a pair
(such identifiers are outside the denom alphabet; DESIGN §7 "observed, not findings") -/
theorem walk_needs_hypothesis :
    walk [([5], 0), ([5, 0], 1), ([6], 2)] (some 1) ≠ [([5], 0), ([5, 0], 1), ([6], 2)] := by decide

/-- `PAIRS.save` keeps the registry sorted, so sortedness holds in every reachable state -/
theorem regInsert_sorted {α} (k : Bytes) (v : α) (reg : List (Bytes × α))
    (hs : reg.Pairwise (fun e f => e.1 < f.1)) : (regInsert k v reg).Pairwise (fun e f => e.1 < f.1) :=
  Halo.C19.regInsert_sorted k v reg hs

example : walk [([1, 2], 0), ([1, 3], 1), ([2], 2), ([2, 5], 3)] (some 3) = [([1, 2], 0), ([1, 3], 1), ([2], 2), ([2, 5], 3)] := by decide

end Halo.Props.C19
