/-
C09 at system level: a provision or swap naming a native asset with amount `v` succeeds only if
the funds attached to that very call carry exactly `v` of that denom (absent ≙ 0); otherwise it
fails and — a transaction being atomic — nothing changes.
Environment assumption (DESIGN §6 C09): the funds of a message carry each denom at most once, as the
Cosmos SDK enforces; with a duplicated denom the contract sees only the first entry.
-/
import Halo.Proofs.C14
import Halo.Proofs.CallSitesC09

namespace Halo.Props.C09W
open Halo

theorem provide_native_exact {w : World} {s p : Nat} {funds : List (Nat × Nat)}
    {as0 as1 : Asset} {am0 am1 : Nat} {tol rcv : Option Nat} {r : World × Out}
    (h : pairExec w s p funds (.provide as0 am0 as1 am1 tol rcv) = .ok r) :
    (∀ d, as0 = .native d → Spec.c09 d am0 funds = true) ∧ (∀ d, as1 = .native d → Spec.c09 d am1 funds = true) :=
  Halo.C14.provide_native_exact h

theorem swap_native_exact {w : World} {s p d amt : Nat} {funds : List (Nat × Nat)} {b ms to : Option Nat} {r : World × Out}
    (h : pairExec w s p funds (.swap (.native d) amt b ms to) = .ok r) : Spec.c09 d amt funds = true :=
  Halo.C14.swap_native_exact h

/-- a cw20 hook can never credit a native asset: the hook must name the sending token -/
theorem hook_never_native {w : World} {t u p amt d a : Nat} {b ms to : Option Nat} {r : World × Out} :
    tokSendPair w t u p amt (.swap (.native d) a b ms to) ≠ .ok r :=
  Halo.C14.hook_never_native

/-- otherwise the call fails and nothing changes -/
theorem mismatch_changes_nothing {name : Asset → String} {w : World} {s p d amt : Nat} {funds : List (Nat × Nat)}
    {b ms to : Option Nat} (hm : Spec.c09 d amt funds = false) :
    step name w (.pair s p funds (.swap (.native d) amt b ms to)) = w :=
  Halo.C14.mismatch_changes_nothing hm

/-- the same for a provision: if either declared asset is native and its declared amount differs from the
amount of that denom attached to the call, the transaction fails and nothing changes -/
theorem provide_mismatch_changes_nothing {name : Asset → String} {w : World} {s p : Nat} {funds : List (Nat × Nat)}
    {as0 as1 : Asset} {am0 am1 : Nat} {tol rcv : Option Nat}
    (hm : (∃ d, as0 = .native d ∧ Spec.c09 d am0 funds = false) ∨
          (∃ d, as1 = .native d ∧ Spec.c09 d am1 funds = false)) :
    step name w (.pair s p funds (.provide as0 am0 as1 am1 tol rcv)) = w :=
  Halo.CallSites.provide_mismatch_changes_nothing hm

end Halo.Props.C09W
