/-
C04 at system level: the effect of a withdrawal `lp.Send{pair, a, WithdrawLiquidity}` by holder `h`.
-/
import Halo.Proofs.Liquidity

namespace Halo.Props.C04W
open Halo

/-- a successful withdrawal pays the holder exactly the reported refunds, each within the pro-rata
bracket of the reserves and supply before the transaction, lowers the LP supply and the holder's LP
balance by exactly `a`, and changes nobody else's balances -/
theorem withdraw_effect {w w' : World} {t h p a x0 x1 : Nat} {P : PairSt}
    (hP : w.pair p = some P) (hhp : h ≠ p) (hne : P.a0 ≠ P.a1) (hl0 : P.a0 ≠ .token P.lp) (hl1 : P.a1 ≠ .token P.lp)
    (hx : tokSendPair w t h p a .withdraw = .ok (w', .withdraw x0 x1)) :
    t = P.lp ∧ 1 ≤ a ∧ a ≤ bal w (.token P.lp) h ∧
    Spec.c04 (bal w P.a0 p) a (supply w P.lp) x0 = true ∧ Spec.c04 (bal w P.a1 p) a (supply w P.lp) x1 = true ∧
    supply w' P.lp + a = supply w P.lp ∧
    bal w' (.token P.lp) h + a = bal w (.token P.lp) h ∧
    bal w' (.token P.lp) p = bal w (.token P.lp) p ∧
    bal w' P.a0 h = bal w P.a0 h + x0 ∧ bal w' P.a1 h = bal w P.a1 h + x1 ∧
    bal w' P.a0 p + x0 = bal w P.a0 p ∧ bal w' P.a1 p + x1 = bal w P.a1 p ∧
    (∀ b z, z ≠ h → z ≠ p → bal w' b z = bal w b z) ∧
    (∀ u, u ≠ P.lp → supply w' u = supply w u) :=
  Halo.Liquidity.withdraw_effect hP hhp hne hl0 hl1 hx

end Halo.Props.C04W
