/-
C20 — the 128-bit bounds are invariants.
`C20.withdraw_live` and `C20W.withdraw_live_after_history` take the bounds `bal … < W`, `supply … < W`
(`W = 2^128`) of the world in which the withdrawal is submitted as hypotheses.  They are invariants of the model:

  (a) cw20: every operation keeps every total supply below `W` (a mint that would reach `W` fails, a burn only
      decreases, a token instantiated by `CreatePair` starts at 0), so this holds after any history whatsoever;
      with cw20 conservation (`TokSumOK`, preserved by every operation of an external actor) every balance is
      at most the supply,
  (b) bank: `NativeBound w d` — every duplicate-free list of accounts holds less than `W` of denom `d`, i.e. the
      denom circulates less than `W` — is preserved by every operation (coins are only moved), so it holds after
      any history whatsoever, and bounds every balance,
  (c) hence `withdraw_live_reachable`: `C20W.withdraw_live_after_history` with the three bounds on the final world
      replaced by bounds on the initial one (`AssetBound`: `NativeBound` for a denom, `TokSumOK` and a supply
      below `W` for a cw20 token), and the same from the creation of the pair.
-/
import Halo.Proofs.Bounds

namespace Halo.Props.C20B
open Halo
open Halo.Bounds (NativeBound AssetBound)

/-! ### (a) cw20 -/

/-- every successful operation keeps the total supply of every cw20 token below 2^128 -/
theorem supply_lt_W_step {name : Asset → String} {w w' : World} {op : Op} {out : Out}
    (h : exec name w op = .ok (w', out)) (t : Nat) (hb : supply w t < W) : supply w' t < W :=
  Halo.Bounds.supply_lt_W_step h t hb

/-- … hence after any history (no validity assumption: not even freshness of allocated addresses is needed) -/
theorem supply_lt_W_run {name : Asset → String} (t : Nat) (ops : List Op) (w : World) (hb : supply w t < W) :
    supply (run name w ops) t < W :=
  Halo.Bounds.supply_lt_W_run t ops w hb

/-- with cw20 conservation every balance is at most the supply -/
theorem token_bal_lt_W {w : World} {t : Nat} (hk : TokSumOK w t) (hb : supply w t < W) (z : Nat) :
    bal w (.token t) z < W :=
  Halo.Bounds.token_bal_lt_W hk hb z

/-- cw20 conservation along a history of external actors' operations -/
theorem tokSumOK_run {name : Asset → String} (t : Nat) (ops : List Op) (w : World) (hv : ValidRun name w ops)
    (hk : TokSumOK w t) : TokSumOK (run name w ops) t :=
  Halo.Bounds.tokSumOK_run t ops w hv hk

theorem token_bal_lt_W_run {name : Asset → String} (t : Nat) (ops : List Op) (w : World) (hv : ValidRun name w ops)
    (hk : TokSumOK w t) (hb : supply w t < W) (z : Nat) : bal (run name w ops) (.token t) z < W :=
  Halo.Bounds.token_bal_lt_W_run t ops w hv hk hb z

/-! ### (b) bank -/

/-- the definition, spelled out -/
theorem nativeBound_iff (w : World) (d : Nat) :
    NativeBound w d ↔ ∀ L : List Nat, L.Nodup → sumBal w (.native d) L < W := Iff.rfl

/-- every successful operation preserves the bound on the circulation of every denom -/
theorem nativeBound_step {name : Asset → String} {w w' : World} {op : Op} {out : Out}
    (h : exec name w op = .ok (w', out)) (d : Nat) (hb : NativeBound w d) : NativeBound w' d :=
  Halo.Bounds.nativeBound_step h d hb

/-- … hence after any history (no validity assumption) -/
theorem nativeBound_run {name : Asset → String} (d : Nat) (ops : List Op) (w : World) (hb : NativeBound w d) :
    NativeBound (run name w ops) d :=
  Halo.Bounds.nativeBound_run d ops w hb

theorem native_bal_lt_W {w : World} {d : Nat} (hb : NativeBound w d) (z : Nat) : bal w (.native d) z < W :=
  Halo.Bounds.native_bal_lt_W hb z

theorem native_bal_lt_W_run {name : Asset → String} (d : Nat) (ops : List Op) (w : World) (hb : NativeBound w d)
    (z : Nat) : bal (run name w ops) (.native d) z < W :=
  Halo.Bounds.native_bal_lt_W_run d ops w hb z

/-! ### (c) liveness of withdrawals from bounds at genesis -/

/-- the definition, spelled out -/
theorem assetBound_native (w : World) (d : Nat) : AssetBound w (.native d) ↔ NativeBound w d := Iff.rfl
theorem assetBound_token (w : World) (t : Nat) : AssetBound w (.token t) ↔ TokSumOK w t ∧ supply w t < W := Iff.rfl

/-- every balance of a bounded asset is below 2^128 after any history of external actors' operations -/
theorem bal_lt_W_run {name : Asset → String} (a : Asset) (ops : List Op) (w : World) (hv : ValidRun name w ops)
    (hb : AssetBound w a) (z : Nat) : bal (run name w ops) a z < W :=
  Halo.Bounds.bal_lt_W_run a ops w hv hb z

/-- `C20W.withdraw_live_after_history` with the bounds `hr0`, `hr1`, `hSW` on the final world replaced by
`hS0`, `hb0`, `hb1` on the initial world -/
theorem withdraw_live_reachable {name : Asset → String} {p : Nat} {a0 a1 : Asset} {lp : Nat}
    (ops : List Op) (w : World) (hinv : PairInv w p a0 a1 lp) (hv : ValidRun name w ops)
    {h a : Nat} (hhp : h ≠ p) (hvalid : w.badAddr h = false) (ha1 : 1 ≤ a)
    (hab : a ≤ bal (run name w ops) (.token lp) h)
    (hS0 : supply w lp < W) (hb0 : AssetBound w a0) (hb1 : AssetBound w a1)
    (hent0 : (bal (run name w ops) a0 p + 2 * E) * supply (run name w ops) lp ≤ bal (run name w ops) a0 p * a * E)
    (hent1 : (bal (run name w ops) a1 p + 2 * E) * supply (run name w ops) lp ≤ bal (run name w ops) a1 p * a * E) :
    ∃ w' x0 x1, exec name (run name w ops) (.tokSend lp h p a .withdraw) = .ok (w', .withdraw x0 x1) ∧
      2 ≤ x0 ∧ 2 ≤ x1 :=
  Halo.Bounds.withdraw_live_reachable ops w hinv hv hhp hvalid ha1 hab hS0 hb0 hb1 hent0 hent1

/-- `C20W.withdraw_live_from_creation` likewise: the bounds are those of the world in which the pair is created
(its LP token starts with supply 0 and needs none) -/
theorem withdraw_live_reachable_from_creation {name : Asset → String} {w w1 : World} {s : Nat}
    {f : List (Nat × Nat)} {a0 a1 : Asset} {req : Requirements} {c ld : Option Nat} {np nl : Nat} {out : Out}
    (hv : ValidOp w (.factory s f (.createPair a0 a1 req c ld np nl))) (hn : NewAddrs w np nl)
    (hc : exec name w (.factory s f (.createPair a0 a1 req c ld np nl)) = .ok (w1, out))
    (ops : List Op) (hvr : ValidRun name w1 ops)
    {h a : Nat} (hhp : h ≠ np) (hvalid : w.badAddr h = false) (ha1 : 1 ≤ a)
    (hab : a ≤ bal (run name w1 ops) (.token nl) h)
    (hb0 : AssetBound w a0) (hb1 : AssetBound w a1)
    (hent0 : (bal (run name w1 ops) a0 np + 2 * E) * supply (run name w1 ops) nl ≤ bal (run name w1 ops) a0 np * a * E)
    (hent1 : (bal (run name w1 ops) a1 np + 2 * E) * supply (run name w1 ops) nl ≤ bal (run name w1 ops) a1 np * a * E) :
    ∃ w' x0 x1, exec name (run name w1 ops) (.tokSend nl h np a .withdraw) = .ok (w', .withdraw x0 x1) ∧
      2 ≤ x0 ∧ 2 ≤ x1 :=
  Halo.Bounds.withdraw_live_reachable_from_creation hv hn hc ops hvr hhp hvalid ha1 hab hb0 hb1 hent0 hent1

end Halo.Props.C20B
