/-
C20 — liquidity can always be withdrawn.
In any world in which the pair is well-formed (its two assets are distinct, live, and neither is its own
LP token; its LP token is live), a holder `h` can withdraw any amount `1 ≤ a ≤` balance whose pro-rata
entitlement `r_i·a/S` is at least `r_i/10^18 + 2` units of each asset: the transaction succeeds —
whatever the reserves and supply are, i.e. whatever other actors did before.
`a ≤ S` is cw20-base's own conservation (a balance never exceeds the total supply); balances are
128-bit on the real ledger, which the unbounded model records as hypotheses.
`hvalid`: the holder's address passes `addr_validate` — the pair validates the cw20 sender of `WithdrawLiquidity`
(`deps.api.addr_validate(cw20_msg.sender.as_str())?`); on a chain every account that can sign has a valid address.
-/
import Halo.Proofs.Liquidity

namespace Halo.Props.C20
open Halo

theorem withdraw_live {w : World} {p h a : Nat} {P : PairSt}
    (hP : w.pair p = some P) (hhp : h ≠ p) (hvalid : w.badAddr h = false)
    (hne : P.a0 ≠ P.a1) (hl0 : P.a0 ≠ .token P.lp) (hl1 : P.a1 ≠ .token P.lp)
    (hlp : (w.tok P.lp).isSome)
    (ht0 : ∀ t, P.a0 = .token t → (w.tok t).isSome) (ht1 : ∀ t, P.a1 = .token t → (w.tok t).isSome)
    (ha1 : 1 ≤ a) (hab : a ≤ bal w (.token P.lp) h) (haS : a ≤ supply w P.lp)
    (hr0 : bal w P.a0 p < W) (hr1 : bal w P.a1 p < W) (hSW : supply w P.lp < W)
    (hent0 : (bal w P.a0 p + 2 * E) * supply w P.lp ≤ bal w P.a0 p * a * E)
    (hent1 : (bal w P.a1 p + 2 * E) * supply w P.lp ≤ bal w P.a1 p * a * E) :
    ∃ w' x0 x1, tokSendPair w P.lp h p a .withdraw = .ok (w', .withdraw x0 x1) ∧ 2 ≤ x0 ∧ 2 ≤ x1 :=
  Halo.Liquidity.withdraw_live hP hhp hvalid hne hl0 hl1 hlp ht0 ht1 ha1 hab haS hr0 hr1 hSW hent0 hent1

/-- the supply bound used above is an invariant of the token ledger: for every duplicate-free list of
accounts the balances sum to at most the supply, and every ledger primitive preserves this -/
theorem tokSumOK_holder {w : World} {t h : Nat} (hk : TokSumOK w t) : bal w (.token t) h ≤ supply w t :=
  Halo.Liquidity.tokSumOK_holder hk

theorem tokSumOK_step {name : Asset → String} {w w' : World} {op : Op} {out : Out} {t : Nat}
    (hk : TokSumOK w t) (hf : FreshOK w op) (h : exec name w op = .ok (w', out)) : TokSumOK w' t :=
  Halo.Liquidity.tokSumOK_step hk hf h

end Halo.Props.C20
