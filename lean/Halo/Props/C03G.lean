/-
C03 / C20 from genesis — the invariant `PairInv` on which the history theorems rest is *established* by the
factory's `CreatePair` and preserved by every operation, so "every reachable pair state" means exactly:
every state reached by any history of external actors' operations after the pair was created.

`NewAddrs` is the environment's address allocation: the two addresses handed to the new pair contract and
its LP token are distinct, unused, and not the router (the chain allocates instantiation addresses freshly;
`FreshOK` inside `ValidOp` carries the rest).
-/
import Halo.Proofs.C03G

namespace Halo.Props.C03G
open Halo

/-- a successful `CreatePair` establishes the invariant for the new pair (with zero LP supply) -/
theorem created_pair_inv {name : Asset → String} {w w' : World} {s : Nat} {f : List (Nat × Nat)}
    {a0 a1 : Asset} {req : Requirements} {c ld : Option Nat} {np nl : Nat} {out : Out}
    (hv : ValidOp w (.factory s f (.createPair a0 a1 req c ld np nl))) (hn : NewAddrs w np nl)
    (h : exec name w (.factory s f (.createPair a0 a1 req c ld np nl)) = .ok (w', out)) :
    PairInv w' np a0 a1 nl ∧ supply w' nl = 0 :=
  Halo.C03G.created_pair_inv hv hn h

/-- the invariant is preserved along every history of external actors' operations (in-window swaps included) -/
theorem pairInv_run {name : Asset → String} {p : Nat} {a0 a1 : Asset} {lp : Nat} (ops : List Op) (w : World)
    (hinv : PairInv w p a0 a1 lp) (hv : ValidRun name w ops) :
    PairInv (run name w ops) p a0 a1 lp :=
  Halo.C03G.pairInv_run ops w hinv hv

/-- **C03_partial from genesis**: from the creation of a pair on, along any history none of whose swaps on the
pair is in the window, the share value never decreases between any two points of the history -/
theorem history_from_creation {name : Asset → String} {w w1 : World} {s : Nat} {f : List (Nat × Nat)}
    {a0 a1 : Asset} {req : Requirements} {c ld : Option Nat} {np nl : Nat} {out : Out}
    (hv : ValidOp w (.factory s f (.createPair a0 a1 req c ld np nl))) (hn : NewAddrs w np nl)
    (h : exec name w (.factory s f (.createPair a0 a1 req c ld np nl)) = .ok (w1, out))
    (ops₁ ops₂ : List Op) (hv₁ : ValidRun name w1 ops₁) (hv₂ : ValidRun name (run name w1 ops₁) ops₂)
    (hnw : NoWindowRun name np (run name w1 ops₁) ops₂) :
    NonDecr (viewOf (run name w1 ops₁) np a0 a1 nl) (viewOf (run name (run name w1 ops₁) ops₂) np a0 a1 nl) :=
  Halo.C03G.history_from_creation hv hn h ops₁ ops₂ hv₁ hv₂ hnw

end Halo.Props.C03G
