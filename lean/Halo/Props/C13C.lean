/-
C13 at system level (call sites): `Halo/Props/C13.lean` proves what `assert_operations` means as a
function.  Here: every successful `ExecuteSwapOperations` — the handler, and the whole transaction
through each entry point (direct message, cw20 `Send` hook, raw `Receive`) — passed that check on the
texts of its route; hence the route is non-empty and leaves exactly one dangling output.
-/
import Halo.Proofs.CallSites

namespace Halo.Props.C13C
open Halo

/-- an accepted `execute_swap_operations` passed the shape check -/
theorem swapOps_checked {name : Asset → String} {w w' : World} {sender : Nat} {ops : List (Asset × Asset)}
    {mn toAddr : Option Nat} (h : routerSwapOps name w sender ops mn toAddr = .ok w') :
    assertOperations (opsTexts name ops) = .ok () :=
  Halo.CallSites.swapOps_checked h

/-- the router's `execute`, direct message -/
theorem routerExec_swapOps_checked {name : Asset → String} {w w' : World} {s : Nat} {funds : List (Nat × Nat)}
    {ops : List (Asset × Asset)} {mn toAddr : Option Nat}
    (h : routerExec name w s funds (.swapOps ops mn toAddr) = .ok w') :
    assertOperations (opsTexts name ops) = .ok () :=
  Halo.CallSites.routerExec_swapOps_checked h

/-- the router's `execute`, a raw `Receive` (from anyone) -/
theorem routerExec_receive_checked {name : Asset → String} {w w' : World} {s : Nat} {funds : List (Nat × Nat)}
    {from_ amount : Nat} {ops : List (Asset × Asset)} {mn toAddr : Option Nat}
    (h : routerExec name w s funds (.receive from_ amount (.routerOps ops mn toAddr)) = .ok w') :
    assertOperations (opsTexts name ops) = .ok () :=
  Halo.CallSites.routerExec_receive_checked h

/-- transaction: direct `ExecuteSwapOperations` -/
theorem exec_swapOps_checked {name : Asset → String} {w w' : World} {s : Nat} {funds : List (Nat × Nat)}
    {ops : List (Asset × Asset)} {mn toAddr : Option Nat} {out : Out}
    (h : exec name w (.router s funds (.swapOps ops mn toAddr)) = .ok (w', out)) :
    assertOperations (opsTexts name ops) = .ok () :=
  Halo.CallSites.exec_swapOps_checked h

/-- transaction: cw20 `Send` to the router carrying the route -/
theorem exec_tokSend_checked {name : Asset → String} {w w' : World} {t s amt : Nat}
    {ops : List (Asset × Asset)} {mn toAddr : Option Nat} {out : Out}
    (h : exec name w (.tokSend t s w.router amt (.routerOps ops mn toAddr)) = .ok (w', out)) :
    assertOperations (opsTexts name ops) = .ok () :=
  Halo.CallSites.exec_tokSend_checked h

/-- more generally a successful cw20 `Send` carrying a route hook went to the router (a pair rejects the
hook) and passed the check -/
theorem tokSend_routerOps_checked {name : Asset → String} {w w' : World} {t s dst amt : Nat}
    {ops : List (Asset × Asset)} {mn toAddr : Option Nat} {out : Out}
    (h : tokSend name w t s dst amt (.routerOps ops mn toAddr) = .ok (w', out)) :
    dst = w.router ∧ assertOperations (opsTexts name ops) = .ok () :=
  Halo.CallSites.tokSend_routerOps_checked h

/-- transaction: raw `Receive` sent to the router -/
theorem exec_receive_checked {name : Asset → String} {w w' : World} {s : Nat} {funds : List (Nat × Nat)}
    {from_ amount : Nat} {ops : List (Asset × Asset)} {mn toAddr : Option Nat} {out : Out}
    (h : exec name w (.router s funds (.receive from_ amount (.routerOps ops mn toAddr))) = .ok (w', out)) :
    assertOperations (opsTexts name ops) = .ok () :=
  Halo.CallSites.exec_receive_checked h

/-- what the check means (`Halo.Props.C13.assertOperations_iff`, `empty_rejected`): the route is not empty
and exactly one ask asset (by text) is produced and never consumed by a later hop -/
theorem checked_shape {name : Asset → String} {ops : List (Asset × Asset)}
    (h : assertOperations (opsTexts name ops) = .ok ()) :
    ops ≠ [] ∧ (danglingAsks (opsTexts name ops)).length = 1 :=
  Halo.CallSites.checked_shape h

end Halo.Props.C13C
