/-
C07 — operations never touch third-party balances and conserve token totals.
`Touched w op z` (Halo/Inv.lean): the actor, the addressed contract, the designated receiver, for a route
the pair contracts and the router, the LP token address of the addressed pair, and — for the cw20 messages by which a
spender moves an owner's tokens with its allowance (`TransferFrom`, `SendFrom`, `BurnFrom`) — that owner.
-/
import Halo.Proofs.C07
import Halo.Proofs.Flows
import Halo.Proofs.Allow

namespace Halo.Props.C07
open Halo

/-- frame: every other account's balance of every asset is unchanged -/
theorem step_frame {name : Asset → String} {w w' : World} {op : Op} {out : Out}
    (h : exec name w op = .ok (w', out)) (hf : FreshOK w op) (a : Asset) (z : Nat) (hz : ¬ Touched w op z) :
    bal w' a z = bal w a z :=
  Halo.C07.step_frame h hf a z hz

/-- … and a failed operation changes nothing at all -/
theorem failed_step_frame {name : Asset → String} {w : World} {op : Op} {e : Err}
    (h : exec name w op = .error e) : step name w op = w := by
  unfold step; rw [h]

/-- "the designated receiver's balances can only increase" — in fact every account other than the actor, the owner
whose allowance a `TransferFrom` / `SendFrom` / `BurnFrom` spends (`ownersOf`, empty for every other operation: it
consented by granting the allowance), the pair contracts and the router (so also every receiver that is not itself
one of those) loses nothing in any asset -/
theorem receiver_never_loses {name : Asset → String} {w w' : World} {op : Op} {out : Out}
    (hf : FreshOK w op) (h : exec name w op = .ok (w', out)) (a : Asset) (z : Nat)
    (hz : z ≠ actorOf op) (ho : z ∉ ownersOf op) (hp : w.pair z = none) (hr : z ≠ w.router) :
    bal w a z ≤ bal w' a z :=
  Halo.Flows.never_lose hf h a z hz ho hp hr

/-- allowances of bystanders are never consumed: only the owner of an allowance (by granting or decreasing it) and the
spender it was granted to — the pair pulling the caller's own deposit, or a third party using `TransferFrom` /
`SendFrom` / `BurnFrom`, of which the owner is then a `Touched` account — change it -/
theorem allowance_frame {name : Asset → String} {w w' : World} {op : Op} {out : Out}
    (h : exec name w op = .ok (w', out)) (hf : FreshOK w op) (t o s : Nat) (T T' : Token)
    (hT : w.tok t = some T) (hT' : w'.tok t = some T') (ho : ¬ Touched w op o) : T'.allow o s = T.allow o s :=
  Halo.C07.allowance_frame h hf t o s T T' hT hT' ho

/-- allowance entries are created only by their owner's `IncreaseAllowance`: no operation creates an entry owned by
anybody but its actor (`TransferFrom` / `SendFrom` / `BurnFrom` lower an existing entry, `DecreaseAllowance` lowers
or removes one) — so an account that never submits an operation (a pair contract, an LP token's own address) never
has one, and no third party can move its tokens (`PairInv.noAllow`) -/
theorem no_new_allowance {name : Asset → String} {w w' : World} {op : Op} {out : Out}
    (h : exec name w op = .ok (w', out)) (t o s : Nat) (ho : o ≠ actorOf op)
    (hn : Halo.C07.allowOf w t o s = none) : Halo.C07.allowOf w' t o s = none :=
  Halo.Allow.exec_noNewAllow h t o s ho hn

/-- native coins are conserved: over any duplicate-free list of accounts containing everything the
operation may touch, the sum of balances is unchanged -/
theorem conserve_native {name : Asset → String} {w w' : World} {op : Op} {out : Out}
    (h : exec name w op = .ok (w', out)) (d : Nat) (L : List Nat) (hn : L.Nodup) (hL : ∀ z, Touched w op z → z ∈ L) :
    sumBal w' (.native d) L = sumBal w (.native d) L :=
  Halo.C07.conserve_native h d L hn hL

/-- cw20 tokens: balances change exactly by the change of the total supply -/
theorem conserve_token {name : Asset → String} {w w' : World} {op : Op} {out : Out}
    (h : exec name w op = .ok (w', out)) (hf : FreshOK w op) (t : Nat) (L : List Nat) (hn : L.Nodup)
    (hL : ∀ z, Touched w op z → z ∈ L) :
    sumBal w' (.token t) L + supply w t = sumBal w (.token t) L + supply w' t :=
  Halo.C07.conserve_token h hf t L hn hL

/-- the total supply of a token that is not an LP token changes only when a holder's tokens are burnt: by the holder
itself (`Burn`) or by a spender with the holder's allowance (`BurnFrom`) -/
theorem supply_non_lp {name : Asset → String} {w w' : World} {op : Op} {out : Out}
    (h : exec name w op = .ok (w', out)) (hf : FreshOK w op) (t : Nat) (hlp : ¬ IsLp w t) :
    supply w' t = supply w t ∨ (∃ s amt, op = .tokBurn t s amt) ∨ ∃ sp o amt, op = .tokBurnFrom t sp o amt :=
  Halo.C07.supply_non_lp h hf t hlp

/-- LP supply changes only through a successful provision (by the minted amount, plus the reserved
unit on the first one) … -/
theorem lp_supply_provide {w w' : World} {p : Nat} {P : PairSt} {sender : Nat} {funds : List (Nat × Nat)}
    {as0 as1 : Asset} {am0 am1 : Nat} {tol rcv : Option Nat} {share : Nat}
    (h : pairProvide w p P sender funds as0 am0 as1 am1 tol rcv = .ok (w', share))
    (h0 : P.a0 ≠ .token P.lp) (h1 : P.a1 ≠ .token P.lp) :
    supply w' P.lp = supply w P.lp + share + (if supply w P.lp = 0 then 1 else 0) :=
  Halo.C07.lp_supply_provide h h0 h1

/-- … or withdrawal (by the burned amount) -/
theorem lp_supply_withdraw {w w' : World} {p : Nat} {P : PairSt} {sender amount x0 x1 : Nat}
    (h : pairWithdraw w p P sender amount = .ok (w', x0, x1)) :
    supply w' P.lp + amount = supply w P.lp :=
  Halo.C07.lp_supply_withdraw h

end Halo.Props.C07
