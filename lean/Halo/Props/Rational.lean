/-
The rational-number reading of the specification predicates.

`Halo/Spec.lean` states every bound as a cross-multiplied integer inequality (decidable, shared by the
theorems and the run-time oracle).  This file proves, over ℚ, that each predicate is *exactly* the bound
written in the property text — so that the theorems of `Halo/Props/C*.lean` say what the properties say.
`γ = c/10^18`, `σ = ms/10^18`, `τ = t/10^18`, price `= p/10^18`.
-/
import Halo.Proofs.Rational

namespace Halo.Props.Rational
open Halo

/-- C01: the amount paid out never exceeds `ask_reserve·offer/(offer_reserve+offer)` -/
theorem c01_rat {x y a n : Nat} (hD : 0 < x + a) :
    n * (x + a) ≤ y * a ↔ (n : ℚ) ≤ (y : ℚ) * a / ((x : ℚ) + a) :=
  Halo.Rational.c01_rat hD

/-- C06: `g(1−γ) − 1 < n < g(1−γ) + 1` with `g = y·a/(x+a)`, commission `= ⌊c·(n+commission)⌋`,
`n + commission + spread = ⌊a·y/x⌋` -/
theorem c06_rat {x y a c n s k : Nat} (hD : 0 < x + a) (hc : c ≤ E) :
    Spec.c06 x y a c n s k = true ↔
      k = (n + k) * c / E ∧ n + k + s = y * a / x ∧
      ((y : ℚ) * a / ((x : ℚ) + a)) * (1 - (c : ℚ) / E) - 1 < (n : ℚ) ∧
      (n : ℚ) < ((y : ℚ) * a / ((x : ℚ) + a)) * (1 - (c : ℚ) / E) + 1 :=
  Halo.Rational.c06_rat hD hc

/-- C04: `r·a/S − r/10^18 − 1 < x ≤ r·a/S` -/
theorem c04_rat {r a S x : Nat} (hS : 0 < S) :
    Spec.c04 r a S x = true ↔
      (r : ℚ) * a / S - (r : ℚ) / E - 1 < (x : ℚ) ∧ (x : ℚ) ≤ (r : ℚ) * a / S :=
  Halo.Rational.c04_rat hS

/-- C05: `min_i(d_i·S/r_i) − 1 < m ≤ min_i(d_i·S/r_i)` -/
theorem c05Pos_rat {S d0 d1 r0 r1 m : Nat} (h0 : 0 < r0) (h1 : 0 < r1) :
    Spec.c05Pos S d0 d1 r0 r1 m = true ↔
      min ((d0 : ℚ) * S / r0) ((d1 : ℚ) * S / r1) - 1 < (m : ℚ) ∧
      (m : ℚ) ≤ min ((d0 : ℚ) * S / r0) ((d1 : ℚ) * S / r1) :=
  Halo.Rational.c05Pos_rat h0 h1

/-- C10, belief price given — a successful swap has `r > (o/p − 1)(1 − σ − 10⁻¹⁸)` whenever `o/p > 1`, `σ < 1` -/
theorem c10BeliefSound_rat {o r p ms : Nat} (hp : 0 < p) :
    Spec.c10BeliefSound o r p ms = true ↔
      ((1 : ℚ) < (o : ℚ) / ((p : ℚ) / E) → (ms : ℚ) / E < 1 →
        ((o : ℚ) / ((p : ℚ) / E) - 1) * (1 - (ms : ℚ) / E - 1 / E) < (r : ℚ)) :=
  Halo.Rational.c10BeliefSound_rat hp

/-- C10, belief price given — the guard rejects only when `r < (o/p)(1 − σ)` -/
theorem c10BeliefComplete_rat {o r p ms : Nat} (hp : 0 < p) :
    Spec.c10BeliefComplete o r p ms = true ↔
      ms ≤ E ∧ (r : ℚ) < ((o : ℚ) / ((p : ℚ) / E)) * (1 - (ms : ℚ) / E) :=
  Halo.Rational.c10BeliefComplete_rat hp

/-- C10, only max_spread given — success implies `spread/(return+spread) < σ + 10⁻¹⁸` … -/
theorem c10SpreadSound_rat {r s ms : Nat} (h : 0 < r + s) :
    Spec.c10SpreadSound r s ms = true ↔ (s : ℚ) / ((r : ℚ) + s) < (ms : ℚ) / E + 1 / E :=
  Halo.Rational.c10SpreadSound_rat h

/-- … and the guard rejects only if that ratio exceeds `σ` -/
theorem c10SpreadComplete_rat {r s ms : Nat} (h : 0 < r + s) :
    Spec.c10SpreadComplete r s ms = true ↔ (ms : ℚ) / E < (s : ℚ) / ((r : ℚ) + s) :=
  Halo.Rational.c10SpreadComplete_rat h

/-- C15: success implies both `(d_i/d_j)(1−τ) < r_i/r_j + 2·10⁻¹⁸` -/
theorem c15Sound_rat {t d0 d1 r0 r1 : Nat} (hd0 : 0 < d0) (hd1 : 0 < d1) (hr0 : 0 < r0) (hr1 : 0 < r1) :
    Spec.c15Sound t d0 d1 r0 r1 = true ↔
      t ≤ E ∧
      ((d0 : ℚ) / d1) * (1 - (t : ℚ) / E) < (r0 : ℚ) / r1 + 2 / E ∧
      ((d1 : ℚ) / d0) * (1 - (t : ℚ) / E) < (r1 : ℚ) / r0 + 2 / E :=
  Halo.Rational.c15Sound_rat hd0 hd1 hr0 hr1

/-- C15: the guard never rejects when both left sides are at most the reserve ratio minus `10⁻¹⁸` -/
theorem c15Complete_rat {t d0 d1 r0 r1 : Nat} (ht : t ≤ E) (hd0 : 0 < d0) (hd1 : 0 < d1) (hr0 : 0 < r0) (hr1 : 0 < r1) :
    Spec.c15Complete t d0 d1 r0 r1 = true ↔
      ¬ (((d0 : ℚ) / d1) * (1 - (t : ℚ) / E) ≤ (r0 : ℚ) / r1 - 1 / E ∧
         ((d1 : ℚ) / d0) * (1 - (t : ℚ) / E) ≤ (r1 : ℚ) / r0 - 1 / E) :=
  Halo.Rational.c15Complete_rat ht hd0 hd1 hr0 hr1

/-- C12: the reverse quote is never above the documented closed form `x·y/(y − ask/(1−γ)) − x` … -/
theorem c12Reverse_rat {x y b c o : Nat} (hd : Spec.c12Domain y b c = true) :
    Spec.c12Reverse x y b c o = true ↔
      (o : ℚ) ≤ (x : ℚ) * y / ((y : ℚ) - (b : ℚ) / (1 - (c : ℚ) / E)) - x :=
  Halo.Rational.c12Reverse_rat hd

/-- … and below it only by its rounding bound: `o > x·y/(y − ask/(1−γ) + ask·10⁻¹⁸ + 1) − x − 1` -/
theorem c12ReverseLower_rat {x y b c o : Nat} (hd : Spec.c12Domain y b c = true) :
    Spec.c12ReverseLower x y b c o = true ↔
      (x : ℚ) * y / ((y : ℚ) - (b : ℚ) / (1 - (c : ℚ) / E) + (b : ℚ) / E + 1) - x - 1 < (o : ℚ) :=
  Halo.Rational.c12ReverseLower_rat hd

/-- C03: `NonDecr` is "a positive supply stays positive and `reserve0·reserve1/S²` does not decrease" -/
theorem nonDecr_rat {r0 r1 S r0' r1' S' : Nat} :
    NonDecr (r0, r1, S) (r0', r1', S') ↔
      (0 < S → 0 < S' ∧ (r0 : ℚ) * r1 / ((S : ℚ) ^ 2) ≤ (r0' : ℚ) * r1' / ((S' : ℚ) ^ 2)) :=
  Halo.Rational.nonDecr_rat

/-- C20's entitlement condition `r·a/S ≥ r/10^18 + 2` -/
theorem entitlement_rat {r a S : Nat} (hS : 0 < S) :
    (r + 2 * E) * S ≤ r * a * E ↔ (r : ℚ) / E + 2 ≤ (r : ℚ) * a / S :=
  Halo.Rational.entitlement_rat hS

end Halo.Props.Rational
