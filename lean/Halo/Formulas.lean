/-
N3 — formulas.  Transcription, statement by statement and in source order, of
  packages/haloswap/src/formulas.rs   (compute_swap, compute_offer_amount,
                                       calculate_lp_token_amount_to_user, calc_price_drop, calc_slippage_tolerance)
  contracts/halo-pair/src/assert.rs   (assert_max_spread, assert_slippage_tolerance)
  contracts/halo-pair/src/contract.rs (the refund arithmetic of withdraw_liquidity)
  packages/haloswap/src/asset.rs      (assert_sent_native_token_balance)
-/
import Halo.Num

namespace Halo

/-- `compute_swap(offer_pool = x, ask_pool = y, offer_amount = a, commission_rate = c)`
returns `(return_amount, spread_amount, commission_amount)`.  `c` in atomics. -/
def computeSwap (x y a c : Nat) : M (Nat × Nat × Nat) := do
  let cp ← Uint.mul x y                       -- offer_pool * ask_pool
  let askDec ← Dec.fromUint y                 -- Decimal256::from_uint256(ask_pool)
  let sum ← Uint.add x a                      -- offer_pool + offer_amount
  let q ← Dec.fromRatio cp sum                -- Decimal256::from_ratio(cp, ..)
  let d ← Dec.sub askDec q
  let gross ← Uint.mulDec 1 d                 -- (..) * Uint256::one()
  let ya ← Uint.mul y a                       -- ask_pool * offer_amount
  let r ← Dec.fromRatio ya x
  let ideal ← Uint.mulDec 1 r
  let spread ← Uint.sub ideal gross
  let comm ← Uint.mulDec gross c              -- return_amount * commission_rate
  let ret ← Uint.sub gross comm
  let ret' ← toU128 ret
  let spread' ← toU128 spread
  let comm' ← toU128 comm
  return (ret', spread', comm')

/-- `compute_offer_amount(offer_pool = x, ask_pool = y, ask_amount = b, commission_rate = c)`
returns `(offer_amount, spread_amount, commission_amount)`. -/
def computeOfferAmount (x y b c : Nat) : M (Nat × Nat × Nat) := do
  let cp ← Uint.mul x y
  let omc ← Dec.sub E c                       -- Decimal256::one() - commission_rate
  let inv ← Dec.div E omc                     -- Decimal256::one() / one_minus_commission
  let t ← Uint.mulDec b inv                   -- ask_amount * inv_one_minus_commission
  let den ← Uint.sub y t
  let o1 ← Uint.mulRatio 1 cp den
  let offer ← Uint.sub o1 x
  let bcd ← Uint.mulDec b inv                 -- before_commission_deduction
  let pr ← Dec.fromRatio y x
  let bsd ← Uint.mulDec offer pr              -- before_spread_deduction
  let spread ← if bcd < bsd then Uint.sub bsd bcd else pure 0
  let comm ← Uint.mulDec bcd c
  let offer' ← toU128 offer
  let spread' ← toU128 spread
  let comm' ← toU128 comm
  return (offer', spread', comm')

/-- first-provision requirements of a pair (`CreatePairRequirements`) -/
structure Requirements where
  whitelist : List Nat
  min0 : Nat
  min1 : Nat
  deriving DecidableEq, Repr, Inhabited

/-- `calculate_lp_token_amount_to_user` : `S` total LP supply, `d` deposits, `r` pools -/
def lpShare (sender : Nat) (req : Requirements) (S d0 d1 r0 r1 : Nat) : M Nat :=
  if S = 0 then
    if ¬ sender ∈ req.whitelist then .error .err
    else if d0 < req.min0 ∨ d1 < req.min1 then .error .err
    else do
      let p ← Cw.nativeMul d0 d1
      return Nat.sqrt p
  else do
    let m0 ← Cw.mulRatio d0 S r0
    let m1 ← Cw.mulRatio d1 S r1
    return min m0 m1

/-- refund of one asset in `withdraw_liquidity`: `pool * Decimal::from_ratio(amount, total_share)` -/
def withdrawRefund (r a S : Nat) : M Nat := do
  let ratio ← Cw.decFromRatio a S
  Cw.mulDec r ratio

/-- the decimals normalisation at the head of `assert_max_spread` -/
def normSpread (offer ret spread od rd : Nat) : M (Nat × Nat × Nat) :=
  if rd < od then do
    let k ← Cw.pow10u64 (od - rd)
    let r ← Cw.checkedMul ret k
    let s ← Cw.checkedMul spread k
    return (offer, r, s)
  else if od < rd then do
    let k ← Cw.pow10u64 (rd - od)
    let o ← Cw.checkedMul offer k
    return (o, ret, spread)
  else .ok (offer, ret, spread)

/-- `assert_max_spread` (`belief`, `maxSpread` are `Decimal` atomics) -/
def assertMaxSpread (belief maxSpread : Option Nat) (offer ret spread od rd : Nat) : M Unit := do
  let (o, r, s) ← normSpread offer ret spread od rd
  match maxSpread, belief with
  | some ms, some p => do
      let expected ← Uint.divDec o p
      if r < expected then do
        let sp ← Uint.sub expected r
        let ratio ← Dec.fromRatio sp expected
        if ms < ratio then .error .guard else .ok ()
      else .ok ()
  | some ms, none => do
      let tot ← Uint.add r s
      let ratio ← Dec.fromRatio s tot
      if ms < ratio then .error .guard else .ok ()
  | none, _ => .ok ()

/-- `calc_price_drop` -/
def calcPriceDrop (d0 d1 omt : Nat) : M Nat := do
  let r ← Dec.fromRatio d0 d1
  Dec.mul r omt

/-- `calc_slippage_tolerance` -/
def calcSlippageTolerance (p0 p1 : Nat) : M Nat := Dec.fromRatio p0 p1

/-- `assert_slippage_tolerance` (`tol` in `Decimal` atomics) -/
def assertSlippage (tol : Option Nat) (d0 d1 r0 r1 : Nat) : M Unit :=
  match tol with
  | none => .ok ()
  | some t =>
    if E < t then .error .err
    else do
      let omt ← Dec.sub E t
      let a ← calcPriceDrop d0 d1 omt
      let b ← calcSlippageTolerance r0 r1
      if b < a then .error .guard
      else do
        let a' ← calcPriceDrop d1 d0 omt
        let b' ← calcSlippageTolerance r1 r0
        if b' < a' then .error .guard else .ok ()

/-- `Asset::assert_sent_native_token_balance` for a native asset `denom` with declared `amount`;
`funds` is the coin list of the message (first coin of that denom wins). -/
def assertSentNative (denom amount : Nat) (funds : List (Nat × Nat)) : M Unit :=
  match funds.find? (fun c => c.1 = denom) with
  | some c => if amount = c.2 then .ok () else .error .err
  | none => if amount = 0 then .ok () else .error .err

/-- C01's window: the inputs on which the gross output of `compute_swap` is one above `⌊y·a/(x+a)⌋` -/
def inWindow (x y a : Nat) : Bool :=
  decide ((x + a) * E ≤ (y * a % (x + a)) * E + (x * y * E % (x + a)))

end Halo
