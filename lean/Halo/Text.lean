/-
N2 — text.  Model of the numeral rendering / parsing in `packages/bignumber/src/math.rs`
(`Display`, `FromStr`, `TryFrom<&str>`, the string-based serde impls) and of the `bigint::U256`
decimal `Display` / `from_dec_str` they are built on.  Text is a list of bytes (`List Nat`,
ASCII codes); `48..57` are the digits, `46` the dot, `34` the JSON quote.
-/
import Halo.Num

namespace Halo.Text

/-- least significant digit first -/
def digitsRev (n : Nat) : List Nat :=
  if n < 10 then [48 + n] else (48 + n % 10) :: digitsRev (n / 10)
termination_by n
decreasing_by omega

/-- `U256`'s `Display`: the canonical decimal numeral, `"0"` for zero -/
def render (n : Nat) : List Nat := (digitsRev n).reverse

def isDigit (b : Nat) : Bool := decide (48 ≤ b) && decide (b ≤ 57)

/-- the running accumulation of `U256::from_dec_str` with its overflow checks -/
def parseAux : Nat → List Nat → M Nat
  | acc, [] => .ok acc
  | acc, b :: bs => if acc * 10 + (b - 48) < U then parseAux (acc * 10 + (b - 48)) bs else .error .err

/-- `U256::from_dec_str` (the empty string is accepted and is 0 — pinned by the repository's tests) -/
def parseDigits (s : List Nat) : M Nat :=
  if s.all isDigit then parseAux 0 s else .error .err

/-- `str::split('.')` -/
def splitDot : List Nat → List (List Nat)
  | [] => [[]]
  | b :: bs =>
    if b = 46 then [] :: splitDot bs
    else match splitDot bs with
      | p :: ps => (b :: p) :: ps
      | [] => [[b]]

/-- `str::trim_end_matches('0')` -/
def trimEnd0 (s : List Nat) : List Nat := (s.reverse.dropWhile (· = 48)).reverse

/-- `Display for Decimal256` -/
def decRender (v : Nat) : List Nat :=
  let whole := v / E
  let frac := v % E
  if frac = 0 then render whole
  else
    let fs := render frac
    render whole ++ [46] ++ trimEnd0 (List.replicate (18 - fs.length) 48 ++ fs)

/-- `FromStr for Decimal256`; parse failures are `Err`, overflow of the scaled value aborts -/
def decParse (s : List Nat) : M Nat :=
  match splitDot s with
  | [w] => do
      let whole ← parseDigits w
      u256.mul whole E
  | [w, f] => do
      let whole ← parseDigits w
      let frac ← parseDigits f
      if 18 < f.length then .error .err
      else do
        let factor := 10 ^ (18 - f.length)
        let wa ← u256.mul whole E
        let fa ← u256.mul frac factor
        u256.add wa fa
  | _ => .error .err

/-- `Display for Uint256`, `From<Uint256> for String` -/
def uintRender (v : Nat) : List Nat := render v
/-- `FromStr for Uint256`, `TryFrom<&str>`, the serde visitor -/
def uintParse (s : List Nat) : M Nat := parseDigits s

/-- serde: both types serialise as a JSON string of their `Display` text -/
def jsonEnc (s : List Nat) : List Nat := [34] ++ s ++ [34]

/-- JSON string decoding restricted to texts without escapes, quotes or control bytes
(everything the encoders above can produce); other inputs are outside the model -/
def isJsonWs (b : Nat) : Bool := b == 32 || b == 9 || b == 10 || b == 13

def jsonDec (j0 : List Nat) : M (List Nat) :=
  -- JSON permits insignificant whitespace around the value
  let j := ((j0.dropWhile isJsonWs).reverse.dropWhile isJsonWs).reverse
  match j with
  | 34 :: rest =>
    match rest.reverse with
    | 34 :: innerRev =>
      let inner := innerRev.reverse
      if inner.all (fun b => decide (32 ≤ b) && decide (b ≠ 34) && decide (b ≠ 92) && decide (b < 127)) then .ok inner
      else .error .err
    | _ => .error .err
  | _ => .error .err

/-! ### independent meaning of a numeral (used by the specification, not by the parser) -/

/-- value of a digit string, most significant first; the empty string denotes 0 -/
def valOf (ds : List Nat) : Nat := ds.foldl (fun acc b => acc * 10 + (b - 48)) 0

/-- the number of 10⁻¹⁸ units a decimal numeral denotes: digits, at most one dot, at most 18
fractional digits -/
def denote (s : List Nat) : Option Nat :=
  match splitDot s with
  | [w] => if w.all isDigit then some (valOf w * E) else none
  | [w, f] =>
    if w.all isDigit && f.all isDigit && decide (f.length ≤ 18) then
      some (valOf w * E + valOf f * 10 ^ (18 - f.length))
    else none
  | _ => none

/-- canonical integer numeral: `0` or a non-empty digit string without a leading zero -/
def canonicalInt (s : List Nat) : Bool :=
  s.all isDigit && (s == [48] || (match s with | [] => false | b :: _ => b != 48))

/-- canonical decimal numeral: canonical integer part, optionally `.` and 1–18 digits not ending in `0` -/
def canonicalDec (s : List Nat) : Bool :=
  match splitDot s with
  | [w] => canonicalInt w
  | [w, f] => canonicalInt w && f.all isDigit && decide (1 ≤ f.length) && decide (f.length ≤ 18) &&
      (match f.reverse with | [] => false | b :: _ => b != 48)
  | _ => false

end Halo.Text
