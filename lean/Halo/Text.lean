/-
N2 — text.  Model of the numeral rendering / parsing in `packages/bignumber/src/math.rs`
(`Display`, `FromStr`, `TryFrom<&str>`, the string-based serde impls) and of the `bigint::U256`
decimal `Display` / `from_dec_str` they are built on.  Text is a list of bytes (`List Nat`,
ASCII codes); `48..57` are the digits, `46` the dot, `34` the JSON quote, `92` the backslash.
JSON decoding follows `serde-json-wasm` 0.4.1 including its escape sequences.
-/
import Halo.Num

namespace Halo.Text

/-- least significant digit first -/
def digitsRev (n : Nat) : List Nat :=
  if n < 10 then [48 + n] else (48 + n % 10) :: digitsRev (n / 10)
termination_by n
decreasing_by omega

/-- `U256`'s `Display`: the canonical decimal numeral, `"0"` for zero -/
def render (n : Nat) : List Nat := (digitsRev n).reverse

def isDigit (b : Nat) : Bool := decide (48 ≤ b) && decide (b ≤ 57)

/-- the running accumulation of `U256::from_dec_str` with its overflow checks -/
def parseAux : Nat → List Nat → M Nat
  | acc, [] => .ok acc
  | acc, b :: bs => if acc * 10 + (b - 48) < U then parseAux (acc * 10 + (b - 48)) bs else .error .err

/-- `U256::from_dec_str` (the empty string is accepted and is 0 — pinned by the repository's tests) -/
def parseDigits (s : List Nat) : M Nat :=
  if s.all isDigit then parseAux 0 s else .error .err

/-- `str::split('.')` -/
def splitDot : List Nat → List (List Nat)
  | [] => [[]]
  | b :: bs =>
    if b = 46 then [] :: splitDot bs
    else match splitDot bs with
      | p :: ps => (b :: p) :: ps
      | [] => [[b]]

/-- `str::trim_end_matches('0')` -/
def trimEnd0 (s : List Nat) : List Nat := (s.reverse.dropWhile (· = 48)).reverse

/-- `Display for Decimal256` -/
def decRender (v : Nat) : List Nat :=
  let whole := v / E
  let frac := v % E
  if frac = 0 then render whole
  else
    let fs := render frac
    render whole ++ [46] ++ trimEnd0 (List.replicate (18 - fs.length) 48 ++ fs)

/-- `FromStr for Decimal256`; parse failures are `Err`, overflow of the scaled value aborts -/
def decParse (s : List Nat) : M Nat :=
  match splitDot s with
  | [w] => do
      let whole ← parseDigits w
      u256.mul whole E
  | [w, f] => do
      let whole ← parseDigits w
      let frac ← parseDigits f
      if 18 < f.length then .error .err
      else do
        let factor := 10 ^ (18 - f.length)
        let wa ← u256.mul whole E
        let fa ← u256.mul frac factor
        u256.add wa fa
  | _ => .error .err

/-- `Display for Uint256`, `From<Uint256> for String` -/
def uintRender (v : Nat) : List Nat := render v
/-- `FromStr for Uint256`, `TryFrom<&str>`, the serde visitor -/
def uintParse (s : List Nat) : M Nat := parseDigits s

/-- serde: both types serialise as a JSON string of their `Display` text -/
def jsonEnc (s : List Nat) : List Nat := [34] ++ s ++ [34]

/-! ### JSON string decoding: `serde-json-wasm` 0.4.1 `de::Deserializer::{deserialize_str, parse_string}`
and `de::unescape::unescape`, followed literally (escapes included) -/

/-- `parse_whitespace` -/
def isJsonWs (b : Nat) : Bool := b == 32 || b == 9 || b == 10 || b == 13

/-- `hex_decode_4bit`, restricted to the bytes `unescape` lets through (`0-9a-fA-F`) -/
def hexNibble (b : Nat) : Option Nat :=
  if 48 ≤ b ∧ b ≤ 57 then some (b - 48)
  else if 97 ≤ b ∧ b ≤ 102 then some (b - 87)
  else if 65 ≤ b ∧ b ≤ 70 then some (b - 55)
  else none

/-- `char::encode_utf8` of a scalar value -/
def utf8Enc (c : Nat) : List Nat :=
  if c < 0x80 then [c]
  else if c < 0x800 then [0xC0 + c / 64, 0x80 + c % 64]
  else if c < 0x10000 then [0xE0 + c / 4096, 0x80 + c / 64 % 64, 0x80 + c % 64]
  else [0xF0 + c / 262144, 0x80 + c / 4096 % 64, 0x80 + c / 64 % 64, 0x80 + c % 64]

/-- `core::str::from_utf8(..).is_ok()`: well-formed UTF-8 (no overlong forms, no surrogates, nothing
above U+10FFFF).  `need` continuation bytes are outstanding and the next one must lie in `lo..=hi`. -/
def utf8From : Nat → Nat → Nat → List Nat → Bool
  | need, _, _, [] => need == 0
  | 0, _, _, b :: bs =>
    if b < 0x80 then utf8From 0 0 0 bs
    else if 0xC2 ≤ b ∧ b ≤ 0xDF then utf8From 1 0x80 0xBF bs
    else if b = 0xE0 then utf8From 2 0xA0 0xBF bs
    else if b = 0xED then utf8From 2 0x80 0x9F bs
    else if 0xE1 ≤ b ∧ b ≤ 0xEF then utf8From 2 0x80 0xBF bs
    else if b = 0xF0 then utf8From 3 0x90 0xBF bs
    else if 0xF1 ≤ b ∧ b ≤ 0xF3 then utf8From 3 0x80 0xBF bs
    else if b = 0xF4 then utf8From 3 0x80 0x8F bs
    else false
  | n + 1, lo, hi, b :: bs => if lo ≤ b ∧ b ≤ hi then utf8From n 0x80 0xBF bs else false

def utf8Valid (s : List Nat) : Bool := utf8From 0 0 0 s

/-- where `unescape` is inside an escape sequence -/
inductive EscState
  | normal                    -- `!in_escape`
  | esc                       -- `in_escape && !in_unicode`: the byte after a backslash
  | uni (k acc : Nat)         -- `in_unicode`: `k < 4` hex digits read so far, their value `acc`
  deriving DecidableEq, Repr

/-- prepend already decoded bytes to the rest of the output -/
def emit (xs : List Nat) (r : M (List Nat)) : M (List Nat) :=
  match r with
  | .ok o => .ok (xs ++ o)
  | .error e => .error e

/-- the byte loop of `unescape` (before the final `String::from_utf8`); `high` is `high_surrogate`.
Quirks kept: every byte `≤ 0x1F` is an error wherever it stands; a pending high surrogate is only
checked when a *raw* byte is copied and at the end (so `\ud800\n\udc00` is accepted), a low
surrogate without a high one and a high one followed by another high one are errors; `\u` takes
exactly four hex digits of either case; any other byte after `\` is an error; a sequence cut short
by the end of the string is an error. -/
def unescFrom : EscState → Option Nat → List Nat → M (List Nat)
  | .normal, none, [] => .ok []
  | _, _, [] => .error .err
  | st, high, b :: bs =>
    if b ≤ 0x1F then .error .err
    else match st with
      | .normal =>
        if b = 92 then unescFrom .esc high bs
        else if high.isSome then .error .err
        else emit [b] (unescFrom .normal high bs)
      | .esc =>
        if b = 34 ∨ b = 47 ∨ b = 92 then emit [b] (unescFrom .normal high bs)
        else if b = 98 then emit [8] (unescFrom .normal high bs)
        else if b = 102 then emit [12] (unescFrom .normal high bs)
        else if b = 110 then emit [10] (unescFrom .normal high bs)
        else if b = 114 then emit [13] (unescFrom .normal high bs)
        else if b = 116 then emit [9] (unescFrom .normal high bs)
        else if b = 117 then unescFrom (.uni 0 0) high bs
        else .error .err
      | .uni k acc =>
        match hexNibble b with
        | none => .error .err
        | some d =>
          let cp := acc * 16 + d
          if k < 3 then unescFrom (.uni (k + 1) cp) high bs
          else if 0xD800 ≤ cp ∧ cp ≤ 0xDFFF then
            match high with
            | some h =>
              if cp < 0xDC00 then .error .err
              else emit (utf8Enc (0x10000 + ((h - 0xD800) * 1024 + (cp - 0xDC00))))
                (unescFrom .normal none bs)
            | none =>
              if 0xDBFF < cp then .error .err
              else unescFrom .normal (some cp) bs
          else emit (utf8Enc cp) (unescFrom .normal high bs)

/-- `de::unescape::unescape` -/
def unescape (s : List Nat) : M (List Nat) := do
  let out ← unescFrom .normal none s
  if utf8Valid out then .ok out else .error .err

/-- what `parse_string` makes of the raw bytes between the quotes: with a backslash anywhere they are
unescaped, without one they are only checked to be UTF-8 (raw control bytes pass on this path) -/
def jsonUnescape (body : List Nat) : M (List Nat) :=
  if body.contains 92 then unescape body
  else if utf8Valid body then .ok body else .error .err

/-- the scanning loop of `parse_string`, started after the opening quote: the raw body up to the first
quote not preceded by an odd run of backslashes, and what follows that quote.  `esc` is `escaped`. -/
def jsonScan : Bool → List Nat → Option (List Nat × List Nat)
  | _, [] => none
  | esc, b :: bs =>
    if b = 34 ∧ esc = false then some ([], bs)
    else
      match jsonScan (if b = 92 then !esc else false) bs with
      | some (body, tail) => some (b :: body, tail)
      | none => none

/-- `from_slice::<String>`-like decoding of a JSON text that must be one string: whitespace, the
opening quote, the scanned and unescaped body, nothing but whitespace after the closing quote -/
def jsonDec (j : List Nat) : M (List Nat) :=
  match j.dropWhile isJsonWs with
  | [] => .error .err
  | b :: rest =>
    if b = 34 then
      match jsonScan false rest with
      | some (body, tail) => if tail.all isJsonWs then jsonUnescape body else .error .err
      | none => .error .err
    else .error .err

/-! ### `Decimal256 ↔ cosmwasm_std::Decimal` (both go through `to_string` / `from_str`) -/

/-- `From<Decimal256> for Decimal`: `assert!(arr[2] == 0)`, `assert!(arr[3] == 0)`, then
`Decimal::from_str(&n.to_string()).unwrap()`.  `cosmwasm_std::Decimal` renders exactly like
`decRender` and, on such canonical numerals, parses like `decParse` with a 128-bit bound on the atomics. -/
def decToStd (v : Nat) : M Nat :=
  match Limbs.toU128 (Limbs.ofNat v) with
  | .error _ => .error .abort
  | .ok _ =>
    match decParse (decRender v) with
    | .ok a => if a < W then .ok a else .error .abort
    | .error _ => .error .abort

/-- `From<Decimal> for Decimal256`: `Decimal256::from_str(&val.to_string()).unwrap()` -/
def decFromStd (a : Nat) : M Nat :=
  match decParse (decRender a) with
  | .ok v => .ok v
  | .error _ => .error .abort

/-! ### independent meaning of a numeral (used by the specification, not by the parser) -/

/-- value of a digit string, most significant first; the empty string denotes 0 -/
def valOf (ds : List Nat) : Nat := ds.foldl (fun acc b => acc * 10 + (b - 48)) 0

/-- the number of 10⁻¹⁸ units a decimal numeral denotes: digits, at most one dot, at most 18
fractional digits -/
def denote (s : List Nat) : Option Nat :=
  match splitDot s with
  | [w] => if w.all isDigit then some (valOf w * E) else none
  | [w, f] =>
    if w.all isDigit && f.all isDigit && decide (f.length ≤ 18) then
      some (valOf w * E + valOf f * 10 ^ (18 - f.length))
    else none
  | _ => none

/-- canonical integer numeral: `0` or a non-empty digit string without a leading zero -/
def canonicalInt (s : List Nat) : Bool :=
  s.all isDigit && (s == [48] || (match s with | [] => false | b :: _ => b != 48))

/-- canonical decimal numeral: canonical integer part, optionally `.` and 1–18 digits not ending in `0` -/
def canonicalDec (s : List Nat) : Bool :=
  match splitDot s with
  | [w] => canonicalInt w
  | [w, f] => canonicalInt w && f.all isDigit && decide (1 ≤ f.length) && decide (f.length ≤ 18) &&
      (match f.reverse with | [] => false | b :: _ => b != 48)
  | _ => false

end Halo.Text
