/-
N5 — world.  A deterministic state machine over a ledger (bank balances, cw20 tokens) and the
contract states of pairs, factory and router, driven by atomic transactions.

Transcribed from
  contracts/halo-pair/src/contract.rs     (execute, receive_cw20, provide_liquidity, withdraw_liquidity, swap,
                                           update_native_token_decimals, the four queries, instantiate + reply)
  contracts/halo-factory/src/contract.rs  (the four execute arms, reply, queries)
  contracts/halo-router/src/{contract,operations,assert}.rs
  packages/haloswap/src/asset.rs          (into_msg, query_pools, assert_sent_native_token_balance)
and from the environment they run in: cw20-base 1.0.0 (transfer / send / transfer_from / send_from / mint / burn /
burn_from / increase_allowance / decrease_allowance) and the cw-multi-test 0.16.1 bank + dispatcher (attached funds are moved before the
contract runs; sub-messages run depth-first in order; any failure reverts the whole transaction).

Addresses and denoms are `Nat` identifiers; `badAddr` marks the identifiers that stand for address strings rejected by
`deps.api.addr_validate`, and the handlers fail exactly where the contracts validate a user-supplied string (pair:
`Swap { to }` on both entry points and the cw20 sender of `WithdrawLiquidity`; the receiver of a provision in the LP
token's `Mint`; router: `to` / `receiver` of its three messages and the cw20 sender of its hook; factory: the new owner
of `UpdateConfig`).  Every handler computes from the world at handler entry
(funds already credited) and then applies the messages of its response in order, exactly as the
dispatcher does; since no contract here uses `reply_on: Error`, a transaction is `World → M World`
and failure leaves the world unchanged (`step`).
-/
import Halo.Formulas
import Halo.Registry

namespace Halo

inductive Asset
  | native (d : Nat)
  | token (a : Nat)
  deriving DecidableEq, Repr, Inhabited

/-- state of one cw20-base contract -/
structure Token where
  bal : Nat → Nat
  allow : Nat → Nat → Option Nat      -- owner → spender → allowance (an entry may exist with 0)
  supply : Nat
  minter : Option Nat
  decimals : Nat

/-- state of one pair contract (`PAIR_INFO`, `CONFIG`, `COMMISSION_RATE_INFO`) -/
structure PairSt where
  a0 : Asset
  a1 : Asset
  d0 : Nat
  d1 : Nat
  lp : Nat
  comm : Nat
  req : Requirements
  factory : Nat
  deriving Repr, Inhabited

/-- one registry entry of the factory (`PairInfoRaw` under `PAIRS`) -/
structure Record where
  a0 : Asset
  a1 : Asset
  pair : Nat
  lp : Nat
  d0 : Nat
  d1 : Nat
  req : Requirements
  comm : Nat
  deriving Repr, Inhabited

structure World where
  bank : Nat → Nat → Nat               -- address → denom → amount
  tok : Nat → Option Token             -- cw20 contracts
  pair : Nat → Option PairSt           -- pair contracts
  facAddr : Nat
  owner : Nat                          -- factory `Config.owner`
  denoms : Nat → Option Nat            -- `ALLOW_NATIVE_TOKENS`: denom → decimals
  registry : List (Bytes × Record)     -- `PAIRS`, sorted by key
  rawId : Asset → Bytes                -- environment: raw identifier bytes of every asset
  router : Nat
  pairCode : Nat := 0                  -- factory `Config.pair_code_id`
  tokenCode : Nat := 0                 -- factory `Config.token_code_id`
  envPairCode : Nat := 0               -- environment: the code id under which the pair contract is stored
  envTokenCode : Nat := 0              -- environment: the code id of cw20-base
  badAddr : Nat → Bool := fun _ => false  -- environment: this account id is a string that fails `addr_validate`

/-- default commission rate 0.3% (`DEFAULT_COMMISSION_RATE`) -/
def defaultCommission : Nat := 3000000000000000

/-! ### address validation

User-supplied address strings are checked with `deps.api.addr_validate`, which rejects a string that is too short
or not normalised (e.g. an upper-case spelling).  `badAddr a` says that the account id `a` stands for such a string;
it is a fact of the environment that no operation changes.  The ledger primitives do not look at it. -/

/-- an optional address string that fails `addr_validate` -/
def badTo (w : World) (to : Option Nat) : Bool :=
  match to with
  | some a => w.badAddr a
  | none => false

/-- `deps.api.addr_validate(&a)?` -/
def validAddr (w : World) (a : Nat) : M Unit := if w.badAddr a then .error .err else .ok ()

/-- `if let Some(a) = to { Some(api.addr_validate(&a)?) } else { None }` (router: `optional_addr_validate`) -/
def validTo (w : World) (to : Option Nat) : M Unit := if badTo w to then .error .err else .ok ()

/-! ### ledger primitives -/

/-- one `BankMsg::Send` coin after zero coins were filtered out -/
def bankMove1 (w : World) (src dst d amt : Nat) : M World :=
  if w.bank src d < amt then .error .insufficient
  else
    let b1 : Nat → Nat → Nat := fun a x => if a = src ∧ x = d then w.bank a x - amt else w.bank a x
    .ok { w with bank := fun a x => if a = dst ∧ x = d then b1 a x + amt else b1 a x }

def bankMoveList (w : World) (src dst : Nat) : List (Nat × Nat) → M World
  | [] => .ok w
  | (d, amt) :: cs => do
    let w1 ← bankMove1 w src dst d amt
    bankMoveList w1 src dst cs

/-- `BankMsg::Send` / the funds transfer of an execute: zero coins are dropped, and a transfer with
nothing left is rejected ("Cannot transfer empty coins amount") -/
def bankSend (w : World) (src dst : Nat) (coins : List (Nat × Nat)) : M World :=
  let nz := coins.filter (fun c => c.2 ≠ 0)
  if nz = [] then .error .zero else bankMoveList w src dst nz

/-- attached funds of an execute message: nothing happens for an empty list -/
def attach (w : World) (src dst : Nat) (funds : List (Nat × Nat)) : M World :=
  if funds = [] then .ok w else bankSend w src dst funds

def setTok (w : World) (t : Nat) (T : Token) : World :=
  { w with tok := fun a => if a = t then some T else w.tok a }

/-- cw20 `Transfer` -/
def tokTransfer (w : World) (t src dst amt : Nat) : M World :=
  match w.tok t with
  | none => .error .err
  | some T =>
    if amt = 0 then .error .zero
    else if T.bal src < amt then .error .insufficient
    else
      let b1 : Nat → Nat := fun a => if a = src then T.bal a - amt else T.bal a
      .ok (setTok w t { T with bal := fun a => if a = dst then b1 a + amt else b1 a })

/-- cw20 `TransferFrom` by `spender` (no zero-amount check, but an allowance entry must exist) -/
def tokTransferFrom (w : World) (t spender owner dst amt : Nat) : M World :=
  match w.tok t with
  | none => .error .err
  | some T =>
    match T.allow owner spender with
    | none => .error .insufficient
    | some al =>
      if al < amt then .error .insufficient
      else if T.bal owner < amt then .error .insufficient
      else
        let b1 : Nat → Nat := fun a => if a = owner then T.bal a - amt else T.bal a
        .ok (setTok w t { T with
          bal := fun a => if a = dst then b1 a + amt else b1 a
          allow := fun o s => if o = owner ∧ s = spender then some (al - amt) else T.allow o s })

/-- cw20 `BurnFrom` by `spender`: `deduct_allowance` (an entry must exist, no zero-amount check), then the
owner's balance and the total supply go down -/
def tokBurnFrom (w : World) (t spender owner amt : Nat) : M World :=
  match w.tok t with
  | none => .error .err
  | some T =>
    match T.allow owner spender with
    | none => .error .insufficient
    | some al =>
      if al < amt then .error .insufficient
      else if T.bal owner < amt then .error .insufficient
      else if T.supply < amt then .error .insufficient
      else
        .ok (setTok w t { T with
          supply := T.supply - amt
          bal := fun a => if a = owner then T.bal a - amt else T.bal a
          allow := fun o s => if o = owner ∧ s = spender then some (al - amt) else T.allow o s })

/-- cw20 `Mint` -/
def tokMint (w : World) (t sender dst amt : Nat) : M World :=
  match w.tok t with
  | none => .error .err
  | some T =>
    if amt = 0 then .error .zero
    else if T.minter ≠ some sender then .error .unauthorized
    else if W ≤ T.supply + amt then .error .abort
    else .ok (setTok w t { T with
      supply := T.supply + amt
      bal := fun a => if a = dst then T.bal a + amt else T.bal a })

/-- cw20 `Burn` -/
def tokBurn (w : World) (t sender amt : Nat) : M World :=
  match w.tok t with
  | none => .error .err
  | some T =>
    if amt = 0 then .error .zero
    else if T.bal sender < amt then .error .insufficient
    else if T.supply < amt then .error .insufficient
    else .ok (setTok w t { T with
      supply := T.supply - amt
      bal := fun a => if a = sender then T.bal a - amt else T.bal a })

/-- cw20 `IncreaseAllowance` (no expiry) -/
def tokIncAllow (w : World) (t owner spender amt : Nat) : M World :=
  match w.tok t with
  | none => .error .err
  | some T =>
    if spender = owner then .error .err
    else
      let cur := (T.allow owner spender).getD 0
      if W ≤ cur + amt then .error .abort
      else .ok (setTok w t { T with
        allow := fun o s => if o = owner ∧ s = spender then some (cur + amt) else T.allow o s })

/-- cw20 `DecreaseAllowance` (no expiry): the spender must differ from the owner, the entry must exist
(`ALLOWANCES.load`); an amount not below the current allowance REMOVES the entry, otherwise it is subtracted -/
def tokDecAllow (w : World) (t owner spender amt : Nat) : M World :=
  match w.tok t with
  | none => .error .err
  | some T =>
    if spender = owner then .error .err
    else
      match T.allow owner spender with
      | none => .error .err
      | some al =>
        .ok (setTok w t { T with
          allow := fun o s =>
            if o = owner ∧ s = spender then (if amt < al then some (al - amt) else none) else T.allow o s })

/-- `AssetInfo::query_pool`: the balance of `who` in an asset (a query error for an unknown token) -/
def balOf (w : World) (a : Asset) (who : Nat) : M Nat :=
  match a with
  | .native d => .ok (w.bank who d)
  | .token t => match w.tok t with
    | none => .error .err
    | some T => .ok (T.bal who)

/-- total version for statements: 0 for an unknown token -/
def bal (w : World) (a : Asset) (who : Nat) : Nat :=
  match a with
  | .native d => w.bank who d
  | .token t => match w.tok t with
    | none => 0
    | some T => T.bal who

/-- `query_token_info(..).total_supply` -/
def supplyOf (w : World) (t : Nat) : M Nat :=
  match w.tok t with
  | none => .error .err
  | some T => .ok T.supply

/-- `Asset::into_msg` executed by the dispatcher with `src` the paying contract -/
def payout (w : World) (src : Nat) (a : Asset) (dst amt : Nat) : M World :=
  match a with
  | .native d => bankSend w src dst [(d, amt)]
  | .token t => tokTransfer w t src dst amt

/-- `assert_sent_native_token_balance` on an asset -/
def assertSent (a : Asset) (amt : Nat) (funds : List (Nat × Nat)) : M Unit :=
  match a with
  | .native d => assertSentNative d amt funds
  | .token _ => .ok ()

/-! ### pair contract -/

/-- reported amounts of a swap (`offer_amount`, `return_amount`, `spread_amount`, `commission_amount`) -/
structure SwapOut where
  offer : Nat
  ret : Nat
  spread : Nat
  comm : Nat
  ask : Asset
  deriving DecidableEq, Repr, Inhabited

/-- `swap`: `w` already holds the credited offer; `funds` are the coins of the calling message;
`trader` is `sender` (direct) or the cw20 sender (hook) -/
def pairSwap (w : World) (p : Nat) (P : PairSt) (funds : List (Nat × Nat)) (trader : Nat)
    (offer : Asset) (amt : Nat) (belief ms : Option Nat) (to : Option Nat) : M (World × SwapOut) := do
  assertSent offer amt funds
  let r0 ← balOf w P.a0 p
  let r1 ← balOf w P.a1 p
  let (x, y, ask, od, ad) ←
    (if offer = P.a0 then do
        let x ← Cw.checkedSub r0 amt
        pure (x, r1, P.a1, P.d0, P.d1)
      else if offer = P.a1 then do
        let x ← Cw.checkedSub r1 amt
        pure (x, r0, P.a0, P.d1, P.d0)
      else .error .mismatch : M (Nat × Nat × Asset × Nat × Nat))
  let (n, s, k) ← computeSwap x y amt P.comm
  assertMaxSpread belief ms amt n s od ad
  let rcv := to.getD trader
  let w' ← if n = 0 then pure w else payout w p ask rcv n
  return (w', { offer := amt, ret := n, spread := s, comm := k, ask := ask })

/-- `withdraw_liquidity`: `w` already holds the LP tokens sent to the pair -/
def pairWithdraw (w : World) (p : Nat) (P : PairSt) (sender amount : Nat) : M (World × Nat × Nat) := do
  let r0 ← balOf w P.a0 p
  let r1 ← balOf w P.a1 p
  let S ← supplyOf w P.lp
  let ratio ← Cw.decFromRatio amount S
  let x0 ← Cw.mulDec r0 ratio
  let x1 ← Cw.mulDec r1 ratio
  let w1 ← payout w p P.a0 sender x0
  let w2 ← payout w1 p P.a1 sender x1
  let w3 ← tokBurn w2 P.lp p amount
  return (w3, x0, x1)

/-- hook payloads a cw20 `Send` can carry -/
inductive Hook
  | swap (offer : Asset) (amt : Nat) (belief ms : Option Nat) (to : Option Nat)
  | withdraw
  | routerOps (ops : List (Asset × Asset)) (min : Option Nat) (to : Option Nat)
  | garbage
  deriving Repr, Inhabited

/-- what a step reports back (compared with the implementation's attributes) -/
inductive Out
  | none
  | swap (o : SwapOut)
  | provide (share : Nat)
  | withdraw (x0 x1 : Nat)
  deriving Repr, Inhabited

/-- `receive_cw20`: `t` = `info.sender` (the calling contract), `from` = `cw20_msg.sender` -/
def pairReceive (w : World) (p t from_ amount : Nat) (h : Hook) : M (World × Out) :=
  match w.pair p with
  | none => .error .err
  | some P =>
    match h with
    | .swap offer amt belief ms to => do
      if amt ≠ amount then .error .mismatch
      else do
        let _ ← balOf w P.a0 p          -- query_pools
        let _ ← balOf w P.a1 p
        if ¬ (P.a0 = .token t ∨ P.a1 = .token t) then .error .unauthorized
        -- repair of D2: the offered asset must be the token that sent this hook
        else if offer ≠ .token t then .error .mismatch
        else do
          validTo w to                    -- `Some(deps.api.addr_validate(to_addr.as_str())?)`
          let (w', o) ← pairSwap w p P [] from_ offer amt belief ms to
          return (w', .swap o)
    | .withdraw =>
      if t ≠ P.lp then .error .unauthorized
      else do
        validAddr w from_                 -- `deps.api.addr_validate(cw20_msg.sender.as_str())?`
        let (w', x0, x1) ← pairWithdraw w p P from_ amount
        return (w', .withdraw x0 x1)
    | _ => .error .err

/-- `provide_liquidity`; `assets` as declared by the caller -/
def pairProvide (w : World) (p : Nat) (P : PairSt) (sender : Nat) (funds : List (Nat × Nat))
    (as0 : Asset) (am0 : Nat) (as1 : Asset) (am1 : Nat) (tol : Option Nat) (receiver : Option Nat) :
    M (World × Nat) := do
  assertSent as0 am0 funds
  assertSent as1 am1 funds
  let r0 ← balOf w P.a0 p
  let r1 ← balOf w P.a1 p
  -- `.find(..).expect("Wrong asset info is given")`
  let d0 ← (if as0 = P.a0 then pure am0 else if as1 = P.a0 then pure am1 else .error .abort : M Nat)
  let d1 ← (if as0 = P.a1 then pure am0 else if as1 = P.a1 then pure am1 else .error .abort : M Nat)
  -- overflow probe `Decimal256::from_uint256((pool_0 + amount_0) * (pool_1 + amount_1))`
  let s0 ← Uint.add r0 d0
  let s1 ← Uint.add r1 d1
  let pr ← Uint.mul s0 s1
  let _ ← Dec.fromUint pr
  let p0 ← (match P.a0 with | .token _ => pure r0 | .native _ => Cw.checkedSub r0 d0 : M Nat)
  let p1 ← (match P.a1 with | .token _ => pure r1 | .native _ => Cw.checkedSub r1 d1 : M Nat)
  assertSlippage tol d0 d1 p0 p1
  let S ← supplyOf w P.lp
  let share ← (match lpShare sender P.req S d0 d1 p0 p1 with
    | .ok m => pure m
    | .error _ => .error .abort : M Nat)          -- `.unwrap()`
  if share = 0 then .error .zero
  else do
    let rcv := receiver.getD sender
    let share' ← (if S = 0 then Cw.checkedSub share 1 else pure share : M Nat)
    -- messages, in order
    let w1 ← (match P.a0 with | .token t => tokTransferFrom w t p sender p d0 | .native _ => pure w : M World)
    let w2 ← (match P.a1 with | .token t => tokTransferFrom w1 t p sender p d1 | .native _ => pure w1 : M World)
    let w3 ← (if S = 0 then tokMint w2 P.lp p P.lp 1 else pure w2 : M World)
    -- the pair does not validate `receiver`; the LP token's `Mint { recipient }` does
    -- (cw20-base `execute_mint`: `deps.api.addr_validate(&recipient)?`), so the mint message fails
    validTo w3 receiver
    let w4 ← tokMint w3 P.lp p rcv share'
    return (w4, share')

/-- `update_native_token_decimals` -/
def pairUpdateDecimals (w : World) (p sender denom da db : Nat) : M World :=
  match w.pair p with
  | none => .error .err
  | some P =>
    if sender ≠ P.factory then .error .unauthorized
    else
      let P' := if P.a0 = .native denom ∨ P.a1 = .native denom then { P with d0 := da, d1 := db } else P
      .ok { w with pair := fun a => if a = p then some P' else w.pair a }

/-- messages a user (or any contract) can send to a pair -/
inductive PairMsg
  | provide (as0 : Asset) (am0 : Nat) (as1 : Asset) (am1 : Nat) (tol : Option Nat) (receiver : Option Nat)
  | swap (offer : Asset) (amt : Nat) (belief ms : Option Nat) (to : Option Nat)
  | receive (from_ amount : Nat) (h : Hook)        -- a raw `Receive`, e.g. forged by a rogue contract
  | updateDecimals (denom da db : Nat)
  deriving Repr, Inhabited

/-- `execute` of the pair: attached funds are credited first -/
def pairExec (w : World) (sender p : Nat) (funds : List (Nat × Nat)) (m : PairMsg) : M (World × Out) := do
  match w.pair p with
  | none => .error .err
  | some P =>
    let w0 ← attach w sender p funds
    match m with
    | .provide as0 am0 as1 am1 tol rcv => do
      let (w', sh) ← pairProvide w0 p P sender funds as0 am0 as1 am1 tol rcv
      return (w', .provide sh)
    | .swap offer amt belief ms to =>
      (match offer with
       | .token _ => .error .unauthorized
       | .native _ => do
         validTo w0 to                    -- `Some(deps.api.addr_validate(&to_addr)?)`
         let (w', o) ← pairSwap w0 p P funds sender offer amt belief ms to
         return (w', .swap o))
    | .receive from_ amount h => pairReceive w0 p sender from_ amount h
    | .updateDecimals denom da db => do
      let w' ← pairUpdateDecimals w0 p sender denom da db
      return (w', .none)

/-! ### pair queries -/

def qSimulation (w : World) (p : Nat) (offer : Asset) (amt : Nat) : M (Nat × Nat × Nat) :=
  match w.pair p with
  | none => .error .err
  | some P => do
    let r0 ← balOf w P.a0 p
    let r1 ← balOf w P.a1 p
    if offer = P.a0 then computeSwap r0 r1 amt P.comm
    else if offer = P.a1 then computeSwap r1 r0 amt P.comm
    else .error .mismatch

def qReverseSimulation (w : World) (p : Nat) (ask : Asset) (amt : Nat) : M (Nat × Nat × Nat) :=
  match w.pair p with
  | none => .error .err
  | some P => do
    let r0 ← balOf w P.a0 p
    let r1 ← balOf w P.a1 p
    if ask = P.a0 then computeOfferAmount r1 r0 amt P.comm
    else if ask = P.a1 then computeOfferAmount r0 r1 amt P.comm
    else .error .mismatch

/-! ### factory -/

/-- `Factory::query_pair`: registry lookup under the key of the two raw identifiers -/
def facLookup (w : World) (a b : Asset) : Option Record :=
  regLookup (pairKey (w.rawId a) (w.rawId b)) w.registry

/-- `AssetInfo::query_decimals` as used by `execute_create_pair` -/
def assetDecimals (w : World) (a : Asset) : M Nat :=
  match a with
  | .native d => match w.denoms d with
    | some k => .ok k
    | none => .error .err
  | .token t => match w.tok t with
    | some T => .ok T.decimals
    | none => .error .err

/-- `execute_create_pair` + pair `instantiate` + LP-token instantiation + both replies.
`np`, `nl` are the addresses the chain allocates to the new pair and its LP token. -/
def facCreatePair (w : World) (sender : Nat) (a0 a1 : Asset) (req : Requirements) (comm : Option Nat)
    (lpDec : Option Nat) (np nl : Nat) : M World :=
  if sender ≠ w.owner then .error .unauthorized
  else if a0 = a1 then .error .err
  else if (match comm with | some c => decide (E < c) | none => false) then .error .err
  else do
    let d0 ← assetDecimals w a0
    let d1 ← assetDecimals w a1
    let key := pairKey (w.rawId a0) (w.rawId a1)
    if (regLookup key w.registry).isSome then .error .err
    -- the instantiation sub-messages use the configured code ids: anything but the real pair / cw20 code fails
    else if w.pairCode ≠ w.envPairCode ∨ w.tokenCode ≠ w.envTokenCode then .error .err
    -- the LP token is instantiated with `lp_token_decimals.unwrap_or(6)`; cw20-base refuses more than 18
    else if (match lpDec with | some d => decide (18 < d) | none => false) then .error .err
    else
      let c := comm.getD defaultCommission
      let P : PairSt := { a0 := a0, a1 := a1, d0 := d0, d1 := d1, lp := nl, comm := c, req := req, factory := w.facAddr }
      let T : Token := { bal := fun _ => 0, allow := fun _ _ => none, supply := 0, minter := some np, decimals := lpDec.getD 6 }
      let R : Record := { a0 := a0, a1 := a1, pair := np, lp := nl, d0 := d0, d1 := d1, req := req, comm := c }
      .ok { w with
        pair := fun a => if a = np then some P else w.pair a
        tok := fun a => if a = nl then some T else w.tok a
        registry := regInsert key R w.registry }

/-- one iteration of the fan-out loop of `execute_add_native_token_decimals`: reload the record under
the key recomputed from the listed assets, rewrite it, and queue the pair's update message
`(pair, asset_decimals[0], asset_decimals[1])` -/
def facFanOut1 (denom decimals : Nat) (acc : World × List (Nat × Nat × Nat)) (e : Bytes × Record) :
    M (World × List (Nat × Nat × Nat)) :=
  let (w, msgs) := acc
  let R := e.2
  let key := pairKey (w.rawId R.a0) (w.rawId R.a1)
  match regLookup key w.registry with
  | none => .error .err                     -- `PAIRS.load` fails
  | some raw =>
    let (w1, msgs1) :=
      if R.a0 = .native denom then
        ({ w with registry := regInsert key { raw with d0 := decimals } w.registry },
         msgs ++ [(raw.pair, decimals, raw.d1)])
      else (w, msgs)
    let (w2, msgs2) :=
      if R.a1 = .native denom then
        ({ w1 with registry := regInsert key { raw with d1 := decimals } w1.registry },
         msgs1 ++ [(raw.pair, raw.d0, decimals)])
      else (w1, msgs1)
    .ok (w2, msgs2)

/-- the queued update messages, dispatched in order after the factory's own writes -/
def facFanOutMsgs (denom : Nat) (w : World) : List (Nat × Nat × Nat) → M World
  | [] => .ok w
  | (p, da, db) :: rest => do
    let w1 ← pairUpdateDecimals w p w.facAddr denom da db
    facFanOutMsgs denom w1 rest

/-- `execute_add_native_token_decimals` (after the repair of D4 the fan-out walks the whole registry) -/
def facAddDecimals (w : World) (sender denom decimals : Nat) : M World :=
  let existed := (w.denoms denom).isSome
  if sender ≠ w.owner then .error .unauthorized
  else if w.bank w.facAddr denom = 0 then .error .err
  else do
    let w1 := { w with denoms := fun d => if d = denom then some decimals else w.denoms d }
    if existed then do
      let (w2, msgs) ← w1.registry.foldlM (facFanOut1 denom decimals) (w1, [])
      facFanOutMsgs denom w2 msgs
    else pure w1

/-- `execute_update_config`: each given field replaces the stored one -/
def facUpdateConfig (w : World) (sender : Nat) (newOwner tokenCode pairCode : Option Nat) : M World :=
  if sender ≠ w.owner then .error .unauthorized
  else if badTo w newOwner then .error .err       -- `let _ = deps.api.addr_validate(&owner)?;` (after the permission check)
  else .ok { w with owner := newOwner.getD w.owner, tokenCode := tokenCode.getD w.tokenCode,
                    pairCode := pairCode.getD w.pairCode }

/-- `execute_migrate_pair` (code id defaults to the configured pair code): owner-gated, the pair must have
the factory as admin (i.e. have been created by it); migration to the pair code only rewrites the version
string; migration to any other code id is outside the model and treated as failing -/
def facMigratePair (w : World) (sender p : Nat) (codeId : Option Nat) : M World :=
  if sender ≠ w.owner then .error .unauthorized
  else if codeId.getD w.pairCode ≠ w.envPairCode then .error .err
  else match w.pair p with
    | some P => if P.factory = w.facAddr then .ok w else .error .err
    | none => .error .err

inductive FacMsg
  | updateConfig (newOwner tokenCode pairCode : Option Nat)
  | createPair (a0 a1 : Asset) (req : Requirements) (comm : Option Nat) (lpDec : Option Nat) (np nl : Nat)
  | addDecimals (denom decimals : Nat)
  | migratePair (p : Nat) (codeId : Option Nat)
  deriving Repr, Inhabited

def facExec (w : World) (sender : Nat) (funds : List (Nat × Nat)) (m : FacMsg) : M World := do
  let w0 ← attach w sender w.facAddr funds
  match m with
  | .updateConfig o tc pc => facUpdateConfig w0 sender o tc pc
  | .createPair a0 a1 req comm lpDec np nl => facCreatePair w0 sender a0 a1 req comm lpDec np nl
  | .addDecimals d k => facAddDecimals w0 sender d k
  | .migratePair p c => facMigratePair w0 sender p c

/-! ### router -/

/-- cw20 `Send` to a pair: transfer, then the pair's `Receive` with `info.sender = t` -/
def tokSendPair (w : World) (t sender p amt : Nat) (h : Hook) : M (World × Out) := do
  let w1 ← tokTransfer w t sender p amt
  pairReceive w1 p t sender amt h

/-- `execute_swap_operation`: swap the router's whole balance of the hop's offer asset -/
def routerHop (w : World) (sender : Nat) (offer ask : Asset) (to : Option Nat) : M World :=
  if sender ≠ w.router then .error .unauthorized
  else match facLookup w offer ask with
    | none => .error .err
    | some R => do
      let amount ← balOf w offer w.router
      match offer with
      | .native d => do
        let (w', _) ← pairExec w w.router R.pair [(d, amount)] (.swap offer amount none none to)
        pure w'
      | .token t => do
        let (w', _) ← tokSendPair w t w.router R.pair amount (.swap offer amount none none to)
        pure w'

/-- `assert_minium_receive` -/
def routerAssertMin (w : World) (sender : Nat) (a : Asset) (prev min_ receiver : Nat) : M Unit :=
  if sender ≠ w.router then .error .unauthorized
  else do
    let b ← balOf w a receiver
    let got ← Cw.checkedSub b prev
    if got < min_ then .error .err else .ok ()

/-- the self-messages of `execute_swap_operations`, executed in order: only the last hop carries the recipient -/
def routerHops (w : World) (to : Nat) : List (Asset × Asset) → M World
  | [] => .ok w
  | [(o, a)] => routerHop w w.router o a (some to)
  | (o, a) :: rest => do
    let w1 ← routerHop w w.router o a none
    routerHops w1 to rest

/-- text of an asset id as `assert_operations` keys it (`Display for AssetInfo`); the driver supplies
the real strings, the theorems quantify over the naming function -/
def opsTexts (name : Asset → String) (ops : List (Asset × Asset)) : List (String × String) :=
  ops.map fun (o, a) => (name o, name a)

/-- `execute_swap_operations`: `w` already holds the input; `sender` is the caller (direct) or the cw20 sender (hook) -/
def routerSwapOps (name : Asset → String) (w : World) (sender : Nat) (ops : List (Asset × Asset))
    (min_ : Option Nat) (to : Option Nat) : M World :=
  match ops.getLast? with
  | none => .error .err
  | some (_, target) => do
    assertOperations (opsTexts name ops)
    let rcv := to.getD sender
    match min_ with
    | none => routerHops w rcv ops
    | some m => do
      let prev ← balOf w target rcv
      let w' ← routerHops w rcv ops
      routerAssertMin w' w.router target prev m rcv
      pure w'

inductive RouterMsg
  | swapOps (ops : List (Asset × Asset)) (min_ : Option Nat) (to : Option Nat)
  | swapOp (offer ask : Asset) (to : Option Nat)
  | assertMin (a : Asset) (prev min_ receiver : Nat)
  | receive (from_ amount : Nat) (h : Hook)
  deriving Repr, Inhabited

def routerReceive (name : Asset → String) (w : World) (from_ : Nat) (h : Hook) : M World :=
  if w.badAddr from_ then .error .err              -- `deps.api.addr_validate(&cw20_msg.sender)?` (before the payload is parsed)
  else match h with
  | .routerOps ops min_ to => do
    validTo w to                                   -- `optional_addr_validate(api, to)?`
    routerSwapOps name w from_ ops min_ to
  | _ => .error .err

def routerExec (name : Asset → String) (w : World) (sender : Nat) (funds : List (Nat × Nat)) (m : RouterMsg) :
    M World := do
  let w0 ← attach w sender w.router funds
  match m with
  | .swapOps ops min_ to => do
    validTo w0 to                                  -- `optional_addr_validate(api, to)?`
    routerSwapOps name w0 sender ops min_ to
  | .swapOp o a to => do
    validTo w0 to                                  -- `optional_addr_validate(api, to)?` (before the self-call check)
    routerHop w0 sender o a to
  | .assertMin a prev min_ rcv => do
    validAddr w0 rcv                               -- `deps.api.addr_validate(&receiver)?` (before the self-call check)
    routerAssertMin w0 sender a prev min_ rcv
    pure w0
  | .receive from_ _ h => routerReceive name w0 from_ h

/-- router `SimulateSwapOperations`: left fold of the pairs' `Simulation` queries -/
def routerSimulate (w : World) (amt : Nat) : List (Asset × Asset) → M Nat
  | [] => .ok amt
  | (o, a) :: rest =>
    match facLookup w o a with
    | none => .error .err
    | some R => do
      let (n, _, _) ← qSimulation w R.pair o amt
      routerSimulate w n rest

def routerSimulateTop (w : World) (amt : Nat) (ops : List (Asset × Asset)) : M Nat :=
  if ops = [] then .error .err else routerSimulate w amt ops

/-- router `ReverseSimulateSwapOperations`: right fold of the pairs' `ReverseSimulation` queries
(`.unwrap()` on each hop) -/
def routerReverse (w : World) (amt : Nat) : List (Asset × Asset) → M Nat
  | [] => .ok amt
  | (o, a) :: rest => do
    let need ← routerReverse w amt rest
    match facLookup w o a with
    | none => .error .abort
    | some R =>
      match qReverseSimulation w R.pair a need with
      | .ok (x, _, _) => .ok x
      | .error _ => .error .abort

def routerReverseTop (w : World) (amt : Nat) (ops : List (Asset × Asset)) : M Nat :=
  if ops = [] then .error .err else routerReverse w amt ops

/-! ### top-level operations -/

/-- cw20 `Send` to an arbitrary contract -/
def tokSend (name : Asset → String) (w : World) (t sender dst amt : Nat) (h : Hook) : M (World × Out) :=
  if (w.pair dst).isSome then tokSendPair w t sender dst amt h
  else if dst = w.router then do
    let w1 ← tokTransfer w t sender dst amt
    let w2 ← routerReceive name w1 sender h
    pure (w2, .none)
  else .error .err

/-- cw20 `SendFrom` by `spender`: the tokens are pulled from `owner` with `spender`'s allowance (as `TransferFrom`),
then the receiving contract's `Receive` runs with `info.sender = t` and `cw20_msg.sender = spender` -/
def tokSendFrom (name : Asset → String) (w : World) (t spender owner dst amt : Nat) (h : Hook) : M (World × Out) :=
  if (w.pair dst).isSome then do
    let w1 ← tokTransferFrom w t spender owner dst amt
    pairReceive w1 dst t spender amt h
  else if dst = w.router then do
    let w1 ← tokTransferFrom w t spender owner dst amt
    let w2 ← routerReceive name w1 spender h
    pure (w2, .none)
  else .error .err

/-- what an external actor can submit -/
inductive Op
  | bankSend (sender dst : Nat) (coins : List (Nat × Nat))
  | tokTransfer (t sender dst amt : Nat)
  | tokSend (t sender dst amt : Nat) (h : Hook)
  | tokIncAllow (t owner spender amt : Nat)
  | tokBurn (t sender amt : Nat)
  | pair (sender p : Nat) (funds : List (Nat × Nat)) (m : PairMsg)
  | router (sender : Nat) (funds : List (Nat × Nat)) (m : RouterMsg)
  | factory (sender : Nat) (funds : List (Nat × Nat)) (m : FacMsg)
  | tokTransferFrom (t spender owner dst amt : Nat)
  | tokSendFrom (t spender owner dst amt : Nat) (h : Hook)
  | tokBurnFrom (t spender owner amt : Nat)
  | tokDecAllow (t owner spender amt : Nat)
  deriving Repr, Inhabited

def exec (name : Asset → String) (w : World) : Op → M (World × Out)
  | .bankSend s d cs => do let w' ← bankSend w s d cs; pure (w', .none)
  | .tokTransfer t s d a => do let w' ← tokTransfer w t s d a; pure (w', .none)
  | .tokSend t s d a h => tokSend name w t s d a h
  | .tokIncAllow t o s a => do let w' ← tokIncAllow w t o s a; pure (w', .none)
  | .tokBurn t s a => do let w' ← tokBurn w t s a; pure (w', .none)
  | .pair s p f m => pairExec w s p f m
  | .router s f m => do let w' ← routerExec name w s f m; pure (w', .none)
  | .factory s f m => do let w' ← facExec w s f m; pure (w', .none)
  | .tokTransferFrom t sp o d a => do let w' ← tokTransferFrom w t sp o d a; pure (w', .none)
  | .tokSendFrom t sp o d a h => tokSendFrom name w t sp o d a h
  | .tokBurnFrom t sp o a => do let w' ← tokBurnFrom w t sp o a; pure (w', .none)
  | .tokDecAllow t o s a => do let w' ← tokDecAllow w t o s a; pure (w', .none)

/-- a transaction is atomic: on failure nothing changes -/
def step (name : Asset → String) (w : World) (op : Op) : World :=
  match exec name w op with
  | .ok (w', _) => w'
  | .error _ => w

def run (name : Asset → String) (w : World) (ops : List Op) : World := ops.foldl (step name) w

end Halo
