/-
N1 — numbers.  Model of `packages/bignumber/src/math.rs` (`Uint256`, `Decimal256` over `bigint::U256`)
and of the `cosmwasm_std::{Uint128, Decimal}` operations the contracts use.

Values are unbounded `Nat`; the bounds the Rust types impose are explicit guards, and every
operation lives in `Except Err`, so "aborts" (panic), "returns Err" and "returns a value" are all
visible.  No Mathlib import: this file is linked into the native driver.
-/

namespace Halo

/-- Failure classes.  Only ok/fail is compared with the implementation, except `guard`
(the typed `MaxSpreadAssertion` / `MaxSlippageAssertion` rejections, properties C10 and C15). -/
inductive Err
  | abort          -- panic (overflow, zero divisor, failed `assert!`, `unwrap` on Err)
  | err            -- an ordinary returned `Err`
  | guard          -- MaxSpreadAssertion / MaxSlippageAssertion
  | unauthorized
  | mismatch       -- AssetMismatch
  | zero           -- zero-amount transfer / mint / burn rejected by bank or cw20
  | insufficient   -- insufficient balance or allowance
  deriving DecidableEq, Repr, Inhabited

end Halo

deriving instance DecidableEq for Except

namespace Halo

abbrev M := Except Err

/-- fixed-point scale `10^18` -/
def E : Nat := 1000000000000000000
/-- `2^256` -/
def U : Nat := 2 ^ 256
/-- `2^128` -/
def W : Nat := 2 ^ 128
/-- `2^64` -/
def L : Nat := 2 ^ 64

def require (b : Bool) (e : Err) : M Unit := if b then .ok () else .error e

/-! ### `bigint::U256` operators (assumed exact-or-panic; see DESIGN §8) -/
namespace u256
def add (a b : Nat) : M Nat := if a + b < U then .ok (a + b) else .error .abort
def sub (a b : Nat) : M Nat := if b ≤ a then .ok (a - b) else .error .abort
def mul (a b : Nat) : M Nat := if a * b < U then .ok (a * b) else .error .abort
def div (a b : Nat) : M Nat := if b = 0 then .error .abort else .ok (a / b)
def rem (a b : Nat) : M Nat := if b = 0 then .error .abort else .ok (a % b)
end u256

/-! ### `Decimal256` (atomics; value = atomics / 10^18) -/
namespace Dec
/-- `Decimal256::from_ratio` -/
def fromRatio (n d : Nat) : M Nat :=
  if d = 0 then .error .abort else do
    let p ← u256.mul n E
    u256.div p d
/-- `Decimal256::from_uint256` -/
def fromUint (v : Nat) : M Nat := u256.mul v E
def add (a b : Nat) : M Nat := u256.add a b
/-- `assert!(self.0 >= rhs.0)` then subtraction -/
def sub (a b : Nat) : M Nat := if b ≤ a then .ok (a - b) else .error .abort
def mul (a b : Nat) : M Nat := do
  let p ← u256.mul a b
  u256.div p E
def div (a b : Nat) : M Nat :=
  if b = 0 then .error .abort else do
    let p ← u256.mul a E
    u256.div p b
/-- `Decimal256::percent` / `permille` : `U256::from(x) * U256::from(10^16 | 10^15)`, `x : u64` -/
def percent (x : Nat) : M Nat := u256.mul x 10000000000000000
def permille (x : Nat) : M Nat := u256.mul x 1000000000000000
end Dec

/-! ### `Uint256` -/
namespace Uint
def add (a b : Nat) : M Nat := u256.add a b
def sub (a b : Nat) : M Nat := if b ≤ a then .ok (a - b) else .error .abort
/-- `Uint256 * Uint256` (zero short-cut first) -/
def mul (a b : Nat) : M Nat := if a = 0 ∨ b = 0 then .ok 0 else u256.mul a b
/-- `Uint256::multiply_ratio` -/
def mulRatio (u n d : Nat) : M Nat :=
  if d = 0 then .error .abort else do
    let p ← u256.mul u n
    u256.div p d
/-- `Uint256 * Decimal256` and `Decimal256 * Uint256` -/
def mulDec (u d : Nat) : M Nat := if u = 0 ∨ d = 0 then .ok 0 else mulRatio u d E
/-- `Uint256 / Decimal256` -/
def divDec (u d : Nat) : M Nat :=
  if d = 0 then .error .abort else if u = 0 then .ok 0 else mulRatio u E d
end Uint

/-! ### limb view: `U256([l0, l1, l2, l3])`, little endian 64-bit limbs -/
structure Limbs where
  l0 : Nat
  l1 : Nat
  l2 : Nat
  l3 : Nat
  deriving DecidableEq, Repr

namespace Limbs
def value (x : Limbs) : Nat := x.l0 + x.l1 * L + x.l2 * L ^ 2 + x.l3 * L ^ 3
def wf (x : Limbs) : Prop := x.l0 < L ∧ x.l1 < L ∧ x.l2 < L ∧ x.l3 < L
/-- the limb decomposition of a value `< 2^256` -/
def ofNat (n : Nat) : Limbs := ⟨n % L, n / L % L, n / L ^ 2 % L, n / L ^ 3 % L⟩
/-- `split_u128` : `(a >> 64, a & 0xFFFF_FFFF_FFFF_FFFF)` -/
def splitU128 (a : Nat) : Nat × Nat := (a / L, a % L)
/-- `From<u128> for Uint256` : `U256([low, hi, 0, 0])` -/
def ofU128 (a : Nat) : Limbs := let (hi, lo) := splitU128 a; ⟨lo, hi, 0, 0⟩
/-- `From<Uint256> for u128` : two `assert!`s then `(hi << 64) + low` -/
def toU128 (x : Limbs) : M Nat :=
  if x.l2 = 0 ∧ x.l3 = 0 then .ok (x.l1 * L + x.l0) else .error .abort
/-- `Decimal256::DECIMAL_FRACTIONAL = U256([10^18, 0, 0, 0])` -/
def decimalFractional : Limbs := ⟨1000000000000000000, 0, 0, 0⟩
end Limbs

/-- `From<Uint256> for u128` / `Uint128` on values -/
def toU128 (n : Nat) : M Nat := Limbs.toU128 (Limbs.ofNat n)
/-- `From<u128> for Uint256` on values -/
def ofU128 (a : Nat) : Nat := (Limbs.ofU128 a).value

/-! ### `cosmwasm_std::Uint128`, `Decimal` -/
namespace Cw
def checkedSub (a b : Nat) : M Nat := if b ≤ a then .ok (a - b) else .error .err
def checkedMul (a b : Nat) : M Nat := if a * b < W then .ok (a * b) else .error .err
/-- `Uint128::multiply_ratio` : full-width product, panics on zero denominator / result ≥ 2^128 -/
def mulRatio (u n d : Nat) : M Nat :=
  if d = 0 then .error .abort
  else if u * n / d < W then .ok (u * n / d) else .error .abort
/-- `Decimal::from_ratio` -/
def decFromRatio (n d : Nat) : M Nat := mulRatio n E d
/-- `Uint128 * Decimal` -/
def mulDec (u d : Nat) : M Nat := if u = 0 ∨ d = 0 then .ok 0 else mulRatio u d E
/-- native `u128 * u128` with `overflow-checks = true` -/
def nativeMul (a b : Nat) : M Nat := if a * b < W then .ok (a * b) else .error .abort
/-- `10u64.pow(k)` with overflow checks -/
def pow10u64 (k : Nat) : M Nat := if 10 ^ k < L then .ok (10 ^ k) else .error .abort
end Cw

end Halo
