/- Driver, `text` family (C18): rendering, parsing, JSON and width conversions. -/
import Halo.Driver.Basic
import Halo.Text

namespace Halo.Driver
open Halo Halo.Text

def hexVal (c : Char) : Nat :=
  if '0' ≤ c ∧ c ≤ '9' then c.toNat - 48 else if 'a' ≤ c ∧ c ≤ 'f' then c.toNat - 87 else 0

/-- `h<hex>` → bytes -/
def unhex (s : String) : List Nat :=
  let rec go : List Char → List Nat
    | a :: b :: rest => (hexVal a * 16 + hexVal b) :: go rest
    | _ => []
  go (s.toList.drop 1)

def hexDigit (n : Nat) : Char := if n < 10 then Char.ofNat (48 + n) else Char.ofNat (87 + n)
def tohex (bs : List Nat) : String :=
  String.ofList ('h' :: bs.flatMap fun b => [hexDigit (b / 16), hexDigit (b % 16)])

def resBytes : M (List Nat) → String
  | .ok b => s!"ok {tohex b}"
  | .error _ => "fail"

def textLine (a : List String) (impl : String) : Verdict :=
  let op := a.getD 0 ""
  let arg := a.getD 1 ""
  match op with
  | "dec_to_string" =>
    let v := nat! arg
    let model := s!"ok {tohex (decRender v)}"
    let oracle := match impl.splitOn " " with
      | ["ok", h] =>
        let s := unhex h
        chk "C18" "rendered text is not the canonical numeral of the value" (canonicalDec s && denote s == some v)
      | _ => [("C18", "rendering failed")]
    mk false model impl oracle
  | "uint_to_string" | "uint_into_string" =>
    let v := nat! arg
    let model := s!"ok {tohex (uintRender v)}"
    let oracle := match impl.splitOn " " with
      | ["ok", h] =>
        let s := unhex h
        chk "C18" "rendered text is not the canonical numeral of the value" (canonicalInt s && valOf s == v)
      | _ => [("C18", "rendering failed")]
    mk false model impl oracle
  | "dec_from_str" | "dec_json_dec" =>
    -- JSON: `jsonDec` follows serde-json-wasm including escape sequences, so the text judged by the
    -- oracle is the *unescaped* string (`"\u0031"` must decode to 1); only texts that are not one
    -- well-formed JSON string (bad escape, lone surrogate, unterminated, trailing bytes) are malformed
    let raw := unhex arg
    let txt : M (List Nat) := if op == "dec_json_dec" then jsonDec raw else .ok raw
    let model := res1 (txt >>= decParse)
    let oracle := match okVals impl, txt with
      | some [v], .ok s => chk "C18" "accepted string does not denote the parsed value" (denote s == some v)
      | some _, .error _ => [("C18", "JSON text that is not one well-formed string accepted")]
      | _, _ => []
    mk false model impl oracle
  | "uint_from_str" | "uint_try_from" | "uint_json_dec" =>
    let raw := unhex arg
    let txt : M (List Nat) := if op == "uint_json_dec" then jsonDec raw else .ok raw
    let model := res1 (txt >>= uintParse)
    let oracle := match okVals impl, txt with
      | some [v], .ok s => chk "C18" "accepted string does not denote the parsed value" (s.all isDigit && valOf s == v)
      | some _, .error _ => [("C18", "JSON text that is not one well-formed string accepted")]
      | _, _ => []
    mk false model impl oracle
  | "dec_rt" =>
    let v := nat! arg
    let model := res1 (decParse (decRender v))
    mk false model impl (chk "C18" "render/parse round trip changed the value" (impl == s!"ok {v}"))
  | "uint_rt" =>
    let v := nat! arg
    let model := res1 (uintParse (uintRender v))
    mk false model impl (chk "C18" "render/parse round trip changed the value" (impl == s!"ok {v}"))
  | "dec_json_rt" =>
    let v := nat! arg
    let j := jsonEnc (decRender v)
    let model := match jsonDec j >>= decParse with
      | .ok v' => s!"ok {tohex j} {v'}"
      | .error _ => "fail"
    mk false model impl (chk "C18" "JSON round trip changed the value" (impl == s!"ok {tohex j} {v}"))
  | "uint_json_rt" =>
    let v := nat! arg
    let j := jsonEnc (uintRender v)
    let model := match jsonDec j >>= uintParse with
      | .ok v' => s!"ok {tohex j} {v'}"
      | .error _ => "fail"
    mk false model impl (chk "C18" "JSON round trip changed the value" (impl == s!"ok {tohex j} {v}"))
  | "u128_rt" =>
    let w := nat! arg
    let model := res1 (toU128 (ofU128 w))
    mk false model impl (chk "C18" "u128 → Uint256 → u128 changed the value" (impl == s!"ok {w}"))
  | "std_rt" =>
    let w := nat! arg
    let model := match decFromStd w with
      | .ok d => (match decToStd d with
        | .ok w' => s!"ok {d} {w'}"
        | .error _ => "fail")
      | .error _ => "fail"
    mk false model impl (chk "C18" "Decimal → Decimal256 → Decimal changed the value" (impl == s!"ok {w} {w}"))
  | "dec_to_std" | "uint_to_u128" =>
    let v := nat! arg
    let model := res1 (if op == "dec_to_std" then decToStd v else toU128 v)
    let oracle := if v < W then chk "C18" "narrowing conversion changed a fitting value" (impl == s!"ok {v}")
      else chk "C18" "narrowing conversion accepted a value that does not fit" (isFail impl)
    mk false model impl oracle
  | _ => { diverge := some s!"unknown-text-op {op}" }

end Halo.Driver
