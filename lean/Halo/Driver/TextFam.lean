import Halo.Driver.Basic
namespace Halo.Driver
def textLine (_a : List String) (_impl : String) : Verdict := { diverge := some "text-not-yet" }
end Halo.Driver
