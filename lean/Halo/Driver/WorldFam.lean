/-
Driver, world families.  Replays the harness' operation sequences on the Lean world model
(`Halo.World`), compares every observation of the implementation with the model (correspondence)
and evaluates the property predicates on the implementation's own before/after observations
(oracle).  Line protocol: DESIGN Appendix A / harness `world.rs`.
-/
import Halo.Driver.Basic
import Halo.Driver.TextFam
import Halo.World
import Halo.Inv
import Std.Data.HashMap

namespace Halo.Driver
open Halo

instance : Inhabited World :=
  ⟨{ bank := fun _ _ => 0, tok := fun _ => none, pair := fun _ => none, facAddr := 0, owner := 0,
     denoms := fun _ => none, registry := [], rawId := fun _ => [], router := 0 }⟩

/-- a parsed step together with the implementation's result -/
structure Pending where
  line : String
  op : Op
  kind : String
  implOk : Bool
  implRes : String               -- text after `=>`
  wBefore : World                -- model world before the step
  modelOk : Bool
  deriving Inhabited


structure WorldSt where
  w : World := default
  raws : List (Asset × Bytes) := []
  names : List (Asset × String) := []
  cur : Std.HashMap String String := {}          -- the implementation's observed state
  keys : Array String := #[]
  changes : List (String × String × String) := []  -- (key, old, new) since the pending step line
  pending : Option Pending := none
  desync : Bool := false
  family : String := "world"
  seq : Nat := 0
  lastSim : Option (Nat × Asset × Nat × String) := none          -- pair, offer, amount, result
  lastRouteSim : Option (Nat × List (Asset × Asset) × String) := none
  pairsSeen : List Nat := []
  lpFirst : List (Nat × Nat) := []
  acctSeen : List Nat := []                        -- accounts whose balances the harness observes
  assetSeen : List Asset := []                     -- assets whose balances the harness observes
  lastRouteDir : String := ""                      -- "rsimops" (forward) or "rrev" (reverse): which query `lastRouteSim` holds                 -- pair ↦ its LP token as first observed (at creation)
  tokDecimals : List (Nat × Nat) := []

/-- lenient number parsing: absent / malformed observations read as 0 instead of aborting the driver -/
def _root_.String.toNatD (s : String) : Nat := s.toNat?.getD 0
def _root_.String.Slice.toNatD (s : String.Slice) : Nat := s.toNat?.getD 0

def parseAsset (s : String) : Asset :=
  let n := (s.drop 1).toNatD
  if s.startsWith "n" then .native n else .token n

def showAsset : Asset → String
  | .native d => s!"n{d}"
  | .token t => s!"t{t}"

def optN (s : String) : Option Nat := if s == "-" then none else some s.toNatD

def parseCoins (s : String) : List (Nat × Nat) := coinList s

def parseOps (s : String) : List (Asset × Asset) :=
  if s == "-" then [] else (s.splitOn ";").map fun h =>
    match h.splitOn ">" with
    | [a, b] => (parseAsset a, parseAsset b)
    | _ => (.native 0, .native 0)

def parseHook (s : String) : Hook :=
  match s.splitOn ":" with
  | ["swap", a, amt, b, ms, to] => .swap (parseAsset a) amt.toNatD (optN b) (optN ms) (optN to)
  | ["withdraw"] => .withdraw
  | ["rops", ops, mn, to] => .routerOps (parseOps ops) (optN mn) (optN to)
  | _ => .garbage

def parseOp (t : List String) : Option Op :=
  let n (i : Nat) : Nat := (t.getD i "0").toNatD
  let s (i : Nat) : String := t.getD i "-"
  match t.head? with
  | some "bank_send" => some (.bankSend (n 1) (n 2) (parseCoins (s 3)))
  | some "tok_transfer" => some (.tokTransfer (n 1) (n 2) (n 3) (n 4))
  | some "tok_send" => some (.tokSend (n 1) (n 2) (n 3) (n 4) (parseHook (s 5)))
  | some "tok_inc" => some (.tokIncAllow (n 1) (n 2) (n 3) (n 4))
  | some "tok_burn" => some (.tokBurn (n 1) (n 2) (n 3))
  -- third-party allowance spending: tok_xfer_from <t> <spender> <owner> <dst> <amt>, tok_send_from <t> <spender> <owner>
  -- <dst> <amt> <hook>, tok_burn_from <t> <spender> <owner> <amt>; tok_dec <t> <owner> <spender> <amt>
  | some "tok_xfer_from" => some (.tokTransferFrom (n 1) (n 2) (n 3) (n 4) (n 5))
  | some "tok_send_from" => some (.tokSendFrom (n 1) (n 2) (n 3) (n 4) (n 5) (parseHook (s 6)))
  | some "tok_burn_from" => some (.tokBurnFrom (n 1) (n 2) (n 3) (n 4))
  | some "tok_dec" => some (.tokDecAllow (n 1) (n 2) (n 3) (n 4))
  | some "pair_provide" =>
    some (.pair (n 1) (n 2) (parseCoins (s 3))
      (.provide (parseAsset (s 4)) (n 5) (parseAsset (s 6)) (n 7) (optN (s 8)) (optN (s 9))))
  | some "pair_swap" =>
    some (.pair (n 1) (n 2) (parseCoins (s 3)) (.swap (parseAsset (s 4)) (n 5) (optN (s 6)) (optN (s 7)) (optN (s 8))))
  | some "pair_receive" => some (.pair (n 1) (n 2) (parseCoins (s 3)) (.receive (n 4) (n 5) (parseHook (s 6))))
  | some "pair_upd" => some (.pair (n 1) (n 2) (parseCoins (s 3)) (.updateDecimals (n 4) (n 5) (n 6)))
  | some "r_ops" => some (.router (n 1) (parseCoins (s 2)) (.swapOps (parseOps (s 3)) (optN (s 4)) (optN (s 5))))
  | some "r_op" => some (.router (n 1) (parseCoins (s 2)) (.swapOp (parseAsset (s 3)) (parseAsset (s 4)) (optN (s 5))))
  | some "r_assert" => some (.router (n 1) (parseCoins (s 2)) (.assertMin (parseAsset (s 3)) (n 4) (n 5) (n 6)))
  | some "r_receive" => some (.router (n 1) (parseCoins (s 2)) (.receive (n 3) (n 4) (parseHook (s 5))))
  | some "f_cfg" => some (.factory (n 1) (parseCoins (s 2)) (.updateConfig (optN (s 3)) (optN (s 4)) (optN (s 5))))
  | some "f_create" =>
    some (.factory (n 1) (parseCoins (s 2))
      (.createPair (parseAsset (s 3)) (parseAsset (s 4)) { whitelist := natList (s 5), min0 := n 6, min1 := n 7 } (optN (s 8)) (if t.length > 9 then optN (s 9) else none) 0 0))
  | some "f_add" => some (.factory (n 1) (parseCoins (s 2)) (.addDecimals (n 3) (n 4)))
  | some "f_mig" => some (.factory (n 1) (parseCoins (s 2)) (.migratePair (n 3) (optN (s 4))))
  | _ => none

def nameOf (st : WorldSt) (a : Asset) : String :=
  match st.names.find? (fun e => e.1 = a) with
  | some e => e.2
  | none => showAsset a

def wlStr (l : List Nat) : String := if l.isEmpty then "-" else ",".intercalate (l.map toString)

def pairInfoStr (p : Nat) (a0 a1 : Asset) (d0 d1 lp comm : Nat) (req : Requirements) : String :=
  s!"{p} {showAsset a0} {showAsset a1} {d0} {d1} {lp} {comm} {wlStr req.whitelist} {req.min0} {req.min1}"

/-- the model's answer to one observation key -/
def modelObs (w : World) (key : String) : String :=
  match key.splitOn " " with
  | ["bal", a, who] => toString (bal w (parseAsset a) who.toNatD)
  | ["supply", t] => match w.tok t.toNatD with | some T => toString T.supply | none => "?"
  | ["tdec", t] => match w.tok t.toNatD with | some T => toString T.decimals | none => "err"
  | ["allow", t, o, s] =>
    -- the allowance query validates both address strings
    if w.badAddr o.toNatD || w.badAddr s.toNatD then "err" else
    match w.tok t.toNatD with
      | some T => toString ((T.allow o.toNatD s.toNatD).getD 0)
      | none => "err"
  | ["owner"] => toString w.owner
  | ["codes"] => s!"{w.pairCode} {w.tokenCode}"
  | ["denom", d] => match w.denoms d.toNatD with | some k => toString k | none => "-"
  | ["pair", p] => match w.pair p.toNatD with
      | some P => pairInfoStr p.toNatD P.a0 P.a1 P.d0 P.d1 P.lp P.comm P.req
      | none => "?"
  | ["pool", p] => match w.pair p.toNatD with
      | some P =>
        let S := match w.tok P.lp with | some T => T.supply | none => 0
        s!"{bal w P.a0 p.toNatD} {bal w P.a1 p.toNatD} {S}"
      | none => "?"
  | ["reg", x, y] => match facLookup w (parseAsset x) (parseAsset y) with
      | some R => pairInfoStr R.pair R.a0 R.a1 R.d0 R.d1 R.lp R.comm R.req
      | none => "none"
  | ["listing"] =>
      let l := (walk w.registry (some 30)).map fun e => e.2.pair
      wlStr l
  | _ => "?"

/-! ### reading the implementation's observations -/

def curVal (st : WorldSt) (key : String) : String := st.cur.getD key ""
def prevVal (st : WorldSt) (key : String) : String :=
  match st.changes.find? (fun c => c.1 = key) with
  | some c => c.2.1
  | none => st.cur.getD key ""
/-- earliest recorded old value wins (a key may change only once per step, but be safe) -/
def prevValFirst (st : WorldSt) (key : String) : String :=
  match (st.changes.reverse).find? (fun c => c.1 = key) with
  | some c => c.2.1
  | none => st.cur.getD key ""

def balC (st : WorldSt) (a : Asset) (who : Nat) : Nat := (curVal st s!"bal {showAsset a} {who}").toNatD
def balP (st : WorldSt) (a : Asset) (who : Nat) : Nat := (prevValFirst st s!"bal {showAsset a} {who}").toNatD
def delta (st : WorldSt) (a : Asset) (who : Nat) : Int := (balC st a who : Int) - (balP st a who : Int)

def nums (s : String) : List Nat := (s.splitOn " ").map String.toNatD

/-- `(r0, r1, S)` of a pair from the `pool` observation -/
def poolOf (v : String) : Nat × Nat × Nat :=
  match nums v with
  | [a, b, c] => (a, b, c)
  | _ => (0, 0, 0)

structure PairView where
  p : Nat
  a0 : Asset
  a1 : Asset
  d0 : Nat
  d1 : Nat
  lp : Nat
  comm : Nat
  wl : List Nat
  min0 : Nat
  min1 : Nat
  deriving Inhabited

def pairViewOf (v : String) : Option PairView :=
  match v.splitOn " " with
  | [p, a0, a1, d0, d1, lp, comm, wl, m0, m1] =>
    some { p := p.toNatD, a0 := parseAsset a0, a1 := parseAsset a1, d0 := d0.toNatD, d1 := d1.toNatD, lp := lp.toNatD,
           comm := comm.toNatD, wl := natList wl, min0 := m0.toNatD, min1 := m1.toNatD }
  | _ => none

def fundsOf (funds : List (Nat × Nat)) (a : Asset) : Nat :=
  match a with
  | .native d => (funds.filter (fun c => c.1 = d)).foldl (fun s c => s + c.2) 0
  | .token _ => 0

def firstCoin (funds : List (Nat × Nat)) (d : Nat) : Nat :=
  ((funds.find? (fun c => c.1 = d)).map (·.2)).getD 0

/-- swaps a route performs, as `(pair, x, y, a)` pricing inputs, replayed on the model -/
def routeTrace (w : World) (to : Nat) : List (Asset × Asset) → List (Nat × Nat × Nat × Nat)
  | [] => []
  | (o, a) :: rest =>
    match facLookup w o a with
    | none => []
    | some R =>
      let amt := bal w o w.router
      let x := bal w o R.pair
      let y := bal w a R.pair
      let t := (R.pair, x, y, amt)
      match routerHop w w.router o a (if rest.isEmpty then some to else none) with
      | .ok w' => t :: routeTrace w' to rest
      | .error _ => [t]

/-- which property's "… fails and nothing changes" clause a rejected call that changed something violates -/
def atomicityProp (op : Op) : String :=
  match op with
  | .router _ _ (.swapOps ..) | .router _ _ (.receive ..) | .tokSend _ _ _ _ (.routerOps ..)
  | .tokSendFrom _ _ _ _ _ (.routerOps ..) => "C11"
  | .pair _ _ _ (.swap ..) | .pair _ _ _ (.provide ..) => "C09"
  | _ => "C14"

def isLpToken (st : WorldSt) (t : Nat) : Option Nat :=
  -- the pair whose LP token `t` is, according to the implementation's `pair` observations
  st.pairsSeen.find? fun p => match pairViewOf (curVal st s!"pair {p}") with
    | some v => v.lp = t
    | none => false

def poolReadable (v : String) : Bool := match v.splitOn " " with
  | [a, b, c] => a.toNat?.isSome && b.toNat?.isSome && c.toNat?.isSome
  | _ => false

/-- the pair's self-description, provided its `Pool{}` answers before and after the step are readable (a pair whose
pool query fails is reported as a divergence; the numeric oracles have nothing to judge then) -/
def pairViewR (st : WorldSt) (p : Nat) : Option PairView :=
  if poolReadable (curVal st s!"pool {p}") && poolReadable (prevValFirst st s!"pool {p}") then
    pairViewOf (curVal st s!"pair {p}")
  else none

def okSwapVals (res : String) : Option (Nat × Nat × Nat × Nat) :=
  match res.splitOn " " with
  | ["ok", "swap", o, n, s, k] => some (o.toNatD, n.toNatD, s.toNatD, k.toNatD)
  | _ => none

/-- known finding KF-SWAP-WINDOW at world level: the step performs a swap whose pricing inputs are in the
window — the very predicate (`Halo.swapsOn`, `Halo.WindowedOn`) the theorems `C03W.step_nondecr` /
`swap_product` exclude -/
def stepHasWindowSwap (pd : Pending) (_st : WorldSt) : Bool :=
  (swapsOn pd.wBefore pd.op).any fun (_, x, y, a) => inWindow x y a

/-- the same decision from the implementation's observations alone, for use after the sequence has diverged from
the model: `some b` for everything but router routes (whose per-hop amounts only the model knows), `none` for those -/
def obsWindowSwap (pd : Pending) (st : WorldSt) : Option (List Nat) :=
  let one (p : Nat) (offer : Asset) (amt : Nat) (funds : List (Nat × Nat)) : Option (List Nat) :=
    match pairViewOf (curVal st s!"pair {p}") with
    | some v =>
      if !poolReadable (prevValFirst st s!"pool {p}") then none else
      let (r0, r1, _) := poolOf (prevValFirst st s!"pool {p}")
      let ask := if offer = v.a0 then v.a1 else v.a0
      let x := if offer = v.a0 then r0 else r1
      let y := (if offer = v.a0 then r1 else r0) + fundsOf funds ask
      some (if inWindow x y amt then [p] else [])
    | none => none
  match pd.op with
  | .pair _ p funds (.swap offer amt _ _ _) => one p offer amt funds
  | .pair _ p _ (.receive _ amt (.swap offer _ _ _ _)) => one p offer amt []
  | .tokSend _ _ d amt (.swap offer _ _ _ _) => if st.pairsSeen.contains d then one d offer amt [] else some []
  | .tokSend _ _ _ _ (.routerOps ..) => none
  | .tokSendFrom _ _ _ d amt (.swap offer _ _ _ _) => if st.pairsSeen.contains d then one d offer amt [] else some []
  | .tokSendFrom _ _ _ _ _ (.routerOps ..) => none
  | .router .. => none
  | _ => some []

/-- accounts an operation may touch (C07) -/
def touched (st : WorldSt) (op : Op) : List Nat :=
  let allPairs := st.pairsSeen
  let lpOf (p : Nat) : List Nat := match pairViewOf (curVal st s!"pair {p}") with | some v => [v.lp] | none => []
  match op with
  | .bankSend s d _ => [s, d]
  | .tokTransfer _ s d _ => [s, d]
  | .tokIncAllow _ o _ _ => [o]
  | .tokBurn _ s _ => [s]
  | .tokSend _ s d _ h =>
    [s, d] ++ (match h with
      | .swap _ _ _ _ to => to.toList
      | .withdraw => lpOf d
      | .routerOps _ _ to => to.toList ++ allPairs ++ [st.w.router]
      | .garbage => [])
  | .pair s p _ m =>
    [s, p] ++ (match m with
      | .provide _ _ _ _ _ r => r.toList ++ lpOf p
      | .swap _ _ _ _ to => to.toList
      | .receive f _ h => [f] ++ (match h with | .swap _ _ _ _ to => to.toList | .withdraw => lpOf p | _ => [])
      | .updateDecimals _ _ _ => [])
  | .router s _ m =>
    [s, st.w.router] ++ (match m with
      | .swapOps _ _ to => to.toList ++ allPairs
      | .swapOp _ _ to => to.toList ++ allPairs
      | .assertMin _ _ _ _ => []
      | .receive f _ h => [f] ++ (match h with | .routerOps _ _ to => to.toList ++ allPairs | _ => []))
  | .factory s _ _ => [s, st.w.facAddr]
  -- a spender moving an owner's tokens with its allowance: the spender, the owner (it consented by granting the
  -- allowance), the destination, and for `SendFrom` whatever the `Send` hook touches
  | .tokTransferFrom _ sp o d _ => [sp, o, d]
  | .tokBurnFrom _ sp o _ => [sp, o]
  | .tokDecAllow _ o _ _ => [o]
  | .tokSendFrom _ sp o d _ h =>
    [sp, o, d] ++ (match h with
      | .swap _ _ _ _ to => to.toList
      | .withdraw => lpOf d
      | .routerOps _ _ to => to.toList ++ allPairs ++ [st.w.router]
      | .garbage => [])

def fails (p note : String) (b : Bool) : List (String × String) := if b then [] else [(p, note)]

def hookAssets : Hook → List Asset
  | .swap a _ _ _ _ => [a]
  | .routerOps ops _ _ => ops.flatMap fun (a, b) => [a, b]
  | _ => []

/-- the assets an operation names -/
def opAssets : Op → List Asset
  | .tokTransfer t .. | .tokIncAllow t .. | .tokBurn t .. | .tokTransferFrom t .. | .tokBurnFrom t .. | .tokDecAllow t .. => [.token t]
  | .tokSend t _ _ _ h | .tokSendFrom t _ _ _ _ h => .token t :: hookAssets h
  | .bankSend _ _ cs => cs.map fun c => .native c.1
  | .pair _ _ f m => (f.map fun c => Asset.native c.1) ++ (match m with
      | .provide a _ b _ _ _ => [a, b]
      | .swap a _ _ _ _ => [a]
      | .receive _ _ h => hookAssets h
      | .updateDecimals .. => [])
  | .router _ f m => (f.map fun c => Asset.native c.1) ++ (match m with
      | .swapOps ops _ _ => ops.flatMap fun (a, b) => [a, b]
      | .swapOp a b _ => [a, b]
      | .assertMin a _ _ _ => [a]
      | .receive _ _ h => hookAssets h)
  | .factory _ f _ => f.map fun c => Asset.native c.1

/-- all property predicates evaluated on the implementation's before/after observations of one step.
`post = true`: the sequence has already diverged from the model (reported once); the oracles that read only the
implementation's observations keep running so that a concrete failing input is found, minus the standing
("at all times") ones, which would repeat on every later step; C01/C03 are judged with the known-finding tag decided
from the observed reserves (`obsWindowSwap`), and skipped on router routes, where that needs the model -/
def oracles (st : WorldSt) (pd : Pending) (post : Bool := false) : List (String × String) := Id.run do
  let mut out : List (String × String) := []
  -- Balances are observed for the users, the system contracts and the first eight pairs (with their LP tokens), and for the
  -- assets declared to the driver.  A step that involves an account or an asset *without* balance observations cannot be
  -- judged on balances (an absent observation is not a zero): the model comparison still runs, the oracles stay silent.
  if (touched st pd.op).any (fun z => !st.acctSeen.contains z) || (opAssets pd.op).any (fun a => !st.assetSeen.contains a) then
    return []
  let changedBal := (st.changes.filter fun c => c.2.1 ≠ "").filterMap fun (k, o, n) =>
    match k.splitOn " " with
    | ["bal", a, who] => some (parseAsset a, who.toNatD, (n.toNatD : Int) - (o.toNatD : Int))
    | _ => none
  -- the pairs on which this step performs an in-window swap (known finding KF-SWAP-WINDOW): only a failure of C01 / C03
  -- on one of *those* pairs carries the tag
  let windowedO : Option (List Nat) :=
    if post then obsWindowSwap pd st
    else some (((swapsOn pd.wBefore pd.op).filter fun (_, x, y, a) => inWindow x y a).map (·.1))
  let kwOf (p : Nat) : String := if (windowedO.getD []).contains p then "known=KF-SWAP-WINDOW " else ""
  -- a failed call changes nothing
  if !pd.implOk then
    if !(st.changes.filter fun c => c.2.1 ≠ "").isEmpty then
      out := out ++ [(atomicityProp pd.op, s!"a rejected call changed {(st.changes.head?.map (·.1)).getD ""}")]
  -- C10 / C15, completeness: a call rejected *by the guard* lies outside the bound the property allows.
  -- The would-be amounts of a rejected swap are those of the pair's own quote taken immediately before,
  -- used only when they satisfy the C06 bracket on the observed reserves.
  if pd.implRes == "fail:guard" then
    match pd.op with
    | .pair _ p funds (.provide as0 am0 as1 am1 tolO _) =>
      match pairViewR st p, tolO with
      | some v, some t =>
        let d0 := if as0 = v.a0 then am0 else am1
        let d1 := if as0 = v.a1 then am0 else am1
        let (r0, r1, _) := poolOf (curVal st s!"pool {p}")
        let _ := funds
        if (as0 = v.a0 && as1 = v.a1 || as0 = v.a1 && as1 = v.a0) && r0 > 0 && r1 > 0 && d0 > 0 && d1 > 0 then
          out := out ++ fails "C15" s!"provision rejected by the slippage guard inside the tolerance: d=({d0},{d1}) r=({r0},{r1}) t={t}"
            (decide (t ≤ E) && Spec.c15Complete t d0 d1 r0 r1)
      | some _, none => out := out ++ [("C15", "slippage-guard rejection without a tolerance")]
      | _, _ => pure ()
    | _ =>
      let sw : Option (Nat × Asset × Nat × Option Nat × Option Nat × List (Nat × Nat)) := match pd.op with
        | .pair _ p funds (.swap offer amt b m _) => some (p, offer, amt, b, m, funds)
        | .tokSend _ _ d amt (.swap offer _ b m _) => if st.pairsSeen.contains d then some (d, offer, amt, b, m, []) else none
        | .tokSendFrom _ _ _ d amt (.swap offer _ b m _) => if st.pairsSeen.contains d then some (d, offer, amt, b, m, []) else none
        | _ => none
      match sw with
      | some (p, offer, amt, belief, msO, funds) =>
        match pairViewR st p, st.lastSim with
        | some v, some (qp, qo, qa, qres) =>
          if qp = p && qo = offer && qa = amt && (funds.filter (fun c => Asset.native c.1 ≠ offer)).isEmpty then
            match qres.splitOn " " with
            | ["ok", nS, sS, kS] =>
              let (n, sp, k) := (nS.toNatD, sS.toNatD, kS.toNatD)
              let (r0, r1, _) := poolOf (curVal st s!"pool {p}")
              let x := if offer = v.a0 then r0 else r1
              let y := if offer = v.a0 then r1 else r0
              let od := if offer = v.a0 then v.d0 else v.d1
              let rd := if offer = v.a0 then v.d1 else v.d0
              if (offer = v.a0 || offer = v.a1) && v.comm ≤ E && Spec.c06 x y amt v.comm n sp k then
                match normSpread amt n sp od rd, msO, belief with
                | .ok (o', r', _), some m, some bp =>
                  if bp > 0 then
                    out := out ++ fails "C10" s!"swap rejected by the spread guard inside the belief-price bound (quote {n}, decimals {od}/{rd})"
                      (Spec.c10BeliefComplete o' r' bp m)
                | .ok (_, r', s'), some m, none =>
                  if r' + s' > 0 then
                    out := out ++ fails "C10" s!"swap rejected by the spread guard inside max_spread (quote {n} {sp}, decimals {od}/{rd})"
                      (Spec.c10SpreadComplete r' s' m)
                | .ok _, none, _ => out := out ++ [("C10", "spread-guard rejection without max_spread")]
                | _, _, _ => pure ()
            | _ => pure ()
        | _, _ => pure ()
      | none => pure ()
  -- C03: reserve0*reserve1/S^2 never decreases while the supply is positive (every pair, every step)
  for p in (if windowedO.isNone then [] else st.pairsSeen) do
    let (r0, r1, S) := poolOf (prevValFirst st s!"pool {p}")
    let (r0', r1', S') := poolOf (curVal st s!"pool {p}")
    if S > 0 && poolReadable (curVal st s!"pool {p}") then
      if !(decide (0 < S') && decide (r0 * r1 * (S' * S') ≤ r0' * r1' * (S * S))) then
        out := out ++ [("C03", s!"{kwOf p}share value of pair {p} decreased: ({r0},{r1},{S}) -> ({r0'},{r1'},{S'})")]
  if pd.implOk then
    -- C07: frame and conservation
    let tch := touched st pd.op
    for (a, who, _) in changedBal do
      if !tch.contains who then
        out := out ++ [("C07", s!"balance of bystander {who} in {showAsset a} changed")]
    -- C07: the designated receiver's balances can only increase
    let rcvs : List Nat := match pd.op with
      | .pair _ _ _ (.provide _ _ _ _ _ r) => r.toList
      | .pair _ _ _ (.swap _ _ _ _ t) => t.toList
      | .pair _ _ _ (.receive _ _ h) => h.receivers
      | .tokSend _ _ _ _ h => h.receivers
      | .tokSendFrom _ _ _ _ _ h => h.receivers
      | .router _ _ (.swapOps _ _ t) => t.toList
      | .router _ _ (.swapOp _ _ t) => t.toList
      | .router _ _ (.receive _ _ h) => h.receivers
      | _ => []
    let actor := actorOf pd.op
    for (a, who, d) in changedBal do
      if rcvs.contains who && who ≠ actor && !(ownersOf pd.op).contains who && !st.pairsSeen.contains who
         && who ≠ st.w.router && who ≠ st.w.facAddr
         && (match pd.op with | .pair _ _ _ (.receive f _ _) => who ≠ f | .router _ _ (.receive f _ _) => who ≠ f | _ => true)
         && d < 0 then
        out := out ++ [("C07", s!"balance of the designated receiver {who} in {showAsset a} fell by {-d}")]
    -- C07: the LP token's own address takes part in a provision / withdrawal only as holder of the reserved LP unit:
    -- its balance of any *other* asset must not move (unless it is the designated receiver)
    let lpOp := match pd.op with
      | .tokSend _ _ _ _ .withdraw => true
      | .tokSendFrom _ _ _ _ _ .withdraw => true
      | .pair _ _ _ (.provide ..) => true
      | .pair _ _ _ (.receive _ _ .withdraw) => true
      | _ => false
    if lpOp then
      for (a, who, _) in changedBal do
        if (st.lpFirst.any fun x => x.2 = who) && a ≠ .token who && !rcvs.contains who && who ≠ actor
           && !(ownersOf pd.op).contains who then
          out := out ++ [("C07", s!"balance of the LP token contract {who} in {showAsset a} changed")]
    -- balances are observed for the first eight pairs only: a route that reaches a later pair through the registry moves
    -- coins into an unobserved account, so the sums say nothing then
    let isRouteOp := match pd.op with
      | .router .. => true
      | .tokSend _ _ _ _ (.routerOps ..) => true
      | .tokSendFrom _ _ _ _ _ (.routerOps ..) => true
      | _ => false
    let assets := if isRouteOp && st.pairsSeen.length > 8 then [] else (changedBal.map (·.1)).eraseDups
    for a in assets do
      let sum := (changedBal.filter (fun c => c.1 = a)).foldl (fun s c => s + c.2.2) (0 : Int)
      match a with
      | .native _ => if sum ≠ 0 then out := out ++ [("C07", s!"total of {showAsset a} changed by {sum}")]
      | .token t =>
        let ds : Int := ((curVal st s!"supply {t}").toNatD : Int) - ((prevValFirst st s!"supply {t}").toNatD : Int)
        if sum ≠ ds then out := out ++ [("C07", s!"balances of {showAsset a} changed by {sum} but supply by {ds}")]
        match isLpToken st t with
        | none =>
          -- a burn of a holder's tokens: by the holder, or by a spender with its allowance
          let ownBurn := match pd.op with | .tokBurn .. => true | .tokBurnFrom .. => true | _ => false
          if ds ≠ 0 && !ownBurn then out := out ++ [("C07", s!"supply of non-LP token {t} changed")]
        | some _ =>
          let lpOk := match pd.op with
            | .pair _ _ _ (.provide ..) => true
            | .tokSend _ _ _ _ .withdraw => true
            | .tokSendFrom _ _ _ _ _ .withdraw => true
            | .pair _ _ _ (.receive _ _ .withdraw) => true
            | .tokBurn .. => true              -- a holder burning its own LP tokens: cw20-base, outside C07
            | .tokBurnFrom .. => true          -- … or a spender burning them with the holder's allowance
            | _ => false
          if ds ≠ 0 && !lpOk then out := out ++ [("C07", s!"LP supply of {t} changed outside provide/withdraw")]
    -- swap-shaped steps
    -- `trader` is the sender the pair sees (the default receiver); `payer` is the account the offer comes from: the
    -- same account, except for `SendFrom`, where the trader is the SPENDER and the tokens come from the OWNER
    let swapInfo : Option (Nat × Nat × Nat × Asset × Nat × Option Nat × List (Nat × Nat) × Option Nat) :=
      match pd.op with
      | .pair s p funds (.swap offer amt _ _ to) => some (p, s, s, offer, amt, to, funds, none)
      | .tokSend t s d amt (.swap offer _ _ _ to) => if st.pairsSeen.contains d then some (d, s, s, offer, amt, to, [], some t) else none
      | .tokSendFrom t sp ow d amt (.swap offer _ _ _ to) =>
        if st.pairsSeen.contains d then some (d, sp, ow, offer, amt, to, [], some t) else none
      | _ => none
    match swapInfo, okSwapVals pd.implRes with
    | some (p, trader, payer, offer, amt, to, funds, viaTok), some (o, n, s, k) =>
      match pairViewR st p with
      | some v =>
        let ask := if offer = v.a0 then v.a1 else v.a0
        let rcv := to.getD trader
        -- C02
        out := out ++ fails "C02" "offer asset is not an asset of the pair" (offer = v.a0 || offer = v.a1)
        out := out ++ fails "C02" "reported offer amount differs from the named amount" (o = amt)
        match viaTok with
         | some t =>
           out := out ++ fails "C02" "hook priced an asset other than the token that was sent" (offer = .token t)
           let declared := match pd.op with
             | .tokSend _ _ _ _ (.swap _ a _ _ _) => a
             | .tokSendFrom _ _ _ _ _ (.swap _ a _ _ _) => a
             | _ => amt
           out := out ++ fails "C02" "hook amount differs from the cw20 amount sent" (declared = amt)
         | none =>
           match offer with
            | .native d => out := out ++ fails "C09" "native offer not matched by attached funds" (firstCoin funds d = amt)
            | .token _ => out := out ++ [("C02", "execute-swap accepted a token offer (nothing was delivered in this transaction)")]
        if offer = v.a0 || offer = v.a1 then
          out := out ++ fails "C02" "pair's offer reserve did not rise by exactly the offered amount"
            (delta st offer p = (amt : Int) + (if viaTok.isSome then 0 else (fundsOf funds offer : Int) - (amt : Int)) && (viaTok.isSome || fundsOf funds offer = amt))
          out := out ++ fails "C02" "pair's ask reserve did not fall by exactly the reported return"
            (delta st ask p = (fundsOf funds ask : Int) - (if rcv = p then 0 else (n : Int)))
          if rcv ≠ p then
            out := out ++ fails "C02" "receiver was not credited exactly the reported return"
              (delta st ask rcv = (n : Int) - (if rcv = trader then (fundsOf funds ask : Int) else 0))
          if payer ≠ p && payer ≠ rcv then
            out := out ++ fails "C02" "trader did not pay exactly the offered amount"
              (delta st offer payer = -((if viaTok.isSome then amt else fundsOf funds offer) : Int))
          -- C01 at system level (actual reserves before and after)
          let (r0, r1, _) := poolOf (prevValFirst st s!"pool {p}")
          let (r0', r1', _) := poolOf (curVal st s!"pool {p}")
          let askAfter := if ask = v.a1 then r1' else r0'
          let askBefore := if ask = v.a1 then r1 else r0
          if windowedO.isSome && !(decide (r0 * r1 ≤ r0' * r1') && (decide (0 < askAfter) || askBefore = 0)) then
            out := out ++ [("C01", s!"{kwOf p}reserve product fell or ask reserve emptied: ({r0},{r1}) -> ({r0'},{r1'})")]
          -- C06 on reported amounts
          let x := if offer = v.a0 then r0 else r1
          let y := (if offer = v.a0 then r1 else r0) + fundsOf funds ask
          if v.comm ≤ E then
            out := out ++ fails "C06" "reported swap amounts violate the price bracket" (Spec.c06 x y amt v.comm n s k)
          -- C10: an accepted swap honours max_spread / belief_price (reported amounts, the pair's own decimals)
          let (belief, msO) : Option Nat × Option Nat := match pd.op with
            | .pair _ _ _ (.swap _ _ b m _) => (b, m)
            | .tokSend _ _ _ _ (.swap _ _ b m _) => (b, m)
            | .tokSendFrom _ _ _ _ _ (.swap _ _ b m _) => (b, m)
            | _ => (none, none)
          let od := if offer = v.a0 then v.d0 else v.d1
          let rd := if offer = v.a0 then v.d1 else v.d0
          match normSpread amt n s od rd, msO, belief with
           | .ok (o', r', _), some m, some bp =>
             if bp > 0 then
               out := out ++ fails "C10" s!"swap accepted outside the belief-price bound (decimals {od}/{rd})" (Spec.c10BeliefSound o' r' bp m)
           | .ok (_, r', s'), some m, none =>
             if r' + s' > 0 then
               out := out ++ fails "C10" s!"swap accepted outside max_spread (decimals {od}/{rd})" (Spec.c10SpreadSound r' s' m)
           | _, _, _ => pure ()
          -- C12: the quote taken immediately before equals the execution
          match st.lastSim with
           | some (qp, qo, qa, qres) =>
             -- "the same offer" is the offer the swap reports it priced
             if qp = p && qo = offer && qa = o && (funds.filter (fun c => Asset.native c.1 ≠ offer)).isEmpty then
               out := out ++ fails "C12" s!"simulation ({qres}) differs from the executed swap" (qres = s!"ok {n} {s} {k}")
           | none => pure ()
      | none => pure ()
    | _, _ => pure ()
    -- provide
    match pd.op with
    | .pair s p funds (.provide as0 am0 as1 am1 _ rcvO) =>
      match pairViewR st p, pd.implRes.splitOn " " with
      | some v, ["ok", "share", mStr] =>
        let m := mStr.toNatD
        let d0 := if as0 = v.a0 then am0 else am1
        let d1 := if as0 = v.a1 then am0 else am1
        let (r0, r1, S) := poolOf (prevValFirst st s!"pool {p}")
        let rcv := rcvO.getD s
        for (a, am) in [(as0, am0), (as1, am1)] do
          match a with
          | .native d => out := out ++ fails "C09" "declared native deposit not matched by attached funds" (firstCoin funds d = am)
          | .token _ => pure ()
        out := out ++ fails "C05" "pair did not receive exactly the declared deposits"
          (delta st v.a0 p = d0 && delta st v.a1 p = d1)
        if s ≠ p then
          out := out ++ fails "C05" "caller did not pay exactly the declared deposits"
            (delta st v.a0 s = -(d0 : Int) + (if rcv = s && v.a0 = .token v.lp then (m : Int) else 0) &&
             delta st v.a1 s = -(d1 : Int) + (if rcv = s && v.a1 = .token v.lp then (m : Int) else 0))
        match pd.op with
         | .pair _ _ _ (.provide _ _ _ _ (some t) _) =>
           if r0 > 0 && r1 > 0 && d0 > 0 && d1 > 0 then
             out := out ++ fails "C15" s!"provision accepted outside the slippage tolerance: d=({d0},{d1}) r=({r0},{r1}) t={t}"
               (Spec.c15Sound t d0 d1 r0 r1)
         | _ => pure ()
        let (_, _, S') := poolOf (curVal st s!"pool {p}")
        if S > 0 then
          out := out ++ fails "C05" "minted share outside the fair bracket" (Spec.c05Pos S d0 d1 r0 r1 m && decide (1 ≤ m))
          out := out ++ fails "C07" "LP supply changed by other than the minted share" (S' = S + m)
          out := out ++ fails "C05" "LP supply / receiver balance did not grow by the minted share"
            (S' = S + m && (rcv = p || delta st (.token v.lp) rcv = (m : Int) - (if rcv = s && (v.a0 = .token v.lp) then (d0 : Int) else 0) - (if rcv = s && (v.a1 = .token v.lp) then (d1 : Int) else 0)))
        else
          out := out ++ fails "C05" "first provision: gate or supply wrong"
            (Spec.c05Empty s { whitelist := v.wl, min0 := v.min0, min1 := v.min1 } d0 d1 S' && m + 1 = S' &&
             delta st (.token v.lp) v.lp = 1 + (if rcv = v.lp then (m : Int) else 0))
      | _, _ => pure ()
    | _ => pure ()
    -- withdraw
    -- `holder`: whose LP tokens are burnt; `payee`: the sender the pair sees, who is paid the refunds (the holder itself
    -- for `Send`, the SPENDER for `SendFrom`)
    let wd : Option (Nat × Nat × Nat × Nat × Nat) := match pd.op with
      | .tokSend t s d amt .withdraw => if st.pairsSeen.contains d then some (t, s, s, d, amt) else none
      | .tokSendFrom t sp ow d amt .withdraw => if st.pairsSeen.contains d then some (t, ow, sp, d, amt) else none
      | _ => none
    match wd, pd.implRes.splitOn " " with
    | some (t, holder, payee, p, a), ["ok", "refund", x0s, x1s] =>
      match pairViewR st p with
      | some v =>
        let (x0, x1) := (x0s.toNatD, x1s.toNatD)
        let (r0, r1, S) := poolOf (prevValFirst st s!"pool {p}")
        let (_, _, S') := poolOf (curVal st s!"pool {p}")
        out := out ++ fails "C14" "withdraw hook accepted from a token other than the pair's LP token" (t = v.lp)
        out := out ++ fails "C04" "refund outside the pro-rata bracket" (Spec.c04 r0 a S x0 && Spec.c04 r1 a S x1)
        out := out ++ fails "C07" "LP supply changed by other than the withdrawn amount" (S' + a = S)
        out := out ++ fails "C04" "LP supply / holder balance not reduced by exactly the burned amount"
          (S' + a = S && delta st (.token v.lp) holder = -(a : Int) + (if payee = holder && v.a0 = .token v.lp then (x0 : Int) else 0) + (if payee = holder && v.a1 = .token v.lp then (x1 : Int) else 0))
        if payee ≠ p then
          out := out ++ fails "C04" "holder was not paid exactly the reported refunds"
            ((v.a0 = .token v.lp || delta st v.a0 payee = x0) && (v.a1 = .token v.lp || delta st v.a1 payee = x1))
      | none => pure ()
    | _, _ => pure ()
    -- router
    -- `s`: the sender the router sees (the default recipient); `payer`: the account the input comes from (the same,
    -- except for `SendFrom`: the SPENDER is the sender, the OWNER pays)
    let rt : Option (Nat × Nat × List (Asset × Asset) × Option Nat × Option Nat × Nat × Asset × List (Nat × Nat)) := match pd.op with
      | .router s funds (.swapOps ops mn to) =>
        (match ops.head? with
         | some (o, _) => some (s, s, ops, mn, to, fundsOf funds o, o, funds)
         | none => some (s, s, [], mn, to, 0, .native 0, funds))
      | .tokSend t s d amt (.routerOps ops mn to) => if d = st.w.router then some (s, s, ops, mn, to, amt, .token t, []) else none
      | .tokSendFrom t sp ow d amt (.routerOps ops mn to) =>
        if d = st.w.router then some (sp, ow, ops, mn, to, amt, .token t, []) else none
      -- a raw `Receive` sent to the router by anybody: the route runs on whatever the router holds; the default
      -- recipient is the `sender` field of the forged message
      | .router _ rfunds (.receive f _ (.routerOps ops mn to)) =>
        if !rfunds.isEmpty then none else
        (match ops.head? with
         | some (o, _) => some (f, f, ops, mn, to, 0, o, [])
         | none => some (f, f, [], mn, to, 0, .native 0, []))
      | _ => none
    match rt with
    | some (s, payer, ops, mn, to, paidAmt, paidAsset, funds) =>
      match ops.getLast? with
      | some (_, target) =>
        let rcv := to.getD s
        -- what the recipient itself paid in the target asset during this transaction
        let paid : Int := if rcv = payer then (fundsOf funds target : Int) + (if funds.isEmpty && paidAsset = target then (paidAmt : Int) else 0) else 0
        let got : Int := delta st target rcv + paid
        match mn with
         | some m => out := out ++ fails "C11" s!"route succeeded but recipient got {got} < minimum {m}" (decide ((m : Int) ≤ got))
         | none => pure ()
        -- C13: an accepted route leaves exactly one dangling output (an ask no later hop offers; by asset text, as the
        -- code keys it) — index-based, independent of the model's `danglingAsks`
        let names := ops.map fun (a, b) => (nameOf st a, nameOf st b)
        let idx := List.range names.length
        let dangling := (idx.filterMap fun i =>
            let x := (names.getD i ("", "")).2
            if (idx.filter (fun j => decide (i < j))).all (fun j => (names.getD j ("", "")).1 != x) then some x else none).eraseDups
        out := out ++ fails "C13" s!"a route with {dangling.length} dangling output assets was accepted" (dangling.length == 1)
        -- C13: pure pass-through when pairs are distinct and the router held none of the route's assets
        let routeAssets := (ops.flatMap fun (a, b) => [a, b]).eraseDups
        let pairsOnRoute := ops.map fun (a, b) => (curVal st s!"reg {showAsset a} {showAsset b}").splitOn " " |>.head!
        let heldBefore := routeAssets.any fun a => balP st a st.w.router ≠ 0 && !(a = paidAsset && balP st a st.w.router = 0)
        let distinct := pairsOnRoute.eraseDups.length = pairsOnRoute.length
        let plainRcv := !st.pairsSeen.contains rcv && rcv ≠ st.w.router
        let firstOk := match ops.head? with | some (o, _) => o = paidAsset | none => false
        -- the caller's own extra coins would make the router hold a route asset at entry
        let onlyInput := funds.all fun c => Asset.native c.1 = paidAsset
        if distinct && !heldBefore && plainRcv && firstOk && onlyInput then
          for a in routeAssets do
            out := out ++ fails "C13" s!"router keeps a balance of {showAsset a} after the route" (balC st a st.w.router = 0)
          match st.lastRouteSim with
           | some (qa, qops, qres) =>
             if st.lastRouteDir == "rsimops" && qa = paidAmt && qops = ops then
               out := out ++ fails "C13" s!"recipient got {got}, router quoted {qres}" (qres = s!"ok {got}")
           | none => pure ()
          for a in routeAssets do
            if a ≠ target && !(rcv = payer && a = paidAsset) then
              out := out ++ fails "C13" s!"intermediate asset {showAsset a} reached the recipient" (delta st a rcv = 0)
      | none => out := out ++ [("C13", "an empty route was accepted")]
    | none => pure ()
    -- C14: privileged / internal entry points
    let prevOwner := (prevValFirst st "owner").toNatD
    match pd.op with
    | .factory s _ m =>
      out := out ++ fails "C14" "factory message accepted from a non-owner" (s = prevOwner)
      match m with
       | .updateConfig (some o) _ _ => out := out ++ fails "C14" "ownership did not follow the update" ((curVal st "owner").toNatD = o)
       | .createPair a0 a1 _ _ _ _ _ =>
         out := out ++ fails "C16" "a pair with two identical assets was created" (a0 ≠ a1)
         let had := prevValFirst st s!"reg {showAsset a0} {showAsset a1}"
         let had' := prevValFirst st s!"reg {showAsset a1} {showAsset a0}"
         out := out ++ fails "C16" "a pair for an already registered asset set was created" ((had == "" || had == "none") && (had' == "" || had' == "none"))
         -- decimals of a cw20 as the implementation's token reports them: the world's base tokens (from the `token`
         -- lines) or the LP token of an observed pair (`tdec` observation)
         let tokDec (t : Nat) : Option Nat := match st.tokDecimals.find? (·.1 = t) with
           | some x => some x.2
           | none => (prevValFirst st s!"tdec {t}").toNat?
         let created : Option PairView := match pd.implRes.splitOn " " with
           | ["ok", "created", np, _] => pairViewOf (curVal st s!"pair {np.toNatD}")
           | _ => none
         for (a, i) in [(a0, 0), (a1, 1)] do
           let recorded : Option Nat := created.map fun v => if i = 0 then v.d0 else v.d1
           match a with
           | .native d =>
             out := out ++ fails "C16" "pair created over an unregistered denom" (prevValFirst st s!"denom {d}" ≠ "-")
             match recorded, (prevValFirst st s!"denom {d}").toNat? with
              | some k, some k' => out := out ++ fails "C16" s!"pair records {k} decimals for denom {d}, registered with {k'}" (k = k')
              | _, _ => pure ()
           | .token t =>
             -- positively known not to be a contract: an address string that fails validation (the upper-case aliases);
             -- a token without a `tdec` observation (the LP token of a ninth or later pair) is simply not judged
             out := out ++ fails "C16" "pair created over an address that is not a live cw20" (!st.w.badAddr t)
             match recorded, tokDec t with
              | some k, some k' => out := out ++ fails "C16" s!"pair records {k} decimals for token {t}, which reports {k'}" (k = k')
              | _, _ => pure ()
       | .addDecimals d k =>
         out := out ++ fails "C17" "denom query does not report the new decimals" (curVal st s!"denom {d}" = toString k)
         for p in st.pairsSeen do
           match pairViewOf (curVal st s!"pair {p}") with
           | some v =>
             if v.a0 = .native d then out := out ++ fails "C17" s!"pair {p} not updated in first position" (v.d0 = k)
             if v.a1 = .native d then out := out ++ fails "C17" s!"pair {p} not updated in second position" (v.d1 = k)
           | none => pure ()
       | _ => pure ()
    | .pair s p _ (.updateDecimals _ _ _) =>
      out := out ++ fails "C14" "decimals update accepted from a caller other than the factory" (s = st.w.facAddr)
      let _ := p
    | .pair s p _ (.receive _ _ h) =>
      match pairViewOf (curVal st s!"pair {p}"), h with
       | some v, .withdraw => out := out ++ fails "C14" "withdraw hook accepted from a caller other than the LP token" (s = v.lp)
       | some v, .swap .. => out := out ++ fails "C14" "swap hook accepted from a caller that is not a cw20 asset of the pair" (v.a0 = .token s || v.a1 = .token s)
       | _, _ => out := out ++ [("C14", "malformed hook accepted")]
    | .tokSend t _ d _ (.swap ..) =>
      if st.pairsSeen.contains d then
        match pairViewOf (curVal st s!"pair {d}") with
        | some v => out := out ++ fails "C14" "swap hook accepted from a token that is not an asset of the pair" (v.a0 = .token t || v.a1 = .token t)
        | none => pure ()
    | .tokSendFrom t _ _ d _ (.swap ..) =>
      if st.pairsSeen.contains d then
        match pairViewOf (curVal st s!"pair {d}") with
        | some v => out := out ++ fails "C14" "swap hook accepted from a token that is not an asset of the pair" (v.a0 = .token t || v.a1 = .token t)
        | none => pure ()
    | .router _ _ (.receive _ _ .garbage) =>
      out := out ++ [("C14", "the router's Receive accepted a payload that is not a route (an internal or malformed message)")]
    | .tokSend _ _ d _ .garbage =>
      if d = st.w.router then
        out := out ++ [("C14", "the router's cw20 hook accepted a payload that is not a route (an internal or malformed message)")]
    | .router s _ (.swapOp ..) => out := out ++ fails "C14" "single-hop message accepted from outside the router" (s = st.w.router)
    | .router s _ (.assertMin ..) => out := out ++ fails "C14" "minimum-receive message accepted from outside the router" (s = st.w.router)
    | _ => pure ()
  else
    -- C20: a withdrawal whose entitlement is at least r/1e18 + 2 of each asset must succeed
    match pd.op with
    | .tokSend t holder p a .withdraw =>
      -- the pair's LP token as observed when the pair was created; reserves = the pair's actual balances
      match pairViewOf (curVal st s!"pair {p}"), st.lpFirst.lookup p with
      | some v, some lp =>
        let (r0, r1, S) := (balC st v.a0 p, balC st v.a1 p, (curVal st s!"supply {lp}").toNatD)
        let hb := balC st (.token t) holder
        if t = lp && holder ≠ p && 1 ≤ a && a ≤ hb && decide ((r0 + 2 * E) * S ≤ r0 * a * E) && decide ((r1 + 2 * E) * S ≤ r1 * a * E)
           && v.a0 ≠ .token lp && v.a1 ≠ .token lp then
          out := out ++ [("C20", s!"entitled withdrawal of {a} LP from pair {p} was rejected")]
      | _, _ => pure ()
    | _ => pure ()
  -- C16 / C17: factory record = pair self-description, in both orders, at all times; C19: listing complete
  if post then return out
  for p in st.pairsSeen do
    let pv := curVal st s!"pair {p}"
    match pairViewOf pv with
    | some v =>
      let ra := curVal st s!"reg {showAsset v.a0} {showAsset v.a1}"
      let rb := curVal st s!"reg {showAsset v.a1} {showAsset v.a0}"
      if ra ≠ "" && (ra ≠ pv || rb ≠ pv) then
        -- the state predicate is a clause of C16 ("… equal what the pair contract reports about itself") whatever
        -- operation broke it; when a decimals registration broke it, it is C17's conclusion as well
        let note := s!"factory record and self-description of pair {p} differ: [{ra}] [{rb}] vs [{pv}]"
        out := out ++ [("C16", note)]
        match pd.op with
        | .factory _ _ (.addDecimals ..) => out := out ++ [("C17", note)]
        | _ => pure ()
    | none => pure ()
  let listing := curVal st "listing"
  if listing ≠ "" then
    let l := natList listing
    if !(l.length = st.pairsSeen.length && st.pairsSeen.all (fun p => l.contains p) && l.eraseDups.length = l.length) then
      out := out ++ [("C19", s!"walking the pair list returned {listing}, registered pairs {st.pairsSeen}")]
  return out

/-- compare every observation key with the model, then run the oracles; returns report lines -/
def finalize (st : WorldSt) : WorldSt × List String × Option Verdict :=
  match st.pending with
  | none => (st, [], none)
  | some pd =>
    if st.desync then
      let orc := oracles st pd true
      let outs := orc.map fun (p, note) => s!"ORACLE-FAIL {p} {note} :: {pd.line}"
      let v : Verdict := { diverge := none, oracle := orc, nontrivial := pd.implOk, tags := ["post-divergence"] }
      ({ st with pending := none, changes := [], lastSim := none, lastRouteSim := none }, outs, if orc.isEmpty then none else some v)
    else
      let bad := st.keys.toList.filterMap fun k =>
        let mv := modelObs st.w k
        let iv := curVal st k
        if mv == iv then none else some s!"{k}: model={mv} impl={iv}"
      let orc := oracles st pd
      let div := if bad.isEmpty then none else some (";  ".intercalate (bad.take 4))
      let outs :=
        (match div with
         | some d => [s!"DIVERGE world-{st.family} model={d} :: {pd.line}"]
         | none => []) ++
        orc.map fun (p, note) => s!"ORACLE-FAIL {p} {note} :: {pd.line}"
      let v : Verdict := { diverge := div, oracle := orc, nontrivial := pd.implOk, tags := [pd.kind ++ (if pd.implOk then "+" else "-")] }
      -- a quote is compared with the one step that immediately follows it, never with a later one
      ({ st with pending := none, changes := [], desync := st.desync || div.isSome, lastSim := none, lastRouteSim := none }, outs, some v)

def kv (toks : List String) (k : String) : String :=
  match toks.find? (fun t => t.startsWith (k ++ "=")) with
  | some t => (t.drop (k.length + 1)).toString
  | none => ""

def refreshEnv (st : WorldSt) : WorldSt :=
  let raws := st.raws
  { st with w := { st.w with rawId := fun a => match raws.find? (fun e => e.1 = a) with | some e => e.2 | none => [] } }

def outStr : Out → String
  | .none => "ok"
  | .swap o => s!"ok swap {o.offer} {o.ret} {o.spread} {o.comm}"
  | .provide sh => s!"ok share {sh}"
  | .withdraw x0 x1 => s!"ok refund {x0} {x1}"

/-- one world-family line → new state, report lines, (family, verdict) for the statistics -/
def worldLine (st : WorldSt) (line : String) : WorldSt × List String × String × Option Verdict :=
  let toks := (line.splitOn " ").filter (· ≠ "")
  let fam := s!"world-{st.family}"
  match toks with
  | "begin" :: rest =>
    let (st1, outs, v) := finalize st
    let _ := st1
    ({ family := kv rest "family", seq := (kv rest "seq").toNatD }, outs, fam, v)
  | "end" :: _ =>
    let (st1, outs, v) := finalize st
    (st1, outs, fam, v)
  | "fac" :: f :: o :: rest =>
    -- fac <addr> owner=<addr> [pair_code=<n>] [token_code=<n>]: the code ids, when given, are both the
    -- configured ones and the ones under which the environment stores the pair / cw20 code
    let pc := kv rest "pair_code"
    let tc := kv rest "token_code"
    let w0 := st.w
    let w1 := if pc == "" then w0 else { w0 with pairCode := pc.toNatD, envPairCode := pc.toNatD }
    let w2 := if tc == "" then w1 else { w1 with tokenCode := tc.toNatD, envTokenCode := tc.toNatD }
    ({ st with w := { w2 with facAddr := f.toNatD, owner := ((o.drop 6).toString).toNatD } }, [], fam, none)
  | ["router", r] => ({ st with w := { st.w with router := r.toNatD } }, [], fam, none)
  | ["bad", a] =>
    -- bad <id>: the account id stands for an address string that fails `addr_validate` (environment fact)
    let id := a.toNatD
    let w0 := st.w
    ({ st with w := { w0 with badAddr := fun x => x == id || w0.badAddr x } }, [], fam, none)
  | ["asset", a, raw, nm] =>
    let asset := parseAsset a
    let rawB := unhex ((raw.drop 4).toString)
    let nmS := String.ofList ((unhex ((nm.drop 5).toString)).map Char.ofNat)
    let st' := { st with raws := (asset, rawB) :: st.raws.filter (fun e => e.1 ≠ asset),
                         names := (asset, nmS) :: st.names.filter (fun e => e.1 ≠ asset) }
    (refreshEnv st', [], fam, none)
  | ["token", t, dec, mint, sup] =>
    let tid := t.toNatD
    let T : Token := { bal := fun _ => 0, allow := fun _ _ => none, supply := ((sup.drop 7).toString).toNatD,
                       minter := optN ((mint.drop 7).toString), decimals := ((dec.drop 9).toString).toNatD }
    ({ st with w := setTok st.w tid T, tokDecimals := (tid, T.decimals) :: st.tokDecimals }, [], fam, none)
  | ["tbal", t, who, amt] =>
    (match st.w.tok t.toNatD with
     | some T =>
       let whoN := who.toNatD
       let a := amt.toNatD
       ({ st with w := setTok st.w t.toNatD { T with bal := fun x => if x = whoN then a else T.bal x } }, [], fam, none)
     | none => (st, [s!"DIVERGE {fam} model=unknown-token :: {line}"], fam, none))
  | ["bank", who, d, amt] =>
    let whoN := who.toNatD
    let dN := d.toNatD
    let a := amt.toNatD
    let b := st.w.bank
    ({ st with w := { st.w with bank := fun x y => if x = whoN ∧ y = dN then a else b x y } }, [], fam, none)
  | "unit" :: _ => (st, [], fam, none)
  | "obs" :: rest =>
    -- obs <key…> => <value…>
    (match line.splitOn " => " with
     | [lhs, val] =>
       let key := (lhs.drop 4).toString
       let _ := rest
       let old := st.cur.getD key ""
       let isNew := !st.cur.contains key
       let cur := st.cur.insert key val
       let pairsSeen := match key.splitOn " " with
         | ["pair", p] => if st.pairsSeen.contains p.toNatD then st.pairsSeen else st.pairsSeen ++ [p.toNatD]
         | _ => st.pairsSeen
       let lpFirst := match key.splitOn " " with
         | ["pair", p] =>
           if (st.lpFirst.lookup p.toNatD).isSome then st.lpFirst
           else match pairViewOf val with
             | some v => st.lpFirst ++ [(p.toNatD, v.lp)]
             | none => st.lpFirst
         | _ => st.lpFirst
       let (acctSeen, assetSeen) := match key.splitOn " " with
         | ["bal", a, who] =>
           ((if st.acctSeen.contains who.toNatD then st.acctSeen else who.toNatD :: st.acctSeen),
            (if st.assetSeen.contains (parseAsset a) then st.assetSeen else parseAsset a :: st.assetSeen))
         | _ => (st.acctSeen, st.assetSeen)
       ({ st with cur := cur, keys := if isNew then st.keys.push key else st.keys,
                  changes := if st.pending.isSome then (key, old, val) :: st.changes else st.changes,
                  pairsSeen := pairsSeen, lpFirst := lpFirst, acctSeen := acctSeen, assetSeen := assetSeen }, [], fam, none)
     | _ => (st, [s!"DIVERGE {fam} model=parse :: {line}"], fam, none))
  | "query" :: _ :: q =>
    let (st0, outs0, v0) := finalize st
    if st0.desync then (st0, outs0, fam, v0)
    else
      (match line.splitOn " => " with
       | [_, impl] =>
         let model : String := match q with
           | "sim" :: p :: a :: amt :: _ => res3 (qSimulation st0.w p.toNatD (parseAsset a) amt.toNatD)
           | "rsim" :: p :: a :: amt :: _ => res3 (qReverseSimulation st0.w p.toNatD (parseAsset a) amt.toNatD)
           | "rsimops" :: amt :: ops :: _ => res1 (routerSimulateTop st0.w amt.toNatD (parseOps ops))
           | "rrev" :: amt :: ops :: _ => res1 (routerReverseTop st0.w amt.toNatD (parseOps ops))
           | "rsimcomp" :: amt :: ops :: _ => res1 (routerSimulateTop st0.w amt.toNatD (parseOps ops))
           | "rrevcomp" :: amt :: ops :: _ => res1 (routerReverseTop st0.w amt.toNatD (parseOps ops))
           | "lookup" :: a :: b :: _ =>
             (match facLookup st0.w (parseAsset a) (parseAsset b) with
              | some R => s!"ok {pairInfoStr R.pair R.a0 R.a1 R.d0 R.d1 R.lp R.comm R.req}"
              | none => "ok none")
           | "pairs" :: start :: lim :: _ =>
             let cursor := if start == "-" then none else
               match start.splitOn "," with
               | [a, b] => some (pairKey (st0.w.rawId (parseAsset a)) (st0.w.rawId (parseAsset b)))
               | _ => none
             let pg := readPairs st0.w.registry cursor (optN lim)
             -- a cursor naming an asset that was never declared to the driver has no raw id here: not comparable
             let undeclared := match start.splitOn "," with
               | [a, b] => start != "-" && ((st0.w.rawId (parseAsset a)).isEmpty || (st0.w.rawId (parseAsset b)).isEmpty)
               | _ => false
             if undeclared then impl else
             s!"ok {wlStr (pg.map fun e => e.2.pair)}"
           | _ => "?"
         let same := if isFail model && isFail impl then true else model == impl
         let outs := if same then [] else [s!"DIVERGE {fam} model={model} :: {line}"]
         -- oracle bits on queries
         let orc : List (String × String) := match q with
           | "rsimcomp" :: amt :: ops :: _ | "rrevcomp" :: amt :: ops :: _ =>
             -- C12: the router's own answer (the query line just before, in the same direction) must equal the composition
             -- of the pairs' answers
             (match st0.lastRouteSim with
              | some (qa, qops, qres) =>
                if st0.lastRouteDir == (if q.head? == some "rsimcomp" then "rsimops" else "rrev") &&
                   qa = amt.toNatD && qops = parseOps ops && !isFail impl then
                  fails "C12" s!"router simulation ({qres}) differs from the hop-by-hop composition of the pair queries ({impl})" (qres == impl)
                else []
              | none => [])
           | "lookup" :: a :: b :: _ =>
             (match pairViewOf ((impl.drop 3).toString) with
              | some v =>
                let (x, y) := (parseAsset a, parseAsset b)
                -- assets are identified by kind and raw id (an address in another letter case is the same contract)
                let same (u v : Asset) : Bool :=
                  u = v || (match u, v with
                    | .token _, .token _ => st0.w.rawId u == st0.w.rawId v && !(st0.w.rawId u).isEmpty
                    | _, _ => false)
                fails "C16" s!"lookup of [{a},{b}] resolves to pair {v.p} over a different asset set"
                  ((same v.a0 x && same v.a1 y) || (same v.a0 y && same v.a1 x))
              | none => [])
           | "pairs" :: _ :: lim :: _ =>
             (match impl.splitOn " " with
              | ["ok", l] =>
                let n := (natList l).length
                fails "C19" "a page exceeds 30 entries or the default of 10" (n ≤ 30 && (lim ≠ "-" || n ≤ 10) && (match optN lim with | some k => n ≤ k | none => true))
              | _ => [])
           | "rsim" :: p :: a :: amt :: _ =>
             (match okVals impl, pairViewOf (curVal st0 s!"pair {p}") with
              | some [o, _, _], some v =>
                let (r0, r1, _) := poolOf (curVal st0 s!"pool {p}")
                let ask := parseAsset a
                let (x, y) := if ask = v.a0 then (r1, r0) else (r0, r1)
                if (ask = v.a0 || ask = v.a1) && Spec.c12Domain y amt.toNatD v.comm then
                  fails "C12" "reverse simulation outside the closed-form bracket"
                    (Spec.c12Reverse x y amt.toNatD v.comm o && Spec.c12ReverseLower x y amt.toNatD v.comm o)
                else []
              | _, _ => [])
           | _ => []
         let outs := outs ++ orc.map fun (p, note) => s!"ORACLE-FAIL {p} {note} :: {line}"
         let st1 := match q with
           | "sim" :: p :: a :: amt :: _ => { st0 with lastSim := some (p.toNatD, parseAsset a, amt.toNatD, impl) }
           | "rsimops" :: amt :: ops :: _ => { st0 with lastRouteSim := some (amt.toNatD, parseOps ops, impl), lastRouteDir := "rsimops" }
           | "rrev" :: amt :: ops :: _ => { st0 with lastRouteSim := some (amt.toNatD, parseOps ops, impl), lastRouteDir := "rrev" }
           | _ => st0
         let v : Verdict := { diverge := if same then none else some model, oracle := orc, nontrivial := !isFail impl, tags := ["query"] }
         (st1, outs0 ++ outs, fam, some v)
       | _ => (st0, outs0 ++ [s!"DIVERGE {fam} model=parse :: {line}"], fam, v0))
  | "step" :: _ :: _ :: opToks =>
    let (st0, outs0, v0) := finalize st
    if st0.desync then
      -- model and implementation no longer share a state: the model is not run any more, but the step is kept
      -- pending so that the implementation-only oracles (`oracles … (post := true)`) still see it
      (match line.splitOn " => " with
       | [lhs, impl] =>
         let opT := ((lhs.splitOn " ").filter (· ≠ "")).drop 3
         match parseOp opT with
         | none => (st0, outs0, fam, v0)
         | some op0 =>
           let op := match op0, impl.splitOn " " with
             | .factory s f (.createPair a0 a1 req c ld _ _), ["ok", "created", np, nl] => Op.factory s f (.createPair a0 a1 req c ld np.toNatD nl.toNatD)
             | o, _ => o
           let pd : Pending := { line := line, op := op, kind := opT.headD "?", implOk := impl.startsWith "ok", implRes := impl,
                                 wBefore := st0.w, modelOk := true }
           ({ st0 with pending := some pd, changes := [] }, outs0, fam, v0)
       | _ => (st0, outs0, fam, v0))
    else
      (match line.splitOn " => " with
       | [lhs, impl] =>
         let opT := ((lhs.splitOn " ").filter (· ≠ "")).drop 3
         let _ := opToks
         match parseOp opT with
         | none => (st0, outs0 ++ [s!"DIVERGE {fam} model=unparsed-op :: {line}"], fam, v0)
         | some op0 =>
           -- the addresses a CreatePair allocates are environment inputs, taken from the implementation's result
           let op := match op0, impl.splitOn " " with
             | .factory s f (.createPair a0 a1 req c ld _ _), ["ok", "created", np, nl] => Op.factory s f (.createPair a0 a1 req c ld np.toNatD nl.toNatD)
             | o, _ => o
           let name := nameOf st0
           let implOk := impl.startsWith "ok"
           -- cw20-base validates the recipient / spender *string* of Transfer, TransferFrom and IncreaseAllowance; the model's
           -- ledger primitives do not look at address validity, so the driver applies that rule here
           let cw20Bad := match op with
             | .tokTransfer _ _ d _ => st0.w.badAddr d
             | .tokIncAllow _ _ sp _ => st0.w.badAddr sp
             | .tokTransferFrom _ _ _ d _ => st0.w.badAddr d
             | _ => false
           let r := if cw20Bad then .error .err else exec name st0.w op
           -- outside the model: a pair migrated to an existing code that is not the pair code (it then runs foreign code)
           let foreignMigrate := match op with
             | .factory _ _ (.migratePair _ c) => implOk && c.getD st0.w.pairCode ≠ st0.w.envPairCode
             -- the test bank accepts a transfer to an address string a chain would reject (and then cannot report its
             -- balance): an artefact of the test environment, not a state of the system
             | .bankSend _ d _ => implOk && st0.w.badAddr d
             | _ => false
           let (modelStr, w') : String × World := match r with
             | .ok (w', out) =>
               (match op, impl.splitOn " " with
                | .factory _ _ (.createPair ..), ["ok", "created", np, nl] => (s!"ok created {np} {nl}", w')
                | _, _ => (outStr out, w'))
             | .error .guard => ("fail:guard", st0.w)
             | .error _ => ("fail", st0.w)
           let sameRes :=
             if isFail modelStr && isFail impl then (modelStr == "fail:guard") == (impl == "fail:guard")
             else modelStr == impl
           let kind := opT.headD "?"
           let pd : Pending := { line := line, op := op, kind := kind, implOk := implOk, implRes := impl, wBefore := st0.w,
                                 modelOk := !isFail modelStr }
           let st1 := { st0 with w := w', pending := some pd, changes := [],
                                 lastSim := if kind == "pair_swap" || kind == "tok_send" || kind == "tok_send_from" then st0.lastSim else none }
           if foreignMigrate then
             -- not a divergence: the model has no state for a pair that runs foreign code; the rest of the sequence is
             -- no longer compared (nor judged)
             ({ st0 with pending := none, changes := [], desync := true }, outs0, fam, v0)
           else if sameRes then (st1, outs0, fam, v0)
           else
             -- result mismatch: report now; the observations of this step are still read by the oracle, then the
             -- sequence is abandoned (model and implementation no longer share a state)
             let st2 := { st1 with w := st0.w }
             (st2, outs0 ++ [s!"DIVERGE {fam} model={modelStr} :: {line}"], fam, v0)
       | _ => (st0, outs0 ++ [s!"DIVERGE {fam} model=parse :: {line}"], fam, v0))
  | _ => (st, [s!"DIVERGE {fam} model=unknown-line :: {line}"], fam, none)

end Halo.Driver
