import Halo.Driver.Basic
namespace Halo.Driver
/-- driver-side world state (filled in by the world families) -/
structure WorldSt where
  dummy : Nat := 0
def worldLine (ws : WorldSt) (_line : String) : WorldSt × List String × String × Option Verdict :=
  (ws, [], "world", none)
end Halo.Driver
