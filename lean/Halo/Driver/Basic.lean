/- Driver basics: verdict record, token parsing, result formatting. -/
import Halo.Spec

namespace Halo.Driver
open Halo

/-- outcome of one line -/
structure Verdict where
  diverge : Option String := none          -- model result, when it differs from the implementation's
  oracle : List (String × String) := []    -- (property, note) for every failed predicate
  nontrivial : Bool := false               -- the model took a non-trivial path (ok result)
  tags : List String := []                 -- branch / region tags for the input distribution
  deriving Inhabited

def nat! (s : String) : Nat := s.toNat!
def optNat (s : String) : Option Nat := if s == "-" then none else some s.toNat!
def natList (s : String) : List Nat := if s == "-" then [] else (s.splitOn ",").map nat!
def coinList (s : String) : List (Nat × Nat) :=
  if s == "-" then [] else (s.splitOn ",").map fun c =>
    match c.splitOn ":" with
    | [d, a] => (d.toNat!, a.toNat!)
    | _ => (0, 0)

def showNats (xs : List Nat) : String := " ".intercalate (xs.map toString)

def res3 : M (Nat × Nat × Nat) → String
  | .ok (a, b, c) => s!"ok {a} {b} {c}"
  | .error _ => "fail"
def res1 : M Nat → String
  | .ok a => s!"ok {a}"
  | .error _ => "fail"
def resU : M Unit → String
  | .ok _ => "ok"
  | .error .guard => "fail:guard"
  | .error _ => "fail"

def cmpCode (a b : Nat) : Nat := if a < b then 0 else if a = b then 1 else 2

/-- split `ok v1 v2 …` into numbers -/
def okVals (impl : String) : Option (List Nat) :=
  match impl.splitOn " " with
  | "ok" :: vs => some (vs.map nat!)
  | _ => none

def isFail (s : String) : Bool := s.startsWith "fail"

/-- equality of results; the failure *kind* is compared only where a property speaks about it -/
def sameResult (guardSensitive : Bool) (model impl : String) : Bool :=
  if isFail model && isFail impl then
    if guardSensitive then (model == "fail:guard") == (impl == "fail:guard") else true
  else model == impl

def mk (guardSensitive : Bool) (model impl : String) (oracle : List (String × String))
    (tags : List String := []) : Verdict :=
  { diverge := if sameResult guardSensitive model impl then none else some model
    oracle := oracle
    nontrivial := !isFail model
    tags := tags }

def chk (prop : String) (note : String) (b : Bool) : List (String × String) :=
  if b then [] else [(prop, note)]


end Halo.Driver
