/-
Driver, function families: parse one `fn <family> <args…> => <impl result>` line, run the model,
compare (correspondence) and evaluate the property predicates of `Halo.Spec` on the
implementation's output (oracle).
-/
import Halo.Driver.Basic
import Halo.Driver.TextFam
import Halo.Driver.RegistryFam

namespace Halo.Driver
open Halo

def bignumModel (op : String) (a : List String) : String :=
  let x := nat! (a.getD 0 "0")
  let y := nat! (a.getD 1 "0")
  let z := nat! (a.getD 2 "0")
  match op with
  | "dec_add" | "dec_add_assign" => res1 (Dec.add x y)
  | "dec_sub" => res1 (Dec.sub x y)
  | "dec_mul" => res1 (Dec.mul x y)
  | "dec_div" => res1 (Dec.div x y)
  | "dec_from_ratio" => res1 (Dec.fromRatio x y)
  | "dec_from_uint" => res1 (Dec.fromUint x)
  | "dec_percent" => res1 (Dec.percent x)
  | "dec_permille" => res1 (Dec.permille x)
  | "dec_is_zero" | "uint_is_zero" => s!"ok {if x = 0 then 1 else 0}"
  | "uint_add" | "uint_add_assign" => res1 (Uint.add x y)
  | "uint_sub" => res1 (Uint.sub x y)
  | "uint_mul" => res1 (Uint.mul x y)
  | "uint_mul_dec" => res1 (Uint.mulDec x y)
  | "dec_mul_uint" => res1 (Uint.mulDec y x)
  | "uint_div_dec" => res1 (Uint.divDec x y)
  | "uint_mul_ratio" => res1 (Uint.mulRatio x y z)
  | "uint_cmp" | "dec_cmp" => s!"ok {cmpCode x y}"
  | "uint_to_u128" | "uint_to_uint128" | "dec_to_std" => res1 (toU128 x)
  | "uint_from_u128" =>
      let l := Limbs.ofU128 x
      s!"ok {l.value} {l.l0} {l.l1} {l.l2} {l.l3}"
  | "uint_from_uint128" => s!"ok {ofU128 x}"
  | "uint_from_u64" | "dec_from_std" => s!"ok {x}"
  | "consts" => s!"ok {E} 0 {Limbs.decimalFractional.value} 1 0"
  | _ => "unknown-op"

/-- C08 oracle, independent of the model's `Except` functions: the exact mathematical result of an
operation (rounded toward zero where the result type requires) and the only conditions under which it may
abort: an operand product / sum / the result ≥ 2^256, a zero divisor, a negative difference -/
def bignumExact (op : String) (x y z : Nat) : Option (Nat × Bool) :=
  -- (exact value, abort permitted)
  match op with
  | "dec_add" | "dec_add_assign" | "uint_add" | "uint_add_assign" => some (x + y, decide (U ≤ x + y))
  | "dec_sub" | "uint_sub" => some (x - y, decide (x < y))
  | "dec_mul" => some (x * y / E, decide (U ≤ x * y))
  | "dec_div" => some (if y = 0 then 0 else x * E / y, decide (y = 0) || decide (U ≤ x * E))
  | "dec_from_ratio" => some (if y = 0 then 0 else x * E / y, decide (y = 0) || decide (U ≤ x * E))
  | "dec_from_uint" => some (x * E, decide (U ≤ x * E))
  | "uint_mul" => some (x * y, decide (U ≤ x * y))
  | "uint_mul_dec" | "dec_mul_uint" => some (x * y / E, decide (U ≤ x * y))
  | "uint_div_dec" => some (if y = 0 then 0 else x * E / y, decide (y = 0) || decide (U ≤ x * E))
  | "uint_mul_ratio" => some (if z = 0 then 0 else x * y / z, decide (z = 0) || decide (U ≤ x * y))
  | "uint_cmp" | "dec_cmp" => some (cmpCode x y, false)
  | "uint_to_u128" | "uint_to_uint128" | "dec_to_std" => some (x, decide (W ≤ x))
  | "uint_from_uint128" | "uint_from_u64" | "dec_from_std" => some (x, false)
  | _ => none

/-- does the exact result exist (no zero divisor, no negative difference) and fit the result type? -/
def bignumMustAbort (op : String) (x y z exact : Nat) : Bool :=
  match op with
  | "dec_sub" | "uint_sub" => decide (x < y)
  | "dec_div" | "dec_from_ratio" | "uint_div_dec" => decide (y = 0) || decide (U ≤ exact)
  | "uint_mul_ratio" => decide (z = 0) || decide (U ≤ exact)
  | "uint_to_u128" | "uint_to_uint128" | "dec_to_std" => decide (W ≤ exact)
  | _ => decide (U ≤ exact)

def bignumOracle (op : String) (a : List String) (impl : String) : List (String × String) :=
  let x := nat! (a.getD 0 "0")
  let y := nat! (a.getD 1 "0")
  let z := nat! (a.getD 2 "0")
  match bignumExact op x y z with
  | none => []
  | some (exact, mayAbort) =>
    match okVals impl with
    | some (r :: _) =>
      -- a returned value must be the exact result; where no exact result exists or it does not fit, only an abort is
      -- right (an overflowing *intermediate* product permits an abort but does not demand one)
      if bignumMustAbort op x y z exact then
        [("C08", "returned a value where it had to abort: the exact result does not exist or does not fit the result type")]
      else if r != exact then [("C08", s!"returned {r}, exact result is {exact}")] else []
    | _ => if mayAbort then [] else [("C08", "aborted although the exact result exists and no operand product or result exceeds 256 bits")]

def fnLine (family : String) (a : List String) (impl : String) : Verdict :=
  let g (i : Nat) : Nat := nat! (a.getD i "0")
  match family with
  | "compute_swap" =>
    let (x, y, av, c) := (g 0, g 1, g 2, g 3)
    let model := res3 (computeSwap x y av c)
    let win := inWindow x y av
    let oracle := match okVals impl with
      | some [n, s, k] =>
        (if Spec.c01 x y av n then []
         else
           -- known finding KF-SWAP-WINDOW: in-window input, gross output exactly one above ⌊y·a/(x+a)⌋
           if win && (n + k == y * av / (x + av) + 1) then [("C01", "known=KF-SWAP-WINDOW")]
           else [("C01", "payout above y*a/(x+a)")]) ++
        (if c ≤ E then chk "C06" "bracket/commission/spread identity" (Spec.c06 x y av c n s k) else [])
      | _ => []
    mk false model impl oracle
      ((if win then ["window"] else []) ++ (if x + av ≤ E then ["shallow"] else ["deep"]))
  | "compute_swap_mono" =>
    let (x, y, a1, a2, c) := (g 0, g 1, g 2, g 3, g 4)
    let model := match computeSwap x y a1 c, computeSwap x y a2 c with
      | .ok (n, _, _), .ok (n2, _, _) => s!"ok {n} {n2}"
      | _, _ => "fail"
    let oracle := match okVals impl with
      | some [n, n2] => if c ≤ E ∧ a1 ≤ a2 then chk "C06" "monotonicity" (decide (n ≤ n2)) else []
      | _ => []
    mk false model impl oracle
  | "compute_offer_amount" =>
    let (x, y, b, c) := (g 0, g 1, g 2, g 3)
    let model := res3 (computeOfferAmount x y b c)
    let dom := decide (c < E) && decide (b * E < y * (E - c))
    let oracle := match okVals impl with
      | some [o, _, _] =>
        if dom then chk "C12" "reverse quote above closed form" (Spec.c12Reverse x y b c o) ++
                    chk "C12" "reverse quote below the closed form by more than its rounding bound" (Spec.c12ReverseLower x y b c o)
        else []
      | _ => []
    mk false model impl oracle (if dom then ["domain"] else ["off-domain"])
  | "lp_share" =>
    let sender := g 0
    let req : Requirements := { whitelist := natList (a.getD 1 "-"), min0 := g 2, min1 := g 3 }
    let (S, d0, d1, r0, r1) := (g 4, g 5, g 6, g 7, g 8)
    let model := res1 (lpShare sender req S d0 d1 r0 r1)
    let oracle := match okVals impl with
      | some [m] =>
        if S = 0 then chk "C05" "first provision" (Spec.c05Empty sender req d0 d1 m)
        else chk "C05" "share bracket" (Spec.c05Pos S d0 d1 r0 r1 m)
      | _ => []
    mk false model impl oracle (if S = 0 then ["empty"] else ["positive"])
  | "refund" =>
    let (r, av, S) := (g 0, g 1, g 2)
    let model := res1 (withdrawRefund r av S)
    let oracle := match okVals impl with
      | some [x] => if 1 ≤ av ∧ av ≤ S then chk "C04" "refund bracket" (Spec.c04 r av S x) else []
      | _ => if 1 ≤ av ∧ av ≤ S ∧ r < W then [("C20", "refund arithmetic aborts on a legal burn")] else []
    mk false model impl oracle
  | "max_spread" =>
    let belief := optNat (a.getD 0 "-")
    let ms := optNat (a.getD 1 "-")
    let (offer, ret, spread, od, rd) := (g 2, g 3, g 4, g 5, g 6)
    let model := resU (assertMaxSpread belief ms offer ret spread od rd)
    let oracle := match normSpread offer ret spread od rd, ms, belief with
      | .ok (o, r, _), some m, some p =>
        if impl == "ok" then chk "C10" "belief branch accepted outside the bound" (Spec.c10BeliefSound o r p m)
        else if impl == "fail:guard" then chk "C10" "belief branch rejected inside the bound" (Spec.c10BeliefComplete o r p m)
        else []
      | .ok (_, r, s), some m, none =>
        if impl == "ok" then chk "C10" "spread branch accepted outside the bound" (Spec.c10SpreadSound r s m)
        else if impl == "fail:guard" then chk "C10" "spread branch rejected inside the bound" (Spec.c10SpreadComplete r s m)
        else []
      | .ok _, none, _ => if impl == "fail:guard" then [("C10", "guard rejection without max_spread")] else []
      | _, _, _ => if impl == "fail:guard" then [("C10", "guard rejection on a normalisation failure")] else []
    mk true model impl oracle
      [match ms, belief with | some _, some _ => "belief" | some _, none => "spread" | _, _ => "nolimit"]
  | "slippage" =>
    let tol := optNat (a.getD 0 "-")
    let (d0, d1, r0, r1) := (g 1, g 2, g 3, g 4)
    let model := resU (assertSlippage tol d0 d1 r0 r1)
    let oracle := match tol with
      | some t =>
        if impl == "ok" then chk "C15" "accepted outside the tolerance" (Spec.c15Sound t d0 d1 r0 r1)
        else if impl == "fail:guard" then
          chk "C15" "rejected inside the tolerance" (decide (t ≤ E) && Spec.c15Complete t d0 d1 r0 r1)
        else []
      | none => if impl == "ok" then [] else [("C15", "rejected without a tolerance")]
    mk true model impl oracle
  | "assert_sent" =>
    let native := a.getD 0 "n" == "n"
    let (denom, amount) := (g 1, g 2)
    let funds := coinList (a.getD 3 "-")
    let model := if native then resU (assertSentNative denom amount funds) else "ok"
    let oracle := if native then
        chk "C09" "accepted although the attached amount differs from the declared one" (impl != "ok" || Spec.c09 denom amount funds)
      else []
    mk false model impl oracle
  | "bignum" =>
    let op := a.getD 0 ""
    mk false (bignumModel op (a.drop 1)) impl (bignumOracle op (a.drop 1) impl)
  | "text" => Halo.Driver.textLine a impl
  | "pair_key" | "read_pairs" | "assert_operations" => Halo.Driver.registryLine family a impl
  | _ => { diverge := some s!"unknown-family {family}" }

end Halo.Driver
