import Halo.Driver.Basic
namespace Halo.Driver
def registryLine (_family : String) (_a : List String) (_impl : String) : Verdict := { diverge := some "registry-not-yet" }
end Halo.Driver
