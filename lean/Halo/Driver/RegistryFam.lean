/- Driver, registry families: `pair_key`, `read_pairs`, `assert_operations` (C16, C19, C13). -/
import Halo.Driver.Basic
import Halo.Driver.TextFam
import Halo.Registry

namespace Halo.Driver
open Halo

/-- `n<hex>` / `t<hex>` → raw bytes (the kind letter is kept apart) -/
def rawOf (s : String) : Bytes := unhex s        -- `unhex` skips the first character

def bytesHex (bs : List Nat) : String := String.ofList (bs.flatMap fun b => [hexDigit (b / 16), hexDigit (b % 16)])

def pairOf (s : String) : String × String :=
  match s.splitOn "." with
  | [a, b] => (a, b)
  | _ => ("n", "n")

def keyOfPair (s : String) : Bytes := let (a, b) := pairOf s; pairKey (rawOf a) (rawOf b)

def buildReg (ids : String) : List (Bytes × String) :=
  if ids == "-" then [] else (ids.splitOn ";").foldl (fun reg p => regInsert (keyOfPair p) p reg) []

/-- decidable form of `NoLowExt` on concrete keys -/
def noLowExtB (keys : List Bytes) : Bool :=
  keys.all fun c => keys.all fun k =>
    !(c.isPrefixOf k && (match k.drop c.length with | 0 :: _ => true | [1] => true | _ => false))

def sameSet (p q : String) : Bool :=
  let (a, b) := pairOf p
  let (c, d) := pairOf q
  -- asset identity is (kind, bytes): compare the encoded ids
  (a == c && b == d) || (a == d && b == c)

def registryLine (family : String) (a : List String) (impl : String) : Verdict :=
  match family, a with
  | "pair_key", ["one", p] =>
    let (x, y) := pairOf p
    let model := s!"ok {bytesHex (pairKey (rawOf x) (rawOf y))}"
    let sym := pairKey (rawOf x) (rawOf y) == pairKey (rawOf y) (rawOf x)
    mk false model impl (chk "C16" "model key not symmetric" sym)
  | "pair_key", ["two", p, q] =>
    let model := s!"ok {bytesHex (keyOfPair p)} {bytesHex (keyOfPair q)}"
    let oracle := match impl.splitOn " " with
      | ["ok", k1, k2] =>
        -- distinct raw-id sets must not share a key (ids of different kind with equal bytes are the same raw id)
        let (x, y) := pairOf p
        let (c, d) := pairOf q
        let sameRaw := (rawOf x == rawOf c && rawOf y == rawOf d) || (rawOf x == rawOf d && rawOf y == rawOf c)
        chk "C16" "two different asset-id sets share a registry key" (k1 != k2 || sameRaw)
      | _ => []
    mk false model impl oracle
  | "read_pairs", ["page", ids, start, lim] =>
    let reg := buildReg ids
    let cursor := if start == "-" then none else some (keyOfPair start)
    let pg := readPairs reg cursor (optNat lim)
    let model := s!"ok {if pg.isEmpty then "-" else ";".intercalate (pg.map (·.2))}"
    let oracle := match impl.splitOn " " with
      | ["ok", l] =>
        let n := if l == "-" then 0 else (l.splitOn ";").length
        chk "C19" "a page exceeds 30 entries or the default of 10" (decide (n ≤ 30) && (lim != "-" || decide (n ≤ 10)))
      | _ => []
    mk false model impl oracle [if noLowExtB (reg.map (·.1)) then "nolowext" else "lowext"]
  | "read_pairs", ["walk", ids, lim] =>
    let reg := buildReg ids
    let wk := walk reg (optNat lim)
    let model := s!"ok {if wk.isEmpty then "-" else ";".intercalate (wk.map (·.2))}"
    let nle := noLowExtB (reg.map (·.1))
    let oracle := match impl.splitOn " " with
      | ["ok", l] =>
        let got := if l == "-" then [] else l.splitOn ";"
        let want := if ids == "-" then [] else ids.splitOn ";"
        -- every registered pair exactly once (orientation as stored)
        -- a page size of 0 makes no progress (the property speaks of walking with a page size); more than 200 pages
        -- is the harness' own cap
        if nle && lim != "0" && want.length ≤ 200 then
          chk "C19" "the walk does not visit every registered pair exactly once"
            (got.length == want.length && want.all (fun p => got.any (sameSet p)) )
        else []
      | _ => []
    mk false model impl oracle [if nle then "nolowext" else "lowext"]
  | "assert_operations", [ops] =>
    let parsed : List (String × String) :=
      if ops == "-" then [] else (ops.splitOn ";").map fun h =>
        match h.splitOn ">" with
        | [x, y] => (String.ofList ((unhex x).map Char.ofNat), String.ofList ((unhex y).map Char.ofNat))
        | _ => ("", "")
    let model := resU (assertOperations parsed)
    -- independent of `danglingAsks`: an ask is dangling iff no later hop offers it (Halo.Props.C13.mem_danglingAsks)
    let idx := List.range parsed.length
    let dangling := (idx.filterMap fun i =>
        let x := (parsed.getD i ("", "")).2
        if (idx.filter (fun j => decide (i < j))).all (fun j => (parsed.getD j ("", "")).1 != x) then some x else none).eraseDups
    let oracle := if impl == "ok" then
        chk "C13" s!"a route with {dangling.length} dangling output assets was accepted" (dangling.length == 1)
      else []
    mk false model impl oracle
  | _, _ => { diverge := some s!"unknown-registry-line {family}" }

end Halo.Driver
