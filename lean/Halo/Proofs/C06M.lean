/-
Proofs for the ask-pool monotonicity statement of C06 (`Halo/Props/C06.lean`).
-/
import Halo.Proofs.C01

namespace Halo.C01
open Halo

/-- against a deeper ask reserve (same offer reserve, offer and rate) the trader never receives less -/
theorem mono_ask {x y y' a c n s k n' s' k' : Nat}
    (h : computeSwap x y a c = .ok (n, s, k)) (h' : computeSwap x y' a c = .ok (n', s', k'))
    (hc : c ≤ E) (hy : y ≤ y') : n ≤ n' := by
  obtain ⟨hx, -, -, hle, -, -, -, rfl, -⟩ := raw h
  obtain ⟨-, -, -, hle', -, -, -, rfl, -⟩ := raw h'
  apply net_mono hc
  apply Nat.div_le_div_right
  obtain ⟨d, rfl⟩ := Nat.exists_eq_add_of_le hy
  have hq : 0 < x + a := by omega
  have key : x * (y + d) * E / (x + a) ≤ x * y * E / (x + a) + d * E := by
    rw [← Nat.add_mul_div_right _ _ hq]
    apply Nat.div_le_div_right
    nlinarith [Nat.zero_le (d * E * a)]
  have e : (y + d) * E = y * E + d * E := Nat.add_mul _ _ _
  omega
end Halo.C01
