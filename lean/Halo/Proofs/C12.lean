/-
C12 — proofs: the reverse formula `compute_offer_amount` against its closed integer form and the
documented closed form `x·y/(y − ask/(1−c)) − x` (upper side exact direction, lower side within the
stated rounding).
-/
import Halo.Proofs.Basic
import Halo.Formulas
import Halo.Spec
import Mathlib.Tactic.Linarith
import Mathlib.Tactic.Ring
import Mathlib.Tactic.Positivity
import Mathlib.Tactic.Zify

namespace Halo.C12
open Halo

/-- inversion of a successful `computeOfferAmount`: every guard that matters and every result
that the C12 statements mention, in closed integer form. -/
theorem inversion {x y b c o s k : Nat}
    (h : computeOfferAmount x y b c = .ok (o, s, k)) :
    c < E ∧ b * (E * E / (E - c)) / E < y ∧
    x ≤ x * y / (y - b * (E * E / (E - c)) / E) ∧
    o = x * y / (y - b * (E * E / (E - c)) / E) - x ∧
    k = b * (E * E / (E - c)) / E * c / E := by
  unfold computeOfferAmount at h
  simp only [bind_ok_iff] at h
  obtain ⟨cp, hcp, omc, homc, inv, hinv, t, ht, den, hden, o1, ho1, offer, hoffer, bcd, hbcd,
    pr, _hpr, bsd, _hbsd, hrest⟩ := h
  have hrest' : ∃ spread comm o' s' k', Uint.mulDec bcd c = .ok comm ∧ toU128 offer = .ok o' ∧
      toU128 spread = .ok s' ∧ toU128 comm = .ok k' ∧ (o', s', k') = (o, s, k) := by
    split at hrest
    all_goals
      simp only [bind_ok_iff, pure_ok_iff] at hrest
      obtain ⟨spread, _, comm, hcomm, o', ho', s', hs', k', hk', hret⟩ := hrest
      exact ⟨spread, comm, o', s', k', hcomm, ho', hs', hk', hret⟩
  obtain ⟨spread, comm, o', s', k', hcomm, ho', _hs', hk', hret⟩ := hrest'
  obtain ⟨hcpU, rfl⟩ := Uint.mul_ok.mp hcp
  obtain ⟨hcE, rfl⟩ := Dec.sub_ok.mp homc
  obtain ⟨hω, _, rfl⟩ := Dec.div_ok.mp hinv
  obtain ⟨_, rfl⟩ := Uint.mulDec_ok.mp ht
  obtain ⟨hty, rfl⟩ := Uint.sub_ok.mp hden
  obtain ⟨hden0, _, rfl⟩ := Uint.mulRatio_ok.mp ho1
  obtain ⟨hxo, rfl⟩ := Uint.sub_ok.mp hoffer
  obtain ⟨hbcdU, rfl⟩ := Uint.mulDec_ok.mp hbcd
  obtain ⟨hcommU, rfl⟩ := Uint.mulDec_ok.mp hcomm
  rw [Nat.one_mul] at hxo ho'
  have hoU : x * y / (y - b * (E * E / (E - c)) / E) - x < U :=
    Nat.lt_of_le_of_lt (Nat.le_trans (Nat.sub_le _ _) (Nat.div_le_self _ _)) hcpU
  have hkU : b * (E * E / (E - c)) / E * c / E < U :=
    Nat.lt_of_le_of_lt (Nat.div_le_self _ _) hcommU
  obtain ⟨_, rfl⟩ := (toU128_ok hoU).mp ho'
  obtain ⟨_, rfl⟩ := (toU128_ok hkU).mp hk'
  simp only [Prod.mk.injEq] at hret
  obtain ⟨rfl, _, rfl⟩ := hret
  refine ⟨by omega, by omega, hxo, rfl, rfl⟩

/-- the offer amount in closed integer form -/
theorem reverse_closed_form {x y b c o s k : Nat}
    (h : computeOfferAmount x y b c = .ok (o, s, k)) :
    c < E ∧ b * (E * E / (E - c)) / E < y ∧
    o = x * y / (y - b * (E * E / (E - c)) / E) - x := by
  obtain ⟨h1, h2, _, h3, _⟩ := inversion h
  exact ⟨h1, h2, h3⟩

/-- the reported commission is `⌊c · ⌊ask/(1−c)⌋⌋` -/
theorem reverse_commission {x y b c o s k : Nat}
    (h : computeOfferAmount x y b c = .ok (o, s, k)) :
    k = b * (E * E / (E - c)) / E * c / E :=
  (inversion h).2.2.2.2

/-- floor division: the exact quotient lies in `[n / d, n / d + 1)` -/
theorem div_round (n : Nat) {d : Nat} (hd : 0 < d) :
    n / d * d ≤ n ∧ n < (n / d + 1) * d :=
  ⟨Nat.div_mul_le_self n d, by rw [Nat.mul_comm]; exact Nat.lt_mul_div_succ n hd⟩

/-- the arithmetic core of the upper side -/
theorem upper_core {x y b ω E inv t den o1 : Nat}
    (hinv : inv * ω ≤ E * E) (ht : t * E ≤ b * inv) (hE : 0 < E)
    (hden : den + t = y) (ho1 : o1 * den ≤ x * y) :
    o1 * (y * ω - b * E) ≤ x * y * ω := by
  have h1 : t * ω ≤ b * E := by
    have : t * ω * E ≤ b * E * E := by
      calc t * ω * E = t * E * ω := by ring
        _ ≤ b * inv * ω := Nat.mul_le_mul_right _ ht
        _ = b * (inv * ω) := by ring
        _ ≤ b * (E * E) := Nat.mul_le_mul_left _ hinv
        _ = b * E * E := by ring
    exact Nat.le_of_mul_le_mul_right this hE
  have h2 : y * ω - b * E ≤ den * ω := by
    have : y * ω = den * ω + t * ω := by rw [← hden]; ring
    omega
  calc o1 * (y * ω - b * E) ≤ o1 * (den * ω) := Nat.mul_le_mul_left _ h2
    _ = o1 * den * ω := by ring
    _ ≤ x * y * ω := Nat.mul_le_mul_right _ ho1

/-- the arithmetic core of the lower side -/
theorem lower_core {x y b ω E inv t den o1 : Nat}
    (hinv : E * E < (inv + 1) * ω) (ht : b * inv < (t + 1) * E) (hω : 0 < ω)
    (hden : den + t = y) (ho1 : x * y < (o1 + 1) * den) :
    x * y * E * ω + (o1 + 1) * b * E * E <
      (o1 + 1) * (y * E * ω + b * ω + E * ω) := by
  -- b·E·E ≤ b·(inv+1)·ω − b  (when b > 0) ; in any case b·E·E ≤ b·inv·ω + b·ω
  have h1 : b * (E * E) ≤ b * ((inv + 1) * ω) := Nat.mul_le_mul_left _ (Nat.le_of_lt hinv)
  have h2 : b * inv * ω + ω ≤ (t + 1) * E * ω := by
    have : b * inv + 1 ≤ (t + 1) * E := ht
    calc b * inv * ω + ω = (b * inv + 1) * ω := by ring
      _ ≤ (t + 1) * E * ω := Nat.mul_le_mul_right _ this
  -- den·E·ω + b·E·E < y·E·ω + E·ω + b·ω
  have h3 : den * E * ω + b * E * E < y * E * ω + b * ω + E * ω := by
    have e1 : y * E * ω = den * E * ω + t * E * ω := by rw [← hden]; ring
    have e2 : b * ((inv + 1) * ω) = b * inv * ω + b * ω := by ring
    have e3 : (t + 1) * E * ω = t * E * ω + E * ω := by ring
    have e4 : b * E * E = b * (E * E) := by ring
    omega
  have h4 : x * y * (E * ω) < (o1 + 1) * den * (E * ω) := by
    have hEω : 0 < E * ω := by
      rcases Nat.eq_zero_or_pos E with hE | hE
      · subst hE; simp at ht
      · exact Nat.mul_pos hE hω
    exact Nat.mul_lt_mul_of_pos_right ho1 hEω
  have h5 : (o1 + 1) * (den * E * ω + b * E * E) ≤
      (o1 + 1) * (y * E * ω + b * ω + E * ω) :=
    Nat.mul_le_mul_left _ (Nat.le_of_lt h3)
  calc x * y * E * ω + (o1 + 1) * b * E * E
      = x * y * (E * ω) + (o1 + 1) * b * E * E := by ring
    _ < (o1 + 1) * den * (E * ω) + (o1 + 1) * b * E * E := Nat.add_lt_add_right h4 _
    _ = (o1 + 1) * (den * E * ω + b * E * E) := by ring
    _ ≤ _ := h5

/-- never above the documented closed form on its domain (`c < 1`, `ask/(1−c) < y`) -/
theorem reverse_le_closed_form {x y b c o s k : Nat}
    (h : computeOfferAmount x y b c = .ok (o, s, k)) (_hd : Spec.c12Domain y b c = true) :
    Spec.c12Reverse x y b c o = true := by
  obtain ⟨hc, hty, hxo, rfl, _⟩ := inversion h
  simp only [Spec.c12Reverse, decide_eq_true_eq]
  have hω : 0 < E - c := by omega
  rw [Nat.sub_add_cancel hxo]
  have hdenpos : 0 < y - b * (E * E / (E - c)) / E := by omega
  exact upper_core (div_round (E * E) hω).1 (div_round (b * (E * E / (E - c))) E_pos).1 E_pos
    (by omega) (div_round (x * y) hdenpos).1

/-- below it by at most the stated rounding -/
theorem reverse_ge_closed_form {x y b c o s k : Nat}
    (h : computeOfferAmount x y b c = .ok (o, s, k)) (_hd : Spec.c12Domain y b c = true) :
    Spec.c12ReverseLower x y b c o = true := by
  obtain ⟨hc, hty, hxo, rfl, _⟩ := inversion h
  simp only [Spec.c12ReverseLower, decide_eq_true_eq]
  have hω : 0 < E - c := by omega
  rw [Nat.sub_add_cancel hxo]
  have hdenpos : 0 < y - b * (E * E / (E - c)) / E := by omega
  exact lower_core (div_round (E * E) hω).2 (div_round (b * (E * E / (E - c))) E_pos).2 hω
    (by omega) (div_round (x * y) hdenpos).2

end Halo.C12
