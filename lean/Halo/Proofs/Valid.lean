/-
C02V — address validation.

The contracts pass every user-supplied address string through `deps.api.addr_validate` (pair: `Swap { to }` on both
entry points, the cw20 sender of `WithdrawLiquidity`; router: `to` of `ExecuteSwapOperations` / `ExecuteSwapOperation`
on both entry points, `receiver` of `AssertMinimumReceive`, the cw20 sender of the hook; factory: the new owner of
`UpdateConfig`; cw20-base: the recipient of the LP `Mint`, i.e. the receiver of a provision).  The model records which
account ids stand for strings that fail the check in the environment field `World.badAddr`.

  * an operation naming a bad address where one is validated is rejected and changes nothing;
  * conversely every address a successful operation named has passed validation — so the "designated receiver" of
    C02 / C13 is a validated address;
  * `badAddr` is a fact of the environment: no operation changes it.
-/
import Halo.Inv
import Halo.Proofs.RegOK

namespace Halo.Valid
open Halo Halo.C14 Halo.RegOKP

/-! ### inversion: what each handler validated -/

theorem badTo_false_iff {w : World} {dst : Option Nat} :
    badTo w dst = false ↔ ∀ a ∈ dst.toList, w.badAddr a = false := by
  cases dst with
  | none => simp [badTo]
  | some a => simp [badTo]

theorem badTo_congr {w w' : World} (h : w'.badAddr = w.badAddr) (dst : Option Nat) : badTo w' dst = badTo w dst := by
  cases dst <;> simp [badTo, h]

theorem pairExec_swap_valid {w : World} {s p : Nat} {funds : List (Nat × Nat)} {offer : Asset} {amt : Nat}
    {b ms dst : Option Nat} {r : World × Out}
    (h : pairExec w s p funds (.swap offer amt b ms dst) = .ok r) : badTo w dst = false := by
  unfold pairExec at h
  split at h
  · cases h
  simp only [bind_ok_iff] at h
  obtain ⟨w0, h0, h⟩ := h
  cases offer with
  | token t => cases h
  | native d =>
    simp only [bind_ok_iff] at h
    obtain ⟨_, hv, _⟩ := h
    rw [← badTo_congr (attach_same h0).1.badAddr]
    exact validTo_ok_iff.mp hv

theorem pairReceive_valid {w : World} {p t from_ amount : Nat} {hk : Hook} {r : World × Out}
    (h : pairReceive w p t from_ amount hk = .ok r) : ∀ a ∈ hk.validated from_, w.badAddr a = false := by
  cases hk with
  | swap offer amt b ms dst =>
    unfold pairReceive at h
    split at h
    · cases h
    dsimp only at h
    split at h
    · cases h
    simp only [bind_ok_iff] at h
    obtain ⟨_, _, _, _, h⟩ := h
    split at h
    · cases h
    split at h
    · cases h
    simp only [bind_ok_iff] at h
    obtain ⟨_, hv, _⟩ := h
    exact badTo_false_iff.mp (validTo_ok_iff.mp hv)
  | withdraw =>
    unfold pairReceive at h
    split at h
    · cases h
    dsimp only at h
    split at h
    · cases h
    simp only [bind_ok_iff] at h
    obtain ⟨_, hv, _⟩ := h
    intro a ha
    simp only [Hook.validated, List.mem_singleton] at ha
    subst ha
    exact validAddr_ok_iff.mp hv
  | routerOps ops mn dst => exact absurd h pairReceive_routerOps
  | garbage => exact absurd h pairReceive_garbage

theorem pairProvide_valid {w : World} {p : Nat} {P : PairSt} {sender : Nat} {funds : List (Nat × Nat)}
    {as0 as1 : Asset} {am0 am1 : Nat} {tol receiver : Option Nat} {r : World × Nat}
    (h : pairProvide w p P sender funds as0 am0 as1 am1 tol receiver = .ok r) : badTo w receiver = false := by
  unfold pairProvide at h
  simp only [bind_ok_iff] at h
  obtain ⟨_, _, _, _, r0, _, r1, _, d0, _, d1, _, _, _, _, _, _, _, _, _, _, _, _, _, _, _, S, _, share, _, h⟩ := h
  split at h
  · cases h
  simp only [bind_ok_iff] at h
  obtain ⟨share', _, w1, h1, w2, h2, w3, h3, _, hv, _⟩ := h
  have k1 : w1.badAddr = w.badAddr := by
    split at h1
    · exact (tokTransferFrom_same h1).1.badAddr
    · simp only [pure_ok_iff] at h1; subst h1; rfl
  have k2 : w2.badAddr = w1.badAddr := by
    split at h2
    · exact (tokTransferFrom_same h2).1.badAddr
    · simp only [pure_ok_iff] at h2; subst h2; rfl
  have k3 : w3.badAddr = w2.badAddr := by
    split at h3
    · exact (tokMint_same h3).1.badAddr
    · simp only [pure_ok_iff] at h3; subst h3; rfl
  rw [← badTo_congr ((k3.trans k2).trans k1)]
  exact validTo_ok_iff.mp hv

theorem pairExec_valid {w : World} {s p : Nat} {funds : List (Nat × Nat)} {m : PairMsg} {r : World × Out}
    (h : pairExec w s p funds m = .ok r) : ∀ a ∈ validatedAddrs (.pair s p funds m), w.badAddr a = false := by
  cases m with
  | provide as0 am0 as1 am1 tol rcv =>
    obtain ⟨P, w0, w1, sh, _, h0, h1, _⟩ := pairExec_provide h
    have hv := pairProvide_valid h1
    rw [badTo_congr (attach_same h0).1.badAddr] at hv
    exact badTo_false_iff.mp hv
  | swap offer amt b ms dst => exact badTo_false_iff.mp (pairExec_swap_valid h)
  | receive from_ amount hk =>
    obtain ⟨P, w0, _, h0, h1⟩ := pairExec_receive h
    intro a ha
    have := pairReceive_valid h1 a ha
    rwa [(attach_same h0).1.badAddr] at this
  | updateDecimals d da db => intro a ha; cases ha

theorem routerReceive_valid {name : Asset → String} {w w' : World} {from_ : Nat} {hk : Hook}
    (h : routerReceive name w from_ hk = .ok w') : ∀ a ∈ hk.validated from_, w.badAddr a = false := by
  obtain ⟨ops, mn, dst, rfl, hf, hd, _⟩ := routerReceive_ok h
  intro a ha
  simp only [Hook.validated, List.mem_cons] at ha
  rcases ha with rfl | ha
  · exact hf
  · exact badTo_false_iff.mp hd a ha

theorem routerExec_valid {name : Asset → String} {w w' : World} {s : Nat} {funds : List (Nat × Nat)} {m : RouterMsg}
    (h : routerExec name w s funds m = .ok w') : ∀ a ∈ validatedAddrs (.router s funds m), w.badAddr a = false := by
  cases m with
  | swapOps ops mn dst =>
    obtain ⟨w0, h0, hv, _⟩ := routerExec_swapOps_ok h
    rw [badTo_congr (attach_same h0).1.badAddr] at hv
    exact badTo_false_iff.mp hv
  | swapOp o a dst =>
    obtain ⟨w0, h0, hv, _⟩ := routerExec_swapOp_ok h
    rw [badTo_congr (attach_same h0).1.badAddr] at hv
    exact badTo_false_iff.mp hv
  | assertMin a prev mn rcv =>
    obtain ⟨w0, h0, hv, _⟩ := routerExec_assertMin_ok h
    rw [(attach_same h0).1.badAddr] at hv
    intro x hx
    simp only [validatedAddrs, List.mem_singleton] at hx
    subst hx
    exact hv
  | receive from_ amount hk =>
    obtain ⟨w0, h0, h1⟩ := routerExec_receive_ok h
    intro a ha
    have := routerReceive_valid h1 a ha
    rwa [(attach_same h0).1.badAddr] at this

theorem facExec_valid {w w' : World} {s : Nat} {funds : List (Nat × Nat)} {m : FacMsg}
    (h : facExec w s funds m = .ok w') : ∀ a ∈ validatedAddrs (.factory s funds m), w.badAddr a = false := by
  cases m with
  | updateConfig o tc pc =>
    unfold facExec at h
    simp only [bind_ok_iff] at h
    obtain ⟨w0, h0, h1⟩ := h
    have h2 : facUpdateConfig w0 s o tc pc = .ok w' := h1
    unfold facUpdateConfig at h2
    split at h2
    · cases h2
    split at h2
    · cases h2
    rename_i hv
    have hv' : badTo w0 o = false := by simpa using hv
    rw [badTo_congr (attach_same h0).1.badAddr] at hv'
    exact badTo_false_iff.mp hv'
  | createPair a0 a1 req comm lpDec np nl => intro a ha; cases ha
  | addDecimals d k => intro a ha; cases ha
  | migratePair p c => intro a ha; cases ha

/-! ### the two directions -/

/-- every address string a successful operation submitted for validation is a valid address -/
theorem exec_ok_validated {name : Asset → String} {w w' : World} {op : Op} {out : Out}
    (h : exec name w op = .ok (w', out)) : ∀ a ∈ validatedAddrs op, w.badAddr a = false := by
  cases op with
  | bankSend s d cs => intro a ha; cases ha
  | tokTransfer t s d x => intro a ha; cases ha
  | tokIncAllow t o s x => intro a ha; cases ha
  | tokBurn t s x => intro a ha; cases ha
  | tokTransferFrom t sp o d x => intro a ha; cases ha
  | tokBurnFrom t sp o x => intro a ha; cases ha
  | tokDecAllow t o s x => intro a ha; cases ha
  | pair s p f m => exact pairExec_valid (show pairExec w s p f m = .ok (w', out) from h)
  | router s f m =>
    simp only [exec, bind_ok_iff, pure_ok_iff, Prod.mk.injEq] at h
    obtain ⟨w1, h1, rfl, _⟩ := h
    exact routerExec_valid h1
  | factory s f m =>
    simp only [exec, bind_ok_iff, pure_ok_iff, Prod.mk.injEq] at h
    obtain ⟨w1, h1, rfl, _⟩ := h
    exact facExec_valid h1
  | tokSend t s d amt hk =>
    simp only [exec] at h
    intro a ha
    rcases tokSend_ok h with ⟨_, h1⟩ | ⟨_, _, _, w1, h1, h2⟩
    · unfold tokSendPair at h1
      simp only [bind_ok_iff] at h1
      obtain ⟨w1, htr, hrc⟩ := h1
      have := pairReceive_valid hrc a ha
      rwa [(tokTransfer_same htr).1.badAddr] at this
    · have := routerReceive_valid h2 a ha
      rwa [(tokTransfer_same h1).1.badAddr] at this
  | tokSendFrom t sp o d amt hk =>
    simp only [exec] at h
    intro a ha
    obtain ⟨w1, h1, h2⟩ := tokSendFrom_ok h
    rcases h2 with ⟨_, h2⟩ | ⟨_, _, _, h2⟩
    · have := pairReceive_valid h2 a ha
      rwa [(tokTransferFrom_same h1).1.badAddr] at this
    · have := routerReceive_valid h2 a ha
      rwa [(tokTransferFrom_same h1).1.badAddr] at this

/-- an operation that names a bad address where one is validated does not succeed -/
theorem bad_rejected {name : Asset → String} {w : World} {op : Op} {a : Nat}
    (ha : a ∈ validatedAddrs op) (hbad : w.badAddr a = true) (r : World × Out) : exec name w op ≠ .ok r := by
  intro h
  obtain ⟨w', out⟩ := r
  have := exec_ok_validated h a ha
  rw [hbad] at this
  cases this

/-- … and, transactions being atomic, changes nothing -/
theorem bad_step {name : Asset → String} {w : World} {op : Op} {a : Nat}
    (ha : a ∈ validatedAddrs op) (hbad : w.badAddr a = true) : step name w op = w := by
  unfold step
  cases hE : exec name w op with
  | error e => rfl
  | ok r => exact absurd hE (bad_rejected ha hbad r)

/-! ### the named instances -/

/-- a direct swap, a hook swap (`Send`) and a hook swap by a spender (`SendFrom`) whose `to` is a bad address are
rejected and change nothing -/
theorem swap_bad_to_rejected {name : Asset → String} {w : World} {a : Nat} (hbad : w.badAddr a = true) :
    (∀ s p f offer amt b ms, step name w (.pair s p f (.swap offer amt b ms (some a))) = w) ∧
    (∀ t s p amt offer a' b ms, step name w (.tokSend t s p amt (.swap offer a' b ms (some a))) = w) ∧
    (∀ t sp o p amt offer a' b ms, step name w (.tokSendFrom t sp o p amt (.swap offer a' b ms (some a))) = w) :=
  ⟨fun _ _ _ _ _ _ _ => bad_step (by simp [validatedAddrs]) hbad,
   fun _ _ _ _ _ _ _ _ => bad_step (by simp [validatedAddrs, Hook.validated]) hbad,
   fun _ _ _ _ _ _ _ _ _ => bad_step (by simp [validatedAddrs, Hook.validated]) hbad⟩

/-- the same for the three entry points of a route -/
theorem route_bad_to_rejected {name : Asset → String} {w : World} {a : Nat} (hbad : w.badAddr a = true) :
    (∀ s f ops mn, step name w (.router s f (.swapOps ops mn (some a))) = w) ∧
    (∀ t s amt ops mn, step name w (.tokSend t s w.router amt (.routerOps ops mn (some a))) = w) ∧
    (∀ t sp o amt ops mn, step name w (.tokSendFrom t sp o w.router amt (.routerOps ops mn (some a))) = w) :=
  ⟨fun _ _ _ _ => bad_step (by simp [validatedAddrs]) hbad,
   fun _ _ _ _ _ => bad_step (by simp [validatedAddrs, Hook.validated]) hbad,
   fun _ _ _ _ _ _ => bad_step (by simp [validatedAddrs, Hook.validated]) hbad⟩

/-- a provision whose receiver is a bad address fails (in the LP token's `Mint`) and changes nothing -/
theorem provide_bad_receiver_rejected {name : Asset → String} {w : World} {a : Nat} (hbad : w.badAddr a = true)
    (s p : Nat) (f : List (Nat × Nat)) (as0 : Asset) (am0 : Nat) (as1 : Asset) (am1 : Nat) (tol : Option Nat) :
    step name w (.pair s p f (.provide as0 am0 as1 am1 tol (some a))) = w :=
  bad_step (by simp [validatedAddrs]) hbad

/-- `UpdateConfig` with a bad new owner is rejected and changes nothing (whoever sends it) -/
theorem config_bad_owner_rejected {name : Asset → String} {w : World} {a : Nat} (hbad : w.badAddr a = true)
    (s : Nat) (f : List (Nat × Nat)) (tc pc : Option Nat) :
    step name w (.factory s f (.updateConfig (some a) tc pc)) = w :=
  bad_step (by simp [validatedAddrs]) hbad

/-- a withdrawal whose cw20 sender is a bad address, and a route hook whose cw20 sender is one, are rejected -/
theorem hook_bad_sender_rejected {name : Asset → String} {w : World} {a : Nat} (hbad : w.badAddr a = true) :
    (∀ t p amt, step name w (.tokSend t a p amt .withdraw) = w) ∧
    (∀ t d amt ops mn dst, step name w (.tokSend t a d amt (.routerOps ops mn dst)) = w) :=
  ⟨fun _ _ _ => bad_step (by simp [validatedAddrs, Hook.validated]) hbad,
   fun _ _ _ _ _ _ => bad_step (by simp [validatedAddrs, Hook.validated]) hbad⟩

/-- the contrapositive: the designated receiver of a successful swap or route is a validated address -/
theorem successful_swap_to_is_valid {name : Asset → String} {w w' : World} {out : Out} {a : Nat} :
    (∀ s p f offer amt b ms, exec name w (.pair s p f (.swap offer amt b ms (some a))) = .ok (w', out) →
      w.badAddr a = false) ∧
    (∀ t s p amt offer a' b ms, exec name w (.tokSend t s p amt (.swap offer a' b ms (some a))) = .ok (w', out) →
      w.badAddr a = false) ∧
    (∀ t sp o p amt offer a' b ms,
      exec name w (.tokSendFrom t sp o p amt (.swap offer a' b ms (some a))) = .ok (w', out) → w.badAddr a = false) ∧
    (∀ s f ops mn, exec name w (.router s f (.swapOps ops mn (some a))) = .ok (w', out) → w.badAddr a = false) ∧
    (∀ t s d amt ops mn, exec name w (.tokSend t s d amt (.routerOps ops mn (some a))) = .ok (w', out) →
      w.badAddr a = false) ∧
    (∀ t sp o d amt ops mn, exec name w (.tokSendFrom t sp o d amt (.routerOps ops mn (some a))) = .ok (w', out) →
      w.badAddr a = false) :=
  ⟨fun _ _ _ _ _ _ _ h => exec_ok_validated h a (by simp [validatedAddrs]),
   fun _ _ _ _ _ _ _ _ h => exec_ok_validated h a (by simp [validatedAddrs, Hook.validated]),
   fun _ _ _ _ _ _ _ _ _ h => exec_ok_validated h a (by simp [validatedAddrs, Hook.validated]),
   fun _ _ _ _ h => exec_ok_validated h a (by simp [validatedAddrs]),
   fun _ _ _ _ _ _ h => exec_ok_validated h a (by simp [validatedAddrs, Hook.validated]),
   fun _ _ _ _ _ _ _ h => exec_ok_validated h a (by simp [validatedAddrs, Hook.validated])⟩

/-- at the level of the handlers C02 / C13 speak about: a successful pair swap (either entry point) and a successful
route (either entry point) validated their `to` -/
theorem handler_to_is_valid {name : Asset → String} {w : World} {dst : Option Nat} :
    (∀ s p f offer amt b ms r, pairExec w s p f (.swap offer amt b ms dst) = .ok r → badTo w dst = false) ∧
    (∀ t u p amt offer a' b ms r, tokSendPair w t u p amt (.swap offer a' b ms dst) = .ok r → badTo w dst = false) ∧
    (∀ s f ops mn w', routerExec name w s f (.swapOps ops mn dst) = .ok w' → badTo w dst = false) ∧
    (∀ from_ ops mn w', routerReceive name w from_ (.routerOps ops mn dst) = .ok w' → badTo w dst = false) := by
  refine ⟨fun _ _ _ _ _ _ _ _ h => pairExec_swap_valid h, ?_, ?_, ?_⟩
  · intro t u p amt offer a' b ms r h
    unfold tokSendPair at h
    simp only [bind_ok_iff] at h
    obtain ⟨w1, htr, hrc⟩ := h
    have hv := badTo_false_iff.mpr (pairReceive_valid hrc)
    rwa [badTo_congr (tokTransfer_same htr).1.badAddr] at hv
  · intro s f ops mn w' h
    obtain ⟨w0, h0, hv, _⟩ := routerExec_swapOps_ok h
    rwa [badTo_congr (attach_same h0).1.badAddr] at hv
  · intro from_ ops mn w' h
    obtain ⟨_, _, _, he, _, hv, _⟩ := routerReceive_ok h
    cases he
    exact hv

/-! ### `badAddr` is static -/

theorem badAddr_static {name : Asset → String} {w w' : World} {op : Op} {out : Out}
    (h : exec name w op = .ok (w', out)) : w'.badAddr = w.badAddr := badAddr_exec h

theorem badAddr_static_step {name : Asset → String} (w : World) (op : Op) : (step name w op).badAddr = w.badAddr :=
  badAddr_step w op

theorem badAddr_static_run {name : Asset → String} (ops : List Op) (w : World) : (run name w ops).badAddr = w.badAddr :=
  badAddr_run ops w

end Halo.Valid
