/-
Reach — clauses of the properties that talk about *every later state*: what the factory registered stays
registered (C16), the registry invariant along histories (C16), a page is exactly as long as the limit allows
(C19), who can change an LP token's supply (C07), the reserved unit (C05), a pair's commission rate and its
other fixed fields (C06).
-/
import Halo.Inv
import Halo.Proofs.RegOK
import Halo.Proofs.C07
import Halo.Proofs.Flows
import Halo.Proofs.C03W
import Halo.Proofs.C03G

namespace Halo.Reach
open Halo Halo.RegOKP

/-! ### histories -/

/-- every step of a history satisfies the side condition `C` (evaluated in the world the step starts from) -/
def StepsOK (name : Asset → String) (C : World → Op → Prop) : World → List Op → Prop
  | _, [] => True
  | w, op :: rest => C w op ∧ StepsOK name C (step name w op) rest

/-- every step allocates fresh addresses -/
def FreshRun (name : Asset → String) : World → List Op → Prop := StepsOK name FreshOK

/-- the side conditions of `regOK_step`: a message to a pair is not sent by the factory contract itself, and a
new pair contract is allocated an unused pair address -/
def RegStepOK (w : World) (op : Op) : Prop :=
  (∀ s p f m, op = .pair s p f m → s ≠ w.facAddr) ∧
  (∀ s f a0 a1 req c ld np nl, op = .factory s f (.createPair a0 a1 req c ld np nl) → w.pair np = none)

/-- `RegStepOK` at every step of a history (the style of `ValidRun`, which implies it) -/
def RegRun (name : Asset → String) : World → List Op → Prop := StepsOK name RegStepOK

theorem StepsOK.mono {name : Asset → String} {C D : World → Op → Prop} (hCD : ∀ w op, C w op → D w op) :
    ∀ (ops : List Op) (w : World), StepsOK name C w ops → StepsOK name D w ops
  | [], _, _ => trivial
  | _ :: rest, _, h => ⟨hCD _ _ h.1, StepsOK.mono hCD rest _ h.2⟩

theorem stepsOK_true {name : Asset → String} : ∀ (ops : List Op) (w : World), StepsOK name (fun _ _ => True) w ops
  | [], _ => trivial
  | _ :: rest, _ => ⟨trivial, stepsOK_true rest _⟩

theorem stepsOK_of_validRun {name : Asset → String} :
    ∀ (ops : List Op) (w : World), ValidRun name w ops → StepsOK name ValidOp w ops
  | [], _, _ => trivial
  | _ :: rest, _, h => ⟨h.1, stepsOK_of_validRun rest _ h.2⟩

theorem regStepOK_of_valid (w : World) (op : Op) (hv : ValidOp w op) : RegStepOK w op := by
  refine ⟨?_, fun s f a0 a1 req c ld np nl e => (hv.fresh s f a0 a1 req c ld np nl e).1⟩
  intro s p f m e
  have := hv.actor.2.2.2
  rw [e] at this
  exact this

theorem freshRun_of_validRun {name : Asset → String} (ops : List Op) (w : World) (h : ValidRun name w ops) :
    FreshRun name w ops :=
  StepsOK.mono (fun _ _ hv => hv.fresh) ops w (stepsOK_of_validRun ops w h)

theorem regRun_of_validRun {name : Asset → String} (ops : List Op) (w : World) (h : ValidRun name w ops) :
    RegRun name w ops :=
  StepsOK.mono regStepOK_of_valid ops w (stepsOK_of_validRun ops w h)

/-- induction along a history: failed steps leave the world unchanged -/
theorem run_induct {name : Asset → String} {C : World → Op → Prop} {I : World → Prop}
    (hstep : ∀ w w' op out, I w → C w op → exec name w op = .ok (w', out) → I w') :
    ∀ (ops : List Op) (w : World), I w → StepsOK name C w ops → I (run name w ops)
  | [], _, hi, _ => hi
  | op :: rest, w, hi, hs => by
    obtain ⟨h1, h2⟩ := hs
    rw [C03W.run_cons]
    cases hE : exec name w op with
    | error e =>
      have hst : step name w op = w := by unfold step; rw [hE]
      rw [hst] at h2 ⊢
      exact run_induct hstep rest w hi h2
    | ok r =>
      obtain ⟨w1, out⟩ := r
      have hst : step name w op = w1 := by unfold step; rw [hE]
      rw [hst] at h2 ⊢
      exact run_induct hstep rest w1 (hstep w w1 op out hi h1 hE) h2

/-! ### C16: lookups -/

/-- two lookups that return the same pair address are over the same unordered pair of raw identifiers; when the four
queried assets are live, over the same unordered asset set -/
theorem lookup_distinct_addr {w : World} (hr : RegOK w) (hraw : RawOK w) {a b c d : Asset} {R1 R2 : Record}
    (h1 : facLookup w a b = some R1) (h2 : facLookup w c d = some R2) (hp : R1.pair = R2.pair) :
    ((w.rawId a = w.rawId c ∧ w.rawId b = w.rawId d) ∨ (w.rawId a = w.rawId d ∧ w.rawId b = w.rawId c)) ∧
    (Live w a → Live w b → Live w c → Live w d → (a = c ∧ b = d) ∨ (a = d ∧ b = c)) := by
  have m1 := mem_of_regLookup h1
  have m2 := mem_of_regLookup h2
  have e := distinct_pair_eq hr m1 m2 hp
  have : R1 = R2 := by simpa using congrArg (·.2) e
  subst this
  exact lookup_distinct hr hraw h1 h2

/-- a created pair is registered afterwards, under both orders -/
theorem created_registered {w w' : World} {s : Nat} {a0 a1 : Asset} {req : Requirements} {comm lpDec : Option Nat}
    {np nl : Nat} (hr : RegOK w) (h : facCreatePair w s a0 a1 req comm lpDec np nl = .ok w') :
    ∃ R, facLookup w' a0 a1 = some R ∧ facLookup w' a1 a0 = some R ∧ R.pair = np ∧ R.lp = nl ∧ R.a0 = a0 ∧
      R.a1 = a1 := by
  obtain ⟨_, hne, _, d0, d1, hd0, hd1, hl, rfl⟩ := facCreatePair_inv h
  refine ⟨{ a0 := a0, a1 := a1, pair := np, lp := nl, d0 := d0, d1 := d1, req := req,
            comm := comm.getD defaultCommission }, ?_, ?_, rfl, rfl, rfl, rfl⟩
  · unfold facLookup; exact Halo.C19.regLookup_insert_self _ _ _ hr.sorted
  · unfold facLookup; rw [Halo.C19.pairKey_comm]; exact Halo.C19.regLookup_insert_self _ _ _ hr.sorted

/-- the pair contract a creation instantiates describes itself with the created assets, LP token and the true
decimals of both assets -/
theorem create_records_decimals {w w' : World} {s : Nat} {a0 a1 : Asset} {req : Requirements}
    {comm lpDec : Option Nat} {np nl : Nat} (h : facCreatePair w s a0 a1 req comm lpDec np nl = .ok w') :
    ∃ P, w'.pair np = some P ∧ P.a0 = a0 ∧ P.a1 = a1 ∧ P.lp = nl ∧
      assetDecimals w a0 = .ok P.d0 ∧ assetDecimals w a1 = .ok P.d1 := by
  obtain ⟨_, _, _, d0, d1, hd0, hd1, _, rfl⟩ := facCreatePair_inv h
  exact ⟨_, if_pos rfl, rfl, rfl, rfl, hd0, hd1⟩

/-! ### C19: the length of a page -/

theorem page_length {α} (reg : List (Bytes × α)) (cursor : Option Bytes) (lim : Option Nat) :
    (readPairs reg cursor lim).length = min (pageSize lim) (afterCursor reg cursor).length := by
  unfold readPairs
  exact List.length_take

/-! ### C05: the reserved unit -/

theorem reserved_unit_forever {name : Asset → String} {p : Nat} {a0 a1 : Asset} {lp : Nat} (ops : List Op)
    (w : World) (hinv : PairInv w p a0 a1 lp) (hv : ValidRun name w ops) (hpos : 0 < supply w lp) :
    1 ≤ bal (run name w ops) (.token lp) lp ∧ 0 < supply (run name w ops) lp := by
  have hpos' := C03W.supply_stays_positive ops w hinv hv hpos
  exact ⟨(C03G.pairInv_run ops w hinv hv).reserved hpos', hpos'⟩

/-! ### C06: the fields of a pair that never change -/

/-- every pair contract persists and keeps everything but its decimals -/
def PairFix (w w' : World) : Prop :=
  ∀ p P, w.pair p = some P → ∃ P', w'.pair p = some P' ∧ P'.comm = P.comm ∧ P'.a0 = P.a0 ∧ P'.a1 = P.a1 ∧
    P'.lp = P.lp ∧ P'.req = P.req ∧ P'.factory = P.factory

theorem PairFix.refl (w : World) : PairFix w w := fun _ P h => ⟨P, h, rfl, rfl, rfl, rfl, rfl, rfl⟩

theorem PairFix.trans {a b c : World} (h1 : PairFix a b) (h2 : PairFix b c) : PairFix a c := by
  intro p P hP
  obtain ⟨P1, hP1, e1, e2, e3, e4, e5, e6⟩ := h1 p P hP
  obtain ⟨P2, hP2, f1, f2, f3, f4, f5, f6⟩ := h2 p P1 hP1
  exact ⟨P2, hP2, f1.trans e1, f2.trans e2, f3.trans e3, f4.trans e4, f5.trans e5, f6.trans e6⟩

theorem pairFix_of_eq {w w' : World} (h : w'.pair = w.pair) : PairFix w w' :=
  fun _ P hP => ⟨P, by rw [h]; exact hP, rfl, rfl, rfl, rfl, rfl, rfl⟩

theorem pairFix_of_same {w w' : World} (h : Same w w') : PairFix w w' := pairFix_of_eq h.pair

theorem pairFix_updateDecimals {w w' : World} {p s d da db : Nat}
    (h : pairUpdateDecimals w p s d da db = .ok w') : PairFix w w' := by
  obtain ⟨P, hP, _, rfl⟩ := pairUpdateDecimals_inv h
  intro q Q hQ
  by_cases hq : q = p
  · subst hq
    rw [hP] at hQ
    injection hQ with hQ
    subst hQ
    refine ⟨_, if_pos rfl, ?_, ?_, ?_, ?_, ?_, ?_⟩ <;> (split <;> rfl)
  · exact ⟨Q, by simp only [if_neg hq]; exact hQ, rfl, rfl, rfl, rfl, rfl, rfl⟩

theorem pairFix_fanOutMsgs {d : Nat} : ∀ (l : List (Nat × Nat × Nat)) {w w' : World},
    facFanOutMsgs d w l = .ok w' → PairFix w w'
  | [], w, w', h => by
    simp only [facFanOutMsgs] at h; injection h with h; subst h; exact PairFix.refl _
  | (p, da, db) :: rest, w, w', h => by
    simp only [facFanOutMsgs, bind_ok_iff] at h
    obtain ⟨w1, h1, h2⟩ := h
    exact (pairFix_updateDecimals h1).trans (pairFix_fanOutMsgs rest h2)

theorem pairFix_addDecimals {w w' : World} {s d k : Nat} (h : facAddDecimals w s d k = .ok w') : PairFix w w' := by
  unfold facAddDecimals at h
  dsimp only at h
  split at h
  · cases h
  split at h
  · cases h
  split at h
  · simp only [bind_ok_iff] at h
    obtain ⟨⟨w2, msgs⟩, h1, h2⟩ := h
    obtain ⟨p1, _⟩ := Flows.facFanOut_fold_pr _ h1
    exact (pairFix_of_eq (w := w) p1).trans (pairFix_fanOutMsgs _ h2)
  · simp only [pure_ok_iff] at h
    subst h
    exact pairFix_of_eq rfl

theorem pairFix_createPair {w w' : World} {s : Nat} {a0 a1 : Asset} {req : Requirements} {comm lpDec : Option Nat}
    {np nl : Nat} (hfresh : w.pair np = none) (h : facCreatePair w s a0 a1 req comm lpDec np nl = .ok w') :
    PairFix w w' := by
  obtain ⟨_, _, _, d0, d1, _, _, _, rfl⟩ := facCreatePair_inv h
  intro q Q hQ
  have hq : q ≠ np := by
    intro e
    subst e
    rw [hfresh] at hQ
    cases hQ
  exact ⟨Q, by simp only [if_neg hq]; exact hQ, rfl, rfl, rfl, rfl, rfl, rfl⟩

theorem facUpdateConfig_inv {w w' : World} {s : Nat} {o tc pc : Option Nat}
    (h : facUpdateConfig w s o tc pc = .ok w') :
    w' = { w with owner := o.getD w.owner, tokenCode := tc.getD w.tokenCode, pairCode := pc.getD w.pairCode } := by
  unfold facUpdateConfig at h
  split at h
  · cases h
  split at h
  · cases h
  injection h with h
  exact h.symm

theorem facMigratePair_inv {w w' : World} {s p : Nat} {c : Option Nat} (h : facMigratePair w s p c = .ok w') :
    w' = w := by
  unfold facMigratePair at h
  split at h
  · cases h
  split at h
  · cases h
  split at h
  · split at h
    · injection h with h; exact h.symm
    · cases h
  · cases h

/-- the new pair address of a `CreatePair` is not in use as a pair (all of `FreshOK` that the static facts need) -/
def FreshPairAddr (w : World) (op : Op) : Prop :=
  ∀ s f a0 a1 req c ld np nl, op = .factory s f (.createPair a0 a1 req c ld np nl) → w.pair np = none

theorem freshPairAddr_of_freshOK {w : World} {op : Op} (hf : FreshOK w op) : FreshPairAddr w op :=
  fun s f a0 a1 req c ld np nl e => (hf s f a0 a1 req c ld np nl e).1

theorem pairFix_exec {name : Asset → String} {w w' : World} {op : Op} {out : Out}
    (hf : FreshPairAddr w op) (h : exec name w op = .ok (w', out)) : PairFix w w' := by
  cases op with
  | bankSend s d cs =>
    simp only [exec, bind_ok_iff, pure_ok_iff, Prod.mk.injEq] at h
    obtain ⟨w1, h1, rfl, _⟩ := h
    exact pairFix_of_same (bankSend_same h1).1
  | tokTransfer t s d a =>
    simp only [exec, bind_ok_iff, pure_ok_iff, Prod.mk.injEq] at h
    obtain ⟨w1, h1, rfl, _⟩ := h
    exact pairFix_of_same (tokTransfer_same h1).1
  | tokSend t s d a hk => exact pairFix_of_same (tokSend_same h)
  | tokIncAllow t o s a =>
    simp only [exec, bind_ok_iff, pure_ok_iff, Prod.mk.injEq] at h
    obtain ⟨w1, h1, rfl, _⟩ := h
    exact pairFix_of_same (tokIncAllow_same h1).1
  | tokBurn t s a =>
    simp only [exec, bind_ok_iff, pure_ok_iff, Prod.mk.injEq] at h
    obtain ⟨w1, h1, rfl, _⟩ := h
    exact pairFix_of_same (tokBurn_same h1).1
  | tokTransferFrom t sp o d a =>
    simp only [exec, bind_ok_iff, pure_ok_iff, Prod.mk.injEq] at h
    obtain ⟨w1, h1, rfl, _⟩ := h
    exact pairFix_of_same (tokTransferFrom_same h1).1
  | tokSendFrom t sp o d a hk => exact pairFix_of_same (tokSendFrom_same h)
  | tokBurnFrom t sp o a =>
    simp only [exec, bind_ok_iff, pure_ok_iff, Prod.mk.injEq] at h
    obtain ⟨w1, h1, rfl, _⟩ := h
    exact pairFix_of_same (tokBurnFrom_same h1).1
  | tokDecAllow t o sp a =>
    simp only [exec, bind_ok_iff, pure_ok_iff, Prod.mk.injEq] at h
    obtain ⟨w1, h1, rfl, _⟩ := h
    exact pairFix_of_same (tokDecAllow_same h1).1
  | pair s p f m =>
    have h' : pairExec w s p f m = .ok (w', out) := h
    rcases pairExec_cases h' with hs | ⟨d, da, db, w0, rfl, hs0, hu⟩
    · exact pairFix_of_same hs
    · exact (pairFix_of_same hs0).trans (pairFix_updateDecimals hu)
  | router s f m =>
    simp only [exec, bind_ok_iff, pure_ok_iff, Prod.mk.injEq] at h
    obtain ⟨w1, h1, rfl, _⟩ := h
    exact pairFix_of_same (routerExec_same h1)
  | factory s f m =>
    simp only [exec, bind_ok_iff, pure_ok_iff, Prod.mk.injEq] at h
    obtain ⟨w1, h1, rfl, _⟩ := h
    unfold facExec at h1
    simp only [bind_ok_iff] at h1
    obtain ⟨w0, h0, h1⟩ := h1
    have hs0 := (attach_same h0).1
    refine (pairFix_of_same hs0).trans ?_
    cases m with
    | updateConfig o tc pc =>
      have h2 : facUpdateConfig w0 s o tc pc = .ok w1 := h1
      rw [facUpdateConfig_inv h2]
      exact pairFix_of_eq rfl
    | createPair a0 a1 req comm lpDec np nl =>
      exact pairFix_createPair (by rw [hs0.pair]; exact hf _ _ _ _ _ _ _ _ _ rfl) h1
    | addDecimals d k => exact pairFix_addDecimals h1
    | migratePair p c =>
      have h2 : facMigratePair w0 s p c = .ok w1 := h1
      rw [facMigratePair_inv h2]
      exact PairFix.refl _

/-- a pair's commission rate, assets, LP token, requirements and factory never change -/
theorem commission_fixed {name : Asset → String} {w w' : World} {op : Op} {out : Out} {p : Nat} {P : PairSt}
    (hf : FreshOK w op) (h : exec name w op = .ok (w', out)) (hP : w.pair p = some P) :
    ∃ P', w'.pair p = some P' ∧ P'.comm = P.comm ∧ P'.a0 = P.a0 ∧ P'.a1 = P.a1 ∧ P'.lp = P.lp ∧
      P'.req = P.req ∧ P'.factory = P.factory :=
  pairFix_exec (freshPairAddr_of_freshOK hf) h p P hP

/-- … along any history that allocates fresh addresses -/
theorem commission_fixed_run {name : Asset → String} (ops : List Op) (w : World) (hf : FreshRun name w ops)
    {p : Nat} {P : PairSt} (hP : w.pair p = some P) :
    ∃ P', (run name w ops).pair p = some P' ∧ P'.comm = P.comm ∧ P'.a0 = P.a0 ∧ P'.a1 = P.a1 ∧ P'.lp = P.lp ∧
      P'.req = P.req ∧ P'.factory = P.factory :=
  run_induct (C := FreshOK) (I := fun v => PairFix w v)
    (fun _ _ _ _ hi hc hE => hi.trans (pairFix_exec (freshPairAddr_of_freshOK hc) hE)) ops w (PairFix.refl w) hf p P hP

theorem defaultCommission_le_one : defaultCommission ≤ E := by decide

/-- a pair created by the factory charges a commission rate of at most 1 -/
theorem commission_le_one {w w' : World} {s : Nat} {a0 a1 : Asset} {req : Requirements} {comm lpDec : Option Nat}
    {np nl : Nat} (h : facCreatePair w s a0 a1 req comm lpDec np nl = .ok w') :
    ∃ P, w'.pair np = some P ∧ P.comm = comm.getD defaultCommission ∧ P.comm ≤ E := by
  obtain ⟨_, _, hc, d0, d1, _, _, _, rfl⟩ := facCreatePair_inv h
  refine ⟨_, if_pos rfl, rfl, ?_⟩
  cases comm with
  | none => exact defaultCommission_le_one
  | some c => exact hc

/-- … and so in every later state -/
theorem commission_le_one_forever {name : Asset → String} {w w' : World} {s : Nat} {a0 a1 : Asset}
    {req : Requirements} {comm lpDec : Option Nat} {np nl : Nat}
    (h : facCreatePair w s a0 a1 req comm lpDec np nl = .ok w') (ops : List Op) (hf : FreshRun name w' ops) :
    ∃ P, (run name w' ops).pair np = some P ∧ P.comm = comm.getD defaultCommission ∧ P.comm ≤ E ∧
      P.a0 = a0 ∧ P.a1 = a1 ∧ P.lp = nl := by
  obtain ⟨P, hP, a, b, c, _, _⟩ := create_records_decimals h
  obtain ⟨P0, hP0, e, hle⟩ := commission_le_one h
  rw [hP] at hP0
  injection hP0 with hP0
  subst hP0
  obtain ⟨P', hP', f1, f2, f3, f4, _, _⟩ := commission_fixed_run ops w' hf hP
  exact ⟨P', hP', f1.trans e, by rw [f1]; exact hle, f2.trans a, f3.trans b, f4.trans c⟩

/-! ### C16: the environment never changes -/

/-- the raw asset identifiers, the factory address and the validity of address strings are the same -/
structure EnvEq (w w' : World) : Prop where
  rawId : w'.rawId = w.rawId
  facAddr : w'.facAddr = w.facAddr
  badAddr : w'.badAddr = w.badAddr

theorem EnvEq.refl (w : World) : EnvEq w w := ⟨rfl, rfl, rfl⟩
theorem EnvEq.trans {a b c : World} (h1 : EnvEq a b) (h2 : EnvEq b c) : EnvEq a c :=
  ⟨h2.rawId.trans h1.rawId, h2.facAddr.trans h1.facAddr, h2.badAddr.trans h1.badAddr⟩
theorem envEq_of_same {w w' : World} (h : Same w w') : EnvEq w w' := ⟨h.rawId, h.facAddr, h.badAddr⟩
theorem envEq_of_pairOnly {w w' : World} (h : PairOnly w w') : EnvEq w w' := ⟨h.rawId, h.facAddr, h.badAddr⟩

theorem facFanOut1_env {denom decimals : Nat} {w w' : World} {msgs msgs' : List (Nat × Nat × Nat)}
    {e : Bytes × Record} (h : facFanOut1 denom decimals (w, msgs) e = .ok (w', msgs')) : EnvEq w w' := by
  unfold facFanOut1 at h
  dsimp only at h
  split at h
  · cases h
  injection h with h
  by_cases h0 : e.2.a0 = .native denom <;> by_cases h1 : e.2.a1 = .native denom <;>
    simp only [h0, h1, if_true, if_false, Prod.mk.injEq] at h <;>
    (obtain ⟨rfl, _⟩ := h; exact ⟨rfl, rfl, rfl⟩)

theorem facFanOut_fold_env {denom decimals : Nat} :
    ∀ (l : List (Bytes × Record)) {acc acc' : World × List (Nat × Nat × Nat)},
    l.foldlM (facFanOut1 denom decimals) acc = .ok acc' → EnvEq acc.1 acc'.1
  | [], acc, acc', h => by
    simp only [List.foldlM_nil, pure_ok_iff] at h; subst h; exact EnvEq.refl _
  | e :: l, (w, msgs), acc', h => by
    simp only [List.foldlM_cons, bind_ok_iff] at h
    obtain ⟨⟨w1, msgs1⟩, h1, h2⟩ := h
    exact (facFanOut1_env h1).trans (facFanOut_fold_env l h2)

theorem facAddDecimals_env {w w' : World} {s d k : Nat} (h : facAddDecimals w s d k = .ok w') : EnvEq w w' := by
  unfold facAddDecimals at h
  dsimp only at h
  split at h
  · cases h
  split at h
  · cases h
  split at h
  · simp only [bind_ok_iff] at h
    obtain ⟨⟨w2, msgs⟩, h1, h2⟩ := h
    have k1 := facFanOut_fold_env _ h1
    exact EnvEq.trans ⟨k1.rawId, k1.facAddr, k1.badAddr⟩ (envEq_of_pairOnly (fanOutMsgs_pairOnly _ h2))
  · simp only [pure_ok_iff] at h
    subst h
    exact ⟨rfl, rfl, rfl⟩

/-- no operation changes the raw identifiers of assets or the factory's address -/
theorem envEq_exec {name : Asset → String} {w w' : World} {op : Op} {out : Out}
    (h : exec name w op = .ok (w', out)) : EnvEq w w' := by
  cases op with
  | bankSend s d cs =>
    simp only [exec, bind_ok_iff, pure_ok_iff, Prod.mk.injEq] at h
    obtain ⟨w1, h1, rfl, _⟩ := h
    exact envEq_of_same (bankSend_same h1).1
  | tokTransfer t s d a =>
    simp only [exec, bind_ok_iff, pure_ok_iff, Prod.mk.injEq] at h
    obtain ⟨w1, h1, rfl, _⟩ := h
    exact envEq_of_same (tokTransfer_same h1).1
  | tokSend t s d a hk => exact envEq_of_same (tokSend_same h)
  | tokIncAllow t o s a =>
    simp only [exec, bind_ok_iff, pure_ok_iff, Prod.mk.injEq] at h
    obtain ⟨w1, h1, rfl, _⟩ := h
    exact envEq_of_same (tokIncAllow_same h1).1
  | tokBurn t s a =>
    simp only [exec, bind_ok_iff, pure_ok_iff, Prod.mk.injEq] at h
    obtain ⟨w1, h1, rfl, _⟩ := h
    exact envEq_of_same (tokBurn_same h1).1
  | tokTransferFrom t sp o d a =>
    simp only [exec, bind_ok_iff, pure_ok_iff, Prod.mk.injEq] at h
    obtain ⟨w1, h1, rfl, _⟩ := h
    exact envEq_of_same (tokTransferFrom_same h1).1
  | tokSendFrom t sp o d a hk => exact envEq_of_same (tokSendFrom_same h)
  | tokBurnFrom t sp o a =>
    simp only [exec, bind_ok_iff, pure_ok_iff, Prod.mk.injEq] at h
    obtain ⟨w1, h1, rfl, _⟩ := h
    exact envEq_of_same (tokBurnFrom_same h1).1
  | tokDecAllow t o sp a =>
    simp only [exec, bind_ok_iff, pure_ok_iff, Prod.mk.injEq] at h
    obtain ⟨w1, h1, rfl, _⟩ := h
    exact envEq_of_same (tokDecAllow_same h1).1
  | pair s p f m =>
    have h' : pairExec w s p f m = .ok (w', out) := h
    rcases pairExec_cases h' with hs | ⟨d, da, db, w0, rfl, hs0, hu⟩
    · exact envEq_of_same hs
    · exact (envEq_of_same hs0).trans (envEq_of_pairOnly (pairUpdateDecimals_pairOnly hu))
  | router s f m =>
    simp only [exec, bind_ok_iff, pure_ok_iff, Prod.mk.injEq] at h
    obtain ⟨w1, h1, rfl, _⟩ := h
    exact envEq_of_same (routerExec_same h1)
  | factory s f m =>
    simp only [exec, bind_ok_iff, pure_ok_iff, Prod.mk.injEq] at h
    obtain ⟨w1, h1, rfl, _⟩ := h
    unfold facExec at h1
    simp only [bind_ok_iff] at h1
    obtain ⟨w0, h0, h1⟩ := h1
    refine (envEq_of_same (attach_same h0).1).trans ?_
    cases m with
    | updateConfig o tc pc =>
      have h2 : facUpdateConfig w0 s o tc pc = .ok w1 := h1
      rw [facUpdateConfig_inv h2]
      exact ⟨rfl, rfl, rfl⟩
    | createPair a0 a1 req comm lpDec np nl =>
      obtain ⟨_, _, _, d0, d1, _, _, _, rfl⟩ := facCreatePair_inv h1
      exact ⟨rfl, rfl, rfl⟩
    | addDecimals d k => exact facAddDecimals_env h1
    | migratePair p c =>
      have h2 : facMigratePair w0 s p c = .ok w1 := h1
      rw [facMigratePair_inv h2]
      exact EnvEq.refl _

/-- along any history whatsoever -/
theorem envEq_run {name : Asset → String} (ops : List Op) (w : World) : EnvEq w (run name w ops) :=
  run_induct (C := fun _ _ => True) (I := fun v => EnvEq w v)
    (fun _ _ _ _ hi _ hE => hi.trans (envEq_exec hE)) ops w (EnvEq.refl w)
    (stepsOK_true ops w)

/-! ### C16: `RawOK` along histories -/

/-- environment: the asset an operation makes live (`NewLive`: the LP token the chain instantiates for a created
pair, the denom of an `AddNativeTokenDecimals`) carries a raw identifier that no OTHER live asset carries.  (For an
asset that is live already — a denom that is re-registered — this follows from `RawOK`.) -/
def RawFreshOK (w : World) (op : Op) : Prop :=
  ∀ a b, Live w a → NewLive op b → a ≠ b → w.rawId a ≠ w.rawId b

/-- `RawFreshOK` at every step of a history -/
def RawRun (name : Asset → String) : World → List Op → Prop := StepsOK name RawFreshOK

/-- only `CreatePair` and `AddNativeTokenDecimals` need the assumption -/
theorem rawFreshOK_of_no_new {w : World} {op : Op} (h : ∀ b, ¬ NewLive op b) : RawFreshOK w op :=
  fun _ b _ hb => absurd hb (h b)

/-- the assumption unfolded for the two operations that need it -/
theorem rawFreshOK_createPair {w : World} {s : Nat} {f : List (Nat × Nat)} {a0 a1 : Asset} {req : Requirements}
    {c ld : Option Nat} {np nl : Nat} :
    RawFreshOK w (.factory s f (.createPair a0 a1 req c ld np nl)) ↔
      ∀ a, Live w a → a ≠ .token nl → w.rawId a ≠ w.rawId (.token nl) := by
  constructor
  · intro h a la hne
    exact h a _ la (.inl ⟨s, f, a0, a1, req, c, ld, np, nl, rfl, rfl⟩) hne
  · intro h a b la hb hne
    rcases hb with ⟨_, _, _, _, _, _, _, _, nl', e, rfl⟩ | ⟨_, _, _, _, e, _⟩
    · cases e; exact h a la hne
    · cases e

theorem rawFreshOK_addDecimals {w : World} {s : Nat} {f : List (Nat × Nat)} {d k : Nat} :
    RawFreshOK w (.factory s f (.addDecimals d k)) ↔
      ∀ a, Live w a → a ≠ .native d → w.rawId a ≠ w.rawId (.native d) := by
  constructor
  · intro h a la hne
    exact h a _ la (.inr ⟨s, f, d, k, rfl, rfl⟩) hne
  · intro h a b la hb hne
    rcases hb with ⟨_, _, _, _, _, _, _, _, _, e, _⟩ | ⟨_, _, d', _, e, rfl⟩
    · cases e
    · cases e; exact h a la hne

/-- one operation: no operation changes `rawId`, liveness is never revoked, and the one asset the operation may make
live has a fresh raw identifier -/
theorem rawOK_step {name : Asset → String} {w w' : World} {op : Op} {out : Out} (hraw : RawOK w)
    (hf : RawFreshOK w op) (h : exec name w op = .ok (w', out)) : RawOK w' := by
  have hid := (envEq_exec h).rawId
  refine ⟨?_, by rw [hid]; exact hraw.short⟩
  intro a b la lb e
  rw [hid] at e
  rcases (live_exec_iff h a).2 la with la | na <;> rcases (live_exec_iff h b).2 lb with lb | nb
  · exact hraw.inj a b la lb e
  · by_contra hne
    exact hf a b la nb hne e
  · by_contra hne
    exact hf b a lb na (Ne.symm hne) e.symm
  · exact newLive_unique na nb

/-- an operation that makes no further asset live (in particular: everything but the factory's `CreatePair` and
first-time `AddNativeTokenDecimals`) preserves `RawOK` unconditionally -/
theorem rawOK_step_of_no_new {name : Asset → String} {w w' : World} {op : Op} {out : Out} (hraw : RawOK w)
    (hn : ∀ b, NewLive op b → Live w b) (h : exec name w op = .ok (w', out)) : RawOK w' :=
  rawOK_step hraw (fun a b la nb hne e => hne (hraw.inj a b la (hn b nb) e)) h

/-- `RawOK` holds after every history in which newly live assets get fresh raw identifiers.  (With the former,
stronger `RawOK` — injectivity of `rawId` on all identifiers — no side condition was needed, since no operation
changes `rawId`; the present one speaks about the live assets, and their set grows.) -/
theorem rawOK_run {name : Asset → String} (ops : List Op) (w : World) (hraw : RawOK w) (hrun : RawRun name w ops) :
    RawOK (run name w ops) :=
  run_induct (C := RawFreshOK) (I := RawOK) (fun _ _ _ _ hi hc hE => rawOK_step hi hc hE) ops w hraw hrun

/-- liveness is never revoked along a history -/
theorem live_run {name : Asset → String} (ops : List Op) (w : World) {a : Asset} (hl : Live w a) :
    Live (run name w ops) a :=
  Halo.RegOKP.live_run ops w hl

/-! ### C16: the registry only grows -/

/-- a record with the same identity: everything but the decimals -/
def SameRec (R R' : Record) : Prop :=
  R'.pair = R.pair ∧ R'.lp = R.lp ∧ R'.a0 = R.a0 ∧ R'.a1 = R.a1 ∧ R'.req = R.req ∧ R'.comm = R.comm

/-- every registered key stays registered, for the same pair -/
def RegGrows (w w' : World) : Prop :=
  ∀ k R, regLookup k w.registry = some R → ∃ R', regLookup k w'.registry = some R' ∧ SameRec R R'

theorem RegGrows.refl (w : World) : RegGrows w w := fun _ R h => ⟨R, h, rfl, rfl, rfl, rfl, rfl, rfl⟩

theorem RegGrows.trans {a b c : World} (h1 : RegGrows a b) (h2 : RegGrows b c) : RegGrows a c := by
  intro k R hR
  obtain ⟨R1, hR1, e1, e2, e3, e4, e5, e6⟩ := h1 k R hR
  obtain ⟨R2, hR2, f1, f2, f3, f4, f5, f6⟩ := h2 k R1 hR1
  exact ⟨R2, hR2, f1.trans e1, f2.trans e2, f3.trans e3, f4.trans e4, f5.trans e5, f6.trans e6⟩

theorem regGrows_of_eq {w w' : World} (h : w'.registry = w.registry) : RegGrows w w' :=
  fun _ R hR => ⟨R, by rw [h]; exact hR, rfl, rfl, rfl, rfl, rfl, rfl⟩

theorem regLookup_map_updEntry (d k : Nat) (key : Bytes) :
    ∀ reg : List (Bytes × Record), regLookup key (reg.map (updEntry d k)) = (regLookup key reg).map (updRec d k)
  | [] => rfl
  | (k', v) :: rest => by
    have ih := regLookup_map_updEntry d k key rest
    unfold regLookup at ih ⊢
    by_cases hk : k' = key
    · simp [updEntry, hk]
    · simpa [List.find?_cons, updEntry, hk] using ih

theorem regGrows_createPair {w w' : World} {s : Nat} {a0 a1 : Asset} {req : Requirements} {comm lpDec : Option Nat}
    {np nl : Nat} (h : facCreatePair w s a0 a1 req comm lpDec np nl = .ok w') : RegGrows w w' := by
  obtain ⟨_, _, _, d0, d1, _, _, hl, rfl⟩ := facCreatePair_inv h
  intro k R hR
  have hne : k ≠ pairKey (w.rawId a0) (w.rawId a1) := by
    intro e
    rw [e, hl] at hR
    cases hR
  exact ⟨R, by rw [← hR]; exact Halo.C19.regLookup_insert_other _ _ _ _ hne, rfl, rfl, rfl, rfl, rfl, rfl⟩

theorem regGrows_addDecimals {w w' : World} {s d k : Nat} (hr : RegOK w) (h : facAddDecimals w s d k = .ok w') :
    RegGrows w w' := by
  obtain ⟨_, _, _, hreg, _, _⟩ := addDecimals_char hr h
  intro key R hR
  refine ⟨updRec d k R, ?_, rfl, rfl, rfl, rfl, rfl, rfl⟩
  rw [hreg, regLookup_map_updEntry, hR]
  rfl

/-- one operation: every key present in the registry is still present, with a record for the same pair, LP token,
assets, requirements and commission (only the decimals may have been re-registered) -/
theorem regGrows_exec {name : Asset → String} {w w' : World} {op : Op} {out : Out} (hr : RegOK w)
    (h : exec name w op = .ok (w', out)) : RegGrows w w' := by
  cases op with
  | bankSend s d cs =>
    simp only [exec, bind_ok_iff, pure_ok_iff, Prod.mk.injEq] at h
    obtain ⟨w1, h1, rfl, _⟩ := h
    exact regGrows_of_eq (bankSend_same h1).1.registry
  | tokTransfer t s d a =>
    simp only [exec, bind_ok_iff, pure_ok_iff, Prod.mk.injEq] at h
    obtain ⟨w1, h1, rfl, _⟩ := h
    exact regGrows_of_eq (tokTransfer_same h1).1.registry
  | tokSend t s d a hk => exact regGrows_of_eq (tokSend_same h).registry
  | tokIncAllow t o s a =>
    simp only [exec, bind_ok_iff, pure_ok_iff, Prod.mk.injEq] at h
    obtain ⟨w1, h1, rfl, _⟩ := h
    exact regGrows_of_eq (tokIncAllow_same h1).1.registry
  | tokBurn t s a =>
    simp only [exec, bind_ok_iff, pure_ok_iff, Prod.mk.injEq] at h
    obtain ⟨w1, h1, rfl, _⟩ := h
    exact regGrows_of_eq (tokBurn_same h1).1.registry
  | tokTransferFrom t sp o d a =>
    simp only [exec, bind_ok_iff, pure_ok_iff, Prod.mk.injEq] at h
    obtain ⟨w1, h1, rfl, _⟩ := h
    exact regGrows_of_eq (tokTransferFrom_same h1).1.registry
  | tokSendFrom t sp o d a hk => exact regGrows_of_eq (tokSendFrom_same h).registry
  | tokBurnFrom t sp o a =>
    simp only [exec, bind_ok_iff, pure_ok_iff, Prod.mk.injEq] at h
    obtain ⟨w1, h1, rfl, _⟩ := h
    exact regGrows_of_eq (tokBurnFrom_same h1).1.registry
  | tokDecAllow t o sp a =>
    simp only [exec, bind_ok_iff, pure_ok_iff, Prod.mk.injEq] at h
    obtain ⟨w1, h1, rfl, _⟩ := h
    exact regGrows_of_eq (tokDecAllow_same h1).1.registry
  | pair s p f m =>
    have h' : pairExec w s p f m = .ok (w', out) := h
    rcases pairExec_cases h' with hs | ⟨d, da, db, w0, rfl, hs0, hu⟩
    · exact regGrows_of_eq hs.registry
    · exact regGrows_of_eq ((pairUpdateDecimals_pairOnly hu).registry.trans hs0.registry)
  | router s f m =>
    simp only [exec, bind_ok_iff, pure_ok_iff, Prod.mk.injEq] at h
    obtain ⟨w1, h1, rfl, _⟩ := h
    exact regGrows_of_eq (routerExec_same h1).registry
  | factory s f m =>
    simp only [exec, bind_ok_iff, pure_ok_iff, Prod.mk.injEq] at h
    obtain ⟨w1, h1, rfl, _⟩ := h
    unfold facExec at h1
    simp only [bind_ok_iff] at h1
    obtain ⟨w0, h0, h1⟩ := h1
    have hs0 := (attach_same h0).1
    refine (regGrows_of_eq hs0.registry).trans ?_
    cases m with
    | updateConfig o tc pc =>
      have h2 : facUpdateConfig w0 s o tc pc = .ok w1 := h1
      rw [facUpdateConfig_inv h2]
      exact regGrows_of_eq rfl
    | createPair a0 a1 req comm lpDec np nl => exact regGrows_createPair h1
    | addDecimals d k =>
      exact regGrows_addDecimals (regOK_same hs0 (sameToks_of_tok_eq (attach_same h0).2) hr) h1
    | migratePair p c =>
      have h2 : facMigratePair w0 s p c = .ok w1 := h1
      rw [facMigratePair_inv h2]
      exact RegGrows.refl _

theorem registry_only_grows {name : Asset → String} {w w' : World} {op : Op} {out : Out} (hr : RegOK w)
    (h : exec name w op = .ok (w', out)) :
    ∀ k R, regLookup k w.registry = some R → ∃ R', regLookup k w'.registry = some R' ∧ R'.pair = R.pair ∧
      R'.lp = R.lp ∧ R'.a0 = R.a0 ∧ R'.a1 = R.a1 ∧ R'.req = R.req ∧ R'.comm = R.comm :=
  regGrows_exec hr h

/-! ### C16: the registry invariant along histories -/

/-- `RegOK` is preserved along every history whose steps satisfy the side conditions of `regOK_step`, and along
it the registry only grows (no assumption on raw identifiers is needed) -/
theorem regOK_run'' {name : Asset → String} (ops : List Op) (w : World) (hr : RegOK w)
    (hrun : RegRun name w ops) : RegOK (run name w ops) ∧ RegGrows w (run name w ops) :=
  run_induct (C := RegStepOK) (I := fun v => RegOK v ∧ RegGrows w v)
    (fun _ _ _ _ hi hc hE => ⟨regOK_step' hi.1 hc.1 hc.2 hE, hi.2.trans (regGrows_exec hi.1 hE)⟩)
    ops w ⟨hr, RegGrows.refl w⟩ hrun

/-- … together with `RawOK`, when moreover newly live assets get fresh raw identifiers (`RawRun`) -/
theorem regOK_run' {name : Asset → String} (ops : List Op) (w : World) (hr : RegOK w) (hraw : RawOK w)
    (hrun : RegRun name w ops) :
    RegOK (run name w ops) ∧ (RawRun name w ops → RawOK (run name w ops)) ∧ RegGrows w (run name w ops) :=
  ⟨(regOK_run'' ops w hr hrun).1, rawOK_run ops w hraw, (regOK_run'' ops w hr hrun).2⟩

theorem regOK_run {name : Asset → String} (ops : List Op) (w : World) (hr : RegOK w) (hraw : RawOK w)
    (hrun : RegRun name w ops) : RegOK (run name w ops) ∧ (RawRun name w ops → RawOK (run name w ops)) :=
  ⟨(regOK_run'' ops w hr hrun).1, rawOK_run ops w hraw⟩

/-- whatever is registered stays registered, for the same pair, after any later history -/
theorem registered_forever {name : Asset → String} (ops : List Op) (w : World) (hr : RegOK w) (_hraw : RawOK w)
    (hrun : RegRun name w ops) :
    ∀ k R, regLookup k w.registry = some R → ∃ R', regLookup k (run name w ops).registry = some R' ∧
      R'.pair = R.pair ∧ R'.lp = R.lp ∧ R'.a0 = R.a0 ∧ R'.a1 = R.a1 ∧ R'.req = R.req ∧ R'.comm = R.comm :=
  (regOK_run'' ops w hr hrun).2

/-- in terms of the factory's pair query: a successful lookup keeps succeeding, in both orders -/
theorem lookup_forever {name : Asset → String} (ops : List Op) (w : World) (hr : RegOK w) (hraw : RawOK w)
    (hrun : RegRun name w ops) {a b : Asset} {R : Record} (h : facLookup w a b = some R) :
    ∃ R', facLookup (run name w ops) a b = some R' ∧ facLookup (run name w ops) b a = some R' ∧
      R'.pair = R.pair ∧ R'.lp = R.lp ∧ R'.a0 = R.a0 ∧ R'.a1 = R.a1 ∧ R'.req = R.req ∧ R'.comm = R.comm := by
  obtain ⟨R', hR', e⟩ := registered_forever ops w hr hraw hrun _ R h
  have hraw' := (envEq_run (name := name) ops w).rawId
  refine ⟨R', ?_, ?_, e⟩
  · unfold facLookup; rw [hraw']; exact hR'
  · unfold facLookup; rw [hraw', Halo.C19.pairKey_comm]; exact hR'

/-- a pair created through the factory can be looked up in both orders after any later history -/
theorem created_registered_forever {name : Asset → String} {w w' : World} {s : Nat} {a0 a1 : Asset}
    {req : Requirements} {comm lpDec : Option Nat} {np nl : Nat} (hr : RegOK w) (hraw : RawOK w)
    (hfresh : w.pair np = none) (h : facCreatePair w s a0 a1 req comm lpDec np nl = .ok w')
    (ops : List Op) (hrun : RegRun name w' ops) :
    ∃ R, facLookup (run name w' ops) a0 a1 = some R ∧ facLookup (run name w' ops) a1 a0 = some R ∧
      R.pair = np ∧ R.lp = nl ∧ R.a0 = a0 ∧ R.a1 = a1 := by
  obtain ⟨R, h1, _, e1, e2, e3, e4⟩ := created_registered hr h
  have hr' := regOK_createPair hr hraw hfresh h
  obtain ⟨R', hR', f1, f2, f3, f4, _, _⟩ := (regOK_run'' ops w' hr' hrun).2 _ R h1
  have hid := (envEq_run (name := name) ops w').rawId
  refine ⟨R', ?_, ?_, f1.trans e1, f2.trans e2, f3.trans e3, f4.trans e4⟩
  · unfold facLookup; rw [hid]; exact hR'
  · unfold facLookup; rw [hid, Halo.C19.pairKey_comm]; exact hR'

/-! ### C07: who can change the supply of an LP token -/

/-- the operations that can change the total supply of the cw20 token `t`: a provision addressed to a pair whose LP
token is `t`; a withdrawal hook delivered by `t` to such a pair (cw20 `Send`, or `SendFrom` by a spender with the
holder's allowance), or the same `Receive` submitted raw with `t` itself as the sender; a burn of a holder's tokens
by the holder (`Burn`) or by a spender with its allowance (`BurnFrom`).  Routes are absent: the router only ever
swaps. -/
def LpChanger (w : World) (op : Op) (t : Nat) : Prop :=
  (∃ s q Q f as0 am0 as1 am1 tol r, w.pair q = some Q ∧ Q.lp = t ∧
      op = .pair s q f (.provide as0 am0 as1 am1 tol r)) ∨
  (∃ s q Q a, w.pair q = some Q ∧ Q.lp = t ∧ op = .tokSend t s q a .withdraw) ∨
  (∃ sp o q Q a, w.pair q = some Q ∧ Q.lp = t ∧ op = .tokSendFrom t sp o q a .withdraw) ∨
  (∃ q Q f from_ a, w.pair q = some Q ∧ Q.lp = t ∧ op = .pair t q f (.receive from_ a .withdraw)) ∨
  (∃ s a, op = .tokBurn t s a) ∨
  (∃ sp o a, op = .tokBurnFrom t sp o a)

theorem exec_moves_lp {name : Asset → String} {w w' : World} {op : Op} {out : Out}
    (h : exec name w op = .ok (w', out)) :
    C07.Moves (FreshOK w op) (fun _ => True) (LpChanger w op) w w' := by
  cases op with
  | bankSend s d cs =>
    simp only [exec, bind_ok_iff, pure_ok_iff, Prod.mk.injEq] at h
    obtain ⟨w1, h1, rfl, _⟩ := h
    exact C07.bankSend_moves (S := fun _ => True) trivial trivial h1
  | tokTransfer t s d a =>
    simp only [exec, bind_ok_iff, pure_ok_iff, Prod.mk.injEq] at h
    obtain ⟨w1, h1, rfl, _⟩ := h
    exact .xfer (S := fun _ => True) trivial trivial h1
  | tokSend t s d a hk =>
    simp only [exec] at h
    unfold tokSend at h
    split at h
    · cases hk with
      | swap offer amt b ms tgt =>
        unfold tokSendPair at h
        simp only [bind_ok_iff] at h
        obtain ⟨w1, h1, h2⟩ := h
        obtain ⟨P, _, _, _, _, w2, o, hs, he⟩ := C14.pairReceive_swap h2
        simp only [Prod.mk.injEq] at he
        obtain ⟨rfl, _⟩ := he
        exact (C07.Moves.xfer (S := fun _ => True) trivial trivial h1).trans
          (C07.pairSwap_moves (S := fun _ => True) hs trivial trivial).1
      | withdraw =>
        have h' := h
        unfold tokSendPair at h'
        simp only [bind_ok_iff] at h'
        obtain ⟨w1, h1, h2⟩ := h'
        obtain ⟨P, hP, ht, _⟩ := C14.pairReceive_withdraw h2
        rw [(tokTransfer_same h1).1.pair] at hP
        subst ht
        refine (C07.tokSendPair_moves (S := fun _ => True) h trivial trivial (fun _ _ => trivial) ?_).1
        intro P2 hP2
        rw [hP] at hP2
        injection hP2 with hP2
        subst hP2
        exact .inr (.inl ⟨s, d, P, a, hP, rfl, rfl⟩)
      | routerOps ops mn tgt =>
        exfalso
        unfold tokSendPair at h
        simp only [bind_ok_iff] at h
        obtain ⟨w1, _, h2⟩ := h
        exact C14.pairReceive_routerOps h2
      | garbage =>
        exfalso
        unfold tokSendPair at h
        simp only [bind_ok_iff] at h
        obtain ⟨w1, _, h2⟩ := h
        exact C14.pairReceive_garbage h2
    · split at h
      · simp only [bind_ok_iff, pure_ok_iff, Prod.mk.injEq] at h
        obtain ⟨w1, h1, w2, h2, rfl, _⟩ := h
        exact (C07.Moves.xfer (S := fun _ => True) trivial trivial h1).trans
          (C07.routerReceive_moves (S := fun _ => True) h2 trivial (fun _ _ => trivial)
            (fun _ => ⟨trivial, fun _ _ => trivial⟩))
      · cases h
  | tokIncAllow t o s a =>
    simp only [exec, bind_ok_iff, pure_ok_iff, Prod.mk.injEq] at h
    obtain ⟨w1, h1, rfl, _⟩ := h
    exact .incAllow (S := fun _ => True) trivial h1
  | tokBurn t s a =>
    simp only [exec, bind_ok_iff, pure_ok_iff, Prod.mk.injEq] at h
    obtain ⟨w1, h1, rfl, _⟩ := h
    exact .burn (S := fun _ => True) trivial (.inr (.inr (.inr (.inr (.inl ⟨s, a, rfl⟩))))) h1
  | pair s p f m =>
    simp only [exec] at h
    cases m with
    | provide as0 am0 as1 am1 tol r =>
      exact C07.pairExec_moves (S := fun _ => True) h trivial trivial
        (fun P hP => ⟨trivial, .inl ⟨s, p, P, f, as0, am0, as1, am1, tol, r, hP, rfl, rfl⟩⟩) (fun _ _ => trivial)
    | swap offer amt b ms tgt =>
      cases offer with
      | token t => exact absurd h C14.pairExec_swap_token
      | native d =>
        obtain ⟨P, w0, w1, o, _, h0, h1, he⟩ := C14.pairExec_swap_native h
        simp only [Prod.mk.injEq] at he
        obtain ⟨rfl, _⟩ := he
        exact (C07.attach_moves (S := fun _ => True) trivial trivial h0).trans
          (C07.pairSwap_moves (S := fun _ => True) h1 trivial trivial).1
    | receive from_ amount hk =>
      obtain ⟨P, w0, hP, h0, h1⟩ := C14.pairExec_receive h
      have hpair := (attach_same h0).1.pair
      refine (C07.attach_moves (S := fun _ => True) trivial trivial h0).trans ?_
      cases hk with
      | swap offer amt b ms tgt =>
        obtain ⟨P', _, _, _, _, w2, o, hs, he⟩ := C14.pairReceive_swap h1
        simp only [Prod.mk.injEq] at he
        obtain ⟨rfl, _⟩ := he
        exact (C07.pairSwap_moves (S := fun _ => True) hs trivial trivial).1
      | withdraw =>
        obtain ⟨P', hP', hs, _⟩ := C14.pairReceive_withdraw h1
        rw [hpair, hP] at hP'
        injection hP' with hP'
        subst hP'
        subst hs
        refine (C07.pairReceive_moves (S := fun _ => True) h1 trivial trivial (fun _ _ => trivial) ?_).1
        intro P2 hP2
        rw [hpair, hP] at hP2
        injection hP2 with hP2
        subst hP2
        exact .inr (.inr (.inr (.inl ⟨p, P, f, from_, amount, hP, rfl, rfl⟩)))
      | routerOps ops mn tgt => exact absurd h1 C14.pairReceive_routerOps
      | garbage => exact absurd h1 C14.pairReceive_garbage
    | updateDecimals d da db =>
      obtain ⟨P, w0, w1, _, h0, h1, he⟩ := C14.pairExec_updateDecimals h
      simp only [Prod.mk.injEq] at he
      obtain ⟨rfl, _⟩ := he
      exact (C07.attach_moves (S := fun _ => True) trivial trivial h0).trans
        (C07.pairUpdateDecimals_ledger h1).1.moves
  | router s f m =>
    simp only [exec, bind_ok_iff, pure_ok_iff, Prod.mk.injEq] at h
    obtain ⟨w1, h1, rfl, _⟩ := h
    refine C07.routerExec_moves (S := fun _ => True) h1 trivial trivial (fun _ _ => trivial) ?_
    cases m with
    | swapOps ops mn tgt => exact fun _ _ => trivial
    | swapOp o a tgt => exact fun _ _ => trivial
    | assertMin a prev mn rcv => trivial
    | receive f' amount hk => exact ⟨trivial, fun _ _ => trivial⟩
  | factory s f m =>
    simp only [exec, bind_ok_iff, pure_ok_iff, Prod.mk.injEq] at h
    obtain ⟨w1, h1, rfl, _⟩ := h
    refine C07.facExec_moves (S := fun _ => True) h1 trivial trivial ?_
    intro hF a0 a1 req c ld np nl hm
    exact (hF s f a0 a1 req c ld np nl (by rw [hm])).2.1
  | tokTransferFrom t sp o d a =>
    simp only [exec, bind_ok_iff, pure_ok_iff, Prod.mk.injEq] at h
    obtain ⟨w1, h1, rfl, _⟩ := h
    exact .xferFrom (S := fun _ => True) trivial trivial h1
  | tokSendFrom t sp o d a hk =>
    simp only [exec] at h
    obtain ⟨w1, h1, ⟨hd, h2⟩ | ⟨_, _, _, h2⟩⟩ := tokSendFrom_ok h
    · refine (C07.Moves.xferFrom (S := fun _ => True) trivial trivial h1).trans ?_
      have hpair := (tokTransferFrom_same h1).1.pair
      cases hk with
      | swap offer amt b ms tgt =>
        obtain ⟨P, _, _, _, _, w2, o2, hs, he⟩ := C14.pairReceive_swap h2
        simp only [Prod.mk.injEq] at he
        obtain ⟨rfl, _⟩ := he
        exact (C07.pairSwap_moves (S := fun _ => True) hs trivial trivial).1
      | withdraw =>
        obtain ⟨P, hP, ht, _⟩ := C14.pairReceive_withdraw h2
        rw [hpair] at hP
        subst ht
        refine (C07.pairReceive_moves (S := fun _ => True) h2 trivial trivial (fun _ _ => trivial) ?_).1
        intro P2 hP2
        rw [hpair, hP] at hP2
        injection hP2 with hP2
        subst hP2
        exact .inr (.inr (.inl ⟨sp, o, d, P, a, hP, rfl, rfl⟩))
      | routerOps ops mn tgt => exact absurd h2 C14.pairReceive_routerOps
      | garbage => exact absurd h2 C14.pairReceive_garbage
    · exact (C07.Moves.xferFrom (S := fun _ => True) trivial trivial h1).trans
        (C07.routerReceive_moves (S := fun _ => True) h2 trivial (fun _ _ => trivial)
          (fun _ => ⟨trivial, fun _ _ => trivial⟩))
  | tokBurnFrom t sp o a =>
    simp only [exec, bind_ok_iff, pure_ok_iff, Prod.mk.injEq] at h
    obtain ⟨w1, h1, rfl, _⟩ := h
    exact .burnFrom (S := fun _ => True) trivial (.inr (.inr (.inr (.inr (.inr ⟨sp, o, a, rfl⟩))))) h1
  | tokDecAllow t o sp a =>
    simp only [exec, bind_ok_iff, pure_ok_iff, Prod.mk.injEq] at h
    obtain ⟨w1, h1, rfl, _⟩ := h
    exact .decAllow (S := fun _ => True) trivial h1

/-- the total supply of a cw20 token `t` is changed only by: a provision addressed to a pair whose LP token is `t`,
a withdrawal hook that `t` delivers to such a pair (`Send`, or `SendFrom` by a spender with the holder's allowance;
or the same `Receive` submitted raw with `t` as sender), or a burn of a holder's tokens by the holder or by a spender
with its allowance (`BurnFrom`).  In particular no route (`SwapOperations` by either entry point), swap, transfer, allowance,
decimals update or factory operation changes it.  (For `t` that is not an LP token this is `supply_non_lp`.) -/
theorem lp_supply_changes_only {name : Asset → String} {w w' : World} {op : Op} {out : Out}
    (h : exec name w op = .ok (w', out)) (hf : FreshOK w op) (t : Nat) :
    supply w' t = supply w t ∨
    (∃ s q Q f as0 am0 as1 am1 tol r, w.pair q = some Q ∧ Q.lp = t ∧
        op = .pair s q f (.provide as0 am0 as1 am1 tol r)) ∨
    (∃ s q Q a, w.pair q = some Q ∧ Q.lp = t ∧ op = .tokSend t s q a .withdraw) ∨
    (∃ sp o q Q a, w.pair q = some Q ∧ Q.lp = t ∧ op = .tokSendFrom t sp o q a .withdraw) ∨
    (∃ q Q f from_ a, w.pair q = some Q ∧ Q.lp = t ∧ op = .pair t q f (.receive from_ a .withdraw)) ∨
    (∃ s a, op = .tokBurn t s a) ∨
    (∃ sp o a, op = .tokBurnFrom t sp o a) := by
  by_cases hq : LpChanger w op t
  · exact .inr hq
  · exact .inl ((exec_moves_lp h).supply_frame hf t hq)

/-- when `p` is the only pair whose LP token is `t`, the provisions and withdrawals are addressed to `p` -/
theorem lp_supply_changes_only_pair {name : Asset → String} {w w' : World} {op : Op} {out : Out}
    (h : exec name w op = .ok (w', out)) (hf : FreshOK w op) (t p : Nat)
    (huniq : ∀ q Q, w.pair q = some Q → Q.lp = t → q = p) :
    supply w' t = supply w t ∨
    (∃ s f as0 am0 as1 am1 tol r, op = .pair s p f (.provide as0 am0 as1 am1 tol r)) ∨
    (∃ s a, op = .tokSend t s p a .withdraw) ∨
    (∃ sp o a, op = .tokSendFrom t sp o p a .withdraw) ∨
    (∃ f from_ a, op = .pair t p f (.receive from_ a .withdraw)) ∨
    (∃ s a, op = .tokBurn t s a) ∨
    (∃ sp o a, op = .tokBurnFrom t sp o a) := by
  rcases lp_supply_changes_only h hf t with e | ⟨s, q, Q, f, as0, am0, as1, am1, tol, r, hQ, hl, rfl⟩ |
    ⟨s, q, Q, a, hQ, hl, rfl⟩ | ⟨sp, o, q, Q, a, hQ, hl, rfl⟩ | ⟨q, Q, f, from_, a, hQ, hl, rfl⟩ | e
  · exact .inl e
  · rw [huniq q Q hQ hl]; exact .inr (.inl ⟨s, f, as0, am0, as1, am1, tol, r, rfl⟩)
  · rw [huniq q Q hQ hl]; exact .inr (.inr (.inl ⟨s, a, rfl⟩))
  · rw [huniq q Q hQ hl]; exact .inr (.inr (.inr (.inl ⟨sp, o, a, rfl⟩)))
  · rw [huniq q Q hQ hl]; exact .inr (.inr (.inr (.inr (.inl ⟨f, from_, a, rfl⟩))))
  · exact .inr (.inr (.inr (.inr (.inr e))))

/-- an operation submitted by an external actor (not a cw20 contract) cannot be the raw `Receive` form -/
theorem lp_supply_changes_only_valid {name : Asset → String} {w w' : World} {op : Op} {out : Out}
    (h : exec name w op = .ok (w', out)) (hv : ValidOp w op) (t : Nat) (hlive : (w.tok t).isSome) :
    supply w' t = supply w t ∨
    (∃ s q Q f as0 am0 as1 am1 tol r, w.pair q = some Q ∧ Q.lp = t ∧
        op = .pair s q f (.provide as0 am0 as1 am1 tol r)) ∨
    (∃ s q Q a, w.pair q = some Q ∧ Q.lp = t ∧ op = .tokSend t s q a .withdraw) ∨
    (∃ sp o q Q a, w.pair q = some Q ∧ Q.lp = t ∧ op = .tokSendFrom t sp o q a .withdraw) ∨
    (∃ s a, op = .tokBurn t s a) ∨
    (∃ sp o a, op = .tokBurnFrom t sp o a) := by
  rcases lp_supply_changes_only h hv.fresh t with e | e | e | e | ⟨q, Q, f, from_, a, _, _, rfl⟩ | e
  · exact .inl e
  · exact .inr (.inl e)
  · exact .inr (.inr (.inl e))
  · exact .inr (.inr (.inr (.inl e)))
  · exfalso
    have hat := hv.actor.2.1
    cases hT : w.tok t with
    | none => rw [hT] at hlive; cases hlive
    | some T =>
      have : (w.tok t).isNone = true := hat
      rw [hT] at this
      cases this
  · exact .inr (.inr (.inr (.inr e)))

/-- the supply of a live cw20 token minted by `p` grows only through a provision addressed to `p` -/
theorem lp_supply_grows_only {name : Asset → String} {w w' : World} {op : Op} {out : Out}
    (h : exec name w op = .ok (w', out)) (hf : FreshOK w op) (t p : Nat)
    (hlive : ∃ T, w.tok t = some T ∧ T.minter = some p) :
    supply w' t ≤ supply w t ∨ ∃ s f as0 am0 as1 am1 tol r, op = .pair s p f (.provide as0 am0 as1 am1 tol r) := by
  by_cases hm : Flows.MintOf op p
  · exact .inr hm
  · exact .inl ((Flows.exec_tr hf h).supply_le hm hlive)

end Halo.Reach
