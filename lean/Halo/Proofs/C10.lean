/-
C10 — proofs: `assert_max_spread` honours `max_spread` and `belief_price`.
-/
import Halo.Proofs.Basic
import Halo.Formulas
import Halo.Spec
import Mathlib.Tactic.Linarith

namespace Halo.C10
open Halo

/-! ### primitives never produce the typed guard error -/

theorem pow10u64_ne_guard (k : Nat) : Cw.pow10u64 k ≠ .error .guard := by
  unfold Cw.pow10u64; split <;> simp

theorem checkedMul_ne_guard (a b : Nat) : Cw.checkedMul a b ≠ .error .guard := by
  unfold Cw.checkedMul; split <;> simp

theorem u256_mul_ne_guard (a b : Nat) : u256.mul a b ≠ .error .guard := by
  unfold u256.mul; split <;> simp

theorem u256_div_ne_guard (a b : Nat) : u256.div a b ≠ .error .guard := by
  unfold u256.div; split <;> simp

theorem u256_add_ne_guard (a b : Nat) : u256.add a b ≠ .error .guard := by
  unfold u256.add; split <;> simp

theorem fromRatio_ne_guard (n d : Nat) : Dec.fromRatio n d ≠ .error .guard := by
  unfold Dec.fromRatio
  split
  · simp
  · intro h
    rcases (bind_error_iff _ _ _).mp h with h | ⟨a, _, h⟩
    · exact u256_mul_ne_guard _ _ h
    · exact u256_div_ne_guard _ _ h

theorem mulRatio_ne_guard (u n d : Nat) : Uint.mulRatio u n d ≠ .error .guard := by
  unfold Uint.mulRatio
  split
  · simp
  · intro h
    rcases (bind_error_iff _ _ _).mp h with h | ⟨a, _, h⟩
    · exact u256_mul_ne_guard _ _ h
    · exact u256_div_ne_guard _ _ h

theorem divDec_ne_guard (u d : Nat) : Uint.divDec u d ≠ .error .guard := by
  unfold Uint.divDec
  split
  · simp
  · split
    · simp
    · exact mulRatio_ne_guard _ _ _

theorem uint_sub_ne_guard (a b : Nat) : Uint.sub a b ≠ .error .guard := by
  unfold Uint.sub; split <;> simp

theorem uint_add_ne_guard (a b : Nat) : Uint.add a b ≠ .error .guard :=
  u256_add_ne_guard a b

theorem normSpread_ne_guard (offer ret spread od rd : Nat) :
    normSpread offer ret spread od rd ≠ .error .guard := by
  unfold normSpread
  split
  · intro h
    rcases (bind_error_iff _ _ _).mp h with h | ⟨k, _, h⟩
    · exact pow10u64_ne_guard _ h
    rcases (bind_error_iff _ _ _).mp h with h | ⟨r, _, h⟩
    · exact checkedMul_ne_guard _ _ h
    rcases (bind_error_iff _ _ _).mp h with h | ⟨s, _, h⟩
    · exact checkedMul_ne_guard _ _ h
    · exact pure_ne_error _ _ h
  · split
    · intro h
      rcases (bind_error_iff _ _ _).mp h with h | ⟨k, _, h⟩
      · exact pow10u64_ne_guard _ h
      rcases (bind_error_iff _ _ _).mp h with h | ⟨r, _, h⟩
      · exact checkedMul_ne_guard _ _ h
      · exact pure_ne_error _ _ h
    · simp

/-! ### normalisation -/

theorem norm_correct {offer ret spread od rd o r s : Nat}
    (h : normSpread offer ret spread od rd = .ok (o, r, s)) :
    (rd < od → o = offer ∧ r = ret * 10 ^ (od - rd) ∧ s = spread * 10 ^ (od - rd)) ∧
    (od < rd → o = offer * 10 ^ (rd - od) ∧ r = ret ∧ s = spread) ∧
    (od = rd → o = offer ∧ r = ret ∧ s = spread) := by
  unfold normSpread at h
  split at h
  · rename_i h1
    simp only [bind_ok_iff, Cw.pow10u64_ok, Cw.checkedMul_ok, pure_ok_iff, Prod.mk.injEq] at h
    obtain ⟨k, ⟨_, rfl⟩, r', ⟨_, rfl⟩, s', ⟨_, rfl⟩, rfl, rfl, rfl⟩ := h
    exact ⟨fun _ => ⟨rfl, rfl, rfl⟩, fun h2 => by omega, fun h2 => by omega⟩
  · split at h
    · rename_i h1 h2
      simp only [bind_ok_iff, Cw.pow10u64_ok, Cw.checkedMul_ok, pure_ok_iff, Prod.mk.injEq] at h
      obtain ⟨k, ⟨_, rfl⟩, o', ⟨_, rfl⟩, rfl, rfl, rfl⟩ := h
      exact ⟨fun h3 => by omega, fun _ => ⟨rfl, rfl, rfl⟩, fun h3 => by omega⟩
    · rename_i h1 h2
      simp only [Except.ok.injEq, Prod.mk.injEq] at h
      obtain ⟨rfl, rfl, rfl⟩ := h
      exact ⟨fun h3 => by omega, fun h3 => by omega, fun _ => ⟨rfl, rfl, rfl⟩⟩

theorem norm_ok_iff {offer ret spread od rd : Nat} :
    (∃ t, normSpread offer ret spread od rd = .ok t) ↔
      (rd < od → 10 ^ (od - rd) < L ∧ ret * 10 ^ (od - rd) < W ∧ spread * 10 ^ (od - rd) < W) ∧
      (od < rd → 10 ^ (rd - od) < L ∧ offer * 10 ^ (rd - od) < W) := by
  unfold normSpread
  split
  · rename_i h1
    simp only [bind_ok_iff, Cw.pow10u64_ok, Cw.checkedMul_ok, pure_ok_iff]
    constructor
    · rintro ⟨t, k, ⟨hk, rfl⟩, r', ⟨hr, rfl⟩, s', ⟨hs, rfl⟩, _⟩
      exact ⟨fun _ => ⟨hk, hr, hs⟩, fun h2 => by omega⟩
    · rintro ⟨h, _⟩
      obtain ⟨hk, hr, hs⟩ := h h1
      exact ⟨_, _, ⟨hk, rfl⟩, _, ⟨hr, rfl⟩, _, ⟨hs, rfl⟩, rfl⟩
  · split
    · rename_i h1 h2
      simp only [bind_ok_iff, Cw.pow10u64_ok, Cw.checkedMul_ok, pure_ok_iff]
      constructor
      · rintro ⟨t, k, ⟨hk, rfl⟩, o', ⟨ho, rfl⟩, _⟩
        exact ⟨fun h3 => by omega, fun _ => ⟨hk, ho⟩⟩
      · rintro ⟨_, h⟩
        obtain ⟨hk, ho⟩ := h h2
        exact ⟨_, _, ⟨hk, rfl⟩, _, ⟨ho, rfl⟩, rfl⟩
    · rename_i h1 h2
      constructor
      · intro _
        exact ⟨fun h3 => by omega, fun h3 => by omega⟩
      · intro _
        exact ⟨_, rfl⟩

/-! ### arithmetic cores -/

theorem belief_sound_arith {o r p ms : Nat} (hp : p ≠ 0)
    (hacc : ¬ r < o * E / p ∨ (o * E / p - r) * E / (o * E / p) ≤ ms)
    (h1 : p < o * E) (h2 : ms < E) :
    (o * E - p) * (E - ms - 1) < r * p * E := by
  have hp0 : 0 < p := Nat.pos_of_ne_zero hp
  have hE := E_pos
  obtain ⟨a, ha⟩ : ∃ a, a + p = o * E := ⟨o * E - p, by omega⟩
  obtain ⟨b, hb⟩ : ∃ b, b + ms + 1 = E := ⟨E - ms - 1, by omega⟩
  have ea : o * E - p = a := by omega
  have eb : E - ms - 1 = b := by omega
  rw [ea, eb]
  generalize hX : o * E / p = X at hacc
  have hX1 : o * E < (X + 1) * p := by
    have e1 := Nat.div_add_mod (o * E) p
    have e2 := Nat.mod_lt (o * E) hp0
    rw [hX] at e1
    nlinarith
  have haX : a < X * p := by nlinarith
  rcases hacc with hr | hr
  · have hr' : X ≤ r := Nat.le_of_not_lt hr
    have s1 : a * b ≤ a * E := Nat.mul_le_mul_left _ (by omega)
    have s2 : a * E < X * p * E := Nat.mul_lt_mul_of_pos_right haX hE
    have s3 : X * p * E ≤ r * p * E :=
      Nat.mul_le_mul_right _ (Nat.mul_le_mul_right _ hr')
    omega
  · by_cases hrX : r < X
    · have hXpos : 0 < X := by omega
      obtain ⟨d, hd⟩ : ∃ d, d + r = X := ⟨X - r, by omega⟩
      have ed : X - r = d := by omega
      rw [ed] at hr
      have h3 : d * E < (ms + 1) * X :=
        (Nat.div_lt_iff_lt_mul hXpos).mp (Nat.lt_succ_of_le hr)
      have h4 : X * b < r * E := by nlinarith
      have s1 : a * b ≤ X * p * b := Nat.mul_le_mul_right _ haX.le
      have s2 : p * (X * b) < p * (r * E) := Nat.mul_lt_mul_of_pos_left h4 hp0
      nlinarith
    · have hr' : X ≤ r := Nat.le_of_not_lt hrX
      have s1 : a * b ≤ a * E := Nat.mul_le_mul_left _ (by omega)
      have s2 : a * E < X * p * E := Nat.mul_lt_mul_of_pos_right haX hE
      have s3 : X * p * E ≤ r * p * E :=
        Nat.mul_le_mul_right _ (Nat.mul_le_mul_right _ hr')
      omega

theorem belief_complete_arith {o r p ms : Nat} (hp : p ≠ 0)
    (hr : r < o * E / p) (hg : ms < (o * E / p - r) * E / (o * E / p)) :
    ms ≤ E ∧ r * p < o * (E - ms) := by
  have hp0 : 0 < p := Nat.pos_of_ne_zero hp
  have hE := E_pos
  generalize hX : o * E / p = X at hr hg
  have hXp : X * p ≤ o * E := by rw [← hX]; exact Nat.div_mul_le_self _ _
  have hXpos : 0 < X := by omega
  obtain ⟨d, hd⟩ : ∃ d, d + r = X := ⟨X - r, by omega⟩
  have ed : X - r = d := by omega
  rw [ed] at hg
  have h3 : (ms + 1) * X ≤ d * E := (Nat.le_div_iff_mul_le hXpos).mp hg
  have hms : ms < E := by
    by_contra hc
    have : E ≤ ms := Nat.le_of_not_lt hc
    have : (E + 1) * X ≤ (ms + 1) * X := Nat.mul_le_mul_right _ (by omega)
    have : d * E ≤ X * E := Nat.mul_le_mul_right _ (by omega)
    nlinarith
  refine ⟨hms.le, ?_⟩
  obtain ⟨c, hc⟩ : ∃ c, c + ms = E := ⟨E - ms, by omega⟩
  have ec : E - ms = c := by omega
  rw [ec]
  -- r * E + (ms + 1) * X ≤ X * E
  have h4 : r * E < X * c := by nlinarith
  have h5 : r * p * E < o * c * E := by
    have s1 : p * (r * E) < p * (X * c) := Nat.mul_lt_mul_of_pos_left h4 hp0
    have s2 : X * p * c ≤ o * E * c := Nat.mul_le_mul_right _ hXp
    nlinarith
  exact Nat.lt_of_mul_lt_mul_right h5

theorem spread_sound_arith {r s ms : Nat} (ht : r + s ≠ 0) (h : ¬ ms < s * E / (r + s)) :
    s * E < (ms + 1) * (r + s) := by
  have hpos : 0 < r + s := Nat.pos_of_ne_zero ht
  exact (Nat.div_lt_iff_lt_mul hpos).mp (Nat.lt_succ_of_le (Nat.le_of_not_lt h))

theorem spread_complete_arith {r s ms : Nat} (ht : r + s ≠ 0) (h : ms < s * E / (r + s)) :
    ms * (r + s) < s * E := by
  have hpos : 0 < r + s := Nat.pos_of_ne_zero ht
  have h1 : (ms + 1) * (r + s) ≤ s * E := (Nat.le_div_iff_mul_le hpos).mp h
  nlinarith

/-! ### the guard -/

theorem belief_sound {p ms offer ret spread od rd o r s : Nat}
    (hn : normSpread offer ret spread od rd = .ok (o, r, s))
    (h : assertMaxSpread (some p) (some ms) offer ret spread od rd = .ok ()) :
    Spec.c10BeliefSound o r p ms = true := by
  simp only [assertMaxSpread, hn, bind_ok_iff, Except.ok.injEq] at h
  obtain ⟨_, rfl, X, hX, h⟩ := h
  obtain ⟨hp, _, rfl⟩ := Uint.divDec_ok.mp hX
  simp only [Spec.c10BeliefSound, Bool.or_eq_true,
    decide_eq_true_eq, Bool.not_eq_eq_eq_not, Bool.not_true, Bool.and_eq_false_imp,
    decide_eq_false_iff_not]
  by_cases hc : p < o * E ∧ ms < E
  · right
    refine belief_sound_arith hp ?_ hc.1 hc.2
    by_cases hr : r < o * E / p
    · right
      rw [if_pos hr] at h
      simp only [bind_ok_iff] at h
      obtain ⟨sp, hsp, ratio, hratio, h⟩ := h
      obtain ⟨_, rfl⟩ := Uint.sub_ok.mp hsp
      obtain ⟨_, _, rfl⟩ := Dec.fromRatio_ok.mp hratio
      by_contra hc2
      rw [if_pos (Nat.lt_of_not_le hc2)] at h
      exact absurd h (by simp)
    · exact Or.inl hr
  · left
    intro h1
    by_contra h2
    exact hc ⟨h1, Nat.lt_of_not_le (by simpa using h2)⟩

theorem belief_complete {p ms offer ret spread od rd o r s : Nat}
    (hn : normSpread offer ret spread od rd = .ok (o, r, s))
    (h : assertMaxSpread (some p) (some ms) offer ret spread od rd = .error .guard) :
    Spec.c10BeliefComplete o r p ms = true := by
  simp only [assertMaxSpread, hn, bind_error_iff, reduceCtorEq, false_or, Except.ok.injEq] at h
  obtain ⟨_, rfl, h⟩ := h
  rcases h with h | ⟨X, hX, h⟩
  · exact absurd h (divDec_ne_guard _ _)
  obtain ⟨hp, _, rfl⟩ := Uint.divDec_ok.mp hX
  simp only [Spec.c10BeliefComplete, Bool.and_eq_true, decide_eq_true_eq]
  by_cases hr : r < o * E / p
  · rw [if_pos hr] at h
    simp only [bind_error_iff] at h
    rcases h with h | ⟨sp, hsp, h⟩
    · exact absurd h (uint_sub_ne_guard _ _)
    obtain ⟨_, rfl⟩ := Uint.sub_ok.mp hsp
    rcases h with h | ⟨ratio, hratio, h⟩
    · exact absurd h (fromRatio_ne_guard _ _)
    obtain ⟨_, _, rfl⟩ := Dec.fromRatio_ok.mp hratio
    by_cases hg : ms < (o * E / p - r) * E / (o * E / p)
    · exact belief_complete_arith hp hr hg
    · rw [if_neg hg] at h
      exact absurd h (by simp)
  · rw [if_neg hr] at h
    exact absurd h (by simp)

theorem spread_sound {ms offer ret spread od rd o r s : Nat}
    (hn : normSpread offer ret spread od rd = .ok (o, r, s))
    (h : assertMaxSpread none (some ms) offer ret spread od rd = .ok ()) :
    Spec.c10SpreadSound r s ms = true := by
  simp only [assertMaxSpread, hn, bind_ok_iff, Except.ok.injEq] at h
  obtain ⟨_, rfl, tot, htot, ratio, hratio, h⟩ := h
  obtain ⟨_, rfl⟩ := Uint.add_ok.mp htot
  obtain ⟨ht, _, rfl⟩ := Dec.fromRatio_ok.mp hratio
  simp only [Spec.c10SpreadSound, decide_eq_true_eq]
  refine spread_sound_arith ht ?_
  intro hg
  rw [if_pos hg] at h
  exact absurd h (by simp)

theorem spread_complete {ms offer ret spread od rd o r s : Nat}
    (hn : normSpread offer ret spread od rd = .ok (o, r, s))
    (h : assertMaxSpread none (some ms) offer ret spread od rd = .error .guard) :
    Spec.c10SpreadComplete r s ms = true := by
  simp only [assertMaxSpread, hn, bind_error_iff, reduceCtorEq, false_or, Except.ok.injEq] at h
  obtain ⟨_, rfl, h⟩ := h
  rcases h with h | ⟨tot, htot, h⟩
  · exact absurd h (uint_add_ne_guard _ _)
  obtain ⟨_, rfl⟩ := Uint.add_ok.mp htot
  rcases h with h | ⟨ratio, hratio, h⟩
  · exact absurd h (fromRatio_ne_guard _ _)
  obtain ⟨ht, _, rfl⟩ := Dec.fromRatio_ok.mp hratio
  simp only [Spec.c10SpreadComplete, decide_eq_true_eq]
  by_cases hg : ms < s * E / (r + s)
  · exact spread_complete_arith ht hg
  · rw [if_neg hg] at h
    exact absurd h (by simp)

theorem no_limit_no_guard {belief : Option Nat} {offer ret spread od rd : Nat} :
    assertMaxSpread belief none offer ret spread od rd ≠ .error .guard := by
  intro h
  simp only [assertMaxSpread, bind_error_iff] at h
  rcases h with h | ⟨⟨o, r, s⟩, _, h⟩
  · exact normSpread_ne_guard _ _ _ _ _ h
  · exact absurd h (by simp)

theorem guard_needs_norm {belief ms : Option Nat} {offer ret spread od rd : Nat}
    (h : assertMaxSpread belief ms offer ret spread od rd = .error .guard) :
    ∃ t, normSpread offer ret spread od rd = .ok t := by
  simp only [assertMaxSpread, bind_error_iff] at h
  rcases h with h | ⟨t, ht, _⟩
  · exact absurd h (normSpread_ne_guard _ _ _ _ _)
  · exact ⟨t, ht⟩

end Halo.C10
