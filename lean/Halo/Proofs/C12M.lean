/-
Proofs for the ask-monotonicity statement of C12 (`Halo/Props/C12.lean`).
-/
import Halo.Proofs.C12

namespace Halo.C12
open Halo

/-- asking for more never quotes a smaller required offer (same reserves and rate) -/
theorem reverse_mono_ask {x y b b' c o s k o' s' k' : Nat}
    (h : computeOfferAmount x y b c = .ok (o, s, k))
    (h' : computeOfferAmount x y b' c = .ok (o', s', k')) (hb : b ≤ b') : o ≤ o' := by
  obtain ⟨-, -, -, rfl, -⟩ := inversion h
  obtain ⟨-, hlt', -, rfl, -⟩ := inversion h'
  have ht : b * (E * E / (E - c)) / E ≤ b' * (E * E / (E - c)) / E :=
    Nat.div_le_div_right (Nat.mul_le_mul_right _ hb)
  apply Nat.sub_le_sub_right
  exact Nat.div_le_div_left (by omega) (by omega)
end Halo.C12
