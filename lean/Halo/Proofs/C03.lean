/-
Proofs for C03 (LP share value never decreases): the order `NonDecr` is reflexive and transitive and
lifts to histories; provisions, withdrawals, out-of-window swaps, donations and burns respect it; the
three pricing functions satisfy the premises.  Statements live in `Halo/Props/C03.lean`.
-/
import Halo.Inv
import Halo.Proofs.C01
import Halo.Proofs.C04
import Mathlib.Tactic.Linarith
import Mathlib.Tactic.Ring

namespace Halo.C03
open Halo

/-! ### the order -/

theorem nonDecr_iff {a b c a' b' c' : Nat} :
    NonDecr (a, b, c) (a', b', c') ↔ (0 < c → 0 < c' ∧ a * b * (c' * c') ≤ a' * b' * (c * c)) :=
  Iff.rfl

theorem nonDecr_refl (v : Nat × Nat × Nat) : NonDecr v v := fun h => ⟨h, Nat.le_refl _⟩

theorem nonDecr_trans {a b c : Nat × Nat × Nat} (h1 : NonDecr a b) (h2 : NonDecr b c) :
    NonDecr a c := by
  obtain ⟨a0, a1, aS⟩ := a
  obtain ⟨b0, b1, bS⟩ := b
  obtain ⟨c0, c1, cS⟩ := c
  rw [nonDecr_iff] at *
  intro ha
  obtain ⟨hb, e1⟩ := h1 ha
  obtain ⟨hc, e2⟩ := h2 hb
  refine ⟨hc, ?_⟩
  have hbb : 0 < bS * bS := Nat.mul_pos hb hb
  apply Nat.le_of_mul_le_mul_right _ hbb
  calc a0 * a1 * (cS * cS) * (bS * bS) = a0 * a1 * (bS * bS) * (cS * cS) := by ring
    _ ≤ b0 * b1 * (aS * aS) * (cS * cS) := Nat.mul_le_mul_right _ e1
    _ = b0 * b1 * (cS * cS) * (aS * aS) := by ring
    _ ≤ c0 * c1 * (bS * bS) * (aS * aS) := Nat.mul_le_mul_right _ e2
    _ = c0 * c1 * (aS * aS) * (bS * bS) := by ring

theorem nonDecr_chain (v : Nat × Nat × Nat) (vs : List (Nat × Nat × Nat))
    (h : List.IsChain NonDecr (v :: vs)) :
    NonDecr v ((v :: vs).getLast (List.cons_ne_nil _ _)) := by
  induction vs generalizing v with
  | nil => exact nonDecr_refl v
  | cons w ws ih =>
    rw [List.isChain_cons_cons] at h
    rw [List.getLast_cons_cons]
    exact nonDecr_trans h.1 (ih w h.2)

/-! ### the steps -/

/-- both reserves-per-share ratios do not decrease ⇒ the share value does not -/
theorem of_ratios {r0 r1 S r0' r1' S' : Nat}
    (h : 0 < S → 0 < S' ∧ r0 * S' ≤ r0' * S ∧ r1 * S' ≤ r1' * S) :
    NonDecr (r0, r1, S) (r0', r1', S') := by
  rw [nonDecr_iff]
  intro hS
  obtain ⟨hS', e0, e1⟩ := h hS
  refine ⟨hS', ?_⟩
  calc r0 * r1 * (S' * S') = (r0 * S') * (r1 * S') := by ring
    _ ≤ (r0' * S) * (r1' * S) := Nat.mul_le_mul e0 e1
    _ = r0' * r1' * (S * S) := by ring

theorem provide_nondecr {r0 r1 S d0 d1 m : Nat} (h0 : m * r0 ≤ d0 * S) (h1 : m * r1 ≤ d1 * S) :
    NonDecr (r0, r1, S) (r0 + d0, r1 + d1, S + m) := by
  apply of_ratios
  intro hS
  refine ⟨by omega, ?_, ?_⟩
  · calc r0 * (S + m) = r0 * S + m * r0 := by ring
      _ ≤ r0 * S + d0 * S := Nat.add_le_add_left h0 _
      _ = (r0 + d0) * S := by ring
  · calc r1 * (S + m) = r1 * S + m * r1 := by ring
      _ ≤ r1 * S + d1 * S := Nat.add_le_add_left h1 _
      _ = (r1 + d1) * S := by ring

private theorem withdraw_ratio {r x S a : Nat} (h : x * S ≤ r * a) (ha : a < S) :
    r * (S - a) ≤ (r - x) * S := by
  have hS : 0 < S := by omega
  have hx : x ≤ r := by
    have : x * S ≤ r * S := Nat.le_trans h (Nat.mul_le_mul_left r (Nat.le_of_lt ha))
    exact Nat.le_of_mul_le_mul_right this hS
  obtain ⟨t, rfl⟩ := Nat.exists_eq_add_of_le hx
  obtain ⟨u, rfl⟩ := Nat.exists_eq_add_of_le (Nat.le_of_lt ha)
  rw [Nat.add_sub_cancel_left, Nat.add_sub_cancel_left]
  have e : x * (a + u) = x * a + x * u := by ring
  have e' : (x + t) * a = x * a + t * a := by ring
  have hxu : x * u ≤ t * a := by omega
  calc (x + t) * u = x * u + t * u := by ring
    _ ≤ t * a + t * u := Nat.add_le_add_right hxu _
    _ = t * (a + u) := by ring

theorem withdraw_nondecr {r0 r1 S x0 x1 a : Nat} (h0 : x0 * S ≤ r0 * a) (h1 : x1 * S ≤ r1 * a)
    (ha : a < S) : NonDecr (r0, r1, S) (r0 - x0, r1 - x1, S - a) := by
  apply of_ratios
  intro _
  exact ⟨by omega, withdraw_ratio h0 ha, withdraw_ratio h1 ha⟩

theorem swap_nondecr {x y x' y' S : Nat} (h : x * y ≤ x' * y') : NonDecr (x, y, S) (x', y', S) := by
  rw [nonDecr_iff]
  intro hS
  exact ⟨hS, Nat.mul_le_mul_right _ h⟩

theorem donation_nondecr (r0 r1 S e0 e1 : Nat) : NonDecr (r0, r1, S) (r0 + e0, r1 + e1, S) :=
  swap_nondecr (Nat.mul_le_mul (Nat.le_add_right _ _) (Nat.le_add_right _ _))

theorem burn_nondecr {r0 r1 S b : Nat} (hb : b < S) : NonDecr (r0, r1, S) (r0, r1, S - b) := by
  rw [nonDecr_iff]
  intro _
  exact ⟨by omega, Nat.mul_le_mul_left _ (Nat.mul_le_mul (Nat.sub_le _ _) (Nat.sub_le _ _))⟩

/-! ### the pricing functions -/

theorem lpShare_nondecr {sender : Nat} {req : Requirements} {S d0 d1 p0 p1 m : Nat}
    (hS : S ≠ 0) (h : lpShare sender req S d0 d1 p0 p1 = .ok m) :
    NonDecr (p0, p1, S) (p0 + d0, p1 + d1, S + m) := by
  have hb := Halo.C04.share_bounds_pos hS h
  simp only [Spec.c05Pos, Bool.and_eq_true, Bool.or_eq_true, decide_eq_true_eq] at hb
  exact provide_nondecr hb.1.1 hb.1.2

private theorem refund_prem {r a S x : Nat} (h : withdrawRefund r a S = .ok x) (ha : a < S) :
    x * S ≤ r * a := by
  rcases Nat.eq_zero_or_pos a with rfl | hpos
  · obtain ⟨-, -, -, rfl⟩ := Halo.C04.refund_ok_iff.mp h
    simp
  · have hb := Halo.C04.refund_bounds h hpos (Nat.le_of_lt ha)
    simp only [Spec.c04, Bool.and_eq_true, decide_eq_true_eq] at hb
    exact hb.1

theorem refund_nondecr {r0 r1 a S x0 x1 : Nat}
    (h0 : withdrawRefund r0 a S = .ok x0) (h1 : withdrawRefund r1 a S = .ok x1) (ha : a < S) :
    NonDecr (r0, r1, S) (r0 - x0, r1 - x1, S - a) :=
  withdraw_nondecr (refund_prem h0 ha) (refund_prem h1 ha) ha

theorem computeSwap_nondecr {x y a c n s k S : Nat}
    (h : computeSwap x y a c = .ok (n, s, k)) (hw : inWindow x y a = false) :
    NonDecr (x, y, S) (x + a, y - n, S) ∧ NonDecr (y, x, S) (y - n, x + a, S) := by
  have hp : x * y ≤ (x + a) * (y - n) := by
    rcases Nat.eq_zero_or_pos y with rfl | hy
    · simp
    · have hc := Halo.C01.c01Reserves_of_not_window h hw hy
      simp only [Spec.c01Reserves, Bool.and_eq_true, decide_eq_true_eq] at hc
      exact hc.1
  refine ⟨swap_nondecr hp, swap_nondecr ?_⟩
  rw [Nat.mul_comm y x, Nat.mul_comm (y - n)]
  exact hp

/-! ### the unrestricted statement fails -/

theorem C03_full_is_false :
    computeSwap 340282366920938463463374607431 340282366920938463463374607431 1 30000000000000000
        = .ok (1, 0, 0) ∧
    ¬ NonDecr (340282366920938463463374607431, 340282366920938463463374607431,
                340282366920938463463374607431)
              (340282366920938463463374607431 + 1, 340282366920938463463374607431 - 1,
                340282366920938463463374607431) := by
  refine ⟨by decide, ?_⟩
  rw [nonDecr_iff]
  decide

end Halo.C03
