/-
C03 / C20 from genesis — proofs.  `PairInv` is established by the factory's `CreatePair`
(`created_pair_inv`) and preserved along every history of external actors' operations (`pairInv_run`,
in-window swaps included); hence the history theorem from creation (`history_from_creation`) and the
liveness of withdrawals after any history (`withdraw_live_after_history`, `withdraw_live_from_creation`).
Statements live in `Halo/Props/C03G.lean` and `Halo/Props/C20W.lean`.  Core Lean only.
-/
import Halo.Inv
import Halo.Proofs.C03W
import Halo.Proofs.Liquidity
import Halo.Proofs.RegOK

namespace Halo.C03G
open Halo

/-! ### creation -/

/-- the factory's decimals query on a cw20 asset succeeds only for a live token contract -/
theorem tok_live_of_decimals {w : World} {t d : Nat} (h : assetDecimals w (.token t) = .ok d) :
    (w.tok t).isSome := by
  unfold assetDecimals at h
  cases hT : w.tok t with
  | none => simp [hT] at h
  | some T => rfl

theorem sum_map_zero {g : Nat → Nat} (hg : ∀ x, g x = 0) : ∀ L : List Nat, (L.map g).sum = 0
  | [] => rfl
  | x :: L => by
    rw [List.map_cons, List.sum_cons, hg x, sum_map_zero hg L]

/-- a successful `CreatePair` establishes the invariant for the new pair (with zero LP supply) -/
theorem created_pair_inv {name : Asset → String} {w w' : World} {s : Nat} {f : List (Nat × Nat)}
    {a0 a1 : Asset} {req : Requirements} {c ld : Option Nat} {np nl : Nat} {out : Out}
    (hv : ValidOp w (.factory s f (.createPair a0 a1 req c ld np nl))) (hn : NewAddrs w np nl)
    (h : exec name w (.factory s f (.createPair a0 a1 req c ld np nl)) = .ok (w', out)) :
    PairInv w' np a0 a1 nl ∧ supply w' nl = 0 := by
  obtain ⟨_, htl, _⟩ := hv.fresh s f a0 a1 req c ld np nl rfl
  simp only [exec, bind_ok_iff, pure_ok_iff, Prod.mk.injEq] at h
  obtain ⟨w1, h1, rfl, _⟩ := h
  unfold facExec at h1
  simp only [bind_ok_iff] at h1
  obtain ⟨w0, h0, h1⟩ := h1
  obtain ⟨sm, htok⟩ := attach_same h0
  have htl0 : w0.tok nl = none := by rw [htok]; exact htl
  obtain ⟨_, hne, _, d0, d1, hd0, hd1, _, rfl⟩ := RegOKP.facCreatePair_inv h1
  -- a live token is not the freshly allocated LP token
  have hlive : ∀ (a : Asset) (d t : Nat), assetDecimals w0 a = .ok d → a = .token t →
      t ≠ nl ∧ (w0.tok t).isSome := by
    intro a d t hd e
    subst e
    have hl := tok_live_of_decimals hd
    refine ⟨?_, hl⟩
    intro e
    subst e
    rw [htl0] at hl
    cases hl
  have hsup : supply
      { w0 with
        pair := fun a => if a = np then some
          { a0 := a0, a1 := a1, d0 := d0, d1 := d1, lp := nl, comm := c.getD defaultCommission, req := req,
            factory := w0.facAddr } else w0.pair a
        tok := fun a => if a = nl then some
          { bal := fun _ => 0, allow := fun _ _ => none, supply := 0, minter := some np, decimals := ld.getD 6 } else w0.tok a
        registry := regInsert (pairKey (w0.rawId a0) (w0.rawId a1))
          { a0 := a0, a1 := a1, pair := np, lp := nl, d0 := d0, d1 := d1, req := req,
            comm := c.getD defaultCommission } w0.registry } nl = 0 := by
    simp [supply]
  refine ⟨⟨?_, hne, ?_, ?_, ?_, ?_, ?_, ?_, ?_, ?_, ?_, ?_, ?_⟩, hsup⟩
  · exact ⟨_, if_pos rfl, rfl, rfl, rfl⟩
  · intro e
    exact (hlive a0 d0 nl hd0 e).1 rfl
  · intro e
    exact (hlive a1 d1 nl hd1 e).1 rfl
  · exact ⟨_, if_pos rfl, rfl⟩
  · intro t e
    obtain ⟨k1, k2⟩ := hlive a0 d0 t hd0 e
    show (if t = nl then _ else w0.tok t).isSome = true
    rw [if_neg k1]
    exact k2
  · intro t e
    obtain ⟨k1, k2⟩ := hlive a1 d1 t hd1 e
    show (if t = nl then _ else w0.tok t).isSome = true
    rw [if_neg k1]
    exact k2
  · intro L _
    rw [hsup]
    refine Nat.le_of_eq ?_
    unfold sumBal
    refine sum_map_zero ?_ L
    intro x
    simp [bal]
  · intro hpos
    rw [hsup] at hpos
    cases hpos
  · show (if nl = np then _ else w0.pair nl).isNone = true
    rw [if_neg (Ne.symm hn.ne), sm.pair, hn.pairFree]
    rfl
  · show nl ≠ w0.router
    rw [sm.router]
    exact hn.nlNotRouter
  · show np ≠ w0.router
    rw [sm.router]
    exact hn.npNotRouter
  · -- the new LP token starts without allowances; on the existing tokens the fresh addresses have granted none
    intro t T hT sp
    have hT' : (if t = nl then some
        ({ bal := fun _ => 0, allow := fun _ _ => none, supply := 0, minter := some np, decimals := ld.getD 6 } : Token)
        else w0.tok t) = some T := hT
    by_cases ht : t = nl
    · rw [if_pos ht] at hT'
      injection hT' with hT'
      subst hT'
      exact ⟨rfl, rfl⟩
    · rw [if_neg ht, htok] at hT'
      exact hn.noAllow t T hT' sp

/-! ### preservation along histories -/

theorem pairInv_run' {name : Asset → String} {p : Nat} {a0 a1 : Asset} {lp : Nat} :
    ∀ (ops : List Op) (w : World), PairInv w p a0 a1 lp → ValidRun name w ops →
      PairInv (run name w ops) p a0 a1 lp
  | [], _, hinv, _ => hinv
  | op :: rest, w, hinv, hv => by
    simp only [ValidRun] at hv
    obtain ⟨hv1, hv2⟩ := hv
    rw [C03W.run_cons]
    cases hE : exec name w op with
    | error e =>
      have hst : step name w op = w := by unfold step; rw [hE]
      rw [hst] at hv2 ⊢
      exact pairInv_run' rest w hinv hv2
    | ok r =>
      obtain ⟨w1, out⟩ := r
      have hst : step name w op = w1 := by unfold step; rw [hE]
      rw [hst] at hv2 ⊢
      exact pairInv_run' rest w1 (C03W.step_nondecr hinv hv1 hE).1 hv2

/-- the invariant is preserved along every history of external actors' operations (in-window swaps included) -/
theorem pairInv_run {name : Asset → String} {p : Nat} {a0 a1 : Asset} {lp : Nat} (ops : List Op) (w : World)
    (hinv : PairInv w p a0 a1 lp) (hv : ValidRun name w ops) :
    PairInv (run name w ops) p a0 a1 lp :=
  pairInv_run' ops w hinv hv

/-- **C03_partial from genesis**: from the creation of a pair on, along any history none of whose swaps on the
pair is in the window, the share value never decreases between any two points of the history -/
theorem history_from_creation {name : Asset → String} {w w1 : World} {s : Nat} {f : List (Nat × Nat)}
    {a0 a1 : Asset} {req : Requirements} {c ld : Option Nat} {np nl : Nat} {out : Out}
    (hv : ValidOp w (.factory s f (.createPair a0 a1 req c ld np nl))) (hn : NewAddrs w np nl)
    (h : exec name w (.factory s f (.createPair a0 a1 req c ld np nl)) = .ok (w1, out))
    (ops₁ ops₂ : List Op) (hv₁ : ValidRun name w1 ops₁) (hv₂ : ValidRun name (run name w1 ops₁) ops₂)
    (hnw : NoWindowRun name np (run name w1 ops₁) ops₂) :
    NonDecr (viewOf (run name w1 ops₁) np a0 a1 nl) (viewOf (run name (run name w1 ops₁) ops₂) np a0 a1 nl) :=
  (C03W.history_nondecr ops₂ (run name w1 ops₁)
    (pairInv_run ops₁ w1 (created_pair_inv hv hn h).1 hv₁) hv₂ hnw).2

/-! ### C20 over histories -/

/-- in any world satisfying the invariant a holder's withdrawal with the stated entitlement succeeds -/
theorem withdraw_live_inv {name : Asset → String} {w : World} {p : Nat} {a0 a1 : Asset} {lp : Nat}
    (hI : PairInv w p a0 a1 lp) {h a : Nat} (hhp : h ≠ p) (hvalid : w.badAddr h = false) (ha1 : 1 ≤ a)
    (hab : a ≤ bal w (.token lp) h)
    (hr0 : bal w a0 p < W) (hr1 : bal w a1 p < W) (hSW : supply w lp < W)
    (hent0 : (bal w a0 p + 2 * E) * supply w lp ≤ bal w a0 p * a * E)
    (hent1 : (bal w a1 p + 2 * E) * supply w lp ≤ bal w a1 p * a * E) :
    ∃ w' x0 x1, exec name w (.tokSend lp h p a .withdraw) = .ok (w', .withdraw x0 x1) ∧ 2 ≤ x0 ∧ 2 ≤ x1 := by
  obtain ⟨P, hP, e0, e1, e2⟩ := hI.pair
  subst e0 e1 e2
  obtain ⟨T, hT, _⟩ := hI.lpLive
  obtain ⟨w', x0, x1, hh, b0, b1⟩ := Liquidity.withdraw_live hP hhp hvalid hI.distinct hI.notLp0 hI.notLp1
    (by rw [hT]; rfl) hI.live0 hI.live1 ha1 hab (Nat.le_trans hab (Liquidity.tokSumOK_holder hI.sumOK))
    hr0 hr1 hSW hent0 hent1
  refine ⟨w', x0, x1, ?_, b0, b1⟩
  simp only [exec]
  unfold tokSend
  rw [if_pos (by rw [hP]; rfl)]
  exact hh

theorem withdraw_live_after_history {name : Asset → String} {p : Nat} {a0 a1 : Asset} {lp : Nat}
    (ops : List Op) (w : World) (hinv : PairInv w p a0 a1 lp) (hv : ValidRun name w ops)
    {h a : Nat} (hhp : h ≠ p) (hvalid : w.badAddr h = false) (ha1 : 1 ≤ a)
    (hab : a ≤ bal (run name w ops) (.token lp) h)
    (hr0 : bal (run name w ops) a0 p < W) (hr1 : bal (run name w ops) a1 p < W)
    (hSW : supply (run name w ops) lp < W)
    (hent0 : (bal (run name w ops) a0 p + 2 * E) * supply (run name w ops) lp ≤ bal (run name w ops) a0 p * a * E)
    (hent1 : (bal (run name w ops) a1 p + 2 * E) * supply (run name w ops) lp ≤ bal (run name w ops) a1 p * a * E) :
    ∃ w' x0 x1, exec name (run name w ops) (.tokSend lp h p a .withdraw) = .ok (w', .withdraw x0 x1) ∧
      2 ≤ x0 ∧ 2 ≤ x1 :=
  withdraw_live_inv (pairInv_run ops w hinv hv) hhp (by rw [RegOKP.badAddr_run]; exact hvalid) ha1 hab hr0 hr1 hSW hent0 hent1

/-- the same from genesis: the pair was created by the factory, then anything happened -/
theorem withdraw_live_from_creation {name : Asset → String} {w w1 : World} {s : Nat} {f : List (Nat × Nat)}
    {a0 a1 : Asset} {req : Requirements} {c ld : Option Nat} {np nl : Nat} {out : Out}
    (hv : ValidOp w (.factory s f (.createPair a0 a1 req c ld np nl))) (hn : NewAddrs w np nl)
    (hc : exec name w (.factory s f (.createPair a0 a1 req c ld np nl)) = .ok (w1, out))
    (ops : List Op) (hvr : ValidRun name w1 ops)
    {h a : Nat} (hhp : h ≠ np) (hvalid : w.badAddr h = false) (ha1 : 1 ≤ a)
    (hab : a ≤ bal (run name w1 ops) (.token nl) h)
    (hr0 : bal (run name w1 ops) a0 np < W) (hr1 : bal (run name w1 ops) a1 np < W)
    (hSW : supply (run name w1 ops) nl < W)
    (hent0 : (bal (run name w1 ops) a0 np + 2 * E) * supply (run name w1 ops) nl ≤ bal (run name w1 ops) a0 np * a * E)
    (hent1 : (bal (run name w1 ops) a1 np + 2 * E) * supply (run name w1 ops) nl ≤ bal (run name w1 ops) a1 np * a * E) :
    ∃ w' x0 x1, exec name (run name w1 ops) (.tokSend nl h np a .withdraw) = .ok (w', .withdraw x0 x1) ∧
      2 ≤ x0 ∧ 2 ≤ x1 :=
  withdraw_live_after_history ops w1 (created_pair_inv hv hn hc).1 hvr hhp (by rw [RegOKP.badAddr_exec hc]; exact hvalid) ha1 hab hr0 hr1 hSW hent0 hent1

end Halo.C03G
