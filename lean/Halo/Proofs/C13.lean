/-
C13 proofs — the router's route-shape check and the pass-through property of a hop.

  * `mem_step`, `danglingAsks_snoc`, `mem_danglingAsks`, `danglingAsks_nodup` : what `assert_operations` computes,
  * `routerHop_native_ok`, `routerHop_token_ok` : inversion of `execute_swap_operation`,
  * `hop_effect` : the complete effect of one hop on every balance, and `sim = exec` for the hop,
  * `hop_spends_whole_balance`, `single_hop_passthrough'`.
Core Lean only.
-/
import Halo.Proofs.C02

namespace Halo.C13
open Halo Halo.C02

/-! ### `assert_operations` -/

/-- one iteration of the loop of `assert_operations` -/
def step (m : List String) (op : String × String) : List String :=
  (m.filter (· ≠ op.1)).filter (· ≠ op.2) ++ [op.2]

theorem danglingAsks_eq (ops : List (String × String)) : danglingAsks ops = ops.foldl step [] := rfl

theorem danglingAsks_snoc (ops : List (String × String)) (op : String × String) :
    danglingAsks (ops ++ [op]) = step (danglingAsks ops) op := by
  simp only [danglingAsks_eq, List.foldl_append, List.foldl_cons, List.foldl_nil]

theorem mem_step {m : List String} {op : String × String} {x : String} :
    x ∈ step m op ↔ x = op.2 ∨ (x ∈ m ∧ x ≠ op.1 ∧ x ≠ op.2) := by
  simp only [step, List.mem_append, List.mem_filter, List.mem_singleton, decide_eq_true_eq]
  constructor
  · rintro (⟨⟨h1, h2⟩, h3⟩ | h)
    · exact Or.inr ⟨h1, h2, h3⟩
    · exact Or.inl h
  · rintro (h | ⟨h1, h2, h3⟩)
    · exact Or.inr h
    · exact Or.inl ⟨⟨h1, h2⟩, h3⟩

theorem nodup_step {m : List String} {op : String × String} (h : m.Nodup) : (step m op).Nodup := by
  unfold step
  rw [List.nodup_append]
  refine ⟨(h.sublist List.filter_sublist).sublist List.filter_sublist, by simp, ?_⟩
  intro a ha b hb
  simp only [List.mem_filter, decide_eq_true_eq] at ha
  simp only [List.mem_singleton] at hb
  subst hb
  exact ha.2

@[elab_as_elim]
theorem rev_ind {α} {P : List α → Prop} (nil : P []) (snoc : ∀ l a, P l → P (l ++ [a])) : ∀ l, P l := by
  intro l
  rw [← List.reverse_reverse l]
  induction l.reverse with
  | nil => exact nil
  | cons a t ih => rw [List.reverse_cons]; exact snoc _ _ ih

theorem danglingAsks_nodup (ops : List (String × String)) : (danglingAsks ops).Nodup := by
  induction ops using rev_ind with
  | nil => exact List.nodup_nil
  | snoc ops op ih => rw [danglingAsks_snoc]; exact nodup_step ih

theorem mem_danglingAsks_nat (ops : List (String × String)) : ∀ x, x ∈ danglingAsks ops ↔
    ∃ i, ∃ _ : i < ops.length, ops[i].2 = x ∧ ∀ j, ∀ _ : j < ops.length, i < j → ops[j].1 ≠ x := by
  induction ops using rev_ind with
  | nil => intro x; simp [danglingAsks]
  | snoc ops op ih =>
    intro x
    rw [danglingAsks_snoc, mem_step, ih]
    constructor
    · rintro (rfl | ⟨⟨i, hi, hx, hj⟩, h1, h2⟩)
      · refine ⟨ops.length, by simp, by simp, ?_⟩
        intro j hj hlt
        simp at hj; omega
      · refine ⟨i, by simp; omega, by rw [List.getElem_append_left hi]; exact hx, ?_⟩
        intro j hj' hlt
        by_cases hjl : j < ops.length
        · rw [List.getElem_append_left hjl]; exact hj j hjl hlt
        · have hje : j = ops.length := by simp at hj'; omega
          subst hje
          simp only [List.getElem_append_right (Nat.le_refl _), Nat.sub_self, List.getElem_cons_zero]
          exact Ne.symm h1
    · rintro ⟨i, hi, hx, hj⟩
      by_cases hil : i < ops.length
      · rw [List.getElem_append_left hil] at hx
        have h1 : op.1 ≠ x := by
          have := hj ops.length (by simp) hil
          simpa using this
        by_cases h2 : x = op.2
        · exact Or.inl h2
        · refine Or.inr ⟨⟨i, hil, hx, fun j hjl hlt => ?_⟩, Ne.symm h1, h2⟩
          have := hj j (by simp; omega) hlt
          rwa [List.getElem_append_left hjl] at this
      · have hie : i = ops.length := by simp at hi; omega
        subst hie
        left
        simpa using hx.symm

theorem mem_danglingAsks {ops : List (String × String)} {x : String} :
    x ∈ danglingAsks ops ↔
      ∃ i : Fin ops.length, (ops.get i).2 = x ∧ ∀ j : Fin ops.length, i < j → (ops.get j).1 ≠ x := by
  rw [mem_danglingAsks_nat]
  constructor
  · rintro ⟨i, hi, hx, hj⟩
    exact ⟨⟨i, hi⟩, hx, fun j hlt => hj j.1 j.2 hlt⟩
  · rintro ⟨i, hx, hj⟩
    exact ⟨i.1, i.2, hx, fun j hj' hlt => hj ⟨j, hj'⟩ hlt⟩

theorem assertOperations_iff (ops : List (String × String)) :
    assertOperations ops = .ok () ↔ (danglingAsks ops).length = 1 := by
  unfold assertOperations
  split
  · simp_all
  · simp_all

theorem two_outputs_rejected {o1 a1 o2 a2 : String} (h1 : a1 ≠ o2) (h2 : a1 ≠ a2) :
    assertOperations [(o1, a1), (o2, a2)] = .error .err := by
  have hd : danglingAsks [(o1, a1), (o2, a2)] = [a1, a2] := by
    simp [danglingAsks, h1, h2]
  unfold assertOperations
  rw [hd]
  rfl

theorem chain2_accepted {a b c : String} (h : b ≠ c) : assertOperations [(a, b), (b, c)] = .ok () := by
  have hd : danglingAsks [(a, b), (b, c)] = [c] := by
    simp [danglingAsks, h]
  unfold assertOperations
  rw [hd]
  rfl

/-! ### one hop -/

/-- a successful direct native swap always reports a swap -/
theorem pairExec_swap_native_out {w w' : World} {s p d amt : Nat} {funds : List (Nat × Nat)}
    {b ms to : Option Nat} {r : Out}
    (h : pairExec w s p funds (.swap (.native d) amt b ms to) = .ok (w', r)) : ∃ o, r = .swap o := by
  unfold pairExec at h
  cases hP : w.pair p with
  | none => simp [hP] at h
  | some P =>
    simp only [hP, bind_ok_iff] at h
    obtain ⟨w0, _, _, _, ⟨w1, o1⟩, _, hret⟩ := h
    simp only [pure_ok_iff, Prod.mk.injEq] at hret
    exact ⟨o1, hret.2.symm⟩

/-- inversion of `execute_swap_operation` for a native offer -/
theorem routerHop_native_ok {w w' : World} {d : Nat} {a : Asset} {to : Option Nat}
    (h : routerHop w w.router (.native d) a to = .ok w') :
    ∃ R so, facLookup w (.native d) a = some R ∧
      pairExec w w.router R.pair [(d, bal w (.native d) w.router)]
        (.swap (.native d) (bal w (.native d) w.router) none none to) = .ok (w', .swap so) := by
  unfold routerHop at h
  rw [if_neg (fun hh => hh rfl)] at h
  cases hR : facLookup w (.native d) a with
  | none => simp [hR] at h
  | some R =>
    simp only [hR, bind_ok_iff] at h
    obtain ⟨amount, ham, ⟨w1, r⟩, hex, hpure⟩ := h
    have e := balOf_ok ham
    subst e
    simp only [pure_ok_iff] at hpure
    subst hpure
    obtain ⟨so, rfl⟩ := pairExec_swap_native_out hex
    exact ⟨R, so, rfl, hex⟩

/-- inversion of `execute_swap_operation` for a cw20 offer -/
theorem routerHop_token_ok {w w' : World} {t : Nat} {a : Asset} {to : Option Nat}
    (h : routerHop w w.router (.token t) a to = .ok w') :
    ∃ R so, facLookup w (.token t) a = some R ∧
      tokSendPair w t w.router R.pair (bal w (.token t) w.router)
        (.swap (.token t) (bal w (.token t) w.router) none none to) = .ok (w', .swap so) := by
  unfold routerHop at h
  rw [if_neg (fun hh => hh rfl)] at h
  cases hR : facLookup w (.token t) a with
  | none => simp [hR] at h
  | some R =>
    simp only [hR, bind_ok_iff] at h
    obtain ⟨amount, ham, ⟨w1, r⟩, hex, hpure⟩ := h
    have e := balOf_ok ham
    subst e
    simp only [pure_ok_iff] at hpure
    subst hpure
    obtain ⟨_, _, so, rfl, _⟩ := tokSendPair_swap_ok hex
    exact ⟨R, so, rfl, hex⟩

/-- the complete effect of one hop: the router's whole balance of the offer asset goes to the pair,
the pair pays `so.ret` of its other asset to the recipient, `so` is what the pair's `Simulation`
query answers in the pre-state, and nothing else moves -/
theorem hop_effect {w w' : World} {o a : Asset} {to : Option Nat} {R : Record} {P : PairSt}
    (hR : facLookup w o a = some R) (hP : w.pair R.pair = some P) (hne : P.a0 ≠ P.a1)
    (hpr : R.pair ≠ w.router) (h : routerHop w w.router o a to = .ok w') :
    ∃ so : SwapOut, bal w o w.router ≠ 0 ∧
      qSimulation w R.pair o (bal w o w.router) = .ok (so.ret, so.spread, so.comm) ∧
      so.offer = bal w o w.router ∧
      (P.a0 = o ∨ P.a1 = o) ∧ (so.ask = P.a0 ∨ so.ask = P.a1) ∧ so.ask ≠ o ∧
      bal w' o w.router = 0 ∧
      (to.getD w.router ≠ R.pair →
        bal w' so.ask (to.getD w.router) = bal w so.ask (to.getD w.router) + so.ret) ∧
      (∀ b z, (b ≠ so.ask ∨ (z ≠ R.pair ∧ z ≠ to.getD w.router)) → (b ≠ o ∨ (z ≠ R.pair ∧ z ≠ w.router)) →
        bal w' b z = bal w b z) := by
  have hsp : w.router ≠ R.pair := Ne.symm hpr
  cases o with
  | native d =>
    obtain ⟨R', so, hR', hex⟩ := routerHop_native_ok h
    rw [hR] at hR'; injection hR' with hR'; subst hR'
    have hsim := sim_eq_exec_native hP hne hsp hex
    obtain ⟨P', w0, hP', hat, hoff, _, hso, hask, hao, _, hpay, hfr, _⟩ := swap_native_effect hex
    rw [hP] at hP'; injection hP' with hP'; subst hP'
    obtain ⟨h0, _, _, e4, e5⟩ := attach_single_effect hsp hat
    have hao' := hao hne
    refine ⟨so, h0, hsim, hso, hoff, hask, hao', ?_, ?_, ?_⟩
    · rw [hfr _ _ (Or.inl (Ne.symm hao')), e4, Nat.sub_self]
    · intro hrp
      rw [(hpay hrp).2, e5 _ _ (Or.inl hao')]
    · intro b z h1 h2
      rw [hfr b z h1, e5 b z h2]
  | token t =>
    obtain ⟨R', so, hR', hex⟩ := routerHop_token_ok h
    rw [hR] at hR'; injection hR' with hR'; subst hR'
    have hsim := sim_eq_exec_hook hP hne hsp hex
    obtain ⟨P', w0, hP', _, _, _, hso, hoff, h0, _, _, e4, hask, hao, _, hpay, hfr, e5⟩ :=
      swap_hook_effect hsp hex
    rw [hP] at hP'; injection hP' with hP'; subst hP'
    have hao' := hao hne
    refine ⟨so, h0, hsim, hso, hoff, hask, hao', ?_, ?_, ?_⟩
    · rw [hfr _ _ (Or.inl (Ne.symm hao')), e4, Nat.sub_self]
    · intro hrp
      rw [(hpay hrp).2, e5 _ _ (Or.inl hao')]
    · intro b z h1 h2
      rw [hfr b z h1, e5 b z h2]

theorem hop_spends_whole_balance {w w' : World} {o a : Asset} {to : Option Nat}
    (h : routerHop w w.router o a to = .ok w') :
    ∃ R P, facLookup w o a = some R ∧ w.pair R.pair = some P ∧ bal w o w.router ≠ 0 ∧
      (R.pair ≠ w.router → P.a0 ≠ P.a1 → bal w' o w.router = 0) := by
  have key : ∃ R P, facLookup w o a = some R ∧ w.pair R.pair = some P ∧ bal w o w.router ≠ 0 := by
    cases o with
    | native d =>
      obtain ⟨R, so, hR, hex⟩ := routerHop_native_ok h
      obtain ⟨P, w0, hP, hat, _⟩ := pairExec_swap_native_ok hex
      exact ⟨R, P, hR, hP, (attach_single_ok hat).1⟩
    | token t =>
      obtain ⟨R, so, hR, hex⟩ := routerHop_token_ok h
      obtain ⟨P, w0, _, _, hP, htr, _⟩ := tokSendPair_swap_ok hex
      obtain ⟨_, _, h0, _⟩ := tokTransfer_ok htr
      exact ⟨R, P, hR, hP, h0⟩
  obtain ⟨R, P, hR, hP, h0⟩ := key
  refine ⟨R, P, hR, hP, h0, fun hpr hne => ?_⟩
  obtain ⟨_, _, _, _, _, _, _, hz, _⟩ := hop_effect hR hP hne hpr h
  exact hz

/-! ### a one-hop route -/

theorem routerSwapOps_single_ok {name : Asset → String} {w w' : World} {sender : Nat} {o a : Asset}
    {mn to : Option Nat} (h : routerSwapOps name w sender [(o, a)] mn to = .ok w') :
    routerHop w w.router o a (some (to.getD sender)) = .ok w' := by
  unfold routerSwapOps at h
  simp only [List.getLast?_singleton, bind_ok_iff] at h
  obtain ⟨_, _, h⟩ := h
  cases mn with
  | none => simpa only [routerHops] using h
  | some m =>
    simp only [bind_ok_iff, pure_ok_iff] at h
    obtain ⟨_, _, w1, hh, _, _, rfl⟩ := h
    simpa only [routerHops] using hh

/-- single hop, under the hypothesis that the registered pair trades exactly the two assets of the hop
(a consequence of the registry invariant) -/
theorem single_hop_passthrough' {name : Asset → String} {w w' : World} {sender : Nat} {o a : Asset}
    {mn to : Option Nat} {R : Record} {P : PairSt}
    (hR : facLookup w o a = some R) (hP : w.pair R.pair = some P)
    (hPa : (P.a0 = o ∧ P.a1 = a) ∨ (P.a0 = a ∧ P.a1 = o))
    (hne : P.a0 ≠ P.a1) (hoa : o ≠ a)
    (hpr : R.pair ≠ w.router) (hrcv1 : to.getD sender ≠ w.router) (hrcv2 : to.getD sender ≠ R.pair)
    (h : routerSwapOps name w sender [(o, a)] mn to = .ok w') :
    ∃ n, routerSimulateTop w (bal w o w.router) [(o, a)] = .ok n ∧
      bal w' a (to.getD sender) = bal w a (to.getD sender) + n ∧
      bal w' o w.router = 0 ∧ bal w' a w.router = bal w a w.router ∧
      (∀ b, b ≠ a → bal w' b (to.getD sender) = bal w b (to.getD sender)) := by
  have hhop := routerSwapOps_single_ok h
  obtain ⟨so, _, hsim, _, _, hask, hao, hz, hpay, hfr⟩ := hop_effect hR hP hne hpr hhop
  have hrc : (some (to.getD sender)).getD w.router = to.getD sender := rfl
  rw [hrc] at hpay hfr
  have hsa : so.ask = a := by
    rcases hPa with ⟨e0, e1⟩ | ⟨e0, e1⟩
    · rcases hask with hh | hh
      · exact absurd (hh.trans e0) hao
      · exact hh.trans e1
    · rcases hask with hh | hh
      · exact hh.trans e0
      · exact absurd (hh.trans e1) hao
  subst hsa
  refine ⟨so.ret, ?_, hpay hrcv2, hz, ?_, ?_⟩
  · unfold routerSimulateTop
    rw [if_neg (by simp), router_sim_cons hR hsim]
    rfl
  · exact hfr _ _ (Or.inr ⟨Ne.symm hpr, Ne.symm hrcv1⟩) (Or.inl (Ne.symm hoa))
  · intro b hb
    exact hfr _ _ (Or.inl hb) (Or.inr ⟨hrcv2, hrcv1⟩)

end Halo.C13
