/-
C18 — proofs about the text model (`Halo/Text.lean`): digit lemmas for `render` / `valOf`, the exact
success condition of `parseAux` / `parseDigits`, the shape of `splitDot`, `trimEnd0`, and from these
the render/parse round trips, canonical forms, the characterisation of accepted decimal strings, the
JSON round trips (JSON decoding with escape sequences: unescaping is the identity on rendered numerals
and transparent for accepted ones) and the width conversions.
-/
import Halo.Proofs.Basic
import Halo.Text
import Mathlib.Tactic.Linarith
import Mathlib.Tactic.Ring
import Mathlib.Tactic.NormNum

namespace Halo.C18
open Halo Halo.Text

/-! ### digits -/

theorem isDigit_iff {b : Nat} : isDigit b = true ↔ 48 ≤ b ∧ b ≤ 57 := by
  simp [isDigit]

theorem render_small {n : Nat} (h : n < 10) : render n = [48 + n] := by
  unfold render; rw [digitsRev]; simp [h]

theorem render_step {n : Nat} (h : ¬ n < 10) : render n = render (n / 10) ++ [48 + n % 10] := by
  unfold render
  conv_lhs => rw [digitsRev]
  simp [h]

theorem foldl_acc (acc : Nat) (s : List Nat) :
    s.foldl (fun a b => a * 10 + (b - 48)) acc
      = acc * 10 ^ s.length + s.foldl (fun a b => a * 10 + (b - 48)) 0 := by
  induction s generalizing acc with
  | nil => simp
  | cons b t ih =>
    simp only [List.foldl_cons, List.length_cons]
    rw [ih, ih (0 * 10 + (b - 48))]
    ring

theorem valOf_nil : valOf [] = 0 := rfl

theorem valOf_cons (b : Nat) (t : List Nat) : valOf (b :: t) = (b - 48) * 10 ^ t.length + valOf t := by
  unfold valOf
  rw [List.foldl_cons, foldl_acc]
  simp

theorem valOf_append (a b : List Nat) : valOf (a ++ b) = valOf a * 10 ^ b.length + valOf b := by
  unfold valOf
  rw [List.foldl_append, foldl_acc]

theorem valOf_snoc (ds : List Nat) (d : Nat) : valOf (ds ++ [d]) = valOf ds * 10 + (d - 48) := by
  rw [valOf_append, valOf_cons]; simp [valOf_nil]

theorem valOf_replicate (k : Nat) : valOf (List.replicate k 48) = 0 := by
  induction k with
  | zero => rfl
  | succ k ih => rw [List.replicate_succ, valOf_cons, ih]; simp

theorem valOf_pad (k : Nat) (ds : List Nat) : valOf (List.replicate k 48 ++ ds) = valOf ds := by
  rw [valOf_append, valOf_replicate]; simp

theorem valOf_trail (ds : List Nat) (k : Nat) :
    valOf (ds ++ List.replicate k 48) = valOf ds * 10 ^ k := by
  rw [valOf_append, valOf_replicate]; simp

theorem valOf_render (n : Nat) : valOf (render n) = n := by
  induction n using Nat.strong_induction_on with
  | _ n ih =>
    by_cases h : n < 10
    · rw [render_small h, valOf_cons]; simp [valOf_nil]
    · rw [render_step h, valOf_snoc, ih (n / 10) (by omega)]; omega

theorem render_digits (n : Nat) : ∀ b ∈ render n, isDigit b = true := by
  induction n using Nat.strong_induction_on with
  | _ n ih =>
    by_cases h : n < 10
    · rw [render_small h]; intro b hb
      simp only [List.mem_singleton] at hb
      rw [isDigit_iff]; omega
    · rw [render_step h]; intro b hb
      simp only [List.mem_append, List.mem_singleton] at hb
      rcases hb with hb | hb
      · exact ih (n / 10) (by omega) b hb
      · rw [isDigit_iff]; omega

theorem render_all (n : Nat) : (render n).all isDigit = true :=
  List.all_eq_true.2 (render_digits n)

theorem render_length_le (n k : Nat) (hk : 0 < k) (h : n < 10 ^ k) : (render n).length ≤ k := by
  induction k generalizing n with
  | zero => omega
  | succ k ih =>
    by_cases h10 : n < 10
    · rw [render_small h10]; simp
    · have hk' : 0 < k := by
        rcases k with _ | k
        · simp at h; omega
        · omega
      have : n / 10 < 10 ^ k := by
        rw [Nat.div_lt_iff_lt_mul (by omega)]; rw [pow_succ] at h; omega
      have := ih (n / 10) hk' this
      rw [render_step h10]
      simp; omega

theorem render_head (n : Nat) (hn : 0 < n) : ∃ b t, render n = b :: t ∧ b ≠ 48 := by
  induction n using Nat.strong_induction_on with
  | _ n ih =>
    by_cases h : n < 10
    · exact ⟨48 + n, [], render_small h, by omega⟩
    · obtain ⟨b, t, hr, hb⟩ := ih (n / 10) (by omega) (by omega)
      exact ⟨b, t ++ [48 + n % 10], by rw [render_step h, hr]; rfl, hb⟩

theorem render_canonical (n : Nat) : canonicalInt (render n) = true := by
  unfold canonicalInt
  rw [render_all]
  rcases Nat.eq_zero_or_pos n with h | h
  · subst h; rw [render_small (by omega)]; rfl
  · obtain ⟨b, t, hr, hb⟩ := render_head n h
    rw [hr]; simp [hb]

theorem not_dot_of_digits {s : List Nat} (h : ∀ b ∈ s, isDigit b = true) : 46 ∉ s := by
  intro hm
  have := h 46 hm
  rw [isDigit_iff] at this; omega

theorem valOf_lt {s : List Nat} (h : ∀ b ∈ s, isDigit b = true) : valOf s < 10 ^ s.length := by
  induction s with
  | nil => simp [valOf_nil]
  | cons b t ih =>
    have hb := h b (by simp)
    rw [isDigit_iff] at hb
    have ht := ih (fun c hc => h c (by simp [hc]))
    rw [valOf_cons, List.length_cons, pow_succ]
    have : (b - 48) * 10 ^ t.length ≤ 9 * 10 ^ t.length := Nat.mul_le_mul_right _ (by omega)
    omega

/-! ### the parser -/

theorem parseAux_ok_iff (s : List Nat) (acc v : Nat) (hacc : acc < U) :
    parseAux acc s = .ok v ↔ acc * 10 ^ s.length + valOf s = v ∧ v < U := by
  induction s generalizing acc with
  | nil =>
    simp only [parseAux, Except.ok.injEq, List.length_nil, pow_zero, mul_one, valOf_nil, add_zero]
    constructor
    · rintro rfl; exact ⟨rfl, hacc⟩
    · rintro ⟨rfl, _⟩; rfl
  | cons b t ih =>
    have hval : acc * 10 ^ (b :: t).length + valOf (b :: t)
        = (acc * 10 + (b - 48)) * 10 ^ t.length + valOf t := by
      rw [valOf_cons, List.length_cons, pow_succ]; ring
    rw [hval]
    simp only [parseAux]
    split
    · rename_i h
      exact ih _ h
    · rename_i h
      simp only [reduceCtorEq, false_iff, not_and]
      intro he hv
      apply h
      have : 1 ≤ 10 ^ t.length := Nat.one_le_pow _ _ (by omega)
      have : (acc * 10 + (b - 48)) * 1 ≤ (acc * 10 + (b - 48)) * 10 ^ t.length :=
        Nat.mul_le_mul_left _ this
      omega

theorem parseDigits_ok_iff {s : List Nat} {v : Nat} :
    parseDigits s = .ok v ↔ s.all isDigit = true ∧ valOf s = v ∧ v < U := by
  unfold parseDigits
  split
  · rename_i h
    rw [parseAux_ok_iff s 0 v U_pos]
    simp [h]
  · rename_i h
    simp [h]

theorem uint_parse_ok_iff {s : List Nat} {v : Nat} :
    uintParse s = .ok v ↔ s.all isDigit = true ∧ valOf s = v ∧ v < U :=
  parseDigits_ok_iff

theorem uint_render_canonical (v : Nat) :
    canonicalInt (uintRender v) = true ∧ valOf (uintRender v) = v :=
  ⟨render_canonical v, valOf_render v⟩

theorem uint_parse_render {v : Nat} (h : v < U) : uintParse (uintRender v) = .ok v :=
  uint_parse_ok_iff.2 ⟨render_all v, valOf_render v, h⟩

/-! ### `splitDot` -/

theorem splitDot_ne_nil (s : List Nat) : splitDot s ≠ [] := by
  induction s with
  | nil => simp [splitDot]
  | cons b t ih =>
    unfold splitDot
    split
    · simp
    · split <;> simp

theorem splitDot_nodot {w : List Nat} (hw : 46 ∉ w) : splitDot w = [w] := by
  induction w with
  | nil => rfl
  | cons b t ih =>
    have hb : b ≠ 46 := fun h => hw (by simp [h])
    have ht : 46 ∉ t := fun h => hw (by simp [h])
    unfold splitDot
    rw [if_neg hb, ih ht]

theorem splitDot_dot {w : List Nat} (hw : 46 ∉ w) (rest : List Nat) :
    splitDot (w ++ 46 :: rest) = w :: splitDot rest := by
  induction w with
  | nil => simp [splitDot]
  | cons b t ih =>
    have hb : b ≠ 46 := fun h => hw (by simp [h])
    have ht : 46 ∉ t := fun h => hw (by simp [h])
    rw [List.cons_append]
    conv_lhs => rw [splitDot]
    rw [if_neg hb, ih ht]

/-- every string is dot-free or has a first dot -/
theorem first_dot (s : List Nat) : 46 ∉ s ∨ ∃ w rest, s = w ++ 46 :: rest ∧ 46 ∉ w := by
  induction s with
  | nil => left; simp
  | cons b t ih =>
    by_cases hb : b = 46
    · right; exact ⟨[], t, by simp [hb], by simp⟩
    · rcases ih with h | ⟨w, rest, rfl, hw⟩
      · left; simp [h, Ne.symm hb]
      · right; exact ⟨b :: w, rest, by simp, by simp [hw, Ne.symm hb]⟩

/-- the three possible shapes of a split -/
theorem splitDot_cases (s : List Nat) :
    (46 ∉ s ∧ splitDot s = [s]) ∨
    (∃ w f, s = w ++ [46] ++ f ∧ 46 ∉ w ∧ 46 ∉ f ∧ splitDot s = [w, f]) ∨
    (∃ w f p ps, splitDot s = w :: f :: p :: ps) := by
  rcases first_dot s with h | ⟨w, rest, rfl, hw⟩
  · exact Or.inl ⟨h, splitDot_nodot h⟩
  · right
    rcases first_dot rest with h | ⟨f, rest', rfl, hf⟩
    · left
      exact ⟨w, rest, by simp, hw, h, by rw [splitDot_dot hw, splitDot_nodot h]⟩
    · right
      rw [splitDot_dot hw, splitDot_dot hf]
      cases hs : splitDot rest' with
      | nil => exact absurd hs (splitDot_ne_nil _)
      | cons p ps => exact ⟨w, f, p, ps, rfl⟩

theorem splitDot_two {w f : List Nat} (hw : 46 ∉ w) (hf : 46 ∉ f) :
    splitDot (w ++ [46] ++ f) = [w, f] := by
  rw [List.append_assoc, List.singleton_append, splitDot_dot hw, splitDot_nodot hf]


/-! ### accepted decimal strings -/

theorem dec_parse_ok_iff {s : List Nat} {v : Nat} :
    decParse s = .ok v ↔ denote s = some v ∧ v < U := by
  unfold decParse denote
  have hE : 1 ≤ E := E_pos
  rcases splitDot_cases s with ⟨_, h⟩ | ⟨w, f, _, _, _, h⟩ | ⟨w, f, p, ps, h⟩
  · rw [h]
    simp only [bind_ok_iff, parseDigits_ok_iff, u256.mul_ok]
    constructor
    · rintro ⟨a, ⟨hd, rfl, _⟩, hlt, rfl⟩
      rw [if_pos hd]; exact ⟨rfl, hlt⟩
    · rintro ⟨hden, hv⟩
      by_cases hd : s.all isDigit = true
      · rw [if_pos hd] at hden
        injection hden with hden
        subst hden
        have : valOf s * 1 ≤ valOf s * E := Nat.mul_le_mul_left _ hE
        exact ⟨valOf s, ⟨hd, rfl, by omega⟩, hv, rfl⟩
      · rw [if_neg hd] at hden; cases hden
  · rw [h]
    simp only [bind_ok_iff, parseDigits_ok_iff]
    constructor
    · rintro ⟨a, ⟨hw, rfl, _⟩, b, ⟨hf, rfl, _⟩, hrest⟩
      by_cases hl : 18 < f.length
      · rw [if_pos hl] at hrest; cases hrest
      · rw [if_neg hl] at hrest
        simp only [bind_ok_iff, u256.mul_ok, u256.add_ok] at hrest
        obtain ⟨wa, ⟨_, rfl⟩, fa, ⟨_, rfl⟩, hlt, rfl⟩ := hrest
        rw [if_pos (by simp only [Bool.and_eq_true, decide_eq_true_eq]; exact ⟨⟨hw, hf⟩, by omega⟩)]
        exact ⟨rfl, hlt⟩
    · rintro ⟨hden, hv⟩
      by_cases hc : (w.all isDigit && f.all isDigit && decide (f.length ≤ 18)) = true
      · rw [if_pos hc] at hden
        injection hden with hden
        simp only [Bool.and_eq_true, decide_eq_true_eq] at hc
        obtain ⟨⟨hw, hf⟩, hl⟩ := hc
        have h1 : valOf w * 1 ≤ valOf w * E := Nat.mul_le_mul_left _ hE
        have h10 : 1 ≤ 10 ^ (18 - f.length) := Nat.one_le_pow _ _ (by omega)
        have h2 : valOf f * 1 ≤ valOf f * 10 ^ (18 - f.length) := Nat.mul_le_mul_left _ h10
        refine ⟨valOf w, ⟨hw, rfl, by omega⟩, valOf f, ⟨hf, rfl, by omega⟩, ?_⟩
        rw [if_neg (by omega)]
        simp only [bind_ok_iff, u256.mul_ok, u256.add_ok]
        exact ⟨_, ⟨by omega, rfl⟩, _, ⟨by omega, rfl⟩, by omega, hden.symm⟩
      · rw [if_neg hc] at hden; cases hden
  · rw [h]
    simp

theorem dec_parse_19_digits {w f : List Nat} (hw : 46 ∉ w) (hf : 46 ∉ f) (h : 18 < f.length) :
    ∀ v, decParse (w ++ [46] ++ f) ≠ .ok v := by
  intro v hv
  have hd := (dec_parse_ok_iff.1 hv).1
  unfold denote at hd
  rw [splitDot_two hw hf] at hd
  have hc : ¬ (w.all isDigit && f.all isDigit && decide (f.length ≤ 18)) = true := by
    simp only [Bool.and_eq_true, decide_eq_true_eq]; omega
  simp only [if_neg hc, reduceCtorEq] at hd

/-! ### `trimEnd0` and the shape of `decRender` -/

theorem dropWhile48 (r : List Nat) :
    ∃ j, r = List.replicate j 48 ++ r.dropWhile (· = 48) ∧
      (∀ b t, r.dropWhile (· = 48) = b :: t → b ≠ 48) := by
  induction r with
  | nil => exact ⟨0, by simp, by simp⟩
  | cons a t ih =>
    by_cases ha : a = 48
    · obtain ⟨j, h1, h2⟩ := ih
      have hd : (a :: t).dropWhile (· = 48) = t.dropWhile (· = 48) := by
        simp [ha]
      refine ⟨j + 1, ?_, ?_⟩
      · rw [hd, List.replicate_succ, List.cons_append, ← h1, ha]
      · rw [hd]; exact h2
    · have hd : (a :: t).dropWhile (· = 48) = a :: t := by
        simp [ha]
      refine ⟨0, by rw [hd]; simp, ?_⟩
      intro b t' h
      rw [hd] at h
      injection h with h _
      rw [← h]; exact ha

theorem trimEnd0_spec (s : List Nat) :
    ∃ j, s = trimEnd0 s ++ List.replicate j 48 ∧
      (∀ b t, (trimEnd0 s).reverse = b :: t → b ≠ 48) := by
  obtain ⟨j, h1, h2⟩ := dropWhile48 s.reverse
  refine ⟨j, ?_, ?_⟩
  · unfold trimEnd0
    have := congrArg List.reverse h1
    simpa using this
  · unfold trimEnd0; rw [List.reverse_reverse]; exact h2

theorem decRender_form (v : Nat) :
    (v % E = 0 ∧ decRender v = render (v / E)) ∨
    (∃ t, decRender v = render (v / E) ++ [46] ++ t ∧ (∀ b ∈ t, isDigit b = true) ∧
      1 ≤ t.length ∧ t.length ≤ 18 ∧ (∀ b u, t.reverse = b :: u → b ≠ 48) ∧
      valOf t * 10 ^ (18 - t.length) = v % E) := by
  by_cases h : v % E = 0
  · left; exact ⟨h, by unfold decRender; simp only [h, if_true]⟩
  · right
    have hlt : v % E < 10 ^ 18 := by rw [← E_eq]; exact Nat.mod_lt _ E_pos
    have hlen := render_length_le (v % E) 18 (by omega) hlt
    have hdr : decRender v = render (v / E) ++ [46] ++
        trimEnd0 (List.replicate (18 - (render (v % E)).length) 48 ++ render (v % E)) := by
      unfold decRender; simp only [h, if_false]
    obtain ⟨j, h1, h2⟩ :=
      trimEnd0_spec (List.replicate (18 - (render (v % E)).length) 48 ++ render (v % E))
    rw [hdr]
    generalize trimEnd0 (List.replicate (18 - (render (v % E)).length) 48 ++ render (v % E)) = t
      at h1 h2 ⊢
    have hval := congrArg valOf h1
    rw [valOf_pad, valOf_render, valOf_trail] at hval
    have hl := congrArg List.length h1
    simp only [List.length_append, List.length_replicate] at hl
    have hj : j = 18 - t.length := by omega
    have hne : 1 ≤ t.length := by
      rcases t with _ | ⟨b, u⟩
      · simp [valOf_nil] at hval; exact absurd hval h
      · simp
    refine ⟨t, rfl, ?_, hne, by omega, h2, by rw [← hj]; exact hval.symm⟩
    intro b hb
    have hm : b ∈ List.replicate (18 - (render (v % E)).length) 48 ++ render (v % E) := by
      rw [h1]; simp [hb]
    rcases List.mem_append.1 hm with hm | hm
    · rw [(List.mem_replicate.1 hm).2]; rfl
    · exact render_digits _ _ hm

theorem dec_render_canonical (v : Nat) :
    canonicalDec (decRender v) = true ∧ denote (decRender v) = some v := by
  rcases decRender_form v with ⟨h0, hr⟩ | ⟨t, hr, hd, h1, h18, hlast, hval⟩
  · have hs := splitDot_nodot (not_dot_of_digits (render_digits (v / E)))
    have hv : v / E * E = v := Nat.div_mul_cancel (Nat.dvd_of_mod_eq_zero h0)
    rw [hr]; unfold canonicalDec denote; rw [hs]
    simp [render_canonical, render_all, valOf_render, hv]
  · have hs := splitDot_two (not_dot_of_digits (render_digits (v / E))) (not_dot_of_digits hd)
    have hall : t.all isDigit = true := List.all_eq_true.2 hd
    have hm : (match t.reverse with | [] => false | b :: _ => b != 48) = true := by
      cases hrev : t.reverse with
      | nil =>
        have : t = [] := by simpa using hrev
        subst this; simp at h1
      | cons b u => simp [hlast b u hrev]
    have hv : v / E * E + v % E = v := Nat.div_add_mod' v E
    rw [hr]; unfold canonicalDec denote; rw [hs]
    simp only [render_canonical, render_all, hall, valOf_render, hval, hv, Bool.and_true,
      decide_eq_true h1, decide_eq_true h18, if_true]
    exact ⟨by rw [Bool.true_and]; exact hm, trivial⟩

theorem dec_parse_render {v : Nat} (h : v < U) : decParse (decRender v) = .ok v :=
  dec_parse_ok_iff.2 ⟨(dec_render_canonical v).2, h⟩

/-! ### JSON -/

theorem utf8From_ascii {s : List Nat} (h : ∀ b ∈ s, b < 128) : utf8From 0 0 0 s = true := by
  induction s with
  | nil => rfl
  | cons b t ih =>
    have hb : b < 128 := h b (by simp)
    simp only [utf8From, if_pos hb]
    exact ih (fun c hc => h c (by simp [hc]))

theorem utf8Valid_ascii {s : List Nat} (h : ∀ b ∈ s, b < 128) : utf8Valid s = true :=
  utf8From_ascii h

/-- without a backslash the body is handed over as it is (if it is UTF-8) -/
theorem jsonUnescape_noesc {s : List Nat} (h : 92 ∉ s) :
    jsonUnescape s = if utf8Valid s then .ok s else .error .err := by
  unfold jsonUnescape
  rw [if_neg (by simpa using h)]

/-- `jsonUnescape` is the identity on ASCII texts without a backslash -/
theorem jsonUnescape_id {s : List Nat} (h : ∀ b ∈ s, b ≠ 92 ∧ b < 128) : jsonUnescape s = .ok s := by
  rw [jsonUnescape_noesc (fun hm => (h 92 hm).1 rfl), if_pos (utf8Valid_ascii (fun b hb => (h b hb).2))]

/-- the unescaping loop itself copies texts without backslash and control bytes -/
theorem unescFrom_id {s : List Nat} (h : ∀ b ∈ s, 32 ≤ b ∧ b ≠ 92) :
    unescFrom .normal none s = .ok s := by
  induction s with
  | nil => rfl
  | cons b t ih =>
    obtain ⟨h1, h2⟩ := h b (by simp)
    have ht := ih (fun c hc => h c (by simp [hc]))
    simp only [unescFrom, if_neg (show ¬ b ≤ 31 by omega), if_neg h2, ht, emit, Option.isSome_none,
      Bool.false_eq_true, if_false, List.singleton_append]

/-- so does `unescape`: on printable ASCII without a backslash the owned and the borrowed path agree -/
theorem unescape_id {s : List Nat} (h : ∀ b ∈ s, 32 ≤ b ∧ b ≠ 92 ∧ b < 128) : unescape s = .ok s := by
  unfold unescape
  rw [unescFrom_id (fun b hb => ⟨(h b hb).1, (h b hb).2.1⟩)]
  show (if utf8Valid s = true then Except.ok s else Except.error Err.err) = Except.ok s
  rw [if_pos (utf8Valid_ascii (fun b hb => (h b hb).2.2))]

theorem jsonScan_clean {s : List Nat} (h : ∀ b ∈ s, b ≠ 34 ∧ b ≠ 92) (t : List Nat) :
    jsonScan false (s ++ 34 :: t) = some (s, t) := by
  induction s with
  | nil => simp [jsonScan]
  | cons b u ih =>
    obtain ⟨h1, h2⟩ := h b (by simp)
    have hu := ih (fun c hc => h c (by simp [hc]))
    simp only [List.cons_append, jsonScan, h1, false_and, if_false, if_neg h2, hu]

/-- the scanner only cuts the text at a quote -/
theorem jsonScan_some {e : Bool} {l body tail : List Nat} (h : jsonScan e l = some (body, tail)) :
    l = body ++ 34 :: tail := by
  induction l generalizing e body with
  | nil => simp [jsonScan] at h
  | cons b bs ih =>
    unfold jsonScan at h
    split at h
    · rename_i hq
      injection h with h
      injection h with h1 h2
      subst h1 h2
      simp [hq.1]
    · cases hs : jsonScan (if b = 92 then !e else false) bs with
      | none => rw [hs] at h; cases h
      | some p =>
        obtain ⟨bd, tl⟩ := p
        rw [hs] at h
        injection h with h
        injection h with h1 h2
        subst h1 h2
        rw [ih hs]; rfl

theorem isJsonWs_34 : isJsonWs 34 = false := rfl

theorem jsonDec_enc {s : List Nat} (h : ∀ b ∈ s, b ≠ 34 ∧ b ≠ 92 ∧ b < 128) :
    jsonDec (jsonEnc s) = .ok s := by
  have hj : jsonEnc s = 34 :: (s ++ 34 :: []) := by simp [jsonEnc]
  unfold jsonDec
  rw [hj, List.dropWhile_cons_of_neg (by simp [isJsonWs_34])]
  simp only [if_true, jsonScan_clean (fun b hb => ⟨(h b hb).1, (h b hb).2.1⟩), List.all_nil]
  exact jsonUnescape_id (fun b hb => (h b hb).2)

theorem all_takeWhile (p : Nat → Bool) (l : List Nat) : (l.takeWhile p).all p = true := by
  induction l with
  | nil => rfl
  | cons a t ih =>
    by_cases ha : p a = true
    · simp [ha, ih]
    · simp [ha]

/-- an accepted JSON text is whitespace, a quoted body, whitespace; the result is the unescaped body -/
theorem jsonDec_ok {j s : List Nat} (h : jsonDec j = .ok s) :
    ∃ pre body post, j = pre ++ [34] ++ body ++ [34] ++ post ∧
      pre.all isJsonWs = true ∧ post.all isJsonWs = true ∧ jsonUnescape body = .ok s := by
  unfold jsonDec at h
  have hsplit := List.takeWhile_append_dropWhile (p := isJsonWs) (l := j)
  have hpre : (j.takeWhile isJsonWs).all isJsonWs = true := all_takeWhile _ j
  cases hd : j.dropWhile isJsonWs with
  | nil => rw [hd] at h; cases h
  | cons b rest =>
    rw [hd] at h hsplit
    simp only at h
    by_cases hb : b = 34
    · rw [if_pos hb] at h
      cases hs : jsonScan false rest with
      | none => rw [hs] at h; cases h
      | some p =>
        obtain ⟨body, tail⟩ := p
        rw [hs] at h
        simp only at h
        by_cases ht : tail.all isJsonWs = true
        · rw [if_pos ht] at h
          refine ⟨j.takeWhile isJsonWs, body, tail, ?_, hpre, ht, h⟩
          generalize j.takeWhile isJsonWs = pre at hsplit
          rw [← hsplit, hb, jsonScan_some hs]; simp
        · rw [if_neg ht] at h; cases h
    · rw [if_neg hb] at h; cases h

/-- escapes are transparent: an accepted JSON decimal is the number its *unescaped* body denotes -/
theorem json_parse_denotes_dec {j : List Nat} {v : Nat} (h : (jsonDec j >>= decParse) = .ok v) :
    ∃ pre body post s, j = pre ++ [34] ++ body ++ [34] ++ post ∧
      pre.all isJsonWs = true ∧ post.all isJsonWs = true ∧
      jsonUnescape body = .ok s ∧ decParse s = .ok v ∧ denote s = some v ∧ v < U := by
  obtain ⟨s, hs, hp⟩ := (bind_ok_iff _ _ _).1 h
  obtain ⟨pre, body, post, hj, h1, h2, hu⟩ := jsonDec_ok hs
  exact ⟨pre, body, post, s, hj, h1, h2, hu, hp, (dec_parse_ok_iff.1 hp).1, (dec_parse_ok_iff.1 hp).2⟩

theorem json_parse_denotes_uint {j : List Nat} {v : Nat} (h : (jsonDec j >>= uintParse) = .ok v) :
    ∃ pre body post s, j = pre ++ [34] ++ body ++ [34] ++ post ∧
      pre.all isJsonWs = true ∧ post.all isJsonWs = true ∧
      jsonUnescape body = .ok s ∧ parseDigits s = .ok v ∧ s.all isDigit = true ∧ valOf s = v ∧ v < U := by
  obtain ⟨s, hs, hp⟩ := (bind_ok_iff _ _ _).1 h
  obtain ⟨pre, body, post, hj, h1, h2, hu⟩ := jsonDec_ok hs
  obtain ⟨hd, hv, hlt⟩ := uint_parse_ok_iff.1 hp
  exact ⟨pre, body, post, s, hj, h1, h2, hu, hp, hd, hv, hlt⟩

theorem printable_of_digit {b : Nat} (h : isDigit b = true ∨ b = 46) :
    b ≠ 34 ∧ b ≠ 92 ∧ b < 128 := by
  rcases h with h | h
  · rw [isDigit_iff] at h; omega
  · omega

theorem decRender_bytes (v : Nat) : ∀ b ∈ decRender v, isDigit b = true ∨ b = 46 := by
  rcases decRender_form v with ⟨_, hr⟩ | ⟨t, hr, hd, _⟩
  · rw [hr]; intro b hb; exact Or.inl (render_digits _ b hb)
  · rw [hr]; intro b hb
    simp only [List.mem_append, List.mem_singleton] at hb
    rcases hb with (hb | hb) | hb
    · exact Or.inl (render_digits _ b hb)
    · exact Or.inr hb
    · exact Or.inl (hd b hb)

theorem dec_json_roundtrip {v : Nat} (h : v < U) :
    (jsonDec (jsonEnc (decRender v)) >>= decParse) = .ok v := by
  rw [jsonDec_enc (fun b hb => printable_of_digit (decRender_bytes v b hb))]
  exact dec_parse_render h

theorem uint_json_roundtrip {v : Nat} (h : v < U) :
    (jsonDec (jsonEnc (uintRender v)) >>= uintParse) = .ok v := by
  unfold uintRender
  rw [jsonDec_enc (fun b hb => printable_of_digit (Or.inl (render_digits v b hb)))]
  exact uint_parse_render h

/-! ### width conversions -/

theorem u128_roundtrip {w : Nat} (h : w < W) : toU128 (ofU128 w) = .ok w := by
  rw [ofU128_eq]
  exact (toU128_ok (Nat.lt_trans h W_lt_U)).2 ⟨h, rfl⟩

/-- going through the text changes nothing: `Decimal256 → Decimal` is the limb check alone -/
theorem decToStd_eq {v : Nat} (h : v < U) : decToStd v = toU128 v := by
  unfold decToStd
  rw [dec_parse_render h]
  change (match toU128 v with
    | .error _ => .error .abort
    | .ok _ => if v < W then .ok v else .error .abort) = toU128 v
  by_cases hw : v < W
  · rw [(toU128_ok h).2 ⟨hw, rfl⟩]; simp [hw]
  · cases ht : toU128 v with
    | ok r => exact absurd ((toU128_ok h).1 ht).1 hw
    | error e =>
      have : e = .abort := by
        unfold toU128 Limbs.toU128 at ht
        split at ht
        · cases ht
        · injection ht with ht; exact ht.symm
      rw [this]

theorem dec_to_std_iff {v r : Nat} (h : v < U) : decToStd v = .ok r ↔ v < W ∧ r = v := by
  rw [decToStd_eq h]; exact toU128_ok h

theorem dec_to_std_abort {v : Nat} (h : v < U) : decToStd v = .error .abort ↔ W ≤ v := by
  constructor
  · intro he
    by_contra hw
    have := (dec_to_std_iff h).2 ⟨Nat.lt_of_not_le hw, rfl⟩
    rw [he] at this; cases this
  · intro hw
    unfold decToStd
    cases ht : Limbs.toU128 (Limbs.ofNat v) with
    | error e => rfl
    | ok r =>
      have : toU128 v = .ok r := ht
      exact absurd ((toU128_ok h).1 this).1 (by omega)

theorem dec_from_std_id {a : Nat} (h : a < W) : decFromStd a = .ok a := by
  unfold decFromStd
  rw [dec_parse_render (Nat.lt_trans h W_lt_U)]

theorem dec_std_roundtrip {a : Nat} (h : a < W) : (decFromStd a >>= decToStd) = .ok a := by
  rw [dec_from_std_id h]
  exact (dec_to_std_iff (Nat.lt_trans h W_lt_U)).2 ⟨h, rfl⟩

end Halo.C18
