/-
C19 / C16 — proofs about the registry model (`Halo/Registry.lean`): page size bounds, the meaning of
the exclusive range start, completeness of the page-by-page walk, sortedness of insertion, and the
registry key (`pairKey`): symmetry, injectivity, and the "no low extension" property.
-/
import Halo.Registry
import Mathlib.Data.List.Lex
import Mathlib.Tactic.Linarith

namespace Halo.C19
open Halo

/-! ### page size -/

theorem pageSize_le_30 (lim : Option Nat) : pageSize lim ≤ 30 := by
  unfold pageSize maxLimit; exact Nat.min_le_right _ _

theorem page_le_30 {α} (reg : List (Bytes × α)) (c : Option Bytes) (lim : Option Nat) :
    (readPairs reg c lim).length ≤ 30 := by
  unfold readPairs
  rw [List.length_take]
  have := pageSize_le_30 lim
  omega

theorem page_default_10 {α} (reg : List (Bytes × α)) (c : Option Bytes) :
    (readPairs reg c none).length ≤ 10 := by
  unfold readPairs
  rw [List.length_take]
  have : pageSize none = 10 := by decide
  omega

theorem page_le_limit {α} (reg : List (Bytes × α)) (c : Option Bytes) (k : Nat) :
    (readPairs reg c (some k)).length ≤ k := by
  unfold readPairs
  rw [List.length_take]
  have : pageSize (some k) ≤ k := by
    unfold pageSize; exact Nat.min_le_left _ _
  omega

theorem pageSize_pos (lim : Option Nat) (hl : lim ≠ some 0) : 0 < pageSize lim := by
  unfold pageSize maxLimit defaultLimit
  cases lim with
  | none => decide
  | some k =>
    have : k ≠ 0 := fun h => hl (by rw [h])
    simp only [Option.getD_some]
    omega

/-! ### the exclusive range start -/

theorem lt_rangeStart (c : Bytes) : c < rangeStart c := by
  unfold rangeStart
  induction c with
  | nil => decide
  | cons a t ih => exact List.Lex.cons ih

theorem rangeStart_lt_iff {c k : Bytes} (h : NoLowExt1 c k) : rangeStart c < k ↔ c < k := by
  constructor
  · intro hk; exact lt_trans (lt_rangeStart c) hk
  · intro hk
    unfold rangeStart
    induction c generalizing k with
    | nil =>
      cases k with
      | nil => exact absurd hk (lt_irrefl _)
      | cons b t =>
        rcases Nat.lt_trichotomy b 1 with hb | hb | hb
        · have : b = 0 := by omega
          subst this; exact absurd rfl (h.1 t)
        · subst hb
          cases t with
          | nil => exact absurd rfl h.2
          | cons b' t' => exact List.Lex.cons (List.Lex.nil)
        · exact List.Lex.rel hb
    | cons a t ih =>
      cases k with
      | nil => cases hk
      | cons b u =>
        cases hk with
        | rel hab => exact List.Lex.rel hab
        | cons htu =>
          apply List.Lex.cons
          apply ih _ htu
          constructor
          · intro s hs; exact h.1 s (by rw [hs]; rfl)
          · intro hs; exact h.2 (by rw [hs]; rfl)

/-! ### the walk -/

theorem after_split {α} (pre post : List (Bytes × α)) (c : Bytes × α)
    (hs : (pre ++ c :: post).Pairwise (fun e f => e.1 < f.1)) (hn : NoLowExt (pre ++ c :: post)) :
    afterCursor (pre ++ c :: post) (some c.1) = post := by
  show List.filter _ _ = post
  have hcmem : c ∈ pre ++ c :: post := by simp
  have key : ∀ k ∈ pre ++ c :: post, (rangeStart c.1 < k.1 ↔ c.1 < k.1) :=
    fun k hk => rangeStart_lt_iff (hn c hcmem k hk)
  rw [List.pairwise_append] at hs
  obtain ⟨_, hcp, hpre⟩ := hs
  rw [List.pairwise_cons] at hcp
  rw [List.filter_append, List.filter_cons]
  have h1 : pre.filter (fun k => decide (rangeStart c.1 < k.1)) = [] := by
    rw [List.filter_eq_nil_iff]
    intro k hk
    have hkc : k.1 < c.1 := hpre k hk c (by simp)
    have : ¬ c.1 < k.1 := not_lt.mpr (le_of_lt hkc)
    simp [key k (by simp [hk]), this]
  have h2 : ¬ rangeStart c.1 < c.1 := fun h => lt_irrefl _ (lt_trans (lt_rangeStart c.1) h)
  have h3 : post.filter (fun k => decide (rangeStart c.1 < k.1)) = post := by
    rw [List.filter_eq_self]
    intro k hk
    simp [key k (by simp [hk]), hcp.1 k hk]
  simp [h1, h2, h3]

theorem walk_from {α} (lim : Option Nat) (m : Nat) (hm : pageSize lim = m + 1) :
    ∀ (n : Nat) (pre post : List (Bytes × α)) (f : Nat),
      post.length ≤ n → post.length + 1 ≤ f →
      (pre ++ post).Pairwise (fun e f => e.1 < f.1) → NoLowExt (pre ++ post) →
      afterCursor (pre ++ post) (pre.getLast?.map (·.1)) = post →
      walkFuel (pre ++ post) lim f (pre.getLast?.map (·.1)) = post := by
  intro n
  induction n with
  | zero =>
    intro pre post f hn hf _ _ hafter
    have : post = [] := List.eq_nil_of_length_eq_zero (by omega)
    subst this
    obtain ⟨f', rfl⟩ : ∃ f', f = f' + 1 := ⟨f - 1, by omega⟩
    simp only [List.append_nil] at hafter ⊢
    simp [walkFuel, readPairs, hafter]
  | succ n ih =>
    intro pre post f hn hf hs hno hafter
    obtain ⟨f', rfl⟩ : ∃ f', f = f' + 1 := ⟨f - 1, by omega⟩
    cases hpost : post with
    | nil =>
      subst hpost
      simp only [List.append_nil] at hafter ⊢
      simp [walkFuel, readPairs, hafter]
    | cons p ps =>
      subst hpost
      have hpg : readPairs (pre ++ p :: ps) (pre.getLast?.map (·.1)) lim = p :: ps.take m := by
        unfold readPairs; rw [hafter, hm]; rfl
      set pg := p :: ps.take m with hpgdef
      set rest := ps.drop m with hrest
      have hsplit : p :: ps = pg ++ rest := by simp [hpgdef, hrest]
      have hne : pg ≠ [] := by simp [hpgdef]
      obtain ⟨ini, c, hic⟩ : ∃ ini c, pg = ini ++ [c] :=
        ⟨pg.dropLast, pg.getLast hne, (List.dropLast_append_getLast hne).symm⟩
      have hlast : pg.getLast? = some c := by rw [hic]; simp
      have hwhole : pre ++ p :: ps = (pre ++ ini) ++ c :: rest := by
        rw [hsplit, hic]; simp
      rw [walkFuel]
      simp only [hpg, hlast]
      have hrec : walkFuel (pre ++ p :: ps) lim f' (some c.1) = rest := by
        have hlen : (p :: ps).length = pg.length + rest.length := by rw [hsplit]; simp
        have hp : 1 ≤ pg.length := by simp [hpgdef]
        have h1 := ih (pre ++ ini ++ [c]) rest f' (by omega) (by omega)
        have e : pre ++ ini ++ [c] ++ rest = pre ++ p :: ps := by rw [hwhole]; simp
        rw [e] at h1
        have hl' : (pre ++ ini ++ [c]).getLast?.map (·.1) = some c.1 := by simp
        rw [hl'] at h1
        apply h1 hs hno
        rw [hwhole]
        exact after_split (pre ++ ini) rest c (by rw [← hwhole]; exact hs) (by rw [← hwhole]; exact hno)
      rw [hrec, hsplit]

theorem walk_fuel_irrelevant {α} (reg : List (Bytes × α)) (lim : Option Nat) (hl : lim ≠ some 0)
    (hs : reg.Pairwise (fun e f => e.1 < f.1)) (hno : NoLowExt reg) (f : Nat) (hf : reg.length + 1 ≤ f) :
    walkFuel reg lim f none = reg := by
  have hpos := pageSize_pos lim hl
  obtain ⟨m, hm⟩ : ∃ m, pageSize lim = m + 1 := ⟨pageSize lim - 1, by omega⟩
  have := walk_from lim m hm reg.length [] reg f (le_refl _) hf (by simpa using hs) (by simpa using hno)
    (by simp [afterCursor])
  simpa using this

theorem walk_complete {α} (reg : List (Bytes × α)) (lim : Option Nat) (hl : lim ≠ some 0)
    (hs : reg.Pairwise (fun e f => e.1 < f.1)) (hno : NoLowExt reg) :
    walk reg lim = reg :=
  walk_fuel_irrelevant reg lim hl hs hno (reg.length + 1) (le_refl _)

/-! ### insertion and lookup -/

theorem mem_regInsert {α} (k : Bytes) (v : α) (reg : List (Bytes × α)) :
    ∀ e ∈ regInsert k v reg, e = (k, v) ∨ e ∈ reg := by
  induction reg with
  | nil => intro e he; simp [regInsert] at he; exact Or.inl he
  | cons hd rest ih =>
    obtain ⟨k', v'⟩ := hd
    intro e he
    unfold regInsert at he
    split_ifs at he with h1 h2
    · simpa using he
    · rcases List.mem_cons.mp he with h | h
      · exact Or.inl h
      · exact Or.inr (List.mem_cons_of_mem _ h)
    · rcases List.mem_cons.mp he with h | h
      · exact Or.inr (by rw [h]; exact List.mem_cons_self)
      · rcases ih e h with h' | h'
        · exact Or.inl h'
        · exact Or.inr (List.mem_cons_of_mem _ h')

theorem regInsert_sorted {α} (k : Bytes) (v : α) (reg : List (Bytes × α))
    (hs : reg.Pairwise (fun e f => e.1 < f.1)) : (regInsert k v reg).Pairwise (fun e f => e.1 < f.1) := by
  induction reg with
  | nil => simp [regInsert]
  | cons hd rest ih =>
    obtain ⟨k', v'⟩ := hd
    rw [List.pairwise_cons] at hs
    obtain ⟨hhd, hrest⟩ := hs
    unfold regInsert
    split_ifs with h1 h2
    · rw [List.pairwise_cons]
      refine ⟨?_, List.pairwise_cons.mpr ⟨hhd, hrest⟩⟩
      intro e he
      rcases List.mem_cons.mp he with h | h
      · rw [h]; exact h1
      · exact lt_trans h1 (hhd e h)
    · subst h2
      exact List.pairwise_cons.mpr ⟨hhd, hrest⟩
    · have hlt : k' < k := by
        rcases lt_trichotomy k k' with h | h | h
        · exact absurd h h1
        · exact absurd h h2
        · exact h
      rw [List.pairwise_cons]
      refine ⟨?_, ih hrest⟩
      intro e he
      rcases mem_regInsert k v rest e he with h | h
      · rw [h]; exact hlt
      · exact hhd e h

theorem regLookup_insert_self {α} (k : Bytes) (v : α) (reg : List (Bytes × α))
    (_hs : reg.Pairwise (fun e f => e.1 < f.1)) : regLookup k (regInsert k v reg) = some v := by
  induction reg with
  | nil => simp [regInsert, regLookup]
  | cons hd rest ih =>
    obtain ⟨k', v'⟩ := hd
    have ih' := ih (List.Pairwise.of_cons _hs)
    unfold regInsert
    split_ifs with h1 h2
    · simp [regLookup]
    · simp [regLookup]
    · have : ¬ k' = k := fun h => h2 h.symm
      unfold regLookup at ih' ⊢
      simp only [List.find?_cons, this, decide_false]
      exact ih'

theorem regLookup_insert_other {α} (k k' : Bytes) (v : α) (reg : List (Bytes × α)) (hne : k' ≠ k) :
    regLookup k' (regInsert k v reg) = regLookup k' reg := by
  have hne' : ¬ k = k' := fun h => hne h.symm
  induction reg with
  | nil => simp [regInsert, regLookup, hne']
  | cons hd rest ih =>
    obtain ⟨k0, v0⟩ := hd
    unfold regInsert
    split_ifs with h1 h2
    · simp [regLookup, hne']
    · subst h2
      simp [regLookup, hne']
    · unfold regLookup at ih ⊢
      by_cases h : k0 = k'
      · simp [h]
      · simp only [List.find?_cons, h, decide_false]
        exact ih

/-! ### the registry key -/

theorem be32_inj {n m : Nat} (hn : n < 2 ^ 32) (hm : m < 2 ^ 32) (h : be32 n = be32 m) : n = m := by
  simp only [be32, List.cons.injEq, and_true] at h
  omega

theorem key_inj {f s f' s' : Bytes} (hf : f.length < 2 ^ 32) (hf' : f'.length < 2 ^ 32)
    (h : be32 f.length ++ f ++ s = be32 f'.length ++ f' ++ s') : f = f' ∧ s = s' := by
  have hb : be32 f.length = be32 f'.length ∧ f ++ s = f' ++ s' := by
    simp only [be32, List.cons_append, List.nil_append, List.cons.injEq] at h
    obtain ⟨h1, h2, h3, h4, h5⟩ := h
    exact ⟨by simp only [be32, h1, h2, h3, h4], h5⟩
  have hlen := be32_inj hf hf' hb.1
  exact List.append_inj hb.2 hlen

theorem pairKey_comm (a b : Bytes) : pairKey a b = pairKey b a := by
  unfold pairKey sortPair
  by_cases hab : a = b
  · subst hab; rfl
  · rcases lt_trichotomy a b with h | h | h
    · have h' : ¬ b < a := lt_asymm h
      simp only [h, h', if_true, if_false]
    · exact absurd h hab
    · have h' : ¬ a < b := lt_asymm h
      simp only [h, h', if_true, if_false]

theorem pairKey_inj {a b c d : Bytes} (ha : a.length < 2 ^ 32) (hb : b.length < 2 ^ 32)
    (hc : c.length < 2 ^ 32) (hd : d.length < 2 ^ 32) (h : pairKey a b = pairKey c d) :
    (a = c ∧ b = d) ∨ (a = d ∧ b = c) := by
  unfold pairKey sortPair at h
  split_ifs at h with h1 h2 h2
  · obtain ⟨e1, e2⟩ := key_inj hb hd h
    exact Or.inl ⟨e2, e1⟩
  · obtain ⟨e1, e2⟩ := key_inj hb hc h
    exact Or.inr ⟨e2, e1⟩
  · obtain ⟨e1, e2⟩ := key_inj ha hd h
    exact Or.inr ⟨e1, e2⟩
  · obtain ⟨e1, e2⟩ := key_inj ha hc h
    exact Or.inl ⟨e1, e2⟩

/-- a key is a 4-byte prefix followed by bytes of the two identifiers -/
theorem pairKey_shape (a b : Bytes) :
    ∃ n r, pairKey a b = be32 n ++ r ∧ ∀ x ∈ r, x ∈ a ∨ x ∈ b := by
  unfold pairKey sortPair
  split_ifs with h
  · refine ⟨b.length, b ++ a, by simp, ?_⟩
    intro x hx
    rcases List.mem_append.mp hx with h' | h'
    · exact Or.inr h'
    · exact Or.inl h'
  · refine ⟨a.length, a ++ b, by simp, ?_⟩
    intro x hx
    exact List.mem_append.mp hx

theorem noLowExt_of_ids_ge_2 {α} (reg : List (Bytes × α))
    (h : ∀ e ∈ reg, ∃ a b : Bytes, e.1 = pairKey a b ∧ (∀ x ∈ a, 2 ≤ x) ∧ (∀ x ∈ b, 2 ≤ x)) :
    NoLowExt reg := by
  intro c hc k hk
  obtain ⟨a, b, hce, _, _⟩ := h c hc
  obtain ⟨a', b', hke, ha', hb'⟩ := h k hk
  obtain ⟨n, r, hcs, _⟩ := pairKey_shape a b
  obtain ⟨n', r', hks, hr'⟩ := pairKey_shape a' b'
  have hge : ∀ x ∈ r', 2 ≤ x := by
    intro x hx
    rcases hr' x hx with h' | h'
    · exact ha' x h'
    · exact hb' x h'
  -- any suffix extending `c` to `k` lies inside `r'`
  have hsuf : ∀ suf, k.1 = c.1 ++ suf → ∀ x ∈ suf, 2 ≤ x := by
    intro suf hsuf x hx
    rw [hke, hks, hce, hcs] at hsuf
    simp only [be32, List.cons_append, List.nil_append, List.cons.injEq] at hsuf
    obtain ⟨_, _, _, _, h5⟩ := hsuf
    apply hge x
    rw [h5]
    exact List.mem_append_right _ hx
  constructor
  · intro s hs
    have := hsuf (0 :: s) hs 0 List.mem_cons_self
    omega
  · intro hs
    have := hsuf [1] hs 1 List.mem_cons_self
    omega

end Halo.C19
