/-
Call-site proofs: the guard functions (`assert_max_spread`, `assert_slippage_tolerance`,
`assert_operations`, `assert_sent_native_token_balance`) are proved correct in isolation elsewhere
(C10, C15, C13, C09).  Here the *handlers* are inverted: a successful swap / provision / route passed
the guard on exactly the arguments the handler computes from the world at handler entry, and a `.guard`
rejection of a handler (or of the whole transaction) can only come from that one call.
(The C09 call-site lemma lives in `Halo/Proofs/CallSitesC09.lean`, which is core-only so that
`Halo/Props/C09W.lean` can import it without pulling in Mathlib's reserved words.)
Also: the effect of `attach` for a general coin list (C02A) and the transaction-level movement of the
deposits of a provision (C05A).
-/
import Halo.Proofs.C02
import Halo.Proofs.C10
import Halo.Proofs.C13
import Halo.Proofs.C14
import Halo.Proofs.Liquidity
import Halo.Proofs.CallSitesC09

namespace Halo.CallSites
open Halo

/-! ### no primitive other than the two guards ever produces `.guard` -/

/-- `x` never fails with the typed guard error -/
def NG {α} (x : M α) : Prop := x ≠ .error .guard

theorem NG.bind {α β} {x : M α} {f : α → M β} (hx : NG x) (hf : ∀ a, NG (f a)) : NG (x >>= f) := by
  intro h
  rcases (bind_error_iff _ _ _).mp h with h | ⟨a, _, h⟩
  · exact hx h
  · exact hf a h

theorem NG.ok {α} (a : α) : NG (.ok a : M α) := by intro h; cases h
theorem NG.pure {α} (a : α) : NG (pure a : M α) := pure_ne_error _ _
theorem NG.err {α} {e : Err} (he : e ≠ .guard) : NG (.error e : M α) := by
  intro h; injection h with h; exact he h

theorem ng_u256_mul (a b : Nat) : NG (u256.mul a b) := Halo.C10.u256_mul_ne_guard a b
theorem ng_u256_div (a b : Nat) : NG (u256.div a b) := Halo.C10.u256_div_ne_guard a b
theorem ng_u256_add (a b : Nat) : NG (u256.add a b) := Halo.C10.u256_add_ne_guard a b
theorem ng_uint_add (a b : Nat) : NG (Uint.add a b) := Halo.C10.uint_add_ne_guard a b
theorem ng_uint_sub (a b : Nat) : NG (Uint.sub a b) := Halo.C10.uint_sub_ne_guard a b
theorem ng_fromRatio (a b : Nat) : NG (Dec.fromRatio a b) := Halo.C10.fromRatio_ne_guard a b
theorem ng_mulRatio (u n d : Nat) : NG (Uint.mulRatio u n d) := Halo.C10.mulRatio_ne_guard u n d

theorem ng_uint_mul (a b : Nat) : NG (Uint.mul a b) := by
  unfold Uint.mul
  split
  · exact NG.ok _
  · exact ng_u256_mul a b

theorem ng_fromUint (v : Nat) : NG (Dec.fromUint v) := ng_u256_mul v E

theorem ng_dec_sub (a b : Nat) : NG (Dec.sub a b) := by
  unfold Dec.sub
  split
  · exact NG.ok _
  · exact NG.err (by decide)

theorem ng_mulDec (u d : Nat) : NG (Uint.mulDec u d) := by
  unfold Uint.mulDec
  split
  · exact NG.ok _
  · exact ng_mulRatio _ _ _

theorem ng_toU128 (n : Nat) : NG (toU128 n) := by
  unfold toU128 Limbs.toU128
  split
  · exact NG.ok _
  · exact NG.err (by decide)

theorem ng_checkedSub (a b : Nat) : NG (Cw.checkedSub a b) := by
  unfold Cw.checkedSub
  split
  · exact NG.ok _
  · exact NG.err (by decide)

theorem ng_validTo (w : World) (dst : Option Nat) : NG (validTo w dst) := by
  unfold validTo
  split
  · exact NG.err (by decide)
  · exact NG.ok _

theorem ng_computeSwap (x y a c : Nat) : NG (computeSwap x y a c) := by
  unfold computeSwap
  refine NG.bind (ng_uint_mul _ _) fun _ => ?_
  refine NG.bind (ng_fromUint _) fun _ => ?_
  refine NG.bind (ng_uint_add _ _) fun _ => ?_
  refine NG.bind (ng_fromRatio _ _) fun _ => ?_
  refine NG.bind (ng_dec_sub _ _) fun _ => ?_
  refine NG.bind (ng_mulDec _ _) fun _ => ?_
  refine NG.bind (ng_uint_mul _ _) fun _ => ?_
  refine NG.bind (ng_fromRatio _ _) fun _ => ?_
  refine NG.bind (ng_mulDec _ _) fun _ => ?_
  refine NG.bind (ng_uint_sub _ _) fun _ => ?_
  refine NG.bind (ng_mulDec _ _) fun _ => ?_
  refine NG.bind (ng_uint_sub _ _) fun _ => ?_
  refine NG.bind (ng_toU128 _) fun _ => ?_
  refine NG.bind (ng_toU128 _) fun _ => ?_
  refine NG.bind (ng_toU128 _) fun _ => ?_
  exact NG.pure _

theorem ng_assertSentNative (d amt : Nat) (funds : List (Nat × Nat)) : NG (assertSentNative d amt funds) := by
  rcases Halo.Props.C09.assertSent_err d amt funds with h | h <;> rw [NG, h] <;> simp

theorem ng_assertSent (a : Asset) (amt : Nat) (funds : List (Nat × Nat)) : NG (assertSent a amt funds) := by
  cases a with
  | native d => exact ng_assertSentNative d amt funds
  | token t => exact NG.ok _

theorem ng_balOf (w : World) (a : Asset) (z : Nat) : NG (balOf w a z) := by
  cases a with
  | native d => exact NG.ok _
  | token t =>
    unfold balOf
    dsimp only
    split
    · exact NG.err (by decide)
    · exact NG.ok _

theorem ng_supplyOf (w : World) (t : Nat) : NG (supplyOf w t) := by
  unfold supplyOf
  split
  · exact NG.err (by decide)
  · exact NG.ok _

theorem ng_bankMove1 (w : World) (s d x amt : Nat) : NG (bankMove1 w s d x amt) := by
  unfold bankMove1
  split
  · exact NG.err (by decide)
  · exact NG.ok _

theorem ng_bankMoveList (s d : Nat) : ∀ (cs : List (Nat × Nat)) (w : World), NG (bankMoveList w s d cs)
  | [], w => NG.ok _
  | (x, amt) :: cs, w => by
    simp only [bankMoveList]
    exact NG.bind (ng_bankMove1 _ _ _ _ _) fun w1 => ng_bankMoveList s d cs w1

theorem ng_bankSend (w : World) (s d : Nat) (cs : List (Nat × Nat)) : NG (bankSend w s d cs) := by
  unfold bankSend
  dsimp only
  split
  · exact NG.err (by decide)
  · exact ng_bankMoveList _ _ _ _

theorem ng_attach (w : World) (s d : Nat) (cs : List (Nat × Nat)) : NG (attach w s d cs) := by
  unfold attach
  split
  · exact NG.ok _
  · exact ng_bankSend _ _ _ _

theorem ng_tokTransfer (w : World) (t s d amt : Nat) : NG (tokTransfer w t s d amt) := by
  unfold tokTransfer
  split
  · exact NG.err (by decide)
  · split
    · exact NG.err (by decide)
    · split
      · exact NG.err (by decide)
      · exact NG.ok _

theorem ng_tokTransferFrom (w : World) (t sp o d amt : Nat) : NG (tokTransferFrom w t sp o d amt) := by
  unfold tokTransferFrom
  split
  · exact NG.err (by decide)
  · split
    · exact NG.err (by decide)
    · split
      · exact NG.err (by decide)
      · split
        · exact NG.err (by decide)
        · exact NG.ok _

theorem ng_tokMint (w : World) (t s d amt : Nat) : NG (tokMint w t s d amt) := by
  unfold tokMint
  split
  · exact NG.err (by decide)
  · split
    · exact NG.err (by decide)
    · split
      · exact NG.err (by decide)
      · split
        · exact NG.err (by decide)
        · exact NG.ok _

theorem ng_payout (w : World) (src : Nat) (a : Asset) (dst amt : Nat) : NG (payout w src a dst amt) := by
  cases a with
  | native d => exact ng_bankSend _ _ _ _
  | token t => exact ng_tokTransfer _ _ _ _ _

/-! ### C10 at the call site: `swap` -/

/-- the decimals the pair passes to `assert_max_spread`, in (offer, ask) order -/
theorem swap_passed_guard {w0 w' : World} {p : Nat} {P : PairSt} {funds : List (Nat × Nat)} {trader : Nat}
    {offer : Asset} {amt : Nat} {belief ms toAddr : Option Nat} {o : SwapOut}
    (h : pairSwap w0 p P funds trader offer amt belief ms toAddr = .ok (w', o)) :
    (offer = P.a0 ∨ offer = P.a1) ∧ amt ≤ bal w0 offer p ∧
    o.offer = amt ∧ o.ask = (if offer = P.a0 then P.a1 else P.a0) ∧
    computeSwap (bal w0 offer p - amt) (bal w0 (if offer = P.a0 then P.a1 else P.a0) p) amt P.comm
      = .ok (o.ret, o.spread, o.comm) ∧
    assertMaxSpread belief ms amt o.ret o.spread
      (if offer = P.a0 then P.d0 else P.d1) (if offer = P.a0 then P.d1 else P.d0) = .ok () := by
  obtain ⟨_, _, _, x, y, ask, od, ad, n, s, k, hbr, hcs, hms, rfl, _⟩ := Halo.C02.pairSwap_ok h
  rcases hbr with ⟨ha, hle, rfl, rfl, rfl, rfl, rfl⟩ | ⟨hna, hb, hle, rfl, rfl, rfl, rfl, rfl⟩
  · subst ha
    rw [if_pos rfl, if_pos rfl, if_pos rfl]
    exact ⟨Or.inl rfl, hle, rfl, rfl, hcs, hms⟩
  · subst hb
    rw [if_neg hna, if_neg hna, if_neg hna]
    exact ⟨Or.inr rfl, hle, rfl, rfl, hcs, hms⟩

/-- hence (with `Halo.C10.belief_sound`) the C10 bound holds of the reported amounts -/
theorem swap_honours_belief {w0 w' : World} {p : Nat} {P : PairSt} {funds : List (Nat × Nat)} {trader : Nat}
    {offer : Asset} {amt pb m : Nat} {toAddr : Option Nat} {o : SwapOut}
    (h : pairSwap w0 p P funds trader offer amt (some pb) (some m) toAddr = .ok (w', o)) :
    ∃ o' r' s', normSpread amt o.ret o.spread
        (if offer = P.a0 then P.d0 else P.d1) (if offer = P.a0 then P.d1 else P.d0) = .ok (o', r', s') ∧
      Spec.c10BeliefSound o' r' pb m = true := by
  have hg := (swap_passed_guard h).2.2.2.2.2
  have hn : ∃ t, normSpread amt o.ret o.spread
      (if offer = P.a0 then P.d0 else P.d1) (if offer = P.a0 then P.d1 else P.d0) = .ok t := by
    have hg' := hg
    simp only [assertMaxSpread, bind_ok_iff] at hg'
    obtain ⟨t, ht, _⟩ := hg'
    exact ⟨t, ht⟩
  obtain ⟨⟨o', r', s'⟩, hn⟩ := hn
  exact ⟨o', r', s', hn, Halo.C10.belief_sound hn hg⟩

theorem swap_honours_spread {w0 w' : World} {p : Nat} {P : PairSt} {funds : List (Nat × Nat)} {trader : Nat}
    {offer : Asset} {amt m : Nat} {toAddr : Option Nat} {o : SwapOut}
    (h : pairSwap w0 p P funds trader offer amt none (some m) toAddr = .ok (w', o)) :
    ∃ o' r' s', normSpread amt o.ret o.spread
        (if offer = P.a0 then P.d0 else P.d1) (if offer = P.a0 then P.d1 else P.d0) = .ok (o', r', s') ∧
      Spec.c10SpreadSound r' s' m = true := by
  have hg := (swap_passed_guard h).2.2.2.2.2
  have hn : ∃ t, normSpread amt o.ret o.spread
      (if offer = P.a0 then P.d0 else P.d1) (if offer = P.a0 then P.d1 else P.d0) = .ok t := by
    have hg' := hg
    simp only [assertMaxSpread, bind_ok_iff] at hg'
    obtain ⟨t, ht, _⟩ := hg'
    exact ⟨t, ht⟩
  obtain ⟨⟨o', r', s'⟩, hn⟩ := hn
  exact ⟨o', r', s', hn, Halo.C10.spread_sound hn hg⟩

/-- the only source of a `.guard` error in `swap` is its call of `assert_max_spread`, made after the
pricing function succeeded on the reserves net of the credited offer -/
theorem swap_guard_rejection {w0 : World} {p : Nat} {P : PairSt} {funds : List (Nat × Nat)} {trader : Nat}
    {offer : Asset} {amt : Nat} {belief ms toAddr : Option Nat}
    (h : pairSwap w0 p P funds trader offer amt belief ms toAddr = .error .guard) :
    (offer = P.a0 ∨ offer = P.a1) ∧ amt ≤ bal w0 offer p ∧
    ∃ n s k,
      computeSwap (bal w0 offer p - amt) (bal w0 (if offer = P.a0 then P.a1 else P.a0) p) amt P.comm
        = .ok (n, s, k) ∧
      assertMaxSpread belief ms amt n s
        (if offer = P.a0 then P.d0 else P.d1) (if offer = P.a0 then P.d1 else P.d0) = .error .guard := by
  unfold pairSwap at h
  rcases (bind_error_iff _ _ _).mp h with h | ⟨_, _, h⟩
  · exact absurd h (ng_assertSent _ _ _)
  rcases (bind_error_iff _ _ _).mp h with h | ⟨r0, hr0, h⟩
  · exact absurd h (ng_balOf _ _ _)
  rcases (bind_error_iff _ _ _).mp h with h | ⟨r1, hr1, h⟩
  · exact absurd h (ng_balOf _ _ _)
  have e0 := balOf_ok hr0
  have e1 := balOf_ok hr1
  subst e0 e1
  rcases (bind_error_iff _ _ _).mp h with h | ⟨⟨x, y, ask, od, ad⟩, hbr, h⟩
  · exfalso
    revert h
    show NG _
    split
    · exact NG.bind (ng_checkedSub _ _) fun _ => NG.pure _
    · split
      · exact NG.bind (ng_checkedSub _ _) fun _ => NG.pure _
      · exact NG.err (by decide)
  dsimp only at h
  rcases (bind_error_iff _ _ _).mp h with h | ⟨⟨n, s, k⟩, hcs, h⟩
  · exact absurd h (ng_computeSwap _ _ _ _)
  dsimp only at h
  have hguard : assertMaxSpread belief ms amt n s od ad = .error .guard := by
    rcases (bind_error_iff _ _ _).mp h with h | ⟨_, _, h⟩
    · exact h
    exfalso
    revert h
    show NG _
    split
    · exact NG.bind (NG.pure _) fun _ => NG.pure _
    · exact NG.bind (ng_payout _ _ _ _ _) fun _ => NG.pure _
  by_cases ha : offer = P.a0
  · rw [if_pos ha] at hbr
    simp only [bind_ok_iff, pure_ok_iff, Cw.checkedSub_ok, Prod.mk.injEq] at hbr
    obtain ⟨x', ⟨hle, rfl⟩, rfl, rfl, rfl, rfl, rfl⟩ := hbr
    subst ha
    rw [if_pos rfl, if_pos rfl, if_pos rfl]
    exact ⟨Or.inl rfl, hle, n, s, k, hcs, hguard⟩
  · rw [if_neg ha] at hbr
    by_cases hb : offer = P.a1
    · rw [if_pos hb] at hbr
      simp only [bind_ok_iff, pure_ok_iff, Cw.checkedSub_ok, Prod.mk.injEq] at hbr
      obtain ⟨x', ⟨hle, rfl⟩, rfl, rfl, rfl, rfl, rfl⟩ := hbr
      subst hb
      rw [if_neg ha, if_neg ha, if_neg ha]
      exact ⟨Or.inr rfl, hle, n, s, k, hcs, hguard⟩
    · rw [if_neg hb] at hbr
      cases hbr

/-! ### … lifted to the two entry points of a swap -/

theorem pairExec_swap_error {w : World} {s p : Nat} {funds : List (Nat × Nat)} {offer : Asset} {amt : Nat}
    {b ms toAddr : Option Nat}
    (h : pairExec w s p funds (.swap offer amt b ms toAddr) = .error .guard) :
    ∃ P w0 d, w.pair p = some P ∧ attach w s p funds = .ok w0 ∧ offer = .native d ∧
      pairSwap w0 p P funds s offer amt b ms toAddr = .error .guard := by
  unfold pairExec at h
  split at h
  · cases h
  rename_i P hP
  rcases (bind_error_iff _ _ _).mp h with h | ⟨w0, h0, h⟩
  · exact absurd h (ng_attach _ _ _ _)
  cases offer with
  | token t => cases h
  | native d =>
    dsimp only at h
    rcases (bind_error_iff _ _ _).mp h with h | ⟨_, _, h⟩
    · exact absurd h (ng_validTo _ _)
    rcases (bind_error_iff _ _ _).mp h with h | ⟨_, _, h⟩
    · exact ⟨P, w0, d, hP, h0, rfl, h⟩
    · exact absurd h (pure_ne_error _ _)

/-- a successful direct swap passed `assert_max_spread` on the amounts it reports -/
theorem exec_swap_passed_guard {w w' : World} {s p : Nat} {funds : List (Nat × Nat)} {offer : Asset} {amt : Nat}
    {belief ms toAddr : Option Nat} {out : Out}
    (h : pairExec w s p funds (.swap offer amt belief ms toAddr) = .ok (w', out)) :
    ∃ P w0 o, w.pair p = some P ∧ attach w s p funds = .ok w0 ∧ out = .swap o ∧
      (offer = P.a0 ∨ offer = P.a1) ∧ amt ≤ bal w0 offer p ∧
      o.offer = amt ∧ o.ask = (if offer = P.a0 then P.a1 else P.a0) ∧
      computeSwap (bal w0 offer p - amt) (bal w0 (if offer = P.a0 then P.a1 else P.a0) p) amt P.comm
        = .ok (o.ret, o.spread, o.comm) ∧
      assertMaxSpread belief ms amt o.ret o.spread
        (if offer = P.a0 then P.d0 else P.d1) (if offer = P.a0 then P.d1 else P.d0) = .ok () := by
  cases offer with
  | token t => exact absurd h Halo.C14.pairExec_swap_token
  | native d =>
    obtain ⟨P, w0, w1, o, hP, h0, hs, he⟩ := Halo.C14.pairExec_swap_native h
    simp only [Prod.mk.injEq] at he
    obtain ⟨rfl, rfl⟩ := he
    exact ⟨P, w0, o, hP, h0, rfl, swap_passed_guard hs⟩

/-- a direct swap transaction rejected with the guard error was rejected by `assert_max_spread` on the
amounts the swap would have reported -/
theorem exec_swap_guard_rejection {w : World} {s p : Nat} {funds : List (Nat × Nat)} {offer : Asset} {amt : Nat}
    {belief ms toAddr : Option Nat}
    (h : pairExec w s p funds (.swap offer amt belief ms toAddr) = .error .guard) :
    ∃ P w0, w.pair p = some P ∧ attach w s p funds = .ok w0 ∧
      (offer = P.a0 ∨ offer = P.a1) ∧ amt ≤ bal w0 offer p ∧
      ∃ n s' k,
        computeSwap (bal w0 offer p - amt) (bal w0 (if offer = P.a0 then P.a1 else P.a0) p) amt P.comm
          = .ok (n, s', k) ∧
        assertMaxSpread belief ms amt n s'
          (if offer = P.a0 then P.d0 else P.d1) (if offer = P.a0 then P.d1 else P.d0) = .error .guard := by
  obtain ⟨P, w0, d, hP, h0, _, hs⟩ := pairExec_swap_error h
  exact ⟨P, w0, hP, h0, swap_guard_rejection hs⟩

theorem pairReceive_swap_error {w : World} {p t from_ amount : Nat} {offer : Asset} {amt : Nat}
    {b ms toAddr : Option Nat}
    (h : pairReceive w p t from_ amount (.swap offer amt b ms toAddr) = .error .guard) :
    ∃ P, w.pair p = some P ∧ amt = amount ∧ (P.a0 = .token t ∨ P.a1 = .token t) ∧ offer = .token t ∧
      pairSwap w p P [] from_ offer amt b ms toAddr = .error .guard := by
  unfold pairReceive at h
  split at h
  · cases h
  rename_i P hP
  refine ⟨P, hP, ?_⟩
  dsimp only at h
  split at h
  · cases h
  rename_i h1
  rcases (bind_error_iff _ _ _).mp h with h | ⟨_, _, h⟩
  · exact absurd h (ng_balOf _ _ _)
  rcases (bind_error_iff _ _ _).mp h with h | ⟨_, _, h⟩
  · exact absurd h (ng_balOf _ _ _)
  split at h
  · cases h
  rename_i h2
  split at h
  · cases h
  rename_i h3
  rcases (bind_error_iff _ _ _).mp h with h | ⟨_, _, h⟩
  · exact absurd h (ng_validTo _ _)
  rcases (bind_error_iff _ _ _).mp h with h | ⟨_, _, h⟩
  · exact ⟨by simpa using h1, Decidable.not_not.mp h2, Decidable.not_not.mp h3, h⟩
  · exact absurd h (pure_ne_error _ _)

/-- a successful swap through a cw20 `Send` hook passed `assert_max_spread` on the amounts it reports -/
theorem hook_swap_passed_guard {w w' : World} {t u p amt a : Nat} {offer : Asset}
    {belief ms toAddr : Option Nat} {out : Out}
    (h : tokSendPair w t u p amt (.swap offer a belief ms toAddr) = .ok (w', out)) :
    ∃ P w0 o, w.pair p = some P ∧ tokTransfer w t u p amt = .ok w0 ∧ out = .swap o ∧
      offer = .token t ∧ a = amt ∧
      (offer = P.a0 ∨ offer = P.a1) ∧ amt ≤ bal w0 offer p ∧
      o.offer = amt ∧ o.ask = (if offer = P.a0 then P.a1 else P.a0) ∧
      computeSwap (bal w0 offer p - amt) (bal w0 (if offer = P.a0 then P.a1 else P.a0) p) amt P.comm
        = .ok (o.ret, o.spread, o.comm) ∧
      assertMaxSpread belief ms amt o.ret o.spread
        (if offer = P.a0 then P.d0 else P.d1) (if offer = P.a0 then P.d1 else P.d0) = .ok () := by
  obtain ⟨P, w0, o, ho, hP, htr, hof, ha, _, hsw⟩ := Halo.C02.tokSendPair_swap_ok h
  subst hof ha
  exact ⟨P, w0, o, hP, htr, ho, rfl, rfl, swap_passed_guard hsw⟩

/-- a hook swap rejected with the guard error was rejected by `assert_max_spread` -/
theorem hook_swap_guard_rejection {w : World} {t u p amt a : Nat} {offer : Asset}
    {belief ms toAddr : Option Nat}
    (h : tokSendPair w t u p amt (.swap offer a belief ms toAddr) = .error .guard) :
    ∃ P w0, w.pair p = some P ∧ tokTransfer w t u p amt = .ok w0 ∧ offer = .token t ∧ a = amt ∧
      (offer = P.a0 ∨ offer = P.a1) ∧ amt ≤ bal w0 offer p ∧
      ∃ n s' k,
        computeSwap (bal w0 offer p - amt) (bal w0 (if offer = P.a0 then P.a1 else P.a0) p) amt P.comm
          = .ok (n, s', k) ∧
        assertMaxSpread belief ms amt n s'
          (if offer = P.a0 then P.d0 else P.d1) (if offer = P.a0 then P.d1 else P.d0) = .error .guard := by
  unfold tokSendPair at h
  rcases (bind_error_iff _ _ _).mp h with h | ⟨w0, htr, h⟩
  · exact absurd h (ng_tokTransfer _ _ _ _ _)
  obtain ⟨P, hP, ha, _, hof, hsw⟩ := pairReceive_swap_error h
  rw [(tokTransfer_same htr).1.pair] at hP
  subst ha
  exact ⟨P, w0, hP, htr, hof, rfl, swap_guard_rejection hsw⟩

/-! ### C15 at the call site: `provide_liquidity` -/

/-- an accepted provision passed the slippage guard on (deposits in pair order, reserves net of the
native deposits already credited) -/
theorem provide_passed_guard {w w' : World} {p : Nat} {P : PairSt} {s : Nat} {funds : List (Nat × Nat)}
    {as0 as1 : Asset} {am0 am1 : Nat} {tol rcv : Option Nat} {m : Nat}
    (h : pairProvide w p P s funds as0 am0 as1 am1 tol rcv = .ok (w', m)) :
    ∃ d0 d1,
      ((as0 = P.a0 ∧ d0 = am0) ∨ (as0 ≠ P.a0 ∧ as1 = P.a0 ∧ d0 = am1)) ∧
      ((as0 = P.a1 ∧ d1 = am0) ∨ (as0 ≠ P.a1 ∧ as1 = P.a1 ∧ d1 = am1)) ∧
      assertSlippage tol d0 d1
        (match P.a0 with | .native _ => bal w P.a0 p - d0 | .token _ => bal w P.a0 p)
        (match P.a1 with | .native _ => bal w P.a1 p - d1 | .token _ => bal w P.a1 p) = .ok () := by
  unfold pairProvide at h
  simp only [bind_ok_iff] at h
  obtain ⟨⟨⟩, hs0, ⟨⟩, hs1, r0, hr0, r1, hr1, d0, hd0, d1, hd1, s0, hs0', s1, hs1', pr, hpr, _, hfu, p0, hp0, p1, hp1,
    ⟨⟩, hsl, _⟩ := h
  have e0 := balOf_ok hr0
  have e1 := balOf_ok hr1
  have ep0 := Halo.Liquidity.netPool_ok hp0
  have ep1 := Halo.Liquidity.netPool_ok hp1
  subst e0 e1 ep0 ep1
  exact ⟨d0, d1, Halo.Liquidity.select_ok hd0, Halo.Liquidity.select_ok hd1, hsl⟩

theorem ng_select (as0 as1 a : Asset) (am0 am1 : Nat) :
    NG (if as0 = a then pure am0 else if as1 = a then pure am1 else .error .abort : M Nat) := by
  split
  · exact NG.pure _
  · split
    · exact NG.pure _
    · exact NG.err (by decide)

theorem ng_netPool (a : Asset) (r d : Nat) :
    NG (match a with | .token _ => pure r | .native _ => Cw.checkedSub r d : M Nat) := by
  cases a with
  | native x => exact ng_checkedSub _ _
  | token x => exact NG.pure _

theorem ng_pull (w : World) (a : Asset) (p s d : Nat) :
    NG (match a with | .token t => tokTransferFrom w t p s p d | .native _ => pure w : M World) := by
  cases a with
  | native x => exact NG.pure _
  | token x => exact ng_tokTransferFrom _ _ _ _ _ _

/-- the only source of a `.guard` error in `provide_liquidity` is its call of `assert_slippage_tolerance`,
on exactly those arguments -/
theorem provide_guard_rejection {w : World} {p : Nat} {P : PairSt} {s : Nat} {funds : List (Nat × Nat)}
    {as0 as1 : Asset} {am0 am1 : Nat} {tol rcv : Option Nat}
    (h : pairProvide w p P s funds as0 am0 as1 am1 tol rcv = .error .guard) :
    ∃ d0 d1,
      ((as0 = P.a0 ∧ d0 = am0) ∨ (as0 ≠ P.a0 ∧ as1 = P.a0 ∧ d0 = am1)) ∧
      ((as0 = P.a1 ∧ d1 = am0) ∨ (as0 ≠ P.a1 ∧ as1 = P.a1 ∧ d1 = am1)) ∧
      assertSlippage tol d0 d1
        (match P.a0 with | .native _ => bal w P.a0 p - d0 | .token _ => bal w P.a0 p)
        (match P.a1 with | .native _ => bal w P.a1 p - d1 | .token _ => bal w P.a1 p) = .error .guard := by
  unfold pairProvide at h
  rcases (bind_error_iff _ _ _).mp h with h | ⟨_, _, h⟩
  · exact absurd h (ng_assertSent _ _ _)
  rcases (bind_error_iff _ _ _).mp h with h | ⟨_, _, h⟩
  · exact absurd h (ng_assertSent _ _ _)
  rcases (bind_error_iff _ _ _).mp h with h | ⟨r0, hr0, h⟩
  · exact absurd h (ng_balOf _ _ _)
  rcases (bind_error_iff _ _ _).mp h with h | ⟨r1, hr1, h⟩
  · exact absurd h (ng_balOf _ _ _)
  rcases (bind_error_iff _ _ _).mp h with h | ⟨d0, hd0, h⟩
  · exact absurd h (ng_select _ _ _ _ _)
  rcases (bind_error_iff _ _ _).mp h with h | ⟨d1, hd1, h⟩
  · exact absurd h (ng_select _ _ _ _ _)
  rcases (bind_error_iff _ _ _).mp h with h | ⟨s0, _, h⟩
  · exact absurd h (ng_uint_add _ _)
  rcases (bind_error_iff _ _ _).mp h with h | ⟨s1, _, h⟩
  · exact absurd h (ng_uint_add _ _)
  rcases (bind_error_iff _ _ _).mp h with h | ⟨pr, _, h⟩
  · exact absurd h (ng_uint_mul _ _)
  rcases (bind_error_iff _ _ _).mp h with h | ⟨_, _, h⟩
  · exact absurd h (ng_fromUint _)
  rcases (bind_error_iff _ _ _).mp h with h | ⟨p0, hp0, h⟩
  · exact absurd h (ng_netPool _ _ _)
  rcases (bind_error_iff _ _ _).mp h with h | ⟨p1, hp1, h⟩
  · exact absurd h (ng_netPool _ _ _)
  have e0 := balOf_ok hr0
  have e1 := balOf_ok hr1
  have ep0 := Halo.Liquidity.netPool_ok hp0
  have ep1 := Halo.Liquidity.netPool_ok hp1
  subst e0 e1 ep0 ep1
  refine ⟨d0, d1, Halo.Liquidity.select_ok hd0, Halo.Liquidity.select_ok hd1, ?_⟩
  rcases (bind_error_iff _ _ _).mp h with h | ⟨_, _, h⟩
  · exact h
  exfalso
  revert h
  show NG _
  refine NG.bind (ng_supplyOf _ _) fun S => ?_
  refine NG.bind ?_ fun share => ?_
  · split
    · exact NG.pure _
    · exact NG.err (by decide)
  split
  · exact NG.err (by decide)
  refine NG.bind ?_ fun share' => ?_
  · split
    · exact ng_checkedSub _ _
    · exact NG.pure _
  refine NG.bind (ng_pull _ _ _ _ _) fun w1 => ?_
  refine NG.bind (ng_pull _ _ _ _ _) fun w2 => ?_
  refine NG.bind ?_ fun w3 => ?_
  · split
    · exact ng_tokMint _ _ _ _ _
    · exact NG.pure _
  refine NG.bind (ng_validTo _ _) fun _ => ?_
  exact NG.bind (ng_tokMint _ _ _ _ _) fun w4 => NG.pure _

/-- … lifted to the transaction -/
theorem exec_provide_passed_guard {w w' : World} {s p : Nat} {funds : List (Nat × Nat)}
    {as0 as1 : Asset} {am0 am1 : Nat} {tol rcv : Option Nat} {out : Out}
    (h : pairExec w s p funds (.provide as0 am0 as1 am1 tol rcv) = .ok (w', out)) :
    ∃ P w0 d0 d1, w.pair p = some P ∧ attach w s p funds = .ok w0 ∧
      ((as0 = P.a0 ∧ d0 = am0) ∨ (as0 ≠ P.a0 ∧ as1 = P.a0 ∧ d0 = am1)) ∧
      ((as0 = P.a1 ∧ d1 = am0) ∨ (as0 ≠ P.a1 ∧ as1 = P.a1 ∧ d1 = am1)) ∧
      assertSlippage tol d0 d1
        (match P.a0 with | .native _ => bal w0 P.a0 p - d0 | .token _ => bal w0 P.a0 p)
        (match P.a1 with | .native _ => bal w0 P.a1 p - d1 | .token _ => bal w0 P.a1 p) = .ok () := by
  obtain ⟨P, w0, w1, sh, hP, h0, hp, _⟩ := Halo.C14.pairExec_provide h
  obtain ⟨d0, d1, g⟩ := provide_passed_guard hp
  exact ⟨P, w0, d0, d1, hP, h0, g⟩

theorem pairExec_provide_error {w : World} {s p : Nat} {funds : List (Nat × Nat)}
    {as0 as1 : Asset} {am0 am1 : Nat} {tol rcv : Option Nat}
    (h : pairExec w s p funds (.provide as0 am0 as1 am1 tol rcv) = .error .guard) :
    ∃ P w0, w.pair p = some P ∧ attach w s p funds = .ok w0 ∧
      pairProvide w0 p P s funds as0 am0 as1 am1 tol rcv = .error .guard := by
  unfold pairExec at h
  split at h
  · cases h
  rename_i P hP
  rcases (bind_error_iff _ _ _).mp h with h | ⟨w0, h0, h⟩
  · exact absurd h (ng_attach _ _ _ _)
  dsimp only at h
  rcases (bind_error_iff _ _ _).mp h with h | ⟨_, _, h⟩
  · exact ⟨P, w0, hP, h0, h⟩
  · exact absurd h (pure_ne_error _ _)

theorem exec_provide_guard_rejection {w : World} {s p : Nat} {funds : List (Nat × Nat)}
    {as0 as1 : Asset} {am0 am1 : Nat} {tol rcv : Option Nat}
    (h : pairExec w s p funds (.provide as0 am0 as1 am1 tol rcv) = .error .guard) :
    ∃ P w0 d0 d1, w.pair p = some P ∧ attach w s p funds = .ok w0 ∧
      ((as0 = P.a0 ∧ d0 = am0) ∨ (as0 ≠ P.a0 ∧ as1 = P.a0 ∧ d0 = am1)) ∧
      ((as0 = P.a1 ∧ d1 = am0) ∨ (as0 ≠ P.a1 ∧ as1 = P.a1 ∧ d1 = am1)) ∧
      assertSlippage tol d0 d1
        (match P.a0 with | .native _ => bal w0 P.a0 p - d0 | .token _ => bal w0 P.a0 p)
        (match P.a1 with | .native _ => bal w0 P.a1 p - d1 | .token _ => bal w0 P.a1 p) = .error .guard := by
  obtain ⟨P, w0, hP, h0, hp⟩ := pairExec_provide_error h
  obtain ⟨d0, d1, g⟩ := provide_guard_rejection hp
  exact ⟨P, w0, d0, d1, hP, h0, g⟩

/-! ### C13 at the call site: `execute_swap_operations` -/

/-- an accepted route passed the shape check -/
theorem swapOps_checked {name : Asset → String} {w w' : World} {sender : Nat} {ops : List (Asset × Asset)}
    {mn toAddr : Option Nat} (h : routerSwapOps name w sender ops mn toAddr = .ok w') :
    assertOperations (opsTexts name ops) = .ok () := by
  unfold routerSwapOps at h
  split at h
  · cases h
  · simp only [bind_ok_iff] at h
    obtain ⟨⟨⟩, h1, _⟩ := h
    exact h1

theorem routerReceive_checked {name : Asset → String} {w w' : World} {from_ : Nat} {ops : List (Asset × Asset)}
    {mn toAddr : Option Nat} (h : routerReceive name w from_ (.routerOps ops mn toAddr) = .ok w') :
    assertOperations (opsTexts name ops) = .ok () :=
  by
    obtain ⟨_, _, _, he, _, _, h⟩ := routerReceive_ok h
    cases he
    exact swapOps_checked h

/-- direct `ExecuteSwapOperations` -/
theorem routerExec_swapOps_checked {name : Asset → String} {w w' : World} {s : Nat} {funds : List (Nat × Nat)}
    {ops : List (Asset × Asset)} {mn toAddr : Option Nat}
    (h : routerExec name w s funds (.swapOps ops mn toAddr) = .ok w') :
    assertOperations (opsTexts name ops) = .ok () := by
  obtain ⟨w0, _, _, h⟩ := routerExec_swapOps_ok h
  exact swapOps_checked h

/-- a raw `Receive` sent to the router (by anyone) -/
theorem routerExec_receive_checked {name : Asset → String} {w w' : World} {s : Nat} {funds : List (Nat × Nat)}
    {from_ amount : Nat} {ops : List (Asset × Asset)} {mn toAddr : Option Nat}
    (h : routerExec name w s funds (.receive from_ amount (.routerOps ops mn toAddr)) = .ok w') :
    assertOperations (opsTexts name ops) = .ok () := by
  unfold routerExec at h
  simp only [bind_ok_iff] at h
  obtain ⟨w0, _, h⟩ := h
  exact routerReceive_checked h

theorem exec_swapOps_checked {name : Asset → String} {w w' : World} {s : Nat} {funds : List (Nat × Nat)}
    {ops : List (Asset × Asset)} {mn toAddr : Option Nat} {out : Out}
    (h : exec name w (.router s funds (.swapOps ops mn toAddr)) = .ok (w', out)) :
    assertOperations (opsTexts name ops) = .ok () := by
  simp only [exec, bind_ok_iff] at h
  obtain ⟨w1, h1, _⟩ := h
  exact routerExec_swapOps_checked h1

theorem exec_receive_checked {name : Asset → String} {w w' : World} {s : Nat} {funds : List (Nat × Nat)}
    {from_ amount : Nat} {ops : List (Asset × Asset)} {mn toAddr : Option Nat} {out : Out}
    (h : exec name w (.router s funds (.receive from_ amount (.routerOps ops mn toAddr))) = .ok (w', out)) :
    assertOperations (opsTexts name ops) = .ok () := by
  simp only [exec, bind_ok_iff] at h
  obtain ⟨w1, h1, _⟩ := h
  exact routerExec_receive_checked h1

/-- the cw20 `Send` entry point: whatever `dst` is, a successful send carrying a route hook ran
`execute_swap_operations` (a pair rejects the hook) -/
theorem tokSend_routerOps_checked {name : Asset → String} {w w' : World} {t s dst amt : Nat}
    {ops : List (Asset × Asset)} {mn toAddr : Option Nat} {out : Out}
    (h : tokSend name w t s dst amt (.routerOps ops mn toAddr) = .ok (w', out)) :
    dst = w.router ∧ assertOperations (opsTexts name ops) = .ok () := by
  unfold tokSend at h
  split at h
  · unfold tokSendPair at h
    simp only [bind_ok_iff] at h
    obtain ⟨w1, _, h2⟩ := h
    exact absurd h2 Halo.C14.pairReceive_routerOps
  · split at h
    · rename_i hd
      simp only [bind_ok_iff] at h
      obtain ⟨w1, _, w2, h2, _⟩ := h
      exact ⟨hd, routerReceive_checked h2⟩
    · cases h

theorem exec_tokSend_checked {name : Asset → String} {w w' : World} {t s amt : Nat}
    {ops : List (Asset × Asset)} {mn toAddr : Option Nat} {out : Out}
    (h : exec name w (.tokSend t s w.router amt (.routerOps ops mn toAddr)) = .ok (w', out)) :
    assertOperations (opsTexts name ops) = .ok () :=
  (tokSend_routerOps_checked (show tokSend name w t s w.router amt (.routerOps ops mn toAddr) = .ok (w', out) from h)).2

/-- the meaning of the check for an accepted route: not empty, exactly one dangling output -/
theorem checked_shape {name : Asset → String} {ops : List (Asset × Asset)}
    (h : assertOperations (opsTexts name ops) = .ok ()) :
    ops ≠ [] ∧ (danglingAsks (opsTexts name ops)).length = 1 := by
  refine ⟨?_, (Halo.C13.assertOperations_iff _).mp h⟩
  rintro rfl
  have : assertOperations [] = .error .err := by decide
  simp only [opsTexts, List.map_nil] at h
  rw [this] at h
  cases h

/-! ### the effect of `attach` for a general coin list -/

/-- the amount of denom `d` the contract sees in `funds` (first coin of that denom, absent ≙ 0): the
quantity `Spec.c09` compares the declaration with -/
def coinOf (funds : List (Nat × Nat)) (d : Nat) : Nat :=
  ((funds.find? (fun c => c.1 = d)).map (·.2)).getD 0

theorem c09_iff_coinOf {d amt : Nat} {funds : List (Nat × Nat)} :
    Spec.c09 d amt funds = true ↔ coinOf funds d = amt := by
  simp [Spec.c09, coinOf]

/-- the amount of denom `d` the bank moves for `funds`: the sum over all coins of that denom -/
def coinSum : List (Nat × Nat) → Nat → Nat
  | [], _ => 0
  | c :: cs, d => (if c.1 = d then c.2 else 0) + coinSum cs d

theorem coinSum_absent {d : Nat} : ∀ {cs : List (Nat × Nat)}, d ∉ cs.map (·.1) → coinSum cs d = 0
  | [], _ => rfl
  | c :: cs, h => by
    simp only [List.map_cons, List.mem_cons, not_or] at h
    simp only [coinSum, if_neg (Ne.symm h.1), coinSum_absent h.2]

theorem coinOf_cons (c : Nat × Nat) (cs : List (Nat × Nat)) (d : Nat) :
    coinOf (c :: cs) d = if c.1 = d then c.2 else coinOf cs d := by
  unfold coinOf
  by_cases h : c.1 = d
  · simp [h]
  · simp [h]

/-- with each denom at most once (as the chain enforces) the two agree -/
theorem coinSum_eq_coinOf (d : Nat) : ∀ {cs : List (Nat × Nat)}, (cs.map (·.1)).Nodup → coinSum cs d = coinOf cs d
  | [], _ => rfl
  | c :: cs, h => by
    simp only [List.map_cons, List.nodup_cons] at h
    rw [coinOf_cons]
    by_cases hc : c.1 = d
    · subst hc
      simp only [coinSum, if_true, coinSum_absent h.1, Nat.add_zero]
    · simp only [coinSum, if_neg hc, Nat.zero_add]
      exact coinSum_eq_coinOf d h.2

theorem coinSum_filter (d : Nat) : ∀ cs : List (Nat × Nat),
    coinSum (cs.filter (fun c => c.2 ≠ 0)) d = coinSum cs d
  | [] => rfl
  | c :: cs => by
    by_cases hz : c.2 = 0
    · have : List.filter (fun c => decide (c.2 ≠ 0)) (c :: cs) = List.filter (fun c => decide (c.2 ≠ 0)) cs := by
        simp [hz]
      rw [this, coinSum_filter d cs]
      simp only [coinSum, hz, ite_self, Nat.zero_add]
    · have : List.filter (fun c => decide (c.2 ≠ 0)) (c :: cs) = c :: List.filter (fun c => decide (c.2 ≠ 0)) cs := by
        simp [hz]
      rw [this]
      simp only [coinSum, coinSum_filter d cs]

theorem bankMoveList_bank {s p : Nat} (hsp : s ≠ p) : ∀ {cs : List (Nat × Nat)} {w w' : World},
    bankMoveList w s p cs = .ok w' → ∀ d,
      w'.bank p d = w.bank p d + coinSum cs d ∧ w'.bank s d + coinSum cs d = w.bank s d ∧
      ∀ z, z ≠ s → z ≠ p → w'.bank z d = w.bank z d
  | [], w, w', h, d => by
    simp only [bankMoveList] at h
    injection h with h
    subst h
    exact ⟨rfl, rfl, fun _ _ _ => rfl⟩
  | (x, a) :: cs, w, w', h, d => by
    simp only [bankMoveList, bind_ok_iff] at h
    obtain ⟨w1, h1, h2⟩ := h
    obtain ⟨i1, i2, i3⟩ := bankMoveList_bank hsp h2 d
    have B := bankMove1_bank h1
    have hle := (bankMove1_ok h1).1
    have hps : p ≠ s := Ne.symm hsp
    refine ⟨?_, ?_, ?_⟩
    · rw [i1, B]
      by_cases hd : d = x
      · subst hd; simp only [coinSum, if_true, if_neg hps]; omega
      · simp only [coinSum, if_neg hd, if_neg (Ne.symm hd)]; omega
    · rw [B] at i2
      by_cases hd : d = x
      · subst hd
        simp only [if_true, if_neg hsp] at i2
        simp only [coinSum, if_true]
        omega
      · simp only [if_neg hd] at i2
        simp only [coinSum, if_neg (Ne.symm hd)]
        omega
    · intro z hz1 hz2
      rw [i3 z hz1 hz2, B]
      simp only [if_neg hz1, if_neg hz2, ite_self]

/-- `attach` for any coin list with pairwise distinct denoms: for every denom the receiving contract's
balance rises, and the sender's falls, by exactly the amount of that denom in the funds; nothing else moves -/
theorem attach_effect {w w0 : World} {s p : Nat} {funds : List (Nat × Nat)} (hsp : s ≠ p)
    (hnd : (funds.map (·.1)).Nodup) (h : attach w s p funds = .ok w0) :
    (∀ d, bal w0 (.native d) p = bal w (.native d) p + coinOf funds d) ∧
    (∀ d, bal w0 (.native d) s + coinOf funds d = bal w (.native d) s) ∧
    (∀ d z, z ≠ s → z ≠ p → bal w0 (.native d) z = bal w (.native d) z) ∧
    (∀ t z, bal w0 (.token t) z = bal w (.token t) z) := by
  have htok : ∀ t z, bal w0 (.token t) z = bal w (.token t) z := by
    intro t z; simp only [bal, (attach_same h).2]
  unfold attach at h
  split at h
  · rename_i he
    injection h with h
    subst h he
    exact ⟨fun _ => rfl, fun _ => rfl, fun _ _ _ _ => rfl, htok⟩
  · unfold bankSend at h
    dsimp only at h
    split at h
    · cases h
    · have B := fun d => bankMoveList_bank hsp h d
      simp only [coinSum_filter, coinSum_eq_coinOf _ hnd] at B
      exact ⟨fun d => (B d).1, fun d => (B d).2.1, fun d z h1 h2 => (B d).2.2 z h1 h2, htok⟩

/-! ### C02: delivery of the native offer, and the receiver-is-the-pair case -/

/-- a successful direct swap: at handler entry the pair's balance of the offered denom is its
pre-transaction balance plus exactly the declared amount, paid by the sender in this transaction -/
theorem swap_native_delivered {w w' : World} {s p d amt : Nat} {funds : List (Nat × Nat)}
    {b ms toAddr : Option Nat} {out : Out} (hsp : s ≠ p) (hnd : (funds.map (·.1)).Nodup)
    (h : pairExec w s p funds (.swap (.native d) amt b ms toAddr) = .ok (w', out)) :
    ∃ P w0 o, w.pair p = some P ∧ attach w s p funds = .ok w0 ∧
      pairSwap w0 p P funds s (.native d) amt b ms toAddr = .ok (w', o) ∧ out = .swap o ∧
      coinOf funds d = amt ∧
      bal w0 (.native d) p = bal w (.native d) p + amt ∧
      bal w0 (.native d) s + amt = bal w (.native d) s := by
  obtain ⟨P, w0, w1, o, hP, h0, hs, he⟩ := Halo.C14.pairExec_swap_native h
  simp only [Prod.mk.injEq] at he
  obtain ⟨rfl, rfl⟩ := he
  have hc : coinOf funds d = amt := c09_iff_coinOf.mp (Halo.C14.swap_native_exact h)
  obtain ⟨A1, A2, _, _⟩ := attach_effect hsp hnd h0
  have a1 := A1 d
  have a2 := A2 d
  rw [hc] at a1 a2
  exact ⟨P, w0, o, hP, h0, hs, rfl, hc, a1, a2⟩

/-- the receiver is the pair itself: the payout goes from the pair to the pair, so no balance of anyone
in any asset changes after handler entry (in particular nothing leaves the ask reserve) -/
theorem swap_to_self {w0 w' : World} {p : Nat} {P : PairSt} {funds : List (Nat × Nat)} {trader : Nat}
    {offer : Asset} {amt : Nat} {b ms toAddr : Option Nat} {o : SwapOut}
    (hself : toAddr.getD trader = p)
    (h : pairSwap w0 p P funds trader offer amt b ms toAddr = .ok (w', o)) :
    (∀ a z, bal w' a z = bal w0 a z) ∧ (∀ t, supply w' t = supply w0 t) := by
  obtain ⟨_, _, _, x, y, ask, od, ad, n, s, k, _, _, _, rfl, hw⟩ := Halo.C02.pairSwap_ok h
  rcases hw with ⟨_, rfl⟩ | ⟨_, hp⟩
  · exact ⟨fun _ _ => rfl, fun _ => rfl⟩
  · rw [hself] at hp
    refine ⟨fun a z => ?_, supply_payout hp⟩
    obtain ⟨_, hle, hb⟩ := bal_payout hp a z
    rw [hb]
    by_cases ha : a = ask
    · subst ha
      by_cases hz : z = p
      · subst hz; simp only [if_true]; omega
      · simp only [if_true, if_neg hz]
    · simp only [if_neg ha]

theorem exec_swap_to_self {w w' : World} {s p d amt : Nat} {funds : List (Nat × Nat)}
    {b ms toAddr : Option Nat} {out : Out} (hself : toAddr.getD s = p)
    (h : pairExec w s p funds (.swap (.native d) amt b ms toAddr) = .ok (w', out)) :
    ∃ P w0 o, w.pair p = some P ∧ attach w s p funds = .ok w0 ∧ out = .swap o ∧
      bal w' o.ask p = bal w0 o.ask p ∧
      (∀ a z, bal w' a z = bal w0 a z) ∧ (∀ t, supply w' t = supply w0 t) := by
  obtain ⟨P, w0, w1, o, hP, h0, hs, he⟩ := Halo.C14.pairExec_swap_native h
  simp only [Prod.mk.injEq] at he
  obtain ⟨rfl, rfl⟩ := he
  obtain ⟨e1, e2⟩ := swap_to_self hself hs
  exact ⟨P, w0, o, hP, h0, rfl, e1 _ _, e1, e2⟩

theorem hook_swap_to_self {w w' : World} {t u p amt a : Nat} {offer : Asset}
    {b ms toAddr : Option Nat} {out : Out} (hself : toAddr.getD u = p)
    (h : tokSendPair w t u p amt (.swap offer a b ms toAddr) = .ok (w', out)) :
    ∃ P w0 o, w.pair p = some P ∧ tokTransfer w t u p amt = .ok w0 ∧ out = .swap o ∧
      bal w' o.ask p = bal w0 o.ask p ∧
      (∀ x z, bal w' x z = bal w0 x z) ∧ (∀ v, supply w' v = supply w0 v) := by
  obtain ⟨P, w0, o, ho, hP, htr, _, _, _, hsw⟩ := Halo.C02.tokSendPair_swap_ok h
  obtain ⟨e1, e2⟩ := swap_to_self hself hsw
  exact ⟨P, w0, o, hP, htr, ho, e1 _ _, e1, e2⟩

/-! ### C05: the movement of the deposits of a provision -/

/-- exactly `d` of asset `a` moved from `s` to `p` between `w` and `w'`, and nobody else's balance of
`a` changed -/
def Moved (w w' : World) (a : Asset) (s p d : Nat) : Prop :=
  bal w' a p = bal w a p + d ∧ bal w' a s + d = bal w a s ∧ ∀ z, z ≠ s → z ≠ p → bal w' a z = bal w a z

/-- inside the handler: a native pair asset was declared as attached and does not move any more; a cw20
pair asset is pulled from the caller in exactly the declared amount.  Both supply cases. -/
theorem provide_moves {w0 w' : World} {p : Nat} {P : PairSt} {s : Nat} {funds : List (Nat × Nat)}
    {as0 as1 : Asset} {am0 am1 : Nat} {tol rcv : Option Nat} {m : Nat}
    (hsp : s ≠ p) (hne : P.a0 ≠ P.a1) (hl0 : P.a0 ≠ .token P.lp) (hl1 : P.a1 ≠ .token P.lp)
    (h : pairProvide w0 p P s funds as0 am0 as1 am1 tol rcv = .ok (w', m)) :
    ∃ d0 d1,
      ((as0 = P.a0 ∧ d0 = am0) ∨ (as0 ≠ P.a0 ∧ as1 = P.a0 ∧ d0 = am1)) ∧
      ((as0 = P.a1 ∧ d1 = am0) ∨ (as0 ≠ P.a1 ∧ as1 = P.a1 ∧ d1 = am1)) ∧
      (∀ d, P.a0 = .native d → Spec.c09 d d0 funds = true ∧ ∀ z, bal w' P.a0 z = bal w0 P.a0 z) ∧
      (∀ d, P.a1 = .native d → Spec.c09 d d1 funds = true ∧ ∀ z, bal w' P.a1 z = bal w0 P.a1 z) ∧
      (∀ t, P.a0 = .token t → Moved w0 w' P.a0 s p d0) ∧
      (∀ t, P.a1 = .token t → Moved w0 w' P.a1 s p d1) := by
  obtain ⟨hs0, hs1, d0, d1, share, w1, w2, w3, sel0, sel1, _, _, hcase, hw1, hw2, hmint⟩ :=
    Halo.Liquidity.pairProvide_ok h
  obtain ⟨A1, A2, _, A4, A5⟩ := Halo.Liquidity.pull_ok hw1
  obtain ⟨B1, B2, _, B4, B5⟩ := Halo.Liquidity.pull_ok hw2
  have hne' : P.a1 ≠ P.a0 := Ne.symm hne
  have hps : p ≠ s := Ne.symm hsp
  -- the LP mints touch no pair asset
  have hM : ∀ a, a ≠ .token P.lp → ∀ z, bal w' a z = bal w2 a z := by
    intro a ha z
    rw [bal_tokMint hmint, if_neg (fun hh => ha hh.1)]
    rcases hcase with ⟨_, _, hm1⟩ | ⟨_, _, rfl⟩
    · rw [bal_tokMint hm1, if_neg (fun hh => ha hh.1)]
    · rfl
  refine ⟨d0, d1, sel0, sel1, ?_, ?_, ?_, ?_⟩
  · intro d e
    refine ⟨?_, fun z => ?_⟩
    · rcases sel0 with ⟨e0, rfl⟩ | ⟨_, e1, rfl⟩
      · exact Halo.Liquidity.sent_c09 hs0 (e0.trans e)
      · exact Halo.Liquidity.sent_c09 hs1 (e1.trans e)
    · rw [hM _ hl0, B1 _ hne, A4 d e]
  · intro d e
    refine ⟨?_, fun z => ?_⟩
    · rcases sel1 with ⟨e0, rfl⟩ | ⟨_, e1, rfl⟩
      · exact Halo.Liquidity.sent_c09 hs0 (e0.trans e)
      · exact Halo.Liquidity.sent_c09 hs1 (e1.trans e)
    · rw [hM _ hl1, B4 d e]
      exact A1 _ hne' _
  · intro t e
    obtain ⟨hle, hb⟩ := A5 t e
    refine ⟨?_, ?_, ?_⟩
    · rw [hM _ hl0, B1 _ hne, hb, if_pos rfl, if_neg hps]
    · rw [hM _ hl0, B1 _ hne, hb, if_neg hsp, if_pos rfl]; omega
    · intro z hz1 hz2
      rw [hM _ hl0, B1 _ hne, hb, if_neg hz2, if_neg hz1]
  · intro t e
    obtain ⟨hle, hb⟩ := B5 t e
    rw [A1 _ hne'] at hle
    refine ⟨?_, ?_, ?_⟩
    · rw [hM _ hl1, hb, if_pos rfl, if_neg hps, A1 _ hne']
    · rw [hM _ hl1, hb, if_neg hsp, if_pos rfl, A1 _ hne']; omega
    · intro z hz1 hz2
      rw [hM _ hl1, hb, if_neg hz2, if_neg hz1, A1 _ hne']

/-- the whole transaction: for each pair asset — native (via the attached funds) or cw20 (via
`TransferFrom`) — the pair's balance rises by exactly the declared deposit, the caller's falls by exactly
that, and nobody else's balance of it changes; whether or not the pool was empty -/
theorem exec_provide_moves {w w' : World} {s p : Nat} {funds : List (Nat × Nat)} {P : PairSt}
    {as0 as1 : Asset} {am0 am1 : Nat} {tol rcv : Option Nat} {out : Out}
    (hsp : s ≠ p) (hnd : (funds.map (·.1)).Nodup) (hP : w.pair p = some P)
    (hne : P.a0 ≠ P.a1) (hl0 : P.a0 ≠ .token P.lp) (hl1 : P.a1 ≠ .token P.lp)
    (h : pairExec w s p funds (.provide as0 am0 as1 am1 tol rcv) = .ok (w', out)) :
    ∃ w0 d0 d1 m, attach w s p funds = .ok w0 ∧
      pairProvide w0 p P s funds as0 am0 as1 am1 tol rcv = .ok (w', m) ∧ out = .provide m ∧
      ((as0 = P.a0 ∧ d0 = am0) ∨ (as0 ≠ P.a0 ∧ as1 = P.a0 ∧ d0 = am1)) ∧
      ((as0 = P.a1 ∧ d1 = am0) ∨ (as0 ≠ P.a1 ∧ as1 = P.a1 ∧ d1 = am1)) ∧
      Moved w w' P.a0 s p d0 ∧ Moved w w' P.a1 s p d1 := by
  obtain ⟨P', w0, w1, m, hP', h0, hp, he⟩ := Halo.C14.pairExec_provide h
  rw [hP] at hP'
  injection hP' with hP'
  subst hP'
  simp only [Prod.mk.injEq] at he
  obtain ⟨rfl, rfl⟩ := he
  obtain ⟨d0, d1, sel0, sel1, N0, N1, T0, T1⟩ := provide_moves hsp hne hl0 hl1 hp
  obtain ⟨F1, F2, F3, F4⟩ := attach_effect hsp hnd h0
  refine ⟨w0, d0, d1, m, h0, hp, rfl, sel0, sel1, ?_, ?_⟩
  · cases e : P.a0 with
    | native d =>
      obtain ⟨hc, hb⟩ := N0 d e
      rw [e] at hb
      have hc' := c09_iff_coinOf.mp hc
      refine ⟨?_, ?_, ?_⟩
      · rw [hb, F1, hc']
      · rw [hb, ← F2 d, hc']
      · intro z hz1 hz2; rw [hb, F3 d z hz1 hz2]
    | token t =>
      obtain ⟨m1, m2, m3⟩ := T0 t e
      rw [e] at m1 m2 m3
      refine ⟨?_, ?_, ?_⟩
      · rw [m1, F4]
      · rw [m2, F4]
      · intro z hz1 hz2; rw [m3 z hz1 hz2, F4]
  · cases e : P.a1 with
    | native d =>
      obtain ⟨hc, hb⟩ := N1 d e
      rw [e] at hb
      have hc' := c09_iff_coinOf.mp hc
      refine ⟨?_, ?_, ?_⟩
      · rw [hb, F1, hc']
      · rw [hb, ← F2 d, hc']
      · intro z hz1 hz2; rw [hb, F3 d z hz1 hz2]
    | token t =>
      obtain ⟨m1, m2, m3⟩ := T1 t e
      rw [e] at m1 m2 m3
      refine ⟨?_, ?_, ?_⟩
      · rw [m1, F4]
      · rw [m2, F4]
      · intro z hz1 hz2; rw [m3 z hz1 hz2, F4]

end Halo.CallSites
