/-
C16 / C17 at world level — the registry invariant `RegOK` (Halo/Inv.lean) is established by the empty
registry and preserved by every operation; its consequences for lookups; the decimals fan-out reaches
every registered pair containing the denom and touches nothing else.
-/
import Halo.Inv
import Halo.Proofs.C19
import Halo.Proofs.C14

namespace Halo.RegOKP
open Halo Halo.C19 Halo.C14

/-! ### sorted association lists -/

theorem regLookup_of_mem {α} {reg : List (Bytes × α)} (hs : reg.Pairwise (fun e f => e.1 < f.1))
    {e : Bytes × α} (he : e ∈ reg) : regLookup e.1 reg = some e.2 := by
  induction reg with
  | nil => cases he
  | cons hd rest ih =>
    rw [List.pairwise_cons] at hs
    obtain ⟨hhd, hrest⟩ := hs
    rcases List.mem_cons.mp he with h | h
    · subst h; simp [regLookup]
    · have hne : ¬ hd.1 = e.1 := ne_of_lt (hhd e h)
      have := ih hrest h
      unfold regLookup at this ⊢
      simp only [List.find?_cons, hne, decide_false]
      exact this

theorem mem_of_regLookup {α} {reg : List (Bytes × α)} {k : Bytes} {v : α} (h : regLookup k reg = some v) :
    (k, v) ∈ reg := by
  unfold regLookup at h
  rw [Option.map_eq_some_iff] at h
  obtain ⟨e, he, rfl⟩ := h
  have hm := List.mem_of_find?_eq_some he
  have hk := List.find?_some he
  simp only [decide_eq_true_eq] at hk
  subst hk
  exact hm

theorem regInsert_pairwise {α} (S : α → α → Prop) (k : Bytes) (v : α) (reg : List (Bytes × α))
    (hp : reg.Pairwise (fun e f => S e.2 f.2)) (h1 : ∀ e ∈ reg, S v e.2) (h2 : ∀ e ∈ reg, S e.2 v) :
    (regInsert k v reg).Pairwise (fun e f => S e.2 f.2) := by
  induction reg with
  | nil => simp [regInsert]
  | cons hd rest ih =>
    obtain ⟨k', v'⟩ := hd
    rw [List.pairwise_cons] at hp
    obtain ⟨hhd, hrest⟩ := hp
    unfold regInsert
    split_ifs with c1 c2
    · exact List.pairwise_cons.mpr ⟨fun e he => h1 e he, List.pairwise_cons.mpr ⟨hhd, hrest⟩⟩
    · exact List.pairwise_cons.mpr ⟨fun e he => h1 e (List.mem_cons_of_mem _ he), hrest⟩
    · refine List.pairwise_cons.mpr ⟨?_, ih hrest (fun e he => h1 e (List.mem_cons_of_mem _ he))
        (fun e he => h2 e (List.mem_cons_of_mem _ he))⟩
      intro e he
      rcases mem_regInsert k v rest e he with h | h
      · rw [h]; exact h2 _ List.mem_cons_self
      · exact hhd e h

/-- insertion at a key that is present replaces that entry in place -/
theorem regInsert_replace {α} (k : Bytes) (v v0 : α) (l1 l2 : List (Bytes × α))
    (hs : (l1 ++ (k, v0) :: l2).Pairwise (fun e f => e.1 < f.1)) :
    regInsert k v (l1 ++ (k, v0) :: l2) = l1 ++ (k, v) :: l2 := by
  induction l1 with
  | nil => simp [regInsert]
  | cons hd t ih =>
    obtain ⟨k', v'⟩ := hd
    rw [List.cons_append, List.pairwise_cons] at hs
    obtain ⟨hhd, hrest⟩ := hs
    have hlt : k' < k := hhd (k, v0) (by simp)
    have h1 : ¬ k < k' := lt_asymm hlt
    have h2 : ¬ k = k' := fun h => (ne_of_lt hlt) h.symm
    simp only [List.cons_append, regInsert, h1, h2, if_false]
    rw [ih hrest]

theorem sorted_of_keys_eq {α β} {l : List (Bytes × α)} {l' : List (Bytes × β)}
    (h : l'.map Prod.fst = l.map Prod.fst) (hs : l.Pairwise (fun e f => e.1 < f.1)) :
    l'.Pairwise (fun e f => e.1 < f.1) := by
  have a : (l.map Prod.fst).Pairwise (· < ·) := by rw [List.pairwise_map]; exact hs
  rw [← h, List.pairwise_map] at a
  exact a

/-! ### live assets -/

theorem live_native (w : World) (d : Nat) : Live w (.native d) = ((w.denoms d).isSome = true) := rfl
theorem live_token (w : World) (t : Nat) : Live w (.token t) = ((w.tok t).isSome = true) := rfl

/-- the factory's decimals query succeeds exactly on live assets -/
theorem live_iff_decimals {w : World} {a : Asset} : Live w a ↔ ∃ d, assetDecimals w a = .ok d := by
  cases a with
  | native d =>
    simp only [live_native, assetDecimals]
    cases w.denoms d <;> simp
  | token t =>
    simp only [live_token, assetDecimals]
    cases w.tok t <;> simp

theorem live_of_decimals {w : World} {a : Asset} {d : Nat} (h : assetDecimals w a = .ok d) : Live w a :=
  live_iff_decimals.mpr ⟨d, h⟩

/-- the same denoms are registered and the same cw20 contracts exist: the same assets are live -/
theorem live_congr {w w' : World} (hd : w'.denoms = w.denoms) (ht : SameToks w w') (a : Asset) :
    Live w' a ↔ Live w a := by
  cases a with
  | native d => simp only [live_native, hd]
  | token t => simp only [live_token, ht t]

theorem live_same {w w' : World} (hs : Same w w') (ht : SameToks w w') (a : Asset) : Live w' a ↔ Live w a :=
  live_congr hs.denoms ht a

/-! ### transfer of the invariant -/

theorem regOK_transfer {w w' : World} (hreg : w'.registry = w.registry) (hraw : w'.rawId = w.rawId)
    (hfac : w'.facAddr = w.facAddr) (hden : w'.denoms = w.denoms)
    (hpair : ∀ e ∈ w.registry, w'.pair e.2.pair = w.pair e.2.pair)
    (hlive : ∀ a, Live w a → Live w' a) (hr : RegOK w) : RegOK w' where
  sorted := by rw [hreg]; exact hr.sorted
  keyed := by intro e he; rw [hreg] at he; rw [hraw]; exact hr.keyed e he
  matched := by
    intro e he; rw [hreg] at he
    obtain ⟨P, hP, h⟩ := hr.matched e he
    exact ⟨P, by rw [hpair e he]; exact hP, by rw [hfac]; exact h⟩
  distinctPairs := by rw [hreg]; exact hr.distinctPairs
  distinctAssets := by intro e he; rw [hreg] at he; exact hr.distinctAssets e he
  denomsKnown := by intro e he; rw [hreg] at he; rw [hden]; exact hr.denomsKnown e he
  live := by
    intro e he; rw [hreg] at he
    exact ⟨hlive _ (hr.live e he).1, hlive _ (hr.live e he).2⟩

/-- ledger operations (contract states unchanged, the same cw20 contracts exist) keep the invariant -/
theorem regOK_same {w w' : World} (hs : Same w w') (ht : SameToks w w') (hr : RegOK w) : RegOK w' :=
  regOK_transfer hs.registry hs.rawId hs.facAddr hs.denoms (fun _ _ => by rw [hs.pair])
    (fun a h => (live_same hs ht a).mpr h) hr

/-- `RawOK` depends on the raw identifiers and on which assets are live: it carries over to a world with the same
identifiers in which no further asset is live -/
theorem rawOK_of_eq {w w' : World} (h : w'.rawId = w.rawId) (hl : ∀ a, Live w' a → Live w a) (hr : RawOK w) :
    RawOK w' :=
  ⟨by rw [h]; exact fun a b ha hb => hr.inj a b (hl a ha) (hl b hb), by rw [h]; exact hr.short⟩

/-! ### the empty registry -/

theorem regOK_init {w : World} (h : w.registry = []) : RegOK w where
  sorted := by rw [h]; exact List.Pairwise.nil
  keyed := by intro e he; rw [h] at he; cases he
  matched := by intro e he; rw [h] at he; cases he
  distinctPairs := by rw [h]; exact List.Pairwise.nil
  distinctAssets := by intro e he; rw [h] at he; cases he
  denomsKnown := by intro e he; rw [h] at he; cases he
  live := by intro e he; rw [h] at he; cases he

/-! ### lookups -/

theorem lookup_both_orders {w : World} (hr : RegOK w) {e : Bytes × Record} (he : e ∈ w.registry) :
    facLookup w e.2.a0 e.2.a1 = some e.2 ∧ facLookup w e.2.a1 e.2.a0 = some e.2 ∧ recMatches w e.2 := by
  have h1 : facLookup w e.2.a0 e.2.a1 = some e.2 := by
    unfold facLookup
    rw [← hr.keyed e he]
    exact regLookup_of_mem hr.sorted he
  refine ⟨h1, ?_, hr.matched e he⟩
  unfold facLookup at h1 ⊢
  rw [pairKey_comm]
  exact h1

/-- a lookup depends on the queried assets through their raw identifiers only -/
theorem lookup_by_raw {w : World} {a b a' b' : Asset} (ha : w.rawId a = w.rawId a') (hb : w.rawId b = w.rawId b') :
    facLookup w a b = facLookup w a' b' := by
  unfold facLookup; rw [ha, hb]

/-- the record a lookup returns is a registry entry: over two distinct live assets -/
theorem lookup_live {w : World} (hr : RegOK w) {a b : Asset} {R : Record} (h : facLookup w a b = some R) :
    Live w R.a0 ∧ Live w R.a1 ∧ R.a0 ≠ R.a1 :=
  have hm := mem_of_regLookup h
  ⟨(hr.live _ hm).1, (hr.live _ hm).2, hr.distinctAssets _ hm⟩

/-- fine form of `lookup_sound`: the record's assets carry the queried raw identifiers (in one of the two orders), and
each queried asset that is live IS the record's asset in that position -/
theorem lookup_sound_fine {w : World} (hr : RegOK w) (hraw : RawOK w) {a b : Asset} {R : Record}
    (h : facLookup w a b = some R) :
    (w.rawId R.a0 = w.rawId a ∧ w.rawId R.a1 = w.rawId b ∧ (Live w a → R.a0 = a) ∧ (Live w b → R.a1 = b)) ∨
    (w.rawId R.a0 = w.rawId b ∧ w.rawId R.a1 = w.rawId a ∧ (Live w b → R.a0 = b) ∧ (Live w a → R.a1 = a)) := by
  have hm := mem_of_regLookup h
  have hk := hr.keyed _ hm
  obtain ⟨l0, l1⟩ := hr.live _ hm
  rcases pairKey_inj (hraw.short _) (hraw.short _) (hraw.short _) (hraw.short _) hk with ⟨h1, h2⟩ | ⟨h1, h2⟩
  · exact .inl ⟨h1.symm, h2.symm, fun la => hraw.inj _ _ l0 la h1.symm, fun lb => hraw.inj _ _ l1 lb h2.symm⟩
  · exact .inr ⟨h2.symm, h1.symm, fun lb => hraw.inj _ _ l0 lb h2.symm, fun la => hraw.inj _ _ l1 la h1.symm⟩

/-- a lookup only ever returns a record over the queried unordered pair of raw identifiers; when the two queried
assets are live, a record over exactly the queried asset set -/
theorem lookup_sound {w : World} (hr : RegOK w) (hraw : RawOK w) {a b : Asset} {R : Record}
    (h : facLookup w a b = some R) :
    ((w.rawId R.a0 = w.rawId a ∧ w.rawId R.a1 = w.rawId b) ∨ (w.rawId R.a0 = w.rawId b ∧ w.rawId R.a1 = w.rawId a)) ∧
    (Live w a → Live w b → (R.a0 = a ∧ R.a1 = b) ∨ (R.a0 = b ∧ R.a1 = a)) := by
  rcases lookup_sound_fine hr hraw h with ⟨h1, h2, f1, f2⟩ | ⟨h1, h2, f1, f2⟩
  · exact ⟨.inl ⟨h1, h2⟩, fun la lb => .inl ⟨f1 la, f2 lb⟩⟩
  · exact ⟨.inr ⟨h1, h2⟩, fun la lb => .inr ⟨f1 lb, f2 la⟩⟩

/-- a lookup with live assets resolves to a pair contract over exactly those two (distinct) assets — the per-hop
hypothesis of `C13W.RouteOK` -/
theorem lookup_pair_assets {w : World} (hr : RegOK w) (hraw : RawOK w) {a b : Asset} {R : Record}
    (h : facLookup w a b = some R) (la : Live w a) (lb : Live w b) :
    ∃ P, w.pair R.pair = some P ∧ ((P.a0 = a ∧ P.a1 = b) ∨ (P.a0 = b ∧ P.a1 = a)) ∧ a ≠ b := by
  have hm := mem_of_regLookup h
  obtain ⟨P, hP, e0, e1, _⟩ := hr.matched _ hm
  have hd := hr.distinctAssets _ hm
  refine ⟨P, hP, ?_⟩
  rw [e0, e1]
  rcases (lookup_sound hr hraw h).2 la lb with ⟨f0, f1⟩ | ⟨f0, f1⟩
  · exact ⟨.inl ⟨f0, f1⟩, fun e => hd (by rw [f0, f1]; exact e)⟩
  · exact ⟨.inr ⟨f0, f1⟩, fun e => hd (by rw [f0, f1]; exact e.symm)⟩

/-- two lookups that return the same record are over the same unordered pair of raw identifiers; when the four
queried assets are live, over the same unordered asset set -/
theorem lookup_distinct {w : World} (hr : RegOK w) (hraw : RawOK w) {a b c d : Asset} {R : Record}
    (h1 : facLookup w a b = some R) (h2 : facLookup w c d = some R) :
    ((w.rawId a = w.rawId c ∧ w.rawId b = w.rawId d) ∨ (w.rawId a = w.rawId d ∧ w.rawId b = w.rawId c)) ∧
    (Live w a → Live w b → Live w c → Live w d → (a = c ∧ b = d) ∨ (a = d ∧ b = c)) := by
  have k1 := hr.keyed _ (mem_of_regLookup h1)
  have k2 := hr.keyed _ (mem_of_regLookup h2)
  have hk : pairKey (w.rawId a) (w.rawId b) = pairKey (w.rawId c) (w.rawId d) := k1.trans k2.symm
  rcases pairKey_inj (hraw.short _) (hraw.short _) (hraw.short _) (hraw.short _) hk with ⟨e1, e2⟩ | ⟨e1, e2⟩
  · exact ⟨.inl ⟨e1, e2⟩, fun la lb lc ld => .inl ⟨hraw.inj _ _ la lc e1, hraw.inj _ _ lb ld e2⟩⟩
  · exact ⟨.inr ⟨e1, e2⟩, fun la lb lc ld => .inr ⟨hraw.inj _ _ la ld e1, hraw.inj _ _ lb lc e2⟩⟩

/-! ### pair creation -/

theorem assetDecimals_native_ok {w : World} {d v : Nat} (h : assetDecimals w (.native d) = .ok v) :
    (w.denoms d).isSome := by
  simp only [assetDecimals] at h
  cases hd : w.denoms d with
  | none => simp [hd] at h
  | some k => rfl

theorem facCreatePair_inv {w w' : World} {s : Nat} {a0 a1 : Asset} {req : Requirements} {comm : Option Nat}
    {lpDec : Option Nat} {np nl : Nat} (h : facCreatePair w s a0 a1 req comm lpDec np nl = .ok w') :
    s = w.owner ∧ a0 ≠ a1 ∧ (match comm with | some c => c ≤ E | none => True) ∧
    ∃ d0 d1, assetDecimals w a0 = .ok d0 ∧ assetDecimals w a1 = .ok d1 ∧
      regLookup (pairKey (w.rawId a0) (w.rawId a1)) w.registry = none ∧
      w' = { w with
        pair := fun a => if a = np then some
          { a0 := a0, a1 := a1, d0 := d0, d1 := d1, lp := nl, comm := comm.getD defaultCommission, req := req,
            factory := w.facAddr } else w.pair a
        tok := fun a => if a = nl then some
          { bal := fun _ => 0, allow := fun _ _ => none, supply := 0, minter := some np, decimals := lpDec.getD 6 } else w.tok a
        registry := regInsert (pairKey (w.rawId a0) (w.rawId a1))
          { a0 := a0, a1 := a1, pair := np, lp := nl, d0 := d0, d1 := d1, req := req,
            comm := comm.getD defaultCommission } w.registry } := by
  unfold facCreatePair at h
  split at h
  · cases h
  rename_i hs
  refine ⟨Decidable.not_not.mp hs, ?_⟩
  split at h
  · cases h
  rename_i hne
  refine ⟨hne, ?_⟩
  have h' : ∃ cb : Bool, cb = (match (generalizing := false) comm with | some c => decide (E < c) | none => false) ∧
      (if cb = true then (.error .err : M World) else _) = .ok w' := ⟨_, rfl, h⟩
  clear h
  obtain ⟨cb, hcb, h⟩ := h'
  split at h
  · cases h
  rename_i hc
  refine ⟨?_, ?_⟩
  · cases comm with
    | none => trivial
    | some c =>
      simp only at hcb
      subst hcb
      simpa using hc
  simp only [bind_ok_iff] at h
  obtain ⟨d0, hd0, d1, hd1, h⟩ := h
  split at h
  · cases h
  rename_i hl
  split at h
  · cases h
  have h' : ∃ cb : Bool, (if cb = true then (.error .err : M World) else _) = .ok w' := ⟨_, h⟩
  clear h
  obtain ⟨cb, h⟩ := h'
  split at h
  · cases h
  injection h with h
  refine ⟨d0, d1, hd0, hd1, ?_, h.symm⟩
  simpa using hl

theorem create_dup_fails {w w' : World} {s : Nat} {a0 a1 : Asset} {req : Requirements} {comm lpDec : Option Nat} {np nl : Nat}
    (h : facCreatePair w s a0 a1 req comm lpDec np nl = .ok w') :
    a0 ≠ a1 ∧ facLookup w a0 a1 = none ∧ facLookup w a1 a0 = none ∧
    assetDecimals w a0 = .ok ((w'.pair np).map (·.d0) |>.getD 0) ∧
    assetDecimals w a1 = .ok ((w'.pair np).map (·.d1) |>.getD 0) ∧
    (match comm with | some c => c ≤ E | none => True) := by
  obtain ⟨_, hne, hc, d0, d1, hd0, hd1, hl, rfl⟩ := facCreatePair_inv h
  refine ⟨hne, hl, ?_, ?_, ?_, hc⟩
  · unfold facLookup; rw [pairKey_comm]; exact hl
  · simpa using hd0
  · simpa using hd1

/-- creation revokes no liveness: the LP token is instantiated at `nl` (over whatever was there) -/
theorem live_createPair {w w' : World} {s : Nat} {a0 a1 : Asset} {req : Requirements} {comm lpDec : Option Nat}
    {np nl : Nat} (h : facCreatePair w s a0 a1 req comm lpDec np nl = .ok w') (a : Asset) :
    (Live w a → Live w' a) ∧ (Live w' a → Live w a ∨ a = .token nl) := by
  obtain ⟨_, _, _, d0, d1, _, _, _, rfl⟩ := facCreatePair_inv h
  cases a with
  | native d => exact ⟨fun h => h, fun h => .inl h⟩
  | token t =>
    simp only [live_token]
    by_cases ht : t = nl
    · subst ht; simp
    · simp [ht]

/-- the registry invariant does not depend on `RawOK` -/
theorem regOK_createPair' {w w' : World} {s : Nat} {a0 a1 : Asset} {req : Requirements} {comm lpDec : Option Nat} {np nl : Nat}
    (hr : RegOK w) (hfresh : w.pair np = none)
    (h : facCreatePair w s a0 a1 req comm lpDec np nl = .ok w') : RegOK w' := by
  have hmono := fun a => (live_createPair h a).1
  obtain ⟨_, hne, _, d0, d1, hd0, hd1, _, rfl⟩ := facCreatePair_inv h
  have hold : ∀ e ∈ w.registry, e.2.pair ≠ np := by
    intro e he hp
    obtain ⟨P, hP, _⟩ := hr.matched e he
    rw [hp, hfresh] at hP
    cases hP
  constructor
  · exact regInsert_sorted _ _ _ hr.sorted
  · intro e he
    rcases mem_regInsert _ _ _ e he with h | h
    · rw [h]
    · exact hr.keyed e h
  · intro e he
    rcases mem_regInsert _ _ _ e he with h | h
    · rw [h]
      exact ⟨{ a0 := a0, a1 := a1, d0 := d0, d1 := d1, lp := nl, comm := comm.getD defaultCommission,
               req := req, factory := w.facAddr }, by simp, rfl, rfl, rfl, rfl, rfl, rfl, rfl, rfl⟩
    · obtain ⟨P, hP, hrest⟩ := hr.matched e h
      exact ⟨P, by simp [hold e h, hP], hrest⟩
  · apply regInsert_pairwise (fun a b : Record => a.pair ≠ b.pair) _ _ _ hr.distinctPairs
    · intro e he; exact fun hp => hold e he hp.symm
    · intro e he; exact hold e he
  · intro e he
    rcases mem_regInsert _ _ _ e he with h | h
    · rw [h]; exact hne
    · exact hr.distinctAssets e h
  · intro e he d hd
    rcases mem_regInsert _ _ _ e he with h | h
    · rw [h] at hd
      rcases hd with hd | hd
      · simp only at hd; subst hd; exact assetDecimals_native_ok hd0
      · simp only at hd; subst hd; exact assetDecimals_native_ok hd1
    · exact hr.denomsKnown e h d hd
  · intro e he
    rcases mem_regInsert _ _ _ e he with h | h
    · rw [h]
      exact ⟨hmono _ (live_of_decimals hd0), hmono _ (live_of_decimals hd1)⟩
    · exact ⟨hmono _ (hr.live e h).1, hmono _ (hr.live e h).2⟩

theorem regOK_createPair {w w' : World} {s : Nat} {a0 a1 : Asset} {req : Requirements} {comm lpDec : Option Nat} {np nl : Nat}
    (hr : RegOK w) (_hraw : RawOK w) (hfresh : w.pair np = none)
    (h : facCreatePair w s a0 a1 req comm lpDec np nl = .ok w') : RegOK w' :=
  regOK_createPair' hr hfresh h

/-! ### the decimals fan-out -/

/-- the record contains the denom -/
def hasDenom (d : Nat) (R : Record) : Prop := R.a0 = .native d ∨ R.a1 = .native d

/-- the record after re-registration of `d` with decimals `k` -/
def updRec (d k : Nat) (R : Record) : Record :=
  { R with d0 := if R.a0 = .native d then k else R.d0, d1 := if R.a1 = .native d then k else R.d1 }

def updEntry (d k : Nat) (e : Bytes × Record) : Bytes × Record := (e.1, updRec d k e.2)

/-- the message the fan-out queues for an entry -/
def msgOf (d k : Nat) (e : Bytes × Record) : List (Nat × Nat × Nat) :=
  if e.2.a0 = .native d ∨ e.2.a1 = .native d then [(e.2.pair, (updRec d k e.2).d0, (updRec d k e.2).d1)] else []

theorem map_fst_updEntry (d k : Nat) (l : List (Bytes × Record)) :
    (l.map (updEntry d k)).map Prod.fst = l.map Prod.fst := by
  rw [List.map_map]
  rfl

theorem updRec_of_not {d k : Nat} {R : Record} (h : ¬ hasDenom d R) : updRec d k R = R := by
  unfold hasDenom at h
  have h0 : ¬ R.a0 = .native d := fun e => h (.inl e)
  have h1 : ¬ R.a1 = .native d := fun e => h (.inr e)
  simp only [updRec, h0, h1, if_false]

theorem fanOut1_eq (d k : Nat) (w : World) (msgs : List (Nat × Nat × Nat)) (pre rest : List (Bytes × Record))
    (e : Bytes × Record)
    (hreg : w.registry = pre.map (updEntry d k) ++ e :: rest)
    (hs : (pre ++ e :: rest).Pairwise (fun e f => e.1 < f.1))
    (hk : e.1 = pairKey (w.rawId e.2.a0) (w.rawId e.2.a1))
    (hd : e.2.a0 ≠ e.2.a1) :
    facFanOut1 d k (w, msgs) e =
      .ok ({ w with registry := pre.map (updEntry d k) ++ updEntry d k e :: rest }, msgs ++ msgOf d k e) := by
  obtain ⟨ek, R⟩ := e
  simp only at hk hd
  have hs' : (pre.map (updEntry d k) ++ (ek, R) :: rest).Pairwise (fun e f => e.1 < f.1) := by
    refine sorted_of_keys_eq ?_ hs
    simp only [List.map_append, map_fst_updEntry, List.map_cons]
  have hlook : regLookup (pairKey (w.rawId R.a0) (w.rawId R.a1)) w.registry = some R := by
    rw [← hk, hreg]
    exact regLookup_of_mem hs' (e := (ek, R)) (by simp)
  unfold facFanOut1
  simp only [hlook]
  rw [← hk]
  by_cases h0 : R.a0 = .native d
  · have h1 : ¬ R.a1 = .native d := fun h1 => hd (h0.trans h1.symm)
    simp only [h0, h1, if_true, if_false, msgOf, updEntry, updRec, true_or]
    rw [hreg, regInsert_replace _ _ _ _ _ hs']
  · by_cases h1 : R.a1 = .native d
    · simp only [h0, h1, if_true, if_false, msgOf, updEntry, updRec, or_true]
      rw [hreg, regInsert_replace _ _ _ _ _ hs']
    · simp only [h0, h1, if_false, msgOf, updEntry, updRec, or_self, List.append_nil]
      show Except.ok (w, msgs) =
        Except.ok ({ w with registry := List.map (updEntry d k) pre ++ (ek, R) :: rest }, msgs)
      rw [← hreg]

theorem fanOut_fold_eq (d k : Nat) : ∀ (l pre : List (Bytes × Record)) (w : World) (msgs : List (Nat × Nat × Nat)),
    w.registry = pre.map (updEntry d k) ++ l →
    (pre ++ l).Pairwise (fun e f => e.1 < f.1) →
    (∀ e ∈ l, e.1 = pairKey (w.rawId e.2.a0) (w.rawId e.2.a1)) →
    (∀ e ∈ l, e.2.a0 ≠ e.2.a1) →
    l.foldlM (facFanOut1 d k) (w, msgs) =
      .ok ({ w with registry := (pre ++ l).map (updEntry d k) }, msgs ++ l.flatMap (msgOf d k))
  | [], pre, w, msgs, hreg, _, _, _ => by
    simp only [List.foldlM_nil, List.append_nil, List.flatMap_nil] at hreg ⊢
    rw [← hreg]
    rfl
  | e :: rest, pre, w, msgs, hreg, hs, hk, hd => by
    rw [List.foldlM_cons, fanOut1_eq d k w msgs pre rest e hreg hs (hk e List.mem_cons_self) (hd e List.mem_cons_self)]
    have ih := fanOut_fold_eq d k rest (pre ++ [e])
      { w with registry := pre.map (updEntry d k) ++ updEntry d k e :: rest } (msgs ++ msgOf d k e)
      (by simp) (by simpa using hs) (fun e' he' => hk e' (List.mem_cons_of_mem _ he'))
      (fun e' he' => hd e' (List.mem_cons_of_mem _ he'))
    show (Except.ok _ >>= _) = _
    simp only [bind, Except.bind]
    rw [ih]
    simp only [List.append_assoc, List.cons_append, List.nil_append, List.flatMap_cons]

/-! ### the queued pair updates -/

/-- everything but the pair states is unchanged -/
structure PairOnly (w w' : World) : Prop where
  bank : w'.bank = w.bank
  tok : w'.tok = w.tok
  registry : w'.registry = w.registry
  facAddr : w'.facAddr = w.facAddr
  denoms : w'.denoms = w.denoms
  rawId : w'.rawId = w.rawId
  badAddr : w'.badAddr = w.badAddr

theorem PairOnly.refl (w : World) : PairOnly w w := ⟨rfl, rfl, rfl, rfl, rfl, rfl, rfl⟩
theorem PairOnly.trans {a b c : World} (h1 : PairOnly a b) (h2 : PairOnly b c) : PairOnly a c :=
  ⟨h2.bank.trans h1.bank, h2.tok.trans h1.tok, h2.registry.trans h1.registry, h2.facAddr.trans h1.facAddr,
   h2.denoms.trans h1.denoms, h2.rawId.trans h1.rawId, h2.badAddr.trans h1.badAddr⟩

theorem pairUpdateDecimals_inv {w w' : World} {p s d da db : Nat}
    (h : pairUpdateDecimals w p s d da db = .ok w') :
    ∃ P, w.pair p = some P ∧ s = P.factory ∧
      w' = { w with
        pair := fun a =>
          if a = p then some (if P.a0 = .native d ∨ P.a1 = .native d then { P with d0 := da, d1 := db } else P)
          else w.pair a } := by
  unfold pairUpdateDecimals at h
  split at h
  · cases h
  rename_i P hP
  split at h
  · cases h
  rename_i hs
  injection h with h
  exact ⟨P, hP, Decidable.not_not.mp hs, h.symm⟩

theorem pairUpdateDecimals_pairOnly {w w' : World} {p s d da db : Nat}
    (h : pairUpdateDecimals w p s d da db = .ok w') : PairOnly w w' := by
  obtain ⟨P, _, _, rfl⟩ := pairUpdateDecimals_inv h
  exact ⟨rfl, rfl, rfl, rfl, rfl, rfl, rfl⟩

theorem fanOutMsgs_pairOnly {d : Nat} : ∀ (l : List (Nat × Nat × Nat)) {w w' : World},
    facFanOutMsgs d w l = .ok w' → PairOnly w w'
  | [], w, w', h => by
    simp only [facFanOutMsgs] at h; injection h with h; subst h; exact PairOnly.refl _
  | (p, da, db) :: rest, w, w', h => by
    simp only [facFanOutMsgs, bind_ok_iff] at h
    obtain ⟨w1, h1, h2⟩ := h
    exact (pairUpdateDecimals_pairOnly h1).trans (fanOutMsgs_pairOnly rest h2)

theorem fanOutMsgs_spec (d k : Nat) : ∀ (l : List (Bytes × Record)) (w w' : World),
    l.Pairwise (fun e f => e.2.pair ≠ f.2.pair) →
    (∀ e ∈ l, ∃ P, w.pair e.2.pair = some P ∧ P.a0 = e.2.a0 ∧ P.a1 = e.2.a1) →
    facFanOutMsgs d w (l.flatMap (msgOf d k)) = .ok w' →
    (∀ p, (∀ e ∈ l, hasDenom d e.2 → e.2.pair ≠ p) → w'.pair p = w.pair p) ∧
    (∀ e ∈ l, hasDenom d e.2 → ∃ P, w.pair e.2.pair = some P ∧
        w'.pair e.2.pair = some { P with d0 := (updRec d k e.2).d0, d1 := (updRec d k e.2).d1 })
  | [], w, w', _, _, h => by
    simp only [List.flatMap_nil, facFanOutMsgs] at h
    injection h with h; subst h
    exact ⟨fun _ _ => rfl, fun e he => by cases he⟩
  | e :: rest, w, w', hp, hm, h => by
    rw [List.pairwise_cons] at hp
    obtain ⟨hhd, hrest⟩ := hp
    by_cases hc : hasDenom d e.2
    · have hmsg : msgOf d k e = [(e.2.pair, (updRec d k e.2).d0, (updRec d k e.2).d1)] := by
        unfold msgOf; exact if_pos hc
      rw [List.flatMap_cons, hmsg] at h
      simp only [List.cons_append, List.nil_append, facFanOutMsgs, bind_ok_iff] at h
      obtain ⟨w1, h1, h2⟩ := h
      obtain ⟨P, hP, _, rfl⟩ := pairUpdateDecimals_inv h1
      obtain ⟨P0, hP0, ha0, ha1⟩ := hm e List.mem_cons_self
      rw [hP] at hP0; injection hP0 with hP0; subst hP0
      have hcP : P.a0 = .native d ∨ P.a1 = .native d := by rw [ha0, ha1]; exact hc
      have hm' : ∀ e' ∈ rest, ∃ P', (if e'.2.pair = e.2.pair then
          some (if P.a0 = .native d ∨ P.a1 = .native d then
            { P with d0 := (updRec d k e.2).d0, d1 := (updRec d k e.2).d1 } else P) else w.pair e'.2.pair) = some P' ∧
          P'.a0 = e'.2.a0 ∧ P'.a1 = e'.2.a1 := by
        intro e' he'
        have : ¬ e'.2.pair = e.2.pair := fun hh => hhd e' he' hh.symm
        rw [if_neg this]
        exact hm e' (List.mem_cons_of_mem _ he')
      obtain ⟨ih1, ih2⟩ := fanOutMsgs_spec d k rest _ w' hrest hm' h2
      constructor
      · intro p hpp
        have hne : ¬ p = e.2.pair := fun hh => hpp e List.mem_cons_self hc hh.symm
        rw [ih1 p (fun e' he' hc' => hpp e' (List.mem_cons_of_mem _ he') hc')]
        simp only [hne, if_false]
      · intro e' he' hc'
        rcases List.mem_cons.mp he' with rfl | he'
        · refine ⟨P, hP, ?_⟩
          rw [ih1 e'.2.pair (fun e'' he'' _ => (hhd e'' he'').symm)]
          simp only [if_true, hcP]
        · obtain ⟨P', hP', hw'⟩ := ih2 e' he' hc'
          have : ¬ e'.2.pair = e.2.pair := fun hh => hhd e' he' hh.symm
          simp only [this, if_false] at hP'
          exact ⟨P', hP', hw'⟩
    · have hmsg : msgOf d k e = [] := by unfold msgOf; exact if_neg hc
      rw [List.flatMap_cons, hmsg, List.nil_append] at h
      obtain ⟨ih1, ih2⟩ := fanOutMsgs_spec d k rest w w' hrest (fun e' he' => hm e' (List.mem_cons_of_mem _ he')) h
      constructor
      · intro p hpp
        exact ih1 p (fun e' he' hc' => hpp e' (List.mem_cons_of_mem _ he') hc')
      · intro e' he' hc'
        rcases List.mem_cons.mp he' with rfl | he'
        · exact absurd hc' hc
        · exact ih2 e' he' hc'

/-! ### the fan-out moves nothing -/

theorem facFanOut1_bt {denom decimals : Nat} {w w' : World} {msgs msgs' : List (Nat × Nat × Nat)}
    {e : Bytes × Record} (h : facFanOut1 denom decimals (w, msgs) e = .ok (w', msgs')) :
    w'.bank = w.bank ∧ w'.tok = w.tok := by
  unfold facFanOut1 at h
  dsimp only at h
  split at h
  · cases h
  injection h with h
  by_cases h0 : e.2.a0 = .native denom <;> by_cases h1 : e.2.a1 = .native denom <;>
    simp only [h0, h1, if_true, if_false, Prod.mk.injEq] at h <;>
    (obtain ⟨rfl, _⟩ := h; exact ⟨rfl, rfl⟩)

theorem facFanOut_fold_bt {denom decimals : Nat} : ∀ (l : List (Bytes × Record)) {acc acc' : World × List (Nat × Nat × Nat)},
    l.foldlM (facFanOut1 denom decimals) acc = .ok acc' → acc'.1.bank = acc.1.bank ∧ acc'.1.tok = acc.1.tok
  | [], acc, acc', h => by
    simp only [List.foldlM_nil, pure_ok_iff] at h; subst h; exact ⟨rfl, rfl⟩
  | e :: l, (w, msgs), acc', h => by
    simp only [List.foldlM_cons, bind_ok_iff] at h
    obtain ⟨⟨w1, msgs1⟩, h1, h2⟩ := h
    obtain ⟨a1, b1⟩ := facFanOut1_bt h1
    obtain ⟨a2, b2⟩ := facFanOut_fold_bt l h2
    exact ⟨a2.trans a1, b2.trans b1⟩

theorem update_moves_nothing {w w' : World} {s d k : Nat} (h : facAddDecimals w s d k = .ok w') :
    w'.bank = w.bank ∧ w'.tok = w.tok := by
  unfold facAddDecimals at h
  dsimp only at h
  split at h
  · cases h
  split at h
  · cases h
  split at h
  · simp only [bind_ok_iff] at h
    obtain ⟨⟨w2, msgs⟩, h1, h2⟩ := h
    obtain ⟨a1, b1⟩ := facFanOut_fold_bt _ h1
    have po := fanOutMsgs_pairOnly _ h2
    exact ⟨po.bank.trans a1, po.tok.trans b1⟩
  · simp only [pure_ok_iff] at h
    subst h
    exact ⟨rfl, rfl⟩

/-! ### `facAddDecimals` characterised -/

theorem addDecimals_char {w w' : World} {s d k : Nat} (hr : RegOK w) (h : facAddDecimals w s d k = .ok w') :
    w'.facAddr = w.facAddr ∧ w'.rawId = w.rawId ∧
    w'.denoms = (fun x => if x = d then some k else w.denoms x) ∧
    w'.registry = w.registry.map (updEntry d k) ∧
    (∀ p, (∀ e ∈ w.registry, hasDenom d e.2 → e.2.pair ≠ p) → w'.pair p = w.pair p) ∧
    (∀ e ∈ w.registry, hasDenom d e.2 → ∃ P, w.pair e.2.pair = some P ∧
        w'.pair e.2.pair = some { P with d0 := (updRec d k e.2).d0, d1 := (updRec d k e.2).d1 }) := by
  unfold facAddDecimals at h
  dsimp only at h
  split at h
  · cases h
  split at h
  · cases h
  split at h
  · simp only [bind_ok_iff] at h
    obtain ⟨⟨w2, msgs⟩, h1, h2⟩ := h
    have hf := fanOut_fold_eq d k w.registry []
      { w with denoms := fun x => if x = d then some k else w.denoms x } []
      (by simp) (by simpa using hr.sorted) hr.keyed hr.distinctAssets
    rw [hf] at h1
    injection h1 with h1
    simp only [List.nil_append, Prod.mk.injEq] at h1
    obtain ⟨rfl, rfl⟩ := h1
    have po := fanOutMsgs_pairOnly _ h2
    have hm : ∀ e ∈ w.registry, ∃ P, w.pair e.2.pair = some P ∧ P.a0 = e.2.a0 ∧ P.a1 = e.2.a1 := by
      intro e he
      obtain ⟨P, hP, a, b, _⟩ := hr.matched e he
      exact ⟨P, hP, a, b⟩
    obtain ⟨s1, s2⟩ := fanOutMsgs_spec d k w.registry _ w' hr.distinctPairs (by exact hm) h2
    exact ⟨po.facAddr, po.rawId, po.denoms, po.registry, s1, s2⟩
  · rename_i hex
    simp only [pure_ok_iff] at h
    subst h
    have hno : ∀ e ∈ w.registry, ¬ hasDenom d e.2 := by
      intro e he hc
      have := hr.denomsKnown e he d hc
      exact hex this
    refine ⟨rfl, rfl, rfl, ?_, fun _ _ => rfl, fun e he hc => absurd hc (hno e he)⟩
    show w.registry = _
    conv_lhs => rw [← List.map_id w.registry]
    apply List.map_congr_left
    intro e he
    simp only [id, updEntry, updRec_of_not (hno e he)]

theorem pairwise_mem_ne {α} {S : α → α → Prop} (hsym : ∀ a b, S a b → S b a) :
    ∀ {l : List α}, l.Pairwise S → ∀ a ∈ l, ∀ b ∈ l, a ≠ b → S a b
  | [], _, a, ha, _, _, _ => by cases ha
  | hd :: t, hp, a, ha, b, hb, hne => by
    rw [List.pairwise_cons] at hp
    obtain ⟨hhd, ht⟩ := hp
    rcases List.mem_cons.mp ha with rfl | ha' <;> rcases List.mem_cons.mp hb with rfl | hb'
    · exact absurd rfl hne
    · exact hhd b hb'
    · exact hsym _ _ (hhd a ha')
    · exact pairwise_mem_ne hsym ht a ha' b hb' hne

theorem distinct_pair_eq {w : World} (hr : RegOK w) {e f : Bytes × Record} (he : e ∈ w.registry)
    (hf : f ∈ w.registry) (h : e.2.pair = f.2.pair) : e = f := by
  by_contra hne
  exact pairwise_mem_ne (fun _ _ h => Ne.symm h) hr.distinctPairs e he f hf hne h

theorem recMatches_after {w w' : World} {d k : Nat} (hr : RegOK w) (hfac : w'.facAddr = w.facAddr)
    (h1 : ∀ p, (∀ e ∈ w.registry, hasDenom d e.2 → e.2.pair ≠ p) → w'.pair p = w.pair p)
    (h2 : ∀ e ∈ w.registry, hasDenom d e.2 → ∃ P, w.pair e.2.pair = some P ∧
        w'.pair e.2.pair = some { P with d0 := (updRec d k e.2).d0, d1 := (updRec d k e.2).d1 })
    {e : Bytes × Record} (he : e ∈ w.registry) : recMatches w' (updRec d k e.2) := by
  obtain ⟨P, hP, a0, a1, d0, d1, lp, cm, rq, fc⟩ := hr.matched e he
  by_cases hc : hasDenom d e.2
  · obtain ⟨P', hP', hw'⟩ := h2 e he hc
    rw [hP] at hP'; injection hP' with hP'; subst hP'
    exact ⟨_, hw', a0, a1, rfl, rfl, lp, cm, rq, by rw [hfac]; exact fc⟩
  · have hsame : w'.pair e.2.pair = w.pair e.2.pair :=
      h1 _ (fun e' he' hc' hp => hc (by rw [distinct_pair_eq hr he he' hp.symm]; exact hc'))
    rw [updRec_of_not hc]
    exact ⟨P, by rw [hsame]; exact hP, a0, a1, d0, d1, lp, cm, rq, by rw [hfac]; exact fc⟩

/-- re-registration revokes no liveness: the cw20 contracts are untouched, `d` is (or stays) registered -/
theorem live_addDecimals {w w' : World} {s d k : Nat} (hr : RegOK w) (h : facAddDecimals w s d k = .ok w')
    (a : Asset) : (Live w a → Live w' a) ∧ (Live w' a → Live w a ∨ a = .native d) := by
  obtain ⟨_, _, hden, _, _, _⟩ := addDecimals_char hr h
  have htok := (update_moves_nothing h).2
  cases a with
  | token t => simp only [live_token, htok]; exact ⟨fun h => h, fun h => .inl h⟩
  | native x =>
    simp only [live_native, hden]
    by_cases hx : x = d
    · subst hx; simp
    · simp [hx]

/-- the registry invariant does not depend on `RawOK` -/
theorem regOK_addDecimals' {w w' : World} {s d k : Nat} (hr : RegOK w)
    (h : facAddDecimals w s d k = .ok w') : RegOK w' := by
  have hmono := fun a => (live_addDecimals hr h a).1
  obtain ⟨hfac, hraw', hden, hreg, h1, h2⟩ := addDecimals_char hr h
  constructor
  · rw [hreg]; exact sorted_of_keys_eq (map_fst_updEntry d k _) hr.sorted
  · intro e' he'
    rw [hreg] at he'
    obtain ⟨e, he, rfl⟩ := List.mem_map.mp he'
    rw [hraw']
    exact hr.keyed e he
  · intro e' he'
    rw [hreg] at he'
    obtain ⟨e, he, rfl⟩ := List.mem_map.mp he'
    exact recMatches_after hr hfac h1 h2 he
  · rw [hreg, List.pairwise_map]; exact hr.distinctPairs
  · intro e' he'
    rw [hreg] at he'
    obtain ⟨e, he, rfl⟩ := List.mem_map.mp he'
    exact hr.distinctAssets e he
  · intro e' he' x hx
    rw [hreg] at he'
    obtain ⟨e, he, rfl⟩ := List.mem_map.mp he'
    have := hr.denomsKnown e he x hx
    rw [hden]
    by_cases hxd : x = d
    · simp [hxd]
    · simpa [hxd] using this
  · intro e' he'
    rw [hreg] at he'
    obtain ⟨e, he, rfl⟩ := List.mem_map.mp he'
    exact ⟨hmono _ (hr.live e he).1, hmono _ (hr.live e he).2⟩

theorem regOK_addDecimals {w w' : World} {s d k : Nat} (hr : RegOK w) (_hraw : RawOK w)
    (h : facAddDecimals w s d k = .ok w') : RegOK w' :=
  regOK_addDecimals' hr h

theorem update_reaches_all {w w' : World} {s d k : Nat} (hr : RegOK w) (_hraw : RawOK w)
    (h : facAddDecimals w s d k = .ok w') :
    w'.denoms d = some k ∧
    w'.registry.map (·.1) = w.registry.map (·.1) ∧
    (∀ e' ∈ w'.registry, ∃ e ∈ w.registry, e.1 = e'.1 ∧
        e'.2.a0 = e.2.a0 ∧ e'.2.a1 = e.2.a1 ∧ e'.2.pair = e.2.pair ∧ e'.2.lp = e.2.lp ∧ e'.2.req = e.2.req ∧ e'.2.comm = e.2.comm ∧
        e'.2.d0 = (if e.2.a0 = .native d then k else e.2.d0) ∧
        e'.2.d1 = (if e.2.a1 = .native d then k else e.2.d1) ∧
        recMatches w' e'.2) := by
  obtain ⟨hfac, _, hden, hreg, h1, h2⟩ := addDecimals_char hr h
  refine ⟨by rw [hden]; simp, by rw [hreg]; exact map_fst_updEntry d k _, ?_⟩
  intro e' he'
  rw [hreg] at he'
  obtain ⟨e, he, rfl⟩ := List.mem_map.mp he'
  exact ⟨e, he, rfl, rfl, rfl, rfl, rfl, rfl, rfl, rfl, rfl, recMatches_after hr hfac h1 h2 he⟩

theorem update_others_untouched {w w' : World} {s d k : Nat} (hr : RegOK w) (_hraw : RawOK w)
    (h : facAddDecimals w s d k = .ok w') (p : Nat) (P : PairSt) (hP : w.pair p = some P)
    (h0 : P.a0 ≠ .native d) (h1 : P.a1 ≠ .native d) : w'.pair p = some P := by
  obtain ⟨_, _, _, _, hp1, _⟩ := addDecimals_char hr h
  rw [hp1 p ?_]
  · exact hP
  intro e he hc hp
  obtain ⟨P', hP', a0, a1, _⟩ := hr.matched e he
  rw [hp, hP] at hP'; injection hP' with hP'; subst hP'
  rcases hc with hc | hc
  · exact h0 (a0.trans hc)
  · exact h1 (a1.trans hc)

/-! ### every handler outside the factory keeps the contract states (`Same`), except the pair's decimals update -/

theorem pairSwap_same {w w' : World} {p : Nat} {P : PairSt} {funds : List (Nat × Nat)} {trader : Nat}
    {offer : Asset} {amt : Nat} {belief ms tgt : Option Nat} {o : SwapOut}
    (h : pairSwap w p P funds trader offer amt belief ms tgt = .ok (w', o)) : Same w w' := by
  unfold pairSwap at h
  simp only [bind_ok_iff] at h
  obtain ⟨_, _, r0, _, r1, _, a2, _, a3, _, _, _, h⟩ := h
  split at h <;> simp only [bind_ok_iff, pure_ok_iff, Prod.mk.injEq] at h
  · obtain ⟨_, rfl, rfl, _⟩ := h; exact Same.refl _
  · obtain ⟨w1, hw, rfl, _⟩ := h; exact payout_same hw

theorem pairWithdraw_same {w w' : World} {p : Nat} {P : PairSt} {sender amount : Nat} {x : Nat × Nat}
    (h : pairWithdraw w p P sender amount = .ok (w', x)) : Same w w' := by
  unfold pairWithdraw at h
  simp only [bind_ok_iff, pure_ok_iff, Prod.mk.injEq] at h
  obtain ⟨r0, _, r1, _, S, _, ratio, _, x0, _, x1, _, w1, h1, w2, h2, w3, h3, rfl, _⟩ := h
  exact ((payout_same h1).trans (payout_same h2)).trans (tokBurn_same h3).1

theorem pairProvide_same {w w' : World} {p : Nat} {P : PairSt} {sender : Nat} {funds : List (Nat × Nat)}
    {as0 as1 : Asset} {am0 am1 : Nat} {tol receiver : Option Nat} {sh : Nat}
    (h : pairProvide w p P sender funds as0 am0 as1 am1 tol receiver = .ok (w', sh)) : Same w w' := by
  unfold pairProvide at h
  simp only [bind_ok_iff] at h
  obtain ⟨_, _, _, _, r0, _, r1, _, d0, _, d1, _, _, _, _, _, _, _, _, _, _, _, _, _, _, _, S, _, share, _, h⟩ := h
  split at h
  · cases h
  simp only [bind_ok_iff, pure_ok_iff, Prod.mk.injEq] at h
  obtain ⟨share', _, w1, h1, w2, h2, w3, h3, _, _, w4, h4, rfl, _⟩ := h
  have k1 : Same w w1 := by
    split at h1
    · exact (tokTransferFrom_same h1).1
    · simp only [pure_ok_iff] at h1; subst h1; exact Same.refl _
  have k2 : Same w1 w2 := by
    split at h2
    · exact (tokTransferFrom_same h2).1
    · simp only [pure_ok_iff] at h2; subst h2; exact Same.refl _
  have k3 : Same w2 w3 := by
    split at h3
    · exact (tokMint_same h3).1
    · simp only [pure_ok_iff] at h3; subst h3; exact Same.refl _
  exact ((k1.trans k2).trans k3).trans (tokMint_same h4).1

theorem pairReceive_same {w w' : World} {p t from_ amount : Nat} {hk : Hook} {out : Out}
    (h : pairReceive w p t from_ amount hk = .ok (w', out)) : Same w w' := by
  cases hk with
  | swap offer amt b ms tgt =>
    obtain ⟨P, _, _, _, _, w1, o, hs, he⟩ := pairReceive_swap h
    simp only [Prod.mk.injEq] at he
    obtain ⟨rfl, _⟩ := he
    exact pairSwap_same hs
  | withdraw =>
    obtain ⟨P, _, _, w1, x0, x1, hs, he⟩ := pairReceive_withdraw h
    simp only [Prod.mk.injEq] at he
    obtain ⟨rfl, _⟩ := he
    exact pairWithdraw_same hs
  | routerOps ops mn tgt => exact absurd h pairReceive_routerOps
  | garbage => exact absurd h pairReceive_garbage

/-- a pair execute keeps the contract states, unless it is the decimals update -/
theorem pairExec_cases {w w' : World} {s p : Nat} {funds : List (Nat × Nat)} {m : PairMsg} {out : Out}
    (h : pairExec w s p funds m = .ok (w', out)) :
    Same w w' ∨ ∃ d da db w0, m = .updateDecimals d da db ∧ Same w w0 ∧ pairUpdateDecimals w0 p s d da db = .ok w' := by
  cases m with
  | provide as0 am0 as1 am1 tol rcv =>
    obtain ⟨P, w0, w1, sh, _, h0, h1, he⟩ := pairExec_provide h
    simp only [Prod.mk.injEq] at he
    obtain ⟨rfl, _⟩ := he
    exact .inl ((attach_same h0).1.trans (pairProvide_same h1))
  | swap offer amt b ms tgt =>
    cases offer with
    | token t => exact absurd h pairExec_swap_token
    | native d =>
      obtain ⟨P, w0, w1, o, _, h0, h1, he⟩ := pairExec_swap_native h
      simp only [Prod.mk.injEq] at he
      obtain ⟨rfl, _⟩ := he
      exact .inl ((attach_same h0).1.trans (pairSwap_same h1))
  | receive from_ amount hk =>
    obtain ⟨P, w0, _, h0, h1⟩ := pairExec_receive h
    exact .inl ((attach_same h0).1.trans (pairReceive_same h1))
  | updateDecimals d da db =>
    obtain ⟨P, w0, w1, _, h0, h1, he⟩ := pairExec_updateDecimals h
    simp only [Prod.mk.injEq] at he
    obtain ⟨rfl, _⟩ := he
    exact .inr ⟨d, da, db, w0, rfl, (attach_same h0).1, h1⟩

theorem tokSendPair_same {w w' : World} {t sender p amt : Nat} {hk : Hook} {out : Out}
    (h : tokSendPair w t sender p amt hk = .ok (w', out)) : Same w w' := by
  unfold tokSendPair at h
  simp only [bind_ok_iff] at h
  obtain ⟨w1, h1, h2⟩ := h
  exact (tokTransfer_same h1).1.trans (pairReceive_same h2)

theorem routerHop_same {w w' : World} {sender : Nat} {offer ask : Asset} {tgt : Option Nat}
    (h : routerHop w sender offer ask tgt = .ok w') : Same w w' := by
  unfold routerHop at h
  split at h
  · cases h
  split at h
  · cases h
  simp only [bind_ok_iff] at h
  obtain ⟨amount, _, h⟩ := h
  split at h
  · simp only [bind_ok_iff, pure_ok_iff] at h
    obtain ⟨⟨w1, o⟩, h1, rfl⟩ := h
    rcases pairExec_cases h1 with hs | ⟨_, _, _, _, hm, _⟩
    · exact hs
    · cases hm
  · simp only [bind_ok_iff, pure_ok_iff] at h
    obtain ⟨⟨w1, o⟩, h1, rfl⟩ := h
    exact tokSendPair_same h1

theorem routerHops_same {tgt : Nat} : ∀ (ops : List (Asset × Asset)) {w w' : World},
    routerHops w tgt ops = .ok w' → Same w w'
  | [], w, w', h => by
    simp only [routerHops] at h; injection h with h; subst h; exact Same.refl _
  | [(o, a)], w, w', h => by
    simp only [routerHops] at h; exact routerHop_same h
  | (o, a) :: b :: rest, w, w', h => by
    simp only [routerHops, bind_ok_iff] at h
    obtain ⟨w1, h1, h2⟩ := h
    exact (routerHop_same h1).trans (routerHops_same (b :: rest) h2)

theorem routerSwapOps_same {name : Asset → String} {w w' : World} {sender : Nat} {ops : List (Asset × Asset)}
    {mn tgt : Option Nat} (h : routerSwapOps name w sender ops mn tgt = .ok w') : Same w w' := by
  unfold routerSwapOps at h
  split at h
  · cases h
  simp only [bind_ok_iff] at h
  obtain ⟨_, _, h⟩ := h
  split at h
  · exact routerHops_same _ h
  · simp only [bind_ok_iff, pure_ok_iff] at h
    obtain ⟨_, _, w1, h1, _, _, rfl⟩ := h
    exact routerHops_same _ h1

theorem routerReceive_same {name : Asset → String} {w w' : World} {from_ : Nat} {hk : Hook}
    (h : routerReceive name w from_ hk = .ok w') : Same w w' := by
  obtain ⟨_, _, _, rfl, _, _, h⟩ := routerReceive_ok h
  exact routerSwapOps_same h

theorem routerExec_same {name : Asset → String} {w w' : World} {sender : Nat} {funds : List (Nat × Nat)}
    {m : RouterMsg} (h : routerExec name w sender funds m = .ok w') : Same w w' := by
  unfold routerExec at h
  simp only [bind_ok_iff] at h
  obtain ⟨w0, h0, h⟩ := h
  refine (attach_same h0).1.trans ?_
  cases m with
  | swapOps ops mn tgt =>
    simp only [bind_ok_iff] at h
    obtain ⟨_, _, h⟩ := h
    exact routerSwapOps_same h
  | swapOp o a tgt =>
    simp only [bind_ok_iff] at h
    obtain ⟨_, _, h⟩ := h
    exact routerHop_same h
  | assertMin a prev mn rcv =>
    simp only [bind_ok_iff, pure_ok_iff] at h
    obtain ⟨_, _, _, _, rfl⟩ := h
    exact Same.refl _
  | receive from_ amount hk => exact routerReceive_same h

theorem tokSend_same {name : Asset → String} {w w' : World} {t sender dst amt : Nat} {hk : Hook} {out : Out}
    (h : tokSend name w t sender dst amt hk = .ok (w', out)) : Same w w' := by
  unfold tokSend at h
  split at h
  · exact tokSendPair_same h
  · split at h
    · simp only [bind_ok_iff, pure_ok_iff, Prod.mk.injEq] at h
      obtain ⟨w1, h1, w2, h2, rfl, _⟩ := h
      exact (tokTransfer_same h1).1.trans (routerReceive_same h2)
    · cases h

theorem tokSendFrom_same {name : Asset → String} {w w' : World} {t sp o dst amt : Nat} {hk : Hook} {out : Out}
    (h : tokSendFrom name w t sp o dst amt hk = .ok (w', out)) : Same w w' := by
  obtain ⟨w1, h1, ⟨_, h2⟩ | ⟨_, _, _, h2⟩⟩ := tokSendFrom_ok h
  · exact (tokTransferFrom_same h1).1.trans (pairReceive_same h2)
  · exact (tokTransferFrom_same h1).1.trans (routerReceive_same h2)

/-! ### … and which cw20 contracts exist (`SameToks`): the parallel of the `_same` lemmas above -/

theorem pairSwap_toks {w w' : World} {p : Nat} {P : PairSt} {funds : List (Nat × Nat)} {trader : Nat}
    {offer : Asset} {amt : Nat} {belief ms tgt : Option Nat} {o : SwapOut}
    (h : pairSwap w p P funds trader offer amt belief ms tgt = .ok (w', o)) : SameToks w w' := by
  unfold pairSwap at h
  simp only [bind_ok_iff] at h
  obtain ⟨_, _, r0, _, r1, _, a2, _, a3, _, _, _, h⟩ := h
  split at h <;> simp only [bind_ok_iff, pure_ok_iff, Prod.mk.injEq] at h
  · obtain ⟨_, rfl, rfl, _⟩ := h; exact SameToks.refl _
  · obtain ⟨w1, hw, rfl, _⟩ := h; exact payout_sameToks hw

theorem pairWithdraw_toks {w w' : World} {p : Nat} {P : PairSt} {sender amount : Nat} {x : Nat × Nat}
    (h : pairWithdraw w p P sender amount = .ok (w', x)) : SameToks w w' := by
  unfold pairWithdraw at h
  simp only [bind_ok_iff, pure_ok_iff, Prod.mk.injEq] at h
  obtain ⟨r0, _, r1, _, S, _, ratio, _, x0, _, x1, _, w1, h1, w2, h2, w3, h3, rfl, _⟩ := h
  exact ((payout_sameToks h1).trans (payout_sameToks h2)).trans (tokBurn_sameToks h3)

theorem pairProvide_toks {w w' : World} {p : Nat} {P : PairSt} {sender : Nat} {funds : List (Nat × Nat)}
    {as0 as1 : Asset} {am0 am1 : Nat} {tol receiver : Option Nat} {sh : Nat}
    (h : pairProvide w p P sender funds as0 am0 as1 am1 tol receiver = .ok (w', sh)) : SameToks w w' := by
  unfold pairProvide at h
  simp only [bind_ok_iff] at h
  obtain ⟨_, _, _, _, r0, _, r1, _, d0, _, d1, _, _, _, _, _, _, _, _, _, _, _, _, _, _, _, S, _, share, _, h⟩ := h
  split at h
  · cases h
  simp only [bind_ok_iff, pure_ok_iff, Prod.mk.injEq] at h
  obtain ⟨share', _, w1, h1, w2, h2, w3, h3, _, _, w4, h4, rfl, _⟩ := h
  have k1 : SameToks w w1 := by
    split at h1
    · exact tokTransferFrom_sameToks h1
    · simp only [pure_ok_iff] at h1; subst h1; exact SameToks.refl _
  have k2 : SameToks w1 w2 := by
    split at h2
    · exact tokTransferFrom_sameToks h2
    · simp only [pure_ok_iff] at h2; subst h2; exact SameToks.refl _
  have k3 : SameToks w2 w3 := by
    split at h3
    · exact tokMint_sameToks h3
    · simp only [pure_ok_iff] at h3; subst h3; exact SameToks.refl _
  exact ((k1.trans k2).trans k3).trans (tokMint_sameToks h4)

theorem pairReceive_toks {w w' : World} {p t from_ amount : Nat} {hk : Hook} {out : Out}
    (h : pairReceive w p t from_ amount hk = .ok (w', out)) : SameToks w w' := by
  cases hk with
  | swap offer amt b ms tgt =>
    obtain ⟨P, _, _, _, _, w1, o, hs, he⟩ := pairReceive_swap h
    simp only [Prod.mk.injEq] at he
    obtain ⟨rfl, _⟩ := he
    exact pairSwap_toks hs
  | withdraw =>
    obtain ⟨P, _, _, w1, x0, x1, hs, he⟩ := pairReceive_withdraw h
    simp only [Prod.mk.injEq] at he
    obtain ⟨rfl, _⟩ := he
    exact pairWithdraw_toks hs
  | routerOps ops mn tgt => exact absurd h pairReceive_routerOps
  | garbage => exact absurd h pairReceive_garbage

/-- no pair execute creates or removes a cw20 contract -/
theorem pairExec_toks {w w' : World} {s p : Nat} {funds : List (Nat × Nat)} {m : PairMsg} {out : Out}
    (h : pairExec w s p funds m = .ok (w', out)) : SameToks w w' := by
  cases m with
  | provide as0 am0 as1 am1 tol rcv =>
    obtain ⟨P, w0, w1, sh, _, h0, h1, he⟩ := pairExec_provide h
    simp only [Prod.mk.injEq] at he
    obtain ⟨rfl, _⟩ := he
    exact (sameToks_of_tok_eq (attach_same h0).2).trans (pairProvide_toks h1)
  | swap offer amt b ms tgt =>
    cases offer with
    | token t => exact absurd h pairExec_swap_token
    | native d =>
      obtain ⟨P, w0, w1, o, _, h0, h1, he⟩ := pairExec_swap_native h
      simp only [Prod.mk.injEq] at he
      obtain ⟨rfl, _⟩ := he
      exact (sameToks_of_tok_eq (attach_same h0).2).trans (pairSwap_toks h1)
  | receive from_ amount hk =>
    obtain ⟨P, w0, _, h0, h1⟩ := pairExec_receive h
    exact (sameToks_of_tok_eq (attach_same h0).2).trans (pairReceive_toks h1)
  | updateDecimals d da db =>
    obtain ⟨P, w0, w1, _, h0, h1, he⟩ := pairExec_updateDecimals h
    simp only [Prod.mk.injEq] at he
    obtain ⟨rfl, _⟩ := he
    exact (sameToks_of_tok_eq (attach_same h0).2).trans (sameToks_of_tok_eq (pairUpdateDecimals_pairOnly h1).tok)

theorem tokSendPair_toks {w w' : World} {t sender p amt : Nat} {hk : Hook} {out : Out}
    (h : tokSendPair w t sender p amt hk = .ok (w', out)) : SameToks w w' := by
  unfold tokSendPair at h
  simp only [bind_ok_iff] at h
  obtain ⟨w1, h1, h2⟩ := h
  exact (tokTransfer_sameToks h1).trans (pairReceive_toks h2)

theorem routerHop_toks {w w' : World} {sender : Nat} {offer ask : Asset} {tgt : Option Nat}
    (h : routerHop w sender offer ask tgt = .ok w') : SameToks w w' := by
  unfold routerHop at h
  split at h
  · cases h
  split at h
  · cases h
  simp only [bind_ok_iff] at h
  obtain ⟨amount, _, h⟩ := h
  split at h
  · simp only [bind_ok_iff, pure_ok_iff] at h
    obtain ⟨⟨w1, o⟩, h1, rfl⟩ := h
    exact pairExec_toks h1
  · simp only [bind_ok_iff, pure_ok_iff] at h
    obtain ⟨⟨w1, o⟩, h1, rfl⟩ := h
    exact tokSendPair_toks h1

theorem routerHops_toks {tgt : Nat} : ∀ (ops : List (Asset × Asset)) {w w' : World},
    routerHops w tgt ops = .ok w' → SameToks w w'
  | [], w, w', h => by
    simp only [routerHops] at h; injection h with h; subst h; exact SameToks.refl _
  | [(o, a)], w, w', h => by
    simp only [routerHops] at h; exact routerHop_toks h
  | (o, a) :: b :: rest, w, w', h => by
    simp only [routerHops, bind_ok_iff] at h
    obtain ⟨w1, h1, h2⟩ := h
    exact (routerHop_toks h1).trans (routerHops_toks (b :: rest) h2)

theorem routerSwapOps_toks {name : Asset → String} {w w' : World} {sender : Nat} {ops : List (Asset × Asset)}
    {mn tgt : Option Nat} (h : routerSwapOps name w sender ops mn tgt = .ok w') : SameToks w w' := by
  unfold routerSwapOps at h
  split at h
  · cases h
  simp only [bind_ok_iff] at h
  obtain ⟨_, _, h⟩ := h
  split at h
  · exact routerHops_toks _ h
  · simp only [bind_ok_iff, pure_ok_iff] at h
    obtain ⟨_, _, w1, h1, _, _, rfl⟩ := h
    exact routerHops_toks _ h1

theorem routerReceive_toks {name : Asset → String} {w w' : World} {from_ : Nat} {hk : Hook}
    (h : routerReceive name w from_ hk = .ok w') : SameToks w w' := by
  obtain ⟨_, _, _, rfl, _, _, h⟩ := routerReceive_ok h
  exact routerSwapOps_toks h

theorem routerExec_toks {name : Asset → String} {w w' : World} {sender : Nat} {funds : List (Nat × Nat)}
    {m : RouterMsg} (h : routerExec name w sender funds m = .ok w') : SameToks w w' := by
  unfold routerExec at h
  simp only [bind_ok_iff] at h
  obtain ⟨w0, h0, h⟩ := h
  refine (sameToks_of_tok_eq (attach_same h0).2).trans ?_
  cases m with
  | swapOps ops mn tgt =>
    simp only [bind_ok_iff] at h
    obtain ⟨_, _, h⟩ := h
    exact routerSwapOps_toks h
  | swapOp o a tgt =>
    simp only [bind_ok_iff] at h
    obtain ⟨_, _, h⟩ := h
    exact routerHop_toks h
  | assertMin a prev mn rcv =>
    simp only [bind_ok_iff, pure_ok_iff] at h
    obtain ⟨_, _, _, _, rfl⟩ := h
    exact SameToks.refl _
  | receive from_ amount hk => exact routerReceive_toks h

theorem tokSend_toks {name : Asset → String} {w w' : World} {t sender dst amt : Nat} {hk : Hook} {out : Out}
    (h : tokSend name w t sender dst amt hk = .ok (w', out)) : SameToks w w' := by
  unfold tokSend at h
  split at h
  · exact tokSendPair_toks h
  · split at h
    · simp only [bind_ok_iff, pure_ok_iff, Prod.mk.injEq] at h
      obtain ⟨w1, h1, w2, h2, rfl, _⟩ := h
      exact (tokTransfer_sameToks h1).trans (routerReceive_toks h2)
    · cases h

theorem tokSendFrom_toks {name : Asset → String} {w w' : World} {t sp o dst amt : Nat} {hk : Hook} {out : Out}
    (h : tokSendFrom name w t sp o dst amt hk = .ok (w', out)) : SameToks w w' := by
  obtain ⟨w1, h1, ⟨_, h2⟩ | ⟨_, _, _, h2⟩⟩ := tokSendFrom_ok h
  · exact (tokTransferFrom_sameToks h1).trans (pairReceive_toks h2)
  · exact (tokTransferFrom_sameToks h1).trans (routerReceive_toks h2)

/-! ### liveness is never revoked -/

/-- the asset an operation can make live: the LP token instantiated for a created pair, the denom of an
`AddNativeTokenDecimals` -/
def NewLive (op : Op) (a : Asset) : Prop :=
  (∃ s f a0 a1 req c ld np nl, op = .factory s f (.createPair a0 a1 req c ld np nl) ∧ a = .token nl) ∨
  (∃ s f d k, op = .factory s f (.addDecimals d k) ∧ a = .native d)

theorem newLive_unique {op : Op} {a b : Asset} (ha : NewLive op a) (hb : NewLive op b) : a = b := by
  rcases ha with ⟨s, f, a0, a1, req, c, ld, np, nl, e, rfl⟩ | ⟨s, f, d, k, e, rfl⟩ <;>
    rcases hb with ⟨s', f', a0', a1', req', c', ld', np', nl', e', rfl⟩ | ⟨s', f', d', k', e', rfl⟩ <;>
    (rw [e] at e'; cases e'; try rfl)

/-- the denoms table after `AddNativeTokenDecimals` (no invariant needed) -/
theorem facFanOut1_denoms {denom decimals : Nat} {w w' : World} {msgs msgs' : List (Nat × Nat × Nat)}
    {e : Bytes × Record} (h : facFanOut1 denom decimals (w, msgs) e = .ok (w', msgs')) :
    w'.denoms = w.denoms := by
  unfold facFanOut1 at h
  dsimp only at h
  split at h
  · cases h
  injection h with h
  by_cases h0 : e.2.a0 = .native denom <;> by_cases h1 : e.2.a1 = .native denom <;>
    simp only [h0, h1, if_true, if_false, Prod.mk.injEq] at h <;>
    (obtain ⟨rfl, _⟩ := h; rfl)

theorem facFanOut_fold_denoms {denom decimals : Nat} : ∀ (l : List (Bytes × Record)) {acc acc' : World × List (Nat × Nat × Nat)},
    l.foldlM (facFanOut1 denom decimals) acc = .ok acc' → acc'.1.denoms = acc.1.denoms
  | [], acc, acc', h => by
    simp only [List.foldlM_nil, pure_ok_iff] at h; subst h; rfl
  | e :: l, (w, msgs), acc', h => by
    simp only [List.foldlM_cons, bind_ok_iff] at h
    obtain ⟨⟨w1, msgs1⟩, h1, h2⟩ := h
    exact (facFanOut_fold_denoms l h2).trans (facFanOut1_denoms h1)

theorem facAddDecimals_denoms {w w' : World} {s d k : Nat} (h : facAddDecimals w s d k = .ok w') :
    w'.denoms = fun x => if x = d then some k else w.denoms x := by
  unfold facAddDecimals at h
  dsimp only at h
  split at h
  · cases h
  split at h
  · cases h
  split at h
  · simp only [bind_ok_iff] at h
    obtain ⟨⟨w2, msgs⟩, h1, h2⟩ := h
    have a1 := facFanOut_fold_denoms _ h1
    have po := fanOutMsgs_pairOnly _ h2
    exact po.denoms.trans a1
  · simp only [pure_ok_iff] at h
    subst h
    rfl

/-- every successful operation keeps every live asset live, and makes at most one further asset live (`NewLive`):
denoms are only added or overwritten, cw20 contracts only instantiated -/
theorem live_exec_iff {name : Asset → String} {w w' : World} {op : Op} {out : Out}
    (h : exec name w op = .ok (w', out)) (a : Asset) :
    (Live w a → Live w' a) ∧ (Live w' a → Live w a ∨ NewLive op a) := by
  have key : ∀ {v : World}, Same w v → SameToks w v → (Live w a → Live v a) ∧ (Live v a → Live w a ∨ NewLive op a) :=
    fun hs ht => ⟨(live_same hs ht a).mpr, fun h => .inl ((live_same hs ht a).mp h)⟩
  cases op with
  | bankSend s d cs =>
    simp only [exec, bind_ok_iff, pure_ok_iff, Prod.mk.injEq] at h
    obtain ⟨w1, h1, rfl, _⟩ := h
    exact key (bankSend_same h1).1 (sameToks_of_tok_eq (bankSend_same h1).2)
  | tokTransfer t s d a =>
    simp only [exec, bind_ok_iff, pure_ok_iff, Prod.mk.injEq] at h
    obtain ⟨w1, h1, rfl, _⟩ := h
    exact key (tokTransfer_same h1).1 (tokTransfer_sameToks h1)
  | tokSend t s d a hk => exact key (tokSend_same h) (tokSend_toks h)
  | tokIncAllow t o s a =>
    simp only [exec, bind_ok_iff, pure_ok_iff, Prod.mk.injEq] at h
    obtain ⟨w1, h1, rfl, _⟩ := h
    exact key (tokIncAllow_same h1).1 (tokIncAllow_sameToks h1)
  | tokBurn t s a =>
    simp only [exec, bind_ok_iff, pure_ok_iff, Prod.mk.injEq] at h
    obtain ⟨w1, h1, rfl, _⟩ := h
    exact key (tokBurn_same h1).1 (tokBurn_sameToks h1)
  | tokTransferFrom t sp o d a =>
    simp only [exec, bind_ok_iff, pure_ok_iff, Prod.mk.injEq] at h
    obtain ⟨w1, h1, rfl, _⟩ := h
    exact key (tokTransferFrom_same h1).1 (tokTransferFrom_sameToks h1)
  | tokSendFrom t sp o d a hk => exact key (tokSendFrom_same h) (tokSendFrom_toks h)
  | tokBurnFrom t sp o a =>
    simp only [exec, bind_ok_iff, pure_ok_iff, Prod.mk.injEq] at h
    obtain ⟨w1, h1, rfl, _⟩ := h
    exact key (tokBurnFrom_same h1).1 (tokBurnFrom_sameToks h1)
  | tokDecAllow t o sp a =>
    simp only [exec, bind_ok_iff, pure_ok_iff, Prod.mk.injEq] at h
    obtain ⟨w1, h1, rfl, _⟩ := h
    exact key (tokDecAllow_same h1).1 (tokDecAllow_sameToks h1)
  | pair s p f m =>
    have h' : pairExec w s p f m = .ok (w', out) := h
    have ht := pairExec_toks h'
    have hd : w'.denoms = w.denoms := by
      rcases pairExec_cases h' with hs | ⟨d, da, db, w0, rfl, hs0, hu⟩
      · exact hs.denoms
      · exact (pairUpdateDecimals_pairOnly hu).denoms.trans hs0.denoms
    exact ⟨(live_congr hd ht a).mpr, fun h => .inl ((live_congr hd ht a).mp h)⟩
  | router s f m =>
    simp only [exec, bind_ok_iff, pure_ok_iff, Prod.mk.injEq] at h
    obtain ⟨w1, h1, rfl, _⟩ := h
    exact key (routerExec_same h1) (routerExec_toks h1)
  | factory s f m =>
    simp only [exec, bind_ok_iff, pure_ok_iff, Prod.mk.injEq] at h
    obtain ⟨w1, h1, rfl, _⟩ := h
    unfold facExec at h1
    simp only [bind_ok_iff] at h1
    obtain ⟨w0, h0, h1⟩ := h1
    have hs0 := (attach_same h0).1
    have l0 := live_same hs0 (sameToks_of_tok_eq (attach_same h0).2) a
    cases m with
    | updateConfig o tc pc =>
      have h2 : facUpdateConfig w0 s o tc pc = .ok w1 := h1
      unfold facUpdateConfig at h2
      split at h2
      · cases h2
      split at h2
      · cases h2
      injection h2 with h2
      subst h2
      exact ⟨fun h => l0.mpr h, fun h => .inl (l0.mp h)⟩
    | createPair a0 a1 req comm lpDec np nl =>
      obtain ⟨c1, c2⟩ := live_createPair (show facCreatePair w0 s a0 a1 req comm lpDec np nl = .ok w1 from h1) a
      refine ⟨fun h => c1 (l0.mpr h), fun h => ?_⟩
      rcases c2 h with h | h
      · exact .inl (l0.mp h)
      · exact .inr (.inl ⟨s, f, a0, a1, req, comm, lpDec, np, nl, rfl, h⟩)
    | addDecimals d k =>
      have h2 : facAddDecimals w0 s d k = .ok w1 := h1
      have hden := facAddDecimals_denoms h2
      have htok := (update_moves_nothing h2).2
      have c : (Live w0 a → Live w1 a) ∧ (Live w1 a → Live w0 a ∨ a = .native d) := by
        cases a with
        | token t => simp only [live_token, htok]; exact ⟨fun h => h, fun h => .inl h⟩
        | native x =>
          simp only [live_native, hden]
          by_cases hx : x = d
          · subst hx; simp
          · simp [hx]
      refine ⟨fun h => c.1 (l0.mpr h), fun h => ?_⟩
      rcases c.2 h with h | h
      · exact .inl (l0.mp h)
      · exact .inr (.inr ⟨s, f, d, k, rfl, h⟩)
    | migratePair p c =>
      have h2 : facMigratePair w0 s p c = .ok w1 := h1
      unfold facMigratePair at h2
      split at h2
      · cases h2
      split at h2
      · cases h2
      split at h2
      · split at h2
        · injection h2 with h2; subst h2; exact ⟨fun h => l0.mpr h, fun h => .inl (l0.mp h)⟩
        · cases h2
      · cases h2

/-- monotonicity of liveness: a registered denom stays registered, a cw20 contract stays a contract -/
theorem live_exec {name : Asset → String} {w w' : World} {op : Op} {out : Out}
    (h : exec name w op = .ok (w', out)) {a : Asset} (hl : Live w a) : Live w' a :=
  (live_exec_iff h a).1 hl

theorem live_step {name : Asset → String} (w : World) (op : Op) {a : Asset} (hl : Live w a) :
    Live (step name w op) a := by
  unfold step
  cases hE : exec name w op with
  | error e => exact hl
  | ok r => obtain ⟨w', out⟩ := r; exact live_exec hE hl

theorem live_run {name : Asset → String} : ∀ (ops : List Op) (w : World) {a : Asset}, Live w a →
    Live (run name w ops) a
  | [], _, _, hl => hl
  | op :: rest, w, _, hl => by
    show Live (run name (step name w op) rest) _
    exact live_run rest _ (live_step w op hl)

/-! ### every operation preserves the invariant -/

/-- the registry invariant is preserved by every operation; it does not depend on `RawOK` -/
theorem regOK_step' {name : Asset → String} {w w' : World} {op : Op} {out : Out}
    (hr : RegOK w)
    (hactor : ∀ s p f m, op = .pair s p f m → s ≠ w.facAddr)
    (hfresh : ∀ s f a0 a1 req c ld np nl, op = .factory s f (.createPair a0 a1 req c ld np nl) → w.pair np = none)
    (h : exec name w op = .ok (w', out)) : RegOK w' := by
  cases op with
  | bankSend s d cs =>
    simp only [exec, bind_ok_iff, pure_ok_iff, Prod.mk.injEq] at h
    obtain ⟨w1, h1, rfl, _⟩ := h
    exact regOK_same (bankSend_same h1).1 (sameToks_of_tok_eq (bankSend_same h1).2) hr
  | tokTransfer t s d a =>
    simp only [exec, bind_ok_iff, pure_ok_iff, Prod.mk.injEq] at h
    obtain ⟨w1, h1, rfl, _⟩ := h
    exact regOK_same (tokTransfer_same h1).1 (tokTransfer_sameToks h1) hr
  | tokSend t s d a hk => exact regOK_same (tokSend_same h) (tokSend_toks h) hr
  | tokIncAllow t o s a =>
    simp only [exec, bind_ok_iff, pure_ok_iff, Prod.mk.injEq] at h
    obtain ⟨w1, h1, rfl, _⟩ := h
    exact regOK_same (tokIncAllow_same h1).1 (tokIncAllow_sameToks h1) hr
  | tokBurn t s a =>
    simp only [exec, bind_ok_iff, pure_ok_iff, Prod.mk.injEq] at h
    obtain ⟨w1, h1, rfl, _⟩ := h
    exact regOK_same (tokBurn_same h1).1 (tokBurn_sameToks h1) hr
  | tokTransferFrom t sp o d a =>
    simp only [exec, bind_ok_iff, pure_ok_iff, Prod.mk.injEq] at h
    obtain ⟨w1, h1, rfl, _⟩ := h
    exact regOK_same (tokTransferFrom_same h1).1 (tokTransferFrom_sameToks h1) hr
  | tokSendFrom t sp o d a hk => exact regOK_same (tokSendFrom_same h) (tokSendFrom_toks h) hr
  | tokBurnFrom t sp o a =>
    simp only [exec, bind_ok_iff, pure_ok_iff, Prod.mk.injEq] at h
    obtain ⟨w1, h1, rfl, _⟩ := h
    exact regOK_same (tokBurnFrom_same h1).1 (tokBurnFrom_sameToks h1) hr
  | tokDecAllow t o sp a =>
    simp only [exec, bind_ok_iff, pure_ok_iff, Prod.mk.injEq] at h
    obtain ⟨w1, h1, rfl, _⟩ := h
    exact regOK_same (tokDecAllow_same h1).1 (tokDecAllow_sameToks h1) hr
  | pair s p f m =>
    have h' : pairExec w s p f m = .ok (w', out) := h
    rcases pairExec_cases h' with hs | ⟨d, da, db, w0, rfl, hs0, hu⟩
    · exact regOK_same hs (pairExec_toks h') hr
    · clear hs0 hu w0
      obtain ⟨_, w0, w1, _, h0, hu, he⟩ := pairExec_updateDecimals h'
      simp only [Prod.mk.injEq] at he
      obtain ⟨rfl, _⟩ := he
      have hs0 := (attach_same h0).1
      have hr0 := regOK_same hs0 (sameToks_of_tok_eq (attach_same h0).2) hr
      obtain ⟨P, hP, hsP, rfl⟩ := pairUpdateDecimals_inv hu
      refine regOK_transfer (w := w0) rfl rfl rfl rfl ?_ (fun _ h => h) hr0
      intro e he
      have hne : ¬ e.2.pair = p := by
        intro hp
        obtain ⟨P', hP', _, _, _, _, _, _, _, hf⟩ := hr0.matched e he
        rw [hp, hP] at hP'; injection hP' with hP'; subst hP'
        exact hactor s p f _ rfl (by rw [hsP, hf, hs0.facAddr])
      simp only [hne, if_false]
  | router s f m =>
    simp only [exec, bind_ok_iff, pure_ok_iff, Prod.mk.injEq] at h
    obtain ⟨w1, h1, rfl, _⟩ := h
    exact regOK_same (routerExec_same h1) (routerExec_toks h1) hr
  | factory s f m =>
    simp only [exec, bind_ok_iff, pure_ok_iff, Prod.mk.injEq] at h
    obtain ⟨w1, h1, rfl, _⟩ := h
    unfold facExec at h1
    simp only [bind_ok_iff] at h1
    obtain ⟨w0, h0, h1⟩ := h1
    have hs0 := (attach_same h0).1
    have hr0 := regOK_same hs0 (sameToks_of_tok_eq (attach_same h0).2) hr
    cases m with
    | updateConfig o tc pc =>
      have h2 : facUpdateConfig w0 s o tc pc = .ok w1 := h1
      unfold facUpdateConfig at h2
      split at h2
      · cases h2
      split at h2
      · cases h2
      injection h2 with h2
      subst h2
      exact regOK_transfer (w := w0) rfl rfl rfl rfl (fun _ _ => rfl) (fun _ h => h) hr0
    | createPair a0 a1 req comm lpDec np nl =>
      exact regOK_createPair' hr0 (by rw [hs0.pair]; exact hfresh _ _ _ _ _ _ _ _ _ rfl) h1
    | addDecimals d k => exact regOK_addDecimals' hr0 h1
    | migratePair p c =>
      have h2 : facMigratePair w0 s p c = .ok w1 := h1
      unfold facMigratePair at h2
      split at h2
      · cases h2
      split at h2
      · cases h2
      split at h2
      · split at h2
        · injection h2 with h2; subst h2; exact hr0
        · cases h2
      · cases h2

theorem regOK_step {name : Asset → String} {w w' : World} {op : Op} {out : Out}
    (hr : RegOK w) (_hraw : RawOK w)
    (hactor : ∀ s p f m, op = .pair s p f m → s ≠ w.facAddr)
    (hfresh : ∀ s f a0 a1 req c ld np nl, op = .factory s f (.createPair a0 a1 req c ld np nl) → w.pair np = none)
    (h : exec name w op = .ok (w', out)) : RegOK w' :=
  regOK_step' hr hactor hfresh h

/-- the LP token a successful creation instantiates: zero supply, minted only by the new pair, with the decimals the
creator asked for (6 by default) — so a later pair over this token records exactly those (`assetDecimals`) -/
theorem create_lp_token {w w' : World} {s : Nat} {a0 a1 : Asset} {req : Requirements} {comm lpDec : Option Nat}
    {np nl : Nat} (h : facCreatePair w s a0 a1 req comm lpDec np nl = .ok w') :
    ∃ T, w'.tok nl = some T ∧ T.decimals = lpDec.getD 6 ∧ T.supply = 0 ∧ T.minter = some np ∧
      assetDecimals w' (.token nl) = .ok (lpDec.getD 6) := by
  obtain ⟨_, _, _, d0, d1, _, _, _, rfl⟩ := facCreatePair_inv h
  refine ⟨{ bal := fun _ => 0, allow := fun _ _ => none, supply := 0, minter := some np, decimals := lpDec.getD 6 },
    ?_, rfl, rfl, rfl, ?_⟩
  · simp
  · simp [assetDecimals]

/-! ### address validity is a fact of the environment: no operation changes `badAddr` -/

theorem facFanOut1_bad {denom decimals : Nat} {w w' : World} {msgs msgs' : List (Nat × Nat × Nat)}
    {e : Bytes × Record} (h : facFanOut1 denom decimals (w, msgs) e = .ok (w', msgs')) :
    w'.badAddr = w.badAddr := by
  unfold facFanOut1 at h
  dsimp only at h
  split at h
  · cases h
  injection h with h
  by_cases h0 : e.2.a0 = .native denom <;> by_cases h1 : e.2.a1 = .native denom <;>
    simp only [h0, h1, if_true, if_false, Prod.mk.injEq] at h <;>
    (obtain ⟨rfl, _⟩ := h; rfl)

theorem facFanOut_fold_bad {denom decimals : Nat} : ∀ (l : List (Bytes × Record)) {acc acc' : World × List (Nat × Nat × Nat)},
    l.foldlM (facFanOut1 denom decimals) acc = .ok acc' → acc'.1.badAddr = acc.1.badAddr
  | [], acc, acc', h => by
    simp only [List.foldlM_nil, pure_ok_iff] at h; subst h; rfl
  | e :: l, (w, msgs), acc', h => by
    simp only [List.foldlM_cons, bind_ok_iff] at h
    obtain ⟨⟨w1, msgs1⟩, h1, h2⟩ := h
    exact (facFanOut_fold_bad l h2).trans (facFanOut1_bad h1)

theorem facAddDecimals_bad {w w' : World} {s d k : Nat} (h : facAddDecimals w s d k = .ok w') :
    w'.badAddr = w.badAddr := by
  unfold facAddDecimals at h
  dsimp only at h
  split at h
  · cases h
  split at h
  · cases h
  split at h
  · simp only [bind_ok_iff] at h
    obtain ⟨⟨w2, msgs⟩, h1, h2⟩ := h
    exact (fanOutMsgs_pairOnly _ h2).badAddr.trans (facFanOut_fold_bad _ h1)
  · simp only [pure_ok_iff] at h
    subst h
    rfl

theorem facExec_bad {w w' : World} {s : Nat} {f : List (Nat × Nat)} {m : FacMsg}
    (h : facExec w s f m = .ok w') : w'.badAddr = w.badAddr := by
  unfold facExec at h
  simp only [bind_ok_iff] at h
  obtain ⟨w0, h0, h1⟩ := h
  refine Eq.trans ?_ (attach_same h0).1.badAddr
  cases m with
  | updateConfig o tc pc =>
    have h2 : facUpdateConfig w0 s o tc pc = .ok w' := h1
    unfold facUpdateConfig at h2
    split at h2
    · cases h2
    split at h2
    · cases h2
    injection h2 with h2
    subst h2
    rfl
  | createPair a0 a1 req comm lpDec np nl =>
    obtain ⟨_, _, _, d0, d1, _, _, _, rfl⟩ :=
      facCreatePair_inv (show facCreatePair w0 s a0 a1 req comm lpDec np nl = .ok w' from h1)
    rfl
  | addDecimals d k => exact facAddDecimals_bad (show facAddDecimals w0 s d k = .ok w' from h1)
  | migratePair p c =>
    have h2 : facMigratePair w0 s p c = .ok w' := h1
    unfold facMigratePair at h2
    split at h2
    · cases h2
    split at h2
    · cases h2
    split at h2
    · split at h2
      · injection h2 with h2; subst h2; rfl
      · cases h2
    · cases h2

/-- no operation changes which address strings are invalid -/
theorem badAddr_exec {name : Asset → String} {w w' : World} {op : Op} {out : Out}
    (h : exec name w op = .ok (w', out)) : w'.badAddr = w.badAddr := by
  cases op with
  | bankSend s d cs =>
    simp only [exec, bind_ok_iff, pure_ok_iff, Prod.mk.injEq] at h
    obtain ⟨w1, h1, rfl, _⟩ := h
    exact (bankSend_same h1).1.badAddr
  | tokTransfer t s d a =>
    simp only [exec, bind_ok_iff, pure_ok_iff, Prod.mk.injEq] at h
    obtain ⟨w1, h1, rfl, _⟩ := h
    exact (tokTransfer_same h1).1.badAddr
  | tokSend t s d a hk => exact (tokSend_same h).badAddr
  | tokIncAllow t o s a =>
    simp only [exec, bind_ok_iff, pure_ok_iff, Prod.mk.injEq] at h
    obtain ⟨w1, h1, rfl, _⟩ := h
    exact (tokIncAllow_same h1).1.badAddr
  | tokBurn t s a =>
    simp only [exec, bind_ok_iff, pure_ok_iff, Prod.mk.injEq] at h
    obtain ⟨w1, h1, rfl, _⟩ := h
    exact (tokBurn_same h1).1.badAddr
  | tokTransferFrom t sp o d a =>
    simp only [exec, bind_ok_iff, pure_ok_iff, Prod.mk.injEq] at h
    obtain ⟨w1, h1, rfl, _⟩ := h
    exact (tokTransferFrom_same h1).1.badAddr
  | tokSendFrom t sp o d a hk => exact (tokSendFrom_same h).badAddr
  | tokBurnFrom t sp o a =>
    simp only [exec, bind_ok_iff, pure_ok_iff, Prod.mk.injEq] at h
    obtain ⟨w1, h1, rfl, _⟩ := h
    exact (tokBurnFrom_same h1).1.badAddr
  | tokDecAllow t o sp a =>
    simp only [exec, bind_ok_iff, pure_ok_iff, Prod.mk.injEq] at h
    obtain ⟨w1, h1, rfl, _⟩ := h
    exact (tokDecAllow_same h1).1.badAddr
  | pair s p f m =>
    have h' : pairExec w s p f m = .ok (w', out) := h
    rcases pairExec_cases h' with hs | ⟨d, da, db, w0, rfl, hs0, hu⟩
    · exact hs.badAddr
    · exact (pairUpdateDecimals_pairOnly hu).badAddr.trans hs0.badAddr
  | router s f m =>
    simp only [exec, bind_ok_iff, pure_ok_iff, Prod.mk.injEq] at h
    obtain ⟨w1, h1, rfl, _⟩ := h
    exact (routerExec_same h1).badAddr
  | factory s f m =>
    simp only [exec, bind_ok_iff, pure_ok_iff, Prod.mk.injEq] at h
    obtain ⟨w1, h1, rfl, _⟩ := h
    exact facExec_bad h1

theorem badAddr_step {name : Asset → String} (w : World) (op : Op) : (step name w op).badAddr = w.badAddr := by
  unfold step
  cases hE : exec name w op with
  | error e => rfl
  | ok r => obtain ⟨w', out⟩ := r; exact badAddr_exec hE

theorem badAddr_run {name : Asset → String} : ∀ (ops : List Op) (w : World), (run name w ops).badAddr = w.badAddr
  | [], _ => rfl
  | op :: rest, w => by
    show (run name (step name w op) rest).badAddr = _
    exact (badAddr_run rest _).trans (badAddr_step w op)

end Halo.RegOKP
