/-
C16 / C17 at world level — the registry invariant `RegOK` (Halo/Inv.lean) is established by the empty
registry and preserved by every operation; its consequences for lookups; the decimals fan-out reaches
every registered pair containing the denom and touches nothing else.
-/
import Halo.Inv
import Halo.Proofs.C19
import Halo.Proofs.C14

namespace Halo.RegOKP
open Halo Halo.C19 Halo.C14

/-! ### sorted association lists -/

theorem regLookup_of_mem {α} {reg : List (Bytes × α)} (hs : reg.Pairwise (fun e f => e.1 < f.1))
    {e : Bytes × α} (he : e ∈ reg) : regLookup e.1 reg = some e.2 := by
  induction reg with
  | nil => cases he
  | cons hd rest ih =>
    rw [List.pairwise_cons] at hs
    obtain ⟨hhd, hrest⟩ := hs
    rcases List.mem_cons.mp he with h | h
    · subst h; simp [regLookup]
    · have hne : ¬ hd.1 = e.1 := ne_of_lt (hhd e h)
      have := ih hrest h
      unfold regLookup at this ⊢
      simp only [List.find?_cons, hne, decide_false]
      exact this

theorem mem_of_regLookup {α} {reg : List (Bytes × α)} {k : Bytes} {v : α} (h : regLookup k reg = some v) :
    (k, v) ∈ reg := by
  unfold regLookup at h
  rw [Option.map_eq_some_iff] at h
  obtain ⟨e, he, rfl⟩ := h
  have hm := List.mem_of_find?_eq_some he
  have hk := List.find?_some he
  simp only [decide_eq_true_eq] at hk
  subst hk
  exact hm

theorem regInsert_pairwise {α} (S : α → α → Prop) (k : Bytes) (v : α) (reg : List (Bytes × α))
    (hp : reg.Pairwise (fun e f => S e.2 f.2)) (h1 : ∀ e ∈ reg, S v e.2) (h2 : ∀ e ∈ reg, S e.2 v) :
    (regInsert k v reg).Pairwise (fun e f => S e.2 f.2) := by
  induction reg with
  | nil => simp [regInsert]
  | cons hd rest ih =>
    obtain ⟨k', v'⟩ := hd
    rw [List.pairwise_cons] at hp
    obtain ⟨hhd, hrest⟩ := hp
    unfold regInsert
    split_ifs with c1 c2
    · exact List.pairwise_cons.mpr ⟨fun e he => h1 e he, List.pairwise_cons.mpr ⟨hhd, hrest⟩⟩
    · exact List.pairwise_cons.mpr ⟨fun e he => h1 e (List.mem_cons_of_mem _ he), hrest⟩
    · refine List.pairwise_cons.mpr ⟨?_, ih hrest (fun e he => h1 e (List.mem_cons_of_mem _ he))
        (fun e he => h2 e (List.mem_cons_of_mem _ he))⟩
      intro e he
      rcases mem_regInsert k v rest e he with h | h
      · rw [h]; exact h2 _ List.mem_cons_self
      · exact hhd e h

/-- insertion at a key that is present replaces that entry in place -/
theorem regInsert_replace {α} (k : Bytes) (v v0 : α) (l1 l2 : List (Bytes × α))
    (hs : (l1 ++ (k, v0) :: l2).Pairwise (fun e f => e.1 < f.1)) :
    regInsert k v (l1 ++ (k, v0) :: l2) = l1 ++ (k, v) :: l2 := by
  induction l1 with
  | nil => simp [regInsert]
  | cons hd t ih =>
    obtain ⟨k', v'⟩ := hd
    rw [List.cons_append, List.pairwise_cons] at hs
    obtain ⟨hhd, hrest⟩ := hs
    have hlt : k' < k := hhd (k, v0) (by simp)
    have h1 : ¬ k < k' := lt_asymm hlt
    have h2 : ¬ k = k' := fun h => (ne_of_lt hlt) h.symm
    simp only [List.cons_append, regInsert, h1, h2, if_false]
    rw [ih hrest]

theorem sorted_of_keys_eq {α β} {l : List (Bytes × α)} {l' : List (Bytes × β)}
    (h : l'.map Prod.fst = l.map Prod.fst) (hs : l.Pairwise (fun e f => e.1 < f.1)) :
    l'.Pairwise (fun e f => e.1 < f.1) := by
  have a : (l.map Prod.fst).Pairwise (· < ·) := by rw [List.pairwise_map]; exact hs
  rw [← h, List.pairwise_map] at a
  exact a

/-! ### transfer of the invariant -/

theorem regOK_transfer {w w' : World} (hreg : w'.registry = w.registry) (hraw : w'.rawId = w.rawId)
    (hfac : w'.facAddr = w.facAddr) (hden : w'.denoms = w.denoms)
    (hpair : ∀ e ∈ w.registry, w'.pair e.2.pair = w.pair e.2.pair) (hr : RegOK w) : RegOK w' where
  sorted := by rw [hreg]; exact hr.sorted
  keyed := by intro e he; rw [hreg] at he; rw [hraw]; exact hr.keyed e he
  matched := by
    intro e he; rw [hreg] at he
    obtain ⟨P, hP, h⟩ := hr.matched e he
    exact ⟨P, by rw [hpair e he]; exact hP, by rw [hfac]; exact h⟩
  distinctPairs := by rw [hreg]; exact hr.distinctPairs
  distinctAssets := by intro e he; rw [hreg] at he; exact hr.distinctAssets e he
  denomsKnown := by intro e he; rw [hreg] at he; rw [hden]; exact hr.denomsKnown e he

theorem regOK_same {w w' : World} (hs : Same w w') (hr : RegOK w) : RegOK w' :=
  regOK_transfer hs.registry hs.rawId hs.facAddr hs.denoms (fun _ _ => by rw [hs.pair]) hr

theorem rawOK_of_eq {w w' : World} (h : w'.rawId = w.rawId) (hr : RawOK w) : RawOK w' :=
  ⟨by rw [h]; exact hr.inj, by rw [h]; exact hr.short⟩

/-! ### the empty registry -/

theorem regOK_init {w : World} (h : w.registry = []) : RegOK w where
  sorted := by rw [h]; exact List.Pairwise.nil
  keyed := by intro e he; rw [h] at he; cases he
  matched := by intro e he; rw [h] at he; cases he
  distinctPairs := by rw [h]; exact List.Pairwise.nil
  distinctAssets := by intro e he; rw [h] at he; cases he
  denomsKnown := by intro e he; rw [h] at he; cases he

/-! ### lookups -/

theorem lookup_both_orders {w : World} (hr : RegOK w) {e : Bytes × Record} (he : e ∈ w.registry) :
    facLookup w e.2.a0 e.2.a1 = some e.2 ∧ facLookup w e.2.a1 e.2.a0 = some e.2 ∧ recMatches w e.2 := by
  have h1 : facLookup w e.2.a0 e.2.a1 = some e.2 := by
    unfold facLookup
    rw [← hr.keyed e he]
    exact regLookup_of_mem hr.sorted he
  refine ⟨h1, ?_, hr.matched e he⟩
  unfold facLookup at h1 ⊢
  rw [pairKey_comm]
  exact h1

theorem lookup_sound {w : World} (hr : RegOK w) (hraw : RawOK w) {a b : Asset} {R : Record}
    (h : facLookup w a b = some R) : (R.a0 = a ∧ R.a1 = b) ∨ (R.a0 = b ∧ R.a1 = a) := by
  have hm := mem_of_regLookup h
  have hk := hr.keyed _ hm
  rcases pairKey_inj (hraw.short _) (hraw.short _) (hraw.short _) (hraw.short _) hk with ⟨h1, h2⟩ | ⟨h1, h2⟩
  · exact .inl ⟨(hraw.inj _ _ h1).symm, (hraw.inj _ _ h2).symm⟩
  · exact .inr ⟨(hraw.inj _ _ h2).symm, (hraw.inj _ _ h1).symm⟩

theorem lookup_distinct {w : World} (hr : RegOK w) (hraw : RawOK w) {a b c d : Asset} {R : Record}
    (h1 : facLookup w a b = some R) (h2 : facLookup w c d = some R) : (a = c ∧ b = d) ∨ (a = d ∧ b = c) := by
  rcases lookup_sound hr hraw h1 with ⟨e1, e2⟩ | ⟨e1, e2⟩ <;>
    rcases lookup_sound hr hraw h2 with ⟨e3, e4⟩ | ⟨e3, e4⟩
  · exact .inl ⟨e1.symm.trans e3, e2.symm.trans e4⟩
  · exact .inr ⟨e1.symm.trans e3, e2.symm.trans e4⟩
  · exact .inr ⟨e2.symm.trans e4, e1.symm.trans e3⟩
  · exact .inl ⟨e2.symm.trans e4, e1.symm.trans e3⟩

/-! ### pair creation -/

theorem assetDecimals_native_ok {w : World} {d v : Nat} (h : assetDecimals w (.native d) = .ok v) :
    (w.denoms d).isSome := by
  simp only [assetDecimals] at h
  cases hd : w.denoms d with
  | none => simp [hd] at h
  | some k => rfl

theorem facCreatePair_inv {w w' : World} {s : Nat} {a0 a1 : Asset} {req : Requirements} {comm : Option Nat}
    {np nl : Nat} (h : facCreatePair w s a0 a1 req comm np nl = .ok w') :
    s = w.owner ∧ a0 ≠ a1 ∧ (match comm with | some c => c ≤ E | none => True) ∧
    ∃ d0 d1, assetDecimals w a0 = .ok d0 ∧ assetDecimals w a1 = .ok d1 ∧
      regLookup (pairKey (w.rawId a0) (w.rawId a1)) w.registry = none ∧
      w' = { w with
        pair := fun a => if a = np then some
          { a0 := a0, a1 := a1, d0 := d0, d1 := d1, lp := nl, comm := comm.getD defaultCommission, req := req,
            factory := w.facAddr } else w.pair a
        tok := fun a => if a = nl then some
          { bal := fun _ => 0, allow := fun _ _ => none, supply := 0, minter := some np, decimals := 6 } else w.tok a
        registry := regInsert (pairKey (w.rawId a0) (w.rawId a1))
          { a0 := a0, a1 := a1, pair := np, lp := nl, d0 := d0, d1 := d1, req := req,
            comm := comm.getD defaultCommission } w.registry } := by
  unfold facCreatePair at h
  split at h
  · cases h
  rename_i hs
  refine ⟨Decidable.not_not.mp hs, ?_⟩
  split at h
  · cases h
  rename_i hne
  refine ⟨hne, ?_⟩
  have h' : ∃ cb : Bool, cb = (match (generalizing := false) comm with | some c => decide (E < c) | none => false) ∧
      (if cb = true then (.error .err : M World) else _) = .ok w' := ⟨_, rfl, h⟩
  clear h
  obtain ⟨cb, hcb, h⟩ := h'
  split at h
  · cases h
  rename_i hc
  refine ⟨?_, ?_⟩
  · cases comm with
    | none => trivial
    | some c =>
      simp only at hcb
      subst hcb
      simpa using hc
  simp only [bind_ok_iff] at h
  obtain ⟨d0, hd0, d1, hd1, h⟩ := h
  split at h
  · cases h
  rename_i hl
  injection h with h
  refine ⟨d0, d1, hd0, hd1, ?_, h.symm⟩
  simpa using hl

theorem create_dup_fails {w w' : World} {s : Nat} {a0 a1 : Asset} {req : Requirements} {comm : Option Nat} {np nl : Nat}
    (h : facCreatePair w s a0 a1 req comm np nl = .ok w') :
    a0 ≠ a1 ∧ facLookup w a0 a1 = none ∧ facLookup w a1 a0 = none ∧
    assetDecimals w a0 = .ok ((w'.pair np).map (·.d0) |>.getD 0) ∧
    assetDecimals w a1 = .ok ((w'.pair np).map (·.d1) |>.getD 0) ∧
    (match comm with | some c => c ≤ E | none => True) := by
  obtain ⟨_, hne, hc, d0, d1, hd0, hd1, hl, rfl⟩ := facCreatePair_inv h
  refine ⟨hne, hl, ?_, ?_, ?_, hc⟩
  · unfold facLookup; rw [pairKey_comm]; exact hl
  · simpa using hd0
  · simpa using hd1

theorem regOK_createPair {w w' : World} {s : Nat} {a0 a1 : Asset} {req : Requirements} {comm : Option Nat} {np nl : Nat}
    (hr : RegOK w) (_hraw : RawOK w) (hfresh : w.pair np = none)
    (h : facCreatePair w s a0 a1 req comm np nl = .ok w') : RegOK w' := by
  obtain ⟨_, hne, _, d0, d1, hd0, hd1, _, rfl⟩ := facCreatePair_inv h
  have hold : ∀ e ∈ w.registry, e.2.pair ≠ np := by
    intro e he hp
    obtain ⟨P, hP, _⟩ := hr.matched e he
    rw [hp, hfresh] at hP
    cases hP
  constructor
  · exact regInsert_sorted _ _ _ hr.sorted
  · intro e he
    rcases mem_regInsert _ _ _ e he with h | h
    · rw [h]
    · exact hr.keyed e h
  · intro e he
    rcases mem_regInsert _ _ _ e he with h | h
    · rw [h]
      exact ⟨{ a0 := a0, a1 := a1, d0 := d0, d1 := d1, lp := nl, comm := comm.getD defaultCommission,
               req := req, factory := w.facAddr }, by simp, rfl, rfl, rfl, rfl, rfl, rfl, rfl, rfl⟩
    · obtain ⟨P, hP, hrest⟩ := hr.matched e h
      exact ⟨P, by simp [hold e h, hP], hrest⟩
  · apply regInsert_pairwise (fun a b : Record => a.pair ≠ b.pair) _ _ _ hr.distinctPairs
    · intro e he; exact fun hp => hold e he hp.symm
    · intro e he; exact hold e he
  · intro e he
    rcases mem_regInsert _ _ _ e he with h | h
    · rw [h]; exact hne
    · exact hr.distinctAssets e h
  · intro e he d hd
    rcases mem_regInsert _ _ _ e he with h | h
    · rw [h] at hd
      rcases hd with hd | hd
      · simp only at hd; subst hd; exact assetDecimals_native_ok hd0
      · simp only at hd; subst hd; exact assetDecimals_native_ok hd1
    · exact hr.denomsKnown e h d hd

/-! ### the decimals fan-out -/

/-- the record contains the denom -/
def hasDenom (d : Nat) (R : Record) : Prop := R.a0 = .native d ∨ R.a1 = .native d

/-- the record after re-registration of `d` with decimals `k` -/
def updRec (d k : Nat) (R : Record) : Record :=
  { R with d0 := if R.a0 = .native d then k else R.d0, d1 := if R.a1 = .native d then k else R.d1 }

def updEntry (d k : Nat) (e : Bytes × Record) : Bytes × Record := (e.1, updRec d k e.2)

/-- the message the fan-out queues for an entry -/
def msgOf (d k : Nat) (e : Bytes × Record) : List (Nat × Nat × Nat) :=
  if e.2.a0 = .native d ∨ e.2.a1 = .native d then [(e.2.pair, (updRec d k e.2).d0, (updRec d k e.2).d1)] else []

theorem map_fst_updEntry (d k : Nat) (l : List (Bytes × Record)) :
    (l.map (updEntry d k)).map Prod.fst = l.map Prod.fst := by
  rw [List.map_map]
  rfl

theorem updRec_of_not {d k : Nat} {R : Record} (h : ¬ hasDenom d R) : updRec d k R = R := by
  unfold hasDenom at h
  have h0 : ¬ R.a0 = .native d := fun e => h (.inl e)
  have h1 : ¬ R.a1 = .native d := fun e => h (.inr e)
  simp only [updRec, h0, h1, if_false]

theorem fanOut1_eq (d k : Nat) (w : World) (msgs : List (Nat × Nat × Nat)) (pre rest : List (Bytes × Record))
    (e : Bytes × Record)
    (hreg : w.registry = pre.map (updEntry d k) ++ e :: rest)
    (hs : (pre ++ e :: rest).Pairwise (fun e f => e.1 < f.1))
    (hk : e.1 = pairKey (w.rawId e.2.a0) (w.rawId e.2.a1))
    (hd : e.2.a0 ≠ e.2.a1) :
    facFanOut1 d k (w, msgs) e =
      .ok ({ w with registry := pre.map (updEntry d k) ++ updEntry d k e :: rest }, msgs ++ msgOf d k e) := by
  obtain ⟨ek, R⟩ := e
  simp only at hk hd
  have hs' : (pre.map (updEntry d k) ++ (ek, R) :: rest).Pairwise (fun e f => e.1 < f.1) := by
    refine sorted_of_keys_eq ?_ hs
    simp only [List.map_append, map_fst_updEntry, List.map_cons]
  have hlook : regLookup (pairKey (w.rawId R.a0) (w.rawId R.a1)) w.registry = some R := by
    rw [← hk, hreg]
    exact regLookup_of_mem hs' (e := (ek, R)) (by simp)
  unfold facFanOut1
  simp only [hlook]
  rw [← hk]
  by_cases h0 : R.a0 = .native d
  · have h1 : ¬ R.a1 = .native d := fun h1 => hd (h0.trans h1.symm)
    simp only [h0, h1, if_true, if_false, msgOf, updEntry, updRec, true_or]
    rw [hreg, regInsert_replace _ _ _ _ _ hs']
  · by_cases h1 : R.a1 = .native d
    · simp only [h0, h1, if_true, if_false, msgOf, updEntry, updRec, or_true]
      rw [hreg, regInsert_replace _ _ _ _ _ hs']
    · simp only [h0, h1, if_false, msgOf, updEntry, updRec, or_self, List.append_nil]
      show Except.ok (w, msgs) =
        Except.ok ({ w with registry := List.map (updEntry d k) pre ++ (ek, R) :: rest }, msgs)
      rw [← hreg]

theorem fanOut_fold_eq (d k : Nat) : ∀ (l pre : List (Bytes × Record)) (w : World) (msgs : List (Nat × Nat × Nat)),
    w.registry = pre.map (updEntry d k) ++ l →
    (pre ++ l).Pairwise (fun e f => e.1 < f.1) →
    (∀ e ∈ l, e.1 = pairKey (w.rawId e.2.a0) (w.rawId e.2.a1)) →
    (∀ e ∈ l, e.2.a0 ≠ e.2.a1) →
    l.foldlM (facFanOut1 d k) (w, msgs) =
      .ok ({ w with registry := (pre ++ l).map (updEntry d k) }, msgs ++ l.flatMap (msgOf d k))
  | [], pre, w, msgs, hreg, _, _, _ => by
    simp only [List.foldlM_nil, List.append_nil, List.flatMap_nil] at hreg ⊢
    rw [← hreg]
    rfl
  | e :: rest, pre, w, msgs, hreg, hs, hk, hd => by
    rw [List.foldlM_cons, fanOut1_eq d k w msgs pre rest e hreg hs (hk e List.mem_cons_self) (hd e List.mem_cons_self)]
    have ih := fanOut_fold_eq d k rest (pre ++ [e])
      { w with registry := pre.map (updEntry d k) ++ updEntry d k e :: rest } (msgs ++ msgOf d k e)
      (by simp) (by simpa using hs) (fun e' he' => hk e' (List.mem_cons_of_mem _ he'))
      (fun e' he' => hd e' (List.mem_cons_of_mem _ he'))
    show (Except.ok _ >>= _) = _
    simp only [bind, Except.bind]
    rw [ih]
    simp only [List.append_assoc, List.cons_append, List.nil_append, List.flatMap_cons]

end Halo.RegOKP
