/-
Proofs for C04 (refund arithmetic of `withdraw_liquidity`) and C05
(`calculate_lp_token_amount_to_user`).  Statements live in `Halo/Props/C04.lean`, `Halo/Props/C05.lean`.
-/
import Halo.Proofs.Basic
import Halo.Formulas
import Halo.Spec
import Mathlib.Tactic.Linarith

namespace Halo.C04
open Halo

/-! ### C04 -/

/-- success characterised exactly -/
theorem refund_ok_iff {r a S x : Nat} :
    withdrawRefund r a S = .ok x ↔
      S ≠ 0 ∧ a * E / S < W ∧ r * (a * E / S) / E < W ∧ x = r * (a * E / S) / E := by
  unfold withdrawRefund
  simp only [bind_ok_iff, Cw.decFromRatio_ok, Cw.mulDec_ok]
  constructor
  · rintro ⟨ρ, ⟨hS, hρ, rfl⟩, hx, rfl⟩
    exact ⟨hS, hρ, hx, rfl⟩
  · rintro ⟨hS, hρ, hx, rfl⟩
    exact ⟨_, ⟨hS, hρ, rfl⟩, hx, rfl⟩

private theorem lt_succ_div_mul (n : Nat) {d : Nat} (hd : 0 < d) : n < (n / d + 1) * d := by
  have h := Nat.lt_mul_div_succ n hd
  rwa [Nat.mul_comm] at h

/-- the two-floor bracket, with the scale `e` opaque -/
private theorem bracket {e r a S ρ x : Nat} (hS : 0 < S)
    (h1 : ρ * S ≤ a * e) (h2 : a * e < (ρ + 1) * S)
    (h3 : x * e ≤ r * ρ) (h4 : r * ρ < (x + 1) * e) (he : 0 < e) :
    x * S ≤ r * a ∧ r * a * e < (x + 1) * S * e + r * S := by
  constructor
  · have h5 : x * S * e ≤ r * a * e := by
      nlinarith [Nat.mul_le_mul_right S h3, Nat.mul_le_mul_left r h1]
    exact Nat.le_of_mul_le_mul_right h5 he
  · have h2' : a * e + 1 ≤ (ρ + 1) * S := h2
    have h4' : r * ρ + 1 ≤ (x + 1) * e := h4
    nlinarith [Nat.mul_le_mul_left r h2', Nat.mul_le_mul_right S h4']

private theorem floors {r a S x : Nat} (h : withdrawRefund r a S = .ok x) :
    0 < S ∧ (a * E / S) * S ≤ a * E ∧ a * E < (a * E / S + 1) * S ∧
      x * E ≤ r * (a * E / S) ∧ r * (a * E / S) < (x + 1) * E := by
  obtain ⟨hS, -, -, rfl⟩ := refund_ok_iff.mp h
  have hS' : 0 < S := Nat.pos_of_ne_zero hS
  exact ⟨hS', Nat.div_mul_le_self _ _, lt_succ_div_mul _ hS', Nat.div_mul_le_self _ _,
    lt_succ_div_mul _ E_pos⟩

/-- `r·a/S − r/10^18 − 1 < x ≤ r·a/S` -/
theorem refund_bounds {r a S x : Nat}
    (h : withdrawRefund r a S = .ok x) (_ha : 1 ≤ a) (_haS : a ≤ S) :
    Spec.c04 r a S x = true := by
  obtain ⟨hS, h1, h2, h3, h4⟩ := floors h
  have hb := bracket hS h1 h2 h3 h4 E_pos
  simp only [Spec.c04, Bool.and_eq_true, decide_eq_true_eq]
  exact hb

/-- the refund never exceeds the reserve -/
theorem refund_le_reserve {r a S x : Nat}
    (h : withdrawRefund r a S = .ok x) (haS : a ≤ S) : x ≤ r := by
  obtain ⟨hS, -, -, rfl⟩ := refund_ok_iff.mp h
  have hS' : 0 < S := Nat.pos_of_ne_zero hS
  have hρ : a * E / S ≤ E := by
    calc a * E / S ≤ S * E / S := Nat.div_le_div_right (Nat.mul_le_mul_right E haS)
      _ = E := Nat.mul_div_cancel_left E hS'
  calc r * (a * E / S) / E ≤ r * E / E := Nat.div_le_div_right (Nat.mul_le_mul_left r hρ)
    _ = r := Nat.mul_div_cancel r E_pos

/-- the refund arithmetic cannot abort on a legal burn -/
theorem refund_total {r a S : Nat} (hS : 0 < S) (haS : a ≤ S) (hr : r < W) (_hSW : S < W) :
    ∃ x, withdrawRefund r a S = .ok x := by
  have hS0 : S ≠ 0 := Nat.pos_iff_ne_zero.mp hS
  have hρ : a * E / S ≤ E := by
    calc a * E / S ≤ S * E / S := Nat.div_le_div_right (Nat.mul_le_mul_right E haS)
      _ = E := Nat.mul_div_cancel_left E hS
  have hx : r * (a * E / S) / E ≤ r := by
    calc r * (a * E / S) / E ≤ r * E / E := Nat.div_le_div_right (Nat.mul_le_mul_left r hρ)
      _ = r := Nat.mul_div_cancel r E_pos
  have hEW : E < W := by decide
  exact ⟨_, refund_ok_iff.mpr ⟨hS0, Nat.lt_of_le_of_lt hρ hEW, Nat.lt_of_le_of_lt hx hr, rfl⟩⟩

/-- an entitlement of at least `r/10^18 + 2` yields a refund of at least 2 -/
theorem refund_ge_two {r a S x : Nat}
    (h : withdrawRefund r a S = .ok x) (ha : 1 ≤ a) (haS : a ≤ S)
    (hent : (r + 2 * E) * S ≤ r * a * E) : 2 ≤ x := by
  have hc := refund_bounds h ha haS
  simp only [Spec.c04, Bool.and_eq_true, decide_eq_true_eq] at hc
  obtain ⟨-, hlo⟩ := hc
  have hS : 0 < S := (floors h).1
  have hSE : 0 < S * E := Nat.mul_pos hS E_pos
  have h2 : 2 * (S * E) < (x + 1) * (S * E) := by nlinarith
  have := Nat.lt_of_mul_lt_mul_right h2
  omega

/-- burning more never pays less (same reserve, same supply) -/
theorem refund_mono_amount {r a a' S x x' : Nat}
    (h : withdrawRefund r a S = .ok x) (h' : withdrawRefund r a' S = .ok x') (haa : a ≤ a') :
    x ≤ x' := by
  obtain ⟨-, -, -, rfl⟩ := refund_ok_iff.1 h
  obtain ⟨-, -, -, rfl⟩ := refund_ok_iff.1 h'
  exact Nat.div_le_div_right (Nat.mul_le_mul_left r
    (Nat.div_le_div_right (Nat.mul_le_mul_right E haa)))

/-- a larger reserve never pays less (same burn, same supply): donations only raise refunds -/
theorem refund_mono_reserve {r r' a S x x' : Nat}
    (h : withdrawRefund r a S = .ok x) (h' : withdrawRefund r' a S = .ok x') (hrr : r ≤ r') :
    x ≤ x' := by
  obtain ⟨-, -, -, rfl⟩ := refund_ok_iff.1 h
  obtain ⟨-, -, -, rfl⟩ := refund_ok_iff.1 h'
  exact Nat.div_le_div_right (Nat.mul_le_mul_right _ hrr)

private theorem div_superadd (m n d : Nat) : m / d + n / d ≤ (m + n) / d := by
  rcases Nat.eq_zero_or_pos d with rfl | hd
  · simp
  · rw [Nat.le_div_iff_mul_le hd, Nat.add_mul]
    exact Nat.add_le_add (Nat.div_mul_le_self m d) (Nat.div_mul_le_self n d)

/-- splitting a burn (against the same reserve and supply) never pays more than burning at once -/
theorem refund_superadditive {r a b S x y z : Nat}
    (ha : withdrawRefund r a S = .ok x) (hb : withdrawRefund r b S = .ok y)
    (hab : withdrawRefund r (a + b) S = .ok z) : x + y ≤ z := by
  obtain ⟨-, -, -, rfl⟩ := refund_ok_iff.1 ha
  obtain ⟨-, -, -, rfl⟩ := refund_ok_iff.1 hb
  obtain ⟨-, -, -, rfl⟩ := refund_ok_iff.1 hab
  have h1 : a * E / S + b * E / S ≤ (a + b) * E / S := by
    rw [Nat.add_mul]; exact div_superadd _ _ _
  calc r * (a * E / S) / E + r * (b * E / S) / E
      ≤ (r * (a * E / S) + r * (b * E / S)) / E := div_superadd _ _ _
    _ = r * (a * E / S + b * E / S) / E := by rw [Nat.mul_add]
    _ ≤ r * ((a + b) * E / S) / E := Nat.div_le_div_right (Nat.mul_le_mul_left r h1)

/-! ### C05 -/

private theorem share_pos_iff {sender : Nat} {req : Requirements} {S d0 d1 r0 r1 m : Nat}
    (hS : S ≠ 0) :
    lpShare sender req S d0 d1 r0 r1 = .ok m ↔
      r0 ≠ 0 ∧ r1 ≠ 0 ∧ d0 * S / r0 < W ∧ d1 * S / r1 < W ∧
        m = min (d0 * S / r0) (d1 * S / r1) := by
  unfold lpShare
  rw [if_neg hS]
  simp only [bind_ok_iff, Cw.mulRatio_ok, pure_ok_iff]
  constructor
  · rintro ⟨m0, ⟨h0, hw0, rfl⟩, m1, ⟨h1, hw1, rfl⟩, rfl⟩
    exact ⟨h0, h1, hw0, hw1, rfl⟩
  · rintro ⟨h0, h1, hw0, hw1, rfl⟩
    exact ⟨_, ⟨h0, hw0, rfl⟩, _, ⟨h1, hw1, rfl⟩, rfl⟩

/-- exact value on a positive supply -/
theorem share_pos_eq {sender : Nat} {req : Requirements} {S d0 d1 r0 r1 m : Nat}
    (hS : S ≠ 0) (h : lpShare sender req S d0 d1 r0 r1 = .ok m) :
    r0 ≠ 0 ∧ r1 ≠ 0 ∧ m = min (d0 * S / r0) (d1 * S / r1) := by
  obtain ⟨h0, h1, -, -, hm⟩ := (share_pos_iff hS).mp h
  exact ⟨h0, h1, hm⟩

/-- success characterised exactly, positive supply -/
theorem share_ok_iff_pos {sender : Nat} {req : Requirements} {S d0 d1 r0 r1 : Nat} (hS : S ≠ 0) :
    (∃ m, lpShare sender req S d0 d1 r0 r1 = .ok m) ↔
      r0 ≠ 0 ∧ r1 ≠ 0 ∧ d0 * S / r0 < W ∧ d1 * S / r1 < W := by
  constructor
  · rintro ⟨m, h⟩
    obtain ⟨h0, h1, hw0, hw1, -⟩ := (share_pos_iff hS).mp h
    exact ⟨h0, h1, hw0, hw1⟩
  · rintro ⟨h0, h1, hw0, hw1⟩
    exact ⟨_, (share_pos_iff hS).mpr ⟨h0, h1, hw0, hw1, rfl⟩⟩

/-- positive supply: `min_i(d_i·S/r_i) − 1 < m ≤ min_i(d_i·S/r_i)` -/
theorem share_bounds_pos {sender : Nat} {req : Requirements} {S d0 d1 r0 r1 m : Nat}
    (hS : S ≠ 0) (h : lpShare sender req S d0 d1 r0 r1 = .ok m) :
    Spec.c05Pos S d0 d1 r0 r1 m = true := by
  obtain ⟨h0, h1, hm⟩ := share_pos_eq hS h
  have p0 : 0 < r0 := Nat.pos_of_ne_zero h0
  have p1 : 0 < r1 := Nat.pos_of_ne_zero h1
  have a0 : d0 * S / r0 * r0 ≤ d0 * S := Nat.div_mul_le_self _ _
  have a1 : d1 * S / r1 * r1 ≤ d1 * S := Nat.div_mul_le_self _ _
  have b0 : d0 * S < (d0 * S / r0 + 1) * r0 := lt_succ_div_mul _ p0
  have b1 : d1 * S < (d1 * S / r1 + 1) * r1 := lt_succ_div_mul _ p1
  have m0 : m ≤ d0 * S / r0 := hm ▸ Nat.min_le_left _ _
  have m1 : m ≤ d1 * S / r1 := hm ▸ Nat.min_le_right _ _
  simp only [Spec.c05Pos, Bool.and_eq_true, Bool.or_eq_true, decide_eq_true_eq]
  refine ⟨⟨Nat.le_trans (Nat.mul_le_mul_right r0 m0) a0,
    Nat.le_trans (Nat.mul_le_mul_right r1 m1) a1⟩, ?_⟩
  rcases Nat.le_total (d0 * S / r0) (d1 * S / r1) with hle | hle
  · left
    rw [Nat.min_eq_left hle] at hm
    rw [hm]; exact b0
  · right
    rw [Nat.min_eq_right hle] at hm
    rw [hm]; exact b1

/-- empty pair: only a whitelisted sender meeting both minimums, and the share is `⌊√(d0·d1)⌋` -/
theorem share_bounds_empty {sender : Nat} {req : Requirements} {d0 d1 r0 r1 m : Nat}
    (h : lpShare sender req 0 d0 d1 r0 r1 = .ok m) :
    Spec.c05Empty sender req d0 d1 m = true ∧ d0 * d1 < W := by
  unfold lpShare at h
  rw [if_pos rfl] at h
  split at h
  · exact absurd h (by simp)
  · rename_i hw
    split at h
    · exact absurd h (by simp)
    · rename_i hmin
      simp only [bind_ok_iff, Cw.nativeMul_ok, pure_ok_iff] at h
      obtain ⟨p, ⟨hW, rfl⟩, rfl⟩ := h
      have hw' : sender ∈ req.whitelist := Decidable.not_not.mp hw
      have hm0 : req.min0 ≤ d0 := by omega
      have hm1 : req.min1 ≤ d1 := by omega
      refine ⟨?_, hW⟩
      simp only [Spec.c05Empty, Bool.and_eq_true, decide_eq_true_eq]
      exact ⟨⟨⟨⟨hw', hm0⟩, hm1⟩, Nat.sqrt_le _⟩, Nat.lt_succ_sqrt _⟩

end Halo.C04
