/-
Call-site proof for C09 (provision): kept apart from `Halo/Proofs/CallSites.lean` because it needs only
core Lean; `Halo/Props/C09W.lean` imports this file (importing anything that depends on Mathlib tactic
modules would make `to` a reserved word there).
-/
import Halo.Proofs.C14

namespace Halo.CallSites
open Halo

/-! ### C09 at the call site: a provision whose native declaration does not match the funds -/

theorem provide_mismatch_changes_nothing {name : Asset → String} {w : World} {s p : Nat} {funds : List (Nat × Nat)}
    {as0 as1 : Asset} {am0 am1 : Nat} {tol rcv : Option Nat}
    (hm : (∃ d, as0 = .native d ∧ Spec.c09 d am0 funds = false) ∨
          (∃ d, as1 = .native d ∧ Spec.c09 d am1 funds = false)) :
    step name w (.pair s p funds (.provide as0 am0 as1 am1 tol rcv)) = w := by
  unfold step
  cases hx : exec name w (.pair s p funds (.provide as0 am0 as1 am1 tol rcv)) with
  | error e => rfl
  | ok r =>
    exfalso
    have hx' : pairExec w s p funds (.provide as0 am0 as1 am1 tol rcv) = .ok r := hx
    obtain ⟨h0, h1⟩ := Halo.C14.provide_native_exact hx'
    rcases hm with ⟨d, e, hf⟩ | ⟨d, e, hf⟩
    · rw [h0 d e] at hf; cases hf
    · rw [h1 d e] at hf; cases hf

end Halo.CallSites
