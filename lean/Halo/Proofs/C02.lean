/-
C02 / C12W proofs — swap settlement at world level and simulation = execution.

  * `pairSwap_ok`       : inversion of the pair's `swap` handler,
  * `pairSwap_effect`   : its effect on every balance and supply (from `bal_payout` / `supply_payout`),
  * entry-point inversions (`pairExec_swap_native_ok`, `tokSendPair_swap_ok`) and the credit lemmas
    (`attach_single_effect`, `tokTransfer_effect`),
  * `sim_eq_of_swap`    : the pair's `Simulation` query in the pre-state equals the swap's report.
Core Lean only.
-/
import Halo.Proofs.WorldBasic
import Halo.Spec
import Halo.Props.C09

namespace Halo.C02
open Halo

theorem pairSwap_ok {w0 w' : World} {p : Nat} {P : PairSt} {funds : List (Nat × Nat)} {trader : Nat}
    {offer : Asset} {amt : Nat} {b ms to : Option Nat} {o : SwapOut}
    (h : pairSwap w0 p P funds trader offer amt b ms to = .ok (w', o)) :
    assertSent offer amt funds = .ok () ∧
    balOf w0 P.a0 p = .ok (bal w0 P.a0 p) ∧ balOf w0 P.a1 p = .ok (bal w0 P.a1 p) ∧
    ∃ x y ask od ad n s k,
      ((offer = P.a0 ∧ amt ≤ bal w0 P.a0 p ∧ x = bal w0 P.a0 p - amt ∧ y = bal w0 P.a1 p ∧
          ask = P.a1 ∧ od = P.d0 ∧ ad = P.d1) ∨
       (offer ≠ P.a0 ∧ offer = P.a1 ∧ amt ≤ bal w0 P.a1 p ∧ x = bal w0 P.a1 p - amt ∧ y = bal w0 P.a0 p ∧
          ask = P.a0 ∧ od = P.d1 ∧ ad = P.d0)) ∧
      computeSwap x y amt P.comm = .ok (n, s, k) ∧
      assertMaxSpread b ms amt n s od ad = .ok () ∧
      o = ⟨amt, n, s, k, ask⟩ ∧
      ((n = 0 ∧ w' = w0) ∨ (n ≠ 0 ∧ payout w0 p ask (to.getD trader) n = .ok w')) := by
  unfold pairSwap at h
  simp only [bind_ok_iff] at h
  obtain ⟨⟨⟩, h1, r0, hr0, r1, hr1, ⟨x, y, ask, od, ad⟩, hbr, ⟨n, s, k⟩, hcs, ⟨⟩, hms, hw⟩ := h
  dsimp only at hw
  have e0 := balOf_ok hr0
  have e1 := balOf_ok hr1
  subst e0 e1
  refine ⟨h1, hr0, hr1, x, y, ask, od, ad, n, s, k, ?_, hcs, hms, ?_⟩
  · by_cases ha : offer = P.a0
    · rw [if_pos ha] at hbr
      simp only [bind_ok_iff, pure_ok_iff, Cw.checkedSub_ok, Prod.mk.injEq] at hbr
      obtain ⟨x', ⟨hle, rfl⟩, rfl, rfl, rfl, rfl, rfl⟩ := hbr
      exact Or.inl ⟨ha, hle, rfl, rfl, rfl, rfl, rfl⟩
    · rw [if_neg ha] at hbr
      by_cases hb : offer = P.a1
      · rw [if_pos hb] at hbr
        simp only [bind_ok_iff, pure_ok_iff, Cw.checkedSub_ok, Prod.mk.injEq] at hbr
        obtain ⟨x', ⟨hle, rfl⟩, rfl, rfl, rfl, rfl, rfl⟩ := hbr
        exact Or.inr ⟨ha, hb, hle, rfl, rfl, rfl, rfl, rfl⟩
      · rw [if_neg hb] at hbr
        cases hbr
  · by_cases hn : n = 0
    · rw [if_pos hn] at hw
      simp only [bind_ok_iff, pure_ok_iff, Prod.mk.injEq] at hw
      obtain ⟨w1, rfl, rfl, rfl⟩ := hw
      exact ⟨rfl, Or.inl ⟨hn, rfl⟩⟩
    · rw [if_neg hn] at hw
      simp only [bind_ok_iff, pure_ok_iff, Prod.mk.injEq] at hw
      obtain ⟨w1, hp, rfl, rfl⟩ := hw
      exact ⟨rfl, Or.inr ⟨hn, hp⟩⟩

theorem pairSwap_effect {w0 w' : World} {p : Nat} {P : PairSt} {funds : List (Nat × Nat)} {trader : Nat}
    {offer : Asset} {amt : Nat} {b ms to : Option Nat} {o : SwapOut}
    (h : pairSwap w0 p P funds trader offer amt b ms to = .ok (w', o)) :
    (P.a0 = offer ∨ P.a1 = offer) ∧ o.offer = amt ∧
    (o.ask = P.a0 ∨ o.ask = P.a1) ∧ (P.a0 ≠ P.a1 → o.ask ≠ offer) ∧
    o.ret ≤ bal w0 o.ask p ∧
    (to.getD trader ≠ p →
      bal w' o.ask p = bal w0 o.ask p - o.ret ∧
      bal w' o.ask (to.getD trader) = bal w0 o.ask (to.getD trader) + o.ret) ∧
    (∀ a z, (a ≠ o.ask ∨ (z ≠ p ∧ z ≠ to.getD trader)) → bal w' a z = bal w0 a z) ∧
    (∀ t, supply w' t = supply w0 t) := by
  obtain ⟨_, _, _, x, y, ask, od, ad, n, s, k, hbr, _, _, rfl, hw⟩ := pairSwap_ok h
  dsimp only
  have hask : (P.a0 = offer ∨ P.a1 = offer) ∧ (ask = P.a0 ∨ ask = P.a1) ∧ (P.a0 ≠ P.a1 → ask ≠ offer) := by
    rcases hbr with ⟨ha, _, _, _, rfl, _, _⟩ | ⟨hna, hb, _, _, _, rfl, _, _⟩
    · exact ⟨Or.inl ha.symm, Or.inr rfl, fun hne e => hne (ha.symm.trans e.symm)⟩
    · exact ⟨Or.inr hb.symm, Or.inl rfl, fun _ e => hna e.symm⟩
  refine ⟨hask.1, rfl, hask.2.1, hask.2.2, ?_⟩
  rcases hw with ⟨hn, rfl⟩ | ⟨hn, hp⟩
  · subst hn
    exact ⟨Nat.zero_le _, fun _ => ⟨rfl, rfl⟩, fun _ _ _ => rfl, fun _ => rfl⟩
  · refine ⟨(bal_payout hp ask p).2.1, ?_, ?_, supply_payout hp⟩
    · intro hr
      have h1 := (bal_payout hp ask p).2.2
      have h2 := (bal_payout hp ask (to.getD trader)).2.2
      rw [if_pos rfl, if_neg (Ne.symm hr), if_pos rfl] at h1
      rw [if_pos rfl, if_pos rfl, if_neg hr] at h2
      exact ⟨h1, h2⟩
    · intro a z hc
      have h1 := (bal_payout hp a z).2.2
      rcases hc with hc | ⟨hz1, hz2⟩
      · rw [if_neg hc] at h1; exact h1
      · rw [h1, if_neg hz2, if_neg hz1]; simp

/-- inversion of the direct native swap entry point -/
theorem pairExec_swap_native_ok {w w' : World} {s p d amt : Nat} {funds : List (Nat × Nat)}
    {b ms to : Option Nat} {o : SwapOut}
    (h : pairExec w s p funds (.swap (.native d) amt b ms to) = .ok (w', .swap o)) :
    ∃ P w0, w.pair p = some P ∧ attach w s p funds = .ok w0 ∧
      pairSwap w0 p P funds s (.native d) amt b ms to = .ok (w', o) := by
  unfold pairExec at h
  cases hP : w.pair p with
  | none => simp [hP] at h
  | some P =>
    simp only [hP, bind_ok_iff] at h
    obtain ⟨w0, hat, _, _, ⟨w1, o1⟩, hsw, hret⟩ := h
    simp only [pure_ok_iff, Prod.mk.injEq, Out.swap.injEq] at hret
    obtain ⟨rfl, rfl⟩ := hret
    exact ⟨P, w0, rfl, hat, hsw⟩

theorem swap_native_effect {w w' : World} {s p d amt : Nat} {funds : List (Nat × Nat)}
    {b ms to : Option Nat} {o : SwapOut}
    (h : pairExec w s p funds (.swap (.native d) amt b ms to) = .ok (w', .swap o)) :
    ∃ P w0, w.pair p = some P ∧ attach w s p funds = .ok w0 ∧
      (P.a0 = .native d ∨ P.a1 = .native d) ∧ Spec.c09 d amt funds = true ∧ o.offer = amt ∧
      (o.ask = P.a0 ∨ o.ask = P.a1) ∧ (P.a0 ≠ P.a1 → o.ask ≠ .native d) ∧
      o.ret ≤ bal w0 o.ask p ∧
      (to.getD s ≠ p → bal w' o.ask p = bal w0 o.ask p - o.ret ∧ bal w' o.ask (to.getD s) = bal w0 o.ask (to.getD s) + o.ret) ∧
      (∀ a z, (a ≠ o.ask ∨ (z ≠ p ∧ z ≠ to.getD s)) → bal w' a z = bal w0 a z) ∧
      (∀ t, supply w' t = supply w0 t) := by
  obtain ⟨P, w0, hP, hat, hsw⟩ := pairExec_swap_native_ok h
  have hsent := (pairSwap_ok hsw).1
  obtain ⟨e1, e2, e3, e4, e5, e6, e7, e8⟩ := pairSwap_effect hsw
  exact ⟨P, w0, hP, hat, e1, (Halo.Props.C09.assertSent_iff d amt funds).1 hsent, e2, e3, e4, e5, e6, e7, e8⟩

theorem attach_single_ok {w w0 : World} {s p d amt : Nat} (h : attach w s p [(d, amt)] = .ok w0) :
    amt ≠ 0 ∧ bankMove1 w s p d amt = .ok w0 := by
  unfold attach at h
  rw [if_neg (by simp)] at h
  exact bankSend_single h

theorem attach_single_effect {w w0 : World} {s p d amt : Nat} (hsp : s ≠ p)
    (h : attach w s p [(d, amt)] = .ok w0) :
    amt ≠ 0 ∧ amt ≤ bal w (.native d) s ∧
    bal w0 (.native d) p = bal w (.native d) p + amt ∧ bal w0 (.native d) s = bal w (.native d) s - amt ∧
    (∀ a z, (a ≠ .native d ∨ (z ≠ p ∧ z ≠ s)) → bal w0 a z = bal w a z) := by
  obtain ⟨h0, hm⟩ := attach_single_ok h
  refine ⟨h0, (bankMove1_ok hm).1, ?_, ?_, ?_⟩
  · rw [bal_bankMove1 hm, if_pos rfl, if_pos rfl, if_neg (Ne.symm hsp)]
  · rw [bal_bankMove1 hm, if_pos rfl, if_neg hsp, if_pos rfl]
  · intro a z hc
    rw [bal_bankMove1 hm]
    rcases hc with hc | ⟨hz1, hz2⟩
    · rw [if_neg hc]
    · rw [if_neg hz1, if_neg hz2]; simp

/-- inversion of a cw20 `Send` carrying a swap hook -/
theorem tokSendPair_swap_ok {w w' : World} {t u p amt a : Nat} {offer : Asset}
    {b ms to : Option Nat} {r : Out}
    (h : tokSendPair w t u p amt (.swap offer a b ms to) = .ok (w', r)) :
    ∃ P w0 o, r = .swap o ∧ w.pair p = some P ∧ tokTransfer w t u p amt = .ok w0 ∧
      offer = .token t ∧ a = amt ∧ (P.a0 = .token t ∨ P.a1 = .token t) ∧
      pairSwap w0 p P [] u (.token t) amt b ms to = .ok (w', o) := by
  unfold tokSendPair at h
  simp only [bind_ok_iff] at h
  obtain ⟨w0, htr, hrc⟩ := h
  have hpair : w0.pair = w.pair := (tokTransfer_same htr).1.pair
  unfold pairReceive at hrc
  rw [hpair] at hrc
  cases hP : w.pair p with
  | none => simp [hP] at hrc
  | some P =>
    simp only [hP] at hrc
    by_cases ha : a = amt
    · rw [if_neg (fun hh => hh ha)] at hrc
      simp only [bind_ok_iff] at hrc
      obtain ⟨_, _, _, _, hrc⟩ := hrc
      by_cases hau : P.a0 = Asset.token t ∨ P.a1 = Asset.token t
      · rw [if_neg (fun hh => hh hau)] at hrc
        by_cases hof : offer = Asset.token t
        · rw [if_neg (fun hh => hh hof)] at hrc
          simp only [bind_ok_iff, pure_ok_iff, Prod.mk.injEq] at hrc
          obtain ⟨_, _, ⟨w1, o⟩, hsw, rfl, rfl⟩ := hrc
          subst hof ha
          exact ⟨P, w0, o, rfl, rfl, htr, rfl, rfl, hau, hsw⟩
        · rw [if_pos hof] at hrc; cases hrc
      · rw [if_pos hau] at hrc; cases hrc
    · rw [if_pos ha] at hrc; cases hrc

theorem tokTransfer_effect {w w0 : World} {t u p amt : Nat} (hup : u ≠ p)
    (h : tokTransfer w t u p amt = .ok w0) :
    amt ≠ 0 ∧ amt ≤ bal w (.token t) u ∧
    bal w0 (.token t) p = bal w (.token t) p + amt ∧ bal w0 (.token t) u = bal w (.token t) u - amt ∧
    (∀ x z, (x ≠ .token t ∨ (z ≠ p ∧ z ≠ u)) → bal w0 x z = bal w x z) := by
  obtain ⟨T, hT, h0, hle, _⟩ := tokTransfer_ok h
  refine ⟨h0, by simp [bal, hT, hle], ?_, ?_, ?_⟩
  · rw [bal_tokTransfer h, if_pos rfl, if_pos rfl, if_neg (Ne.symm hup)]
  · rw [bal_tokTransfer h, if_pos rfl, if_neg hup, if_pos rfl]
  · intro a z hc
    rw [bal_tokTransfer h]
    rcases hc with hc | ⟨hz1, hz2⟩
    · rw [if_neg hc]
    · rw [if_neg hz1, if_neg hz2]; simp

theorem swap_hook_effect {w w' : World} {t u p amt a : Nat} {offer : Asset}
    {b ms to : Option Nat} {o : SwapOut} (hup : u ≠ p)
    (h : tokSendPair w t u p amt (.swap offer a b ms to) = .ok (w', .swap o)) :
    ∃ P w0, w.pair p = some P ∧ tokTransfer w t u p amt = .ok w0 ∧
      offer = .token t ∧ a = amt ∧ o.offer = amt ∧ (P.a0 = .token t ∨ P.a1 = .token t) ∧
      amt ≠ 0 ∧ amt ≤ bal w (.token t) u ∧
      bal w0 (.token t) p = bal w (.token t) p + amt ∧ bal w0 (.token t) u = bal w (.token t) u - amt ∧
      (o.ask = P.a0 ∨ o.ask = P.a1) ∧ (P.a0 ≠ P.a1 → o.ask ≠ .token t) ∧
      o.ret ≤ bal w0 o.ask p ∧
      (to.getD u ≠ p → bal w' o.ask p = bal w0 o.ask p - o.ret ∧ bal w' o.ask (to.getD u) = bal w0 o.ask (to.getD u) + o.ret) ∧
      (∀ x z, (x ≠ o.ask ∨ (z ≠ p ∧ z ≠ to.getD u)) → bal w' x z = bal w0 x z) ∧
      (∀ x z, (x ≠ .token t ∨ (z ≠ p ∧ z ≠ u)) → bal w0 x z = bal w x z) := by
  obtain ⟨P, w0, o', ho, hP, htr, hof, ha, hau, hsw⟩ := tokSendPair_swap_ok h
  injection ho with ho; subst ho
  obtain ⟨t1, t2, t3, t4, t5⟩ := tokTransfer_effect hup htr
  obtain ⟨_, e2, e3, e4, e5, e6, e7, _⟩ := pairSwap_effect hsw
  exact ⟨P, w0, hP, htr, hof, ha, e2, hau, t1, t2, t3, t4, e3, e4, e5, e6, e7, t5⟩

theorem hook_wrong_asset_rejected {w : World} {t u p amt a : Nat} {offer : Asset}
    {b ms to : Option Nat} {r : World × Out} (hne : offer ≠ .token t) :
    tokSendPair w t u p amt (.swap offer a b ms to) ≠ .ok r := by
  intro h
  obtain ⟨w', r'⟩ := r
  obtain ⟨_, _, _, _, _, _, hof, _⟩ := tokSendPair_swap_ok h
  exact hne hof

theorem hook_wrong_amount_rejected {w : World} {t u p amt a : Nat} {offer : Asset}
    {b ms to : Option Nat} {r : World × Out} (hne : a ≠ amt) :
    tokSendPair w t u p amt (.swap offer a b ms to) ≠ .ok r := by
  intro h
  obtain ⟨w', r'⟩ := r
  obtain ⟨_, _, _, _, _, _, _, ha, _⟩ := tokSendPair_swap_ok h
  exact hne ha

theorem swap_reports_pricing {w0 w' : World} {p : Nat} {P : PairSt} {funds : List (Nat × Nat)} {trader : Nat}
    {offer : Asset} {amt : Nat} {b ms to : Option Nat} {o : SwapOut}
    (h : pairSwap w0 p P funds trader offer amt b ms to = .ok (w', o)) (_hne : P.a0 ≠ P.a1) :
    ∃ ask, o.ask = ask ∧ ((offer = P.a0 ∧ ask = P.a1) ∨ (offer = P.a1 ∧ ask = P.a0)) ∧
      amt ≤ bal w0 offer p ∧
      computeSwap (bal w0 offer p - amt) (bal w0 ask p) amt P.comm = .ok (o.ret, o.spread, o.comm) ∧ o.offer = amt := by
  obtain ⟨_, _, _, x, y, ask, od, ad, n, s, k, hbr, hcs, _, rfl, _⟩ := pairSwap_ok h
  refine ⟨ask, rfl, ?_⟩
  rcases hbr with ⟨ha, hle, rfl, rfl, rfl, _, _⟩ | ⟨_, hb, hle, rfl, rfl, rfl, _, _⟩
  · subst ha; exact ⟨Or.inl ⟨rfl, rfl⟩, hle, hcs, rfl⟩
  · subst hb; exact ⟨Or.inr ⟨rfl, rfl⟩, hle, hcs, rfl⟩

/-- a pool query that succeeds in one world succeeds in any world with the same cw20 contracts -/
theorem balOf_transfer {w w2 : World} {a : Asset} {z v : Nat}
    (hs : ∀ t, (w2.tok t).isSome = (w.tok t).isSome) (h : balOf w a z = .ok v) :
    balOf w2 a z = .ok (bal w2 a z) := by
  cases a with
  | native d => rfl
  | token t =>
    have h1 := balOf_token_ok h
    rw [← hs] at h1
    cases hT : w2.tok t with
    | none => simp [hT] at h1
    | some T => simp [balOf, bal, hT]

theorem qSimulation_eq {w : World} {p : Nat} {P : PairSt} {offer : Asset} {amt : Nat}
    (hP : w.pair p = some P) (h0 : balOf w P.a0 p = .ok (bal w P.a0 p)) (h1 : balOf w P.a1 p = .ok (bal w P.a1 p)) :
    qSimulation w p offer amt =
      if offer = P.a0 then computeSwap (bal w P.a0 p) (bal w P.a1 p) amt P.comm
      else if offer = P.a1 then computeSwap (bal w P.a1 p) (bal w P.a0 p) amt P.comm
      else .error .mismatch := by
  unfold qSimulation
  simp only [hP, h0, h1]
  rfl

/-- the common core of `sim = exec`: the handler-entry world `w0` differs from `w` only by the
credited offer `amt` on the pair's account -/
theorem sim_eq_of_swap {w w0 w' : World} {p : Nat} {P : PairSt} {funds : List (Nat × Nat)} {trader : Nat}
    {offer : Asset} {amt : Nat} {b ms to : Option Nat} {o : SwapOut}
    (hP : w.pair p = some P) (hne : P.a0 ≠ P.a1)
    (hs : ∀ t, (w.tok t).isSome = (w0.tok t).isSome)
    (hcred : bal w0 offer p = bal w offer p + amt)
    (hframe : ∀ a, a ≠ offer → bal w0 a p = bal w a p)
    (h : pairSwap w0 p P funds trader offer amt b ms to = .ok (w', o)) :
    qSimulation w p offer amt = .ok (o.ret, o.spread, o.comm) := by
  obtain ⟨_, h0, h1, x, y, ask, od, ad, n, s, k, hbr, hcs, _, rfl, _⟩ := pairSwap_ok h
  rw [qSimulation_eq hP (balOf_transfer hs h0) (balOf_transfer hs h1)]
  dsimp only
  rcases hbr with ⟨ha, _, rfl, rfl, _⟩ | ⟨hna, hb, _, rfl, rfl, _⟩
  · subst ha
    rw [if_pos rfl]
    rw [hcred, hframe _ (Ne.symm hne), Nat.add_sub_cancel] at hcs
    exact hcs
  · subst hb
    rw [if_neg hna, if_pos rfl]
    rw [hcred, hframe _ hne, Nat.add_sub_cancel] at hcs
    exact hcs

theorem sim_eq_exec_native {w w' : World} {s p d amt : Nat} {b ms to : Option Nat} {o : SwapOut} {P : PairSt}
    (hP : w.pair p = some P) (hne : P.a0 ≠ P.a1) (hsp : s ≠ p)
    (h : pairExec w s p [(d, amt)] (.swap (.native d) amt b ms to) = .ok (w', .swap o)) :
    qSimulation w p (.native d) amt = .ok (o.ret, o.spread, o.comm) := by
  obtain ⟨P', w0, hP', hat, hsw⟩ := pairExec_swap_native_ok h
  rw [hP] at hP'; injection hP' with hP'; subst hP'
  obtain ⟨_, _, e3, _, e5⟩ := attach_single_effect hsp hat
  have htok := (attach_same hat).2
  exact sim_eq_of_swap hP hne (fun t => by rw [htok]) e3 (fun a ha => e5 a p (Or.inl ha)) hsw

theorem sim_eq_exec_hook {w w' : World} {t u p amt : Nat} {b ms to : Option Nat} {o : SwapOut} {P : PairSt}
    (hP : w.pair p = some P) (hne : P.a0 ≠ P.a1) (hup : u ≠ p)
    (h : tokSendPair w t u p amt (.swap (.token t) amt b ms to) = .ok (w', .swap o)) :
    qSimulation w p (.token t) amt = .ok (o.ret, o.spread, o.comm) := by
  obtain ⟨P', w0, o', ho, hP', htr, _, _, _, hsw⟩ := tokSendPair_swap_ok h
  injection ho with ho; subst ho
  rw [hP] at hP'; injection hP' with hP'; subst hP'
  obtain ⟨_, _, e3, _, e5⟩ := tokTransfer_effect hup htr
  exact sim_eq_of_swap hP hne (fun t => ((tokTransfer_sameToks htr) t).symm) e3
    (fun a ha => e5 a p (Or.inl ha)) hsw

theorem sim_is_pricing {w : World} {p : Nat} {P : PairSt} {offer : Asset} {amt : Nat} {r : Nat × Nat × Nat}
    (hP : w.pair p = some P) (h : qSimulation w p offer amt = .ok r) :
    (offer = P.a0 ∧ computeSwap (bal w P.a0 p) (bal w P.a1 p) amt P.comm = .ok r) ∨
    (offer ≠ P.a0 ∧ offer = P.a1 ∧ computeSwap (bal w P.a1 p) (bal w P.a0 p) amt P.comm = .ok r) := by
  unfold qSimulation at h
  simp only [hP, bind_ok_iff] at h
  obtain ⟨r0, h0, r1, h1, hc⟩ := h
  have e0 := balOf_ok h0
  have e1 := balOf_ok h1
  subst e0 e1
  by_cases ha : offer = P.a0
  · rw [if_pos ha] at hc; exact Or.inl ⟨ha, hc⟩
  · rw [if_neg ha] at hc
    by_cases hb : offer = P.a1
    · rw [if_pos hb] at hc; exact Or.inr ⟨ha, hb, hc⟩
    · rw [if_neg hb] at hc; cases hc

theorem rsim_is_pricing {w : World} {p : Nat} {P : PairSt} {ask : Asset} {amt : Nat} {r : Nat × Nat × Nat}
    (hP : w.pair p = some P) (h : qReverseSimulation w p ask amt = .ok r) :
    (ask = P.a0 ∧ computeOfferAmount (bal w P.a1 p) (bal w P.a0 p) amt P.comm = .ok r) ∨
    (ask ≠ P.a0 ∧ ask = P.a1 ∧ computeOfferAmount (bal w P.a0 p) (bal w P.a1 p) amt P.comm = .ok r) := by
  unfold qReverseSimulation at h
  simp only [hP, bind_ok_iff] at h
  obtain ⟨r0, h0, r1, h1, hc⟩ := h
  have e0 := balOf_ok h0
  have e1 := balOf_ok h1
  subst e0 e1
  by_cases ha : ask = P.a0
  · rw [if_pos ha] at hc; exact Or.inl ⟨ha, hc⟩
  · rw [if_neg ha] at hc
    by_cases hb : ask = P.a1
    · rw [if_pos hb] at hc; exact Or.inr ⟨ha, hb, hc⟩
    · rw [if_neg hb] at hc; cases hc

theorem router_sim_cons {w : World} {amt n : Nat} {o a : Asset} {rest : List (Asset × Asset)} {R : Record} {s k : Nat}
    (hR : facLookup w o a = some R) (hq : qSimulation w R.pair o amt = .ok (n, s, k)) :
    routerSimulate w amt ((o, a) :: rest) = routerSimulate w n rest := by
  simp only [routerSimulate, hR, hq]
  rfl

theorem router_rev_cons {w : World} {amt need x : Nat} {o a : Asset} {rest : List (Asset × Asset)} {R : Record} {s k : Nat}
    (hrest : routerReverse w amt rest = .ok need) (hR : facLookup w o a = some R)
    (hq : qReverseSimulation w R.pair a need = .ok (x, s, k)) :
    routerReverse w amt ((o, a) :: rest) = .ok x := by
  simp only [routerReverse, hrest, hR]
  show (match qReverseSimulation w R.pair a need with
    | .ok (x, _, _) => (.ok x : M Nat)
    | .error _ => .error .abort) = .ok x
  rw [hq]

end Halo.C02
