/-
C03 at system level — proofs.  Every operation of an external actor preserves the invariant `PairInv` and
either leaves the share value `reserve0·reserve1/S²` of the pair non-decreasing or performs an in-window swap
on it (`step_nondecr'`); histories (`history_nondecr'`, `supply_stays_positive'`); C01 at system level
(`swap_product`).  Statements live in `Halo/Props/C03W.lean`.

Layout: arithmetic (`Grow`), the credit of attached funds, the swap handler on the pair (`pairSwap_core`,
`swap_on_p`), router hops (`hop_view`, `hops_view`), provision and withdrawal, the case analysis over
operations (`view_cases`), preservation of the invariant (`inv_step`), the theorems.
-/
import Halo.Inv
import Halo.Proofs.Flows
import Halo.Proofs.Allow
import Halo.Proofs.C03
import Halo.Proofs.C13

namespace Halo.C03W
open Halo Halo.Flows

/-! ### arithmetic -/

/-- the product of two reserves does not decrease and positive reserves stay positive -/
def Grow (u v u' v' : Nat) : Prop := u * v ≤ u' * v' ∧ (0 < u → 0 < v → 0 < u' ∧ 0 < v')

theorem Grow.refl (u v : Nat) : Grow u v u v := ⟨Nat.le_refl _, fun a b => ⟨a, b⟩⟩

theorem Grow.trans {a b c d e f : Nat} (h1 : Grow a b c d) (h2 : Grow c d e f) : Grow a b e f :=
  ⟨Nat.le_trans h1.1 h2.1, fun x y => h2.2 (h1.2 x y).1 (h1.2 x y).2⟩

theorem Grow.swap {u v u' v' : Nat} (h : Grow u v u' v') : Grow v u v' u' :=
  ⟨by rw [Nat.mul_comm v u, Nat.mul_comm v' u']; exact h.1, fun a b => ⟨(h.2 b a).2, (h.2 b a).1⟩⟩

theorem Grow.of_le {u v u' v' : Nat} (h0 : u ≤ u') (h1 : v ≤ v') : Grow u v u' v' :=
  ⟨Nat.mul_le_mul h0 h1, fun a b => ⟨by omega, by omega⟩⟩

theorem grow_nondecr {r0 r1 S r0' r1' S' : Nat} (g : Grow r0 r1 r0' r1') (hle : S' ≤ S) (hpos : 0 < S → 0 < S') :
    NonDecr (r0, r1, S) (r0', r1', S') := by
  rw [C03.nonDecr_iff]
  intro hS
  exact ⟨hpos hS, Nat.mul_le_mul g.1 (Nat.mul_le_mul hle hle)⟩

/-- an out-of-window swap, seen from reserves `u, v` below the pricing inputs to reserves `u', v'` above the
handler's results -/
theorem grow_swap {x y a c n s k u v u' v' : Nat} (h : computeSwap x y a c = .ok (n, s, k))
    (hw : inWindow x y a = false) (hu : u ≤ x) (hv : v ≤ y) (hu' : x + a ≤ u') (hv' : y - n ≤ v') :
    Grow u v u' v' := by
  have key : x * y ≤ (x + a) * (y - n) ∧ (0 < y → 0 < y - n) := by
    rcases Nat.eq_zero_or_pos y with rfl | hy
    · simp
    · have hc := Halo.C01.c01Reserves_of_not_window h hw hy
      simp only [Spec.c01Reserves, Bool.and_eq_true, decide_eq_true_eq] at hc
      exact ⟨hc.1, fun _ => hc.2⟩
  constructor
  · calc u * v ≤ x * y := Nat.mul_le_mul hu hv
      _ ≤ (x + a) * (y - n) := key.1
      _ ≤ u' * v' := Nat.mul_le_mul hu' hv'
  · intro h0 h1
    have := key.2 (by omega)
    constructor <;> omega

/-! ### attached funds are credited -/

/-- the amount of the first coin of denom `d` (0 if absent): what `assert_sent_native_token_balance` compares -/
def firstAmt (d : Nat) (funds : List (Nat × Nat)) : Nat :=
  ((funds.find? (fun c => c.1 = d)).map (·.2)).getD 0

theorem c09_first {d amt : Nat} {funds : List (Nat × Nat)} (h : Spec.c09 d amt funds = true) :
    firstAmt d funds = amt := by
  simpa [Spec.c09, firstAmt] using h

/-- the total amount of denom `d` in a coin list -/
def amtOf (d : Nat) : List (Nat × Nat) → Nat
  | [] => 0
  | c :: cs => (if c.1 = d then c.2 else 0) + amtOf d cs

theorem firstAmt_le (d : Nat) : ∀ cs : List (Nat × Nat), firstAmt d cs ≤ amtOf d cs
  | [] => by simp [firstAmt, amtOf]
  | c :: cs => by
    by_cases hc : c.1 = d
    · have : firstAmt d (c :: cs) = c.2 := by simp [firstAmt, hc]
      rw [this]
      simp only [amtOf, if_pos hc]
      omega
    · have : firstAmt d (c :: cs) = firstAmt d cs := by simp [firstAmt, hc]
      rw [this]
      simp only [amtOf, if_neg hc]
      have := firstAmt_le d cs
      omega

theorem amtOf_filter (d : Nat) : ∀ cs : List (Nat × Nat), amtOf d (cs.filter (fun c => c.2 ≠ 0)) = amtOf d cs
  | [] => rfl
  | c :: cs => by
    by_cases h0 : c.2 = 0
    · have : (c :: cs).filter (fun c => c.2 ≠ 0) = cs.filter (fun c => c.2 ≠ 0) := by
        simp [h0]
      rw [this, amtOf_filter d cs]
      simp [amtOf, h0]
    · have : (c :: cs).filter (fun c => c.2 ≠ 0) = c :: cs.filter (fun c => c.2 ≠ 0) := by
        simp [h0]
      rw [this]
      simp only [amtOf, amtOf_filter d cs]

theorem bankMoveList_credit {s p : Nat} (hsp : s ≠ p) :
    ∀ {cs : List (Nat × Nat)} {w w' : World}, bankMoveList w s p cs = .ok w' →
      ∀ d, w'.bank p d = w.bank p d + amtOf d cs
  | [], w, w', h, d => by
    simp only [bankMoveList] at h; injection h with h; subst h; simp [amtOf]
  | (d', a) :: cs, w, w', h, d => by
    simp only [bankMoveList, bind_ok_iff] at h
    obtain ⟨w1, h1, h2⟩ := h
    rw [bankMoveList_credit hsp h2 d, bankMove1_bank h1]
    have hps : p ≠ s := Ne.symm hsp
    by_cases hd : d = d'
    · subst hd
      simp [amtOf, hps]
      omega
    · have hd' : ¬ d' = d := fun e => hd e.symm
      simp [amtOf, hd, hd']

/-- the pair's bank balance of every denom grows by at least the first attached coin of that denom -/
theorem attach_credit {w w0 : World} {s p : Nat} {funds : List (Nat × Nat)} (h : attach w s p funds = .ok w0)
    (hsp : s ≠ p) (d : Nat) : w.bank p d + firstAmt d funds ≤ w0.bank p d := by
  unfold attach at h
  split at h
  · rename_i hf
    injection h with h
    subst h
    subst hf
    simp [firstAmt]
  · unfold bankSend at h
    dsimp only at h
    split at h
    · cases h
    · rw [bankMoveList_credit hsp h d, amtOf_filter]
      have := firstAmt_le d funds
      omega

/-! ### the swap handler on the pair -/

theorem pairSwap_core {w0 w' : World} {p : Nat} {P : PairSt} {funds : List (Nat × Nat)} {trader : Nat}
    {offer : Asset} {amt : Nat} {b ms tt : Option Nat} {o : SwapOut}
    (hne : P.a0 ≠ P.a1) (h : pairSwap w0 p P funds trader offer amt b ms tt = .ok (w', o)) :
    ∃ n s k, (offer = P.a0 ∨ offer = P.a1) ∧ P.other offer ≠ offer ∧ amt ≤ bal w0 offer p ∧
      computeSwap (bal w0 offer p - amt) (bal w0 (P.other offer) p) amt P.comm = .ok (n, s, k) ∧
      bal w' offer p = bal w0 offer p ∧ bal w0 (P.other offer) p - n ≤ bal w' (P.other offer) p ∧
      (∀ t, supply w' t = supply w0 t) := by
  obtain ⟨_, _, _, x, y, ask, od, ad, n, s, k, hbr, hcs, _, _, hw⟩ := C02.pairSwap_ok h
  have hask : (offer = P.a0 ∨ offer = P.a1) ∧ ask = P.other offer ∧ ask ≠ offer ∧ amt ≤ bal w0 offer p ∧
      x = bal w0 offer p - amt ∧ y = bal w0 ask p := by
    rcases hbr with ⟨ha, hle, hx, hy, hk, _, _⟩ | ⟨hna, hb, hle, hx, hy, hk, _, _⟩
    · subst ha
      refine ⟨Or.inl rfl, ?_, ?_, hle, hx, ?_⟩
      · rw [hk]; simp [PairSt.other]
      · rw [hk]; exact Ne.symm hne
      · rw [hy, hk]
    · subst hb
      refine ⟨Or.inr rfl, ?_, ?_, hle, hx, ?_⟩
      · rw [hk]; simp [PairSt.other, hna]
      · rw [hk]; exact hne
      · rw [hy, hk]
  obtain ⟨h1, h2, h3, h4, rfl, rfl⟩ := hask
  subst h2
  refine ⟨n, s, k, h1, h3, h4, hcs, ?_⟩
  rcases hw with ⟨_, rfl⟩ | ⟨hn, hp⟩
  · exact ⟨rfl, Nat.sub_le _ _, fun _ => rfl⟩
  · refine ⟨?_, ?_, supply_payout hp⟩
    · rw [(bal_payout hp offer p).2.2, if_neg (Ne.symm h3)]
    · have hle := (bal_payout hp (P.other offer) p).2.1
      rw [(bal_payout hp (P.other offer) p).2.2]
      simp only [↓reduceIte]
      split <;> omega

/-- a swap on the pair, seen from a world `w` before the transaction whose reserves are below the pricing
inputs -/
theorem swap_on_p {w w0 w' : World} {p : Nat} {P : PairSt} {funds : List (Nat × Nat)} {trader : Nat}
    {offer : Asset} {amt : Nat} {b ms tt : Option Nat} {o : SwapOut}
    (hne : P.a0 ≠ P.a1) (hsw : pairSwap w0 p P funds trader offer amt b ms tt = .ok (w', o))
    (h1 : bal w offer p + amt ≤ bal w0 offer p) (h2 : bal w (P.other offer) p ≤ bal w0 (P.other offer) p) :
    (Grow (bal w P.a0 p) (bal w P.a1 p) (bal w' P.a0 p) (bal w' P.a1 p) ∧ ∀ t, supply w' t = supply w0 t) ∨
      inWindow (bal w0 offer p - amt) (bal w0 (P.other offer) p) amt = true := by
  obtain ⟨n, s, k, hor, hoth, hle, hcs, e1, e2, hsup⟩ := pairSwap_core hne hsw
  cases hwin : inWindow (bal w0 offer p - amt) (bal w0 (P.other offer) p) amt with
  | true => exact Or.inr rfl
  | false =>
    left
    refine ⟨?_, hsup⟩
    have g : Grow (bal w offer p) (bal w (P.other offer) p) (bal w' offer p) (bal w' (P.other offer) p) :=
      grow_swap hcs hwin (by omega) h2 (by rw [e1]; omega) e2
    rcases hor with rfl | rfl
    · have : P.other P.a0 = P.a1 := by simp [PairSt.other]
      rw [this] at g
      exact g
    · have : P.other P.a1 = P.a0 := by simp [PairSt.other, Ne.symm hne]
      rw [this] at g
      exact g.swap

/-- the same when exactly the offer was credited to the pair before the handler ran -/
theorem swap_on_p_exact {w w0 w' : World} {p : Nat} {P : PairSt} {funds : List (Nat × Nat)} {trader : Nat}
    {offer : Asset} {amt : Nat} {b ms tt : Option Nat} {o : SwapOut}
    (hne : P.a0 ≠ P.a1) (hsw : pairSwap w0 p P funds trader offer amt b ms tt = .ok (w', o))
    (h1 : bal w0 offer p = bal w offer p + amt) (h2 : ∀ b, b ≠ offer → bal w0 b p = bal w b p) :
    (Grow (bal w P.a0 p) (bal w P.a1 p) (bal w' P.a0 p) (bal w' P.a1 p) ∧ ∀ t, supply w' t = supply w0 t) ∨
      inWindow (bal w offer p) (bal w (P.other offer) p) amt = true := by
  obtain ⟨_, _, _, _, hoth, _⟩ := pairSwap_core hne hsw
  have e := h2 _ hoth
  rcases swap_on_p (w := w) hne hsw (by omega) (by rw [e]) with g | hw
  · exact Or.inl g
  · right
    rw [h1, e, Nat.add_sub_cancel] at hw
    exact hw

/-! ### one router hop -/

theorem routerHop_inv {w w' : World} {o a : Asset} {tt : Option Nat}
    (h : routerHop w w.router o a tt = .ok w') :
    ∃ R Q w0 funds so, facLookup w o a = some R ∧ w.pair R.pair = some Q ∧
      pairSwap w0 R.pair Q funds w.router o (bal w o w.router) none none tt = .ok (w', so) ∧
      (∀ t, supply w0 t = supply w t) ∧
      (w.router ≠ R.pair → bal w0 o R.pair = bal w o R.pair + bal w o w.router ∧
        ∀ b, b ≠ o → bal w0 b R.pair = bal w b R.pair) := by
  cases o with
  | native d =>
    obtain ⟨R, so, hR, hex⟩ := C13.routerHop_native_ok h
    obtain ⟨Q, w0, hQ, hat, hsw⟩ := C02.pairExec_swap_native_ok hex
    refine ⟨R, Q, w0, _, so, hR, hQ, hsw, fun t => by simp [supply, (attach_same hat).2], fun hrp => ?_⟩
    obtain ⟨_, _, e3, _, e5⟩ := C02.attach_single_effect hrp hat
    exact ⟨e3, fun b hb => e5 b _ (Or.inl hb)⟩
  | token t =>
    obtain ⟨R, so, hR, hex⟩ := C13.routerHop_token_ok h
    obtain ⟨Q, w0, o', ho, hQ, htr, _, _, _, hsw⟩ := C02.tokSendPair_swap_ok hex
    injection ho with ho
    subst ho
    refine ⟨R, Q, w0, _, so, hR, hQ, hsw, supply_tokTransfer htr, fun hrp => ?_⟩
    obtain ⟨_, _, e3, _, e5⟩ := C02.tokTransfer_effect hrp htr
    exact ⟨e3, fun b hb => e5 b _ (Or.inl hb)⟩

/-- one hop, seen from pair `p`: all supplies are unchanged; a hop on another pair only adds to `p`'s balances;
a hop on `p` is a swap priced on exactly the inputs that `hopTrace` records -/
theorem hop_view {w w' : World} {o a : Asset} {tt : Option Nat} {p : Nat} {P : PairSt}
    (hP : w.pair p = some P) (hne : P.a0 ≠ P.a1) (hpr : p ≠ w.router)
    (h : routerHop w w.router o a tt = .ok w') :
    ∃ R Q, facLookup w o a = some R ∧ w.pair R.pair = some Q ∧ (∀ t, supply w' t = supply w t) ∧
      (Grow (bal w P.a0 p) (bal w P.a1 p) (bal w' P.a0 p) (bal w' P.a1 p) ∨
        (R.pair = p ∧ inWindow (bal w o R.pair) (bal w (Q.other o) R.pair) (bal w o w.router) = true)) := by
  obtain ⟨R, Q, w0, funds, so, hR, hQ, hsw, hs0, hcred⟩ := routerHop_inv h
  obtain ⟨_, _, _, _, _, _, _, hs1⟩ := C02.pairSwap_effect hsw
  refine ⟨R, Q, hR, hQ, fun t => by rw [hs1 t, hs0 t], ?_⟩
  by_cases hq : R.pair = p
  · subst hq
    rw [hP] at hQ
    injection hQ with hQ
    subst hQ
    obtain ⟨c1, c2⟩ := hcred (Ne.symm hpr)
    rcases swap_on_p_exact hne hsw c1 c2 with ⟨g, _⟩ | hw
    · exact Or.inl g
    · exact Or.inr ⟨rfl, hw⟩
  · left
    have tr : Tr (fun z => z = w.router ∨ z = R.pair) (fun _ => False) (fun _ => False) w w' :=
      routerHop_tr h (Or.inl rfl) (fun R' hR' _ => by
        rw [hR] at hR'; injection hR' with hR'; subst hR'; exact Or.inr rfl)
    have hk : ∀ b, bal w b p ≤ bal w' b p := fun b => tr.keep b p (by
      rintro (e | e)
      · exact hpr e
      · exact hq e.symm)
    exact Grow.of_le (hk _) (hk _)

/-! ### routes -/

theorem routerHops_cons {w w' : World} {rcv : Nat} {o a : Asset} {rest : List (Asset × Asset)}
    (h : routerHops w rcv ((o, a) :: rest) = .ok w') :
    ∃ w1, routerHop w w.router o a (if rest.isEmpty then some rcv else none) = .ok w1 ∧
      routerHops w1 rcv rest = .ok w' := by
  cases rest with
  | nil =>
    simp only [routerHops] at h
    exact ⟨w', by simpa using h, by simp [routerHops]⟩
  | cons b rest =>
    simp only [routerHops, bind_ok_iff] at h
    obtain ⟨w1, h1, h2⟩ := h
    exact ⟨w1, by simpa using h1, h2⟩

theorem hopTrace_cons {w w1 : World} {rcv : Nat} {o a : Asset} {rest : List (Asset × Asset)} {R : Record} {Q : PairSt}
    (hR : facLookup w o a = some R) (hQ : w.pair R.pair = some Q)
    (h1 : routerHop w w.router o a (if rest.isEmpty then some rcv else none) = .ok w1) :
    hopTrace w rcv ((o, a) :: rest) =
      (R.pair, bal w o R.pair, bal w (Q.other o) R.pair, bal w o w.router) :: hopTrace w1 rcv rest := by
  simp only [hopTrace, hR, hQ, h1]

/-- the pair `p` with its assets, as the hops of a route need it -/
def HInv (w : World) (p : Nat) (a0 a1 : Asset) : Prop :=
  (∃ P, w.pair p = some P ∧ P.a0 = a0 ∧ P.a1 = a1) ∧ p ≠ w.router

theorem HInv.of_stat {N : Nat → Prop} {w w' : World} {p : Nat} {a0 a1 : Asset} (h : HInv w p a0 a1)
    (st : Stat N w w') : HInv w' p a0 a1 := by
  obtain ⟨⟨P, hP, e0, e1⟩, hr⟩ := h
  obtain ⟨P', hP', f0, f1, _⟩ := st.pairSome p P hP
  exact ⟨⟨P', hP', f0.trans e0, f1.trans e1⟩, by rw [st.router]; exact hr⟩

theorem hops_view {p : Nat} {a0 a1 : Asset} {rcv : Nat} (hne : a0 ≠ a1) :
    ∀ (ops : List (Asset × Asset)) {w w' : World}, HInv w p a0 a1 → routerHops w rcv ops = .ok w' →
      (∀ t, supply w' t = supply w t) ∧
      (Grow (bal w a0 p) (bal w a1 p) (bal w' a0 p) (bal w' a1 p) ∨
        ∃ t ∈ hopTrace w rcv ops, t.1 = p ∧ inWindow t.2.1 t.2.2.1 t.2.2.2 = true)
  | [], w, w', _, h => by
    simp only [routerHops] at h
    injection h with h
    subst h
    exact ⟨fun _ => rfl, Or.inl (Grow.refl _ _)⟩
  | (o, a) :: rest, w, w', hI, h => by
    obtain ⟨⟨P, hP, e0, e1⟩, hpr⟩ := hI
    have hne' : P.a0 ≠ P.a1 := by rw [e0, e1]; exact hne
    obtain ⟨w1, h1, h2⟩ := routerHops_cons h
    obtain ⟨R, Q, hR, hQ, hs1, hv⟩ := hop_view hP hne' hpr h1
    rw [e0, e1] at hv
    have st : Stat (fun _ => False) w w1 :=
      (routerHop_tr (S := fun _ => True) (Mn := fun _ => False) h1 trivial (fun _ _ _ => trivial)).stat
    have hI1 : HInv w1 p a0 a1 := HInv.of_stat ⟨⟨P, hP, e0, e1⟩, hpr⟩ st
    obtain ⟨hs2, hv2⟩ := hops_view hne rest hI1 h2
    rw [hopTrace_cons hR hQ h1]
    refine ⟨fun t => by rw [hs2, hs1], ?_⟩
    rcases hv with g | ⟨hq, hw⟩
    · rcases hv2 with g2 | ⟨t, ht, e⟩
      · exact Or.inl (g.trans g2)
      · exact Or.inr ⟨t, List.mem_cons_of_mem _ ht, e⟩
    · exact Or.inr ⟨_, List.mem_cons_self .., hq, hw⟩

theorem swapOps_view {name : Asset → String} {p : Nat} {a0 a1 : Asset} {w w' : World} {sender : Nat}
    {ops : List (Asset × Asset)} {mn tt : Option Nat} (hne : a0 ≠ a1) (hI : HInv w p a0 a1)
    (h : routerSwapOps name w sender ops mn tt = .ok w') :
    (∀ t, supply w' t = supply w t) ∧
      (Grow (bal w a0 p) (bal w a1 p) (bal w' a0 p) (bal w' a1 p) ∨
        ∃ t ∈ hopTrace w (tt.getD sender) ops, t.1 = p ∧ inWindow t.2.1 t.2.2.1 t.2.2.2 = true) := by
  unfold routerSwapOps at h
  split at h
  · cases h
  simp only [bind_ok_iff] at h
  obtain ⟨_, _, h⟩ := h
  split at h
  · exact hops_view hne _ hI h
  · simp only [bind_ok_iff, pure_ok_iff] at h
    obtain ⟨_, _, w1, h1, _, _, rfl⟩ := h
    exact hops_view hne _ hI h1

/-! ### the result of one operation, seen from the pair -/

/-- extra freshness needed by `PairInv.lpNoPair`: the address of a new pair contract is not a cw20 contract -/
def FreshPair (w : World) (op : Op) : Prop :=
  ∀ s f a0 a1 req c ld np nl, op = .factory s f (.createPair a0 a1 req c ld np nl) → w.tok np = none

/-- what an operation does to the pair: the reserve product grows (and the LP supply does not), or — for
operations that are not swaps — the share value does not decrease, or an in-window swap on the pair -/
def ViewRes (w w' : World) (op : Op) (p : Nat) (a0 a1 : Asset) (lp : Nat) : Prop :=
  (Grow (bal w a0 p) (bal w a1 p) (bal w' a0 p) (bal w' a1 p) ∧ supply w' lp ≤ supply w lp) ∨
  (¬ IsSwapOp op ∧ NonDecr (viewOf w p a0 a1 lp) (viewOf w' p a0 a1 lp)) ∨
  WindowedOn w op p

/-- the pair pays nothing and mints nothing -/
theorem calm {S Mn N : Nat → Prop} {w w' : World} {op : Op} {p : Nat} {a0 a1 : Asset} {lp : Nat}
    (hinv : PairInv w p a0 a1 lp) (tr : Tr S Mn N w w') (hS : ¬ S p) (hM : ¬ Mn p) :
    ViewRes w w' op p a0 a1 lp :=
  Or.inl ⟨Grow.of_le (tr.keep _ _ hS) (tr.keep _ _ hS), tr.supply_le hM hinv.lpLive⟩

theorem hinv_of {w : World} {p : Nat} {a0 a1 : Asset} {lp : Nat} (hinv : PairInv w p a0 a1 lp) : HInv w p a0 a1 := by
  obtain ⟨P, hP, e0, e1, _⟩ := hinv.pair
  exact ⟨⟨P, hP, e0, e1⟩, hinv.pNotRouter⟩

/-- a route entered after a credit `w → w0` that the pair does not pay for -/
theorem route_res {name : Asset → String} {S Mn N : Nat → Prop} {w w0 w' : World} {op : Op} {p : Nat}
    {a0 a1 : Asset} {lp : Nat} {sender : Nat} {ops : List (Asset × Asset)} {mn tt : Option Nat}
    (hinv : PairInv w p a0 a1 lp) (tr : Tr S Mn N w w0) (hS : ¬ S p) (hM : ¬ Mn p)
    (h : routerSwapOps name w0 sender ops mn tt = .ok w')
    (htrace : swapsOn w op = hopTrace w0 (tt.getD sender) ops) : ViewRes w w' op p a0 a1 lp := by
  have hI0 := (hinv_of hinv).of_stat tr.stat
  obtain ⟨hs, hv⟩ := swapOps_view hinv.distinct hI0 h
  have g0 : Grow (bal w a0 p) (bal w a1 p) (bal w0 a0 p) (bal w0 a1 p) :=
    Grow.of_le (tr.keep _ _ hS) (tr.keep _ _ hS)
  rcases hv with g | ⟨t, ht, e⟩
  · exact Or.inl ⟨g0.trans g, by rw [hs]; exact tr.supply_le hM hinv.lpLive⟩
  · exact Or.inr (Or.inr ⟨t, by rw [htrace]; exact ht, e⟩)

/-! ### withdrawal -/

theorem withdraw_view {w w' : World} {t s p amt : Nat} {out : Out} {a0 a1 : Asset} {lp : Nat}
    (hinv : PairInv w p a0 a1 lp) (hsp : s ≠ p) (hsl : s ≠ lp)
    (h : tokSendPair w t s p amt .withdraw = .ok (w', out)) :
    NonDecr (viewOf w p a0 a1 lp) (viewOf w' p a0 a1 lp) := by
  obtain ⟨P, hP, e0, e1, e2⟩ := hinv.pair
  subst e0 e1 e2
  obtain ⟨_, w0, x0, x1, rfl, _, _⟩ := Liquidity.tokSendPair_withdraw_ok hP h
  obtain ⟨_, ha1, hab, c0, c1, hsup, _, _, _, _, hb0, hb1, _, _⟩ :=
    Liquidity.withdraw_effect hP hsp hinv.distinct hinv.notLp0 hinv.notLp1 h
  simp only [Spec.c04, Bool.and_eq_true, decide_eq_true_eq] at c0 c1
  have hpos : 0 < supply w P.lp := by
    have := Liquidity.tokSumOK_holder (h := s) hinv.sumOK
    omega
  have hres := hinv.reserved hpos
  have hsum := hinv.sumOK [s, P.lp] (by simp [hsl])
  simp only [sumBal, List.map_cons, List.map_nil, List.sum_cons, List.sum_nil] at hsum
  have ha : amt < supply w P.lp := by omega
  have nd := C03.withdraw_nondecr c0.1 c1.1 ha
  have f0 : bal w' P.a0 p = bal w P.a0 p - x0 := by omega
  have f1 : bal w' P.a1 p = bal w P.a1 p - x1 := by omega
  have fS : supply w' P.lp = supply w P.lp - amt := by omega
  show NonDecr (bal w P.a0 p, bal w P.a1 p, supply w P.lp) (bal w' P.a0 p, bal w' P.a1 p, supply w' P.lp)
  rw [f0, f1, fS]
  exact nd

/-! ### provision -/

/-- the pool of an asset net of the deposit, as `provide_liquidity` computes it -/
def netPool (a : Asset) (r d : Nat) : Nat :=
  match a with
  | .native _ => r - d
  | .token _ => r

theorem provide_side {w w0 w1 : World} {s p : Nat} {funds : List (Nat × Nat)}
    (h0 : attach w s p funds = .ok w0) (hsp : s ≠ p) (a : Asset) (d : Nat)
    (hn : ∀ dd, a = .native dd → Spec.c09 dd d funds = true ∧ bal w1 a p = bal w0 a p)
    (ht : ∀ t, a = .token t → bal w1 a p = bal w0 a p + d ∧ bal w1 a s + d = bal w0 a s) :
    bal w a p ≤ netPool a (bal w0 a p) d ∧ bal w1 a p = netPool a (bal w0 a p) d + d := by
  cases a with
  | native dd =>
    obtain ⟨c, e⟩ := hn dd rfl
    have hcr := attach_credit h0 hsp dd
    rw [c09_first c] at hcr
    simp only [netPool, bal_native] at *
    omega
  | token t =>
    obtain ⟨e, _⟩ := ht t rfl
    have : bal w0 (.token t) p = bal w (.token t) p := by simp [bal, (attach_same h0).2]
    simp only [netPool]
    omega

theorem provide_view {w w' : World} {s p : Nat} {funds : List (Nat × Nat)} {as0 as1 : Asset} {am0 am1 : Nat}
    {tol rcv : Option Nat} {out : Out} {a0 a1 : Asset} {lp : Nat}
    (hinv : PairInv w p a0 a1 lp) (hsp : s ≠ p)
    (h : pairExec w s p funds (.provide as0 am0 as1 am1 tol rcv) = .ok (w', out)) :
    NonDecr (viewOf w p a0 a1 lp) (viewOf w' p a0 a1 lp) := by
  obtain ⟨P, hP, e0, e1, e2⟩ := hinv.pair
  by_cases hS : supply w lp = 0
  · intro hpos
    have hpos' : 0 < supply w lp := hpos
    omega
  obtain ⟨P', w0, w1, sh, hP', h0, h1, he⟩ := C14.pairExec_provide h
  rw [hP] at hP'
  injection hP' with hP'
  subst hP'
  simp only [Prod.mk.injEq] at he
  obtain ⟨rfl, _⟩ := he
  subst e0 e1 e2
  have hSeq : supply w P.lp = supply w0 P.lp := by simp [supply, (attach_same h0).2]
  have hS0 : supply w0 P.lp ≠ 0 := by rw [← hSeq]; exact hS
  obtain ⟨d0, d1, _, _, n0, n1, t0, t1, _, hc, hsup, _, _⟩ :=
    Liquidity.provide_effect_pos hsp hinv.distinct hinv.notLp0 hinv.notLp1 hS0 h1
  obtain ⟨i0, j0⟩ := provide_side h0 hsp P.a0 d0 n0 t0
  obtain ⟨i1, j1⟩ := provide_side h0 hsp P.a1 d1 n1 t1
  have hc' : Spec.c05Pos (supply w0 P.lp) d0 d1 (netPool P.a0 (bal w0 P.a0 p) d0)
      (netPool P.a1 (bal w0 P.a1 p) d1) sh = true := hc
  simp only [Spec.c05Pos, Bool.and_eq_true, Bool.or_eq_true, decide_eq_true_eq] at hc'
  have nd := C03.provide_nondecr hc'.1.1 hc'.1.2
  have pre : NonDecr (bal w P.a0 p, bal w P.a1 p, supply w0 P.lp)
      (netPool P.a0 (bal w0 P.a0 p) d0, netPool P.a1 (bal w0 P.a1 p) d1, supply w0 P.lp) :=
    C03.swap_nondecr (Nat.mul_le_mul i0 i1)
  show NonDecr (bal w P.a0 p, bal w P.a1 p, supply w P.lp) (bal w' P.a0 p, bal w' P.a1 p, supply w' P.lp)
  rw [hSeq, j0, j1, hsup]
  exact C03.nonDecr_trans pre nd

/-- the first provision mints the reserved unit to the LP token's own address -/
theorem provide_reserved {w w' : World} {s p : Nat} {funds : List (Nat × Nat)} {as0 as1 : Asset} {am0 am1 : Nat}
    {tol rcv : Option Nat} {out : Out} {P : PairSt} (hP : w.pair p = some P) (hS : supply w P.lp = 0)
    (h : pairExec w s p funds (.provide as0 am0 as1 am1 tol rcv) = .ok (w', out)) :
    1 ≤ bal w' (.token P.lp) P.lp := by
  obtain ⟨P', w0, w1, sh, hP', h0, h1, he⟩ := C14.pairExec_provide h
  rw [hP] at hP'
  injection hP' with hP'
  subst hP'
  simp only [Prod.mk.injEq] at he
  obtain ⟨rfl, _⟩ := he
  have hS0 : supply w0 P.lp = 0 := by
    have : supply w0 P.lp = supply w P.lp := by simp [supply, (attach_same h0).2]
    rw [this]; exact hS
  obtain ⟨_, _, d0, d1, share, wa, wb, wc, _, _, _, _, hcase, _, _, hmint⟩ := Liquidity.pairProvide_ok h1
  rcases hcase with ⟨_, _, hm1⟩ | ⟨hne, _, _⟩
  · have b1 := bal_tokMint hm1 (.token P.lp) P.lp
    have b2 := bal_tokMint hmint (.token P.lp) P.lp
    rw [if_pos ⟨rfl, rfl⟩] at b1
    rw [b2]
    split <;> omega
  · exact absurd hS0 hne

/-! ### calls on the pair -/

/-- a raw `Receive` sent to the pair by an external actor is rejected -/
theorem receive_fails {w : World} {s p : Nat} {funds : List (Nat × Nat)} {from_ amount : Nat} {hk : Hook}
    {r : World × Out} {a0 a1 : Asset} {lp : Nat} (hinv : PairInv w p a0 a1 lp) (hat : (w.tok s).isNone)
    (h : pairExec w s p funds (.receive from_ amount hk) = .ok r) : False := by
  obtain ⟨P, hP, e0, e1, e2⟩ := hinv.pair
  obtain ⟨P', w0, hP', h0, h1⟩ := C14.pairExec_receive h
  have hpair := (attach_same h0).1.pair
  have hnone : w.tok s = none := by
    cases hT : w.tok s with
    | none => rfl
    | some T => simp [hT] at hat
  cases hk with
  | swap offer amt b ms tt =>
    obtain ⟨P'', hP'', _, hau, _⟩ := C14.pairReceive_swap h1
    rw [hpair, hP] at hP''
    injection hP'' with hP''
    subst hP''
    have hsome : (w.tok s).isSome := by
      rcases hau with e | e
      · exact hinv.live0 s (e0.symm.trans e)
      · exact hinv.live1 s (e1.symm.trans e)
    rw [hnone] at hsome
    cases hsome
  | withdraw =>
    obtain ⟨P'', hP'', hs, _⟩ := C14.pairReceive_withdraw h1
    rw [hpair, hP] at hP''
    injection hP'' with hP''
    subst hP''
    obtain ⟨T, hT, _⟩ := hinv.lpLive
    rw [← e2, ← hs, hnone] at hT
    cases hT
  | routerOps ops mn tt => exact C14.pairReceive_routerOps h1
  | garbage => exact C14.pairReceive_garbage h1

theorem direct_swap_view {w w' : World} {s p : Nat} {funds : List (Nat × Nat)} {offer : Asset} {amt : Nat}
    {b ms tt : Option Nat} {out : Out} {a0 a1 : Asset} {lp : Nat}
    (hinv : PairInv w p a0 a1 lp) (hsp : s ≠ p)
    (h : pairExec w s p funds (.swap offer amt b ms tt) = .ok (w', out)) :
    ViewRes w w' (.pair s p funds (.swap offer amt b ms tt)) p a0 a1 lp := by
  obtain ⟨P, hP, e0, e1, e2⟩ := hinv.pair
  cases offer with
  | token t => exact absurd h C14.pairExec_swap_token
  | native d =>
    obtain ⟨P', w0, w1, o, hP', h0, hsw, he⟩ := C14.pairExec_swap_native h
    rw [hP] at hP'
    injection hP' with hP'
    subst hP'
    simp only [Prod.mk.injEq] at he
    obtain ⟨rfl, _⟩ := he
    subst e0 e1 e2
    have hc := c09_first ((Props.C09.assertSent_iff d amt funds).1 (C02.pairSwap_ok hsw).1)
    have hcr := attach_credit h0 hsp d
    rw [hc] at hcr
    have tr0 : Tr (fun z => z = s) (fun _ => False) (fun _ => False) w w0 := attach_tr rfl h0
    have hps : ¬ (fun z => z = s) p := fun e => hsp e.symm
    have htok := (attach_same h0).2
    rcases swap_on_p (w := w) hinv.distinct hsw hcr (tr0.keep _ _ hps) with ⟨g, hs⟩ | hw
    · refine Or.inl ⟨g, ?_⟩
      rw [hs]
      exact Nat.le_of_eq (by simp [supply, htok])
    · refine Or.inr (Or.inr ⟨(p, bal w0 (.native d) p - amt, bal w0 (P.other (.native d)) p, amt), ?_, rfl, hw⟩)
      simp only [swapsOn, h0, hP]
      exact List.mem_singleton.mpr rfl

theorem hook_swap_view {w w' : World} {t s p amt : Nat} {offer : Asset} {a : Nat} {b ms tt : Option Nat}
    {out : Out} {a0 a1 : Asset} {lp : Nat} (hinv : PairInv w p a0 a1 lp) (hsp : s ≠ p)
    (h : tokSendPair w t s p amt (.swap offer a b ms tt) = .ok (w', out)) :
    ViewRes w w' (.tokSend t s p amt (.swap offer a b ms tt)) p a0 a1 lp := by
  obtain ⟨P, hP, e0, e1, e2⟩ := hinv.pair
  obtain ⟨P', w0, o, _, hP', htr, hof, _, _, hsw⟩ := C02.tokSendPair_swap_ok h
  rw [hP] at hP'
  injection hP' with hP'
  subst hP'
  subst e0 e1 e2
  subst hof
  obtain ⟨_, _, c1, _, c5⟩ := C02.tokTransfer_effect hsp htr
  rcases swap_on_p_exact (w := w) hinv.distinct hsw c1 (fun b hb => c5 b p (Or.inl hb)) with ⟨g, hs⟩ | hw
  · exact Or.inl ⟨g, by rw [hs, supply_tokTransfer htr]⟩
  · refine Or.inr (Or.inr ⟨(p, bal w (.token t) p, bal w (P.other (.token t)) p, amt), ?_, rfl, hw⟩)
    simp only [swapsOn, hP]
    exact List.mem_singleton.mpr rfl

/-! ### `SendFrom`: the same hooks, the tokens pulled from an owner with the spender's allowance -/

/-- an account that has granted no allowance is not the owner of a successful `TransferFrom` -/
theorem owner_ne_transferFrom {w w1 : World} {t sp o d a z : Nat}
    (hn : ∀ T, w.tok t = some T → ∀ s, T.allow z s = none)
    (h : tokTransferFrom w t sp o d a = .ok w1) : o ≠ z := by
  rintro rfl
  obtain ⟨T, al, hT, hal, _⟩ := tokTransferFrom_ok h
  have := hn T hT sp
  rw [hal] at this
  cases this

theorem owner_ne_burnFrom {w w1 : World} {t sp o a z : Nat}
    (hn : ∀ T, w.tok t = some T → ∀ s, T.allow z s = none)
    (h : tokBurnFrom w t sp o a = .ok w1) : o ≠ z := by
  rintro rfl
  obtain ⟨T, al, hT, hal, _⟩ := tokBurnFrom_ok h
  have := hn T hT sp
  rw [hal] at this
  cases this

theorem hookFrom_swap_view {w w1 w' : World} {t sp o p amt : Nat} {offer : Asset} {a : Nat} {b ms tt : Option Nat}
    {out : Out} {a0 a1 : Asset} {lp : Nat} (hinv : PairInv w p a0 a1 lp) (hop : o ≠ p)
    (h1 : tokTransferFrom w t sp o p amt = .ok w1)
    (h2 : pairReceive w1 p t sp amt (.swap offer a b ms tt) = .ok (w', out)) :
    ViewRes w w' (.tokSendFrom t sp o p amt (.swap offer a b ms tt)) p a0 a1 lp := by
  obtain ⟨P, hP, e0, e1, e2⟩ := hinv.pair
  obtain ⟨P', hP', ha, _, hof, w2, o2, hsw, he⟩ := C14.pairReceive_swap h2
  rw [(tokTransferFrom_same h1).1.pair, hP] at hP'
  injection hP' with hP'
  subst hP'
  simp only [Prod.mk.injEq] at he
  obtain ⟨rfl, _⟩ := he
  subst e0 e1 e2
  subst hof ha
  have c1 : bal w1 (.token t) p = bal w (.token t) p + a := by
    rw [bal_tokTransferFrom h1, if_pos rfl, if_pos rfl, if_neg (Ne.symm hop)]
  have c5 : ∀ b, b ≠ .token t → bal w1 b p = bal w b p := by
    intro b hb
    rw [bal_tokTransferFrom h1, if_neg hb]
  rcases swap_on_p_exact (w := w) hinv.distinct hsw c1 c5 with ⟨g, hs⟩ | hw
  · exact Or.inl ⟨g, by rw [hs, supply_tokTransferFrom h1]⟩
  · refine Or.inr (Or.inr ⟨(p, bal w (.token t) p, bal w (P.other (.token t)) p, a), ?_, rfl, hw⟩)
    simp only [swapsOn, hP]
    exact List.mem_singleton.mpr rfl

theorem withdrawFrom_view {w w1 w' : World} {t sp o p amt : Nat} {out : Out} {a0 a1 : Asset} {lp : Nat}
    (hinv : PairInv w p a0 a1 lp) (hol : o ≠ lp) (hsp : sp ≠ p)
    (h1 : tokTransferFrom w t sp o p amt = .ok w1)
    (h2 : pairReceive w1 p t sp amt .withdraw = .ok (w', out)) :
    NonDecr (viewOf w p a0 a1 lp) (viewOf w' p a0 a1 lp) := by
  obtain ⟨P, hP, e0, e1, e2⟩ := hinv.pair
  subst e0 e1 e2
  obtain ⟨P', hP', ht, w2, x0, x1, hpw, he⟩ := C14.pairReceive_withdraw h2
  rw [(tokTransferFrom_same h1).1.pair, hP] at hP'
  injection hP' with hP'
  subst hP'
  simp only [Prod.mk.injEq] at he
  obtain ⟨rfl, _⟩ := he
  subst ht
  obtain ⟨_, hx0, hx1, w3, w4, hp0, hp1, hb⟩ := Liquidity.pairWithdraw_ok hpw
  have hl0 := hinv.notLp0
  have hl1 := hinv.notLp1
  have hne := hinv.distinct
  have hne' : P.a1 ≠ P.a0 := Ne.symm hne
  have T := bal_tokTransferFrom h1
  have Q0 := fun b z => (bal_payout hp0 b z).2.2
  have Q1 := fun b z => (bal_payout hp1 b z).2.2
  have B := bal_tokBurn hb
  have sT := supply_tokTransferFrom h1
  have s0 := supply_payout hp0
  have s1 := supply_payout hp1
  have sB := supply_tokBurn hb
  obtain ⟨ha0, _, hbs⟩ := Liquidity.tokBurn_le hb
  obtain ⟨U, al, hU, _, _, hleU, _⟩ := tokTransferFrom_ok h1
  have hab : amt ≤ bal w (.token P.lp) o := by simp [bal, hU, hleU]
  have hx0le := (bal_payout hp0 P.a0 p).2.1
  have hx1le := (bal_payout hp1 P.a1 p).2.1
  have r0 : bal w1 P.a0 p = bal w P.a0 p := by rw [T, if_neg hl0]
  have r1 : bal w1 P.a1 p = bal w P.a1 p := by rw [T, if_neg hl1]
  have r1' : bal w3 P.a1 p = bal w P.a1 p := by rw [Q0, if_neg hne', r1]
  rw [r0, sT] at hx0
  rw [r1, sT] at hx1
  rw [s1, s0, sT] at hbs
  rw [r0] at hx0le
  rw [r1'] at hx1le
  have ha1 : 1 ≤ amt := Nat.pos_of_ne_zero ha0
  have c0 := Halo.C04.refund_bounds hx0 ha1 hbs
  have c1 := Halo.C04.refund_bounds hx1 ha1 hbs
  simp only [Spec.c04, Bool.and_eq_true, decide_eq_true_eq] at c0 c1
  have hpos : 0 < supply w P.lp := by omega
  have hres := hinv.reserved hpos
  have hsum := hinv.sumOK [o, P.lp] (by simp [hol])
  simp only [sumBal, List.map_cons, List.map_nil, List.sum_cons, List.sum_nil] at hsum
  have ha : amt < supply w P.lp := by omega
  have nd := C03.withdraw_nondecr c0.1 c1.1 ha
  have hps : p ≠ sp := Ne.symm hsp
  have f0 : bal w' P.a0 p = bal w P.a0 p - x0 := by
    simp only [B, Q1, Q0, T]
    simp [hl0, hps, hne]
  have f1 : bal w' P.a1 p = bal w P.a1 p - x1 := by
    simp only [B, Q1, Q0, T]
    simp [hl1, hps, hne']
  have fS : supply w' P.lp = supply w P.lp - amt := by
    rw [sB, if_pos rfl, s1, s0, sT]
  show NonDecr (bal w P.a0 p, bal w P.a1 p, supply w P.lp) (bal w' P.a0 p, bal w' P.a1 p, supply w' P.lp)
  rw [f0, f1, fS]
  exact nd

/-! ### every operation -/

theorem view_cases {name : Asset → String} {w w' : World} {op : Op} {out : Out} {p : Nat} {a0 a1 : Asset} {lp : Nat}
    (hinv : PairInv w p a0 a1 lp) (hv : ValidOp w op) (h : exec name w op = .ok (w', out)) :
    ViewRes w w' op p a0 a1 lp := by
  obtain ⟨P, hP, e0, e1, e2⟩ := hinv.pair
  obtain ⟨hap, hat, har, haf⟩ := hv.actor
  have hsp : actorOf op ≠ p := by
    intro e
    rw [e, hP] at hap
    simp at hap
  have hsl : actorOf op ≠ lp := by
    intro e
    obtain ⟨T, hT, _⟩ := hinv.lpLive
    rw [e, hT] at hat
    simp at hat
  have hF : ¬ (fun _ : Nat => False) p := fun e => e
  cases op with
  | bankSend s d cs =>
    simp only [exec, bind_ok_iff, pure_ok_iff, Prod.mk.injEq] at h
    obtain ⟨w1, h1, rfl, _⟩ := h
    exact calm hinv (bankSend_tr (S := fun z => z = s) (Mn := fun _ => False) (N := fun _ => False) rfl h1)
      (fun e => hsp e.symm) hF
  | tokTransfer t s d a =>
    simp only [exec, bind_ok_iff, pure_ok_iff, Prod.mk.injEq] at h
    obtain ⟨w1, h1, rfl, _⟩ := h
    exact calm hinv (Tr.xfer (S := fun z => z = s) (Mn := fun _ => False) (N := fun _ => False) rfl h1)
      (fun e => hsp e.symm) hF
  | tokIncAllow t o s a =>
    simp only [exec, bind_ok_iff, pure_ok_iff, Prod.mk.injEq] at h
    obtain ⟨w1, h1, rfl, _⟩ := h
    exact calm hinv (Tr.incAllow (S := fun _ => False) (Mn := fun _ => False) (N := fun _ => False) h1) hF hF
  | tokBurn t s a =>
    simp only [exec, bind_ok_iff, pure_ok_iff, Prod.mk.injEq] at h
    obtain ⟨w1, h1, rfl, _⟩ := h
    exact calm hinv (Tr.burn (S := fun z => z = s) (Mn := fun _ => False) (N := fun _ => False) rfl h1)
      (fun e => hsp e.symm) hF
  | tokSend t s d amt hk =>
    simp only [exec] at h
    unfold tokSend at h
    split at h
    · by_cases hdp : d = p
      · subst hdp
        cases hk with
        | swap offer a b ms tt => exact hook_swap_view hinv hsp h
        | withdraw => exact Or.inr (Or.inl ⟨fun e => e, withdraw_view hinv hsp hsl h⟩)
        | routerOps ops mn tt =>
          exfalso
          unfold tokSendPair at h
          simp only [bind_ok_iff] at h
          obtain ⟨w1, _, h2⟩ := h
          exact C14.pairReceive_routerOps h2
        | garbage =>
          exfalso
          unfold tokSendPair at h
          simp only [bind_ok_iff] at h
          obtain ⟨w1, _, h2⟩ := h
          exact C14.pairReceive_garbage h2
      · refine calm hinv (tokSendPair_tr (S := fun z => z = s ∨ z = d) (Mn := fun _ => False)
          (N := fun _ => False) h (Or.inl rfl) (Or.inr rfl)) ?_ hF
        rintro (e | e)
        · exact hsp e.symm
        · exact hdp e.symm
    · rename_i hd
      split at h
      · rename_i hdr
        simp only [bind_ok_iff, pure_ok_iff, Prod.mk.injEq] at h
        obtain ⟨w1, h1, w2, h2, rfl, _⟩ := h
        obtain ⟨ops, mn, tt, rfl, _, _, h2'⟩ := routerReceive_ok h2
        have tr0 : Tr (fun z => z = s) (fun _ => False) (fun _ => False) w w1 := .xfer rfl h1
        refine route_res hinv tr0 (fun e => hsp e.symm) hF h2' ?_
        have hdn : (w.pair d).isNone = true := by
          cases hh : w.pair d with
          | none => rfl
          | some Q => simp [hh] at hd
        simp only [swapsOn]
        rw [if_pos ⟨hdn, hdr⟩]
        simp only [h1]
      · cases h
  | pair s q f m =>
    simp only [exec] at h
    by_cases hqp : q = p
    · subst hqp
      cases m with
      | provide as0 am0 as1 am1 tol rcv => exact Or.inr (Or.inl ⟨fun e => e, provide_view hinv hsp h⟩)
      | swap offer amt b ms tt => exact direct_swap_view hinv hsp h
      | receive from_ amount hk => exact (receive_fails hinv hat h).elim
      | updateDecimals d da db =>
        obtain ⟨P', w0, w1, _, h0, h1, he⟩ := C14.pairExec_updateDecimals h
        simp only [Prod.mk.injEq] at he
        obtain ⟨rfl, _⟩ := he
        exact calm hinv ((attach_tr (S := fun z => z = s) (Mn := fun _ => False) (N := fun _ => False) rfl h0).trans
          (pairUpdateDecimals_tr h1)) (fun e => hsp e.symm) hF
    · refine calm hinv (pairExec_tr (S := fun z => z = s ∨ z = q) (Mn := fun z => z = q) (N := fun _ => False)
        h (Or.inl rfl) (Or.inr rfl) (fun _ _ _ _ _ _ _ => rfl)) ?_ (fun e => hqp e.symm)
      rintro (e | e)
      · exact hsp e.symm
      · exact hqp e.symm
  | router s f m =>
    simp only [exec, bind_ok_iff, pure_ok_iff, Prod.mk.injEq] at h
    obtain ⟨w1, h1, rfl, _⟩ := h
    unfold routerExec at h1
    simp only [bind_ok_iff] at h1
    obtain ⟨w0, h0, h1⟩ := h1
    have tr0 : Tr (fun z => z = s) (fun _ => False) (fun _ => False) w w0 := attach_tr rfl h0
    have hr0 := (attach_same h0).1.router
    cases m with
    | swapOps ops mn tt =>
      simp only [bind_ok_iff] at h1
      obtain ⟨_, _, h1⟩ := h1
      refine route_res hinv tr0 (fun e => hsp e.symm) hF h1 ?_
      simp only [swapsOn, h0]
    | swapOp o a tt =>
      simp only [bind_ok_iff] at h1
      obtain ⟨_, _, h1⟩ := h1
      exact absurd ((C14.routerHop_ok h1).1.trans hr0) har
    | assertMin a prev mn rcv =>
      simp only [bind_ok_iff, pure_ok_iff] at h1
      obtain ⟨_, _, _, h2, _⟩ := h1
      exact absurd ((C14.routerAssertMin_ok h2).trans hr0) har
    | receive from_ amount hk =>
      obtain ⟨ops, mn, tt, rfl, _, _, h1'⟩ := routerReceive_ok h1
      refine route_res hinv tr0 (fun e => hsp e.symm) hF h1' ?_
      simp only [swapsOn, h0]
  | factory s f m =>
    simp only [exec, bind_ok_iff, pure_ok_iff, Prod.mk.injEq] at h
    obtain ⟨w1, h1, rfl, _⟩ := h
    refine calm hinv (facExec_tr (S := fun z => z = s) (Mn := fun _ => False) (N := fun _ => True) h1 rfl ?_)
      (fun e => hsp e.symm) hF
    intro x0 x1 req c ld np nl e
    have e' : Op.factory s f m = .factory s f (.createPair x0 x1 req c ld np nl) := by rw [e]
    exact ⟨freshOK_pair hv.fresh e', freshOK_tok hv.fresh e', trivial⟩
  | tokTransferFrom t sp o d a =>
    simp only [exec, bind_ok_iff, pure_ok_iff, Prod.mk.injEq] at h
    obtain ⟨w1, h1, rfl, _⟩ := h
    have hop := owner_ne_transferFrom (z := p) (fun T hT s => (hinv.noAllow t T hT s).1) h1
    exact calm hinv (Tr.xferFrom (S := fun z => z = o) (Mn := fun _ => False) (N := fun _ => False) rfl h1)
      (fun e => hop e.symm) hF
  | tokBurnFrom t sp o a =>
    simp only [exec, bind_ok_iff, pure_ok_iff, Prod.mk.injEq] at h
    obtain ⟨w1, h1, rfl, _⟩ := h
    have hop := owner_ne_burnFrom (z := p) (fun T hT s => (hinv.noAllow t T hT s).1) h1
    exact calm hinv (Tr.burnFrom (S := fun z => z = o) (Mn := fun _ => False) (N := fun _ => False) rfl h1)
      (fun e => hop e.symm) hF
  | tokDecAllow t o sp a =>
    simp only [exec, bind_ok_iff, pure_ok_iff, Prod.mk.injEq] at h
    obtain ⟨w1, h1, rfl, _⟩ := h
    exact calm hinv (Tr.decAllow (S := fun _ => False) (Mn := fun _ => False) (N := fun _ => False) h1) hF hF
  | tokSendFrom t sp o d amt hk =>
    simp only [exec] at h
    obtain ⟨w1, h1, h2⟩ := tokSendFrom_ok h
    have hop := owner_ne_transferFrom (z := p) (fun T hT s => (hinv.noAllow t T hT s).1) h1
    have hol := owner_ne_transferFrom (z := lp) (fun T hT s => (hinv.noAllow t T hT s).2) h1
    rcases h2 with ⟨hd, h2⟩ | ⟨hdn, hdr, _, h2⟩
    · by_cases hdp : d = p
      · subst hdp
        cases hk with
        | swap offer a b ms tt => exact hookFrom_swap_view hinv hop h1 h2
        | withdraw => exact Or.inr (Or.inl ⟨fun e => e, withdrawFrom_view hinv hol hsp h1 h2⟩)
        | routerOps ops mn tt => exact absurd h2 C14.pairReceive_routerOps
        | garbage => exact absurd h2 C14.pairReceive_garbage
      · refine calm hinv ((Tr.xferFrom (S := fun z => z = o ∨ z = d) (Mn := fun _ => False)
          (N := fun _ => False) (Or.inl rfl) h1).trans (pairReceive_tr h2 (Or.inr rfl))) ?_ hF
        rintro (e | e)
        · exact hop e.symm
        · exact hdp e.symm
    · obtain ⟨ops, mn, tt, rfl, _, _, h2'⟩ := routerReceive_ok h2
      have tr0 : Tr (fun z => z = o) (fun _ => False) (fun _ => False) w w1 := .xferFrom rfl h1
      refine route_res hinv tr0 (fun e => hop e.symm) hF h2' ?_
      have hdn' : (w.pair d).isNone = true := by
        cases hh : w.pair d with
        | none => rfl
        | some Q => simp [hh] at hdn
      simp only [swapsOn]
      rw [if_pos ⟨hdn', hdr⟩]
      simp only [h1]

/-! ### the invariant -/

theorem lp_not_src {w : World} {op : Op} {p : Nat} {a0 a1 : Asset} {lp : Nat}
    (hinv : PairInv w p a0 a1 lp) (hv : ValidOp w op) :
    ¬ (lp = actorOf op ∨ (w.pair lp).isSome ∨ lp = w.router) := by
  rintro (e | e | e)
  · obtain ⟨T, hT, _⟩ := hinv.lpLive
    have hat := hv.actor.2.1
    rw [← e, hT] at hat
    simp at hat
  · have hn := hinv.lpNoPair
    cases hq : w.pair lp with
    | none => rw [hq] at e; cases e
    | some Q => rw [hq] at hn; cases hn
  · exact hinv.lpNotRouter e

/-- an account that has granted no allowance is not the owner whose allowance a successful `…From` operation spends -/
theorem not_owner_of_noAllow {name : Asset → String} {w w' : World} {op : Op} {out : Out} {z : Nat}
    (hn : ∀ t T, w.tok t = some T → ∀ s, T.allow z s = none) (h : exec name w op = .ok (w', out)) :
    z ∉ ownersOf op := by
  cases op with
  | tokTransferFrom t sp o d a =>
    simp only [exec, bind_ok_iff, pure_ok_iff, Prod.mk.injEq] at h
    obtain ⟨w1, h1, rfl, _⟩ := h
    simp only [ownersOf, List.mem_singleton]
    exact Ne.symm (owner_ne_transferFrom (hn t) h1)
  | tokBurnFrom t sp o a =>
    simp only [exec, bind_ok_iff, pure_ok_iff, Prod.mk.injEq] at h
    obtain ⟨w1, h1, rfl, _⟩ := h
    simp only [ownersOf, List.mem_singleton]
    exact Ne.symm (owner_ne_burnFrom (hn t) h1)
  | tokSendFrom t sp o d a hk =>
    simp only [exec] at h
    obtain ⟨w1, h1, _⟩ := tokSendFrom_ok h
    simp only [ownersOf, List.mem_singleton]
    exact Ne.symm (owner_ne_transferFrom (hn t) h1)
  | bankSend s d cs => simp [ownersOf]
  | tokTransfer t s d a => simp [ownersOf]
  | tokSend t s d a hk => simp [ownersOf]
  | tokIncAllow t o s a => simp [ownersOf]
  | tokBurn t s a => simp [ownersOf]
  | pair s p f m => simp [ownersOf]
  | router s f m => simp [ownersOf]
  | factory s f m => simp [ownersOf]
  | tokDecAllow t o s a => simp [ownersOf]

theorem lp_keep {name : Asset → String} {w w' : World} {op : Op} {out : Out} {p : Nat} {a0 a1 : Asset} {lp : Nat}
    (hinv : PairInv w p a0 a1 lp) (hv : ValidOp w op) (h : exec name w op = .ok (w', out)) :
    bal w (.token lp) lp ≤ bal w' (.token lp) lp := by
  refine (Liquidity.good_exec hv.fresh h).keep lp lp ?_
  rintro ((e | e) | e)
  · exact lp_not_src hinv hv (Or.inl e)
  · exact not_owner_of_noAllow (fun t T hT s => (hinv.noAllow t T hT s).2) h e
  · exact lp_not_src hinv hv (Or.inr e)

/-- a positive LP supply stays positive: the reserved unit cannot be spent -/
theorem pos_step {name : Asset → String} {w w' : World} {op : Op} {out : Out} {p : Nat} {a0 a1 : Asset} {lp : Nat}
    (hinv : PairInv w p a0 a1 lp) (hv : ValidOp w op) (h : exec name w op = .ok (w', out))
    (hpos : 0 < supply w lp) : 0 < supply w' lp := by
  have h1 := hinv.reserved hpos
  have h2 := lp_keep hinv hv h
  have h3 := Liquidity.tokSumOK_holder (h := lp) ((Liquidity.good_exec hv.fresh h).sum lp hinv.sumOK)
  omega

theorem inv_step {name : Asset → String} {w w' : World} {op : Op} {out : Out} {p : Nat} {a0 a1 : Asset} {lp : Nat}
    (hx : FreshPair w op) (hinv : PairInv w p a0 a1 lp) (hv : ValidOp w op)
    (h : exec name w op = .ok (w', out)) : PairInv w' p a0 a1 lp := by
  have tr := exec_tr hv.fresh h
  have st := tr.stat
  have good := Liquidity.good_exec hv.fresh h
  obtain ⟨P, hP, e0, e1, e2⟩ := hinv.pair
  obtain ⟨T, hT, hTm⟩ := hinv.lpLive
  have live : ∀ t, (w.tok t).isSome → (w'.tok t).isSome := by
    intro t ht
    cases hU : w.tok t with
    | none => rw [hU] at ht; cases ht
    | some U =>
      obtain ⟨U', hU', _⟩ := st.toks t U hU
      rw [hU']; rfl
  refine ⟨?_, hinv.distinct, hinv.notLp0, hinv.notLp1, ?_, fun t e => live t (hinv.live0 t e),
    fun t e => live t (hinv.live1 t e), good.sum lp hinv.sumOK, ?_, ?_, ?_, ?_, ?_⟩
  · obtain ⟨P', hP', f0, f1, f2⟩ := st.pairSome p P hP
    exact ⟨P', hP', f0.trans e0, f1.trans e1, f2.trans e2⟩
  · obtain ⟨T', hT', hm'⟩ := st.toks lp T hT
    exact ⟨T', hT', hm'.trans hTm⟩
  · intro hpos'
    by_cases h0 : supply w lp = 0
    · by_cases hm : MintOf op p
      · obtain ⟨s, f, as0, am0, as1, am1, tol, r, rfl⟩ := hm
        have := provide_reserved hP (by rw [e2]; exact h0) h
        rw [e2] at this
        exact this
      · have := tr.supply_le hm hinv.lpLive
        omega
    · exact Nat.le_trans (hinv.reserved (Nat.pos_of_ne_zero h0)) (lp_keep hinv hv h)
  · have hn : w.pair lp = none := by
      have := hinv.lpNoPair
      cases hq : w.pair lp with
      | none => rfl
      | some Q => rw [hq] at this; cases this
    have hnew : ¬ NewOf op lp := by
      rintro ⟨s, f, x0, x1, req, c, ld, nl, rfl⟩
      have := hx s f x0 x1 req c ld lp nl rfl
      rw [hT] at this
      cases this
    rw [st.pairNone lp hnew hn]
    rfl
  · rw [st.router]; exact hinv.lpNotRouter
  · rw [st.router]; exact hinv.pNotRouter
  · -- neither contract is the actor, so no allowance entry owned by them appears (`Allow.noAllow_exec`)
    have hpa : p ≠ actorOf op := by
      intro e
      have := hv.actor.1
      rw [← e, hP] at this
      cases this
    have hla : lp ≠ actorOf op := fun e => lp_not_src hinv hv (Or.inl e)
    intro t T' hT' s
    exact ⟨Allow.noAllow_exec h hpa (fun t T hT s => (hinv.noAllow t T hT s).1) t T' hT' s,
      Allow.noAllow_exec h hla (fun t T hT s => (hinv.noAllow t T hT s).2) t T' hT' s⟩

/-! ### the theorems -/

/-- the view part of a step needs no extra freshness -/
theorem step_view {name : Asset → String} {w w' : World} {op : Op} {out : Out} {p : Nat} {a0 a1 : Asset} {lp : Nat}
    (hinv : PairInv w p a0 a1 lp) (hv : ValidOp w op) (h : exec name w op = .ok (w', out)) :
    NonDecr (viewOf w p a0 a1 lp) (viewOf w' p a0 a1 lp) ∨ WindowedOn w op p := by
  rcases view_cases hinv hv h with ⟨g, hle⟩ | ⟨_, nd⟩ | hw
  · exact Or.inl (grow_nondecr g hle (pos_step hinv hv h))
  · exact Or.inl nd
  · exact Or.inr hw

/-- one step, under the extra freshness `FreshPair` (see the report: `FreshOK` does not exclude that a new
pair contract is allocated the address of the LP token, which would break `PairInv.lpNoPair`) -/
theorem step_nondecr' {name : Asset → String} {w w' : World} {op : Op} {out : Out} {p : Nat} {a0 a1 : Asset} {lp : Nat}
    (hx : FreshPair w op) (hinv : PairInv w p a0 a1 lp) (hv : ValidOp w op) (h : exec name w op = .ok (w', out)) :
    PairInv w' p a0 a1 lp ∧ (NonDecr (viewOf w p a0 a1 lp) (viewOf w' p a0 a1 lp) ∨ WindowedOn w op p) :=
  ⟨inv_step hx hinv hv h, step_view hinv hv h⟩

/-- every step of a history allocates pair addresses that are not cw20 contracts -/
def FreshPairRun (name : Asset → String) : World → List Op → Prop
  | _, [] => True
  | w, op :: rest => FreshPair w op ∧ FreshPairRun name (step name w op) rest

theorem run_cons (name : Asset → String) (w : World) (op : Op) (rest : List Op) :
    run name w (op :: rest) = run name (step name w op) rest := rfl

theorem history_nondecr' {name : Asset → String} {p : Nat} {a0 a1 : Asset} {lp : Nat} :
    ∀ (ops : List Op) (w : World), PairInv w p a0 a1 lp → ValidRun name w ops → FreshPairRun name w ops →
      NoWindowRun name p w ops →
      PairInv (run name w ops) p a0 a1 lp ∧ NonDecr (viewOf w p a0 a1 lp) (viewOf (run name w ops) p a0 a1 lp)
  | [], w, hinv, _, _, _ => ⟨hinv, C03.nonDecr_refl _⟩
  | op :: rest, w, hinv, hv, hf, hnw => by
    simp only [ValidRun] at hv
    simp only [FreshPairRun] at hf
    simp only [NoWindowRun] at hnw
    obtain ⟨hv1, hv2⟩ := hv
    obtain ⟨hf1, hf2⟩ := hf
    obtain ⟨hnw1, hnw2⟩ := hnw
    rw [run_cons]
    cases hE : exec name w op with
    | error e =>
      have hst : step name w op = w := by unfold step; rw [hE]
      rw [hst] at hv2 hf2 hnw2 ⊢
      exact history_nondecr' rest w hinv hv2 hf2 hnw2
    | ok r =>
      obtain ⟨w1, out⟩ := r
      have hst : step name w op = w1 := by unfold step; rw [hE]
      rw [hst] at hv2 hf2 hnw2 ⊢
      obtain ⟨hinv1, hview⟩ := step_nondecr' hf1 hinv hv1 hE
      have nd1 := hview.resolve_right hnw1
      obtain ⟨hinvN, ndN⟩ := history_nondecr' rest w1 hinv1 hv2 hf2 hnw2
      exact ⟨hinvN, C03.nonDecr_trans nd1 ndN⟩

theorem supply_stays_positive' {name : Asset → String} {p : Nat} {a0 a1 : Asset} {lp : Nat} :
    ∀ (ops : List Op) (w : World), PairInv w p a0 a1 lp → ValidRun name w ops → FreshPairRun name w ops →
      0 < supply w lp → 0 < supply (run name w ops) lp
  | [], _, _, _, _, hpos => hpos
  | op :: rest, w, hinv, hv, hf, hpos => by
    simp only [ValidRun] at hv
    simp only [FreshPairRun] at hf
    obtain ⟨hv1, hv2⟩ := hv
    obtain ⟨hf1, hf2⟩ := hf
    rw [run_cons]
    cases hE : exec name w op with
    | error e =>
      have hst : step name w op = w := by unfold step; rw [hE]
      rw [hst] at hv2 hf2 ⊢
      exact supply_stays_positive' rest w hinv hv2 hf2 hpos
    | ok r =>
      obtain ⟨w1, out⟩ := r
      have hst : step name w op = w1 := by unfold step; rw [hE]
      rw [hst] at hv2 hf2 ⊢
      exact supply_stays_positive' rest w1 (inv_step hf1 hinv hv1 hE) hv2 hf2 (pos_step hinv hv1 hE hpos)

/-- C01 at system level -/
theorem swap_product {name : Asset → String} {w w' : World} {op : Op} {out : Out} {p : Nat} {a0 a1 : Asset} {lp : Nat}
    (hinv : PairInv w p a0 a1 lp) (hv : ValidOp w op) (hs : IsSwapOp op) (h : exec name w op = .ok (w', out))
    (hnw : ¬ WindowedOn w op p) :
    bal w a0 p * bal w a1 p ≤ bal w' a0 p * bal w' a1 p ∧
    (0 < bal w a0 p → 0 < bal w a1 p → 0 < bal w' a0 p ∧ 0 < bal w' a1 p) := by
  rcases view_cases hinv hv h with ⟨g, _⟩ | ⟨hns, _⟩ | hw
  · exact g
  · exact absurd hs hns
  · exact absurd hw hnw

/-! ### the statements of `Halo/Props/C03W.lean`, given that valid operations satisfy `FreshPair`

Once `FreshOK` (hence `ValidOp.fresh`) also states `w.tok np = none`, `hb` below is
`fun _ _ hv s f a0 a1 req c np nl e => (hv.fresh s f a0 a1 req c np nl e).2.2` and the three statements follow. -/

section bridge
variable (hb : ∀ (w : World) (op : Op), ValidOp w op → FreshPair w op)
include hb

theorem freshPairRun_of {name : Asset → String} : ∀ (ops : List Op) (w : World), ValidRun name w ops →
    FreshPairRun name w ops
  | [], _, _ => trivial
  | op :: rest, w, hv => by
    simp only [ValidRun] at hv
    simp only [FreshPairRun]
    exact ⟨hb w op hv.1, freshPairRun_of rest _ hv.2⟩

theorem step_nondecr_of {name : Asset → String} {w w' : World} {op : Op} {out : Out} {p : Nat} {a0 a1 : Asset}
    {lp : Nat} (hinv : PairInv w p a0 a1 lp) (hv : ValidOp w op) (h : exec name w op = .ok (w', out)) :
    PairInv w' p a0 a1 lp ∧ (NonDecr (viewOf w p a0 a1 lp) (viewOf w' p a0 a1 lp) ∨ WindowedOn w op p) :=
  step_nondecr' (hb w op hv) hinv hv h

theorem history_nondecr_of {name : Asset → String} {p : Nat} {a0 a1 : Asset} {lp : Nat} (ops : List Op) (w : World)
    (hinv : PairInv w p a0 a1 lp) (hv : ValidRun name w ops) (hnw : NoWindowRun name p w ops) :
    PairInv (run name w ops) p a0 a1 lp ∧
    NonDecr (viewOf w p a0 a1 lp) (viewOf (run name w ops) p a0 a1 lp) :=
  history_nondecr' ops w hinv hv (freshPairRun_of hb ops w hv) hnw

theorem supply_stays_positive_of {name : Asset → String} {p : Nat} {a0 a1 : Asset} {lp : Nat} (ops : List Op)
    (w : World) (hinv : PairInv w p a0 a1 lp) (hv : ValidRun name w ops) (hpos : 0 < supply w lp) :
    0 < supply (run name w ops) lp :=
  supply_stays_positive' ops w hinv hv (freshPairRun_of hb ops w hv) hpos

end bridge

end Halo.C03W

namespace Halo.C03W
open Halo

/-- `ValidOp` now carries the full freshness of newly allocated addresses (`FreshOK` includes `w.tok np = none`) -/
theorem freshPair_of_valid (w : World) (op : Op) (hv : ValidOp w op) : FreshPair w op :=
  fun s f a0 a1 req c ld np nl e => (hv.fresh s f a0 a1 req c ld np nl e).2.2

theorem step_nondecr {name : Asset → String} {w w' : World} {op : Op} {out : Out} {p : Nat} {a0 a1 : Asset} {lp : Nat}
    (hinv : PairInv w p a0 a1 lp) (hv : ValidOp w op) (h : exec name w op = .ok (w', out)) :
    PairInv w' p a0 a1 lp ∧ (NonDecr (viewOf w p a0 a1 lp) (viewOf w' p a0 a1 lp) ∨ WindowedOn w op p) :=
  step_nondecr_of freshPair_of_valid hinv hv h

theorem history_nondecr {name : Asset → String} {p : Nat} {a0 a1 : Asset} {lp : Nat} (ops : List Op) (w : World)
    (hinv : PairInv w p a0 a1 lp) (hv : ValidRun name w ops) (hnw : NoWindowRun name p w ops) :
    PairInv (run name w ops) p a0 a1 lp ∧
    NonDecr (viewOf w p a0 a1 lp) (viewOf (run name w ops) p a0 a1 lp) :=
  history_nondecr_of freshPair_of_valid ops w hinv hv hnw

theorem supply_stays_positive {name : Asset → String} {p : Nat} {a0 a1 : Asset} {lp : Nat} (ops : List Op) (w : World)
    (hinv : PairInv w p a0 a1 lp) (hv : ValidRun name w ops) (hpos : 0 < supply w lp) :
    0 < supply (run name w ops) lp :=
  supply_stays_positive_of freshPair_of_valid ops w hinv hv hpos

end Halo.C03W
