/-
C03 at system level — proofs.  Every operation of an external actor preserves the invariant `PairInv` and
either leaves the share value `reserve0·reserve1/S²` of the pair non-decreasing or performs an in-window swap
on it (`step_nondecr'`); histories (`history_nondecr'`, `supply_stays_positive'`); C01 at system level
(`swap_product`).  Statements live in `Halo/Props/C03W.lean`.

Layout: arithmetic (`Grow`), the credit of attached funds, the swap handler on the pair (`pairSwap_core`,
`swap_on_p`), router hops (`hop_view`, `hops_view`), provision and withdrawal, the case analysis over
operations (`view_cases`), preservation of the invariant (`inv_step`), the theorems.
-/
import Halo.Inv
import Halo.Proofs.Flows
import Halo.Proofs.C03
import Halo.Proofs.C13

namespace Halo.C03W
open Halo Halo.Flows

/-! ### arithmetic -/

/-- the product of two reserves does not decrease and positive reserves stay positive -/
def Grow (u v u' v' : Nat) : Prop := u * v ≤ u' * v' ∧ (0 < u → 0 < v → 0 < u' ∧ 0 < v')

theorem Grow.refl (u v : Nat) : Grow u v u v := ⟨Nat.le_refl _, fun a b => ⟨a, b⟩⟩

theorem Grow.trans {a b c d e f : Nat} (h1 : Grow a b c d) (h2 : Grow c d e f) : Grow a b e f :=
  ⟨Nat.le_trans h1.1 h2.1, fun x y => h2.2 (h1.2 x y).1 (h1.2 x y).2⟩

theorem Grow.swap {u v u' v' : Nat} (h : Grow u v u' v') : Grow v u v' u' :=
  ⟨by rw [Nat.mul_comm v u, Nat.mul_comm v' u']; exact h.1, fun a b => ⟨(h.2 b a).2, (h.2 b a).1⟩⟩

theorem Grow.of_le {u v u' v' : Nat} (h0 : u ≤ u') (h1 : v ≤ v') : Grow u v u' v' :=
  ⟨Nat.mul_le_mul h0 h1, fun a b => ⟨by omega, by omega⟩⟩

theorem grow_nondecr {r0 r1 S r0' r1' S' : Nat} (g : Grow r0 r1 r0' r1') (hle : S' ≤ S) (hpos : 0 < S → 0 < S') :
    NonDecr (r0, r1, S) (r0', r1', S') := by
  rw [C03.nonDecr_iff]
  intro hS
  exact ⟨hpos hS, Nat.mul_le_mul g.1 (Nat.mul_le_mul hle hle)⟩

/-- an out-of-window swap, seen from reserves `u, v` below the pricing inputs to reserves `u', v'` above the
handler's results -/
theorem grow_swap {x y a c n s k u v u' v' : Nat} (h : computeSwap x y a c = .ok (n, s, k))
    (hw : inWindow x y a = false) (hu : u ≤ x) (hv : v ≤ y) (hu' : x + a ≤ u') (hv' : y - n ≤ v') :
    Grow u v u' v' := by
  have key : x * y ≤ (x + a) * (y - n) ∧ (0 < y → 0 < y - n) := by
    rcases Nat.eq_zero_or_pos y with rfl | hy
    · simp
    · have hc := Halo.C01.c01Reserves_of_not_window h hw hy
      simp only [Spec.c01Reserves, Bool.and_eq_true, decide_eq_true_eq] at hc
      exact ⟨hc.1, fun _ => hc.2⟩
  constructor
  · calc u * v ≤ x * y := Nat.mul_le_mul hu hv
      _ ≤ (x + a) * (y - n) := key.1
      _ ≤ u' * v' := Nat.mul_le_mul hu' hv'
  · intro h0 h1
    have := key.2 (by omega)
    constructor <;> omega

/-! ### attached funds are credited -/

/-- the amount of the first coin of denom `d` (0 if absent): what `assert_sent_native_token_balance` compares -/
def firstAmt (d : Nat) (funds : List (Nat × Nat)) : Nat :=
  ((funds.find? (fun c => c.1 = d)).map (·.2)).getD 0

theorem c09_first {d amt : Nat} {funds : List (Nat × Nat)} (h : Spec.c09 d amt funds = true) :
    firstAmt d funds = amt := by
  simpa [Spec.c09, firstAmt] using h

/-- the total amount of denom `d` in a coin list -/
def amtOf (d : Nat) : List (Nat × Nat) → Nat
  | [] => 0
  | c :: cs => (if c.1 = d then c.2 else 0) + amtOf d cs

theorem firstAmt_le (d : Nat) : ∀ cs : List (Nat × Nat), firstAmt d cs ≤ amtOf d cs
  | [] => by simp [firstAmt, amtOf]
  | c :: cs => by
    by_cases hc : c.1 = d
    · have : firstAmt d (c :: cs) = c.2 := by simp [firstAmt, List.find?_cons, hc]
      rw [this]
      simp only [amtOf, if_pos hc]
      omega
    · have : firstAmt d (c :: cs) = firstAmt d cs := by simp [firstAmt, List.find?_cons, hc]
      rw [this]
      simp only [amtOf, if_neg hc]
      have := firstAmt_le d cs
      omega

theorem amtOf_filter (d : Nat) : ∀ cs : List (Nat × Nat), amtOf d (cs.filter (fun c => c.2 ≠ 0)) = amtOf d cs
  | [] => rfl
  | c :: cs => by
    by_cases h0 : c.2 = 0
    · have : (c :: cs).filter (fun c => c.2 ≠ 0) = cs.filter (fun c => c.2 ≠ 0) := by
        simp [List.filter_cons, h0]
      rw [this, amtOf_filter d cs]
      simp [amtOf, h0]
    · have : (c :: cs).filter (fun c => c.2 ≠ 0) = c :: cs.filter (fun c => c.2 ≠ 0) := by
        simp [List.filter_cons, h0]
      rw [this]
      simp only [amtOf, amtOf_filter d cs]

theorem bankMoveList_credit {s p : Nat} (hsp : s ≠ p) :
    ∀ {cs : List (Nat × Nat)} {w w' : World}, bankMoveList w s p cs = .ok w' →
      ∀ d, w'.bank p d = w.bank p d + amtOf d cs
  | [], w, w', h, d => by
    simp only [bankMoveList] at h; injection h with h; subst h; simp [amtOf]
  | (d', a) :: cs, w, w', h, d => by
    simp only [bankMoveList, bind_ok_iff] at h
    obtain ⟨w1, h1, h2⟩ := h
    rw [bankMoveList_credit hsp h2 d, bankMove1_bank h1]
    have hps : p ≠ s := Ne.symm hsp
    by_cases hd : d = d'
    · subst hd
      simp [amtOf, hps]
      omega
    · have hd' : ¬ d' = d := fun e => hd e.symm
      simp [amtOf, hd, hd']

/-- the pair's bank balance of every denom grows by at least the first attached coin of that denom -/
theorem attach_credit {w w0 : World} {s p : Nat} {funds : List (Nat × Nat)} (h : attach w s p funds = .ok w0)
    (hsp : s ≠ p) (d : Nat) : w.bank p d + firstAmt d funds ≤ w0.bank p d := by
  unfold attach at h
  split at h
  · rename_i hf
    injection h with h
    subst h
    subst hf
    simp [firstAmt]
  · unfold bankSend at h
    dsimp only at h
    split at h
    · cases h
    · rw [bankMoveList_credit hsp h d, amtOf_filter]
      have := firstAmt_le d funds
      omega

/-! ### the swap handler on the pair -/

theorem pairSwap_core {w0 w' : World} {p : Nat} {P : PairSt} {funds : List (Nat × Nat)} {trader : Nat}
    {offer : Asset} {amt : Nat} {b ms tt : Option Nat} {o : SwapOut}
    (hne : P.a0 ≠ P.a1) (h : pairSwap w0 p P funds trader offer amt b ms tt = .ok (w', o)) :
    ∃ n s k, (offer = P.a0 ∨ offer = P.a1) ∧ P.other offer ≠ offer ∧ amt ≤ bal w0 offer p ∧
      computeSwap (bal w0 offer p - amt) (bal w0 (P.other offer) p) amt P.comm = .ok (n, s, k) ∧
      bal w' offer p = bal w0 offer p ∧ bal w0 (P.other offer) p - n ≤ bal w' (P.other offer) p ∧
      (∀ t, supply w' t = supply w0 t) := by
  obtain ⟨_, _, _, x, y, ask, od, ad, n, s, k, hbr, hcs, _, _, hw⟩ := C02.pairSwap_ok h
  have hask : (offer = P.a0 ∨ offer = P.a1) ∧ ask = P.other offer ∧ ask ≠ offer ∧ amt ≤ bal w0 offer p ∧
      x = bal w0 offer p - amt ∧ y = bal w0 ask p := by
    rcases hbr with ⟨ha, hle, hx, hy, hk, _, _⟩ | ⟨hna, hb, hle, hx, hy, hk, _, _⟩
    · subst ha
      refine ⟨Or.inl rfl, ?_, ?_, hle, hx, ?_⟩
      · rw [hk]; simp [PairSt.other]
      · rw [hk]; exact Ne.symm hne
      · rw [hy, hk]
    · subst hb
      refine ⟨Or.inr rfl, ?_, ?_, hle, hx, ?_⟩
      · rw [hk]; simp [PairSt.other, hna]
      · rw [hk]; exact hne
      · rw [hy, hk]
  obtain ⟨h1, h2, h3, h4, rfl, rfl⟩ := hask
  subst h2
  refine ⟨n, s, k, h1, h3, h4, hcs, ?_⟩
  rcases hw with ⟨_, rfl⟩ | ⟨hn, hp⟩
  · exact ⟨rfl, Nat.sub_le _ _, fun _ => rfl⟩
  · refine ⟨?_, ?_, supply_payout hp⟩
    · rw [(bal_payout hp offer p).2.2, if_neg (Ne.symm h3)]
    · have hle := (bal_payout hp (P.other offer) p).2.1
      rw [(bal_payout hp (P.other offer) p).2.2]
      simp only [↓reduceIte]
      split <;> omega

/-- a swap on the pair, seen from a world `w` before the transaction whose reserves are below the pricing
inputs -/
theorem swap_on_p {w w0 w' : World} {p : Nat} {P : PairSt} {funds : List (Nat × Nat)} {trader : Nat}
    {offer : Asset} {amt : Nat} {b ms tt : Option Nat} {o : SwapOut}
    (hne : P.a0 ≠ P.a1) (hsw : pairSwap w0 p P funds trader offer amt b ms tt = .ok (w', o))
    (h1 : bal w offer p + amt ≤ bal w0 offer p) (h2 : bal w (P.other offer) p ≤ bal w0 (P.other offer) p) :
    (Grow (bal w P.a0 p) (bal w P.a1 p) (bal w' P.a0 p) (bal w' P.a1 p) ∧ ∀ t, supply w' t = supply w0 t) ∨
      inWindow (bal w0 offer p - amt) (bal w0 (P.other offer) p) amt = true := by
  obtain ⟨n, s, k, hor, hoth, hle, hcs, e1, e2, hsup⟩ := pairSwap_core hne hsw
  cases hwin : inWindow (bal w0 offer p - amt) (bal w0 (P.other offer) p) amt with
  | true => exact Or.inr rfl
  | false =>
    left
    refine ⟨?_, hsup⟩
    have g : Grow (bal w offer p) (bal w (P.other offer) p) (bal w' offer p) (bal w' (P.other offer) p) :=
      grow_swap hcs hwin (by omega) h2 (by rw [e1]; omega) e2
    rcases hor with rfl | rfl
    · have : P.other P.a0 = P.a1 := by simp [PairSt.other]
      rw [this] at g
      exact g
    · have : P.other P.a1 = P.a0 := by simp [PairSt.other, Ne.symm hne]
      rw [this] at g
      exact g.swap

/-- the same when exactly the offer was credited to the pair before the handler ran -/
theorem swap_on_p_exact {w w0 w' : World} {p : Nat} {P : PairSt} {funds : List (Nat × Nat)} {trader : Nat}
    {offer : Asset} {amt : Nat} {b ms tt : Option Nat} {o : SwapOut}
    (hne : P.a0 ≠ P.a1) (hsw : pairSwap w0 p P funds trader offer amt b ms tt = .ok (w', o))
    (h1 : bal w0 offer p = bal w offer p + amt) (h2 : ∀ b, b ≠ offer → bal w0 b p = bal w b p) :
    (Grow (bal w P.a0 p) (bal w P.a1 p) (bal w' P.a0 p) (bal w' P.a1 p) ∧ ∀ t, supply w' t = supply w0 t) ∨
      inWindow (bal w offer p) (bal w (P.other offer) p) amt = true := by
  obtain ⟨_, _, _, _, hoth, _⟩ := pairSwap_core hne hsw
  have e := h2 _ hoth
  rcases swap_on_p (w := w) hne hsw (by omega) (by rw [e]) with g | hw
  · exact Or.inl g
  · right
    rw [h1, e, Nat.add_sub_cancel] at hw
    exact hw

/-! ### one router hop -/

theorem routerHop_inv {w w' : World} {o a : Asset} {tt : Option Nat}
    (h : routerHop w w.router o a tt = .ok w') :
    ∃ R Q w0 funds so, facLookup w o a = some R ∧ w.pair R.pair = some Q ∧
      pairSwap w0 R.pair Q funds w.router o (bal w o w.router) none none tt = .ok (w', so) ∧
      (∀ t, supply w0 t = supply w t) ∧
      (w.router ≠ R.pair → bal w0 o R.pair = bal w o R.pair + bal w o w.router ∧
        ∀ b, b ≠ o → bal w0 b R.pair = bal w b R.pair) := by
  cases o with
  | native d =>
    obtain ⟨R, so, hR, hex⟩ := C13.routerHop_native_ok h
    obtain ⟨Q, w0, hQ, hat, hsw⟩ := C02.pairExec_swap_native_ok hex
    refine ⟨R, Q, w0, _, so, hR, hQ, hsw, fun t => by simp [supply, (attach_same hat).2], fun hrp => ?_⟩
    obtain ⟨_, _, e3, _, e5⟩ := C02.attach_single_effect hrp hat
    exact ⟨e3, fun b hb => e5 b _ (Or.inl hb)⟩
  | token t =>
    obtain ⟨R, so, hR, hex⟩ := C13.routerHop_token_ok h
    obtain ⟨Q, w0, o', ho, hQ, htr, _, _, _, hsw⟩ := C02.tokSendPair_swap_ok hex
    injection ho with ho
    subst ho
    refine ⟨R, Q, w0, _, so, hR, hQ, hsw, supply_tokTransfer htr, fun hrp => ?_⟩
    obtain ⟨_, _, e3, _, e5⟩ := C02.tokTransfer_effect hrp htr
    exact ⟨e3, fun b hb => e5 b _ (Or.inl hb)⟩

/-- one hop, seen from pair `p`: all supplies are unchanged; a hop on another pair only adds to `p`'s balances;
a hop on `p` is a swap priced on exactly the inputs that `hopTrace` records -/
theorem hop_view {w w' : World} {o a : Asset} {tt : Option Nat} {p : Nat} {P : PairSt}
    (hP : w.pair p = some P) (hne : P.a0 ≠ P.a1) (hpr : p ≠ w.router)
    (h : routerHop w w.router o a tt = .ok w') :
    ∃ R Q, facLookup w o a = some R ∧ w.pair R.pair = some Q ∧ (∀ t, supply w' t = supply w t) ∧
      (Grow (bal w P.a0 p) (bal w P.a1 p) (bal w' P.a0 p) (bal w' P.a1 p) ∨
        (R.pair = p ∧ inWindow (bal w o R.pair) (bal w (Q.other o) R.pair) (bal w o w.router) = true)) := by
  obtain ⟨R, Q, w0, funds, so, hR, hQ, hsw, hs0, hcred⟩ := routerHop_inv h
  obtain ⟨_, _, _, _, _, _, _, hs1⟩ := C02.pairSwap_effect hsw
  refine ⟨R, Q, hR, hQ, fun t => by rw [hs1 t, hs0 t], ?_⟩
  by_cases hq : R.pair = p
  · subst hq
    rw [hP] at hQ
    injection hQ with hQ
    subst hQ
    obtain ⟨c1, c2⟩ := hcred (Ne.symm hpr)
    rcases swap_on_p_exact hne hsw c1 c2 with ⟨g, _⟩ | hw
    · exact Or.inl g
    · exact Or.inr ⟨rfl, hw⟩
  · left
    have tr : Tr (fun z => z = w.router ∨ z = R.pair) (fun _ => False) (fun _ => False) w w' :=
      routerHop_tr h (Or.inl rfl) (fun R' hR' _ => by
        rw [hR] at hR'; injection hR' with hR'; subst hR'; exact Or.inr rfl)
    have hk : ∀ b, bal w b p ≤ bal w' b p := fun b => tr.keep b p (by
      rintro (e | e)
      · exact hpr e
      · exact hq e.symm)
    exact Grow.of_le (hk _) (hk _)

/-! ### routes -/

theorem routerHops_cons {w w' : World} {rcv : Nat} {o a : Asset} {rest : List (Asset × Asset)}
    (h : routerHops w rcv ((o, a) :: rest) = .ok w') :
    ∃ w1, routerHop w w.router o a (if rest.isEmpty then some rcv else none) = .ok w1 ∧
      routerHops w1 rcv rest = .ok w' := by
  cases rest with
  | nil =>
    simp only [routerHops] at h
    exact ⟨w', by simpa using h, by simp [routerHops]⟩
  | cons b rest =>
    simp only [routerHops, bind_ok_iff] at h
    obtain ⟨w1, h1, h2⟩ := h
    exact ⟨w1, by simpa using h1, h2⟩

theorem hopTrace_cons {w w1 : World} {rcv : Nat} {o a : Asset} {rest : List (Asset × Asset)} {R : Record} {Q : PairSt}
    (hR : facLookup w o a = some R) (hQ : w.pair R.pair = some Q)
    (h1 : routerHop w w.router o a (if rest.isEmpty then some rcv else none) = .ok w1) :
    hopTrace w rcv ((o, a) :: rest) =
      (R.pair, bal w o R.pair, bal w (Q.other o) R.pair, bal w o w.router) :: hopTrace w1 rcv rest := by
  simp only [hopTrace, hR, hQ, h1]

/-- the pair `p` with its assets, as the hops of a route need it -/
def HInv (w : World) (p : Nat) (a0 a1 : Asset) : Prop :=
  (∃ P, w.pair p = some P ∧ P.a0 = a0 ∧ P.a1 = a1) ∧ p ≠ w.router

theorem HInv.of_stat {N : Nat → Prop} {w w' : World} {p : Nat} {a0 a1 : Asset} (h : HInv w p a0 a1)
    (st : Stat N w w') : HInv w' p a0 a1 := by
  obtain ⟨⟨P, hP, e0, e1⟩, hr⟩ := h
  obtain ⟨P', hP', f0, f1, _⟩ := st.pairSome p P hP
  exact ⟨⟨P', hP', f0.trans e0, f1.trans e1⟩, by rw [st.router]; exact hr⟩

theorem hops_view {p : Nat} {a0 a1 : Asset} {rcv : Nat} (hne : a0 ≠ a1) :
    ∀ (ops : List (Asset × Asset)) {w w' : World}, HInv w p a0 a1 → routerHops w rcv ops = .ok w' →
      (∀ t, supply w' t = supply w t) ∧
      (Grow (bal w a0 p) (bal w a1 p) (bal w' a0 p) (bal w' a1 p) ∨
        ∃ t ∈ hopTrace w rcv ops, t.1 = p ∧ inWindow t.2.1 t.2.2.1 t.2.2.2 = true)
  | [], w, w', _, h => by
    simp only [routerHops] at h
    injection h with h
    subst h
    exact ⟨fun _ => rfl, Or.inl (Grow.refl _ _)⟩
  | (o, a) :: rest, w, w', hI, h => by
    obtain ⟨⟨P, hP, e0, e1⟩, hpr⟩ := hI
    have hne' : P.a0 ≠ P.a1 := by rw [e0, e1]; exact hne
    obtain ⟨w1, h1, h2⟩ := routerHops_cons h
    obtain ⟨R, Q, hR, hQ, hs1, hv⟩ := hop_view hP hne' hpr h1
    rw [e0, e1] at hv
    have st : Stat (fun _ => False) w w1 :=
      (routerHop_tr (S := fun _ => True) (Mn := fun _ => False) h1 trivial (fun _ _ _ => trivial)).stat
    have hI1 : HInv w1 p a0 a1 := HInv.of_stat ⟨⟨P, hP, e0, e1⟩, hpr⟩ st
    obtain ⟨hs2, hv2⟩ := hops_view hne rest hI1 h2
    rw [hopTrace_cons hR hQ h1]
    refine ⟨fun t => by rw [hs2, hs1], ?_⟩
    rcases hv with g | ⟨hq, hw⟩
    · rcases hv2 with g2 | ⟨t, ht, e⟩
      · exact Or.inl (g.trans g2)
      · exact Or.inr ⟨t, List.mem_cons_of_mem _ ht, e⟩
    · exact Or.inr ⟨_, List.mem_cons_self .., hq, hw⟩

theorem swapOps_view {name : Asset → String} {p : Nat} {a0 a1 : Asset} {w w' : World} {sender : Nat}
    {ops : List (Asset × Asset)} {mn tt : Option Nat} (hne : a0 ≠ a1) (hI : HInv w p a0 a1)
    (h : routerSwapOps name w sender ops mn tt = .ok w') :
    (∀ t, supply w' t = supply w t) ∧
      (Grow (bal w a0 p) (bal w a1 p) (bal w' a0 p) (bal w' a1 p) ∨
        ∃ t ∈ hopTrace w (tt.getD sender) ops, t.1 = p ∧ inWindow t.2.1 t.2.2.1 t.2.2.2 = true) := by
  unfold routerSwapOps at h
  split at h
  · cases h
  simp only [bind_ok_iff] at h
  obtain ⟨_, _, h⟩ := h
  split at h
  · exact hops_view hne _ hI h
  · simp only [bind_ok_iff, pure_ok_iff] at h
    obtain ⟨_, _, w1, h1, _, _, rfl⟩ := h
    exact hops_view hne _ hI h1

end Halo.C03W
